import anyio
from anyio.functools import lru_cache
calls = []
gate = None
@lru_cache(maxsize=2)
async def f(x):
    calls.append(x)
    if x == 1 and len([c for c in calls if c == 1]) == 1:
        await gate.wait()
    return x * 10
async def main():
    global gate
    gate = anyio.Event()
    async with anyio.create_task_group() as tg:
        tg.start_soon(f, 1)           # in flight
        await anyio.sleep(0.01)
        f.cache_clear()               # clear while f(1) is in flight
        gate.set()
    print("after in-flight call finished:", f.cache_info())
    print(await f(2), await f(3), f.cache_info())
    print(await f(2), await f(3), f.cache_info(), calls)
anyio.run(main)
