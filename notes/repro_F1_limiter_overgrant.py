import anyio, asyncio
from anyio import CapacityLimiter, create_task_group, sleep, CancelScope

async def f1():
    lim = CapacityLimiter(2)
    running = 0
    peak = 0
    async def worker(ev):
        nonlocal running, peak
        async with lim:
            running += 1; peak = max(peak, running)
            await ev.wait()
            running -= 1
    evs = [anyio.Event() for _ in range(3)]
    async with create_task_group() as tg:
        for e in evs: tg.start_soon(worker, e)
        await sleep(0.01)
        print("borrowed", lim.borrowed_tokens, "total", lim.total_tokens, "waiting", lim.statistics().tasks_waiting)
        lim.total_tokens = 1
        print("after lower: borrowed", lim.borrowed_tokens, "total", lim.total_tokens)
        lim.total_tokens = 2
        await sleep(0.01)
        print("after raise: borrowed", lim.borrowed_tokens, "total", lim.total_tokens, "running", running, "available", lim.available_tokens)
        for e in evs: e.set()
    print("F1 over-grant:", peak > 2, "peak", peak)
anyio.run(f1)
