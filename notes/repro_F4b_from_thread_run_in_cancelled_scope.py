import anyio, asyncio, threading, time
from anyio import create_task_group, sleep, CancelScope, to_thread, from_thread, get_cancelled_exc_class
async def main():
    log=[]
    async def inner():
        t0=time.monotonic()
        try:
            await sleep(2)
            log.append(("inner slept full", round(time.monotonic()-t0,2)))
        except get_cancelled_exc_class():
            log.append(("inner cancelled after", round(time.monotonic()-t0,2))); raise
    def thread_fn():
        time.sleep(0.2)      # by now the host scope is cancelled and its delivery idle
        try:
            from_thread.run(inner)
        except BaseException as e:
            log.append(("thread saw", type(e).__name__))
    with CancelScope() as scope:
        async with create_task_group() as tg:
            async def canceller():
                await sleep(0.05); scope.cancel()
            tg.start_soon(canceller)
            await to_thread.run_sync(thread_fn)
    print(log)
anyio.run(main)
