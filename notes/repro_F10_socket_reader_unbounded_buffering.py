"""F10 (found while building C18): SocketStream does not apply back-pressure on the READ side
unless a receive() has blocked and woken up at least once since the transport last read.

asyncio transports start in reading mode.  `connect_tcp` pauses the new transport, but
`TCPSocketListener.accept` (connect_accepted_socket) and `wrap_stream_socket` do not, and
`SocketStream.receive` only calls `pause_reading()` after a *normal* wake-up of
`read_event.wait()`: a receive() that is cancelled while blocked leaves the transport reading,
and every later receive() that finds data takes the `else: checkpoint()` branch, which never
pauses.  From then on the protocol's read_queue grows without bound for as long as the peer
writes faster than the application reads (C18: "back-pressure rather than loss, unbounded
buffering or deadlock").

Run:  PYTHONPATH=/repo/src /venv/bin/python repro_F10_socket_reader_unbounded_buffering.py
Expected (back-pressure): the writer stalls after a few MB (kernel buffers), queue stays small.
Observed: hundreds of MB queued in `stream._protocol.read_queue` within two seconds, for
 (a) an accepted stream whose handler does not read at once, and
 (b) a connect_tcp stream after one receive() cancelled by move_on_after.
Candidate repair: notes/candidate-fix-F10-socket-read-backpressure.diff
"""
import sys

import anyio
from anyio.abc import SocketAttribute


async def scenario(which: str) -> int:
    listener = await anyio.create_tcp_listener(local_host="127.0.0.1")
    port = listener.extra(SocketAttribute.local_port)
    accepted = {}
    async with anyio.create_task_group() as tg:
        async def handler(s):
            accepted["s"] = s

        tg.start_soon(listener.serve, handler)
        client = await anyio.connect_tcp("127.0.0.1", port)
        await anyio.sleep(0.05)
        reader, writer = (accepted["s"], client) if which == "accepted" else (client, accepted["s"])
        if which == "cancelled":
            with anyio.move_on_after(0.05):
                await reader.receive()

        async def flood():
            while True:
                await writer.send(b"x" * 65536)

        tg.start_soon(flood)
        for _ in range(8):
            await anyio.sleep(0.2)
            await reader.receive(1000)  # slow reader
        queued = sum(map(len, reader._protocol.read_queue))
        tg.cancel_scope.cancel()
    return queued


if __name__ == "__main__":
    bad = False
    for which in ("accepted", "cancelled"):
        q = anyio.run(scenario, which)
        print(f"{which}: {q} bytes buffered in the reader's protocol queue")
        bad |= q > 16 * 1024 * 1024
    sys.exit(1 if bad else 0)
