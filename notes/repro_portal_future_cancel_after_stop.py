"""Candidate finding (C15, found while modelling BlockingPortal._call_func):

A call that passed `_check_running()` before `portal.stop()` ran, but whose task begins after it,
captures `event_loop_thread_id = None` in `_call_func`; its done-callback then takes neither branch,
so `Future.cancel()` does not cancel the task (neither from a foreign thread nor when the future was
cancelled before the task's first step).  The portal's exit then waits for the whole task.

Expected on the pinned tree:  future.cancelled() == True, task NOT cancelled, exit takes ~1 s.
"""
import threading
import time

import anyio
from anyio.from_thread import start_blocking_portal

log = []
gate = threading.Event()


async def work():
    try:
        await anyio.sleep(1.0)
        log.append("work ran to completion")
    except BaseException as e:
        log.append(f"work interrupted by {type(e).__name__}")
        raise


with start_blocking_portal() as portal:
    portal.start_task_soon(gate.wait)          # park the event loop inside a plain callable
    time.sleep(0.05)
    stopper = threading.Thread(target=lambda: portal.call(portal.stop))
    stopper.start()                             # request 1: stop (passes _check_running, parked)
    time.sleep(0.05)
    box = {}
    starter = threading.Thread(target=lambda: box.setdefault("f", portal.start_task_soon(work)))
    starter.start()                             # request 2: accepted, stop() has not run yet
    time.sleep(0.05)
    gate.set()                                  # loop resumes: stop() runs, then work() begins
    starter.join()
    stopper.join()
    time.sleep(0.05)
    f = box["f"]
    print("Future.cancel() ->", f.cancel(), " cancelled:", f.cancelled())
    t0 = time.monotonic()
print(f"leaving the portal took {time.monotonic() - t0:.2f} s;", log)
