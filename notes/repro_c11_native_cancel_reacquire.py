"""C11 boundary (not a finding under the cancel-scope reading; see C11_native_cancel_reacquire_witness):
a native Task.cancel() that lands while Condition.wait() is re-acquiring the lock under its shield
makes wait() raise CancelledError *without* the lock; the notification it had consumed is not passed
on, and `async with cond:` then turns the CancelledError into a RuntimeError from release().

run:  PYTHONPATH=/repo/src /venv/bin/python /verif/notes/repro_c11_native_cancel_reacquire.py
"""
import asyncio

import anyio


async def main() -> None:
    cond = anyio.Condition()
    log: list[str] = []

    async def waiter(name: str) -> None:
        try:
            async with cond:
                await cond.wait()
                log.append(f"{name}: woke holding the lock")
        except BaseException as e:  # noqa: BLE001
            log.append(f"{name}: {type(e).__name__}: {e}")

    w1 = asyncio.create_task(waiter("w1"))
    w2 = asyncio.create_task(waiter("w2"))
    for _ in range(6):
        await asyncio.sleep(0)
    async with cond:
        cond.notify(1)            # selects w1
        await asyncio.sleep(0)    # w1 wakes normally, queues for the lock we still hold
        w1.cancel()               # native cancellation: cancels w1's Lock future under the shield
        await asyncio.sleep(0)
    for _ in range(4):
        await asyncio.sleep(0)
    log.append(f"tasks still waiting: {cond.statistics().tasks_waiting} (w2 done: {w2.done()})")
    print("\n".join(log))
    w2.cancel()
    await asyncio.gather(w1, w2, return_exceptions=True)


asyncio.run(main())
