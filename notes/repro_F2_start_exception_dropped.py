import anyio
from anyio import create_task_group, sleep, CancelScope, get_cancelled_exc_class

async def child(task_status):
    try:
        await sleep(10)
    except get_cancelled_exc_class():
        raise ValueError("cleanup failed")   # error raised while being cancelled
    task_status.started()

async def f2():
    got = None
    try:
        async with create_task_group() as tg:
            with CancelScope() as scope:
                async def canceller():
                    await sleep(0.05); scope.cancel()
                tg.start_soon(canceller)
                try:
                    await tg.start(child)
                except BaseException as e:
                    print("start() raised", type(e).__name__, e)
                    raise
            print("after scope: cancelled_caught", scope.cancelled_caught)
    except BaseException as e:
        got = e
    print("group raised:", repr(got))
anyio.run(f2)
