"""Close a UNIXSocketStream while one task is blocked in receive() and another in send()."""
import asyncio, os, sys, tempfile, logging
import anyio
from anyio import ClosedResourceError

async def main(results):
    d = tempfile.mkdtemp()
    path = os.path.join(d, "s")
    listener = await anyio.create_unix_listener(path)
    async with listener:
        client = await anyio.connect_unix(path)
        server = await listener.accept()
        out = {}
        async def recv():
            try:
                await client.receive()
                out["recv"] = "returned"
            except BaseException as e:
                out["recv"] = type(e).__name__
        async def send():
            try:
                await client.send(b"x" * (8 * 1024 * 1024))  # peer never reads: blocks on the full buffer
                out["send"] = "returned"
            except BaseException as e:
                out["send"] = type(e).__name__
        async with anyio.create_task_group() as tg:
            tg.start_soon(recv)
            tg.start_soon(send)
            await anyio.wait_all_tasks_blocked()
            await client.aclose()
            with anyio.move_on_after(2) as sc:
                while len(out) < 2:
                    await anyio.sleep(0.01)
            out["timed_out"] = sc.cancelled_caught
            tg.cancel_scope.cancel()
        await server.aclose()
    results.update(out)

for backend_options in ({}, {"use_uvloop": True}):
    errs = []
    class H(logging.Handler):
        def emit(self, record): errs.append(record.getMessage().splitlines()[0])
    logging.getLogger("asyncio").addHandler(H())
    res = {}
    anyio.run(main, res, backend_options=backend_options)
    print("uvloop" if backend_options else "asyncio", res, "loop errors:", errs[:3])
