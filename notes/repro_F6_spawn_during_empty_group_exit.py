import anyio, asyncio
from anyio import create_task_group, sleep, Event

async def main():
    log = []
    ev = Event()
    holder = {}
    async def late_child():
        log.append("late child started")
        await sleep(0.2)
        log.append("late child STILL RUNNING after its group block ended")
    async def interloper():
        await ev.wait()
        holder['h'] = holder['tg'].create_task(late_child())
        log.append("spawned into inner group")
    async with create_task_group() as outer:
        outer.start_soon(interloper)
        await sleep(0.01)
        async with create_task_group() as inner:
            holder['tg'] = inner
            ev.set()
        log.append("inner block exited; child status=%s" % holder['h'].status.name if 'h' in holder else "inner block exited, no spawn")
    print("\n".join(log))
anyio.run(main)
