"""F11: a native Task.cancel() landing on the host while TaskGroup.__aexit__ runs its
checkpoint for the child-less case (a) lets a task spawned during that checkpoint outlive
the block (C01) and (b) drops the body's own exception (C02)."""
import asyncio, anyio
from anyio import create_task_group, sleep, Event

async def a():
    log = []
    ev = Event(); holder = {}
    host = asyncio.current_task()
    async def late():
        try:
            await sleep(0.2); log.append("late child STILL RUNNING after its group block ended")
        finally:
            log.append("late child ended")
    async def interloper():
        await ev.wait()
        holder['h'] = holder['tg'].create_task(late())
        host.cancel()                      # e.g. asyncio.timeout() expiring
    async with create_task_group() as outer:
        outer.start_soon(interloper)
        await sleep(0.01)
        try:
            async with create_task_group() as inner:
                holder['tg'] = inner
                ev.set()
        except asyncio.CancelledError:
            host.uncancel()
            log.append("inner block raised CancelledError; child status=%s" % holder['h'].status.name)
    print("A:", log)
    return "PENDING" in log[0] if log else False

async def b():
    host = asyncio.current_task()
    got = None
    try:
        async with create_task_group():
            asyncio.get_running_loop().call_soon(host.cancel)
            raise ValueError("body failed")
    except BaseException as e:
        got = e
        if isinstance(e, asyncio.CancelledError): host.uncancel()
    print("B: block raised", repr(got))
    return not isinstance(got, BaseExceptionGroup)

bad_a = anyio.run(a); bad_b = anyio.run(b)
print("F11 child outlives block:", bad_a, " body exception dropped:", bad_b)
raise SystemExit(1 if (bad_a or bad_b) else 0)
