import anyio
from anyio import create_task_group, sleep, Event
from anyio.functools import lru_cache, lru_cache_items

async def main():
    gates = {}
    running = {}
    peak = {}
    fail = set()
    @lru_cache(maxsize=1)
    async def f(k):
        running[k] = running.get(k,0)+1; peak[k] = max(peak.get(k,0), running[k])
        try:
            await gates[k].wait()
            if k in fail: raise ValueError(k)
            return k*10
        finally:
            running[k] -= 1
    results = {}
    async def call(name, k):
        try:
            results[name] = await f(k)
        except BaseException as e:
            results[name] = repr(e)
    # scenario A: exceed maxsize
    gates[1] = Event(); gates[2] = Event()
    async with create_task_group() as tg:
        tg.start_soon(call, "a", 1); await sleep(0.01)
        tg.start_soon(call, "b", 2); await sleep(0.01)   # evicts the in-flight placeholder of key 1
        gates[1].set(); await sleep(0.01); gates[2].set()
    entries = lru_cache_items.get()[f]
    print("A results", results, "retained", len(entries), "cache_info", f.cache_info())
    # scenario B: KeyError leak. a: f(1) in flight; d waits on key-1 lock; b: f(2) evicts key 1; a fails
    f.cache_clear(); results.clear()
    gates[1] = Event(); gates[2] = Event(); fail.add(1)
    async with create_task_group() as tg:
        tg.start_soon(call, "a", 1); await sleep(0.01)
        tg.start_soon(call, "d", 1); await sleep(0.01)
        tg.start_soon(call, "b", 2); await sleep(0.01)
        gates[1].set(); await sleep(0.01); gates[2].set()
    print("B results", results)
    # scenario C: single flight broken
    f.cache_clear(); results.clear(); fail.clear(); peak.clear()
    gates[1] = Event(); gates[2] = Event()
    async with create_task_group() as tg:
        tg.start_soon(call, "a", 1); await sleep(0.01)
        tg.start_soon(call, "b", 2); await sleep(0.01)
        tg.start_soon(call, "c", 1); await sleep(0.01)
        print("C concurrent executions of key 1:", running[1])
        gates[1].set(); gates[2].set()
    print("C results", results, "peak", peak)
anyio.run(main)
