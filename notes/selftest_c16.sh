#!/bin/bash
# mutation self-test for C16 on a scratch copy of /repo/src
set -u
W=/tmp/c16mut
run() { # name file sed-expr
  rm -rf $W; mkdir -p $W; cp -r /repo/src $W/src
  if [ "$2" = "REVERT" ]; then
    (cd $W && git -C /repo show b9ceb54 -- src/anyio/streams/text.py | patch -R -p1 -s) || echo "patch failed"
  else
    sed -i "$3" $W/src/anyio/streams/$2
  fi
  if diff -rq /repo/src/anyio/streams $W/src/anyio/streams >/dev/null; then echo "$1: MUTATION DID NOT APPLY"; return; fi
  out=$(cd /verif && ANYIO_REPO=$W ./check C16 2>&1); rc=$?
  echo "$1: exit=$rc $(echo "$out" | grep -c '^VIOLATION') violation line(s): $(echo "$out" | grep '^VIOLATION' | head -3 | sed 's/.*replay=//' | tr '\n' ' ')"
  for f in $(echo "$out" | grep '^VIOLATION' | sed 's/.*replay=\([^ ]*\).*/\1/' | head -2); do
    python3 -c "import json,sys;e=json.load(open('$f'));print('    ',(e.get('what') or str(e.get('no_longer_checks')))[:230])"
  done
}
run M1_limit_gt        buffered.py 's/if len(self._buffer) >= max_bytes:/if len(self._buffer) > max_bytes:/'
run M2_offset_plus2    buffered.py 's/offset = max(len(self._buffer) - delimiter_size + 1, 0)/offset = max(len(self._buffer) - delimiter_size + 2, 0)/'
run M2b_offset_no_plus buffered.py 's/offset = max(len(self._buffer) - delimiter_size + 1, 0)/offset = max(len(self._buffer) - 1, 0)/'
run M3_drop_surplus    buffered.py 's/self._buffer.extend(chunk\[max_bytes:\])/pass/'
run M4_exactly_short   buffered.py 's/if remaining <= 0:/if remaining <= 1:/'
run M5_revert_F9       REVERT x
run M6_keep_delimiter  buffered.py 's/del self._buffer\[: index + len(delimiter) :\]/del self._buffer[:index]/'
run M7_text_empty      text.py 's/            if decoded:/            if True:/'
run M8_exactly_maxarg  buffered.py 's/chunk = await self.receive_stream.receive(remaining)/chunk = await self.receive_stream.receive(remaining + 1)/'
rm -rf $W
