import anyio, asyncio
from anyio import create_task_group, sleep, CancelScope, get_cancelled_exc_class

async def main():
    me = asyncio.current_task()
    # give the host a non-zero native cancellation count (as asyncio.timeout / TaskGroup would)
    me.cancel()
    try:
        await asyncio.sleep(0)
    except asyncio.CancelledError:
        pass
    before = me.cancelling()
    async def child():
        await sleep(10)
    with CancelScope() as outer:       # so that the whole thing is absorbed
        async with create_task_group() as tg:
            h = tg.create_task(child())
            await sleep(0.01)
            h.cancel()                  # child's own handle scope: origin with host = child
            tg.cancel_scope.cancel()    # group scope cancelled too -> child's scope does not absorb
            await sleep(0.5)
    after = me.cancelling()
    print("cancelling before", before, "after", after)
anyio.run(main)
