import anyio, asyncio
from anyio import create_task_group, sleep, CancelScope, get_cancelled_exc_class
async def f4():
    loop = asyncio.get_running_loop()
    log = []
    async def child():
        t0 = loop.time()
        try:
            await sleep(5)
            log.append(("child finished sleep", loop.time()-t0))
        except get_cancelled_exc_class():
            log.append(("child cancelled after", round(loop.time()-t0,3)))
            raise
    async with create_task_group() as tg:
        tg.cancel_scope.cancel()
        with CancelScope(shield=True):
            await sleep(0.05)      # delivery of tg scope goes idle: host is behind a shield, no other tasks
            print("cancel_handle is None:", tg.cancel_scope._cancel_handle is None)
            tg.start_soon(child)   # spawned into an already cancelled scope
            await sleep(1.0)
            print("after 1s inside shield:", log)
    print("end:", log)
anyio.run(f4)
