"""tee() under cancellation: what happens to the source when the pulling consumer is cancelled.

Run:  PYTHONPATH=/repo/src /venv/bin/python /verif/notes/repro_tee_cancel_source_reinvoked.py

Not a defect of tee -- it documents why `C19_teecancel_source_once` counts cancelled invocations
(the literal "the source's __anext__ is invoked at most len+1 times" is false as soon as a pull is
cancelled: the pull is repeated; Lean witness: the last `example` of Props/C19teecancel.lean), and
the assumption "the asynchronous source is cancel-safe" of the model.

1. cancel-safe asynchronous source (a cancelled `__anext__` takes nothing): the consumer that is
   cancelled inside `await anext(self.iterator)` releases the lock, its retry (or another
   consumer) invokes the source again; nobody loses an element.  3 invocations for 1 element.
2. synchronous source: `_IterableAsyncIterator.__anext__` checks for cancellation BEFORE
   `next(iterator)` and is shielded after it, so `next()` is called exactly len+1 times however
   often the puller is cancelled.
3. asynchronous GENERATOR as the source (not cancel-safe): the CancelledError thrown into the
   suspended generator finishes it; the next pull gets StopAsyncIteration, tee stores `_tee_end`
   and every consumer's sequence ends early, silently.  The same happens to a plain
   `async for` + retry over an async generator; tee neither causes nor detects it.
"""

import asyncio

import anyio
from anyio import CancelScope
from anyio.itertools import tee


class Source:
    """cancel-safe: suspends first, takes the element afterwards"""

    def __init__(self, xs):
        self.xs = list(xs)
        self.calls = 0
        self.cancelled = 0

    def __aiter__(self):
        return self

    async def __anext__(self):
        self.calls += 1
        try:
            await asyncio.sleep(0.01)
        except BaseException:
            self.cancelled += 1
            raise
        if not self.xs:
            raise StopAsyncIteration
        return self.xs.pop(0)


class SyncSource:
    def __init__(self, xs):
        self.xs = list(xs)
        self.calls = 0

    def __iter__(self):
        return self

    def __next__(self):
        self.calls += 1
        if not self.xs:
            raise StopIteration
        return self.xs.pop(0)


async def consume(it, first_deadline):
    """every call in its own scope; the first one with a deadline; retry on cancellation"""
    got, cancelled, deadline = [], 0, first_deadline
    while True:
        with CancelScope(deadline=anyio.current_time() + deadline if deadline else float("inf")) as sc:
            try:
                got.append(await anext(it))
            except StopAsyncIteration:
                return got, cancelled
        if sc.cancelled_caught:
            cancelled += 1
            deadline = None


async def main():
    src = Source([1])
    a, b = tee(src, 2)
    (ga, ca), (gb, cb) = await asyncio.gather(consume(a, 0.005), consume(b, None))
    print(f"1. cancel-safe async source: a={ga} ({ca} cancelled calls) b={gb}; source invoked {src.calls} "
          f"times, {src.cancelled} cancelled, for 1 element")
    assert ga == gb == [1] and src.calls == 3 and src.cancelled == 1

    s2 = SyncSource([1, 2])
    a, b = tee(s2, 2)
    got = []
    for k in range(20):  # a pre-cancelled scope around every other call
        with CancelScope() as sc:
            if k % 2 == 0:
                sc.cancel()
            try:
                got.append(await anext(a))
            except StopAsyncIteration:
                break
    gb = [x async for x in b]
    print(f"2. sync source: a={got} b={gb}; next() called {s2.calls} times for 2 elements")
    assert got == gb == [1, 2] and s2.calls == 3

    async def gen():
        for x in (1, 2, 3):
            await asyncio.sleep(0.01)
            yield x

    a, b = tee(gen(), 2)
    (ga, ca), (gb, cb) = await asyncio.gather(consume(a, 0.005), consume(b, None))
    print(f"3. async generator source: a={ga} ({ca} cancelled calls) b={gb}  <- the generator was finished "
          f"by the CancelledError; every consumer is cut short (source not cancel-safe)")
    assert ga == gb == []


anyio.run(main)
