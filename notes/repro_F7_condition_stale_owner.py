import anyio
from anyio import Condition, create_task_group, sleep
async def main():
    cond = Condition()
    async with cond:
        pass
    # we no longer hold the lock
    for name in ("notify", "notify_all"):
        try:
            getattr(cond, name)()
            print(name, "by a task that does NOT hold the lock: accepted (no RuntimeError); locked =", cond.locked())
        except RuntimeError as e:
            print(name, "refused:", e)
    try:
        await cond.wait()
    except RuntimeError as e:
        print("wait refused:", e)
    # other direction: lock acquired through the shared Lock object directly
    lock = anyio.Lock(); c2 = Condition(lock)
    async with lock:
        try:
            c2.notify(); print("notify while holding underlying lock via lock object: accepted")
        except RuntimeError as e:
            print("notify while holding the lock (acquired via the Lock object): refused:", e)
anyio.run(main)
