import Driver.Lock

def main (args : List String) : IO UInt32 := do
  match args with
  | ["lock"] => Driver.Lock.main; return 0
  | _ =>
    IO.eprintln "usage: modeld <model>"
    return 2
