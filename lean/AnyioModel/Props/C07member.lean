/-
C07  TaskGroup.start(): "... after which the child is an ordinary member of the group".

Property theorems only; helpers in `AnyioModel.Kernel.MemberInv` (`clearSF`, `Member`, the
commutation of the cancellation machinery with the erasure of `startFut`).

The done-callback of a task-group child (`task_done` in `TaskGroup._spawn`, `runTaskDone` in the
model) looks at the start future of a `start()` child.  Once the handshake is complete -- the
future holds the value passed to `task_status.started()` -- that look changes nothing:

* `C07_member_task_done_same` (ANY state): `task_done` of such a child and `task_done` of the same
  child with the start future erased (= a `start_soon` child) produce the same state, up to that
  one field; `C07_member_task_done_step_same` the same for the loop transition,
  `C07_member_task_done_same_fields` spelled out field by field,
  `C07_member_task_done_same_failed` the same for a start future holding an exception -- a state
  the callback never sees when reachable: `C07_member_failed_future_not_seen`;
* `C07_member_failed_future_not_seen` (over `Reach`), `C07_member_exception_only_by_task_done`:
  only `task_done` of `u` stores an exception in the start future of `u`, so the callback never
  finds one there;
* corollaries, one statement for `start_soon` children and started children alike (`Member`):
  `C07_member_outcome_recorded`, `C07_member_error_routed` (a), `C07_member_cancels_group`,
  `C07_member_cancelled_child_cancels_group` (b), `C07_member_leaves_group` (c);
* `C07_member_started_only_changes_future`, `C07_member_all_along`, `C07_member_since_spawn`:
  `started()` changes the start future and wakes the caller, nothing else: the child was a member
  since it was spawned.
-/
import AnyioModel.Kernel.MemberInv
import AnyioModel.Props.C07full2
import AnyioModel.Props.C04causes

namespace AnyioModel.Kernel

/-! ### 1. the done-callback does not distinguish a started child from a `start_soon` child -/

/-- **Same callback** (ANY state).  `u` is a `start()` child whose handshake is complete: its
start future `sf` holds the value passed to `started()`.  Running the `task_done` callback of `u`
and running it in the state where `u` is a `start_soon` child (`startFut := none`) give the same
result -- enabled in the one iff enabled in the other, and the resulting states are equal once
the `startFut` field of `u` is erased: same group records (`_tasks`, `_exceptions`, `routed`,
`_on_completed_fut`), same scopes (`cancelCalled`, the scheduled `_deliver_cancellation`), same
futures, same ready queue, same `Task.cancel()` bookkeeping of every task. -/
theorem C07_member_task_done_same (st : State) {u sf : Nat}
    (hsf : (st.tasks u).startFut = some sf) (hres : st.futs sf = .result) :
    runTaskDone (st.setTask u (fun x => { x with startFut := none })) u =
      (runTaskDone st u).map (fun s => s.setTask u (fun x => { x with startFut := none })) :=
  runTaskDone_clearSF (member_of_result hsf hres).over

/-- ... the same for a start future that holds an exception (ANY state).  In a reachable state the
callback never sees such a future: `C07_member_failed_future_not_seen` below; both sides of the
equation are `none` then. -/
theorem C07_member_task_done_same_failed (st : State) {u sf : Nat} {x : ExcVal}
    (hsf : (st.tasks u).startFut = some sf) (hres : st.futs sf = .failed x) :
    runTaskDone (st.setTask u (fun x => { x with startFut := none })) u =
      (runTaskDone st u).map (fun s => s.setTask u (fun x => { x with startFut := none })) := by
  refine runTaskDone_clearSF (st := st) (u := u) ?_
  intro sf' h
  rw [hsf] at h; cases h
  rw [hres]; exact ⟨rfl, rfl⟩

/-- **A start future holding an exception is never seen by the callback.**  The only transition
that stores an exception in a future is the `task_done` callback of a child, in the start future of
that child (the child ended before `started()`: `C07_early_exit`).  Hence in every reachable state
a start future of `u` that holds an exception belongs to a child whose callback has already run,
which has left `_task_states`, and whose callback is not enabled (again): the case "`task_done`
finds an exception in the start future" does not exist. -/
theorem C07_member_failed_future_not_seen {st : State} (h : Reach st) {u sf : Nat} {x : ExcVal}
    (hsf : (st.tasks u).startFut = some sf) (hf : st.futs sf = .failed x) :
    (st.tasks u).doneCbRun = true ∧ (st.tasks u).scope = none ∧
      step st (.run (.taskDone u)) = none := by
  have hcb := failed_start_future_cb_run h u sf x hsf hf
  have hsc := (ginv_reach h).g10 u hcb
  refine ⟨hcb, hsc, ?_⟩
  rw [step_taskDone_eq]
  split
  · rfl
  · have : runTaskDone { st with cur := st.cur.erase (.taskDone u) } u = none := by
      rw [runTaskDone_eq']
      show (match (st.tasks u).group, (st.tasks u).scope, (st.tasks u).outcome with
        | some g, some sc, some o => _
        | _, _, _ => none) = none
      rw [hsc]
      cases (st.tasks u).group <;> rfl
    rw [this]; rfl

/-- ... the one-step fact behind it (ANY state): a transition after which future `f` holds an
exception it did not hold before is the `task_done` callback of the child whose start future is
`f`. -/
theorem C07_member_exception_only_by_task_done {st st' : State} {e : Ev} {o : Out}
    (hs : step st e = some (st', o)) {f : Nat} {x : ExcVal} (hf : st'.futs f = .failed x)
    (hn : st.futs f ≠ .failed x) :
    ∃ u, e = .run (.taskDone u) ∧ (st.tasks u).startFut = some f := by
  rcases step_new_failed hs hf with h | h
  · exact absurd h hn
  · exact h

/-- ... as a statement about the loop transition `.run (.taskDone u)`: same enabledness, same
output, same state up to the erased field. -/
theorem C07_member_task_done_step_same (st : State) {u sf : Nat}
    (hsf : (st.tasks u).startFut = some sf) (hres : st.futs sf = .result) :
    step (st.setTask u (fun x => { x with startFut := none })) (.run (.taskDone u)) =
      (step st (.run (.taskDone u))).map
        (fun p => (p.1.setTask u (fun x => { x with startFut := none }), p.2)) := by
  have h := runTaskDone_clearSF
    (st := { st with cur := st.cur.erase (.taskDone u) }) (u := u)
    (member_of_result (st := { st with cur := st.cur.erase (.taskDone u) }) hsf hres).over
  show step (clearSF st u) _ = _
  rw [step_taskDone_eq, step_taskDone_eq]
  have e : ({ clearSF st u with cur := (clearSF st u).cur.erase (.taskDone u) } : State) =
      clearSF { st with cur := st.cur.erase (.taskDone u) } u := rfl
  rw [e, h]
  by_cases hc : st.running.isSome ∨ Handle.taskDone u ∉ st.cur
  · have hc' : (clearSF st u).running.isSome ∨ Handle.taskDone u ∉ (clearSF st u).cur := hc
    rw [if_pos hc', if_pos hc]; rfl
  · have hc' : ¬ ((clearSF st u).running.isSome ∨ Handle.taskDone u ∉ (clearSF st u).cur) := hc
    rw [if_neg hc', if_neg hc]
    cases runTaskDone { st with cur := st.cur.erase (.taskDone u) } u <;> rfl

/-- ... field by field: if the callback of the started child leads to `st'`, the callback of the
`start_soon` twin leads to a state `st0'` that agrees with `st'` on every component of the state
and on every field of every task except `startFut` of `u`. -/
theorem C07_member_task_done_same_fields {st st' : State} {u sf : Nat}
    (hsf : (st.tasks u).startFut = some sf) (hres : st.futs sf = .result)
    (he : runTaskDone st u = some st') :
    ∃ st0', runTaskDone (st.setTask u (fun x => { x with startFut := none })) u = some st0' ∧
      st0'.groups = st'.groups ∧ st0'.scopes = st'.scopes ∧ st0'.futs = st'.futs ∧
      st0'.futWaiter = st'.futWaiter ∧ st0'.ready = st'.ready ∧ st0'.cur = st'.cur ∧
      st0'.timers = st'.timers ∧ st0'.running = st'.running ∧ st0'.now = st'.now ∧
      st0'.userFut = st'.userFut ∧
      (∀ t, t ≠ u → st0'.tasks t = st'.tasks t) ∧
      st0'.tasks u = { st'.tasks u with startFut := none } := by
  refine ⟨clearSF st' u, ?_, rfl, rfl, rfl, rfl, rfl, rfl, rfl, rfl, rfl, rfl,
    fun t ht => clearSF_tasks_other st' u ht, clearSF_tasks_self st' u⟩
  rw [C07_member_task_done_same st hsf hres, he]
  rfl

/-! ### 2. what the callback does for a member, started or not -/

/-- the state the callback of an ordinary member leads to -/
theorem C07_member_task_done_shape {st st' : State} {out : Out} {u : Nat} (hm : Member st u)
    (hs : step st (.run (.taskDone u)) = some (st', out)) :
    ∃ g sc o, (st.tasks u).group = some g ∧ (st.tasks u).scope = some sc ∧
      (st.tasks u).outcome = some o ∧
      st' = memberTail (taskDoneMid
        (taskDoneCore { st with cur := st.cur.erase (.taskDone u) } u g sc) g) g u o := by
  have he := C07_taskDone_step hs
  rw [runTaskDone_handshake_over (st := { st with cur := st.cur.erase (.taskDone u) })
    (Member.over (st := { st with cur := st.cur.erase (.taskDone u) }) hm)] at he
  split at he
  · rename_i g sc o hg hsc ho
    simp only [Option.some.injEq] at he
    exact ⟨g, sc, o, hg, hsc, ho, he.symm⟩
  · contradiction

/-- **(a) the outcome is recorded.**  The callback of a member that ended with a non-cancellation
exception appends the exception to the group's `_exceptions` and marks the child as routed -- for
a child whose start future holds a result exactly as for a `start_soon` child (both are
`Member`s).  Nothing is recorded for a child that returned or ended with a `CancelledError`. -/
theorem C07_member_outcome_recorded {st st' : State} {out : Out} {u g : Nat} {o : Outcome}
    (hm : Member st u) (hg : (st.tasks u).group = some g) (ho : (st.tasks u).outcome = some o)
    (hs : step st (.run (.taskDone u)) = some (st', out)) :
    (o ≠ .none → o.isCancelledError = false →
      (st'.groups g).exceptions = (st.groups g).exceptions ++ o.leaves ∧
      (st'.groups g).routed = u :: (st.groups g).routed) ∧
    (o = .none ∨ o.isCancelledError = true →
      (st'.groups g).exceptions = (st.groups g).exceptions ∧
      (st'.groups g).routed = (st.groups g).routed) := by
  obtain ⟨g', sc, o', hg', _, ho', rfl⟩ := C07_member_task_done_shape hm hs
  rw [hg] at hg'; cases hg'
  rw [ho] at ho'; cases ho'
  generalize hM : taskDoneMid (taskDoneCore { st with cur := st.cur.erase (.taskDone u) } u g sc) g
    = M
  have hMg : M.groups g = { st.groups g with tasks := (st.groups g).tasks.erase u } := by
    rw [← hM, taskDoneMid_groups, taskDoneCore_group_self]
  have hcs : ∀ (R : State) (s : Nat), (cancelScope R s false).groups = R.groups :=
    fun R s => (cframe_cancelScope R s false).groups
  constructor
  · intro hne hnc
    simp only [memberTail, hne, if_false, hnc, Bool.false_eq_true]
    split
    · simp [routeErr, hMg]
    · rw [hcs]; simp [routeErr, hMg]
  · intro h
    rcases h with rfl | hc
    · simp [memberTail, hMg]
    · by_cases hne : o = .none
      · subst hne; simp [memberTail, hMg]
      · simp only [memberTail, hne, if_false, hc, if_true]
        split
        · simp [hMg]
        · rw [hcs]; simp [hMg]

/-- ... over `Reach`, in the words of the property: a started child (start future holds a result)
that dies of a non-cancellation exception is routed into the group like any other child. -/
theorem C07_member_error_routed {st st' : State} {out : Out} {u g sf : Nat} {o : Outcome}
    (_h : Reach st) (hg : (st.tasks u).group = some g) (ho : (st.tasks u).outcome = some o)
    (hne : o ≠ .none) (hnc : o.isCancelledError = false)
    (hsf : (st.tasks u).startFut = some sf) (hres : st.futs sf = .result)
    (hs : step st (.run (.taskDone u)) = some (st', out)) :
    u ∈ (st'.groups g).routed ∧
      (st'.groups g).exceptions = (st.groups g).exceptions ++ o.leaves := by
  obtain ⟨h1, h2⟩ := (C07_member_outcome_recorded (member_of_result hsf hres) hg ho hs).1 hne hnc
  exact ⟨by rw [h2]; exact List.mem_cons_self, h1⟩

/-- **(b) the group is cancelled.**  The callback of a member that ended with ANY exception --
a `CancelledError` of its own included -- calls `cancel()` on the group scope iff the group scope
is not effectively cancelled already:
* not effectively cancelled: the group scope was not cancelled and is cancelled afterwards, and
  the transition is the `childFailed` cause of `C04_cancel_causes`;
* effectively cancelled: no scope's `cancelCalled` changes.
For a child whose start future holds a result exactly as for a `start_soon` child. -/
theorem C07_member_cancels_group {st st' : State} {out : Out} {u g : Nat} {o : Outcome}
    (h : Reach st) (hm : Member st u) (hg : (st.tasks u).group = some g)
    (ho : (st.tasks u).outcome = some o) (hne : o ≠ .none)
    (hs : step st (.run (.taskDone u)) = some (st', out)) :
    (effCancelled st (st.groups g).scope = false →
      (st.scopes (st.groups g).scope).cancelCalled = false ∧
      (st'.scopes (st.groups g).scope).cancelCalled = true ∧
      CancelCause st (.run (.taskDone u)) (st.groups g).scope) ∧
    (effCancelled st (st.groups g).scope = true →
      ∀ x, (st'.scopes x).cancelCalled = (st.scopes x).cancelCalled) := by
  obtain ⟨g', sc, o', hg', _, ho', rfl⟩ := C07_member_task_done_shape hm hs
  rw [hg] at hg'; cases hg'
  rw [ho] at ho'; cases ho'
  have hnav := memberMid_sameNav { st with cur := st.cur.erase (.taskDone u) } u g sc
  have hcc := memberMid_cancelCalled { st with cur := st.cur.erase (.taskDone u) } u g sc
  generalize hM : taskDoneMid (taskDoneCore { st with cur := st.cur.erase (.taskDone u) } u g sc) g
    = M at hnav hcc
  have hMg : (M.groups g).scope = (st.groups g).scope := by
    rw [← hM, taskDoneMid_groups, taskDoneCore_group_self]
  -- the state `R` in which `_effectively_cancelled` is evaluated has the scopes of `M`
  have hR : ∀ R : State, R.scopes = M.scopes →
      effCancelled R (st.groups g).scope = effCancelled st (st.groups g).scope := by
    intro R hRs
    rw [effCancelled_congr (st := M) (st' := R) (SameWalk.of_scopes_eq hRs).nav]
    exact effCancelled_congr (st := st) (st' := M) (fun i => hnav i) _
  have key : ∀ R : State, R.scopes = M.scopes →
      (effCancelled st (st.groups g).scope = false →
        (((if effCancelled R (st.groups g).scope = true then R
          else cancelScope R (st.groups g).scope false).scopes (st.groups g).scope).cancelCalled
            = true)) ∧
      (effCancelled st (st.groups g).scope = true →
        ∀ x, (((if effCancelled R (st.groups g).scope = true then R
          else cancelScope R (st.groups g).scope false).scopes x).cancelCalled
            = (st.scopes x).cancelCalled)) := by
    intro R hRs
    rw [hR R hRs]
    constructor
    · intro he
      rw [he]
      simp only [Bool.false_eq_true, if_false]
      exact cancelScope_cancelCalled _ _ _
    · intro he x
      rw [he]
      simp only [if_true]
      rw [hRs]
      exact hcc x
  have hst' : memberTail M g u o =
      (if effCancelled (if o.isCancelledError = true then M else routeErr M g u o)
          (st.groups g).scope = true
        then (if o.isCancelledError = true then M else routeErr M g u o)
        else cancelScope (if o.isCancelledError = true then M else routeErr M g u o)
          (st.groups g).scope false) := by
    simp only [memberTail, hne, if_false, hMg]
  rw [hst']
  have hRs : (if o.isCancelledError = true then M else routeErr M g u o).scopes = M.scopes := by
    split <;> rfl
  obtain ⟨k1, k2⟩ := key _ hRs
  refine ⟨fun he => ?_, k2⟩
  have h0 : (st.scopes (st.groups g).scope).cancelCalled = false := by
    cases hc : (st.scopes (st.groups g).scope).cancelCalled
    · rfl
    · rw [effCancelled_of_cancelCalled (wf_reach h) hc] at he; cases he
  refine ⟨h0, k1 he, ?_⟩
  refine CancelCause.childFailed u g o hg ho hne he ?_
  intro sf hsf
  rw [hm sf hsf]
  exact ⟨rfl, fun hx => by obtain ⟨_, a, ha⟩ := hx; cases ha⟩

/-- ... the case the seeded fault removes, in the words of the property: a started child (start
future holds a result) dies of a `CancelledError` while the group is not effectively cancelled:
its callback cancels the group scope, as for a `start_soon` child. -/
theorem C07_member_cancelled_child_cancels_group {st st' : State} {out : Out} {u g sf : Nat}
    {o : Outcome} (h : Reach st) (hg : (st.tasks u).group = some g)
    (ho : (st.tasks u).outcome = some o) (_hc : o.isCancelledError = true) (hne : o ≠ .none)
    (hsf : (st.tasks u).startFut = some sf) (hres : st.futs sf = .result)
    (heff : effCancelled st (st.groups g).scope = false)
    (hs : step st (.run (.taskDone u)) = some (st', out)) :
    (st.scopes (st.groups g).scope).cancelCalled = false ∧
    (st'.scopes (st.groups g).scope).cancelCalled = true :=
  let r := (C07_member_cancels_group h (member_of_result hsf hres) hg ho hne hs).1 heff
  ⟨r.1, r.2.1⟩

/-- **(c) the child leaves the group.**  The callback of a member removes it from the group's
`_tasks` (in a reachable state it was in there, and is not afterwards; no other group changes its
`_tasks`), and when it was the last one the group's `_on_completed_fut` gets its result (unless
that future is done already: the host was cancelled while waiting) -- whatever the outcome, for a
child whose start future holds a result exactly as for a `start_soon` child. -/
theorem C07_member_leaves_group {st st' : State} {out : Out} {u g : Nat}
    (h : Reach st) (hm : Member st u) (hg : (st.tasks u).group = some g)
    (hs : step st (.run (.taskDone u)) = some (st', out)) :
    u ∈ (st.groups g).tasks ∧ (st'.groups g).tasks = (st.groups g).tasks.erase u ∧
    u ∉ (st'.groups g).tasks ∧ (∀ g', g' ≠ g → (st'.groups g').tasks = (st.groups g').tasks) ∧
    (st'.tasks u).doneCbRun = true ∧
    (∀ f, (st.groups g).onCompleted = some f → (st.groups g).tasks = [u] →
      st'.futs f = if (st.futs f).done = true then st.futs f else .result) := by
  have gi := ginv_reach h
  obtain ⟨g', sc, o, hg', hsc, _, rfl⟩ := C07_member_task_done_shape hm hs
  rw [hg] at hg'; cases hg'
  have hfut := memberMid_futs { st with cur := st.cur.erase (.taskDone u) } u g sc
  generalize hM : taskDoneMid (taskDoneCore { st with cur := st.cur.erase (.taskDone u) } u g sc) g
    = M at hfut
  have hMg : ∀ g', M.groups g' = if g' = g then
      { st.groups g with tasks := (st.groups g).tasks.erase u } else st.groups g' := by
    intro g'
    rw [← hM, taskDoneMid_groups]
    split
    · rename_i e; subst e; exact taskDoneCore_group_self _ u g' sc
    · rename_i e; exact taskDoneCore_group_other _ u g sc e
  have hMt : (M.tasks u).doneCbRun = true := by
    rw [← hM]
    have fr : Frame (taskDoneCore { st with cur := st.cur.erase (.taskDone u) } u g sc)
        (taskDoneMid (taskDoneCore { st with cur := st.cur.erase (.taskDone u) } u g sc) g) := by
      unfold taskDoneMid
      split
      · split
        · exact frame_resolveFut _ _ _
        · exact Frame.refl _
      · exact Frame.refl _
    rw [(fr.tasks u).doneCbRun]
    simp [taskDoneCore]
  -- the end of the callback changes no `_tasks`, no `doneCbRun`, and no future that is done
  obtain ⟨X, hXf, hXt, _, hXg, hXe⟩ := memberTail_cases M g u o
  have hcf := cframe_cancelScope X (M.groups g).scope false
  have hTt : ∀ g', ((memberTail M g u o).groups g').tasks = (M.groups g').tasks := by
    intro g'
    have : (memberTail M g u o).groups = X.groups := by
      rcases hXe with e | e
      · rw [e]
      · rw [e]; exact hcf.groups
    rw [this]
    rcases hXg with e | e
    · rw [e]
    · rw [e]
      by_cases hgg : g' = g
      · subst hgg; simp [routeErr]
      · simp [routeErr, hgg]
  have hTd : ((memberTail M g u o).tasks u).doneCbRun = (M.tasks u).doneCbRun := by
    rcases hXe with e | e
    · rw [e, hXt]
    · rw [e, (hcf.tasks u).doneCbRun, hXt]
  have hTf : ∀ f, (M.futs f).done = true → (memberTail M g u o).futs f = M.futs f := by
    intro f hd
    rcases hXe with e | e
    · rw [e, hXf]
    · rw [e, hcf.futs f (by rw [hXf]; exact hd), hXf]
  have hnd := gi.g1n g
  have hmem : u ∈ (st.groups g).tasks := by
    rcases (gi.g2 g u (gi.g0 u g hg)).2 with hin | ⟨_, hcb⟩
    · exact hin
    · have := gi.g10 u hcb
      rw [hsc] at this; cases this
  refine ⟨hmem, ?_, ?_, ?_, ?_, ?_⟩
  · rw [hTt, hMg]; simp
  · rw [hTt, hMg]; simp only [if_true]
    exact fun hc => (List.Nodup.mem_erase_iff hnd).mp hc |>.1 rfl
  · intro g' hne
    rw [hTt, hMg]; simp [hne]
  · rw [hTd]; exact hMt
  · intro f hf hlast
    have hMf := hfut f
    have he : (st.groups g).tasks.erase u = [] := by rw [hlast]; simp
    have hMd : (M.futs f).done = true := by
      rw [hMf]
      split
      · rfl
      · rename_i hn
        cases hd : (st.futs f).done
        · exact absurd ⟨hf, he, hd⟩ hn
        · rfl
    rw [hTf f hMd, hMf]
    cases hd : (st.futs f).done
    · simp [hf, he]
    · simp

/-! ### 3. `started()` changes the start future and wakes the caller, nothing else -/

/-- **`started()` touches nothing but the future.**  The transition `task_status.started()` executed
by child `t` with start future `sf` either changes nothing at all (the future was not pending:
second call, or the caller was cancelled), or gives the pending future its result and -- if a task
`c` is blocked on it: the caller of `start()` -- marks `c` as woken and schedules its wake-up.
Groups, scopes, the child's own record: untouched. -/
theorem C07_member_started_only_changes_future {st st' : State} {o : Out} {t : Nat}
    (hr : st.running = some t) (hs : step st .started = some (st', o)) :
    ∃ sf, (st.tasks t).startFut = some sf ∧
      ((st.futs sf ≠ .pending ∧ st' = st) ∨
       (st.futs sf = .pending ∧
        (st' = st.setFut sf .result ∨
         ∃ c, st.futWaiter sf = some c ∧ (st.tasks c).st = .blocked sf ∧
           st' = ((st.setFut sf .result).setTask c (fun x => { x with st := .woken sf })).schedule
             (.wakeup c)))) := by
  cases hsf : (st.tasks t).startFut with
  | none => simp [step, hr, hsf] at hs
  | some sf =>
    refine ⟨sf, rfl, ?_⟩
    obtain ⟨h1, h2, h3, h4⟩ := C07_second_started hr hsf hs
    cases hf : st.futs sf with
    | pending =>
      right
      refine ⟨rfl, ?_⟩
      rw [(h1 hf).1]
      unfold resolveFut
      simp only [hf, FutSt.done, Bool.false_eq_true, if_false, setFut_futWaiter, setFut_tasks]
      split
      · rename_i c hc
        by_cases hb : (st.tasks c).st = .blocked sf
        · rw (transparency := .default) [if_pos hb]; exact .inr ⟨c, hc, hb, rfl⟩
        · rw (transparency := .default) [if_neg hb]; exact .inl rfl
      · exact .inl rfl
    | result => exact .inl ⟨by simp, (h2 hf).1⟩
    | failed e => exact .inl ⟨by simp, (h3 e hf).1⟩
    | cancelled a => exact .inl ⟨by simp, (h4 a hf).1⟩

/-- **A member all along.**  Across `started()` -- by whichever task -- every task `u` keeps its
group, its scope, its handle scope and its start future; every group keeps its record (`_tasks`
included) and every scope its record (`_tasks`, `cancelCalled`, ...): the membership of the child
in its group and in the group's cancel scope is the same before and after the handshake. -/
theorem C07_member_all_along {st st' : State} {o : Out}
    (hs : step st .started = some (st', o)) :
    st'.groups = st.groups ∧ st'.scopes = st.scopes ∧
    (∀ u, (st'.tasks u).group = (st.tasks u).group ∧ (st'.tasks u).scope = (st.tasks u).scope ∧
      (st'.tasks u).hscope = (st.tasks u).hscope ∧ (st'.tasks u).hasState = (st.tasks u).hasState ∧
      (st'.tasks u).startFut = (st.tasks u).startFut ∧
      (st'.tasks u).outcome = (st.tasks u).outcome ∧
      (st'.tasks u).doneCbRun = (st.tasks u).doneCbRun) ∧
    (∀ u g, u ∈ (st'.groups g).tasks ↔ u ∈ (st.groups g).tasks) ∧
    (∀ u s, u ∈ (st'.scopes s).tasks ↔ u ∈ (st.scopes s).tasks) := by
  cases hr : st.running with
  | none => simp [step, hr] at hs
  | some t =>
    have key : st'.groups = st.groups ∧ st'.scopes = st.scopes ∧
        ∀ u, TaskFrame (st.tasks u) (st'.tasks u) := by
      obtain ⟨sf, _, ⟨_, rfl⟩ | ⟨_, rfl | ⟨c, _, _, rfl⟩⟩⟩ :=
        C07_member_started_only_changes_future hr hs
      · exact ⟨rfl, rfl, fun u => TaskFrame.refl _⟩
      · exact ⟨rfl, rfl, fun u => TaskFrame.refl _⟩
      · refine ⟨rfl, rfl, fun u => ?_⟩
        by_cases hu : u = c
        · subst hu
          simp only [schedule_tasks, setTask_tasks, setFut_tasks, upd_same]
          constructor <;> simp_all
        · simp only [schedule_tasks, setTask_tasks, setFut_tasks, upd_other _ _ _ _ hu]
          exact TaskFrame.refl _
    obtain ⟨kg, ks, kt⟩ := key
    refine ⟨kg, ks, fun u => ?_, fun u g => by rw [kg], fun u s => by rw [ks]⟩
    have f := kt u
    exact ⟨f.group, f.scope, f.hscope, f.hasState, f.startFut, f.outcome, f.doneCbRun⟩

/-- ... and in every reachable state a `start()` child is in its group's `_tasks` from the moment
it is spawned until its `task_done` callback has run, whatever the state of the start future
(pending, result, cancelled): the handshake plays no part in membership. -/
theorem C07_member_since_spawn {st : State} (h : Reach st) {u g : Nat}
    (hg : (st.tasks u).group = some g) :
    u ∈ (st.groups g).spawned ∧
      (u ∈ (st.groups g).tasks ∨ ((st.tasks u).st = .done ∧ (st.tasks u).doneCbRun = true)) :=
  ⟨(ginv_reach h).g0 u g hg, ((ginv_reach h).g2 g u ((ginv_reach h).g0 u g hg)).2⟩

/-! ### 4. non-vacuity -/

section Examples

/-- the handshake: group 0 (scope 0), `start()` creates child 1 with start future 0; the child
calls `started()` and suspends; `start()` returns normally in the host (task 0) -/
private def handshake : List Ev :=
  [.mkGroup, .groupEnter 0, .start 0, .beginCycle 0, .run (.step 1), .started, .yield,
   .beginCycle 0, .run (.wakeup 0)]

/-- after the handshake the child is a `Member` of group 0 in the sense above: start future 0 holds
a result, the child is in `_tasks`, the group scope is not cancelled -/
example :
    (traceFrom step init handshake).map
      (fun p => (p.2.getLast?, (p.1.tasks 1).startFut, p.1.futs 0)) =
      some (some (.done .none), some 0, .result) ∧
    (runFrom step init handshake).map
      (fun st => ((st.tasks 1).group, (st.groups 0).tasks, (st.scopes 0).cancelCalled)) =
      some (some 0, [1], false) := by decide

/-- a started child later raises `err 5`: its callback records it and cancels the group ... -/
example : (runFrom step init (handshake ++
    [.aexit 0 .none, .run (.step 1), .finish (.one (.err 5)), .beginCycle 0,
     .run (.taskDone 1)])).map
    (fun st => ((st.groups 0).exceptions, (st.groups 0).routed, (st.groups 0).tasks,
      (st.scopes 0).cancelCalled)) = some ([.err 5], [1], [], true) := by decide

/-- ... and the group's exit raises it -/
example : (traceFrom step init (handshake ++
    [.aexit 0 .none, .run (.step 1), .finish (.one (.err 5)), .beginCycle 0,
     .run (.taskDone 1), .beginCycle 0, .run (.wakeup 0)])).map
    (fun p => (p.2.getLast?, (p.1.groups 0).exited)) =
    some (some (.done (.group [.err 5])), true) := by decide

/-- a started child is cancelled natively after the handshake (`task.cancel()` on the child) while
the group is not cancelled; the child ends with that `CancelledError`.  Before its callback the
group scope is neither cancelled nor effectively cancelled, the start future holds a result ... -/
example : (runFrom step init (handshake ++
    [.nativeCancel 1, .aexit 0 .none, .run (.step 1), .finish (.one .cancelNative),
     .beginCycle 0])).map
    (fun st => ((st.scopes 0).cancelCalled, effCancelled st 0, (st.tasks 1).startFut, st.futs 0,
      (st.tasks 1).outcome)) =
    some (false, false, some 0, .result, some (.one .cancelNative)) := by decide

/-- ... and the callback cancels the group scope (the behaviour the seeded fault removes: with the
fault the callback returns early and `cancelCalled` stays false); nothing is recorded in
`_exceptions`, the child has left `_tasks`, `_on_completed_fut` (future 1) has its result -/
example : (runFrom step init (handshake ++
    [.nativeCancel 1, .aexit 0 .none, .run (.step 1), .finish (.one .cancelNative),
     .beginCycle 0, .run (.taskDone 1)])).map
    (fun st => ((st.scopes 0).cancelCalled, (st.groups 0).exceptions, (st.groups 0).tasks,
      st.futs 1)) = some (true, [], [], .result) := by decide

/-- the same history with a `start_soon` child (`.spawn`): the same effect -/
example : (runFrom step init
    [.mkGroup, .groupEnter 0, .spawn 0, .aexit 0 .none, .beginCycle 0, .run (.step 1),
     .yield, .nativeCancel 1, .beginCycle 0, .run (.step 1),
     .finish (.one .cancelNative), .beginCycle 0, .run (.taskDone 1)]).map
    (fun st => ((st.scopes 0).cancelCalled, (st.groups 0).exceptions, (st.groups 0).tasks,
      st.futs 0)) = some (true, [], [], .result) := by decide

/-- the state before the callback of child 1 in that run -/
private def beforeCb : Option State :=
  runFrom step init (handshake ++
    [.nativeCancel 1, .aexit 0 .none, .run (.step 1), .finish (.one .cancelNative), .beginCycle 0])

/-- `C07_member_task_done_step_same` on that run: erasing the start future of child 1 before its
callback (first and second line), or not (third and fourth), gives the same group record, scope
flags, futures and ready queue -/
example :
    (beforeCb.bind (fun st =>
      step (st.setTask 1 (fun x => { x with startFut := none })) (.run (.taskDone 1)))).map
      (fun p => ((p.1.scopes 0).cancelCalled, (p.1.scopes 0).deliver, (p.1.groups 0).tasks)) =
      some (true, true, []) ∧
    (beforeCb.bind (fun st =>
      step (st.setTask 1 (fun x => { x with startFut := none })) (.run (.taskDone 1)))).map
      (fun p => (p.1.futs 1, p.1.ready)) = some (.result, [.wakeup 0, .deliver 0]) ∧
    (beforeCb.bind (fun st => step st (.run (.taskDone 1)))).map
      (fun p => ((p.1.scopes 0).cancelCalled, (p.1.scopes 0).deliver, (p.1.groups 0).tasks)) =
      some (true, true, []) ∧
    (beforeCb.bind (fun st => step st (.run (.taskDone 1)))).map
      (fun p => (p.1.futs 1, p.1.ready)) = some (.result, [.wakeup 0, .deliver 0]) := by decide

/-- contrast (the handshake NOT complete): the child is cancelled before it calls `started()`;
the callback hands the `CancelledError` to the caller of `start()` through the start future and
does not cancel the group -- the only situation in which the callback treats a `start()` child
differently (`C07_early_exit`) -/
example : (runFrom step init
    [.mkGroup, .groupEnter 0, .start 0, .beginCycle 0, .run (.step 1), .yield, .nativeCancel 1,
     .beginCycle 0, .run (.step 1), .finish (.one .cancelNative), .beginCycle 0,
     .run (.taskDone 1)]).map
    (fun st => ((st.scopes 0).cancelCalled, st.futs 0, (st.groups 0).tasks)) =
    some (false, .failed (.one .cancelNative), []) := by decide

/-- `C07_member_failed_future_not_seen` on that run: the start future holds the exception, the
callback of child 1 has run and is not enabled again -/
example : (runFrom step init
    [.mkGroup, .groupEnter 0, .start 0, .beginCycle 0, .run (.step 1), .yield, .nativeCancel 1,
     .beginCycle 0, .run (.step 1), .finish (.one .cancelNative), .beginCycle 0,
     .run (.taskDone 1)]).map
    (fun st => ((st.tasks 1).startFut, st.futs 0, (st.tasks 1).doneCbRun, (st.tasks 1).scope,
      (step st (.run (.taskDone 1))).isNone)) =
    some (some 0, .failed (.one .cancelNative), true, none, true) := by decide

end Examples

end AnyioModel.Kernel
