/-
C11, history level: "notify(n) releases at most n of the tasks waiting at that moment, in waiting
order, and a notification handed to a waiter that is being cancelled is passed on to the next
waiter".

`Props/C11.lean` states this per step (`C11_notify_at_most_n`, `C11_pass_on`).  Here the order
clause is stated over whole histories: for every event list (any number of tasks, any interleaving
of acquire / release / wait / notify / notify_all / wake-ups / cancellations) two logs are read off
the run - `wq`, the order in which `wait()` calls queued their event, and `sig`, the order in which
events were set (by `notify`, by `notify_all`, or by a cancelled waiter passing its notification
on) - and the events set so far, followed by the events still queued, are a subsequence of the
waiting order: no notification, direct or passed on, ever overtakes an earlier waiter that is still
waiting.  The logs are computed from what a step did (`Sync/ConditionHistory.lean`).
-/
import AnyioModel.Sync.ConditionHistory
import AnyioModel.Sync.ConditionAcct

namespace AnyioModel.Sync.Condition
open AnyioModel.Sync

theorem C11_notify_order_history {f : Bool} {es : List Ev} {s : State} {l : NLog}
    (h : runNLog (init f) {} es = some (s, l)) :
    (l.sig ++ s.waiters).Sublist l.wq ∧ l.sig.Sublist l.wq := by
  have := (ninv_runNLog es (inv_init f) (ninv_init f) h).2
  exact ⟨this, List.Sublist.trans (List.sublist_append_left _ _) this⟩

/-- every task is notified at most as often as it started waiting -/
theorem C11_notified_le_waited {f : Bool} {es : List Ev} {s : State} {l : NLog}
    (h : runNLog (init f) {} es = some (s, l)) (t : Nat) : l.sig.count t ≤ l.wq.count t :=
  (C11_notify_order_history h).2.count_le t

/-- one step signals a prefix of the queue, or nothing: the step-level shape behind the order -/
theorem C11_signalled_prefix {s s' : State} {e : Ev} {o : Out} (hr : Reach s)
    (hs : step s e = some (s', o)) : ∃ k, signalled s s' = s.waiters.take k := by
  cases qshape_step (inv_reach hr).q hs with
  | same _ h1 _ => exact ⟨0, by simp [h1]⟩
  | push _ _ h1 _ => exact ⟨0, by simp [h1]⟩
  | pop k _ h1 _ => exact ⟨k, h1⟩
  | leave _ _ h1 _ => exact ⟨0, by simp [h1]⟩

/-- `signalled` means what it says: a queued, unset event that is set after the step -/
theorem C11_signalled_sound {s s' : State} {u : Nat} (hr : Reach s) (h : u ∈ signalled s s') :
    u ∈ s.waiters ∧ isQueued (s.cpc u) = true ∧ isSet (s'.cpc u) = true := by
  unfold signalled at h
  have hm := (List.mem_filter.mp h)
  exact ⟨hm.1, ((inv_reach hr).q.queue_iff u).mp hm.1, hm.2⟩

theorem C11_runNLog_runFrom (s : State) (l : NLog) (es : List Ev) :
    (runNLog s l es).map Prod.fst = runFrom step s es := by
  induction es generalizing s l with
  | nil => rfl
  | cons e es ih =>
    simp only [runNLog, runFrom]
    split <;> simp_all

/-- No wake-up is lost or invented, over whole histories: every `wait()` that queued its event is
accounted for exactly once - the event was set (by `notify`, `notify_all` or a passed-on
notification), or the waiter took itself out of the queue because it was cancelled before being
notified (`left`), or the event is still queued. -/
theorem C11_wait_accounting {f : Bool} {es : List Ev} {s : State} {l : ALog}
    (h : runALog (init f) {} es = some (s, l)) :
    l.n.wq.Perm (l.n.sig ++ l.left ++ s.waiters) := by
  have := (ainvl_run es (inv_init f) (ainvl_init f) h).2
  rw [List.perm_iff_count]
  intro x
  simp only [List.count_append]
  exact this x

/-- If no waiter ever took itself out of the queue (no `wait()` was cancelled before being
notified), events are set in exactly the order in which the `wait()` calls queued them:
set ++ still queued = queued-in-order. -/
theorem C11_order_exact {f : Bool} {es : List Ev} {s : State} {l : ALog}
    (h : runALog (init f) {} es = some (s, l)) (hleft : l.left = []) :
    l.n.sig ++ s.waiters = l.n.wq := by
  have hsub : (l.n.sig ++ s.waiters).Sublist l.n.wq := ninv_runA es (inv_init f) (ninv_init f) h
  have hlen := (C11_wait_accounting h).length_eq
  apply hsub.eq_of_length_le
  simp only [hleft, List.append_nil, List.length_append] at hlen ⊢
  omega

/-- `leftQueue` means what it says: a queued event that is neither queued nor set afterwards -/
theorem C11_leftQueue_sound {s s' : State} {u : Nat} (h : u ∈ leftQueue s s') :
    u ∈ s.waiters ∧ u ∉ s'.waiters ∧ isSet (s'.cpc u) = false := by
  unfold leftQueue at h
  have hm := List.mem_filter.mp h
  have h2 := hm.2
  simp only [Bool.and_eq_true, Bool.not_eq_true', List.contains_eq_mem, decide_eq_false_iff_not] at h2
  exact ⟨hm.1, h2.1, h2.2⟩

example : (runALog (init true) {} [.acquire 1 false, .wait 1 false, .acquire 2 false, .wait 2 false,
    .fc 1, .step 1, .release 1, .acquire 0 false, .notify 0 1]).map
      (fun r => (r.2.n.wq, r.2.n.sig, r.2.left, r.1.waiters)) = some ([1, 2], [2], [1], []) := by decide

/-! ### non-vacuity: three waiters, the first is cancelled after being notified (passes it on) -/

def demoOrder : List Ev :=
  [.acquire 1 false, .wait 1 false, .acquire 2 false, .wait 2 false, .acquire 3 false, .wait 3 false,
   .acquire 0 false, .notify 0 1, .mc 1, .release 0, .step 1]

example : (runNLog (init true) {} demoOrder).map (fun r => (r.2.wq, r.2.sig, r.1.waiters)) =
    some ([1, 2, 3], [1, 2], [3]) := by decide

end AnyioModel.Sync.Condition
