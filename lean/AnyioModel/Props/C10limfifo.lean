/-
C10 (CapacityLimiter), history level: first come first served over whole (disciplined) histories.

`Props/C10.lean` has the step-level statements (`C10_fifo`, `C10_no_barging`, `C10_queue_order`).
Here: for every disciplined event list (any number of tasks and borrowers, releases, cancellations,
`total_tokens` assignments that wake several waiters at once) the queue entries notified so far,
followed by the entries still queued, are a subsequence of the order in which the entries entered the
wait queue - whoever is given a token by a wake-up got it in arrival order, whichever of the three
wake-up paths did it.
-/
import AnyioModel.Sync.LimiterHistory

namespace AnyioModel.Sync.Limiter

theorem C10_lim_fifo_history {s0 s : State} {es : List Ev} {l : QLog} (h0 : IsInit s0)
    (h : runQLog s0 {} es = some (s, l)) :
    (l.woken ++ s.queue).Sublist l.enq ∧ l.woken.Sublist l.enq := by
  have := (qinv_run es (inv_init h0) (qinv_init h0) h).2
  exact ⟨this, List.Sublist.trans (List.sublist_append_left _ _) this⟩

/-- an entry is notified at most as often as it entered the queue -/
theorem C10_lim_woken_le_entered {s0 s : State} {es : List Ev} {l : QLog} (h0 : IsInit s0)
    (h : runQLog s0 {} es = some (s, l)) (x : Nat × Nat) : l.woken.count x ≤ l.enq.count x :=
  (C10_lim_fifo_history h0 h).2.count_le x

/-- `wokenNow` means what it says: a queue entry whose task was blocked on an unset event and holds
a reservation after the step -/
theorem C10_lim_wokenNow_sound {s s' : State} {x : Nat × Nat} (hr : Reach s) (h : x ∈ wokenNow s s') :
    x ∈ s.queue ∧ queued (s.pc x.2) ∧ reserving (s'.pc x.2) := by
  have hi : Inv s := Reachable.invariant Inv (fun _ h => inv_init h)
    (fun _ _ _ _ hi hs => inv_step hi hs) s hr
  unfold wokenNow at h
  have hm := List.mem_filter.mp h
  exact ⟨hm.1, (hi.q_pc x.1 x.2 hm.1).2, isResv_iff.mp hm.2⟩

/-- ... and it misses nothing: a step notifies exactly a prefix of the queue -/
theorem C10_lim_wokenNow_prefix {s s' : State} {e : Ev} {o : Out} (hr : Reach s)
    (hs : dstep s e = some (s', o)) : ∃ k, wokenNow s s' = s.queue.take k := by
  have hi : Inv s := Reachable.invariant Inv (fun _ h => inv_init h)
    (fun _ _ _ _ hi hs => inv_step hi hs) s hr
  rcases dstep_cases hi hs with hqq | hg | ⟨s1, pre, hw, hq1, _, _, _, _⟩
  · refine ⟨0, ?_⟩
    have hi' := inv_step hi hs
    simp only [List.take_zero]
    apply wokenNow_nil
    intro x hx hrr
    have h1 := hi'.pc_r x.2 hrr
    have h3 := (hi.r_pc _ _ (hqq.2.2.1 _ h1)).2
    exact not_queued_reserving (hi.q_pc x.1 x.2 hx).2 h3
  · refine ⟨0, ?_⟩
    unfold wokenNow; rw [hg.1]; rfl
  · refine ⟨pre.length, ?_⟩
    have hi' := inv_step hi hs
    have hqs : s.queue = pre ++ s'.queue := by rw [← hq1, hw.queue]
    unfold wokenNow
    rw [hqs, List.filter_append, List.take_left']
    · have ha : pre.filter (fun x => isResv (s'.pc x.2)) = pre := by
        rw [List.filter_eq_self]
        intro x hx
        rw [isResv_iff]
        have : x ∈ s'.resv := by
          rw [hw.resv]; exact List.mem_append_left _ (List.mem_reverse.mpr hx)
        exact (hi'.r_pc x.1 x.2 this).2
      have hb : s'.queue.filter (fun x => isResv (s'.pc x.2)) = [] := by
        rw [List.filter_eq_nil_iff]
        intro x hx
        have := not_queued_reserving (hi'.q_pc x.1 x.2 hx).2
        rw [← isResv_iff] at this
        simpa using this
      rw [ha, hb, List.append_nil]
    · rfl

theorem C10_lim_runQLog_runFrom (s : State) (l : QLog) (es : List Ev) :
    (runQLog s l es).map Prod.fst = runFrom dstep s es := by
  induction es generalizing s l with
  | nil => rfl
  | cons e es ih =>
    simp only [runQLog, runFrom]
    split <;> simp_all

/-! non-vacuity: one token; two tasks queue; the release wakes the first, raising the total the second -/
example : (runQLog (init (some 1)) {} [.acquire 0 false, .step 0, .acquire 1 false, .acquire 2 false,
    .release 0, .setTotal (some 3)]).map (fun r => (r.2.enq, r.2.woken, r.1.queue)) =
    some ([(1, 1), (2, 2)], [(1, 1), (2, 2)], []) := by decide

end AnyioModel.Sync.Limiter
