/-
C18 (raw-socket part)  `_RawSocketMixin` / `UNIXSocketStream` on the asyncio backend:
"on a locally closed stream send raises ClosedResourceError and receive raises it as soon as no
already-received data is left, never blocking" -- here: closing a UNIX socket stream while tasks
are blocked in receive() and send() wakes both with ClosedResourceError and leaves nothing behind
in the event loop (defect F13, repaired by commit afa90d6).

Property theorems only; the model is `AnyioModel.Stream.RawSock` (parameters `fixed`: code after /
before the repair, `deferClose`: uvloop-like / stock loop), the invariant and its preservation are
in `AnyioModel.Stream.RawSockProofs`.  The statements about the current code quantify over every
reachable state, i.e. over all finite event lists (`call`, `fire`, `runCallback`, `resume`,
`cancel`, `aclose` in any order and number) and over both loop kinds.  The defect of the old code
is shown by explicit event lists.
-/
import AnyioModel.Stream.RawSockProofs

namespace AnyioModel.Stream.RawSock

theorem C18_rawsock_invariant {dc : Bool} {s : State} (h : Reach ⟨true, dc⟩ s) : Inv s := by
  refine Reachable.invariant Inv ?_ ?_ s h
  · rintro s rfl; exact inv_init
  · intro s e s' o hi hs; exact inv_step hi hs

/-- Current code, both loop kinds: `remove_reader`/`remove_writer` is never called for a closed
file descriptor (with or without a registration left), and whenever the socket is closed the loop
has no reader and no writer registration for it, so the descriptor is really closed (a
uvloop-like loop has nothing that could defer the close). -/
theorem C18_rawsock_no_registration_on_closed {dc : Bool} {s : State} (h : Reach ⟨true, dc⟩ s) :
    s.badRemove = 0 ∧ s.lateRemove = 0 ∧
    (s.closed = true → s.rd.reg = none ∧ s.wr.reg = none ∧ s.fdOpen = false) := by
  have hi := C18_rawsock_invariant h
  refine ⟨hi.bad, hi.late, fun hc => ?_⟩
  have hcl : s.closing = true := by rw [← hi.closed_eq]; exact hc
  refine ⟨?_, ?_, ?_⟩
  · rw [hi.rd.reg_eq]; simp [hcl]
  · rw [hi.wr.reg_eq]; simp [hcl]
  · rw [hi.fd, hc]; rfl

/-- Current code: the socket is closed exactly from `aclose()` on, and a registration always
belongs to the newest future of its direction, which is the one stored in the stream's field. -/
theorem C18_rawsock_registration_is_current {dc : Bool} {s : State} (h : Reach ⟨true, dc⟩ s)
    (d : Dir) {k : Nat} (hr : (s.side d).reg = some k) :
    s.closing = false ∧ s.closed = false ∧ k = (s.side d).gen ∧ (s.side d).field = some k := by
  have hi := C18_rawsock_invariant h
  have hd := hi.side d
  have h5 := hd.reg_eq
  have h4 := hd.field_eq
  have hce := hi.closed_eq
  grind

/-- `aclose()` itself (current code): every task that is waiting has its future resolved and is
woken, the stream is closing, the socket closed, and no registration is left. -/
theorem C18_rawsock_aclose_resolves_waiters {dc : Bool} {s s' : State} {o : Out}
    (h : Reach ⟨true, dc⟩ s) (hs : step ⟨true, dc⟩ s .aclose = some (s', o)) :
    s'.closing = true ∧ s'.closed = true ∧ s'.fdOpen = false ∧
    ∀ d, (s'.side d).reg = none ∧
      ((s.side d).pc = .waiting → (s'.side d).pc = .woken ∧ (s'.side d).fut = .resolved) := by
  have hi' := C18_rawsock_invariant (Reachable.next h hs)
  have hi := C18_rawsock_invariant h
  have hcl : s'.closing = true := by
    simp only [step] at hs
    cases hs
    exact doAclose_closing _ _
  have hcd : s'.closed = true := by rw [hi'.closed_eq]; exact hcl
  refine ⟨hcl, hcd, by rw [hi'.fd, hcd]; rfl, fun d => ⟨?_, fun hw => ?_⟩⟩
  · rw [(hi'.side d).reg_eq]; simp [hcl]
  · have hnc : s.closing = false := by
      cases hc : s.closing with
      | false => rfl
      | true => exact absurd hw ((hi.side d).closing_nowait hc)
    have hf := ((hi.side d).wait_fut hw).1
    have hfield := (hi.side d).field_eq
    simp only [step] at hs
    cases hs
    cases d <;> simp only [State.side] at hw hf hfield ⊢ <;>
      simp only [doAclose, hnc, closeSock, removeReg, wakeIfField, settle, State.side,
        State.setSide, Dir.other] <;> grind

/-- Current code, every reachable state in which the stream is closing: no task is suspended, no
future of the stream is pending, and the `resume` of a woken task ends the operation -- with
ClosedResourceError, or with CancelledError if the task's own scope had been cancelled while it
waited -- it never registers and waits again. -/
theorem C18_rawsock_close_wakes_all {dc : Bool} {s : State} (h : Reach ⟨true, dc⟩ s)
    (hc : s.closing = true) (d : Dir) :
    (s.side d).pc ≠ .waiting ∧ (s.side d).fut ≠ .pending ∧
    ∀ b s' o, step ⟨true, dc⟩ s (.resume d b) = some (s', o) →
      (o = .fin (if (s.side d).fut = .cancelled then .cancelled else .closed)) ∧
      (s'.side d).pc = .done (if (s.side d).fut = .cancelled then .cancelled else .closed) ∧
      s'.rd.reg = none ∧ s'.wr.reg = none := by
  have hi := C18_rawsock_invariant h
  have hd := hi.side d
  have hnw := hd.closing_nowait hc
  refine ⟨hnw, fun hp => hnw (hd.fut_wait hp), ?_⟩
  intro b s' o hs
  have hi' := C18_rawsock_invariant (Reachable.next h hs)
  have hfd : s.fdOpen = false := by rw [hi.fd, hi.closed_eq, hc]; rfl
  simp only [step] at hs
  split at hs
  · split at hs
    · rename_i hcan
      cases hs
      have hr := hi'.rd.reg_eq
      have hw := hi'.wr.reg_eq
      cases d <;> simp_all [State.side, State.setSide]
    · rename_i hcan
      simp only [attempt, hfd, hc, if_true, Bool.false_eq_true, if_false] at hs
      cases hs
      have hr := hi'.rd.reg_eq
      have hw := hi'.wr.reg_eq
      cases d <;> simp_all [State.side, State.setSide]
  · contradiction

/-- Current code: on a closing stream a woken task is never stuck -- its done callback (if still
scheduled) and then its wake-up are enabled, and running them ends its operation. -/
theorem C18_rawsock_closing_progress {dc : Bool} {s : State} (h : Reach ⟨true, dc⟩ s)
    (hc : s.closing = true) (d : Dir) (hw : (s.side d).pc = .woken) (b : Bool) :
    ∃ s', runFrom (step ⟨true, dc⟩) s
        (if (s.side d).cb = true then [.runCallback d, .resume d b] else [.resume d b]) = some s' ∧
      ∃ o, (s'.side d).pc = .done o ∧ (o = .closed ∨ o = .cancelled) := by
  have hi := C18_rawsock_invariant h
  have hfd : s.fdOpen = false := by rw [hi.fd, hi.closed_eq, hc]; rfl
  cases hcb : (s.side d).cb with
  | false =>
    simp only [Bool.false_eq_true, if_false, runFrom, step, hw, hcb, and_self, if_true]
    by_cases hcan : (s.side d).fut = .cancelled
    · simp only [hcan, if_true]
      exact ⟨_, rfl, .cancelled, by cases d <;> simp [State.side, State.setSide], Or.inr rfl⟩
    · simp only [hcan, if_false, attempt, hfd, hc, Bool.false_eq_true, if_true]
      exact ⟨_, rfl, .closed, by cases d <;> simp [State.side, State.setSide], Or.inl rfl⟩
  | true =>
    have hside : ∀ x : Side, (s.setSide d x).side d = x := by
      intro x; cases d <;> rfl
    simp only [if_true, runFrom, step, hcb, hc, Bool.and_self, hside, hw, and_self]
    by_cases hcan : (s.side d).fut = .cancelled
    · simp only [hcan, if_true]
      exact ⟨_, rfl, .cancelled, by cases d <;> simp [State.side, State.setSide], Or.inr rfl⟩
    · have hfd' : ∀ x : Side, (s.setSide d x).fdOpen = false := by
        intro x; cases d <;> exact hfd
      have hc' : ∀ x : Side, (s.setSide d x).closing = true := by
        intro x; cases d <;> exact hc
      simp only [hcan, if_false, attempt, hfd', hc', Bool.false_eq_true, if_true, hside]
      exact ⟨_, rfl, .closed, by cases d <;> simp [State.side, State.setSide], Or.inl rfl⟩

/-! ### the defect of the code before afa90d6 (`fixed = false`) -/

/-- receive() and send() both blocked, `aclose()`, then the loop runs what `aclose()` scheduled -/
def livelockRun : List Ev :=
  [.recvBlock, .sendBlock, .aclose, .runCallback .r, .resume .r true, .runCallback .w,
   .resume .w true]

/-- Old code on a uvloop-like loop: after `aclose()` and after everything it scheduled has run,
both tasks are suspended AGAIN, each on a fresh pending future with a fresh registration on the
closed socket (the close is still deferred, so the socket call gave BlockingIOError), and nothing
is left to run: neither a callback nor a wake-up is enabled.  Only the peer (or a cancellation)
could wake them: the tasks blocked in receive()/send() never see ClosedResourceError. -/
theorem C18_rawsock_defect_witness :
    ∃ s, runFrom (step ⟨false, true⟩) init livelockRun = some s ∧
      s.closing = true ∧ s.closed = true ∧ s.fdOpen = true ∧
      s.rd.pc = .waiting ∧ s.rd.fut = .pending ∧ s.rd.reg = some 2 ∧
      s.wr.pc = .waiting ∧ s.wr.fut = .pending ∧ s.wr.reg = some 2 ∧
      (∀ d b, step ⟨false, true⟩ s (.resume d b) = none ∧
        step ⟨false, true⟩ s (.runCallback d) = none) := by
  refine ⟨_, rfl, rfl, rfl, rfl, rfl, rfl, rfl, rfl, rfl, rfl, ?_⟩
  intro d b
  cases d <;> cases b <;> decide

/-- Old code on the stock loop: both tasks do get ClosedResourceError, but each done callback
asks the selector to remove a registration of a file descriptor that is already closed (the
"Exception in callback ... Bad file descriptor" in the loop's log), and between `aclose()` and
the callbacks the loop holds registrations for a closed descriptor. -/
theorem C18_rawsock_defect_witness_stock :
    (∃ s, runFrom (step ⟨false, false⟩) init [.recvBlock, .sendBlock, .aclose] = some s ∧
      s.closed = true ∧ s.fdOpen = false ∧ s.rd.reg = some 1 ∧ s.wr.reg = some 1) ∧
    (∃ s, runFrom (step ⟨false, false⟩) init
        [.recvBlock, .sendBlock, .aclose, .runCallback .r, .resume .r true, .runCallback .w,
         .resume .w true] = some s ∧
      s.badRemove = 2 ∧ s.rd.pc = .done .closed ∧ s.wr.pc = .done .closed) := by
  exact ⟨⟨_, rfl, rfl, rfl, rfl, rfl⟩, ⟨_, rfl, rfl, rfl, rfl⟩⟩

/-! ### non-vacuity -/

/-- the same run under the CURRENT code, uvloop-like loop: both end with ClosedResourceError,
no registration, descriptor closed, no bad removal -/
example :
    (runFrom (step ⟨true, true⟩) init livelockRun).map
      (fun s => ((s.rd.pc, s.wr.pc, s.rd.reg, s.wr.reg), (s.fdOpen, s.badRemove, s.lateRemove))) =
    some ((.done .closed, .done .closed, none, none), (false, 0, 0)) := by decide

/-- ... and on the stock loop -/
example :
    (runFrom (step ⟨true, false⟩) init livelockRun).map
      (fun s => ((s.rd.pc, s.wr.pc, s.rd.reg, s.wr.reg), (s.fdOpen, s.badRemove, s.lateRemove))) =
    some ((.done .closed, .done .closed, none, none), (false, 0, 0)) := by decide

/-- the hypotheses of `C18_rawsock_close_wakes_all` / `_closing_progress` are met: a closing
state with one woken task whose callback is still scheduled and one already resumable -/
example :
    (runFrom (step ⟨true, true⟩) init [.recvBlock, .sendBlock, .aclose, .runCallback .w]).map
      (fun s => ((s.closing, s.rd.pc, s.rd.cb), (s.rd.fut, s.wr.pc, s.wr.cb))) =
    some ((true, .woken, true), (.resolved, .woken, false)) := by decide

/-- readiness without close: fire, callback removes the registration, the retry succeeds -/
example :
    (traceFrom (step ⟨true, false⟩) init
      [.recvBlock, .readable, .runCallback .r, .resume .r false]).map
      (fun p => (p.2, p.1.rd.reg, p.1.rd.field, p.1.rd.gen)) =
    some ([.blocked, .env, .env, .fin .ok], none, none, 1) := by decide

/-- a task cancelled while waiting, then the stream is closed before its callback ran: the
registration is removed by `aclose()`, the task ends with CancelledError, the other one with
ClosedResourceError; a later receive() fails at once -/
example :
    (traceFrom (step ⟨true, true⟩) init
      [.recvBlock, .sendBlock, .cancel .r, .aclose, .runCallback .r, .resume .r true,
       .runCallback .w, .resume .w true, .call .r true]).map
      (fun p => (p.2, p.1.rd.reg, p.1.wr.reg, p.1.fdOpen, p.1.lateRemove)) =
    some ([.blocked, .blocked, .env, .env, .env, .fin .cancelled, .env, .fin .closed,
           .fin .closed], none, none, false, 0) := by decide

/-- old code, stock loop, only a reader waiting: one bad removal already -/
example :
    (runFrom (step ⟨false, false⟩) init [.recvBlock, .aclose, .runCallback .r]).map
      (fun s => (s.badRemove, s.rd.reg)) = some (1, none) := by decide

end AnyioModel.Stream.RawSock
