/-
C12  Memory object streams: exactly-once, ordered, bounded delivery.

Property theorems only; the model is `AnyioModel.Stream.Memory`.  Invariants and their
preservation: `MemoryInv`/`MemoryInvStep` (`InvQ`: queues, bound), `MemoryLoc`/`MemoryLocStep`
(`InvG`: one location per item), `MemoryAcc` (`InvA`: accepted items are inside),
`MemoryGhost` (`Fifo`, `ReachScope`/`NL`).  Every statement
quantifies over all reachable states = all finite event lists: any buffer size (0, n, inf),
any number of tasks and clones, any mix of blocking and *_nowait calls, cancellations
(`fc`: waiter future cancelled -- scope, deadline or native while blocked; `mc`:
`_must_cancel` set in a checkpoint or, natively, after the hand-over) at every segment
boundary, including between hand-over and wake-up.

Scope of the claim (DESIGN section 4): AnyIO's own (scope / deadline) cancellation never
produces `mc` on a task whose event is already set.  "No item is lost" is therefore proved
over `ReachScope` (all runs without that one event); `C12_native_cancel_witness` shows that
the restriction is necessary.  Everything else holds on all runs.
-/
import AnyioModel.Stream.MemoryLocStep
import AnyioModel.Stream.MemoryGhost
import AnyioModel.Stream.MemoryAcc

namespace AnyioModel.Stream.Memory

theorem C12_invariant {s : State} (h : Reach s) : InvQ s ∧ InvG s ∧ Fifo s :=
  ⟨invQ_reach h, invG_reach h, fifo_reach h⟩

/-! ### where an item can be -/

/-- argument of a `send` that has not passed its checkpoint yet -/
def InChk (s : State) (x : Nat) : Prop :=
  ∃ t, (∃ h pre, s.pc t = .sendChk h x pre) ∨ s.pc t = .sendChkMC x
/-- in a blocked sender's pending slot (`waiting_senders`) -/
def InQueue (s : State) (x : Nat) : Prop := ∃ t b, (t, x, b) ∈ s.waitingSenders
def InBuffer (s : State) (x : Nat) : Prop := x ∈ s.buffer
/-- in the slot of a receiver whose wake-up has not run yet -/
def InSlot (s : State) (x : Nat) : Prop :=
  ∃ t, s.pc t = .recvWoken (some x) ∨ s.pc t = .recvWokenMC (some x)

/-- Conservation.  For every item id there is a single location `l` that decides all seven
"is in ..." predicates: an offered item is in exactly one of {argument of a send still in its
checkpoint, blocked sender's slot, buffer, receiver's slot, delivered, rejected, lost}, an id
that was never offered is in none of them (nothing is invented); the buffer and the list of
delivered items have no duplicates (no item is delivered twice). -/
theorem C12_conservation {s : State} (h : Reach s) (x : Nat) :
    (∃ l : Loc,
      (l = .fresh ↔ isOffered s x = false) ∧
      (InChk s x ↔ ∃ t, l = .chk t) ∧ (InQueue s x ↔ ∃ t, l = .queued t) ∧
      (InBuffer s x ↔ l = .buffered) ∧ (InSlot s x ↔ ∃ t, l = .slot t) ∧
      (x ∈ s.delivered ↔ l = .delivered) ∧ (x ∈ s.rejected ↔ l = .rejected) ∧
      (x ∈ s.lost ↔ l = .lost)) ∧
    s.delivered.Nodup ∧ s.buffer.Nodup := by
  have hg := invG_reach h
  refine ⟨⟨s.loc x, ?_, ?_, ?_, ?_, ?_, ?_, ?_, ?_⟩, hg.delivered_nodup, hg.buffer_nodup⟩
  · rw [hg.fresh_iff, ← Bool.not_eq_true, isOffered_iff]; simp
  · constructor
    · rintro ⟨t, ⟨hh, pre, hp⟩ | hp⟩
      · exact ⟨t, hg.chk_a t hh x pre hp⟩
      · exact ⟨t, hg.chk_b t x hp⟩
    · rintro ⟨t, hl⟩; exact ⟨t, hg.chk_c x t hl⟩
  · constructor
    · rintro ⟨t, b, hm⟩; exact ⟨t, hg.queued_a t x b hm⟩
    · rintro ⟨t, hl⟩; obtain ⟨b, hm⟩ := hg.queued_b x t hl; exact ⟨t, b, hm⟩
  · exact (hg.buffered_iff x).symm
  · constructor
    · rintro ⟨t, hp | hp⟩
      · exact ⟨t, hg.slot_a t x hp⟩
      · exact ⟨t, hg.slot_b t x hp⟩
    · rintro ⟨t, hl⟩; exact ⟨t, hg.slot_c x t hl⟩
  · exact (hg.delivered_iff x).symm
  · exact (hg.rejected_iff x).symm
  · exact (hg.lost_iff x).symm

/-- corollaries in plain words: a delivered item was offered, is delivered once, and is neither
still buffered, nor pending in a sender, nor in another receiver's slot, nor rejected -/
theorem C12_delivered_exactly_once {s : State} (h : Reach s) {x : Nat} (hd : x ∈ s.delivered) :
    isOffered s x = true ∧ s.delivered.count x = 1 ∧ ¬ InBuffer s x ∧ ¬ InQueue s x ∧
    ¬ InSlot s x ∧ ¬ InChk s x ∧ x ∉ s.rejected ∧ x ∉ s.lost := by
  obtain ⟨⟨l, h1, h2, h3, h4, h5, h6, h7, h8⟩, hnd, _⟩ := C12_conservation h x
  have hl : l = .delivered := h6.mp hd
  subst hl
  have hc1 : s.delivered.count x = 1 := by
    have h1 := List.nodup_iff_count.mp hnd x
    have h2 : 0 < s.delivered.count x := List.count_pos_iff.mpr hd
    omega
  refine ⟨?_, hc1, ?_, ?_, ?_, ?_, ?_, ?_⟩
  · cases ho : isOffered s x with
    | true => rfl
    | false => have := h1.mpr ho; cases this
  · intro hb; have := h4.mp hb; cases this
  · intro hb; obtain ⟨t, ht⟩ := h3.mp hb; cases ht
  · intro hb; obtain ⟨t, ht⟩ := h5.mp hb; cases ht
  · intro hb; obtain ⟨t, ht⟩ := h2.mp hb; cases ht
  · intro hb; have := h7.mp hb; cases this
  · intro hb; have := h8.mp hb; cases this

/-- Every item whose `send()` / `send_nowait()` completed successfully is in the buffer, in the
slot of a receiver that has been woken for it, or delivered -- or lost, which by
`C12_scope_cancel_never_loses` needs a native cancellation after the hand-over.  In
particular it is never rejected and never back in a sender's hands. -/
theorem C12_accepted_is_inside {s : State} (h : Reach s) {x : Nat} (hx : x ∈ s.accepted) :
    InBuffer s x ∨ InSlot s x ∨ x ∈ s.delivered ∨ x ∈ s.lost := by
  have hg := invG_reach h
  have ha := (invA_reach h).acc x hx
  cases hl : s.loc x with
  | buffered => left; exact (hg.buffered_iff x).mp hl
  | slot t => right; left; exact ⟨t, hg.slot_c x t hl⟩
  | delivered => right; right; left; exact (hg.delivered_iff x).mp hl
  | lost => right; right; right; exact (hg.lost_iff x).mp hl
  | fresh => rw [hl] at ha; cases ha
  | chk t => rw [hl] at ha; cases ha
  | queued t => rw [hl] at ha; cases ha
  | rejected => rw [hl] at ha; cases ha

/-- under scope / deadline cancellation: accepted ⇒ buffered, being handed over, or delivered -/
theorem C12_accepted_is_inside_scope {s : State} (h : ReachScope s) {x : Nat} (hx : x ∈ s.accepted) :
    InBuffer s x ∨ InSlot s x ∨ x ∈ s.delivered := by
  rcases C12_accepted_is_inside h.reach hx with h1 | h1 | h1 | h1
  · exact Or.inl h1
  · exact Or.inr (Or.inl h1)
  · exact Or.inr (Or.inr h1)
  · rw [(nl_reachScope h).1] at h1; cases h1

/-! ### order -/

/-- The stream is a FIFO queue: the items that entered it (by being buffered or handed
directly to a waiting receiver), in that order, are the items that left it towards
receivers, in that order, followed by the buffer. -/
theorem C12_order_fifo {s : State} (h : Reach s) : s.entered = s.handed ++ s.buffer :=
  fifo_reach h

/-- Blocked receivers are served in the order they started waiting: `send_nowait` gives the
item to the first queued receiver without a pending cancellation; every receiver queued ahead
of it had one (and is dropped, to be cancelled); nobody else's slot is filled. -/
theorem C12_order_blocked_receivers (s : State) (h x : Nat) (P : List Nat) :
    (∃ d u rest, s.waitingReceivers = d ++ u :: rest ∧
      (∀ v ∈ d, s.pc v = .recvWaitFC ∨ v ∈ P) ∧ s.pc u ≠ .recvWaitFC ∧ u ∉ P ∧
      (sendCore s h x P).1.pc u = .recvWoken (some x) ∧
      (sendCore s h x P).1.waitingReceivers = rest ∧ (sendCore s h x P).2 = .done ∧
      ∀ v, v ≠ u → (sendCore s h x P).1.pc v = orphanize d s.pc v) ∨
    (∀ v sl, (sendCore s h x P).1.pc v = .recvWoken sl → s.pc v = .recvWoken sl) := by
  rcases sendCore_cases s h x P with ⟨hc, he⟩ | ⟨hc, ho, he⟩ | ⟨hc, ho, d, u, rest, hw, hd, hu, huP, he⟩ |
    ⟨hc, ho, hd, hf, he⟩ | ⟨hc, ho, hd, hf, he⟩
  · right; rw [he]; exact fun v sl hp => hp
  · right; rw [he]; exact fun v sl hp => hp
  · left
    refine ⟨d, u, rest, hw, hd, hu, huP, ?_, ?_, ?_, ?_⟩ <;> rw [he]
    · simp
    · intro v hv; simp [hv]
  · right; rw [he]; intro v sl hp
    simp only [orphanize_apply] at hp
    split at hp
    · cases hp
    · exact hp
  · right; rw [he]; intro v sl hp
    simp only [orphanize_apply] at hp
    split at hp
    · cases hp
    · exact hp

/-- Blocked senders are served in the order they started waiting: the only way an item leaves
`waiting_senders` for the buffer is `receive_nowait` taking the head of the queue (new senders
are appended at the tail, cancelled ones delete themselves: `step`). -/
theorem C12_order_blocked_senders (s : State) (h : Nat) :
    ((recvCore s h).1.entered = s.entered ∧ (recvCore s h).1.waitingSenders = s.waitingSenders) ∨
    (∃ u x b rest, s.waitingSenders = (u, x, b) :: rest ∧
      (recvCore s h).1.entered = s.entered ++ [x] ∧ (recvCore s h).1.waitingSenders = rest) := by
  rcases recvCore_cases s h with ⟨hc, he⟩ | ⟨hc, hws, hb, ho, he⟩ | ⟨hc, hws, hb, ho, he⟩ |
    ⟨hc, hws, y, ys, hb, he⟩ | ⟨hc, u, x, b, rest, y, ys, hws, hb, he⟩
  · left; rw [he]; exact ⟨rfl, rfl⟩
  · left; rw [he]; exact ⟨rfl, rfl⟩
  · left; rw [he]; exact ⟨rfl, rfl⟩
  · left; rw [he]; exact ⟨rfl, rfl⟩
  · right; exact ⟨u, x, b, rest, hws, by rw [he], by rw [he]⟩

/-
C12_order, full statement (DESIGN section 5): (a) the stream is FIFO, (b) blocked receivers and
(c) blocked senders are served in the order they started waiting, and (d) for every task `t`
the items offered by `t` enter the stream in the order `t` offered them:
  (s.entered.filter (offered by t)) is a sublist of ((s.offered.filter (·.1 = t)).map (·.2)).
(a)-(c) are proved above (`C12_order_fifo`, `C12_order_blocked_receivers`,
`C12_order_blocked_senders`).  (d) is proved in `Props/C12order.lean` (`C12_order_entry`, `C12_order`), which
supersedes the `_partial` theorem below; the remark written before that proof existed: (d) is NOT proved here: it follows informally from `entered` being
append-only and a task's calls being sequential (a new call needs `pc t = idle`, an item enters
only during its own send call or from its sender's queue entry), and with (a) gives per-sender
delivery order.  The harness oracle checks per-(sender, receiver) order on every run.
-/
/-- the proved part of C12_order: (a) FIFO as a state invariant -/
theorem C12_order_partial {s : State} (h : Reach s) :
    s.entered = s.handed ++ s.buffer ∧ s.buffer.Nodup ∧ s.delivered.Nodup :=
  ⟨fifo_reach h, (invG_reach h).buffer_nodup, (invG_reach h).delivered_nodup⟩

/-! ### bound and auxiliary invariants -/

/-- the buffer never holds more than `max_buffer_size` items, at any segment boundary -/
theorem C12_bound {s : State} (h : Reach s) : ∀ m, s.maxSize = some m → s.buffer.length ≤ m :=
  (invQ_reach h).bound

/-- a non-empty buffer excludes waiting receivers -/
theorem C12_aux_buffer_no_receivers {s : State} (h : Reach s) :
    s.buffer ≠ [] → s.waitingReceivers = [] := (invQ_reach h).buf_wr

/-- senders wait only while the buffer is full (`|buffer| = max_buffer_size`), and never while
a receiver waits -/
theorem C12_aux_senders_buffer_full {s : State} (h : Reach s) (hw : s.waitingSenders ≠ []) :
    (∃ m, s.maxSize = some m ∧ s.buffer.length = m) ∧ s.waitingReceivers = [] := by
  have hi := invQ_reach h
  refine ⟨?_, hi.ws_wr hw⟩
  have hf := hi.ws_full hw
  cases hm : s.maxSize with
  | none => rw [hm] at hf; simp [fits] at hf
  | some m =>
    rw [hm] at hf
    simp only [fits, decide_eq_false_iff_not] at hf
    exact ⟨m, rfl, by have := hi.bound m hm; omega⟩

/-! ### cancellation -/

/-- A receive that ends with the cancellation exception -- in its checkpoint, or blocked with
its future cancelled, or woken for EndOfStream with a native cancellation pending -- consumes
nothing: buffer, blocked senders, delivered items and every item's location are unchanged; it
only deregisters itself. -/
theorem C12_cancelled_receive_consumes_nothing {s s' : State} (h : Reach s) {t : Nat} {P : List Nat}
    (hp : s.pc t = .recvChkMC ∨ s.pc t = .recvWaitFC ∨ s.pc t = .recvWokenMC none)
    (hs : step s (.step t P) = some (s', .cancelled)) :
    s'.buffer = s.buffer ∧ s'.waitingSenders = s.waitingSenders ∧ s'.delivered = s.delivered ∧
    s'.handed = s.handed ∧ s'.lost = s.lost ∧ s'.loc = s.loc ∧
    t ∉ s'.waitingReceivers ∧ s'.pc t = .idle := by
  have hw := (invQ_reach h).wr_pc t
  rcases hp with hp | hp | hp <;> simp [step, hp] at hs <;> subst hs <;> simp [rmRecv]
  intro hm; have := hw hm; rw [hp] at this; simp at this

/-- Under scope / deadline cancellation (all runs without a native `mc` after the hand-over)
those are the only ways a receive can be cancelled: no receiver ever is in the state "slot
filled and cancellation pending", and no item is ever lost. -/
theorem C12_scope_cancel_never_loses {s : State} (h : ReachScope s) :
    s.lost = [] ∧ (∀ t x, s.pc t ≠ .recvWokenMC (some x)) ∧ ∀ x, s.loc x ≠ .lost := by
  have hn := nl_reachScope h
  refine ⟨hn.1, hn.2, fun x hl => ?_⟩
  have := ((invG_reach h.reach).lost_iff x).mp hl
  rw [hn.1] at this
  cases this

/-- The boundary of the claim, machine-checked: buffer size 0, task 1 blocks in `receive`,
task 0's `send_nowait(7)` puts 7 into its slot and sets its event, a native `Task.cancel()`
lands before task 1 runs (`mc 1`), task 1's wake-up raises: the accepted item 7 is lost. -/
theorem C12_native_cancel_witness :
    (runFrom step (init (some 0))
      [.receive 1 0 false, .step 1 [], .sendNowait 0 0 7 [], .mc 1, .step 1 []]).map
      (fun s => (s.accepted, s.delivered, s.buffer, s.lost, s.pc 1)) =
    some ([7], [], [], [7], Pc.idle) := by decide

/-- An item whose send was interrupted by cancellation after it had left the sender (pulled
into the buffer by `receive_nowait` while the sender's future was already cancelled, or a
native cancellation after the sender's event was set) is delivered at most once -- like every
item: `delivered` never contains an id twice, and the send's exception does not put it back. -/
theorem C12_interrupted_send_at_most_once {s : State} (h : Reach s) (x : Nat)
    (hx : x ∈ s.interrupted) :
    s.delivered.count x ≤ 1 ∧ (x ∈ s.delivered → x ∉ s.buffer ∧ ¬ InSlot s x) ∧
    x ∉ s.rejected ∧ ¬ InQueue s x := by
  have hg := invG_reach h
  have ha := (invA_reach h).intr x hx
  refine ⟨List.nodup_iff_count.mp hg.delivered_nodup x, fun hd => ⟨fun hb => ?_, ?_⟩, fun hr => ?_, ?_⟩
  · have h1 := (hg.delivered_iff x).mpr hd
    have h2 := (hg.buffered_iff x).mpr hb
    rw [h1] at h2
    cases h2
  · rintro ⟨t, hp | hp⟩
    · have h1 := (hg.delivered_iff x).mpr hd
      have h2 := hg.slot_a t x hp
      rw [h1] at h2; cases h2
    · have h1 := (hg.delivered_iff x).mpr hd
      have h2 := hg.slot_b t x hp
      rw [h1] at h2; cases h2
  · have h1 := (hg.rejected_iff x).mpr hr
    rw [h1] at ha; cases ha
  · rintro ⟨t, b, hm⟩
    have h1 := hg.queued_a t x b hm
    rw [h1] at ha; cases ha

/-! ### non-vacuity -/

/-- size 1: two items accepted, second sender blocks, receiver pulls the blocked sender's item
into the buffer while popping the head; everything arrives in order -/
example :
    (runFrom step (init (some 1))
      [.sendNowait 0 0 1 [], .send 0 0 2 false, .step 0 [], .receiveNowait 1 0, .step 0 [],
       .receiveNowait 1 0]).map
      (fun s => (s.delivered, s.entered, s.handed, s.buffer, s.accepted)) =
    some ([1, 2], [1, 2], [1, 2], [], [1, 2]) := by decide

/-- hand-over cycle under scope cancellation: receiver 1 blocked, its future is cancelled
(`fc 1`), then `send_nowait` sees the pending cancellation (model knows `recvWaitFC`), skips
it and serves receiver 2 -/
example :
    (runFrom step (init (some 0))
      [.receive 1 0 false, .step 1 [], .receive 2 0 false, .step 2 [], .fc 1,
       .sendNowait 0 0 5 [1], .step 1 [1], .step 2 []]).map
      (fun s => (s.delivered, s.lost, s.waitingReceivers, s.pc 1, s.pc 2)) =
    some ([5], [], [], Pc.idle, Pc.idle) := by decide

/-- interrupted send: sender blocked (size 0), future cancelled, `receive_nowait` pulls its
item anyway; the send raises, the item is delivered exactly once -/
example :
    (runFrom step (init (some 0))
      [.send 0 0 9 false, .step 0 [], .fc 0, .receiveNowait 1 0, .step 0 []]).map
      (fun s => (s.delivered, s.interrupted, s.rejected, s.accepted)) =
    some ([9], [9], [], []) := by decide

end AnyioModel.Stream.Memory
