/-
C03  "Level-triggered cancellation: nothing stays blocked in a cancelled scope" on the kernel model
(`Kernel/{Types,Scope,Step}.lean`: asyncio tasks/futures/loop cycles + `CancelScope`, `TaskGroup`).

The mechanism is `_deliver_cancellation` (`deliverGo` / `deliver`), rescheduled once per loop cycle
while it still finds a task that is not done, and restarted (`_restart_cancellation_in_parent`,
the repaired `_spawn`) whenever something moves back into its reach.

* `reachDown st o c` (`Kernel/DeliverInv.lean`) is the declarative reading of "a delivery from `o`
  reaches scope `c`": `c = o`, or walking up from `c` every scope strictly below `o` is active,
  not shielded and not itself cancelled, and the walk meets `o` (`C03_reachDown_iff`: the same over
  the `chain` of `c`).  `needs st o`: some task that is not done sits in such a scope.
  `hitSet st o t`: `t` sits in such a scope `c` and the loop body's test `hitCancels st c t` holds
  (`C03_hitCancels_iff`: not done, not `_must_cancel`, not the running task, started or host,
  waiter not done).
* `C03_deliverGo_spec`: the top-down walk of the code does exactly that (pure, under `WF`/`BW`).
* `C03_delivery_live`: the invariant finding F4 violated, for every reachable state.
* `C03_deliver_hits` / `C03_deliver_reschedules`: what one `.run (.deliver o)` does.
* `C03_cycle`, `C03_chkif`, `C03_latency_partial`.

`active` is part of `reachDown`: the code walks `children`, which holds active scopes only, and
"every ancestor of an active scope is active" is not among the established invariants of the model
(`WF` keeps the weak form only); tasks sit in active scopes in every run of the real code.

Invariant and lemmas: `Kernel/DeliverInv.lean` .. `DeliverInv7.lean`.
-/
import AnyioModel.Kernel.DeliverInv7
import AnyioModel.Kernel.CountInv5

namespace AnyioModel.Kernel

/-! ### 1. the walk of `_deliver_cancellation`, top-down vs. bottom-up -/

/-- **C03_reachDown_iff.**  `reachDown` over the chain of `c` (the scope itself followed by its
ancestors): `o` is met at some position of the chain, and every scope before that position is
active, not shielded and not cancelled. -/
theorem C03_reachDown_iff {st : State} (w : WF st) (o c : Nat) :
    reachDown st o c ↔
      c = o ∨ ∃ i, ∃ h : i < (st.scopes c).chain.length, (st.scopes c).chain[i] = o ∧
        ∀ j (hj : j < i),
          (st.scopes ((st.scopes c).chain[j]'(Nat.lt_trans hj h))).active = true ∧
          (st.scopes ((st.scopes c).chain[j]'(Nat.lt_trans hj h))).shield = false ∧
          (st.scopes ((st.scopes c).chain[j]'(Nat.lt_trans hj h))).cancelCalled = false := by
  constructor
  · exact reachDownChain_of_reachDown w
  · rintro (rfl | h)
    · exact .refl
    · exact reachDown_of_reachDownChain w _ c rfl h

/-- **C03_hitCancels_iff.**  When the loop body of `_deliver_cancellation` calls `task.cancel()`. -/
theorem C03_hitCancels_iff (st : State) (s t : Nat) :
    hitCancels st s t = true ↔
      (st.tasks t).st ≠ .done ∧ (st.tasks t).mustCancel = false ∧ st.running ≠ some t ∧
      ((st.scopes s).host = some t ∨ (st.tasks t).st ≠ .created) ∧
      ∀ f, (st.tasks t).st ≠ .woken f :=
  hitCancels_iff st s t

/-- **C03_deliverGo_frame.**  (i) The walk changes nothing but task cancellation state, futures,
`ready` (`Frame`: all structural scope fields, `groups`, `futWaiter`, counters, clock, `running`,
`timers`, `cur` unchanged; tasks only `blocked f → woken f` + cancellation fields; futures only
pending → done; `ready` only grows), no scope other than the origin at all, and no
`_cancel_handle`. -/
theorem C03_deliverGo_frame (st : State) (n o s : Nat) :
    Frame st (deliverGo n st o s).1 ∧
    (∀ x, x ≠ o → (deliverGo n st o s).1.scopes x = st.scopes x) ∧
    (∀ x, ((deliverGo n st o s).1.scopes x).deliver = (st.scopes x).deliver) :=
  ⟨frame_deliverGo n st o s, fun _ hx => deliverGo_scope_other n st o s hx,
    fun x => deliverGo_deliverFlag n st o s x⟩

/-- **C03_deliverGo_spec.**  (ii) + (iii), for every well-formed state in which blocked tasks are
the waiters of their (pending) futures: with the fuel `nScopes + 1` that `deliver` uses,
* the returned flag ("should retry") is true iff some task that is not done sits in a scope the
  delivery reaches;
* `Task.cancel()` is called exactly once on each task of `hitSet st o` — one more `nAnyio`; a task
  blocked on `f` becomes `woken f`, `f` is cancelled with the scope's message and its wake-up is
  scheduled; any other task keeps its state and gets `_must_cancel` with the scope's message —
* and the record of every other task is unchanged. -/
theorem C03_deliverGo_spec {st : State} (w : WF st) (bw : BW st) (o : Nat) :
    ((deliverGo (st.nScopes + 1) st o o).2 = true ↔ needs st o) ∧
    ∀ t,
      (hitSet st o t →
        ((deliverGo (st.nScopes + 1) st o o).1.tasks t).nAnyio = (st.tasks t).nAnyio + 1 ∧
        (∀ f, (st.tasks t).st = .blocked f →
          ((deliverGo (st.nScopes + 1) st o o).1.tasks t).st = .woken f ∧
          (deliverGo (st.nScopes + 1) st o o).1.futs f = .cancelled true ∧
          Handle.wakeup t ∈ (deliverGo (st.nScopes + 1) st o o).1.ready) ∧
        ((∀ f, (st.tasks t).st ≠ .blocked f) →
          ((deliverGo (st.nScopes + 1) st o o).1.tasks t).st = (st.tasks t).st ∧
          ((deliverGo (st.nScopes + 1) st o o).1.tasks t).mustCancel = true ∧
          ((deliverGo (st.nScopes + 1) st o o).1.tasks t).mcAnyio = true)) ∧
      (¬ hitSet st o t → (deliverGo (st.nScopes + 1) st o o).1.tasks t = st.tasks t) := by
  refine ⟨deliverGo_flag w.tree o, fun t => ?_⟩
  obtain ⟨h1, h2⟩ := deliverGo_task w.tree bw o t
  refine ⟨fun hh => ?_, h2⟩
  have r := h1 hh
  refine ⟨r.nAnyio, fun f hf => ?_, r.other⟩
  obtain ⟨a, b, c, _⟩ := r.blocked f hf
  exact ⟨a, b, c⟩

/-! ### 2. the liveness invariant -/

/-- **C03_blocked_waits.**  In every reachable state a task that is `blocked f` is the registered
waiter of `f`, and `f` is pending (so `Task.cancel()` on it does cancel `f` and wake the task). -/
theorem C03_blocked_waits {st : State} (hr : Reach st) (t f : Nat)
    (hb : (st.tasks t).st = .blocked f) : st.futWaiter f = some t ∧ st.futs f = .pending :=
  (di_reach hr).bw t f hb

/-- **C03_delivery_live.**  In every reachable state, for every scope `o` that is active and
cancelled: if some task that is not done sits in a scope that a delivery from `o` reaches, then
`o`'s `_cancel_handle` is set; and whenever a `_cancel_handle` is set, a `deliver o` callback is
scheduled for this or the next loop cycle.  (Finding F4 was a reachable state violating this: the
delivery had gone idle while the host sat in a shielded scope, and `_spawn` added a task.) -/
theorem C03_delivery_live {st : State} (hr : Reach st) (o : Nat) :
    ((st.scopes o).active = true → (st.scopes o).cancelCalled = true → needs st o →
      (st.scopes o).deliver = true ∧ Handle.deliver o ∈ st.ready ++ st.cur) ∧
    ((st.scopes o).deliver = true → Handle.deliver o ∈ st.ready ++ st.cur) := by
  have d := di_reach hr
  refine ⟨fun ha hc hn => ?_, d.sched o⟩
  have := d.live o ha hc hn
  exact ⟨this, d.sched o this⟩

/-- the same per task: a task that is not done, whose scope is reached from an active cancelled
scope `o`, has a delivery from `o` scheduled -/
theorem C03_delivery_live_task {st : State} (hr : Reach st) {o c t : Nat}
    (ha : (st.scopes o).active = true) (hc : (st.scopes o).cancelCalled = true)
    (hrd : reachDown st o c) (ht : t ∈ (st.scopes c).tasks) (hd : (st.tasks t).st ≠ .done) :
    Handle.deliver o ∈ st.ready ++ st.cur :=
  ((C03_delivery_live hr o).1 ha hc ⟨c, t, hrd, ht, hd⟩).2

/-! ### 3. one run of the delivery callback -/

/-- **C03_deliver_hits.**  `.run (.deliver o)` in a reachable state: every task of `hitSet st o`
that was blocked on `f` is `woken f`, `f` is cancelled with the scope's message and `wakeup t` is
scheduled; every other task of `hitSet` (runnable: `created` host / `yielded`) keeps its state and
has `_must_cancel` set with the scope's message; exactly these tasks got one `Task.cancel()`
(`nAnyio`), and all other task records are unchanged. -/
theorem C03_deliver_hits {st st' : State} {o : Nat} {out : Out} (hr : Reach st)
    (hs : step st (.run (.deliver o)) = some (st', out)) (t : Nat) :
    (hitSet st o t →
      (st'.tasks t).nAnyio = (st.tasks t).nAnyio + 1 ∧
      (∀ f, (st.tasks t).st = .blocked f →
        (st'.tasks t).st = .woken f ∧ st'.futs f = .cancelled true ∧
          Handle.wakeup t ∈ st'.ready) ∧
      ((∀ f, (st.tasks t).st ≠ .blocked f) →
        (st'.tasks t).st = (st.tasks t).st ∧ (st'.tasks t).mustCancel = true ∧
          (st'.tasks t).mcAnyio = true)) ∧
    (¬ hitSet st o t → st'.tasks t = st.tasks t) := by
  have w := wf_reach hr
  have d := di_reach hr
  simp only [step] at hs
  split at hs
  · contradiction
  · simp only [Option.some.injEq, Prod.mk.injEq] at hs
    obtain ⟨rfl, _⟩ := hs
    have w1 : WF { st with cur := st.cur.erase (.deliver o) } :=
      wf_shrinkCur w _ (fun y hy => List.mem_of_mem_erase hy)
    have b1 : BW { st with cur := st.cur.erase (.deliver o) } := d.bw
    obtain ⟨h1, h2⟩ := deliver_task w1.tree b1 o t
    constructor
    · intro hh
      have r := h1 (hitSet_congr (a := st) (b := { st with cur := st.cur.erase (.deliver o) })
        rfl rfl rfl hh)
      refine ⟨r.nAnyio, fun f hf => ?_, r.other⟩
      obtain ⟨a, b, c, _⟩ := r.blocked f hf
      exact ⟨a, b, c⟩
    · intro hn
      exact h2 (fun hh => hn (hitSet_congr (a := { st with cur := st.cur.erase (.deliver o) })
        (b := st) rfl rfl rfl hh))

/-- **C03_deliver_reschedules.**  `.run (.deliver o)` keeps `_cancel_handle` set, and schedules
itself for the next cycle, iff some task that is not done is still in its reach; otherwise it
clears `_cancel_handle`.  Nothing else about scopes changes. -/
theorem C03_deliver_reschedules {st st' : State} {o : Nat} {out : Out} (hr : Reach st)
    (hs : step st (.run (.deliver o)) = some (st', out)) :
    ((st'.scopes o).deliver = true ↔ needs st o) ∧
    (needs st o → Handle.deliver o ∈ st'.ready) ∧
    (∀ x, ScopeStructEq (st.scopes x) (st'.scopes x)) := by
  have w := wf_reach hr
  simp only [step] at hs
  split at hs
  · contradiction
  · simp only [Option.some.injEq, Prod.mk.injEq] at hs
    obtain ⟨rfl, _⟩ := hs
    have w1 : WF { st with cur := st.cur.erase (.deliver o) } :=
      wf_shrinkCur w _ (fun y hy => List.mem_of_mem_erase hy)
    have hn : needs { st with cur := st.cur.erase (.deliver o) } o ↔ needs st o := by
      constructor
      · rintro ⟨c, t, a, b, e⟩
        exact ⟨c, t, reachDown_congr (a := { st with cur := st.cur.erase (.deliver o) }) (b := st)
          (fun s => ⟨rfl, rfl, rfl, rfl⟩) a, b, e⟩
      · rintro ⟨c, t, a, b, e⟩
        exact ⟨c, t, reachDown_congr (a := st) (b := { st with cur := st.cur.erase (.deliver o) })
          (fun s => ⟨rfl, rfl, rfl, rfl⟩) a, b, e⟩
    have hf := deliver_flag w1.tree o
    refine ⟨hf.trans hn, fun h => ?_, fun x =>
      (frame_deliver ({ st with cur := st.cur.erase (.deliver o) } : State) o).scopes x⟩
    have hd := hf.mpr (hn.mpr h)
    have := deliver_sched_self _ o hd
    rw [(frame_deliver _ o).cur] at this
    rcases List.mem_append.mp this with hm | hm
    · exact hm
    · -- the handle found in `cur` would be a second copy; the scheduled one is in `ready`
      rw [deliver_flag_self] at hd
      unfold deliver
      simp only [hd, if_true]
      simp

/-! ### 4. cycle structure -/

/-- **C03_cycle.**  A new loop cycle begins only when the previous batch has been run completely
(`cur = []`) and no task is running; it moves everything scheduled so far (`ready`, in order)
into the new batch, followed by the due timers, and leaves `ready` empty: a handle scheduled
during a cycle runs in the next cycle, before any later cycle begins. -/
theorem C03_cycle {st st' : State} {now : Nat} {out : Out}
    (hs : step st (.beginCycle now) = some (st', out)) :
    st.cur = [] ∧ st.running = none ∧ st'.ready = [] ∧ st'.cycle = st.cycle + 1 ∧
    (∃ due, st'.cur = st.ready ++ due) ∧ (∀ h ∈ st.ready, h ∈ st'.cur) ∧
    st'.tasks = st.tasks ∧ st'.scopes = st.scopes ∧ st'.futs = st.futs := by
  simp only [step] at hs
  split at hs
  · contradiction
  · rename_i hg
    simp only [Option.some.injEq, Prod.mk.injEq] at hs
    obtain ⟨rfl, _⟩ := hs
    have hc : st.cur = [] := by
      cases hc : st.cur with
      | nil => rfl
      | cons a l => exact absurd (.inr (.inl (by simp [hc]))) hg
    have hrn : st.running = none := by
      cases hx : st.running with
      | none => rfl
      | some t => exact absurd (.inl (by simp [hx])) hg
    exact ⟨hc, hrn, rfl, rfl, ⟨_, rfl⟩, fun h hm => List.mem_append_left _ hm, rfl, rfl, rfl⟩

/-- **C03_run_in_batch.**  A callback runs only out of the current batch, with no task running. -/
theorem C03_run_in_batch {st st' : State} {h : Handle} {out : Out}
    (hs : step st (.run h) = some (st', out)) : h ∈ st.cur ∧ st.running = none := by
  simp only [step] at hs
  split at hs
  · contradiction
  · rename_i hg
    refine ⟨Classical.byContradiction (fun hx => hg (.inr hx)), ?_⟩
    cases hx : st.running with
    | none => rfl
    | some t => exact absurd (.inl (by simp [hx])) hg

/-! ### 5. `checkpoint_if_cancelled` -/

/-- **C03_chkif.**  A task spinning in `checkpoint_if_cancelled` (`Lib.chkIf`, suspended in its
`sleep(0)`), when its `__step` runs: without a pending cancellation it yields again (still in
`chkIf`, `__step` rescheduled); with one it leaves the helper raising exactly that
cancellation.  It never completes normally. -/
theorem C03_chkif {st st' : State} {t : Nat} {out : Out}
    (hl : (st.tasks t).lib = .chkIf) (hy : (st.tasks t).st = .yielded)
    (hs : step st (.run (.step t)) = some (st', out)) :
    ((st.tasks t).mustCancel = false ∧ out = .susp ∧ (st'.tasks t).lib = .chkIf ∧
      (st'.tasks t).st = .yielded ∧ Handle.step t ∈ st'.ready ∧ st'.running = none) ∨
    ((st.tasks t).mustCancel = true ∧
      out = .done (.one (if (st.tasks t).mcAnyio then .cancelAnyio else .cancelNative)) ∧
      (st'.tasks t).lib = .none ∧ st'.running = some t ∧ (st'.tasks t).mustCancel = false) := by
  simp only [step] at hs
  split at hs
  · contradiction
  · simp only [hy, or_true, if_true] at hs
    unfold runTask at hs
    simp only [hy] at hs
    unfold continueLib at hs
    simp only [setTask_tasks, upd_same, hl] at hs
    unfold resumeValue at hs
    simp only [hy] at hs
    cases hm : (st.tasks t).mustCancel
    · left
      simp only [hm, Bool.false_eq_true, if_false, Option.some.injEq, Prod.mk.injEq] at hs
      obtain ⟨rfl, rfl⟩ := hs
      simp [doYield, hl]
    · right
      simp only [hm, if_true, Option.some.injEq, Prod.mk.injEq] at hs
      obtain ⟨rfl, rfl⟩ := hs
      simp

/-- a task enters the helper only inside an effectively cancelled scope, and then suspends -/
theorem C03_chkif_enter {st st' : State} {out : Out}
    (hs : step st .chkIfCancelled = some (st', out)) :
    ∃ t, st.running = some t ∧
      ((out = .susp ∧ (st'.tasks t).lib = .chkIf ∧ (st'.tasks t).st = .yielded ∧
          ∃ s, (st.tasks t).scope = some s ∧ effCancelled st s = true) ∨
       (out = .done .none ∧ st' = st)) := by
  simp only [step] at hs
  split at hs
  · contradiction
  · rename_i t hr
    refine ⟨t, hr, ?_⟩
    split at hs
    · contradiction
    · split at hs
      · rename_i s hsc
        split at hs
        · rename_i he
          simp only [Option.some.injEq, Prod.mk.injEq] at hs
          obtain ⟨rfl, rfl⟩ := hs
          exact .inl ⟨rfl, by simp [doYield], by simp [doYield], s, hsc, he⟩
        · simp only [Option.some.injEq, Prod.mk.injEq] at hs
          obtain ⟨rfl, rfl⟩ := hs
          exact .inr ⟨rfl, rfl⟩
      · simp only [Option.some.injEq, Prod.mk.injEq] at hs
        obtain ⟨rfl, rfl⟩ := hs
        exact .inr ⟨rfl, rfl⟩

/-! ### 6. latency -/

/- Full statement aimed at (DESIGN §5 C03_latency): from a state at the beginning of a cycle in
which task `t` is `.blocked f` in a scope `c` with `effCancelled st c`, after the events of that
cycle (all of `cur` run) `t` is `.woken f` with a cancelled future.

Proved below (`C03_latency_partial`): the two links the bound consists of.  (a) In every reachable
state, if `t` is blocked in a scope reached from an active cancelled scope `o`, a `deliver o`
callback is in the batch of this cycle or scheduled for the next.  (b) When that callback runs and
`t` is still blocked there, `t` is `woken f`, `f` is cancelled with the scope's message and
`wakeup t` is scheduled for the next cycle (`C03_cycle`: it runs before any later cycle begins,
and `resumeValue` of a task woken on a cancelled future is the cancellation).
Missing for the full statement: (1) the passage from `effCancelled st c` to `∃ o, reachDown st o c`
with `o` active and cancelled needs "every ancestor of an active scope is active", which is not
among the established invariants of the model; (2) the composition over an arbitrary interleaving
of the other callbacks of the cycle (each of them keeps `t` blocked in `c` or wakes/moves it
itself) is not carried out; (3) "a blocked task has no `_must_cancel`" (`Task.__step` consumes it
before suspending, `blockOn`) is taken as the hypothesis `hm` rather than derived. -/
theorem C03_latency_partial {st : State} (hr : Reach st) {o c t f : Nat}
    (ha : (st.scopes o).active = true) (hc : (st.scopes o).cancelCalled = true)
    (hrd : reachDown st o c) (ht : t ∈ (st.scopes c).tasks)
    (hb : (st.tasks t).st = .blocked f) (hm : (st.tasks t).mustCancel = false) :
    Handle.deliver o ∈ st.ready ++ st.cur ∧
    ∀ st' out, step st (.run (.deliver o)) = some (st', out) →
      (st'.tasks t).st = .woken f ∧ st'.futs f = .cancelled true ∧
        Handle.wakeup t ∈ st'.ready ∧ resumeValue st' t = .one .cancelAnyio := by
  have hd : (st.tasks t).st ≠ .done := by rw [hb]; simp
  refine ⟨C03_delivery_live_task hr ha hc hrd ht hd, ?_⟩
  intro st' out hs
  have hrun := (C03_run_in_batch hs).2
  have hh : hitSet st o t := by
    refine ⟨c, hrd, ht, (hitCancels_iff st c t).mpr ⟨hd, hm, by rw [hrun]; simp, .inr ?_, ?_⟩⟩
    · rw [hb]; simp
    · intro g; rw [hb]; simp
  obtain ⟨h1, h2, h3⟩ := ((C03_deliver_hits hr hs t).1 hh).2.1 f hb
  refine ⟨h1, h2, h3, ?_⟩
  simp [resumeValue, h1, h2]

/-! ### non-vacuity -/

/-- The F4 history, part 1: the group scope (scope 0) is cancelled while its host is running, the
host enters a shielded scope (scope 1) and yields; in the next cycle the delivery finds nobody in
its reach (the host sits behind the shield) and goes idle: `_cancel_handle` is cleared and nothing
is scheduled. -/
example :
    (runFrom step init
      [.mkGroup, .groupEnter 0, .cancel 0, .mkScope true none, .enter 1, .yield,
       .beginCycle 0, .run (.deliver 0), .run (.step 0)]).map
      (fun st => ((st.scopes 0).active && (st.scopes 0).cancelCalled && (st.scopes 1).shield,
        (st.scopes 0).deliver, (st.ready ++ st.cur).length,
        (st.scopes 0).tasks.length, (st.scopes 0).children)) =
      some (true, false, 0, 0, [1]) := by decide

/-- The F4 history, part 2: `tg.start_soon(...)` from inside the shield.  The new task (task 1)
sits in the cancelled group scope, not behind any shield; `_spawn` restarts the delivery:
`_cancel_handle` is set again and a `deliver 0` callback is pending (`C03_delivery_live`). -/
example :
    (runFrom step init
      [.mkGroup, .groupEnter 0, .cancel 0, .mkScope true none, .enter 1, .yield,
       .beginCycle 0, .run (.deliver 0), .run (.step 0), .spawn 0]).map
      (fun st => ((st.scopes 0).deliver, st.ready, (st.scopes 0).tasks, (st.tasks 1).st)) =
      some (true, [.step 1, .deliver 0], [1], .created) := by decide

/-- ... the child starts, enters its own scope (scope 2, child of the group scope) and blocks in
`sleep(5)` on future 0 ... -/
example :
    (runFrom step init
      [.mkGroup, .groupEnter 0, .cancel 0, .mkScope true none, .enter 1, .yield,
       .beginCycle 0, .run (.deliver 0), .run (.step 0), .spawn 0,
       .yield, .beginCycle 0, .run (.step 1), .sleep 5]).map
      (fun st => ((st.tasks 1).st, ((st.tasks 1).scope, (st.scopes 2).parent),
        (st.scopes 2).shield, st.cur, (st.scopes 0).deliver)) =
      some (.blocked 0, (some 2, some 0), false, [.deliver 0, .step 0], true) := by decide

/-- ... and the delivery of the same cycle interrupts it (`C03_deliver_hits`): woken, its future
cancelled with the scope's message, wake-up scheduled, exactly one `Task.cancel()`; the host behind
the shield (task 0) is not touched; the delivery stays scheduled. -/
example :
    (runFrom step init
      [.mkGroup, .groupEnter 0, .cancel 0, .mkScope true none, .enter 1, .yield,
       .beginCycle 0, .run (.deliver 0), .run (.step 0), .spawn 0,
       .yield, .beginCycle 0, .run (.step 1), .sleep 5, .run (.deliver 0)]).map
      (fun st => ((st.tasks 1).st, st.futs 0, st.ready,
        ((st.tasks 1).nAnyio, (st.tasks 0).nAnyio),
        !(st.tasks 0).mustCancel && (st.scopes 0).deliver)) =
      some (.woken 0, .cancelled true, [.wakeup 1, .deliver 0], (1, 0), true) := by decide

/-- ... one cycle later the child is resumed with the AnyIO cancellation. -/
example :
    (traceFrom step init
      [.mkGroup, .groupEnter 0, .cancel 0, .mkScope true none, .enter 1, .yield,
       .beginCycle 0, .run (.deliver 0), .run (.step 0), .spawn 0,
       .yield, .beginCycle 0, .run (.step 1), .sleep 5, .run (.deliver 0), .run (.step 0),
       .yield, .beginCycle 0, .run (.wakeup 1)]).map (fun p => (p.2.getLast?, p.1.running)) =
      some (some (.done (.one .cancelAnyio)), some 1) := by decide

/-- `checkpoint_if_cancelled` in a cancelled scope: without a delivery in between the task yields
again (`C03_chkif`, first alternative) ... -/
example :
    (traceFrom step init
      [.mkScope false none, .enter 0, .cancel 0, .chkIfCancelled, .beginCycle 0,
       .run (.step 0)]).map
      (fun p => (p.2.getLast?, (p.1.tasks 0).lib, (p.1.tasks 0).st, p.1.ready)) =
      some (some .susp, .chkIf, .yielded, [.step 0]) := by decide

/-- ... and once the delivery has run it leaves the helper with the cancellation (second
alternative). -/
example :
    (traceFrom step init
      [.mkScope false none, .enter 0, .cancel 0, .chkIfCancelled, .beginCycle 0,
       .run (.deliver 0), .run (.step 0)]).map
      (fun p => (p.2.getLast?, (p.1.tasks 0).lib, p.1.running)) =
      some (some (.done (.one .cancelAnyio)), .none, some 0) := by decide

/-- `C03_cycle`: a cycle cannot begin while the batch is not empty. -/
example :
    (runFrom step init
      [.mkScope false none, .enter 0, .cancel 0, .chkIfCancelled, .beginCycle 0,
       .beginCycle 0]).isNone = true := by decide

end AnyioModel.Kernel
