/-
C03  "Level-triggered cancellation: nothing stays blocked in a cancelled scope" on the kernel model
(`Kernel/{Types,Scope,Step}.lean`: asyncio tasks/futures/loop cycles + `CancelScope`, `TaskGroup`).

The mechanism is `_deliver_cancellation` (`deliverGo` / `deliver`), rescheduled once per loop cycle
while it still finds a task that is not done, and restarted (`_restart_cancellation_in_parent`,
the repaired `_spawn`) whenever something moves back into its reach.

* `reachDown st o c` (`Kernel/DeliverInv.lean`) is the declarative reading of "a delivery from `o`
  reaches scope `c`": `c = o`, or walking up from `c` every scope strictly below `o` is active,
  not shielded and not itself cancelled, and the walk meets `o` (`C03_reachDown_iff`: the same over
  the `chain` of `c`).  `needs st o`: some task that is not done sits in such a scope.
  `hitSet st o t`: `t` sits in such a scope `c` and the loop body's test `hitCancels st c t` holds
  (`C03_hitCancels_iff`: not done, not `_must_cancel`, not the running task, started or host,
  waiter not done).
* `C03_deliverGo_spec`: the top-down walk of the code does exactly that (pure, under `WF`/`BW`).
* `C03_delivery_live`: the invariant finding F4 violated, for every reachable state.
* `C03_deliver_hits` / `C03_deliver_reschedules`: what one `.run (.deliver o)` does.
* `C03_cycle`, `C03_chkif`, `C03_latency_partial`; `C03_latency`, `C03_two_cycles` (sections 7, 8).

`active` is part of `reachDown`: the code walks `children`, which holds active scopes only.
"Every ancestor of an active scope is active, and every scope that holds a task is active" is the
invariant `C03_ancestors_active` (section 7, `Kernel/DeliverInv11.lean` .. `DeliverInv16.lean`); with
it, "a blocked task has no `_must_cancel`" (`C03_blocked_no_must_cancel`) and "a scheduled `deliver o`
callback implies `cancelCalled o`" (`C03_deliver_handle_cancelled`, `Kernel/DeliverInv8.lean` ..
`DeliverInv10.lean`) the latency statement holds at full strength: `C03_latency`, `C03_two_cycles`
(composition over runs: `Kernel/DeliverInv17.lean` .. `DeliverInv23.lean`).

Invariant and lemmas: `Kernel/DeliverInv.lean` .. `DeliverInv23.lean`.
-/
import AnyioModel.Kernel.DeliverInv7
import AnyioModel.Kernel.DeliverInv23
import AnyioModel.Kernel.CountInv5

namespace AnyioModel.Kernel

/-! ### 1. the walk of `_deliver_cancellation`, top-down vs. bottom-up -/

/-- **C03_reachDown_iff.**  `reachDown` over the chain of `c` (the scope itself followed by its
ancestors): `o` is met at some position of the chain, and every scope before that position is
active, not shielded and not cancelled. -/
theorem C03_reachDown_iff {st : State} (w : WF st) (o c : Nat) :
    reachDown st o c ↔
      c = o ∨ ∃ i, ∃ h : i < (st.scopes c).chain.length, (st.scopes c).chain[i] = o ∧
        ∀ j (hj : j < i),
          (st.scopes ((st.scopes c).chain[j]'(Nat.lt_trans hj h))).active = true ∧
          (st.scopes ((st.scopes c).chain[j]'(Nat.lt_trans hj h))).shield = false ∧
          (st.scopes ((st.scopes c).chain[j]'(Nat.lt_trans hj h))).cancelCalled = false := by
  constructor
  · exact reachDownChain_of_reachDown w
  · rintro (rfl | h)
    · exact .refl
    · exact reachDown_of_reachDownChain w _ c rfl h

/-- **C03_hitCancels_iff.**  When the loop body of `_deliver_cancellation` calls `task.cancel()`. -/
theorem C03_hitCancels_iff (st : State) (s t : Nat) :
    hitCancels st s t = true ↔
      (st.tasks t).st ≠ .done ∧ (st.tasks t).mustCancel = false ∧ st.running ≠ some t ∧
      ((st.scopes s).host = some t ∨ (st.tasks t).st ≠ .created) ∧
      ∀ f, (st.tasks t).st ≠ .woken f :=
  hitCancels_iff st s t

/-- **C03_deliverGo_frame.**  (i) The walk changes nothing but task cancellation state, futures,
`ready` (`Frame`: all structural scope fields, `groups`, `futWaiter`, counters, clock, `running`,
`timers`, `cur` unchanged; tasks only `blocked f → woken f` + cancellation fields; futures only
pending → done; `ready` only grows), no scope other than the origin at all, and no
`_cancel_handle`. -/
theorem C03_deliverGo_frame (st : State) (n o s : Nat) :
    Frame st (deliverGo n st o s).1 ∧
    (∀ x, x ≠ o → (deliverGo n st o s).1.scopes x = st.scopes x) ∧
    (∀ x, ((deliverGo n st o s).1.scopes x).deliver = (st.scopes x).deliver) :=
  ⟨frame_deliverGo n st o s, fun _ hx => deliverGo_scope_other n st o s hx,
    fun x => deliverGo_deliverFlag n st o s x⟩

/-- **C03_deliverGo_spec.**  (ii) + (iii), for every well-formed state in which blocked tasks are
the waiters of their (pending) futures: with the fuel `nScopes + 1` that `deliver` uses,
* the returned flag ("should retry") is true iff some task that is not done sits in a scope the
  delivery reaches;
* `Task.cancel()` is called exactly once on each task of `hitSet st o` — one more `nAnyio`; a task
  blocked on `f` becomes `woken f`, `f` is cancelled with the scope's message and its wake-up is
  scheduled; any other task keeps its state and gets `_must_cancel` with the scope's message —
* and the record of every other task is unchanged. -/
theorem C03_deliverGo_spec {st : State} (w : WF st) (bw : BW st) (o : Nat) :
    ((deliverGo (st.nScopes + 1) st o o).2 = true ↔ needs st o) ∧
    ∀ t,
      (hitSet st o t →
        ((deliverGo (st.nScopes + 1) st o o).1.tasks t).nAnyio = (st.tasks t).nAnyio + 1 ∧
        (∀ f, (st.tasks t).st = .blocked f →
          ((deliverGo (st.nScopes + 1) st o o).1.tasks t).st = .woken f ∧
          (deliverGo (st.nScopes + 1) st o o).1.futs f = .cancelled true ∧
          Handle.wakeup t ∈ (deliverGo (st.nScopes + 1) st o o).1.ready) ∧
        ((∀ f, (st.tasks t).st ≠ .blocked f) →
          ((deliverGo (st.nScopes + 1) st o o).1.tasks t).st = (st.tasks t).st ∧
          ((deliverGo (st.nScopes + 1) st o o).1.tasks t).mustCancel = true ∧
          ((deliverGo (st.nScopes + 1) st o o).1.tasks t).mcAnyio = true)) ∧
      (¬ hitSet st o t → (deliverGo (st.nScopes + 1) st o o).1.tasks t = st.tasks t) := by
  refine ⟨deliverGo_flag w.tree o, fun t => ?_⟩
  obtain ⟨h1, h2⟩ := deliverGo_task w.tree bw o t
  refine ⟨fun hh => ?_, h2⟩
  have r := h1 hh
  refine ⟨r.nAnyio, fun f hf => ?_, r.other⟩
  obtain ⟨a, b, c, _⟩ := r.blocked f hf
  exact ⟨a, b, c⟩

/-! ### 2. the liveness invariant -/

/-- **C03_blocked_waits.**  In every reachable state a task that is `blocked f` is the registered
waiter of `f`, and `f` is pending (so `Task.cancel()` on it does cancel `f` and wake the task). -/
theorem C03_blocked_waits {st : State} (hr : Reach st) (t f : Nat)
    (hb : (st.tasks t).st = .blocked f) : st.futWaiter f = some t ∧ st.futs f = .pending :=
  (di_reach hr).bw t f hb

/-- **C03_delivery_live.**  In every reachable state, for every scope `o` that is active and
cancelled: if some task that is not done sits in a scope that a delivery from `o` reaches, then
`o`'s `_cancel_handle` is set; and whenever a `_cancel_handle` is set, a `deliver o` callback is
scheduled for this or the next loop cycle.  (Finding F4 was a reachable state violating this: the
delivery had gone idle while the host sat in a shielded scope, and `_spawn` added a task.) -/
theorem C03_delivery_live {st : State} (hr : Reach st) (o : Nat) :
    ((st.scopes o).active = true → (st.scopes o).cancelCalled = true → needs st o →
      (st.scopes o).deliver = true ∧ Handle.deliver o ∈ st.ready ++ st.cur) ∧
    ((st.scopes o).deliver = true → Handle.deliver o ∈ st.ready ++ st.cur) := by
  have d := di_reach hr
  refine ⟨fun ha hc hn => ?_, d.sched o⟩
  have := d.live o ha hc hn
  exact ⟨this, d.sched o this⟩

/-- the same per task: a task that is not done, whose scope is reached from an active cancelled
scope `o`, has a delivery from `o` scheduled -/
theorem C03_delivery_live_task {st : State} (hr : Reach st) {o c t : Nat}
    (ha : (st.scopes o).active = true) (hc : (st.scopes o).cancelCalled = true)
    (hrd : reachDown st o c) (ht : t ∈ (st.scopes c).tasks) (hd : (st.tasks t).st ≠ .done) :
    Handle.deliver o ∈ st.ready ++ st.cur :=
  ((C03_delivery_live hr o).1 ha hc ⟨c, t, hrd, ht, hd⟩).2

/-! ### 3. one run of the delivery callback -/

/-- **C03_deliver_hits.**  `.run (.deliver o)` in a reachable state: every task of `hitSet st o`
that was blocked on `f` is `woken f`, `f` is cancelled with the scope's message and `wakeup t` is
scheduled; every other task of `hitSet` (runnable: `created` host / `yielded`) keeps its state and
has `_must_cancel` set with the scope's message; exactly these tasks got one `Task.cancel()`
(`nAnyio`), and all other task records are unchanged. -/
theorem C03_deliver_hits {st st' : State} {o : Nat} {out : Out} (hr : Reach st)
    (hs : step st (.run (.deliver o)) = some (st', out)) (t : Nat) :
    (hitSet st o t →
      (st'.tasks t).nAnyio = (st.tasks t).nAnyio + 1 ∧
      (∀ f, (st.tasks t).st = .blocked f →
        (st'.tasks t).st = .woken f ∧ st'.futs f = .cancelled true ∧
          Handle.wakeup t ∈ st'.ready) ∧
      ((∀ f, (st.tasks t).st ≠ .blocked f) →
        (st'.tasks t).st = (st.tasks t).st ∧ (st'.tasks t).mustCancel = true ∧
          (st'.tasks t).mcAnyio = true)) ∧
    (¬ hitSet st o t → st'.tasks t = st.tasks t) := by
  have w := wf_reach hr
  have d := di_reach hr
  simp only [step] at hs
  split at hs
  · contradiction
  · simp only [Option.some.injEq, Prod.mk.injEq] at hs
    obtain ⟨rfl, _⟩ := hs
    have w1 : WF { st with cur := st.cur.erase (.deliver o) } :=
      wf_shrinkCur w _ (fun y hy => List.mem_of_mem_erase hy)
    have b1 : BW { st with cur := st.cur.erase (.deliver o) } := d.bw
    obtain ⟨h1, h2⟩ := deliver_task w1.tree b1 o t
    constructor
    · intro hh
      have r := h1 (hitSet_congr (a := st) (b := { st with cur := st.cur.erase (.deliver o) })
        rfl rfl rfl hh)
      refine ⟨r.nAnyio, fun f hf => ?_, r.other⟩
      obtain ⟨a, b, c, _⟩ := r.blocked f hf
      exact ⟨a, b, c⟩
    · intro hn
      exact h2 (fun hh => hn (hitSet_congr (a := { st with cur := st.cur.erase (.deliver o) })
        (b := st) rfl rfl rfl hh))

/-- **C03_deliver_reschedules.**  `.run (.deliver o)` keeps `_cancel_handle` set, and schedules
itself for the next cycle, iff some task that is not done is still in its reach; otherwise it
clears `_cancel_handle`.  Nothing else about scopes changes. -/
theorem C03_deliver_reschedules {st st' : State} {o : Nat} {out : Out} (hr : Reach st)
    (hs : step st (.run (.deliver o)) = some (st', out)) :
    ((st'.scopes o).deliver = true ↔ needs st o) ∧
    (needs st o → Handle.deliver o ∈ st'.ready) ∧
    (∀ x, ScopeStructEq (st.scopes x) (st'.scopes x)) := by
  have w := wf_reach hr
  simp only [step] at hs
  split at hs
  · contradiction
  · simp only [Option.some.injEq, Prod.mk.injEq] at hs
    obtain ⟨rfl, _⟩ := hs
    have w1 : WF { st with cur := st.cur.erase (.deliver o) } :=
      wf_shrinkCur w _ (fun y hy => List.mem_of_mem_erase hy)
    have hn : needs { st with cur := st.cur.erase (.deliver o) } o ↔ needs st o := by
      constructor
      · rintro ⟨c, t, a, b, e⟩
        exact ⟨c, t, reachDown_congr (a := { st with cur := st.cur.erase (.deliver o) }) (b := st)
          (fun s => ⟨rfl, rfl, rfl, rfl⟩) a, b, e⟩
      · rintro ⟨c, t, a, b, e⟩
        exact ⟨c, t, reachDown_congr (a := st) (b := { st with cur := st.cur.erase (.deliver o) })
          (fun s => ⟨rfl, rfl, rfl, rfl⟩) a, b, e⟩
    have hf := deliver_flag w1.tree o
    refine ⟨hf.trans hn, fun h => ?_, fun x =>
      (frame_deliver ({ st with cur := st.cur.erase (.deliver o) } : State) o).scopes x⟩
    have hd := hf.mpr (hn.mpr h)
    have := deliver_sched_self _ o hd
    rw [(frame_deliver _ o).cur] at this
    rcases List.mem_append.mp this with hm | hm
    · exact hm
    · -- the handle found in `cur` would be a second copy; the scheduled one is in `ready`
      rw [deliver_flag_self] at hd
      unfold deliver
      simp only [hd, if_true]
      simp

/-! ### 4. cycle structure -/

/-- **C03_cycle.**  A new loop cycle begins only when the previous batch has been run completely
(`cur = []`) and no task is running; it moves everything scheduled so far (`ready`, in order)
into the new batch, followed by the due timers, and leaves `ready` empty: a handle scheduled
during a cycle runs in the next cycle, before any later cycle begins. -/
theorem C03_cycle {st st' : State} {now : Nat} {out : Out}
    (hs : step st (.beginCycle now) = some (st', out)) :
    st.cur = [] ∧ st.running = none ∧ st'.ready = [] ∧ st'.cycle = st.cycle + 1 ∧
    (∃ due, st'.cur = st.ready ++ due) ∧ (∀ h ∈ st.ready, h ∈ st'.cur) ∧
    st'.tasks = st.tasks ∧ st'.scopes = st.scopes ∧ st'.futs = st.futs := by
  simp only [step] at hs
  split at hs
  · contradiction
  · rename_i hg
    simp only [Option.some.injEq, Prod.mk.injEq] at hs
    obtain ⟨rfl, _⟩ := hs
    have hc : st.cur = [] := by
      cases hc : st.cur with
      | nil => rfl
      | cons a l => exact absurd (.inr (.inl (by simp [hc]))) hg
    have hrn : st.running = none := by
      cases hx : st.running with
      | none => rfl
      | some t => exact absurd (.inl (by simp [hx])) hg
    exact ⟨hc, hrn, rfl, rfl, ⟨_, rfl⟩, fun h hm => List.mem_append_left _ hm, rfl, rfl, rfl⟩

/-- **C03_run_in_batch.**  A callback runs only out of the current batch, with no task running. -/
theorem C03_run_in_batch {st st' : State} {h : Handle} {out : Out}
    (hs : step st (.run h) = some (st', out)) : h ∈ st.cur ∧ st.running = none := by
  simp only [step] at hs
  split at hs
  · contradiction
  · rename_i hg
    refine ⟨Classical.byContradiction (fun hx => hg (.inr hx)), ?_⟩
    cases hx : st.running with
    | none => rfl
    | some t => exact absurd (.inl (by simp [hx])) hg

/-! ### 5. `checkpoint_if_cancelled` -/

/-- **C03_chkif.**  A task spinning in `checkpoint_if_cancelled` (`Lib.chkIf`, suspended in its
`sleep(0)`), when its `__step` runs: without a pending cancellation it yields again (still in
`chkIf`, `__step` rescheduled); with one it leaves the helper raising exactly that
cancellation.  It never completes normally. -/
theorem C03_chkif {st st' : State} {t : Nat} {out : Out}
    (hl : (st.tasks t).lib = .chkIf) (hy : (st.tasks t).st = .yielded)
    (hs : step st (.run (.step t)) = some (st', out)) :
    ((st.tasks t).mustCancel = false ∧ out = .susp ∧ (st'.tasks t).lib = .chkIf ∧
      (st'.tasks t).st = .yielded ∧ Handle.step t ∈ st'.ready ∧ st'.running = none) ∨
    ((st.tasks t).mustCancel = true ∧
      out = .done (.one (if (st.tasks t).mcAnyio then .cancelAnyio else .cancelNative)) ∧
      (st'.tasks t).lib = .none ∧ st'.running = some t ∧ (st'.tasks t).mustCancel = false) := by
  simp only [step] at hs
  split at hs
  · contradiction
  · simp only [hy, or_true, if_true] at hs
    unfold runTask at hs
    simp only [hy] at hs
    unfold continueLib at hs
    simp only [setTask_tasks, upd_same, hl] at hs
    unfold resumeValue at hs
    simp only [hy] at hs
    cases hm : (st.tasks t).mustCancel
    · left
      simp only [hm, Bool.false_eq_true, if_false, Option.some.injEq, Prod.mk.injEq] at hs
      obtain ⟨rfl, rfl⟩ := hs
      simp [doYield, hl]
    · right
      simp only [hm, if_true, Option.some.injEq, Prod.mk.injEq] at hs
      obtain ⟨rfl, rfl⟩ := hs
      simp

/-- a task enters the helper only inside an effectively cancelled scope, and then suspends -/
theorem C03_chkif_enter {st st' : State} {out : Out}
    (hs : step st .chkIfCancelled = some (st', out)) :
    ∃ t, st.running = some t ∧
      ((out = .susp ∧ (st'.tasks t).lib = .chkIf ∧ (st'.tasks t).st = .yielded ∧
          ∃ s, (st.tasks t).scope = some s ∧ effCancelled st s = true) ∨
       (out = .done .none ∧ st' = st)) := by
  simp only [step] at hs
  split at hs
  · contradiction
  · rename_i t hr
    refine ⟨t, hr, ?_⟩
    split at hs
    · contradiction
    · split at hs
      · rename_i s hsc
        split at hs
        · rename_i he
          simp only [Option.some.injEq, Prod.mk.injEq] at hs
          obtain ⟨rfl, rfl⟩ := hs
          exact .inl ⟨rfl, by simp [doYield], by simp [doYield], s, hsc, he⟩
        · simp only [Option.some.injEq, Prod.mk.injEq] at hs
          obtain ⟨rfl, rfl⟩ := hs
          exact .inr ⟨rfl, rfl⟩
      · simp only [Option.some.injEq, Prod.mk.injEq] at hs
        obtain ⟨rfl, rfl⟩ := hs
        exact .inr ⟨rfl, rfl⟩

/-! ### 6. latency -/

/- Full statement aimed at (DESIGN §5 C03_latency): from a state at the beginning of a cycle in
which task `t` is `.blocked f` in a scope `c` with `effCancelled st c`, after the events of that
cycle (all of `cur` run) `t` is `.woken f` with a cancelled future.

`C03_latency_partial` below: the two links the bound consists of, for a given origin `o` and under
the hypothesis `hm`.  (a) In every reachable state, if `t` is blocked in a scope reached from an
active cancelled scope `o`, a `deliver o` callback is in the batch of this cycle or scheduled for the
next.  (b) When that callback runs and `t` is still blocked there, `t` is `woken f`, `f` is cancelled
with the scope's message and `wakeup t` is scheduled for the next cycle (`C03_cycle`: it runs before
any later cycle begins, and `resumeValue` of a task woken on a cancelled future is the cancellation).
The three things it leaves open are closed in sections 7 and 8: (1) the passage from
`effCancelled st c` to an active cancelled origin `o` with `reachDown st o c` is `C03_origin` (from
`C03_ancestors_active`); (2) the composition over an arbitrary interleaving of the other
transitions is `C03_two_cycles` (with `C03_cancel_delivers_at_once`, `C03_origin_stable`,
`C03_deliver_stays_in_batch`); (3) `hm` is `C03_blocked_no_must_cancel`.  The full statement is
`C03_latency` + `C03_two_cycles`. -/
theorem C03_latency_partial {st : State} (hr : Reach st) {o c t f : Nat}
    (ha : (st.scopes o).active = true) (hc : (st.scopes o).cancelCalled = true)
    (hrd : reachDown st o c) (ht : t ∈ (st.scopes c).tasks)
    (hb : (st.tasks t).st = .blocked f) (hm : (st.tasks t).mustCancel = false) :
    Handle.deliver o ∈ st.ready ++ st.cur ∧
    ∀ st' out, step st (.run (.deliver o)) = some (st', out) →
      (st'.tasks t).st = .woken f ∧ st'.futs f = .cancelled true ∧
        Handle.wakeup t ∈ st'.ready ∧ resumeValue st' t = .one .cancelAnyio := by
  have hd : (st.tasks t).st ≠ .done := by rw [hb]; simp
  refine ⟨C03_delivery_live_task hr ha hc hrd ht hd, ?_⟩
  intro st' out hs
  have hrun := (C03_run_in_batch hs).2
  have hh : hitSet st o t := by
    refine ⟨c, hrd, ht, (hitCancels_iff st c t).mpr ⟨hd, hm, by rw [hrun]; simp, .inr ?_, ?_⟩⟩
    · rw [hb]; simp
    · intro g; rw [hb]; simp
  obtain ⟨h1, h2, h3⟩ := ((C03_deliver_hits hr hs t).1 hh).2.1 f hb
  refine ⟨h1, h2, h3, ?_⟩
  simp [resumeValue, h1, h2]

/-! ### 7. the three invariants behind the latency bound -/

/-- **C03_ancestors_active.**  In every reachable state: the parent of an active scope is active;
a scope that holds a task (`_tasks`) is active; hence every scope on the chain of a scope that
holds a task is active.  (A task group leaves its scope only when `task_done` has run for every
child, and every other scope holds only its host; `Kernel/DeliverInv11.lean` .. `16`.) -/
theorem C03_ancestors_active {st : State} (hr : Reach st) :
    (∀ c p, (st.scopes c).active = true → (st.scopes c).parent = some p →
      (st.scopes p).active = true) ∧
    (∀ c t, t ∈ (st.scopes c).tasks → (st.scopes c).active = true) ∧
    (∀ c t, t ∈ (st.scopes c).tasks → ∀ x ∈ (st.scopes c).chain, (st.scopes x).active = true) := by
  have h := (xi_reach hr).1
  have w := wf_reach hr
  exact ⟨h.a1, h.a2, fun c t ht => chain_active w h _ c rfl (h.a2 c t ht)⟩

/-- **C03_done_hosts_nothing.**  In every reachable state a task that is done hosts no scope, and a
task hosts no scope above its task-handle scope. -/
theorem C03_done_hosts_nothing {st : State} (hr : Reach st) {s u : Nat}
    (hh : (st.scopes s).host = some u) : (st.tasks u).st ≠ .done :=
  (xi_reach hr).1.a5 s u hh

/-- **C03_origin.**  In every reachable state an effectively cancelled scope that holds a task is
reached by the delivery of an active, cancelled scope: the first cancelled scope on its chain. -/
theorem C03_origin {st : State} (hr : Reach st) {c t : Nat} (ht : t ∈ (st.scopes c).tasks)
    (he : effCancelled st c = true) :
    ∃ o, (st.scopes o).active = true ∧ (st.scopes o).cancelCalled = true ∧ reachDown st o c := by
  have h := (xi_reach hr).1
  exact origin_of_effCancelled (wf_reach hr) h _ c rfl (h.a2 c t ht) he

/-- **C03_blocked_no_must_cancel.**  In every reachable state a blocked task has no `_must_cancel`:
`Task.cancel()` on a blocked task cancels the future it waits for instead of setting the flag, and
`Task.__step` consumes the flag before it suspends the task. -/
theorem C03_blocked_no_must_cancel {st : State} (hr : Reach st) {t f : Nat}
    (hb : (st.tasks t).st = .blocked f) : (st.tasks t).mustCancel = false :=
  (dbn_reach hr).2.1 t f hb

/-- **C03_deliver_handle_cancelled.**  In every reachable state a scheduled `deliver o` callback
(in the batch of this cycle or of the next) belongs to a scope on which `cancel()` was called. -/
theorem C03_deliver_handle_cancelled {st : State} (hr : Reach st) {o : Nat}
    (hm : Handle.deliver o ∈ st.ready ++ st.cur) : (st.scopes o).cancelCalled = true :=
  (dbn_reach hr).1 o hm

/-- **C03_deliver_stays_in_batch.**  A `deliver o` callback of the current batch stays in the batch
under every transition other than the loop running it (a new cycle cannot begin before, by
`C03_cycle`). -/
theorem C03_deliver_stays_in_batch {st st' : State} {e : Ev} {out : Out} {o : Nat} (hr : Reach st)
    (hs : step st e = some (st', out)) (ho : Handle.deliver o ∈ st.cur)
    (he : e ≠ .run (.deliver o)) : Handle.deliver o ∈ st'.cur :=
  step_keeps_deliver hr hs ho he

/-! ### 8. latency at full strength -/

/-- **C03_latency.**  In every reachable state: if scope `c` is effectively cancelled and task `t`
of `c` is blocked on `f`, then there is an active cancelled scope `o` whose delivery reaches `c`, a
`deliver o` callback is in the batch of this cycle or scheduled for the next, and when the loop runs
it `t` is `woken f`, `f` is cancelled with the scope's message, `wakeup t` is scheduled for the next
cycle, and what `Task.__wakeup` will throw into the coroutine is the AnyIO cancellation. -/
theorem C03_latency {st : State} (hr : Reach st) {c t f : Nat}
    (he : effCancelled st c = true) (ht : t ∈ (st.scopes c).tasks)
    (hb : (st.tasks t).st = .blocked f) :
    ∃ o, (st.scopes o).active = true ∧ (st.scopes o).cancelCalled = true ∧ reachDown st o c ∧
      Handle.deliver o ∈ st.ready ++ st.cur ∧
      ∀ st' out, step st (.run (.deliver o)) = some (st', out) →
        (st'.tasks t).st = .woken f ∧ st'.futs f = .cancelled true ∧
          Handle.wakeup t ∈ st'.ready ∧ resumeValue st' t = .one .cancelAnyio := by
  obtain ⟨o, ha, hc, hrd⟩ := C03_origin hr ht he
  have := C03_latency_partial hr ha hc hrd ht hb (C03_blocked_no_must_cancel hr hb)
  exact ⟨o, ha, hc, hrd, this.1, this.2⟩

/-- **C03_deliver_enabled.**  The callback of `C03_latency` can run as soon as it is in the current
batch and no task is running. -/
theorem C03_deliver_enabled {st : State} {o : Nat} (hm : Handle.deliver o ∈ st.cur)
    (hrun : st.running = none) : ∃ st', step st (.run (.deliver o)) = some (st', .none) := by
  simp [step, hrun, hm]

/-- **C03_one_cycle.**  Let `t` be blocked on `f` in scope `c`, reached by the delivery of the
active cancelled scope `o`, and let this stay so (`Reached o c t f`) in every state of a run `es`
from a reachable state.  If the `deliver o` callback is in the current batch, no new loop cycle
begins in `es`; in general at most one does. -/
theorem C03_one_cycle {st st' : State} {es : List Ev} {o c t f : Nat} (hr : Reach st)
    (hrun : runFrom step st es = some st') (ha : Along (Reached o c t f) st es) :
    nCycles es ≤ 1 ∧ (Handle.deliver o ∈ st.cur → nCycles es = 0) :=
  ⟨reached_at_most_one_cycle es st st' hr hrun ha, reached_no_cycle es st st' hr hrun ha⟩

/-- **C03_cancel_delivers_at_once.**  No transition cancels a scope and leaves a task blocked within
its reach, and no transition moves a blocked task into the reach of a cancelled scope: if `t` is
blocked on `f` before and after a transition (other than un-shielding a scope) from a reachable
state, and afterwards sits in a scope `c` reached by the delivery of an active cancelled scope `x`,
then `x` was cancelled, active and reaching `c` before.  (`cancel()` calls
`_deliver_cancellation` itself.) -/
theorem C03_cancel_delivers_at_once {st st' : State} {e : Ev} {out : Out} {t f c x : Nat}
    (hr : Reach st) (hs : step st e = some (st', out)) (hne : ∀ s, e ≠ .setShield s false)
    (hb : (st.tasks t).st = .blocked f) (hb' : (st'.tasks t).st = .blocked f)
    (ht' : t ∈ (st'.scopes c).tasks) (hc : (st'.scopes x).cancelCalled = true)
    (ha : (st'.scopes x).active = true) (hrd : reachDown st' x c) :
    (st.scopes x).cancelCalled = true ∧ (st.scopes x).active = true ∧ reachDown st x c ∧
      t ∈ (st.scopes c).tasks := by
  have q := qr_step (c := c) hr hb hs hne
  have hsc : (stepPre st e).scopes = st.scopes := by cases e <;> rfl
  obtain ⟨c1, a1, r1⟩ := q.sit hb' ht' x hc ha hrd
  have hm := q.mem hb' ht'
  rw [hsc] at c1 a1 hm
  exact ⟨c1, a1, reachDown_congr (fun y => by rw [hsc]; exact ⟨rfl, rfl, rfl, rfl⟩) r1, hm⟩

/-- **C03_origin_stable.**  The origin of `C03_origin` is unique, and it does not change along a
transition before and after which `t` is blocked on `f` in the effectively cancelled scope `c`. -/
theorem C03_origin_stable {st st' : State} {e : Ev} {out : Out} {t f c o o' : Nat} (hr : Reach st)
    (hs : step st e = some (st', out)) (h : Stuck t f c st) (h' : Stuck t f c st')
    (ho : Origin st o c) (ho' : Origin st' o' c) : o' = o :=
  origin_stable hr hs h h' ho ho'

/-- **C03_two_cycles.**  Bounded latency over arbitrary event lists.  Let `Stuck t f c` — task `t`
is blocked on `f` in scope `c`, and `c` is effectively cancelled — hold in every state of a run
`es` from a reachable state.  Then at most one new loop cycle begins in `es`; and none at all if
the `deliver` callback of the origin is already in the current batch.  (The callback that
`C03_delivery_live` keeps scheduled sits in the batch of the current cycle or of the next one; it
leaves a batch only by being run; a new cycle begins only when the batch is empty; running it wakes
`t`; and the origin does not change while `t` is stuck, `C03_origin_stable`.) -/
theorem C03_two_cycles {st st' : State} {es : List Ev} {t f c : Nat} (hr : Reach st)
    (hrun : runFrom step st es = some st') (ha : Along (Stuck t f c) st es) :
    nCycles es ≤ 1 ∧
    (∀ o, Origin st o c → Handle.deliver o ∈ st.cur → nCycles es = 0) :=
  ⟨stuck_at_most_one_cycle es st st' hr hrun ha, stuck_no_cycle es st st' hr hrun ha⟩

/-- **C03_two_cycles_interrupted.**  The same, read forwards: from a reachable state in which `t`
is blocked on `f` in the effectively cancelled scope `c`, every run in which two new loop cycles
begin passes — before the second one has begun — through a state in which `t` is no longer
blocked on `f`, or `c` is no longer effectively cancelled (somebody shielded it, which is the only
way: `cancelCalled` is never reset). -/
theorem C03_two_cycles_interrupted {st st' : State} {es : List Ev} {t f c : Nat} (hr : Reach st)
    (hrun : runFrom step st es = some st') (h2 : 2 ≤ nCycles es) :
    ∃ es1 es2 st1, es = es1 ++ es2 ∧ runFrom step st es1 = some st1 ∧
      ((st1.tasks t).st ≠ .blocked f ∨ t ∉ (st1.scopes c).tasks ∨ effCancelled st1 c = false) := by
  have hn : ¬ Along (Stuck t f c) st es := by
    intro hal
    have := stuck_at_most_one_cycle es st st' hr hrun hal
    omega
  obtain ⟨es1, es2, st1, he, hr1, hs1⟩ := (not_along_iff hrun).mp hn
  refine ⟨es1, es2, st1, he, hr1, ?_⟩
  by_cases h1 : (st1.tasks t).st = .blocked f
  · by_cases h3 : t ∈ (st1.scopes c).tasks
    · right; right
      cases h4 : effCancelled st1 c
      · rfl
      · exact absurd ⟨h1, h3, h4⟩ hs1
    · exact .inr (.inl h3)
  · exact .inl h1

/-! ### non-vacuity -/

/-- The F4 history, part 1: the group scope (scope 0) is cancelled while its host is running, the
host enters a shielded scope (scope 1) and yields; in the next cycle the delivery finds nobody in
its reach (the host sits behind the shield) and goes idle: `_cancel_handle` is cleared and nothing
is scheduled. -/
example :
    (runFrom step init
      [.mkGroup, .groupEnter 0, .cancel 0, .mkScope true none, .enter 1, .yield,
       .beginCycle 0, .run (.deliver 0), .run (.step 0)]).map
      (fun st => ((st.scopes 0).active && (st.scopes 0).cancelCalled && (st.scopes 1).shield,
        (st.scopes 0).deliver, (st.ready ++ st.cur).length,
        (st.scopes 0).tasks.length, (st.scopes 0).children)) =
      some (true, false, 0, 0, [1]) := by decide

/-- The F4 history, part 2: `tg.start_soon(...)` from inside the shield.  The new task (task 1)
sits in the cancelled group scope, not behind any shield; `_spawn` restarts the delivery:
`_cancel_handle` is set again and a `deliver 0` callback is pending (`C03_delivery_live`). -/
example :
    (runFrom step init
      [.mkGroup, .groupEnter 0, .cancel 0, .mkScope true none, .enter 1, .yield,
       .beginCycle 0, .run (.deliver 0), .run (.step 0), .spawn 0]).map
      (fun st => ((st.scopes 0).deliver, st.ready, (st.scopes 0).tasks, (st.tasks 1).st)) =
      some (true, [.step 1, .deliver 0], [1], .created) := by decide

/-- ... the child starts, enters its own scope (scope 2, child of the group scope) and blocks in
`sleep(5)` on future 0 ... -/
example :
    (runFrom step init
      [.mkGroup, .groupEnter 0, .cancel 0, .mkScope true none, .enter 1, .yield,
       .beginCycle 0, .run (.deliver 0), .run (.step 0), .spawn 0,
       .yield, .beginCycle 0, .run (.step 1), .sleep 5]).map
      (fun st => ((st.tasks 1).st, ((st.tasks 1).scope, (st.scopes 2).parent),
        (st.scopes 2).shield, st.cur, (st.scopes 0).deliver)) =
      some (.blocked 0, (some 2, some 0), false, [.deliver 0, .step 0], true) := by decide

/-- ... and the delivery of the same cycle interrupts it (`C03_deliver_hits`): woken, its future
cancelled with the scope's message, wake-up scheduled, exactly one `Task.cancel()`; the host behind
the shield (task 0) is not touched; the delivery stays scheduled. -/
example :
    (runFrom step init
      [.mkGroup, .groupEnter 0, .cancel 0, .mkScope true none, .enter 1, .yield,
       .beginCycle 0, .run (.deliver 0), .run (.step 0), .spawn 0,
       .yield, .beginCycle 0, .run (.step 1), .sleep 5, .run (.deliver 0)]).map
      (fun st => ((st.tasks 1).st, st.futs 0, st.ready,
        ((st.tasks 1).nAnyio, (st.tasks 0).nAnyio),
        !(st.tasks 0).mustCancel && (st.scopes 0).deliver)) =
      some (.woken 0, .cancelled true, [.wakeup 1, .deliver 0], (1, 0), true) := by decide

/-- ... one cycle later the child is resumed with the AnyIO cancellation. -/
example :
    (traceFrom step init
      [.mkGroup, .groupEnter 0, .cancel 0, .mkScope true none, .enter 1, .yield,
       .beginCycle 0, .run (.deliver 0), .run (.step 0), .spawn 0,
       .yield, .beginCycle 0, .run (.step 1), .sleep 5, .run (.deliver 0), .run (.step 0),
       .yield, .beginCycle 0, .run (.wakeup 1)]).map (fun p => (p.2.getLast?, p.1.running)) =
      some (some (.done (.one .cancelAnyio)), some 1) := by decide

/-- `checkpoint_if_cancelled` in a cancelled scope: without a delivery in between the task yields
again (`C03_chkif`, first alternative) ... -/
example :
    (traceFrom step init
      [.mkScope false none, .enter 0, .cancel 0, .chkIfCancelled, .beginCycle 0,
       .run (.step 0)]).map
      (fun p => (p.2.getLast?, (p.1.tasks 0).lib, (p.1.tasks 0).st, p.1.ready)) =
      some (some .susp, .chkIf, .yielded, [.step 0]) := by decide

/-- ... and once the delivery has run it leaves the helper with the cancellation (second
alternative). -/
example :
    (traceFrom step init
      [.mkScope false none, .enter 0, .cancel 0, .chkIfCancelled, .beginCycle 0,
       .run (.deliver 0), .run (.step 0)]).map
      (fun p => (p.2.getLast?, (p.1.tasks 0).lib, p.1.running)) =
      some (some (.done (.one .cancelAnyio)), .none, some 0) := by decide

/-- `C03_cycle`: a cycle cannot begin while the batch is not empty. -/
example :
    (runFrom step init
      [.mkScope false none, .enter 0, .cancel 0, .chkIfCancelled, .beginCycle 0,
       .beginCycle 0]).isNone = true := by decide

/-- `C03_latency` / `C03_two_cycles`, the plain history: the root task enters scope 0, the scope is
cancelled while its host runs (the delivery finds the running host and reschedules itself), the
host blocks on a future.  The state the theorems talk about: blocked, no `_must_cancel`
(`C03_blocked_no_must_cancel`), scope effectively cancelled and active
(`C03_ancestors_active`), `deliver 0` scheduled and `cancelCalled` (`C03_deliver_handle_cancelled`). -/
example :
    (runFrom step init
      [.mkScope false none, .enter 0, .cancel 0, .mkFut, .awaitFut 0]).map
      (fun st => ((st.tasks 0).st, (st.tasks 0).mustCancel, effCancelled st 0,
        (st.scopes 0).active && (st.scopes 0).cancelCalled, st.ready)) =
      some (.blocked 0, false, true, true, [.deliver 0]) := by decide

/-- ... first new cycle: the callback is in the batch and wakes the task; a second cycle cannot
begin before it has run (`C03_one_cycle`: `nCycles = 0` once the callback is in `cur`) ... -/
example :
    (runFrom step init
      [.mkScope false none, .enter 0, .cancel 0, .mkFut, .awaitFut 0, .beginCycle 0,
       .run (.deliver 0)]).map
      (fun st => ((st.tasks 0).st, st.futs 0, st.ready, resumeValue st 0)) =
      some (.woken 0, .cancelled true, [.wakeup 0, .deliver 0], .one .cancelAnyio) := by decide

example :
    (runFrom step init
      [.mkScope false none, .enter 0, .cancel 0, .mkFut, .awaitFut 0, .beginCycle 0,
       .beginCycle 0]).isNone = true ∧
    nCycles [.beginCycle 0, .run (.deliver 0), .beginCycle 0] = 2 := by decide

/-- ... second cycle: the task is resumed with the AnyIO cancellation. -/
example :
    (traceFrom step init
      [.mkScope false none, .enter 0, .cancel 0, .mkFut, .awaitFut 0, .beginCycle 0,
       .run (.deliver 0), .beginCycle 0, .run (.wakeup 0)]).map
      (fun p => (p.2.getLast?, p.1.running)) =
      some (some (.resumed (.one .cancelAnyio)), some 0) := by decide

/-- Why `C03_two_cycles` asks for `effCancelled` in every state of the run and not only at its
start: the path from the origin (scope 0) down to the task's scope (scope 1) is cut by
`scope1.shield = True` before the delivery runs; scope 1 is no longer effectively cancelled, the
delivery does not reach the task, and it stays blocked over any number of cycles — correctly
(the last alternative of `C03_two_cycles_interrupted`). -/
example :
    (runFrom step init
      [.mkScope false none, .enter 0, .mkScope false none, .enter 1, .cancel 0, .mkFut,
       .awaitFut 0, .setShield 1 true, .beginCycle 0, .run (.deliver 0), .beginCycle 0,
       .beginCycle 0]).map
      (fun st => ((st.tasks 0).st, effCancelled st 1, effCancelled st 0, (st.scopes 0).deliver)) =
      some (.blocked 0, false, true, false) := by decide

/-- `C03_blocked_no_must_cancel`, the other half: `_must_cancel` set while the task runs
(`task.cancel()` from outside) is consumed by `Task.__step` when the task suspends — the future is
cancelled instead and the task is `woken`, never `blocked` with the flag set. -/
example :
    (runFrom step init [.nativeCancel 0, .mkFut, .awaitFut 0]).map
      (fun st => ((st.tasks 0).st, (st.tasks 0).mustCancel, st.futs 0, st.ready)) =
      some (.woken 0, false, .cancelled false, [.wakeup 0]) := by decide

/-- `C03_ancestors_active` on a task group: the child (task 1) sits in its handle scope (scope 1),
whose parent is the group scope (scope 0) hosted by the root task; while the child is alive
`__aexit__` waits (in scope 2) and scope 0 stays active; after `task_done` the group scope is left
and nothing holds a task any more. -/
example :
    (runFrom step init
      [.mkGroup, .groupEnter 0, .spawn 0, .aexit 0 .none, .beginCycle 0, .run (.step 1)]).map
      (fun st => ((st.scopes 1).parent, (st.scopes 1).active && (st.scopes 0).active,
        (st.scopes 1).tasks, (st.scopes 2).tasks, (st.scopes 0).tasks)) =
      some (some 0, true, [1], [0], []) := by decide

example :
    (runFrom step init
      [.mkGroup, .groupEnter 0, .spawn 0, .aexit 0 .none, .beginCycle 0, .run (.step 1),
       .finish .none, .beginCycle 0, .run (.taskDone 1), .beginCycle 0, .run (.wakeup 0)]).map
      (fun st => ((st.scopes 0).active, (st.scopes 1).active, (st.scopes 2).active,
        (st.scopes 0).tasks, (st.groups 0).exited)) =
      some (false, false, false, [], true) := by decide

/-- The bound of `C03_two_cycles` is tight: one new cycle can begin while the task is still stuck
(the callback was scheduled in the previous cycle and now sits in the batch) ... -/
example :
    (runFrom step init
      [.mkScope false none, .enter 0, .cancel 0, .mkFut, .awaitFut 0, .beginCycle 0]).map
      (fun st => ((st.tasks 0).st, effCancelled st 0, st.cur, nCycles [Ev.beginCycle 0])) =
      some (.blocked 0, true, [.deliver 0], 1) := by decide

/-- `C03_cancel_delivers_at_once`: the child (task 1) is blocked in `sleep` inside its handle scope
(scope 1) below the group scope (scope 0); `cancel()` on the group scope wakes it in the same
transition — it is never blocked within the reach of a scope that has just been cancelled. -/
example :
    (runFrom step init
      [.mkGroup, .groupEnter 0, .spawn 0, .yield, .beginCycle 0, .run (.step 1), .sleep 5,
       .run (.step 0)]).map
      (fun st => ((st.tasks 1).st, (st.scopes 0).cancelCalled, effCancelled st 1)) =
      some (.blocked 0, false, false) := by decide

example :
    (runFrom step init
      [.mkGroup, .groupEnter 0, .spawn 0, .yield, .beginCycle 0, .run (.step 1), .sleep 5,
       .run (.step 0), .cancel 0]).map
      (fun st => ((st.tasks 1).st, (st.scopes 0).cancelCalled, effCancelled st 1, st.futs 0,
        st.ready)) =
      some (.woken 0, true, true, .cancelled true, [.wakeup 1, .deliver 0]) := by decide

end AnyioModel.Kernel
