/-
C15  BlockingPortal: every call issued from a foreign thread runs exactly once in the loop, its
outcome (result / exception / cancellation) is routed to exactly its own Future, cancelling a
Future cancels exactly that call, calls after `stop()` are refused, and leaving the portal
context joins every call.

Property theorems only; the model is `AnyioModel.Thread.Portal`, the invariant and helper lemmas
are in `AnyioModel.Thread.PortalProofs`.  Every statement quantifies over all reachable states
(all finite event lists: any number of calls of the three kinds, any interleaving of loop
scheduling, callable completion, `Future.cancel()` from caller threads, `stop(cancel_remaining)`
and `__aexit__`) or over one arbitrary step of the model.
-/
import AnyioModel.Thread.PortalProofs

namespace AnyioModel.Thread.Portal

/-- The structural invariant of the portal model holds in every reachable state. -/
theorem C15_invariant {s : State} (h : Reach s) : Inv s := by
  refine Reachable.invariant Inv ?_ ?_ s h
  · rintro s rfl; exact inv_init
  · intro s e s' o hi hs; exact inv_step hi hs

/-! ### exactly once -/

/-- The callable of a portal call is entered at most once. -/
theorem C15_executed_at_most_once {s : State} (h : Reach s) (c : Nat) : s.execs c ≤ 1 := by
  have hi := C15_invariant h
  have h0 := hi.execs0 c
  have h1 := hi.execs1 c
  cases hp : s.pc c <;> simp [hp] at h0 h1 <;> omega

/-- Once `_call_func` has begun for a call (it is running or over), its callable has been entered
exactly once. -/
theorem C15_executed_once_when_begun {s : State} (h : Reach s) {c : Nat}
    (hp : s.pc c = .running ∨ s.pc c = .resolved) : s.execs c = 1 :=
  (C15_invariant h).execs1 c hp

/-- A call that has not been issued, is still on its way into the loop, has only been spawned, or
was refused with `RuntimeError` has never run its callable. -/
theorem C15_not_executed_before_begin {s : State} (h : Reach s) {c : Nat}
    (hp : s.pc c = .none ∨ s.pc c = .issued ∨ s.pc c = .refused ∨ s.pc c = .spawned) :
    s.execs c = 0 :=
  (C15_invariant h).execs0 c hp

/-! ### the Future: single assignment and routing -/

/-- The `concurrent.futures.Future` of a call leaves `pending` at most once. -/
theorem C15_future_set_at_most_once {s : State} (h : Reach s) (c : Nat) : s.futSets c ≤ 1 :=
  (C15_invariant h).sets_le c

/-- The Future is done exactly when it has been assigned (once). -/
theorem C15_future_done_iff_set {s : State} (h : Reach s) (c : Nat) :
    s.fut c ≠ .pending ↔ s.futSets c = 1 := by
  have hi := C15_invariant h
  have h1 := hi.fut_sets c
  have h2 := hi.sets_le c
  constructor
  · intro hne; have : s.futSets c ≠ 0 := fun h0 => hne (h1.mpr h0); omega
  · intro h1' hp; have := h1.mp hp; omega

/-- When `_call_func` is over, the caller's Future is done: `result()` never blocks forever on a
call that has finished. -/
theorem C15_resolved_future_done {s : State} (h : Reach s) {c : Nat} (hp : s.pc c = .resolved) :
    s.fut c ≠ .pending :=
  (C15_invariant h).resolved_done c hp

/-- The Future holds exactly the result / exception of its own callable, or `cancelled` exactly
when the caller cancelled it or the cancellation propagated out of the callable. -/
theorem C15_future_carries_outcome {s : State} (h : Reach s) {c : Nat} {r : Res}
    (hf : s.fut c = .done r) :
    (s.callerCancelled c = true ∧ r = .cancelled) ∨
    (s.callerCancelled c = false ∧
      ∃ o, s.outcome c = some o ∧ r = resOf o ∧ s.pc c = .resolved) := by
  have hi := C15_invariant h
  cases hcc : s.callerCancelled c with
  | true =>
    left
    have := hi.caller c hcc
    rw [hf] at this
    simpa using this
  | false => right; exact ⟨rfl, hi.carries c r hf hcc⟩

/-- Single assignment at the level of one step: a done Future is never overwritten. -/
theorem C15_future_stable {s s' : State} {e : Ev} {o : Out} (hs : step s e = some (s', o))
    {c : Nat} {r : Res} (hf : s.fut c = .done r) : s'.fut c = .done r := by
  cases e with
  | beginSync d oc =>
    simp only [step] at hs
    split at hs
    · cases hs; exact resolve_fut_stable _ d oc c r hf
    · contradiction
  | finish d oc =>
    simp only [step] at hs
    split at hs; · contradiction
    split at hs; · contradiction
    cases hs; exact resolve_fut_stable _ d oc c r hf
  | cancelFuture d =>
    simp only [step] at hs
    split at hs; · contradiction
    split at hs
    · cases hs; exact hf
    · split at hs <;> (cases hs; simp only [upd_apply]; grind)
  | _ => simp only [step] at hs; grind

/-! ### start_task -/

/-- The value passed to `task_status.started()` is what `start_task` returns: the status future
is never overwritten afterwards. -/
theorem C15_started_value_kept {s s' : State} {e : Ev} {o : Out} (hs : step s e = some (s', o))
    {c : Nat} {n : Nat} (hst : s.status c = .started n) : s'.status c = .started n := by
  cases e with
  | beginSync d oc =>
    simp only [step] at hs
    split at hs
    · cases hs; exact resolve_status_started _ d oc c n hst
    · contradiction
  | finish d oc =>
    simp only [step] at hs
    split at hs; · contradiction
    split at hs; · contradiction
    cases hs; exact resolve_status_started _ d oc c n hst
  | cancelFuture d =>
    simp only [step] at hs
    split at hs; · contradiction
    have hsa := statusAfter_started (s.kind c) n .cancelled
    split at hs
    · cases hs; exact hst
    · split at hs <;> (cases hs; simp only [upd_apply]; grind)
  | started d m =>
    simp only [step] at hs
    split at hs
    · cases hs; simp only [upd_apply]; grind
    · contradiction
  | _ => simp only [step] at hs; grind

/-- `start_task`'s caller is never left hanging: once the task's Future is done (the task is over
or was cancelled), the `task_status` future is done too (started value, the task's failure, or
"returned without calling started()"). -/
theorem C15_status_resolved_with_task {s : State} (h : Reach s) {c : Nat}
    (hk : s.kind c = .task) (hf : s.fut c ≠ .pending) : s.status c ≠ .pending :=
  (C15_invariant h).status_task c hk hf

/-! ### cancellation targets exactly that call -/

/-- `Future.cancel()` on the Future of call `c` changes nothing of any other call. -/
theorem C15_cancel_future_local {s s' : State} {o : Out} {c : Nat}
    (hs : step s (.cancelFuture c) = some (s', o)) :
    ∀ d, d ≠ c → s'.pc d = s.pc d ∧ s'.fut d = s.fut d ∧ s'.cancelReq d = s.cancelReq d ∧
      s'.status d = s.status d := by
  intro d hd
  simp only [step] at hs
  split at hs; · contradiction
  split at hs
  · cases hs; simp
  · split at hs <;> (cases hs; simp [hd])

/-- Cancelling the pending Future of a running call cancels that call's own scope (unless its
task began only after `stop()`, see `C15_by_stop_only_after_stop`). -/
theorem C15_cancel_future_reaches_scope {s s' : State} {o : Out} {c : Nat}
    (hs : step s (.cancelFuture c) = some (s', o)) (hp : s.pc c = .running)
    (hf : s.fut c = .pending) (hb : s.byStop c = false) : s'.cancelReq c = true := by
  simp only [step] at hs
  split at hs; · contradiction
  split at hs
  · rename_i r hd; rw [hf] at hd; cases hd
  · split at hs
    · cases hs; simp
    · rename_i hn; exact absurd ⟨hp, hb⟩ hn

/-- A Future cancelled before its task began: the done-callback runs at once when `_call_func`
registers it, so -- while the portal is running -- the call's scope is cancelled from its first
step.  (After `stop()` the callback captured `event_loop_thread_id = None` and does nothing: see
`C15_by_stop_only_after_stop` and the witness example below.) -/
theorem C15_cancel_before_begin_reaches_scope {s s' : State} {o : Out} {c : Nat}
    (hs : step s (.begin c) = some (s', o)) (hf : s.fut c = .done .cancelled)
    (hp : s.portal = .running) : s'.cancelReq c = true := by
  simp only [step] at hs
  split at hs
  · cases hs; simp [hf, hp]
  · contradiction

/-- A call's own scope is cancelled only as a consequence of ITS Future being cancelled, never
because of another call.  (A callable may also end with a cancellation under
`stop(cancel_remaining=True)`; that is the task group's scope, not `cancelReq`.) -/
theorem C15_scope_cancelled_only_by_own_future {s : State} (h : Reach s) {c : Nat}
    (hc : s.cancelReq c = true) : s.fut c = .done .cancelled :=
  (C15_invariant h).cancelReq_fut c hc

/-- The one exception to "cancelling the Future reaches the scope" concerns only calls whose task
began after `stop()`. -/
theorem C15_by_stop_only_after_stop {s : State} (h : Reach s) {c : Nat}
    (hb : s.byStop c = true) : s.portal ≠ .running :=
  (C15_invariant h).byStop_portal c hb

/-! ### refusal after stop -/

/-- `call` / `start_task_soon` / `start_task` after `stop()` raise `RuntimeError` in the caller
thread and create no task. -/
theorem C15_refused_after_stop {s s' : State} {o : Out} {c : Nat} {k : Kind}
    (hs : step s (.issue c k) = some (s', o)) (hp : s.portal ≠ .running) :
    o = .runtimeError ∧ s'.pc c = .refused ∧ s'.live = s.live := by
  simp only [step] at hs
  split at hs <;> (try split at hs) <;> first | contradiction | (cases hs; simp_all)

/-- A call that passed `_check_running()` but whose `start_soon` reaches the loop after the
portal's task group was left is refused with `RuntimeError` and creates no task. -/
theorem C15_spawn_refused_when_stopped {s s' : State} {o : Out} {c : Nat}
    (hs : step s (.spawn c) = some (s', o)) (hp : s.portal = .stopped) :
    o = .runtimeError ∧ s'.pc c = .refused ∧ s'.live = s.live := by
  simp only [step] at hs
  split at hs <;> (try split at hs) <;> first | contradiction | (cases hs; simp_all)

/-- The portal never goes back: stopped stays stopped, stopping never becomes running again. -/
theorem C15_portal_monotone {s s' : State} {e : Ev} {o : Out} (hs : step s e = some (s', o)) :
    (s.portal = .stopped → s'.portal = .stopped) ∧ (s.portal = .stopping → s'.portal ≠ .running) := by
  cases e with
  | beginSync d oc =>
    simp only [step] at hs
    split at hs
    · cases hs; simp only [resolve_portal]; grind
    · contradiction
  | finish d oc =>
    simp only [step] at hs
    split at hs; · contradiction
    split at hs; · contradiction
    cases hs; simp only [resolve_portal]; grind
  | cancelFuture d =>
    simp only [step] at hs
    split at hs; · contradiction
    split at hs
    · cases hs; grind
    · split at hs <;> (cases hs; grind)
  | _ => simp only [step] at hs; grind

/-! ### join -/

/-- Each task of the portal's task group is recorded once. -/
theorem C15_live_nodup {s : State} (h : Reach s) : s.live.Nodup :=
  (C15_invariant h).nodup

/-- The portal's task group contains exactly the calls that were spawned and are not over. -/
theorem C15_live_exact {s : State} (h : Reach s) (c : Nat) :
    c ∈ s.live ↔ (s.pc c = .spawned ∨ s.pc c = .running) :=
  (C15_invariant h).live_exact c

/-- Once the portal context has been left, no call is spawned-or-running: `__aexit__` joined
every call. -/
theorem C15_exit_joins {s : State} (h : Reach s) (hp : s.portal = .stopped) :
    ∀ c, s.pc c = .none ∨ s.pc c = .issued ∨ s.pc c = .refused ∨ s.pc c = .resolved := by
  intro c
  have hi := C15_invariant h
  have hl := hi.live_exact c
  rw [hi.stopped_empty hp] at hl
  cases hpc : s.pc c <;> simp [hpc] at hl ⊢

/-- After the portal context has been left every call that ran has a done Future: no caller
thread is left blocked in `result()`. -/
theorem C15_no_orphans {s : State} (h : Reach s) (_hp : s.portal = .stopped) :
    ∀ c, s.pc c = .resolved → s.fut c ≠ .pending :=
  fun _ hc => C15_resolved_future_done h hc

/-- The portal's task group is cancelled only by `stop(cancel_remaining=True)`, hence only once
the portal no longer accepts calls. -/
theorem C15_cancel_remaining_cancels {s : State} (h : Reach s) (hg : s.groupCancel = true) :
    s.portal ≠ .running :=
  (C15_invariant h).group_portal hg

/-! ### non-vacuity: the hypotheses above are met by concrete histories -/

-- only for the `DecidableEq` instances of the wide tuples compared by `decide` below
set_option synthInstance.maxSize 2048

/-- three coroutine calls finish out of order (3, 1), call 2's future is cancelled while it is
running: its scope is cancelled, it ends with the cancellation; each future carries its own
outcome -/
example :
    (runFrom step init
      [.issue 1 .coro, .issue 2 .coro, .issue 3 .coro, .spawn 1, .spawn 2, .spawn 3,
       .begin 2, .begin 3, .begin 1, .finish 3 (.val 30), .cancelFuture 2, .finish 1 (.exc 10),
       .finish 2 .cancelled]).map
      (fun s => ((s.fut 1, s.fut 2, s.fut 3, s.cancelReq 1, s.cancelReq 2, s.cancelReq 3),
        (s.execs 1, s.execs 2, s.execs 3, s.futSets 2, s.callerCancelled 2, s.live))) =
    some ((.done (.exception 10), .done .cancelled, .done (.result 30), false, true, false),
      (1, 1, 1, 1, true, [])) := by decide

/-- a callable cannot end with a cancellation nobody requested -/
example :
    runFrom step init [.issue 1 .coro, .spawn 1, .begin 1, .finish 1 .cancelled] = none := by
  decide

/-- `stop(cancel_remaining=True)` with two running calls: both end cancelled (group scope, not
their own), the futures are cancelled, then `__aexit__` returns; a later call is refused -/
example :
    (runFrom step init
      [.issue 1 .coro, .issue 2 .coro, .spawn 1, .spawn 2, .begin 1, .begin 2, .stop true,
       .finish 2 .cancelled, .finish 1 .cancelled, .exit, .issue 3 .sync]).map
      (fun s => ((s.portal, s.fut 1, s.fut 2, s.cancelReq 1, s.cancelReq 2, s.callerCancelled 1),
        (s.outcome 1, s.pc 1, s.pc 2, s.pc 3, s.execs 3, s.live))) =
    some ((.stopped, .done .cancelled, .done .cancelled, false, false, false),
      (some .cancelled, .resolved, .resolved, .refused, 0, [])) := by decide

/-- `__aexit__` cannot return while a call is still running -/
example :
    runFrom step init [.issue 1 .coro, .spawn 1, .begin 1, .stop false, .exit] = none := by
  decide

/-- a call issued before `stop()` whose `start_soon` reaches the loop after the portal was left
is refused and never runs -/
example :
    (traceFrom step init [.issue 1 .sync, .stop false, .exit, .spawn 1]).map
      (fun p => (p.2, p.1.pc 1, p.1.execs 1, p.1.fut 1, p.1.live)) =
    some ([.env, .env, .env, .runtimeError], .refused, 0, .pending, []) := by decide

/-- a call issued before `stop()` and spawned while the portal is stopping still runs, but its
task began after `stop()`: cancelling its future does not reach its scope (`byStop`) -/
example :
    (runFrom step init
      [.issue 1 .coro, .stop false, .spawn 1, .begin 1, .cancelFuture 1, .finish 1 (.val 5),
       .exit]).map
      (fun s => (s.portal, s.byStop 1, s.cancelReq 1, s.fut 1, s.outcome 1, s.execs 1)) =
    some (.stopped, true, false, .done .cancelled, some (.val 5), 1) := by decide

/-- the same after `stop()` when the Future is cancelled *before* the task's first step: the
done-callback runs at once in the loop thread, but it captured `event_loop_thread_id = None`, so the
scope is not cancelled either (history of notes/repro_portal_future_cancel_after_stop.py and
corpus/C15/begin_after_stop_future_cancel.json) -/
example :
    (runFrom step init
      [.issue 1 .coro, .stop false, .spawn 1, .cancelFuture 1, .begin 1]).map
      (fun s => (s.pc 1, s.byStop 1, s.cancelReq 1, s.fut 1)) =
    some (.running, true, false, .done .cancelled) := by decide

/-- while the portal is running the same order does cancel the scope from the first step -/
example :
    (runFrom step init [.issue 1 .coro, .spawn 1, .cancelFuture 1, .begin 1]).map
      (fun s => (s.pc 1, s.byStop 1, s.cancelReq 1, s.fut 1)) =
    some (.running, false, true, .done .cancelled) := by decide
/-- `start_task`: `started(7)` then the task returns 9: status keeps 7, the future has 9 -/
example :
    (runFrom step init
      [.issue 1 .task, .spawn 1, .begin 1, .started 1 7, .finish 1 (.val 9)]).map
      (fun s => (s.status 1, s.fut 1, s.pc 1)) =
    some (.started 7, .done (.result 9), .resolved) := by decide

/-- `start_task` whose task returns / raises without calling `started()`, and one cancelled by the
caller before it began: the status future is resolved in every case -/
example :
    (runFrom step init
      [.issue 1 .task, .issue 2 .task, .issue 3 .task, .spawn 1, .spawn 2, .spawn 3,
       .cancelFuture 3, .begin 1, .begin 2, .begin 3, .finish 1 (.val 1), .finish 2 (.exc 2),
       .finish 3 .cancelled]).map
      (fun s => (s.status 1, s.status 2, s.status 3, s.cancelReq 3, s.fut 3, s.futSets 3)) =
    some (.noStarted, .failed (.exception 2), .failed .cancelled, true, .done .cancelled, 1) := by
  decide

/-- a plain callable runs to the end in one loop step -/
example :
    (runFrom step init [.issue 1 .sync, .spawn 1, .beginSync 1 (.exc 4)]).map
      (fun s => (s.fut 1, s.execs 1, s.pc 1, s.live)) =
    some (.done (.exception 4), 1, .resolved, []) := by decide

end AnyioModel.Thread.Portal
