/-
C07  TaskGroup.start(): the statements that need the fresh-allocation invariant for futures
(`AnyioModel.Kernel.FutInv` .. `FutInv6`): a start future is private to the handshake.
Property theorems only; `Props/C07.lean` has the step-local part.
-/
import AnyioModel.Kernel.FutInv5
import AnyioModel.Props.C07

namespace AnyioModel.Kernel

/-- Fresh allocation: in every reachable state every future id stored in a library field
(`HasRole`: start future of a child, `_on_completed_fut` of a group, a `TaskHandle.wait()` future
in some `hwaiters`, a `sleep()` future referenced by `Lib.sleeping` or a `sleepDone` handle, a user
future) is allocated, and it is stored in exactly one such place: the roles are pairwise
disjoint, a start future belongs to exactly one child, a wait future to one handle, an
`_on_completed_fut` to one group. -/
theorem C07_future_roles {st : State} (h : Reach st) :
    (∀ f r, HasRole st f r → f < st.nFuts) ∧
    (∀ f r r', HasRole st f r → HasRole st f r' → r = r') :=
  ⟨(finv_reach h).role_lt, (finv_reach h).role_uniq⟩

/-- ... spelled out for a start future: it is allocated, not a user future, not an
`_on_completed_fut`, not a `TaskHandle.wait()` future, not a `sleep()` future, and no other child
has it; the only task that can be blocked on it is the caller of `start()`, inside `start()`
for that child; the future referenced by `Lib.startWait g u f` is the start future of `u`. -/
theorem C07_start_future_fresh {st : State} (h : Reach st) {u sf : Nat}
    (hsf : (st.tasks u).startFut = some sf) :
    sf < st.nFuts ∧ st.userFut sf = false ∧ (∀ g, (st.groups g).onCompleted ≠ some sf) ∧
    (∀ v, sf ∉ (st.tasks v).hwaiters) ∧ (∀ t, (st.tasks t).lib ≠ .sleeping sf) ∧ ¬ sdIn st sf ∧
    (∀ u', (st.tasks u').startFut = some sf → u' = u) ∧
    (∀ t, (st.tasks t).st = .blocked sf → ∃ g, (st.tasks t).lib = .startWait g u sf) := by
  have i := finv_reach h
  have hr : HasRole st sf (.start u) := hsf
  refine ⟨i.role_lt _ _ hr, ?_, ?_, ?_, ?_, ?_, ?_, fun t ht => i.start_blk u sf t hsf ht⟩
  · cases hu : st.userFut sf
    · rfl
    · have := i.role_uniq sf (.start u) .user hr hu; cases this
  · intro g hg
    have := i.role_uniq sf (.start u) (.onC g) hr hg; cases this
  · intro v hv
    have := i.role_uniq sf (.start u) (.hw v) hr hv; cases this
  · intro t ht
    have := i.role_uniq sf (.start u) .sleep hr (.inl ⟨t, ht⟩); cases this
  · intro hsd
    have := i.role_uniq sf (.start u) .sleep hr (.inr hsd); cases this
  · intro u' hu'
    have := i.role_uniq sf (.start u') (.start u) hu' hr
    cases this; rfl

theorem C07_startWait_future {st : State} (h : Reach st) {t g u f : Nat}
    (hl : (st.tasks t).lib = .startWait g u f) :
    (st.tasks u).startFut = some f ∧
      ∀ f', ((st.tasks t).st = .blocked f' ∨ (st.tasks t).st = .woken f') → f' = f :=
  ⟨(finv_reach h).sw_start t g u f hl, fun f' hb => (finv_reach h).sw_blk t g u f f' hl hb⟩

/-- Early exit (full statement, no side condition): in every reachable state, if the child ends
while its start future is still pending, its `task_done` transition hands the exception to the
caller of `start()` -- `RuntimeError` if the child merely returned -- records nothing in any
group and cancels no scope. -/
theorem C07_early_exit {st st' : State} {out : Out} {u g sf : Nat} {o : Outcome} (h : Reach st)
    (hg : (st.tasks u).group = some g) (ho : (st.tasks u).outcome = some o)
    (hsf : (st.tasks u).startFut = some sf) (hp : st.futs sf = .pending)
    (hs : step st (.run (.taskDone u)) = some (st', out)) :
    st'.futs sf = .failed (if o = .none then .one .runtimeError else o) ∧
    (∀ s, (st'.scopes s).cancelCalled = (st.scopes s).cancelCalled) ∧
    (∀ g', (st'.groups g').exceptions = (st.groups g').exceptions) :=
  C07_early_exit_partial (st := { st with cur := st.cur.erase (.taskDone u) }) hg ho hsf hp
    ((C07_start_future_fresh h hsf).2.2.1 g) (C07_taskDone_step hs)

/-- what the `wakeup` transition of a task does -/
theorem step_wakeup_eq {st st' : State} {t : Nat} {o : Out}
    (hs : step st (.run (.wakeup t)) = some (st', o)) :
    ∃ f, (st.tasks t).st = .woken f ∧
      continueLib
        { ({ st with cur := st.cur.erase (.wakeup t) } : State).setTask t
            (fun x => { x with st := .running, mustCancel := false }) with running := some t } t
        (resumeValue st t) = some (st', o) := by
  simp only [step] at hs
  split at hs
  · contradiction
  · split at hs
    · rename_i f hst
      refine ⟨f, hst, ?_⟩
      unfold runTask at hs
      simp only [] at hs
      have e : (({ st with cur := st.cur.erase (.wakeup t) } : State).tasks t).st = .woken f := hst
      rw [e] at hs
      exact hs
    · contradiction

/-- the same for the `step` transition of a task that is not at its very beginning -/
theorem step_step_eq {st st' : State} {t : Nat} {o : Out}
    (hs : step st (.run (.step t)) = some (st', o)) (hy : (st.tasks t).st = .yielded) :
    continueLib
        { ({ st with cur := st.cur.erase (.step t) } : State).setTask t
            (fun x => { x with st := .running, mustCancel := false }) with running := some t } t
        (resumeValue st t) = some (st', o) := by
  simp only [step] at hs
  split at hs
  · contradiction
  · split at hs
    · unfold runTask at hs
      simp only [] at hs
      have e : (({ st with cur := st.cur.erase (.step t) } : State).tasks t).st = .yielded := hy
      rw [e] at hs
      exact hs
    · contradiction

/-- if a resumed task is sent a plain value, the future it waited for has a result -/
theorem resumeValue_none_woken {st : State} (h : Reach st) {t f : Nat}
    (hw : (st.tasks t).st = .woken f) (hr : resumeValue st t = .none) : st.futs f = .result := by
  have i := finv_reach h
  have hd := i.wk_done t f hw
  have hn := i.fail_ne f
  unfold resumeValue at hr
  simp only [hw] at hr
  cases hf : st.futs f with
  | pending => rw [hf] at hd; cases hd
  | result => rfl
  | cancelled a => rw [hf] at hr; simp at hr
  | failed e =>
    rw [hf] at hr
    simp only [] at hr
    split at hr
    · split at hr <;> cases hr
    · subst hr; exact absurd hf hn

/-- Value: `start()` returns normally only if the start future of the child it waits for has a
result (which only `task_status.started()` called by that child produces,
`C07_start_future_private`, `C07_result_by_started`). -/
theorem C07_value {st st' : State} {t g u f : Nat} (h : Reach st)
    (hl : (st.tasks t).lib = .startWait g u f)
    (hs : step st (.run (.wakeup t)) = some (st', .done .none)) :
    (st.tasks u).startFut = some f ∧ st.futs f = .result := by
  obtain ⟨f', hw, hc⟩ := step_wakeup_eq hs
  have hr := C07_value_partial (g := g) (u := u) (f := f) (by simpa using hl) hc
  obtain ⟨h1, h2⟩ := C07_startWait_future h hl
  have := h2 f' (.inr hw)
  subst this
  exact ⟨h1, resumeValue_none_woken h hw hr⟩

/-- Caller cancelled: a caller of `start()` that was cancelled and waits (shielded) for the child
to finish (`Lib.startJoin`) is resumed with a plain value (no further exception) only if the
child has finished: the future it is blocked on is a `TaskHandle.wait()` future of the child's
handle, which only the end of the child's coroutine resolves. -/
theorem C07_caller_cancelled_join {st st' : State} {t g u s : Nat} {e : ExcVal} {hd : Handle}
    {o : Out} (h : Reach st) (hl : (st.tasks t).lib = .startJoin g u s e)
    (hh : hd = .step t ∨ hd = .wakeup t) (hs : step st (.run hd) = some (st', o))
    (hr : resumeValue st t = .none) : (st.tasks u).finished = true := by
  have i := finv_reach h
  rcases hh with rfl | rfl
  · have hst : (st.tasks t).st = .created ∨ (st.tasks t).st = .yielded := by
      simp only [step] at hs
      split at hs
      · contradiction
      · split at hs
        · assumption
        · contradiction
    rcases hst with hc | hy
    · have := i.lib_created t hc
      rw [hl] at this; cases this
    · exact i.sj_yield t g u s e hl hy
  · obtain ⟨f, hw, _⟩ := step_wakeup_eq hs
    exact i.sj_woken t g u s e f hl hw (resumeValue_none_woken h hw hr)

end AnyioModel.Kernel
