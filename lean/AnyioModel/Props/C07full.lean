/-
C07  TaskGroup.start(): the statements that need the fresh-allocation invariant for futures
(`AnyioModel.Kernel.FutInv` .. `FutInv6`): a start future is private to the handshake.
Property theorems only; `Props/C07.lean` has the step-local part.
-/
import AnyioModel.Kernel.FutInv6
import AnyioModel.Props.C07

namespace AnyioModel.Kernel

/-- Fresh allocation: in every reachable state every future id stored in a library field
(`HasRole`: start future of a child, `_on_completed_fut` of a group, a `TaskHandle.wait()` future
in some `hwaiters`, a `sleep()` future referenced by `Lib.sleeping` or a `sleepDone` handle, a user
future) is allocated, and it is stored in exactly one such place: the roles are pairwise
disjoint, a start future belongs to exactly one child, a wait future to one handle, an
`_on_completed_fut` to one group. -/
theorem C07_future_roles {st : State} (h : Reach st) :
    (∀ f r, HasRole st f r → f < st.nFuts) ∧
    (∀ f r r', HasRole st f r → HasRole st f r' → r = r') :=
  ⟨(finv_reach h).role_lt, (finv_reach h).role_uniq⟩

/-- ... spelled out for a start future: it is allocated, not a user future, not an
`_on_completed_fut`, not a `TaskHandle.wait()` future, not a `sleep()` future, and no other child
has it; the only task that can be blocked on it is the caller of `start()`, inside `start()`
for that child; the future referenced by `Lib.startWait g u f` is the start future of `u`. -/
theorem C07_start_future_fresh {st : State} (h : Reach st) {u sf : Nat}
    (hsf : (st.tasks u).startFut = some sf) :
    sf < st.nFuts ∧ st.userFut sf = false ∧ (∀ g, (st.groups g).onCompleted ≠ some sf) ∧
    (∀ v, sf ∉ (st.tasks v).hwaiters) ∧ (∀ t, (st.tasks t).lib ≠ .sleeping sf) ∧ ¬ sdIn st sf ∧
    (∀ u', (st.tasks u').startFut = some sf → u' = u) ∧
    (∀ t, (st.tasks t).st = .blocked sf → ∃ g, (st.tasks t).lib = .startWait g u sf) := by
  have i := finv_reach h
  have hr : HasRole st sf (.start u) := hsf
  refine ⟨i.role_lt _ _ hr, ?_, ?_, ?_, ?_, ?_, ?_, fun t ht => i.start_blk u sf t hsf ht⟩
  · cases hu : st.userFut sf
    · rfl
    · have := i.role_uniq sf (.start u) .user hr hu; cases this
  · intro g hg
    have := i.role_uniq sf (.start u) (.onC g) hr hg; cases this
  · intro v hv
    have := i.role_uniq sf (.start u) (.hw v) hr hv; cases this
  · intro t ht
    have := i.role_uniq sf (.start u) .sleep hr (.inl ⟨t, ht⟩); cases this
  · intro hsd
    have := i.role_uniq sf (.start u) .sleep hr (.inr hsd); cases this
  · intro u' hu'
    have := i.role_uniq sf (.start u') (.start u) hu' hr
    cases this; rfl

theorem C07_startWait_future {st : State} (h : Reach st) {t g u f : Nat}
    (hl : (st.tasks t).lib = .startWait g u f) :
    (st.tasks u).startFut = some f ∧
      ∀ f', ((st.tasks t).st = .blocked f' ∨ (st.tasks t).st = .woken f') → f' = f :=
  ⟨(finv_reach h).sw_start t g u f hl, fun f' hb => (finv_reach h).sw_blk t g u f f' hl hb⟩

/-- Early exit (full statement, no side condition): in every reachable state, if the child ends
while its start future is still pending, its `task_done` transition hands the exception to the
caller of `start()` -- `RuntimeError` if the child merely returned -- records nothing in any
group and cancels no scope. -/
theorem C07_early_exit {st st' : State} {out : Out} {u g sf : Nat} {o : Outcome} (h : Reach st)
    (hg : (st.tasks u).group = some g) (ho : (st.tasks u).outcome = some o)
    (hsf : (st.tasks u).startFut = some sf) (hp : st.futs sf = .pending)
    (hs : step st (.run (.taskDone u)) = some (st', out)) :
    st'.futs sf = .failed (if o = .none then .one .runtimeError else o) ∧
    (∀ s, (st'.scopes s).cancelCalled = (st.scopes s).cancelCalled) ∧
    (∀ g', (st'.groups g').exceptions = (st.groups g').exceptions) :=
  C07_early_exit_partial (st := { st with cur := st.cur.erase (.taskDone u) }) hg ho hsf hp
    ((C07_start_future_fresh h hsf).2.2.1 g) (C07_taskDone_step hs)

/-- Value: `start()` returns normally only if the start future of the child it waits for has a
result (which only `task_status.started()` called by that child produces,
`C07_start_future_private`, `C07_result_by_started`). -/
theorem C07_value {st st' : State} {t g u f : Nat} (h : Reach st)
    (hl : (st.tasks t).lib = .startWait g u f)
    (hs : step st (.run (.wakeup t)) = some (st', .done .none)) :
    (st.tasks u).startFut = some f ∧ st.futs f = .result := by
  obtain ⟨f', hw, hc⟩ := step_wakeup_eq hs
  have hr := C07_value_partial (g := g) (u := u) (f := f) (by simpa using hl) hc
  obtain ⟨h1, h2⟩ := C07_startWait_future h hl
  have := h2 f' (.inr hw)
  subst this
  exact ⟨h1, resumeValue_none_woken h hw hr⟩

/-- Caller cancelled: a caller of `start()` that was cancelled and waits (shielded) for the child
to finish (`Lib.startJoin`) is resumed with a plain value (no further exception) only if the
child has finished: the future it is blocked on is a `TaskHandle.wait()` future of the child's
handle, which only the end of the child's coroutine resolves. -/
theorem C07_caller_cancelled_join {st st' : State} {t g u s : Nat} {e : ExcVal} {hd : Handle}
    {o : Out} (h : Reach st) (hl : (st.tasks t).lib = .startJoin g u s e)
    (hh : hd = .step t ∨ hd = .wakeup t) (hs : step st (.run hd) = some (st', o))
    (hr : resumeValue st t = .none) : (st.tasks u).finished = true := by
  have i := finv_reach h
  rcases hh with rfl | rfl
  · have hst : (st.tasks t).st = .created ∨ (st.tasks t).st = .yielded := by
      simp only [step] at hs
      split at hs
      · contradiction
      · split at hs
        · assumption
        · contradiction
    rcases hst with hc | hy
    · have := i.lib_created t hc
      rw [hl] at this; cases this
    · exact i.sj_yield t g u s e hl hy
  · obtain ⟨f, hw, _⟩ := step_wakeup_eq hs
    exact i.sj_woken t g u s e f hl hw (resumeValue_none_woken h hw hr)

/-- Start futures are private to the handshake.  In every reachable state, if a transition
changes the state of the start future `sf` of child `u`, then the future was pending and
* the transition is `task_status.started()` executed by `u`, and the future gets a result; or
* it is the `task_done` callback of `u`, and the future gets the child's exception; or
* the caller of `start()` -- a task inside `start()` for this child, blocked on `sf` -- was
  cancelled, and the future is cancelled. -/
theorem C07_start_future_private {st st' : State} {e : Ev} {o : Out} {u sf : Nat} (h : Reach st)
    (hsf : (st.tasks u).startFut = some sf) (hs : step st e = some (st', o))
    (hch : st'.futs sf ≠ st.futs sf) :
    st.futs sf = .pending ∧
    ((e = .started ∧ st.running = some u ∧ st'.futs sf = .result) ∨
     (e = .run (.taskDone u) ∧ ∃ x, st'.futs sf = .failed x) ∨
     (∃ t g an, (st.tasks t).lib = .startWait g u sf ∧ (st.tasks t).st = .blocked sf ∧
        st'.futs sf = .cancelled an)) := by
  have i := finv_reach h
  have fe := fe_step hs
  have fr := C07_start_future_fresh h hsf
  have hp : st.futs sf = .pending := by
    cases hd : (st.futs sf).done
    · exact futSt_pending_of_not_done hd
    · exact absurd (fe.done sf fr.1 hd) hch
  refine ⟨hp, ?_⟩
  by_cases ht : Touched st e sf
  · cases e with
    | started =>
      obtain ⟨t, hr, hst⟩ := ht
      have := fr.2.2.2.2.2.2.1 t hst
      subst this
      left
      refine ⟨rfl, hr, ?_⟩
      have := (C07_second_started hr hst hs).1 hp
      rw [this.1, rf_futs]; simp [hp, FutSt.done]
    | run x =>
      cases x with
      | sleepDone f0 =>
        obtain ⟨rfl, hc⟩ := ht
        exact absurd (.inr (.inl hc)) fr.2.2.2.2.2.1
      | taskDone u' =>
        rcases ht with ⟨g, _, hc⟩ | hc
        · exact absurd hc (fr.2.2.1 g)
        · have := fr.2.2.2.2.2.2.1 u' hc
          subst this
          right; left
          refine ⟨rfl, ?_⟩
          obtain ⟨g, sc, o', hg, _, ho, _⟩ := runTaskDone_shape (C07_taskDone_step hs)
          exact ⟨_, (C07_early_exit h hg ho hsf hp hs).1⟩
      | _ => cases ht
    | setFut f0 => obtain ⟨rfl, hc⟩ := ht; rw [fr.2.1] at hc; cases hc
    | awaitFut f0 => obtain ⟨rfl, hc⟩ := ht; rw [fr.2.1] at hc; cases hc
    | finish o => obtain ⟨t, _, hc⟩ := ht; exact absurd hc (fr.2.2.2.1 t)
    | _ => cases ht
  · rcases fe.futs sf ht (.inl fr.1) with e1 | ⟨_, ⟨an, hc⟩, t, hb⟩
    · exact absurd e1 hch
    · right; right
      obtain ⟨g, hl⟩ := fr.2.2.2.2.2.2.2 t hb
      exact ⟨t, g, an, hl, hb, hc⟩

/-- Only `started()` gives a start future a result, along every run: if in the state reached by
the event list `evs` the start future of child `u` has a result, then `evs` contains a
`started` event that was executed while `u` was the running task. -/
theorem C07_result_by_started {u sf : Nat} : ∀ (evs : List Ev) {s0 st : State}, Reach s0 →
    runFrom step s0 evs = some st → (st.tasks u).startFut = some sf → st.futs sf = .result →
    ((s0.tasks u).startFut = some sf ∧ s0.futs sf = .result) ∨
    ∃ evs1 evs2 st1, evs = evs1 ++ Ev.started :: evs2 ∧ runFrom step s0 evs1 = some st1 ∧
      st1.running = some u := by
  intro evs
  induction evs with
  | nil =>
    intro s0 st _ hr hsf hres
    simp only [runFrom, Option.some.injEq] at hr
    subst hr
    exact .inl ⟨hsf, hres⟩
  | cons e es ih =>
    intro s0 st h0 hr hsf hres
    simp only [runFrom] at hr
    split at hr
    · contradiction
    · rename_i s1 o hs
      have h1 : Reach s1 := Reachable.next h0 hs
      rcases ih h1 hr hsf hres with ⟨hsf1, hres1⟩ | ⟨evs1, evs2, st1, he, hr1, hrun⟩
      · have fe := fe_step hs
        have i0 := finv_reach h0
        rcases fe.sfut u sf hsf1 with hsf0 | hge
        · by_cases hres0 : s0.futs sf = .result
          · exact .inl ⟨hsf0, hres0⟩
          · right
            have hch : s1.futs sf ≠ s0.futs sf := by rw [hres1]; exact fun hc => hres0 hc.symm
            obtain ⟨_, hc | hc | ⟨t, g, an, _, _, hc⟩⟩ := C07_start_future_private h0 hsf0 hs hch
            · exact ⟨[], es, s0, by rw [hc.1]; rfl, rfl, hc.2.1⟩
            · obtain ⟨_, x, hx⟩ := hc; rw [hx] at hres1; cases hres1
            · rw [hc] at hres1; cases hres1
        · -- the child was spawned by this very transition: its start future is fresh
          exfalso
          rcases fe.res sf hres1 with hc | hc
          · rw [i0.fut_dflt sf hge] at hc; cases hc
          · obtain ⟨r, hrole⟩ := touched_role hc
            have := i0.role_lt sf r hrole
            omega
      · right
        refine ⟨e :: evs1, evs2, st1, by rw [he]; rfl, ?_, hrun⟩
        simp only [runFrom, hs]
        exact hr1

/-- ... from the initial state: a start future that has a result was resolved by a `started()`
of its child. -/
theorem C07_value_by_started {evs : List Ev} {st : State} {u sf : Nat}
    (hr : runFrom step init evs = some st) (hsf : (st.tasks u).startFut = some sf)
    (hres : st.futs sf = .result) :
    ∃ evs1 evs2 st1, evs = evs1 ++ Ev.started :: evs2 ∧ runFrom step init evs1 = some st1 ∧
      st1.running = some u := by
  rcases C07_result_by_started evs (Reachable.start rfl) hr hsf hres with ⟨h1, _⟩ | h
  · simp [init] at h1
    split at h1 <;> simp at h1
  · exact h

/-! ### non-vacuity -/

/-- `started()` by the child resolves the start future (future 0 of child 1) -/
example : (runFrom step init
    [.mkGroup, .groupEnter 0, .start 0, .beginCycle 0, .run (.step 1), .started]).map
    (fun st => ((st.tasks 1).startFut, st.futs 0, st.running)) =
    some (some 0, .result, some 1) := by decide

/-- the caller of `start()` is cancelled while it waits: the start future is cancelled, the caller
goes on to wait (shielded) for the child: `Lib.startJoin`, blocked on a `TaskHandle.wait()`
future of the child -/
example : (runFrom step init
    [.mkGroup, .groupEnter 0, .start 0, .nativeCancel 0, .beginCycle 0, .run (.wakeup 0)]).map
    (fun st => (st.futs 0, (st.tasks 0).lib, (st.tasks 0).st, (st.tasks 1).hwaiters)) =
    some (.cancelled false, .startJoin 0 1 2 (.one .cancelNative), .blocked 1, [1]) := by decide

/-- ... and is resumed with a plain value once the child has finished -/
example : (runFrom step init
    [.mkGroup, .groupEnter 0, .start 0, .nativeCancel 0, .beginCycle 0, .run (.wakeup 0),
     .run (.step 1), .finish .none, .beginCycle 0, .run (.wakeup 0)]).map
    (fun st => ((st.tasks 1).finished, (st.tasks 0).lib, st.futs 1)) =
    some (true, .none, .result) := by decide

end AnyioModel.Kernel
