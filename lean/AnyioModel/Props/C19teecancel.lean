/-
C19, tee() under cancellation.  Model: `AnyioModel.Iter.TeeCancel` (every suspension point of
`_TeeAsyncIterator.__anext__`, `_TeeState.fill`, `Lock.acquire` and of the synchronous adaptor
`_IterableAsyncIterator.__anext__`, with what a cancelled scope does there); invariant:
`TeeCancelProofs*.lean`.  All theorems are over every reachable state: all event lists, any number
of consumers, any source contents, synchronous or (cancel-safe) asynchronous source.
-/
import AnyioModel.Iter.TeeCancelProofs4
namespace AnyioModel.Iter.TeeCancel
variable {α : Type}

/-- No element is lost or repeated, whatever is cancelled: at every moment what `__anext__` has
returned to consumer `i` (plus the value it has taken from its link and is about to return from
the shielded checkpoint) is the prefix of the produced sequence that its link position says, hence
a prefix of the source sequence -- also after any number of cancelled calls (`s.ncanc i` is not
constrained); and once consumer `i` has received StopAsyncIteration it has been given the whole
source sequence. -/
theorem C19_teecancel_no_loss {n : Nat} {sync : Bool} {xs : List α} {s : State α}
    (h : Reach n sync xs s) (i : Nat) :
    (∃ rest, s.consumed = s.got i ++ pend (s.pc i) ++ rest) ∧
    (∃ rest, xs = s.got i ++ rest) ∧
    (s.got i ++ pend (s.pc i) = xs.take (s.cursor i)) ∧
    (s.finished i = true → s.got i = xs ∧ s.consumed = xs) := by
  have hd := (inv_reach h).data
  unfold DInv at hd
  have hg := hd.got_ok i
  have hle := hd.cur_le i
  have hlk := hd.links_ok
  have hsplit : (s.got i ++ pend (s.pc i)).map some ++ (s.links.drop (s.cursor i) ++ held s) =
      s.consumed.map some ++ endMark s.ended := by
    rw [← List.append_assoc, hg, List.take_append_drop]; exact hlk
  obtain ⟨u, hu⟩ := somes_prefix hsplit
  have hlen : (s.got i ++ pend (s.pc i)).length = s.cursor i := by
    have := congrArg List.length hg
    simp only [List.length_map, List.length_take] at this
    omega
  have hxs : xs = (s.got i ++ pend (s.pc i)) ++ (u ++ s.src) := by
    rw [← hd.src_ok, hu, List.append_assoc]
  refine ⟨⟨u, hu⟩, ⟨pend (s.pc i) ++ (u ++ s.src), ?_⟩, ?_, ?_⟩
  · rw [hxs, List.append_assoc]
  · rw [hxs, ← hlen, List.take_left']; rfl
  · intro hf
    have hp := hd.fin_pend i hf
    have hn := hd.fin_ok i (Or.inl hf)
    have hlt := get_lt hn
    have hdrop : s.links.drop (s.cursor i) = none :: s.links.drop (s.cursor i + 1) := by
      rw [List.drop_eq_getElem_cons hlt]
      have := List.getElem?_eq_some_iff.mp hn
      rw [this.2]
    rw [hdrop, List.cons_append] at hsplit
    obtain ⟨e1, e2, -⟩ := somes_none hsplit
    have hsrc := hd.ended_src e2
    rw [hp, List.append_nil] at e1
    have : xs = s.consumed := by rw [← hd.src_ok, hsrc, List.append_nil]
    exact ⟨by rw [this, e1], this.symm⟩

/-- What a cancelled call leaves behind (any state, reachable or not): CancelledError comes out of a
`step` of the consumer only, and the consumer's position, what it has received, the chain of links,
the source and `_element_yielded` are as before the call reached that suspension point; the
consumer is idle again and may call `anext()` again. -/
theorem C19_teecancel_cancelled_call_no_effect {s s' : State α} {e : Ev}
    (hs : step s e = some (s', .cancelled)) :
    ∃ i, e = .step i ∧ s'.pc i = .idle ∧ s'.canc i = false ∧ s'.ncanc i = s.ncanc i + 1 ∧
      s'.got = s.got ∧ s'.cursor = s.cursor ∧ s'.ey = s.ey ∧ s'.links = s.links ∧
      s'.consumed = s.consumed ∧ s'.src = s.src ∧ s'.finished = s.finished := by
  have haf : ∀ (t : State α) (i : Nat) (l : Option α) (b : Bool) (t' : State α),
      afterFill t i l b ≠ (t', .cancelled) := by
    intro t i l b t' h
    have := congrArg Prod.snd h
    unfold afterFill at this
    cases l <;> simp only [] at this <;> split at this <;> (try split at this) <;> cases this
  have hrel : ∀ t : State α, (release t).ey = t.ey := by
    intro t; unfold release; split <;> rfl
  have hrel2 : ∀ t : State α, (release t).ncanc = t.ncanc := by
    intro t; unfold release; split <;> rfl
  cases e with
  | cancel i => simp only [step] at hs; split at hs <;> cases hs
  | deliver i =>
    simp only [step] at hs
    split at hs
    · split at hs <;> cases hs
    · cases hs
  | next i =>
    simp only [step] at hs
    split at hs
    · cases hs
    · split at hs
      · exact absurd (Option.some.inj hs) (haf _ _ _ _ _)
      · split at hs
        · split at hs <;> cases hs
        · split at hs <;> cases hs
  | srcYield =>
    simp only [step] at hs
    split at hs
    · split at hs
      · split at hs
        · cases hs
        · exact absurd (Option.some.inj hs) (haf _ _ _ _ _)
      · cases hs
    · cases hs
  | srcEnd =>
    simp only [step] at hs
    split at hs
    · split at hs
      · split at hs
        · cases hs
        · exact absurd (Option.some.inj hs) (haf _ _ _ _ _)
      · cases hs
    · cases hs
  | step i =>
    refine ⟨i, rfl, ?_⟩
    simp only [step] at hs
    split at hs
    · cases hs
    · cases hs
    · cases hs
    · cases hs; simp [leave]
    · cases hs; simp [leave]
    · cases hs; simp [leave]
    · split at hs
      · exact absurd (Option.some.inj hs) (haf _ _ _ _ _)
      · split at hs
        · split at hs
          · cases hs
          · split at hs <;> cases hs
        · cases hs
    · cases hs; simp [leave, hrel, hrel2]
    · cases hs; simp [leave, hrel, hrel2]
    · exact absurd (Option.some.inj hs) (haf _ _ _ _ _)
    · split at hs
      · cases hs; simp [leave]
      · cases hs
    · cases hs

/-- The source is pulled once per element and never by two consumers at a time, and nothing that
was pulled is dropped:
* exact accounting of the invocations of the source's `__anext__`: one per produced element, one
  for the end, the ones that ended with CancelledError (they take nothing: the synchronous adaptor
  checks for cancellation BEFORE `next()` and is shielded after it), and the pending one;
* hence at most `consumed.length + 1` invocations that were not cancelled;
* at most one consumer is inside the source call, and it owns the lock;
* the values stored in the links, followed by the element the lock owner holds while it is inside
  the adaptor's shielded checkpoint, are exactly the produced sequence: each produced element is
  in exactly one link, in order (or about to be stored by a task that cannot be cancelled there). -/
theorem C19_teecancel_source_once {n : Nat} {sync : Bool} {xs : List α} {s : State α}
    (h : Reach n sync xs s) :
    s.srcCalls = s.consumed.length + (if s.ended then 1 else 0) + s.srcCancels + inflight s ∧
    s.srcCalls ≤ s.consumed.length + 1 + s.srcCancels ∧
    (∀ i j, (s.pc i).inSrc = true → (s.pc j).inSrc = true → i = j) ∧
    (∀ i, (s.pc i).inSrc = true → s.owner = some i) ∧
    s.links.filterMap id ++ (held s).filterMap id = s.consumed ∧
    ((∀ i r, s.pc i ≠ .srcShield r) → s.links.filterMap id = s.consumed) ∧
    s.consumed ++ s.src = xs := by
  have hi := inv_reach h
  have hd := hi.data
  unfold DInv at hd
  have hown : ∀ i, (s.pc i).inSrc = true → s.owner = some i :=
    fun i hh => (hi.lock.holder i).mp (inSrc_holdsLock hh)
  have hfm : s.links.filterMap id ++ (held s).filterMap id = s.consumed := by
    have := congrArg (List.filterMap id) hd.links_ok
    rw [List.filterMap_append, List.filterMap_append] at this
    rw [this]
    cases s.ended <;> simp [endMark, List.filterMap_map]
  have hfl : (s.ended = true → inflight s = 0) ∧ inflight s ≤ 1 := by
    unfold inflight
    cases ho : s.owner with
    | none => simp
    | some k =>
      simp only []
      have hle : flying (s.pc k) ≤ 1 := by cases s.pc k <;> simp
      refine ⟨?_, hle⟩
      intro he
      cases hf : flying (s.pc k) with
      | zero => rfl
      | succ m =>
        exfalso
        have hin : (s.pc k).inSrc = true := by cases hh : s.pc k <;> simp_all
        have hhl : heldOf (s.pc k) = [] := by cases hh : s.pc k <;> simp_all
        have hc := hd.insrc k hin
        have hg := hd.got_ok k
        rw [hc, List.take_length] at hg
        have hk := hd.links_ok
        rw [(held_owner ho).1, hhl, List.append_nil, ← hg] at hk
        have := (somes_all hk).2
        rw [he] at this; contradiction
  refine ⟨hd.calls, ?_, ?_, hown, hfm, ?_, hd.src_ok⟩
  · have := hd.calls
    cases he : s.ended with
    | false => rw [he] at this; simp at this; omega
    | true => rw [he] at this; have := hfl.1 he; simp at *; omega
  · intro i j h1 h2
    have a := hown i h1
    have b := hown j h2
    rw [a] at b; exact Option.some.inj b
  · intro hno
    have : held s = [] := by
      unfold held
      cases ho : s.owner with
      | none => rfl
      | some k =>
        simp only []
        cases hh : s.pc k <;> simp
        exact absurd hh (hno k _)
    rw [this] at hfm; simpa using hfm

/-- A cancelled consumer never leaves the lock held or a stale queue entry: a consumer that is idle
neither owns the lock nor is queued, and when every consumer is idle the lock is free with an
empty queue. -/
theorem C19_teecancel_lock_free {n : Nat} {sync : Bool} {xs : List α} {s : State α}
    (h : Reach n sync xs s) :
    (∀ i, s.pc i = .idle → s.owner ≠ some i ∧ i ∉ s.waiters) ∧
    ((∀ i, i < s.n → s.pc i = .idle) → s.owner = none ∧ s.waiters = []) := by
  have hl := (inv_reach h).lock
  refine ⟨?_, ?_⟩
  · intro i hi
    refine ⟨?_, ?_⟩
    · intro ho; have := (hl.holder i).mpr ho; rw [hi] at this; simp at this
    · intro hm; have := hl.wq i hm; rw [hi] at this; simp at this
  · intro hidle
    have hall : ∀ i, s.pc i = .idle := by
      intro i
      by_cases hlt : i < s.n
      · exact hidle i hlt
      · exact hl.range i (by omega)
    have ho : s.owner = none := by
      cases ho : s.owner with
      | none => rfl
      | some k => have := (hl.holder k).mpr ho; rw [hall k] at this; simp at this
    exact ⟨ho, hl.free ho⟩

/-- `Lock.acquire()` never raises "Attempted to acquire an already held Lock". -/
theorem C19_teecancel_no_runtime_error {n : Nat} {sync : Bool} {xs : List α} {s s' : State α}
    {e : Ev} (h : Reach n sync xs s) : step s e ≠ some (s', .runtimeError) := by
  have hl := (inv_reach h).lock
  have haf : ∀ (t : State α) (i : Nat) (l : Option α) (b : Bool) (t' : State α),
      afterFill t i l b ≠ (t', .runtimeError) := by
    intro t i l b t' h
    have := congrArg Prod.snd h
    unfold afterFill at this
    cases l <;> simp only [] at this <;> split at this <;> (try split at this) <;> cases this
  intro hs
  cases e with
  | cancel i => simp only [step] at hs; split at hs <;> cases hs
  | deliver i =>
    simp only [step] at hs
    split at hs
    · split at hs <;> cases hs
    · cases hs
  | next i =>
    simp only [step] at hs
    split at hs
    · cases hs
    · rename_i hidle
      have hg : i < s.n ∧ (s.pc i).isIdle = true := by simpa using hidle
      have hpc : s.pc i = .idle := isIdle_iff.mp hg.2
      split at hs
      · exact absurd (Option.some.inj hs) (haf _ _ _ _ _)
      · split at hs
        · split at hs <;> cases hs
        · split at hs
          · rename_i ho
            have := (hl.holder i).mpr ho
            rw [hpc] at this; simp at this
          · cases hs
  | srcYield =>
    simp only [step] at hs
    split at hs
    · split at hs
      · split at hs
        · cases hs
        · exact absurd (Option.some.inj hs) (haf _ _ _ _ _)
      · cases hs
    · cases hs
  | srcEnd =>
    simp only [step] at hs
    split at hs
    · split at hs
      · split at hs
        · cases hs
        · exact absurd (Option.some.inj hs) (haf _ _ _ _ _)
      · cases hs
    · cases hs
  | step i =>
    simp only [step] at hs
    split at hs
    · cases hs
    · cases hs
    · cases hs
    · cases hs
    · cases hs
    · cases hs
    · split at hs
      · exact absurd (Option.some.inj hs) (haf _ _ _ _ _)
      · split at hs
        · split at hs
          · cases hs
          · split at hs <;> cases hs
        · cases hs
    · cases hs
    · cases hs
    · exact absurd (Option.some.inj hs) (haf _ _ _ _ _)
    · split at hs <;> cases hs
    · cases hs

/-! ### non-vacuity: concrete runs (`decide`) -/

/-- consumer 1 replays a buffered element, is cancelled during that `anext` (its scope is already
cancelled: `checkpoint_if_cancelled()` raises before the link is advanced), retries and still gets
the element -/
example :
    (traceFrom step (init 2 true [5, 6])
      [.next 0, .step 0, .step 0, .cancel 1, .next 1, .step 1, .next 1, .step 1]).map (·.2) =
    some [.susp, .susp, .ret 5, .env, .susp, .cancelled, .susp, .ret 5] := by decide

/-- same, the cancellation arriving while consumer 1 is in the shielded checkpoint AFTER its link
was advanced: the call is not interrupted and returns the element -/
example :
    (traceFrom step (init 2 true [5, 6])
      [.next 0, .step 0, .step 0, .next 1, .cancel 1, .step 1, .next 1]).map (·.2) =
    some [.susp, .susp, .ret 5, .susp, .env, .ret 5, .susp] := by decide

/-- the puller is cancelled while the synchronous adaptor holds the element it has just taken
(shielded): the element is stored and returned; cancelled before the adaptor took anything: nothing
is taken, the lock is released, the retry pulls it -/
example :
    ((traceFrom step (init 1 true ([5] : List Nat))
      [.next 0, .step 0, .cancel 0, .step 0,
       .next 0, .cancel 0, .step 0, .step 0]).map
        fun p => (p.2, p.1.got 0, p.1.srcCalls, p.1.srcCancels, p.1.owner)) =
    some ([.susp, .susp, .env, .ret 5, .susp, .env, .susp, .cancelled],
          [5], 2, 1, none) := by decide

/-- a queued consumer is cancelled; `release()` drops its entry; when all are idle the lock is free
with an empty queue; its retry replays the element -/
example :
    ((traceFrom step (init 2 true [5])
      [.next 0, .next 1, .cancel 1, .deliver 1, .step 0, .step 0, .step 1, .next 1, .step 1]).map
        fun p => (p.2, p.1.owner, p.1.waiters, p.1.got 1, p.1.ncanc 1)) =
    some ([.susp, .susp, .env, .env, .susp, .ret 5, .cancelled, .susp, .ret 5],
          none, [], [5], 1) := by decide

/-- asynchronous source: the puller is cancelled inside the source call, the retry pulls the
element; both consumers run to the end and have seen the whole sequence; 4 invocations of the
source for 1 element: 1 element + 1 end + 2 cancelled -/
def exampleAsyncRun : List Ev :=
  [.next 0, .step 0, .cancel 0, .deliver 0, .step 0,          -- cancelled in the source call
   .next 1, .step 1, .next 0, .cancel 0, .deliver 0, .step 0,  -- 0 queued behind 1, cancelled there
   .srcYield,                                                  -- 1 gets 5
   .next 0, .step 0,                                           -- 0 replays 5
   .next 0, .step 0, .cancel 0, .deliver 0, .step 0,           -- 0 pulls the end, cancelled
   .next 1, .step 1, .srcEnd, .next 0]

example :
    ((runFrom step (init 2 false ([5] : List Nat)) exampleAsyncRun).map
        fun s => (s.got 0, s.got 1, s.finished 0, s.finished 1)) =
    some ([5], [5], true, true) := by decide

example :
    ((runFrom step (init 2 false ([5] : List Nat)) exampleAsyncRun).map
        fun s => (s.srcCalls, s.srcCancels, s.ncanc 0, s.owner, s.waiters)) =
    some (4, 2, 3, none, []) := by decide

/-- The literal "at most `consumed.length + 1` invocations of the source's `__anext__`" is false as
soon as an invocation is cancelled (it has to be repeated): here 2 invocations, nothing consumed,
the end not reached.  `C19_teecancel_source_once` counts the cancelled invocations. -/
example :
    ((runFrom step (init 1 true [5])
      [.next 0, .cancel 0, .step 0, .step 0, .next 0, .cancel 0, .step 0]).map
        fun s => (s.srcCalls, s.consumed.length, s.ended, s.srcCancels)) =
    some (2, 0, false, 1) := by decide

end AnyioModel.Iter.TeeCancel
