/-
C09  Lock: mutual exclusion, FIFO hand-off, cancel-safe waiters.

Property theorems only; the model is `AnyioModel.Sync.Lock`, the invariant and helper lemmas
are in `AnyioModel.Sync.LockProofs`.  Every statement quantifies over all reachable states,
i.e. over all finite event lists: any number of tasks, any interleaving of acquire /
acquire_nowait / release segments with cancellations (`fc`: waiter future cancelled,
`mc`: native cancellation landing after the wake-up was scheduled), fast_acquire on or off.
-/
import AnyioModel.Sync.LockProofs

namespace AnyioModel.Sync.Lock

theorem C09_invariant {s : State} (h : Reach s) : Inv s := by
  refine Reachable.invariant Inv ?_ ?_ s h
  · rintro s ⟨f, rfl⟩; exact inv_init f
  · intro s e s' o hi hs; exact inv_step hi hs

/-- At most one task is between a normal return of `acquire`/`acquire_nowait` and its
`release`, and it is the recorded owner. -/
theorem C09_mutex {s : State} (h : Reach s) {t u : Nat}
    (ht : s.holds t = true) (hu : s.holds u = true) : t = u ∧ s.owner = some t := by
  have hi := C09_invariant h
  have h1 := (hi.holds_owner t ht).1
  have h2 := (hi.holds_owner u hu).1
  rw [h1] at h2
  exact ⟨Option.some.inj h2, h1⟩

/-- `acquire` returns normally only to the task that now owns the lock. -/
theorem C09_acquire_returns_to_owner {s s' : State} (h : Reach s) {e : Ev}
    (hs : step s e = some (s', .ret)) {t : Nat}
    (_hnew : s.holds t = false) (hnow : s'.holds t = true) : s'.owner = some t :=
  ((C09_invariant (Reachable.next h hs)).holds_owner t hnow).1

/-- A free lock never has queued waiters, not even cancelled ones. -/
theorem C09_no_free_lock_with_waiters {s : State} (h : Reach s) :
    s.owner = none → s.waiters = [] :=
  (C09_invariant h).free_no_waiters

/-- Whoever owns the lock either holds it or is about to run with it: ownership is never
parked on a task that is idle, queued or cancelled. -/
theorem C09_owner_is_live {s : State} (h : Reach s) {t : Nat} (ho : s.owner = some t) :
    s.holds t = true ∨ owning (s.pc t) :=
  (C09_invariant h).owner_acct t ho

/-- No barging: ownership moves to a task `u` only (a) from a lock that is free *and has an
empty queue*, to the caller itself, or (b) in a `release()` to the first waiter whose future
is not cancelled, every entry ahead of it being a cancelled one. -/
theorem C09_fifo_no_barging {s s' : State} {e : Ev} {o : Out} {u : Nat}
    (hs : step s e = some (s', o)) (hnew : s'.owner = some u) (hold : s.owner ≠ some u) :
    (s.owner = none ∧ s.waiters = [] ∧ (e = .acquire u false ∨ e = .acquireNowait u)) ∨
    (∃ pre rest, s.waiters = pre ++ (u, false) :: rest ∧ (∀ w ∈ pre, w.2 = true) ∧
      s'.waiters = rest ∧ s'.pc u = .granted) := by
  have hrel : ∀ s0 : State, s0.waiters = s.waiters → (doRelease s0).owner = some u →
      ∃ pre rest, s.waiters = pre ++ (u, false) :: rest ∧ (∀ w ∈ pre, w.2 = true) ∧
        (doRelease s0).waiters = rest ∧ (doRelease s0).pc u = .granted := by
    intro s0 hw ho
    unfold doRelease at ho ⊢
    split at ho
    · rename_i v rest hg
      simp at ho; subst ho
      obtain ⟨pre, hws, hpre⟩ := grant_some hg
      exact ⟨pre, rest, by rw [← hw, hws], hpre, by simp, by simp⟩
    · simp at ho
  cases e with
  | acquire t pre =>
    simp only [step] at hs
    split at hs; · contradiction
    split at hs
    · rename_i hfree
      split at hs
      · cases hs; exact absurd hnew hold
      · rename_i hpre
        split at hs <;> (cases hs; simp at hnew; subst hnew; left; simp_all)
    · split at hs <;> (cases hs; exact absurd hnew hold)
  | acquireNowait t =>
    simp only [step] at hs
    split at hs; · contradiction
    split at hs
    · cases hs; simp at hnew; subst hnew; left; simp_all
    · split at hs <;> (cases hs; exact absurd hnew hold)
  | release t =>
    simp only [step] at hs
    split at hs; · contradiction
    split at hs
    · cases hs; exact absurd hnew hold
    · cases hs; right; exact hrel _ rfl hnew
  | fc t =>
    simp only [step] at hs
    split at hs
    · cases hs; exact absurd hnew hold
    · contradiction
  | mc t =>
    simp only [step] at hs
    split at hs <;> first | contradiction | (cases hs; exact absurd hnew hold)
  | step t =>
    simp only [step] at hs
    split at hs
    · contradiction
    · contradiction
    · cases hs; exact absurd hnew hold
    · cases hs; exact absurd hnew hold
    · cases hs; exact absurd hnew hold
    · cases hs; right; exact hrel _ rfl hnew
    · cases hs; exact absurd hnew hold
    · cases hs; exact absurd hnew hold
    · cases hs; right; exact hrel _ rfl hnew

/-- The queue keeps arrival order: a step only appends the caller at the tail or deletes
entries; it never reorders or inserts elsewhere. -/
theorem C09_queue_order {s s' : State} {e : Ev} {o : Out} (hs : step s e = some (s', o)) :
    (s'.waiters.map Prod.fst).Sublist (s.waiters.map Prod.fst) ∨
    (∃ t pre, e = .acquire t pre ∧ s'.waiters = s.waiters ++ [(t, false)]) := by
  have hrel : ∀ s0 : State, s0.waiters = s.waiters →
      ((doRelease s0).waiters.map Prod.fst).Sublist (s.waiters.map Prod.fst) := by
    intro s0 hw
    unfold doRelease
    split
    · rename_i v rest hg
      obtain ⟨pre, hws, _⟩ := grant_some hg
      rw [← hw, hws]
      simp only [List.map_append, List.map_cons]
      exact List.Sublist.trans (List.sublist_cons_self _ _) (List.sublist_append_right _ _)
    · simp
  cases e with
  | acquire t pre =>
    simp only [step] at hs
    split at hs; · contradiction
    split at hs
    · split at hs
      · cases hs; left; exact List.Sublist.refl _
      · split at hs <;> (cases hs; left; exact List.Sublist.refl _)
    · split at hs
      · cases hs; left; exact List.Sublist.refl _
      · cases hs; right; exact ⟨t, pre, rfl, rfl⟩
  | acquireNowait t =>
    simp only [step] at hs
    split at hs; · contradiction
    split at hs
    · cases hs; left; exact List.Sublist.refl _
    · split at hs <;> (cases hs; left; exact List.Sublist.refl _)
  | release t =>
    simp only [step] at hs
    split at hs; · contradiction
    split at hs
    · cases hs; left; exact List.Sublist.refl _
    · cases hs; left; exact hrel _ rfl
  | fc t =>
    simp only [step] at hs
    split at hs
    · cases hs; left; simp [map_fst_markCancelled]
    · contradiction
  | mc t =>
    simp only [step] at hs
    split at hs <;> first | contradiction | (cases hs; left; exact List.Sublist.refl _)
  | step t =>
    simp only [step] at hs
    split at hs
    · contradiction
    · contradiction
    · cases hs; left; exact List.Sublist.refl _
    · cases hs; left; exact List.Sublist.refl _
    · cases hs; left; exact List.Sublist.refl _
    · cases hs; left; exact hrel _ rfl
    · cases hs; left; exact List.Sublist.map _ List.filter_sublist
    · cases hs; left; exact List.Sublist.refl _
    · cases hs; left; exact hrel _ rfl

/-- A waiter whose `acquire` ends with the cancellation exception neither owns the lock nor
stays in the queue -- whether its future was cancelled while pending (`fc`) or a native
cancellation landed after ownership had already been transferred (`mc`). Together with
`C09_invariant` for the successor state (free ⇒ empty queue, owner is live) this is
"the lock passes to the next live waiter". -/
theorem C09_cancel_safe {s s' : State} (h : Reach s) {t : Nat}
    (hs : step s (.step t) = some (s', .cancelled)) :
    s'.owner ≠ some t ∧ (∀ c, (t, c) ∉ s'.waiters) ∧ s'.pc t = .idle ∧ s'.holds t = false := by
  have hi' := C09_invariant (Reachable.next h hs)
  have hi := C09_invariant h
  have hidle : s'.pc t = .idle ∧ s'.holds t = false := by
    have hh : s.holds t = false := by
      cases hht : s.holds t with
      | false => rfl
      | true =>
        have := (hi.holds_owner t hht).2
        simp [step, this] at hs
    have hkeep : ∀ s0 : State, s0.waiters = s.waiters → s0.holds = s.holds → s0.pc t = .idle →
        s.holds t = false → s.pc t ≠ .waiting →
        (doRelease s0).pc t = .idle ∧ (doRelease s0).holds t = false := by
      intro s0 hw hho hp0 hh0 hnw
      unfold doRelease
      split
      · rename_i u rest hg
        obtain ⟨pre, hws, _⟩ := grant_some hg
        have hu : s.pc u = .waiting := by
          have := hi.waiter_pc u false (by rw [← hw, hws]; simp)
          simpa using this
        have hut : t ≠ u := by intro h; subst h; exact hnw hu
        simp [hut, hp0, hho, hh0]
      · simp [hp0, hho, hh0]
    simp only [step] at hs
    split at hs <;> try contradiction
    all_goals (injection hs with hs; injection hs with hs1 hs2; try contradiction)
    all_goals subst hs1
    · simp [hh]
    · exact hkeep _ rfl rfl (by simp) hh (by simp [*])
    · simp [hh]
    · exact hkeep _ rfl rfl (by simp) hh (by simp [*])
  refine ⟨?_, ?_, hidle.1, hidle.2⟩
  · intro ho
    rcases hi'.owner_acct t ho with h1 | h1
    · simp [hidle.2] at h1
    · simp [owning, hidle.1] at h1
  · intro c hm
    have := hi'.waiter_pc t c hm
    simp [hidle.1] at this

/-- Misuse is refused without touching the lock. -/
theorem C09_errors {s s' : State} {o : Out} {t : Nat} :
    (step s (.release t) = some (s', o) → s.owner ≠ some t → o = .runtimeError ∧ s' = s) ∧
    (step s (.acquire t false) = some (s', o) → s.owner = some t → o = .runtimeError ∧ s' = s) ∧
    (step s (.acquireNowait t) = some (s', o) → s.owner = some t →
      o = .runtimeError ∧ s' = s) ∧
    (step s (.acquireNowait t) = some (s', o) → s.owner ≠ some t →
      (s.owner ≠ none ∨ s.waiters ≠ []) → o = .wouldBlock ∧ s' = s) := by
  refine ⟨?_, ?_, ?_, ?_⟩ <;> intro hs <;> simp only [step] at hs <;> grind

/-- The owner's `release()` always succeeds. -/
theorem C09_owner_can_release {s : State} (h : Reach s) {t : Nat} (hh : s.holds t = true) :
    ∃ s', step s (.release t) = some (s', .ret) ∧ s'.holds t = false := by
  have hi := C09_invariant h
  obtain ⟨ho, hpc⟩ := hi.holds_owner t hh
  refine ⟨doRelease { s with holds := upd s.holds t false }, by simp [step, hpc, ho], ?_⟩
  unfold doRelease; split <;> simp

/-- Once nobody is inside an operation and nobody holds the lock, it is unlocked with an
empty queue. -/
theorem C09_quiescent {s : State} (h : Reach s)
    (hq : ∀ t, s.pc t = .idle ∧ s.holds t = false) : s.owner = none ∧ s.waiters = [] := by
  have hi := C09_invariant h
  have ho : s.owner = none := by
    cases hown : s.owner with
    | none => rfl
    | some t =>
      rcases hi.owner_acct t hown with h1 | h1
      · simp [(hq t).2] at h1
      · simp [owning, (hq t).1] at h1
  exact ⟨ho, hi.free_no_waiters ho⟩

/-! ### non-vacuity: the hypotheses above are met by concrete contended histories -/

/-- task 1 holds, 2 and 3 queue, 2 is cancelled while queued, 1 releases: 3 gets the lock -/
example :
    (runFrom step (init false)
      [.acquire 1 false, .step 1, .acquire 2 false, .acquire 3 false, .fc 2, .release 1]).map
      (fun s => (s.owner, s.waiters, s.pc 2, s.pc 3, s.holds 1)) =
    some (some 3, [], Pc.waitFC, Pc.granted, false) := by decide

/-- hand-over cycle: 1 releases to 2, a native cancel hits 2 before it runs, 2 passes it to 3 -/
example :
    (runFrom step (init false)
      [.acquire 1 false, .step 1, .acquire 2 false, .acquire 3 false, .release 1, .mc 2,
       .step 2]).map
      (fun s => (s.owner, s.waiters, s.pc 2, s.pc 3)) =
    some (some 3, [], Pc.idle, Pc.granted) := by decide

end AnyioModel.Sync.Lock
