/-
C10 (Semaphore), history level: "waiting tasks are served in the order in which they started
waiting; a cancelled waiter is never handed a permit and never clogs the queue".

`Props/C10.lean` states FIFO per step (`C10_sem_no_barging`, `C10_sem_fifo_handover`,
`C10_sem_queue_order`).  Here the clause is stated over whole histories, by the construction of
`Props/C09fifo.lean`: for every event list three logs are read off the run - `enq` (an
`acquire()` ended queued), `granted` (a `release()` resolved the future of a queued task),
`cancelled` (a waiter future was cancelled) - and the hand-overs followed by the queue are a
subsequence of the waiting order, every start of waiting is accounted for exactly once, and
without cancellations served ++ queued = started-waiting.
-/
import AnyioModel.Sync.SemaphoreHistory

namespace AnyioModel.Sync.Semaphore

theorem C10_sem_fifo_history {s0 s : State} {es : List Ev} {l : Log} (h0 : IsInit s0)
    (h : runLog s0 {} es = some (s, l)) :
    (l.granted ++ s.waiters.map Prod.fst).Sublist l.enq ∧ l.granted.Sublist l.enq := by
  obtain ⟨f, v, m, rfl, hm⟩ := h0
  have := (linv_runLog es (inv_init ⟨f, v, m, rfl, hm⟩) (linv_init f v m) h).2.order
  exact ⟨this, List.Sublist.trans (List.sublist_append_left _ _) this⟩

theorem C10_sem_fifo_accounting {s0 s : State} {es : List Ev} {l : Log} (h0 : IsInit s0)
    (h : runLog s0 {} es = some (s, l)) :
    l.enq.Perm (l.granted ++ l.cancelled ++ live s.waiters) := by
  obtain ⟨f, v, m, rfl, hm⟩ := h0
  have := (linv_runLog es (inv_init ⟨f, v, m, rfl, hm⟩) (linv_init f v m) h).2.acct
  rw [List.perm_iff_count]
  intro x
  simp only [List.count_append]
  exact this x

/-- a task is served at most as often as it queued minus the times its future was cancelled -/
theorem C10_sem_cancelled_not_served {s0 s : State} {es : List Ev} {l : Log} (h0 : IsInit s0)
    (h : runLog s0 {} es = some (s, l)) (t : Nat) :
    l.granted.count t + l.cancelled.count t ≤ l.enq.count t := by
  obtain ⟨f, v, m, rfl, hm⟩ := h0
  have := (linv_runLog es (inv_init ⟨f, v, m, rfl, hm⟩) (linv_init f v m) h).2.acct t
  omega

theorem C10_sem_fifo_exact {s0 s : State} {es : List Ev} {l : Log} (h0 : IsInit s0)
    (h : runLog s0 {} es = some (s, l)) (hc : l.cancelled = []) :
    l.granted ++ s.waiters.map Prod.fst = l.enq := by
  have hsub := (C10_sem_fifo_history h0 h).1
  have hperm := C10_sem_fifo_accounting h0 h
  apply hsub.eq_of_length_le
  have hlen := hperm.length_eq
  have hlive : (live s.waiters).length ≤ (s.waiters.map Prod.fst).length := by
    simp only [live, List.length_map]
    exact List.length_filter_le _ _
  simp only [hc, List.append_nil, List.length_append] at hlen ⊢
  omega

theorem C10_sem_runLog_runFrom (s : State) (l : Log) (es : List Ev) :
    (runLog s l es).map Prod.fst = runFrom step s es := by
  induction es generalizing s l with
  | nil => rfl
  | cons e es ih =>
    simp only [runLog, runFrom]
    split <;> simp_all

/-- `handedTo` means what it says: the task was queued with a pending future, which is resolved now -/
theorem C10_sem_handedTo_sound {s s' : State} {u : Nat} (hr : Reach s) (h : handedTo s s' = some u) :
    s.pc u = .waiting ∧ (u, false) ∈ s.waiters ∧ s'.pc u = .granted := by
  have hi : Inv s := Reachable.invariant Inv (fun _ h => inv_init h)
    (fun _ _ _ _ hi hs => inv_step hi hs) s hr
  unfold handedTo at h
  have hm := List.mem_of_find?_eq_some h
  have hp := List.find?_some h
  have hq := mem_live.mp hm
  have := hi.waiter_pc u false hq
  refine ⟨by grind, hq, by simpa using hp⟩

/-! ### non-vacuity: value 1, three tasks queue behind a holder, the middle one is cancelled -/

def demo : List Ev :=
  [.acquire 0 false, .step 0, .acquire 1 false, .acquire 2 false, .acquire 3 false, .fc 2,
   .release 0, .step 1, .step 2, .release 1, .step 3, .acquire 1 false, .release 3]

example : (runLog (init false 1 none) {} demo).map (fun r => (r.2.enq, r.2.granted, r.2.cancelled)) =
    some ([1, 2, 3, 1], [1, 3, 1], [2]) := by decide

end AnyioModel.Sync.Semaphore
