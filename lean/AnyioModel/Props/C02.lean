/-
C02  Task group errors: siblings cancelled, every exception surfaces exactly once.

Property theorems only, on the kernel model; the accounting invariants `AInv`, `RInv` and the
shape lemmas of `task_done` / `__aexit__` are in `AnyioModel.Kernel.GroupInv6`, `GroupInv7`.

Ghost fields used: `Group.bodyErrs` (leaves of the non-cancellation exception the body handed to
`__aexit__`), `Group.routed` (children whose exception `task_done` appended to `_exceptions`),
`Task.outcome`, `Task.doneCbRun`.  `errs o` is what outcome `o` contributes: nothing for a
`CancelledError` or a normal return, otherwise its leaves; `routedErrs st g` concatenates
`errs (outcome u)` over `u ∈ routed g`.

Deviations from the plan (`notes/KERNEL_THEOREMS.md`), see the comments at the theorems:
* `C02_exactly_once_partial`: the permutation is proved up to a list `B0` of further leaves that
  came from the body, which is `[]` as soon as `__aexit__` runs at most once per group;
* `C02_siblings_cancelled` holds right after the transition that records the exception, not as an
  invariant (`C02_siblings_cancelled_not_invariant` is the counterexample);
* `C02_no_child_cancel_leaves` is stated on the routing: a child that ends with a `CancelledError`
  contributes nothing (a cancellation leaf *inside an exception group* raised by a child is
  recorded like the real code records the nested group).
-/
import AnyioModel.Kernel.GroupInv7

namespace AnyioModel.Kernel

/-- Accounting invariant, every reachable state, every group whose block has not ended:
`_exceptions` is a permutation of `B0 ++ bodyErrs ++` the errors of the routed children, every
child is routed at most once, and only children of the group whose `task_done` has run and whose
outcome is a non-cancellation exception are routed.

Full statement (not proved): the same with `B0 = []`.  `B0` collects the leaves recorded by
earlier executions of the first part of `__aexit__` for the same group (`bodyErrs` is overwritten
by the latest one).  `B0 = []` follows once `.aexit g` is known to be enabled at most once per
group, which needs "the current scope of a running task is hosted by that task" -- an invariant
of the scope forest that is not part of `WF`. -/
theorem C02_exactly_once_partial {st : State} (h : Reach st) (g : Nat)
    (hx : (st.groups g).exited = false) :
    (∃ B0, List.Perm (st.groups g).exceptions
      (B0 ++ ((st.groups g).bodyErrs ++ routedErrs st g))) ∧
    (st.groups g).routed.Nodup ∧
    (∀ u ∈ (st.groups g).routed, u ∈ (st.groups g).spawned ∧ (st.tasks u).doneCbRun = true ∧
      ∃ o, (st.tasks u).outcome = some o ∧ o.isCancelledError = false ∧ o ≠ .none) := by
  have a := ainv_reach h
  refine ⟨a.acct g hx, a.nodup g, fun u hu => ?_⟩
  have := a.routed_cb g u hu
  exact ⟨(ginv_reach h).g0 u g this.2.1, this.1, this.2.2⟩

/-- What the block raises: the end of `__aexit__` (the only place where `exited` is set) raises
or returns `ev'` whose non-cancellation leaves are those of `_exceptions` if any were collected,
otherwise those of the exception `ev` it was entered with: the group scope's `__exit__` filters
cancellations only. -/
theorem C02_exit_output {st st' : State} {t g : Nat} {ev : ExcVal} {o : Out}
    (he : aexitFinish st t g ev = some (st', o)) :
    ∃ ev', o = .done ev' ∧ (st'.groups g).exited = true ∧
      ev'.leaves.filter (fun e => !e.isCancel) =
        (if (st.groups g).exceptions ≠ [] then (st.groups g).exceptions
          else ev.leaves).filter (fun e => !e.isCancel) := by
  unfold aexitFinish at he
  simp only [] at he
  split at he
  · contradiction
  · rename_i st1 r hex
    simp only [Option.some.injEq, Prod.mk.injEq] at he
    obtain ⟨rfl, rfl⟩ := he
    refine ⟨_, rfl, by simp, ?_⟩
    rw [exitScope_eq] at hex
    split at hex
    · contradiction
    · simp only [Option.some.injEq] at hex
      have hr : r = (exitTail (restartInParent (exitCore st t (st.groups g).scope)
          (st.groups g).scope) t (st.groups g).scope
          (if (st.groups g).exceptions ≠ [] then ExcVal.group (st.groups g).exceptions else ev)).2 := by
        rw [hex]
      rw [hr, exitTail_nonCancel]
      split <;> rfl

/-- Exactly once at the end of the block, given the accounting invariant in the state in which
the end of `__aexit__` runs (it holds there: `AInv` is preserved by every part of a transition,
`ainv_closed`): if anything was collected, the non-cancellation leaves of what the block raises
are a permutation of those of `B0 ++ bodyErrs ++ routedErrs`. -/
theorem C02_exactly_once_at_exit_partial {st st' : State} {t g : Nat} {ev : ExcVal} {o : Out}
    (ha : AInv st) (hx : (st.groups g).exited = false)
    (hne : (st.groups g).exceptions ≠ [])
    (he : aexitFinish st t g ev = some (st', o)) :
    ∃ ev' B0, o = .done ev' ∧ List.Perm (ev'.leaves.filter (fun e => !e.isCancel))
      ((B0 ++ ((st.groups g).bodyErrs ++ routedErrs st g)).filter (fun e => !e.isCancel)) := by
  obtain ⟨ev', ho, _, hf⟩ := C02_exit_output he
  obtain ⟨B0, hp⟩ := ha.acct g hx
  refine ⟨ev', B0, ho, ?_⟩
  rw [hf, if_pos hne]
  exact hp.filter _

/-- Quiet: if nothing was collected, the block returns normally or raises something with the
non-cancellation leaves of the exception `__aexit__` was entered with; if that was `.none` or a
`CancelledError` (nothing failed) it returns normally or re-raises exactly that. -/
theorem C02_quiet {st st' : State} {t g : Nat} {ev : ExcVal} {o : Out}
    (hq : (st.groups g).exceptions = []) (hev : ev = .none ∨ ev.isCancelledError = true)
    (he : aexitFinish st t g ev = some (st', o)) : o = .done .none ∨ o = .done ev := by
  unfold aexitFinish at he
  simp only [hq, ne_eq, not_true_eq_false, if_false] at he
  split at he
  · contradiction
  · rename_i st1 r hex
    simp only [Option.some.injEq, Prod.mk.injEq] at he
    obtain ⟨_, rfl⟩ := he
    rw [exitScope_eq] at hex
    split at hex
    · contradiction
    · simp only [Option.some.injEq] at hex
      have hr : r = (exitTail (restartInParent (exitCore st t (st.groups g).scope)
          (st.groups g).scope) t (st.groups g).scope ev).2 := by rw [hex]
      rcases exitTail_snd (restartInParent (exitCore st t (st.groups g).scope)
          (st.groups g).scope) t (st.groups g).scope ev with h | ⟨h, _⟩ | ⟨es, rfl, _⟩
      · rw [hr, h]; exact .inr rfl
      · rw [hr, h]; exact .inl rfl
      · rcases hev with hev | hev
        · cases hev
        · simp [ExcVal.isCancelledError] at hev

/-- None dropped: once `task_done` of a child `u` of `g` has run, its outcome `o` has been
accounted for: it carries no error (`errs o = []`: returned, or ended with a `CancelledError`),
or `u` is routed (its leaves are in `_exceptions` while the block lasts, `C02_exactly_once_partial`),
or it was delivered to the caller of `start()` through the start future.  This covers children
whose starter was cancelled while they unwound (F2). -/
theorem C02_none_dropped {st : State} (h : Reach st) {g u : Nat} {o : Outcome}
    (hu : u ∈ (st.groups g).spawned) (hc : (st.tasks u).doneCbRun = true)
    (ho : (st.tasks u).outcome = some o) :
    errs o = [] ∨ u ∈ (st.groups g).routed ∨
      ∃ sf, (st.tasks u).startFut = some sf ∧ st.futs sf = .failed o :=
  (rinv_reach h).complete u g o ((ginv_reach h).g2 g u hu).1 hc ho

/-- Siblings cancelled: when `task_done` of child `u` records its exception in group `g`, in the
resulting state the group scope is cancelled or effectively cancelled. -/
theorem C02_siblings_cancelled {st st' : State} {u g : Nat}
    (he : runTaskDone st u = some st') (hn : u ∉ (st.groups g).routed)
    (hr : u ∈ (st'.groups g).routed) :
    (st'.scopes (st'.groups g).scope).cancelCalled = true ∨
      effCancelled st' (st'.groups g).scope = true := by
  obtain ⟨g0, sc, o, hg, hsc, ho, ht⟩ := runTaskDone_shape he
  have hB : ∀ g', ((taskDoneMid (taskDoneCore st u g0 sc) g0).groups g').routed =
      (st.groups g').routed ∧ ((taskDoneMid (taskDoneCore st u g0 sc) g0).groups g').scope =
      (st.groups g').scope := by
    intro g'
    have l := (gle_taskDoneMid (taskDoneCore st u g0 sc) g0).groups g'
    rw [l.routed, l.scope]
    unfold taskDoneCore
    by_cases hgg : g' = g0
    · subst hgg; simp
    · simp [hgg]
  generalize taskDoneMid (taskDoneCore st u g0 sc) g0 = M at ht hB
  rcases taskDoneTail_shape ht with ⟨_, hgr, _⟩ | ⟨_, _, _, hr'⟩
  · rw [hgr, (hB g).1] at hr; exact absurd hr hn
  · have hgg : g = g0 := by
      apply Classical.byContradiction; intro hne
      rcases hr' with ⟨_, rfl⟩ | ⟨_, rfl⟩
      · have : u ∈ (M.groups g).routed := by simpa [routeErr, hne] using hr
        rw [(hB g).1] at this; exact hn this
      · rw [((gle_cancelScope _ _ _).groups g).routed] at hr
        have : u ∈ (M.groups g).routed := by simpa [routeErr, hne] using hr
        rw [(hB g).1] at this; exact hn this
    subst hgg
    have hs : ((routeErr M g u o).groups g).scope = (M.groups g).scope := by simp [routeErr]
    rcases hr' with ⟨heff, rfl⟩ | ⟨_, rfl⟩
    · right; rw [hs]; exact heff
    · left
      rw [((gle_cancelScope _ _ _).groups g).scope, hs]
      exact cancelScope_cancelCalled _ _ _

/-- ... and when the body's exception is recorded (first part of `__aexit__` entered with a
non-cancellation exception) the group scope is cancelled. -/
theorem C02_siblings_cancelled_body {st : State} {g : Nat} {ev : ExcVal} (hev : ev ≠ .none) :
    ((aexitPrep st g ev).scopes ((aexitPrep st g ev).groups g).scope).cancelCalled = true := by
  unfold aexitPrep
  simp only [ne_eq, hev, not_false_eq_true, if_true]
  split
  · rw [(cframe_cancelScope _ _ _).groups]; exact cancelScope_cancelCalled _ _ _
  · simp only [setGroup_scopes, setGroup_groups, upd_same]
    rw [(cframe_cancelScope _ _ _).groups]; exact cancelScope_cancelCalled _ _ _

/-- The invariant form of the plan ("`exceptions ≠ [] ∧ ¬exited → cancelCalled gs ∨ effCancelled gs`")
is false, in the model and in AnyIO: `task_done` does not call `cancel()` on a group scope that is
effectively cancelled through an enclosing scope; if the group scope is shielded afterwards
(`tg.cancel_scope.shield = True`) the failed group is not cancelled any more. -/
theorem C02_siblings_cancelled_not_invariant :
    ∃ st, Reach st ∧ (st.groups 0).exceptions ≠ [] ∧ (st.groups 0).exited = false ∧
      (st.scopes (st.groups 0).scope).cancelCalled = false ∧
      effCancelled st (st.groups 0).scope = false := by
  have hrun : (runFrom step init
      [.mkScope false none, .enter 0, .mkGroup, .groupEnter 0, .spawn 0, .cancel 0, .yield,
       .beginCycle 0, .run (.step 1), .finish (.one (.err 1)), .run (.deliver 0), .run (.step 0),
       .yield, .beginCycle 0, .run (.taskDone 1), .setShield 1 true]).map
      (fun st => ((st.groups 0).exceptions, (st.groups 0).exited,
        (st.scopes (st.groups 0).scope).cancelCalled, effCancelled st (st.groups 0).scope)) =
      some ([.err 1], false, false, false) := by decide
  cases hst : runFrom step init
      [.mkScope false none, .enter 0, .mkGroup, .groupEnter 0, .spawn 0, .cancel 0, .yield,
       .beginCycle 0, .run (.step 1), .finish (.one (.err 1)), .run (.deliver 0), .run (.step 0),
       .yield, .beginCycle 0, .run (.taskDone 1), .setShield 1 true] with
  | none => rw [hst] at hrun; simp at hrun
  | some st =>
    rw [hst] at hrun
    simp only [Option.map_some, Option.some.injEq, Prod.mk.injEq] at hrun
    refine ⟨st, reachable_of_runFrom (Reachable.start rfl) _ hst, ?_, hrun.2.1, hrun.2.2.1,
      hrun.2.2.2⟩
    rw [hrun.1]; simp

/-- A child that ends with a `CancelledError` (because the group shut it down, or for any other
reason) is never routed: it contributes nothing to `_exceptions`; its `task_done` leaves
`_exceptions` of every group unchanged. -/
theorem C02_no_child_cancel_leaves {st st' : State} {u : Nat} {o : Outcome}
    (ho : (st.tasks u).outcome = some o) (hc : o.isCancelledError = true)
    (he : runTaskDone st u = some st') :
    ∀ g, (st'.groups g).exceptions = (st.groups g).exceptions ∧
      (st'.groups g).routed = (st.groups g).routed := by
  intro g
  obtain ⟨g0, sc, o', hg, hsc, ho', ht⟩ := runTaskDone_shape he
  rw [ho] at ho'; cases ho'
  have hB : ((taskDoneMid (taskDoneCore st u g0 sc) g0).groups g).exceptions =
      (st.groups g).exceptions ∧ ((taskDoneMid (taskDoneCore st u g0 sc) g0).groups g).routed =
      (st.groups g).routed := by
    have l := (gle_taskDoneMid (taskDoneCore st u g0 sc) g0).groups g
    rw [l.routed, l.exceptions]
    unfold taskDoneCore
    by_cases hgg : g = g0
    · subst hgg; simp
    · simp [hgg]
  rcases taskDoneTail_shape ht with ⟨_, hgr, _⟩ | ⟨_, hnc, _⟩
  · rw [hgr]; exact hB
  · rw [hc] at hnc; contradiction

/-! ### non-vacuity -/

/-- two children raise `err 1`, `err 2`, the body raises `err 3`: the block raises the three -/
example : (traceFrom step init
    [.mkGroup, .groupEnter 0, .spawn 0, .spawn 0, .aexit 0 (.one (.err 3)),
     .beginCycle 0, .run (.step 1), .finish (.one (.err 1)), .run (.step 2),
     .finish (.one (.err 2)), .run (.deliver 0),
     .beginCycle 0, .run (.taskDone 1), .run (.taskDone 2), .run (.deliver 0),
     .run (.wakeup 0)]).map (fun p => (p.2.getLast?, (p.1.groups 0).routed)) =
    some (some (.done (.group [.err 3, .err 1, .err 2])), [2, 1]) := by decide

/-- nothing fails: the block returns normally -/
example : (traceFrom step init
    [.mkGroup, .groupEnter 0, .spawn 0, .aexit 0 .none, .beginCycle 0, .run (.step 1),
     .finish .none, .beginCycle 0, .run (.taskDone 1), .beginCycle 0, .run (.wakeup 0)]).map
    (fun p => p.2.getLast?) = some (some (.done .none)) := by decide

end AnyioModel.Kernel
