/-
C14  `to_thread.run_sync`: limiter tokens bound the running functions, the caller gets exactly
what the function produced, no early resume without `abandon_on_cancel`, LIFO worker reuse.

Property theorems only; the model is `AnyioModel.Thread.Worker`, the invariant and helper lemmas
are in `AnyioModel.Thread.WorkerProofs`.  Every statement quantifies over all reachable states
(`Reach s`), i.e. over all finite event lists: any number of calls, any interleaving of caller
segments, worker-thread hand-over points, cancellations, `total_tokens` changes and pruning --
or over one arbitrary `step`.
-/
import AnyioModel.Thread.WorkerProofs

namespace AnyioModel.Thread.Worker

theorem C14_invariant {s : State} (h : Reach s) : Inv s := by
  refine Reachable.invariant Inv ?_ ?_ s h
  · rintro s ⟨n, rfl⟩; exact inv_init n
  · intro s e s' o hi hs; exact inv_step hi hs

/-! ### the limiter bounds the functions that are running -/

/-- A function that is executing in a worker thread and whose result is still wanted (its
future is pending) holds a limiter token: its call is one of the limiter's borrowers. -/
theorem C14_running_holds_token {s : State} (h : Reach s) {c : Nat} (hr : RunningLive s c) :
    c ∈ s.borrowers := by
  have hi := C14_invariant h
  obtain ⟨hth, hfut⟩ := hr
  have hp := hi.fut_pending c hfut (by simp [hth])
  exact (hi.bor_iff c).mpr (Or.inr (Or.inl hp))

/-- No call borrows two tokens. -/
theorem C14_borrowers_nodup {s : State} (h : Reach s) : s.borrowers.Nodup :=
  (C14_invariant h).bor_nodup

/-- As long as `total_tokens` has never been lowered, the number of borrowed tokens does not
exceed it. -/
theorem C14_borrowers_le_total {s : State} (h : Reach s) (hl : s.lowered = false) :
    s.borrowers.length ≤ s.total :=
  (C14_invariant h).bor_le hl

/-- Counting form: any set of distinct calls whose functions are all running with a wanted
result is no larger than the number of borrowed tokens. -/
theorem C14_running_bounded {s : State} (h : Reach s) (cs : List Nat) (hnd : cs.Nodup)
    (hrun : ∀ c ∈ cs, RunningLive s c) : cs.length ≤ s.borrowers.length :=
  nodup_subset_length_le hnd (fun c hc => C14_running_holds_token h (hrun c hc))

/-- The limiter bounds concurrency: with `total_tokens` never lowered, at most `total_tokens`
functions whose result is still wanted run at the same time. -/
theorem C14_running_le_total {s : State} (h : Reach s) (hl : s.lowered = false) (cs : List Nat)
    (hnd : cs.Nodup) (hrun : ∀ c ∈ cs, RunningLive s c) : cs.length ≤ s.total :=
  Nat.le_trans (C14_running_bounded h cs hnd hrun) (C14_borrowers_le_total h hl)

/-! ### token accounting -/

/-- Once `run_sync` has returned or raised, its call neither holds a token nor waits for one. -/
theorem C14_token_released {s : State} (h : Reach s) {c : Nat} (hp : s.pc c = .returned) :
    c ∉ s.borrowers ∧ c ∉ s.waitq := by
  have hi := C14_invariant h
  constructor
  · intro hm; have := (hi.bor_iff c).mp hm; simp [hp] at this
  · intro hm; have := (hi.wq_iff c).mp hm; simp [hp] at this

/-- A token is only held by a call that is between the grant and its final wake-up. -/
theorem C14_borrower_is_inflight {s : State} (h : Reach s) {c : Nat} (hm : c ∈ s.borrowers) :
    s.pc c = .granted ∨ s.pc c = .awaiting ∨ s.pc c = .resolved ∨ s.pc c = .abandoned :=
  ((C14_invariant h).bor_iff c).mp hm

/-- When every call that was made has returned, all tokens are back and the wait queue is
empty. -/
theorem C14_quiescent {s : State} (h : Reach s)
    (hq : ∀ c, s.pc c = .none ∨ s.pc c = .returned) : s.borrowers = [] ∧ s.waitq = [] := by
  have hi := C14_invariant h
  constructor
  · apply List.eq_nil_iff_forall_not_mem.mpr
    intro c hm
    have := (hi.bor_iff c).mp hm
    rcases hq c with h1 | h1 <;> simp [h1] at this
  · apply List.eq_nil_iff_forall_not_mem.mpr
    intro c hm
    have := (hi.wq_iff c).mp hm
    rcases hq c with h1 | h1 <;> simp [h1] at this

/-- The wake-up of the caller always ends the call and releases its token, whether it returns
the outcome or raises the cancellation. -/
theorem C14_resume_releases {s s' : State} {o : Out} {c : Nat} (h : Reach s)
    (hs : step s (.resume c) = some (s', o)) : c ∉ s'.borrowers ∧ s'.pc c = .returned := by
  have hi := C14_invariant h
  have hb := hi.bor_iff c
  have hnd := hi.bor_nodup
  simp only [step] at hs
  split at hs
  · cases hs; simp_all
  · cases hs; simp_all
  · split at hs
    · cases hs; simp [List.Nodup.mem_erase_iff hnd]
    · contradiction
  · cases hs; simp [List.Nodup.mem_erase_iff hnd]
  · contradiction

/-! ### the caller gets exactly what the function produced -/

/-- What `run_sync` returned or raised as the function's outcome is the value or exception the
function really produced in the worker thread. -/
theorem C14_result_faithful {s : State} (h : Reach s) {c : Nat} {o : Outcome}
    (hg : s.got c = some (.outcome o)) : s.outcome c = some o := by
  have hi := C14_invariant h
  exact (hi.fut_done c o (hi.got_outcome c o hg)).1

/-- Step form: the wake-up that makes `run_sync` return hands over the function's outcome, and
its `pendingCancel` flag is exactly whether a cancellation has been requested meanwhile. -/
theorem C14_resume_ret_faithful {s s' : State} {c : Nat} {o : Outcome} {p : Bool}
    (hs : step s (.resume c) = some (s', .ret o p)) (h : Reach s) :
    s.outcome c = some o ∧ p = s.cancelReq c := by
  have hi := C14_invariant h
  simp only [step] at hs
  split at hs
  · cases hs
  · cases hs
  · split at hs
    · rename_i o' hf
      simp only [Option.some.injEq, Prod.mk.injEq, Out.ret.injEq] at hs
      obtain ⟨-, rfl, rfl⟩ := hs
      exact ⟨(hi.fut_done c _ hf).1, rfl⟩
    · contradiction
  · cases hs
  · contradiction

/-- `run_sync` raises the cancellation exception only if a cancel scope enclosing the call has
really been cancelled. -/
theorem C14_cancelled_only_if_requested {s : State} (h : Reach s) {c : Nat}
    (hg : s.got c = some .cancelled) : s.cancelReq c = true :=
  (C14_invariant h).got_cancelled c hg

/-! ### no early resume without `abandon_on_cancel` -/

/-- Without `abandon_on_cancel` the caller stays suspended as long as its function is queued or
running in the worker thread, whatever cancellations arrive. -/
theorem C14_shielded_waits_for_function {s : State} (h : Reach s) {c : Nat}
    (ha : s.abandon c = false) (ht : s.th c = .queued ∨ s.th c = .running) :
    s.pc c = .awaiting := by
  have hi := C14_invariant h
  cases hf : s.fut c with
  | pending => exact hi.fut_pending c hf (by rcases ht with h1 | h1 <;> simp [h1])
  | done o =>
    have := (hi.fut_done c o hf).2.1
    rcases ht with h1 | h1 <;> simp [h1] at this
  | cancelled =>
    have := (hi.fut_cancelled c hf).1
    simp [ha] at this

/-- Once dispatched, a call without `abandon_on_cancel` can only end with the function's own
outcome, never with the cancellation exception. -/
theorem C14_shielded_gets_outcome {s : State} (h : Reach s) {c : Nat}
    (ha : s.abandon c = false) (ht : s.th c ≠ .idle) (hp : s.pc c = .returned) :
    ∃ o, s.got c = some (.outcome o) ∧ s.outcome c = some o := by
  have hi := C14_invariant h
  obtain ⟨o, ho⟩ := hi.shielded c ha hp ht
  exact ⟨o, ho, C14_result_faithful h ho⟩

/-- Cancellation is level-triggered: no step clears a requested cancellation, so one that
arrived while the caller was shielded is still pending when `run_sync` returns (it is reported
by `pendingCancel`, see `C14_resume_ret_faithful`) and is delivered at the next checkpoint. -/
theorem C14_cancel_stays_pending {s s' : State} {e : Ev} {o : Out} {c : Nat}
    (hs : step s e = some (s', o)) (hc : s.cancelReq c = true) : s'.cancelReq c = true := by
  cases e with
  | callerCancelled d =>
    simp only [step] at hs
    split at hs; · contradiction
    cases hs
    simp only [interrupt_cancelReq]
    grind
  | deliver d =>
    simp only [step] at hs
    split at hs
    · cases hs; simpa using hc
    · contradiction
  | _ =>
    simp only [step] at hs
    repeat' (split at hs)
    all_goals first | contradiction | (cases hs; first | exact hc | (simp only [upd_apply]; grind))

/-! ### abandon -/

/-- The caller leaves before its function has finished (its future is cancelled) only for a
call made with `abandon_on_cancel=True` whose cancellation has really been requested. -/
theorem C14_abandoned_only_if_abandonable {s : State} (h : Reach s) {c : Nat}
    (hp : s.pc c = .abandoned ∨ s.fut c = .cancelled) :
    s.abandon c = true ∧ s.cancelReq c = true := by
  have hi := C14_invariant h
  have hf : s.fut c = .cancelled := by
    rcases hp with h1 | h1
    · exact hi.abandoned c h1
    · exact h1
  exact ⟨(hi.fut_cancelled c hf).1, (hi.fut_cancelled c hf).2.1⟩

/-! ### worker threads -/

/-- A worker thread has at most one job that it has been given and not yet reported. -/
theorem C14_one_job_per_worker {s : State} (h : Reach s) {c d : Nat}
    (hc : Occupies s c) (hd : Occupies s d) (hw : s.worker c = s.worker d) : c = d := by
  have hi := C14_invariant h
  have h1 := (hi.busy_iff (s.worker c) c).mpr ⟨hc, rfl⟩
  have h2 := (hi.busy_iff (s.worker c) d).mpr ⟨hd, hw.symm⟩
  rw [h1] at h2
  exact Option.some.inj h2

/-- A worker in the idle deque has no job: nothing is queued for it, running in it or waiting
to be reported by it. -/
theorem C14_idle_worker_has_no_job {s : State} (h : Reach s) {w : Nat} (hm : w ∈ s.idle) :
    s.busy w = none ∧ ∀ c, Occupies s c → s.worker c ≠ w := by
  have hi := C14_invariant h
  have hb := (hi.idle_free w hm).1
  refine ⟨hb, ?_⟩
  intro c hc hw
  have := (hi.busy_iff w c).mpr ⟨hc, hw⟩
  rw [hb] at this; cases this

/-- No worker is twice in the idle deque. -/
theorem C14_idle_nodup {s : State} (h : Reach s) : s.idle.Nodup :=
  (C14_invariant h).idle_nodup

/-- LIFO reuse: a dispatch creates a new worker only when the idle deque is empty; otherwise
it pops the most recently appended worker (the top of the stack) and no thread is created. -/
theorem C14_lifo_reuse {s s' : State} {o : Out} {c : Nat}
    (hs : step s (.dispatch c) = some (s', o)) :
    (s.idle = [] ∧ s'.worker c = s.nworkers ∧ s'.nworkers = s.nworkers + 1) ∨
    (∃ ws w, s.idle = ws ++ [w] ∧ s'.worker c = w ∧ s'.idle = ws ∧ s'.nworkers = s.nworkers) := by
  simp only [step] at hs
  split at hs; · contradiction
  split at hs
  · rename_i hl
    cases hs
    left; exact ⟨getLast?_eq_none_nil hl, by simp, rfl⟩
  · rename_i w hl
    cases hs
    right; exact ⟨s.idle.dropLast, w, getLast?_eq_some_split hl, by simp, rfl, rfl⟩

/-- A worker that reports its result is pushed on top of the idle stack. -/
theorem C14_report_pushes_top {s s' : State} {o : Out} {c : Nat}
    (hs : step s (.report c) = some (s', o)) : s'.idle = s.idle ++ [s.worker c] := by
  simp only [step] at hs
  split at hs; · contradiction
  split at hs; · contradiction
  split at hs <;> (cases hs; rfl)

/-! ### `from_thread.check_cancelled()` -/

/-- `check_cancelled()` raises iff some scope on the chain from the worker's current scope
outwards has `cancel_called` and every scope strictly inside it is neither cancelled nor
shielded. -/
theorem C14_check_cancelled_iff (chain : List (Bool × Bool)) :
    checkCancelled chain = true ↔
      ∃ pre cc_sh rest, chain = pre ++ (true, cc_sh) :: rest ∧ ∀ p ∈ pre, p = (false, false) := by
  constructor
  · intro h
    induction chain with
    | nil => simp [checkCancelled] at h
    | cons x rest ih =>
      obtain ⟨cc, sh⟩ := x
      cases cc with
      | true => exact ⟨[], sh, rest, rfl, by simp⟩
      | false =>
        cases sh with
        | true => simp [checkCancelled] at h
        | false =>
          simp only [checkCancelled, Bool.false_eq_true, if_false] at h
          obtain ⟨pre, b, r, he, hp⟩ := ih h
          refine ⟨(false, false) :: pre, b, r, by simp [he], ?_⟩
          intro p hm
          rcases List.mem_cons.mp hm with h1 | h1
          · exact h1
          · exact hp p h1
  · rintro ⟨pre, b, r, rfl, hp⟩
    induction pre with
    | nil => simp [checkCancelled]
    | cons x pre ih =>
      have hx : x = (false, false) := hp x (by simp)
      subst hx
      simp only [List.cons_append, checkCancelled, Bool.false_eq_true, if_false]
      exact ih (fun p hm => hp p (by simp [hm]))

/-! ### non-vacuity: the hypotheses above are met by concrete histories
-/

-- only lets the `Decidable` instance be found for equality of 6-8 tuples in the examples below
set_option synthInstance.maxSize 1024

/-- three calls on a 1-token limiter: while the function of call 1 runs, call 2 (head of the
queue) cannot get a token -/
example :
    (runFrom step (init 1)
      [.call 1 false false, .call 2 false false, .call 3 false false, .tokenGranted 1,
       .dispatch 1, .threadStart 1]).map
      (fun s => (s.borrowers, s.waitq, s.th 1, s.fut 1, (step s (.tokenGranted 2)).isSome)) =
    some ([1], [2, 3], Th.running, Fut.pending, false) := by decide

/-- three calls on a 2-token limiter finishing out of order: 2 finishes and returns before 1,
its token goes to 3, which reuses the worker of 2 -/
example :
    (runFrom step (init 2)
      [.call 1 false false, .call 2 false false, .call 3 false false, .tokenGranted 1,
       .tokenGranted 2, .dispatch 1, .dispatch 2, .threadStart 1, .threadStart 2,
       .threadFinish 2 (.val 20), .report 2, .resume 2, .tokenGranted 3, .dispatch 3,
       .threadStart 3, .threadFinish 1 (.exc 10), .report 1, .resume 1]).map
      (fun s => (s.borrowers, s.waitq, s.got 1, s.got 2, s.th 3, s.worker 3, s.idle,
        s.nworkers)) =
    some ([3], [], some (.outcome (.exc 10)), some (.outcome (.val 20)), Th.running, 1, [0], 2) :=
  by decide

/-- an `abandon_on_cancel` call cancelled while its function runs: the caller leaves with the
cancellation and gives its token back, the function finishes later and its worker becomes idle -/
example :
    (traceFrom step (init 1)
      [.call 1 true false, .tokenGranted 1, .dispatch 1, .threadStart 1, .callerCancelled 1,
       .resume 1, .threadFinish 1 (.val 7), .report 1]).map
      (fun r => (r.2, r.1.borrowers, r.1.pc 1, r.1.got 1, r.1.fut 1, r.1.th 1, r.1.outcome 1,
        r.1.idle)) =
    some ([.susp, .env, .susp, .env, .env, .cancelled, .env, .env], [], Pc.returned,
      some .cancelled, Fut.cancelled, Th.over, some (.val 7), [0]) := by decide

/-- a call without `abandon_on_cancel` cancelled while its function runs stays suspended, then
returns the function's value with `pendingCancel = true` -/
example :
    (traceFrom step (init 1)
      [.call 1 false false, .tokenGranted 1, .dispatch 1, .threadStart 1, .callerCancelled 1,
       .deliver 1, .threadFinish 1 (.val 5), .report 1, .resume 1]).map
      (fun r => (r.2, r.1.borrowers, r.1.got 1, r.1.cancelReq 1)) =
    some ([.susp, .env, .susp, .env, .env, .env, .env, .env, .ret (.val 5) true], [],
      some (.outcome (.val 5)), true) := by decide

/-- the same call is still awaiting right after the cancellation -/
example :
    (runFrom step (init 1)
      [.call 1 false false, .tokenGranted 1, .dispatch 1, .threadStart 1, .callerCancelled 1,
       .deliver 1]).map
      (fun s => (s.pc 1, s.th 1, s.fut 1, s.cancelReq 1, (step s (.resume 1)).isSome)) =
    some (Pc.awaiting, Th.running, Fut.pending, true, false) := by decide

/-- LIFO reuse of workers: workers 0 and 1 report in this order, the next dispatch takes 1
(the most recently idle one) and leaves 0 in the deque; no third thread is created -/
example :
    (runFrom step (init 3)
      [.call 1 false false, .call 2 false false, .call 3 false false, .tokenGranted 1,
       .tokenGranted 2, .tokenGranted 3, .dispatch 1, .dispatch 2, .threadStart 1,
       .threadStart 2, .threadFinish 1 (.val 1), .threadFinish 2 (.val 2), .report 1,
       .report 2, .dispatch 3]).map
      (fun s => (s.worker 1, s.worker 2, s.worker 3, s.idle, s.busy 1, s.nworkers)) =
    some (0, 1, 1, [0], some 3, 2) := by decide

/-- an `abandon_on_cancel` call cancelled while its job is still queued: the worker skips the
function and does not come back to the idle deque -/
example :
    (runFrom step (init 1)
      [.call 1 true false, .tokenGranted 1, .dispatch 1, .callerCancelled 1, .threadSkip 1,
       .resume 1]).map
      (fun s => (s.borrowers, s.got 1, s.th 1, s.outcome 1, s.idle, s.lost, s.busy 0)) =
    some ([], some .cancelled, Th.over, none, [], [0], none) := by decide

/-- a call entered with an already cancelled scope, and one cancelled while waiting for a
token, raise without ever holding a token or a worker -/
example :
    (traceFrom step (init 1)
      [.call 1 false false, .tokenGranted 1, .call 2 false true, .call 3 true false,
       .callerCancelled 3, .resume 2, .resume 3]).map
      (fun r => (r.2, r.1.borrowers, r.1.waitq, r.1.got 2, r.1.got 3, r.1.th 3, r.1.nworkers)) =
    some ([.susp, .env, .susp, .susp, .env, .cancelled, .cancelled], [1], [], some .cancelled,
      some .cancelled, Th.idle, 0) := by decide

/-- `check_cancelled`: a cancelled scope outside a plain one raises, outside a shield does not -/
example : checkCancelled [(false, false), (true, false)] = true ∧
    checkCancelled [(false, true), (true, false)] = false ∧
    checkCancelled [(true, true)] = true := by decide

end AnyioModel.Thread.Worker
