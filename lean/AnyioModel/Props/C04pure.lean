/-
C04  Cancellation containment — the pure-function part.

Statements about the model's functions for ALL states and arguments (no reachability):
`_effectively_cancelled` and `_parent_cancellation_is_visible_to_us` against their declarative
readings, and `CancelScope.__exit__`: which exceptions it absorbs, when `cancelled_caught` is
set, what passes through, and what it leaves behind.  Helper lemmas: `Kernel/PureProofs.lean`.
-/
import AnyioModel.Kernel.PureProofs

namespace AnyioModel.Kernel

/-! ### 1. `_effectively_cancelled` -/

/-- The walk of `_effectively_cancelled` along a chain (nearest scope first) is true exactly
when some scope of the chain has been cancelled and every scope before it is neither cancelled
nor shielded: "this scope or an ancestor reachable without crossing a shielded scope has been
cancelled". -/
theorem C04_effectively_cancelled_iff (st : State) (l : List Nat) :
    effCancelledList st l = true ↔
      ∃ i, ∃ h : i < l.length, (st.scopes l[i]).cancelCalled = true ∧
        ∀ j (hj : j < i), (st.scopes (l[j]'(Nat.lt_trans hj h))).cancelCalled = false ∧
          (st.scopes (l[j]'(Nat.lt_trans hj h))).shield = false :=
  effCancelledList_iff st l

/-- the same for a scope, whose chain was fixed at `__enter__` (a scope never entered is its own
chain) -/
theorem C04_effCancelled_iff (st : State) (s : Nat) :
    effCancelled st s = true ↔
      ∃ l, l = (if (st.scopes s).chain = [] then [s] else (st.scopes s).chain) ∧
      ∃ i, ∃ h : i < l.length, (st.scopes l[i]).cancelCalled = true ∧
        ∀ j (hj : j < i), (st.scopes (l[j]'(Nat.lt_trans hj h))).cancelCalled = false ∧
          (st.scopes (l[j]'(Nat.lt_trans hj h))).shield = false := by
  unfold effCancelled
  rw [effCancelledList_iff]
  constructor
  · intro h; exact ⟨_, rfl, h⟩
  · rintro ⟨l, rfl, h⟩; exact h

/-- A shielded scope that has not itself been cancelled is not effectively cancelled, whatever
its ancestors are. -/
theorem C04_shield_blocks (st : State) (s : Nat) (rest : List Nat)
    (hc : (st.scopes s).cancelCalled = false) (hs : (st.scopes s).shield = true) :
    effCancelledList st (s :: rest) = false := by
  simp [effCancelledList, hc, hs]

/-- Cancelling any scope of the chain that is reachable without crossing a shield makes the
head effectively cancelled. -/
theorem C04_cancel_reachable (st : State) (l : List Nat) (i : Nat) (h : i < l.length)
    (hc : (st.scopes l[i]).cancelCalled = true)
    (hsh : ∀ j (hj : j < i), (st.scopes (l[j]'(Nat.lt_trans hj h))).shield = false) :
    effCancelledList st l = true := by
  induction l generalizing i with
  | nil => simp at h
  | cons s rest ih =>
    unfold effCancelledList
    by_cases hcs : (st.scopes s).cancelCalled = true
    · simp [hcs]
    · cases i with
      | zero => exact absurd (by simpa using hc) hcs
      | succ i =>
        have h0 : (st.scopes s).shield = false := by simpa using hsh 0 (by omega)
        simp only [hcs, h0, Bool.false_eq_true, if_false]
        exact ih i (by simpa using h) (by simpa using hc)
          (fun j hj => by simpa using hsh (j + 1) (by omega))

/-- Not effectively cancelled means: walking up to the first shield (inclusive), nobody has been
cancelled. -/
theorem C04_not_effectively_cancelled_iff (st : State) (l : List Nat) :
    effCancelledList st l = false ↔
      ∀ i (h : i < l.length),
        (∀ j (hj : j < i), (st.scopes (l[j]'(Nat.lt_trans hj h))).shield = false) →
        (st.scopes l[i]).cancelCalled = false := by
  constructor
  · intro hf i h hsh
    cases hc : (st.scopes l[i]).cancelCalled with
    | false => rfl
    | true => rw [C04_cancel_reachable st l i h hc hsh] at hf; cases hf
  · intro hall
    cases he : effCancelledList st l with
    | false => rfl
    | true =>
      obtain ⟨i, h, hc, hb⟩ := (effCancelledList_iff st l).1 he
      rw [hall i h (fun j hj => (hb j hj).2)] at hc; cases hc

/-- Monotone in `cancelCalled`: with the same shields, more cancelled scopes can only make more
scopes effectively cancelled. -/
theorem C04_mono_cancelCalled (st st' : State) (l : List Nat)
    (hsh : ∀ i, (st'.scopes i).shield = (st.scopes i).shield)
    (hcc : ∀ i, (st.scopes i).cancelCalled = true → (st'.scopes i).cancelCalled = true)
    (h : effCancelledList st l = true) : effCancelledList st' l = true := by
  obtain ⟨i, hi, hc, hb⟩ := (effCancelledList_iff st l).1 h
  exact C04_cancel_reachable st' l i hi (hcc _ hc) (fun j hj => by rw [hsh]; exact (hb j hj).2)

/-! ### 2. `_parent_cancellation_is_visible_to_us` -/

theorem C04_parent_visible_iff (st : State) (s : Nat) :
    parentVisible st s = true ↔
      ∃ p, (st.scopes s).parent = some p ∧ (st.scopes s).shield = false ∧
        effCancelled st p = true := by
  unfold parentVisible
  cases hp : (st.scopes s).parent with
  | none => simp
  | some p => simp

/-! ### 3. `__exit__`: absorb or propagate -/

/-- `__exit__` raises its RuntimeErrors exactly when the scope is not active, is hosted by another
task, or is not the task's current scope; otherwise it always completes. -/
theorem C04_exit_enabled_iff (st : State) (t s : Nat) (ev : ExcVal) :
    exitScope st t s ev = none ↔
      ((st.scopes s).active = false ∨ (st.scopes s).host ≠ some t ∨
        (st.tasks t).hasState = false ∨ (st.tasks t).scope ≠ some s) := by
  have hg : exitGuard st t s ↔ ((st.scopes s).active = false ∨ (st.scopes s).host ≠ some t ∨
      (st.tasks t).hasState = false ∨ (st.tasks t).scope ≠ some s) := by
    simp [exitGuard]
  rw [← hg]
  constructor
  · intro h
    by_cases hg' : exitGuard st t s
    · exact hg'
    · obtain ⟨st', he⟩ := exitScope_enabled ev hg'
      rw [he] at h; cases h
  · intro h; rw [exitScope_split, if_pos h]

/-- DFrame: `__exit__` (including `_restart_cancellation_in_parent`) changes neither the
`cancelCalled` / `shield` flags nor the `parent` / `chain` pointers nor the deadline of any
scope; hence `effCancelled` and `parentVisible` of every scope are the same before and after. -/
theorem C04_exit_frame {st st' : State} {t s : Nat} {ev : ExcVal} {r : ExitResult}
    (h : exitScope st t s ev = some (st', r)) (i : Nat) :
    (st'.scopes i).cancelCalled = (st.scopes i).cancelCalled ∧
    (st'.scopes i).shield = (st.scopes i).shield ∧
    (st'.scopes i).parent = (st.scopes i).parent ∧
    (st'.scopes i).chain = (st.scopes i).chain ∧
    (st'.scopes i).deadline = (st.scopes i).deadline ∧
    effCancelled st' i = effCancelled st i ∧
    parentVisible st' i = parentVisible st i := by
  have hn := exitScope_sameNav h
  exact ⟨nav_cancelCalled (hn i), nav_shield (hn i), nav_parent (hn i), nav_chain (hn i),
    nav_deadline (hn i), effCancelled_congr hn i, parentVisible_congr hn i⟩

/-- `__exit__` returns True (the exception is swallowed) iff the scope was itself cancelled, no
cancelled enclosing scope is visible to it, and the exception is an AnyIO cancellation or a
non-empty group made only of AnyIO cancellations.  `cc` and `vis` are read in the PRE-state. -/
theorem C04_exit_swallowed_iff {st st' : State} {t s : Nat} {ev : ExcVal} {r : ExitResult}
    (h : exitScope st t s ev = some (st', r)) :
    r = .swallowed ↔
      (st.scopes s).cancelCalled = true ∧ parentVisible st s = false ∧
        (ev = .one .cancelAnyio ∨
          ∃ es, ev = .group es ∧ es ≠ [] ∧ ∀ e ∈ es, e = .cancelAnyio) := by
  obtain ⟨_, rfl, _⟩ := exitScope_class h
  exact exitClass_swallowed_iff _ _ _

/-- `__exit__` raises a new group `rest` iff the scope was itself cancelled, no cancelled
enclosing scope is visible, and the incoming group contains an AnyIO cancellation and something
else; `rest` is then exactly the non-AnyIO-cancellation leaves, in order. -/
theorem C04_exit_raised_iff {st st' : State} {t s : Nat} {ev : ExcVal} {r : ExitResult}
    (h : exitScope st t s ev = some (st', r)) (rest : List Exc) :
    r = .raised rest ↔
      (st.scopes s).cancelCalled = true ∧ parentVisible st s = false ∧
        ∃ es, ev = .group es ∧ (∃ e ∈ es, e = .cancelAnyio) ∧
          rest = es.filter (· ≠ .cancelAnyio) ∧ rest ≠ [] := by
  obtain ⟨_, rfl, _⟩ := exitScope_class h
  exact exitClass_raised_iff _ _ _ _

/-- ... and otherwise the exception (if any) continues unchanged: exactly when the scope was not
cancelled, or a cancelled enclosing scope is visible, or there is no AnyIO cancellation among
the leaves. -/
theorem C04_exit_passed_iff {st st' : State} {t s : Nat} {ev : ExcVal} {r : ExitResult}
    (h : exitScope st t s ev = some (st', r)) :
    r = .passed ↔
      (st.scopes s).cancelCalled = false ∨ parentVisible st s = true ∨
        Exc.cancelAnyio ∉ ev.leaves := by
  obtain ⟨_, rfl, _⟩ := exitScope_class h
  exact exitClass_passed_iff _ _ _

/-- The three outcomes in one statement: an exit absorbs (swallows, or strips the cancellations
off a group) iff the scope was itself cancelled, no cancelled enclosing scope is visible to it,
and an AnyIO cancellation is among the leaves. -/
theorem C04_exit_absorbs_iff {st st' : State} {t s : Nat} {ev : ExcVal} {r : ExitResult}
    (h : exitScope st t s ev = some (st', r)) :
    (r = .swallowed ∨ ∃ rest, r = .raised rest) ↔
      (st.scopes s).cancelCalled = true ∧ parentVisible st s = false ∧
        Exc.cancelAnyio ∈ ev.leaves := by
  have hp := C04_exit_passed_iff h
  have : (r = .swallowed ∨ ∃ rest, r = .raised rest) ↔ ¬ r = .passed := by
    cases r <;> simp
  rw [this, hp]
  cases (st.scopes s).cancelCalled <;> cases parentVisible st s <;> simp

/-- `cancelled_caught` is set exactly by an absorbing exit (and is never reset). -/
theorem C04_caught_iff {st st' : State} {t s : Nat} {ev : ExcVal} {r : ExitResult}
    (h : exitScope st t s ev = some (st', r)) :
    (st'.scopes s).caught = true ↔
      (st.scopes s).caught = true ∨ r = .swallowed ∨ ∃ rest, r = .raised rest := by
  obtain ⟨_, _, hs⟩ := exitScope_class h
  rw [hs.caught, walk_caught (exitMid_sameWalk st t s s)]
  cases r <;> simp

/-- ... and `cancelled_caught` of every other scope is untouched. -/
theorem C04_caught_other {st st' : State} {t s : Nat} {ev : ExcVal} {r : ExitResult}
    (h : exitScope st t s ev = some (st', r)) (i : Nat) (hi : i ≠ s) :
    (st'.scopes i).caught = (st.scopes i).caught := by
  obtain ⟨_, _, hs⟩ := exitScope_class h
  rw [hs.frame.caughtOther i hi, walk_caught (exitMid_sameWalk st t s i)]

/-- Exceptions other than AnyIO cancellations (native cancellation, errors) always pass
through, and so does "no exception". -/
theorem C04_passthrough {st st' : State} {t s : Nat} {e : Exc} {r : ExitResult}
    (h : exitScope st t s (.one e) = some (st', r)) (he : e ≠ .cancelAnyio) : r = .passed := by
  obtain ⟨_, rfl, _⟩ := exitScope_class h
  exact exitClass_one_ne _ _ he

theorem C04_passthrough_none {st st' : State} {t s : Nat} {r : ExitResult}
    (h : exitScope st t s .none = some (st', r)) : r = .passed := by
  obtain ⟨_, rfl, _⟩ := exitScope_class h
  exact exitClass_none _ _

/-- For any incoming exception (single or group), what leaves `__exit__` has exactly the same
non-AnyIO-cancellation leaves, in the same order: nothing else is ever dropped. -/
theorem C04_passthrough_leaves {st st' : State} {t s : Nat} {ev : ExcVal} {r : ExitResult}
    (h : exitScope st t s ev = some (st', r)) :
    (exitToOut ev r).leaves.filter (· ≠ .cancelAnyio) = ev.leaves.filter (· ≠ .cancelAnyio) := by
  obtain ⟨_, rfl, _⟩ := exitScope_class h
  exact exitClass_leaves _ _ _

/-- ... and whatever AnyIO cancellation is not absorbed is still there: the outgoing exception is
either the incoming one, or nothing, or the incoming group without its AnyIO cancellations. -/
theorem C04_exit_out_cases {st st' : State} {t s : Nat} {ev : ExcVal} {r : ExitResult}
    (h : exitScope st t s ev = some (st', r)) :
    exitToOut ev r = ev ∨ exitToOut ev r = .none ∨
      ∃ es, ev = .group es ∧ exitToOut ev r = .group (es.filter (· ≠ .cancelAnyio)) := by
  cases r with
  | passed => exact Or.inl rfl
  | swallowed => exact Or.inr (Or.inl rfl)
  | raised rest =>
    obtain ⟨_, _, es, rfl, _, rfl, _⟩ := (C04_exit_raised_iff h rest).1 rfl
    exact Or.inr (Or.inr ⟨es, rfl, rfl⟩)

/-! ### 4. what `__exit__` leaves behind (also used by C05) -/

/-- After `__exit__`: the task's current scope is the parent again, the scope is inactive, has no
host and no live timeout handle. -/
theorem C04_exit_restores_pointer {st st' : State} {t s : Nat} {ev : ExcVal} {r : ExitResult}
    (h : exitScope st t s ev = some (st', r)) :
    (st'.tasks t).scope = (st.scopes s).parent ∧
    (st'.scopes s).active = false ∧
    (st'.scopes s).host = none ∧
    (st'.scopes s).timer = false := by
  obtain ⟨_, _, hs⟩ := exitScope_class h
  have hf := exitMid_frame st t s
  refine ⟨?_, ?_, hs.host, ?_⟩
  · rw [hs.frame.taskScope, hf.taskScope, (exitUnlink_task st t s).1]
  · rw [keep_active (hs.frame.keep s), ctl_active (hf.scopes s), (exitUnlink_scope st t s).1]
  · rw [keep_timer (hs.frame.keep s), ctl_timer (hf.scopes s), (exitUnlink_scope st t s).2]

/-- The scope tree after `__exit__` (C05's pointer facts): the scope is no longer a child of its
parent, the host task is back among the parent's tasks and no longer among the scope's own, and no
other scope's `tasks` / `children` change. -/
theorem C04_exit_relinks {st st' : State} {t s : Nat} {ev : ExcVal} {r : ExitResult}
    (h : exitScope st t s ev = some (st', r)) :
    (∀ p, (st.scopes s).parent = some p → p ≠ s →
      (st'.scopes p).children = (st.scopes p).children.erase s ∧
      (st'.scopes p).tasks = t :: (st.scopes p).tasks) ∧
    ((st.scopes s).parent ≠ some s →
      (st'.scopes s).tasks = (st.scopes s).tasks.erase t ∧
      (st'.scopes s).children = (st.scopes s).children) ∧
    (∀ i, i ≠ s → (st.scopes s).parent ≠ some i →
      (st'.scopes i).tasks = (st.scopes i).tasks ∧
      (st'.scopes i).children = (st.scopes i).children) := by
  obtain ⟨l1, l2, l3⟩ := exitUnlink_links st t s
  refine ⟨fun p hp hne => ?_, fun hne => ?_, fun i hi hne => ?_⟩
  · rw [(exitScope_links h p).1, (exitScope_links h p).2]; exact (l1 p hp hne)
  · rw [(exitScope_links h s).1, (exitScope_links h s).2]; exact l2 hne
  · rw [(exitScope_links h i).1, (exitScope_links h i).2]; exact l3 i hi hne

/-- The loop's queues after `__exit__`, exactly: if the scope's `timer` flag was set, *every*
`timeout s` handle is removed from the timers, the current batch and the ready queue
(`unschedule` removes every occurrence); nothing else is removed; the clock is unchanged; and the
ready queue grows only by non-`timeout` handles (`deliver` / `wakeup` scheduled by
`_restart_cancellation_in_parent`). -/
theorem C04_exit_queues {st st' : State} {t s : Nat} {ev : ExcVal} {r : ExitResult}
    (h : exitScope st t s ev = some (st', r)) :
    st'.now = st.now ∧
    st'.timers =
      (if (st.scopes s).timer then st.timers.filter (·.2 ≠ .timeout s) else st.timers) ∧
    st'.cur = (if (st.scopes s).timer then st.cur.filter (· ≠ .timeout s) else st.cur) ∧
    ∃ extra, st'.ready =
        (if (st.scopes s).timer then st.ready.filter (· ≠ .timeout s) else st.ready) ++ extra ∧
      ∀ h ∈ extra, ∀ s', h ≠ Handle.timeout s' :=
  exitScope_queues h

/-- No `timeout s` handle survives `__exit__`, provided every such handle was recorded by the
scope's `timer` flag (`_timeout_handle`), which is the only way the code creates them. -/
theorem C04_exit_no_timer_left {st st' : State} {t s : Nat} {ev : ExcVal} {r : ExitResult}
    (h : exitScope st t s ev = some (st', r))
    (hrec : (st.scopes s).timer = false → NoTimeout st s) : NoTimeout st' s :=
  exitScope_noTimeout h hrec

/-- Timers of other scopes are never touched by `__exit__`. -/
theorem C04_exit_other_timers {st st' : State} {t s : Nat} {ev : ExcVal} {r : ExitResult}
    (h : exitScope st t s ev = some (st', r)) (d s' : Nat) (hs : s' ≠ s) :
    (d, Handle.timeout s') ∈ st'.timers ↔ (d, Handle.timeout s') ∈ st.timers := by
  obtain ⟨_, q, _⟩ := exitScope_queues h
  rw [q]
  split
  · simp [hs]
  · rfl

/-! ### non-vacuity -/

section Examples

/-- scopes 2 ⊂ 1 ⊂ 0 (chain of 2 is `[2, 1, 0]`), scope 0 cancelled -/
def exA : State :=
  { ({} : State) with
    scopes := fun i =>
      if i = 0 then { cancelCalled := true, chain := [0] }
      else if i = 1 then { parent := some 0, chain := [1, 0] }
      else if i = 2 then { parent := some 1, chain := [2, 1, 0] }
      else {} }

/-- the same with scope 1 shielded -/
def exB : State :=
  { ({} : State) with
    scopes := fun i =>
      if i = 0 then { cancelCalled := true, chain := [0] }
      else if i = 1 then { parent := some 0, chain := [1, 0], shield := true }
      else if i = 2 then { parent := some 1, chain := [2, 1, 0] }
      else {} }

example : effCancelled exA 2 = true := by decide
example : effCancelled exB 2 = false := by decide
example : effCancelled exB 0 = true := by decide
example : parentVisible exA 2 = true := by decide
example : parentVisible exB 2 = false := by decide
example : parentVisible exB 1 = false := by decide

/-- task 0 inside scope 1 (cancelled, active, timer armed) whose parent 0 is not cancelled -/
def exC : State :=
  { ({} : State) with
    running := some 0
    timers := [(5, .timeout 1), (7, .timeout 0)]
    tasks := fun i => if i = 0 then { st := .running, hasState := true, scope := some 1 } else {}
    scopes := fun i =>
      if i = 0 then { active := true, host := some 0, chain := [0], children := [1] }
      else if i = 1 then
        { active := true, host := some 0, parent := some 0, chain := [1, 0], tasks := [0],
          cancelCalled := true, timer := true, deadline := some 5 }
      else {} }

/-- the same with the parent cancelled as well (visible to scope 1) -/
def exD : State :=
  { exC with
    scopes := fun i =>
      if i = 0 then
        { active := true, host := some 0, chain := [0], children := [1], cancelCalled := true,
          deliver := true }
      else exC.scopes i }

-- own cancellation: swallowed, `caught` set, pointer restored, timer gone
example : (exitScope exC 0 1 (.one .cancelAnyio)).map (·.2) = some .swallowed := by decide
example : (exitScope exC 0 1 (.one .cancelAnyio)).map (fun p => (p.1.scopes 1).caught) =
    some true := by decide
example : (exitScope exC 0 1 (.one .cancelAnyio)).map (fun p => (p.1.tasks 0).scope) =
    some (some 0) := by decide
example : (exitScope exC 0 1 (.one .cancelAnyio)).map (fun p => p.1.timers) =
    some [(7, .timeout 0)] := by decide
example : (exitScope exC 0 1 (.one .cancelAnyio)).map
    (fun p => ((p.1.scopes 0).children, (p.1.scopes 0).tasks, (p.1.scopes 1).tasks)) =
    some ([], [0], []) := by decide
-- group: cancellations stripped, the rest re-raised in order
example : (exitScope exC 0 1 (.group [.err 1, .cancelAnyio, .cancelNative])).map (·.2) =
    some (.raised [.err 1, .cancelNative]) := by decide
example : (exitScope exC 0 1 (.group [.cancelAnyio, .cancelAnyio])).map (·.2) =
    some .swallowed := by decide
-- native cancellation and errors pass, `caught` stays false
example : (exitScope exC 0 1 (.one .cancelNative)).map (·.2) = some .passed := by decide
example : (exitScope exC 0 1 (.one (.err 3))).map (fun p => (p.2, (p.1.scopes 1).caught)) =
    some (.passed, false) := by decide
-- a cancelled parent is visible: the cancellation propagates
example : (exitScope exD 0 1 (.one .cancelAnyio)).map (fun p => (p.2, (p.1.scopes 1).caught)) =
    some (.passed, false) := by decide
-- RuntimeError cases
example : exitScope exC 0 0 .none = none := by
  rw [C04_exit_enabled_iff]; right; right; right; decide
example : NoTimeout exC 0 → False := fun h => h.1 7 (by decide)

end Examples

end AnyioModel.Kernel
