/-
C17  TLS streams: faithful transport over any fragmentation, truncation detected  (PARTIAL:
the pump loop of `TLSStream` against an abstract record engine; OpenSSL is an assumption).

Property theorems only; the model is `AnyioModel.Stream.Tls` (one endpoint: pump loop
`_call_sslobject_method`, memory BIOs, abstract record engine, transport as environment), codec
facts are in `TlsCodec`, engine facts in `TlsEngine`, the invariant in `TlsProofs`.  Every
statement quantifies over all reachable states, i.e. over all finite event lists: any message
sizes, any record sizes chosen by the engine, any receive sizes, any fragmentation or
coalescing of the ciphertext (`deliver k`), bytes arriving while a call is blocked or not, the
transport ending at any byte (`endTransport` / `cut` after any `peerFlush`), writes interleaved
with a blocked read (both directions at once), both values of `standard_compatible`, client and
server role.
-/
import AnyioModel.Stream.TlsProofs

namespace AnyioModel.Stream.Tls

theorem C17_invariant {s : State} (h : Reach s) : Inv s := by
  refine Reachable.invariant Inv ?_ ?_ s h
  · rintro s ⟨sc, server, rfl⟩; exact inv_init sc server
  · intro s e s' o hi hs; exact inv_step hi hs

/-- Pending output is flushed before every transport read: no transport read ever started with
bytes left in the outgoing BIO, and whenever a call is blocked in `transport_stream.receive()`
(or the stream is idle and healthy) the outgoing BIO is empty: everything the SSL object
produced, handshake flights included, is on the wire. -/
theorem C17_output_flushed {s : State} (h : Reach s) :
    s.readsWithPending = 0 ∧ (s.bioEof = false → s.e.outBio = []) ∧
      (∀ c, s.pc = .blocked c → s.e.outBio = []) := by
  have hi := C17_invariant h
  refine ⟨hi.noPending, hi.flushed, ?_⟩
  intro c hc
  apply hi.flushed
  cases hb : s.bioEof with
  | false => rfl
  | true =>
    have := hi.eofBio hb
    rw [(hi.blockedOk c hc).1] at this
    contradiction

theorem read_len {e : Engine} {n : Nat} {d : Bytes} (h : (e.read n).2 = .ok d) : d.length ≤ n := by
  unfold Engine.read at h
  split at h
  · simp only [SslRes.ok.injEq] at h; subst h; simp [List.length_take]; omega
  · split at h
    · simp only [SslRes.ok.injEq] at h; subst h; simp
    · split at h
      · simp only [SslRes.ok.injEq] at h; subst h; simp [List.length_take]; omega
      · simp only [SslRes.ok.injEq] at h; subst h; simp
      · simp at h
      · simp only [starve] at h; split at h <;> simp at h

/-- a zero-length read with n >= 1 means close_notify has been received and nothing is buffered -/
theorem read_ok_nil {e : Engine} {n : Nat} (hn : 1 ≤ n) (h : (e.read n).2 = .ok []) :
    (e.read n).1.gotCN = true ∧ (e.read n).1.plain = [] := by
  unfold Engine.read at h ⊢
  split
  · rename_i hp
    rw [if_pos hp] at h
    simp only [SslRes.ok.injEq, List.take_eq_nil_iff] at h
    rcases h with h | h
    · omega
    · exact absurd h hp
  · rename_i hp
    have hp' : e.plain = [] := by simpa using hp
    rw [if_neg hp] at h
    split
    · rename_i hg; exact ⟨hg, hp'⟩
    · rename_i hg
      rw [if_neg hg] at h
      split
      · rename_i p rest hparse
        rw [hparse] at h
        obtain ⟨_, hv⟩ := parse_sound hparse
        simp only [SslRes.ok.injEq, List.take_eq_nil_iff] at h
        rcases h with h | h
        · omega
        · exact absurd h hv
      · simp [hp']
      · rename_i hparse; rw [hparse] at h; simp at h
      · rename_i hparse; rw [hparse] at h; simp only [starve] at h; split at h <;> simp at h

/-- `receive(max_bytes)` returns between 1 and `max_bytes` bytes, and exactly those bytes are
appended to what the stream has delivered -/
theorem C17_receive_bounded {s s' : State} {ev : Ev} {d : Bytes} (h : Reach s)
    (hs : step s ev = some (s', .retData d)) :
    ∃ n, (ev = .call (.read n) ∨ s.pc = .blocked (.read n)) ∧ 1 ≤ d.length ∧ d.length ≤ n ∧
      s'.delivered = s.delivered ++ d := by
  have key : ∀ (s0 : State) (c : Call), pump s0 c = (s', .retData d) →
      ∃ n, c = .read n ∧ 1 ≤ d.length ∧ d.length ≤ n ∧ s'.delivered = s0.delivered ++ d := by
    intro s0 c hp
    simp only [pump] at hp
    split at hp
    · rename_i d0 hr
      split at hp
      · rename_i n
        split at hp
        · simp at hp
        · rename_i hne
          simp only [Prod.mk.injEq, Out.retData.injEq] at hp
          obtain ⟨hs', hd⟩ := hp
          subst hd
          refine ⟨n, rfl, ?_, read_len hr, by simp [← hs', flush]⟩
          cases d0 with
          | nil => exact absurd rfl hne
          | cons a t => simp
      · simp at hp
    · simp at hp
    · simp only [Prod.mk.injEq] at hp; obtain ⟨_, hp⟩ := hp; split at hp <;> simp at hp
    · simp at hp
  cases ev with
  | call c =>
    simp only [step] at hs
    split at hs
    · contradiction
    · split at hs
      · obtain ⟨n, hc, _⟩ := key s _ (Option.some.inj hs); simp at hc
      · split at hs <;> simp at hs
      · split at hs
        · obtain ⟨n, hc, h1, h2, h3⟩ := key s _ (Option.some.inj hs)
          exact ⟨n, Or.inl (by rw [hc]), h1, h2, h3⟩
        · contradiction
  | write item sizes => simp only [step] at hs; split at hs <;> simp at hs
  | peerFlush b => simp only [step] at hs; split at hs <;> simp at hs
  | endTransport => simp only [step] at hs; split at hs <;> simp at hs
  | cut => simp only [step] at hs; split at hs <;> simp at hs
  | deliver k =>
    simp only [step] at hs
    split at hs
    · contradiction
    · rename_i c hpc
      split at hs
      · contradiction
      · obtain ⟨n, hc, h1, h2, h3⟩ := key _ _ (Option.some.inj hs)
        exact ⟨n, Or.inr (by rw [hpc, hc]), h1, h2, by simpa using h3⟩
  | eofDeliver =>
    simp only [step] at hs
    split at hs
    · contradiction
    · rename_i c hpc
      split at hs
      · obtain ⟨n, hc, h1, h2, h3⟩ := key _ _ (Option.some.inj hs)
        exact ⟨n, Or.inr (by rw [hpc, hc]), h1, h2, by simpa using h3⟩
      · contradiction

/-- Receiver: whatever the fragmentation, the ciphertext that arrived is the encoding of the
records consumed so far followed by the unconsumed rest, and the bytes handed out by `receive`
(plus the buffered rest of the last record) are exactly the application data of those records,
in order. -/
theorem C17_faithful_receive {s : State} (h : Reach s) :
    ∃ recs, s.arrived = encodeAll recs ++ s.e.inBio ∧ (∀ x ∈ recs, ValidRec x) ∧
      s.delivered ++ s.e.plain = dataOf recs ∧
      (s.e.gotCN = true → ∃ pre, recs = pre ++ [.closeNotify]) :=
  (C17_invariant h).parsed

/-- Sender: everything handed to the transport is the encoding of valid records whose
application data is exactly the bytes accepted by `send`, in order (whatever record sizes the
engine picks). -/
theorem C17_faithful_send {s : State} (h : Reach s) (hb : s.bioEof = false) :
    ∃ recs, s.wireOut = encodeAll recs ∧ (∀ x ∈ recs, ValidRec x) ∧ dataOf recs = s.sentPlain := by
  have hi := C17_invariant h
  have := hi.sent
  rw [hi.flushed hb, List.append_nil] at this
  exact this

/-- End to end: if what arrived at the receiver `r` is a prefix of what the sender `p` put on
the wire (a transport that re-chunks at will and may be cut anywhere, but neither reorders nor
invents bytes), then the bytes received are a prefix of the bytes sent (in order, nothing
duplicated or invented); and once the whole wire content has arrived and been consumed, they
are equal. -/
theorem C17_end_to_end {r p : State} (hr : Reach r) (hp : Reach p) (hb : p.bioEof = false)
    (hw : r.arrived <+: p.wireOut) :
    r.delivered <+: p.sentPlain ∧
      (r.arrived = p.wireOut → r.e.inBio = [] → r.e.plain = [] → r.delivered = p.sentPlain) := by
  obtain ⟨recs, h1, h2, h3, _⟩ := C17_faithful_receive hr
  obtain ⟨S, g1, g2, g3⟩ := C17_faithful_send hp hb
  obtain ⟨z, hz⟩ := hw
  have heq : encodeAll recs ++ (r.e.inBio ++ z) = encodeAll S := by
    rw [← g1, ← hz, h1, List.append_assoc]
  obtain ⟨S', hS, hrest⟩ := encodeAll_unique recs S _ h2 g2 heq
  have hsp : p.sentPlain = r.delivered ++ (r.e.plain ++ dataOf S') := by
    rw [← g3, hS, dataOf_append, ← h3, List.append_assoc]
  refine ⟨⟨_, hsp.symm⟩, ?_⟩
  intro hall hin hpl
  have hz0 : z = [] := by
    have := congrArg List.length hz
    rw [hall] at this
    simpa using this
  have hS' : S' = [] := by
    cases S' with
    | nil => rfl
    | cons x xs =>
      rw [hin, hz0] at hrest
      simp only [List.append_nil, encodeAll] at hrest
      have := encode_ne_nil x
      cases hx : encode x with
      | nil => exact absurd hx this
      | cons a as => rw [hx] at hrest; simp at hrest
  rw [hsp, hpl, hS']
  simp [dataOf]

/-- helper: how the pump loop can end with EndOfStream -/
theorem pump_eos {s0 s' : State} {c : Call} (hp : pump s0 c = (s', .eos)) (hsc : s0.sc = true)
    (hn : ∀ n, c = .read n → 1 ≤ n) : s'.e.gotCN = true ∧ s'.e.plain = [] := by
  simp only [pump] at hp
  split at hp
  · rename_i d0 hr
    split at hp
    · rename_i n
      split at hp
      · rename_i hd
        subst hd
        simp only [Prod.mk.injEq, and_true] at hp
        have := read_ok_nil (hn n rfl) hr
        simp only [runOp] at hp
        rw [← hp]
        simpa [flush] using this
      · simp at hp
    · simp at hp
  · simp at hp
  · simp only [Prod.mk.injEq] at hp; obtain ⟨_, hp⟩ := hp; simp [hsc] at hp
  · simp at hp

/-- Clean close: with `standard_compatible`, EndOfStream is raised only after the peer's
close_notify record has been consumed, it is the last record consumed, and every byte of the
application data before it has been delivered. -/
theorem C17_clean_close_eos {s s' : State} {ev : Ev} (h : Reach s) (hsc : s.sc = true)
    (hs : step s ev = some (s', .eos)) :
    s'.e.gotCN = true ∧
      ∃ pre, s'.arrived = encodeAll (pre ++ [.closeNotify]) ++ s'.e.inBio ∧
        s'.delivered = dataOf pre := by
  have hi := C17_invariant h
  have hi' := C17_invariant (Reachable.next h hs)
  have fin : s'.e.gotCN = true ∧ s'.e.plain = [] →
      s'.e.gotCN = true ∧ ∃ pre, s'.arrived = encodeAll (pre ++ [.closeNotify]) ++ s'.e.inBio ∧
        s'.delivered = dataOf pre := by
    rintro ⟨hg, hpl⟩
    obtain ⟨recs, h1, _, h3, h4⟩ := hi'.parsed
    obtain ⟨pre, rfl⟩ := h4 hg
    refine ⟨hg, pre, h1, ?_⟩
    rw [hpl, List.append_nil] at h3
    rw [h3, dataOf_append]; simp [dataOf]
  cases ev with
  | call c =>
    simp only [step] at hs
    split at hs
    · contradiction
    · split at hs
      · exact fin (pump_eos (Option.some.inj hs) hsc (by simp))
      · split at hs <;> simp at hs
      · rename_i hnh hn0
        split at hs
        · refine fin (pump_eos (Option.some.inj hs) hsc ?_)
          intro n hn; subst hn
          cases n with
          | zero => exact absurd rfl hn0
          | succ k => omega
        · contradiction
  | write item sizes => simp only [step] at hs; split at hs <;> simp at hs
  | peerFlush b => simp only [step] at hs; split at hs <;> simp at hs
  | endTransport => simp only [step] at hs; split at hs <;> simp at hs
  | cut => simp only [step] at hs; split at hs <;> simp at hs
  | deliver k =>
    simp only [step] at hs
    split at hs
    · contradiction
    · rename_i c hpc
      split at hs
      · contradiction
      · exact fin (pump_eos (Option.some.inj hs) (by simpa using hsc) (hi.blockedOk c hpc).2.2.2)
  | eofDeliver =>
    simp only [step] at hs
    split at hs
    · contradiction
    · rename_i c hpc
      split at hs
      · exact fin (pump_eos (Option.some.inj hs) (by simpa using hsc) (hi.blockedOk c hpc).2.2.2)
      · contradiction

/-- the pump loop raises BrokenResourceError only with `standard_compatible`, and only after an
unexpected EOF of the incoming BIO -/
theorem pump_broken {s0 s' : State} {c : Call} {o : Out} (hp : pump s0 c = (s', o)) :
    (o = .broken → s0.sc = true ∧ s'.e.inEof = true ∧ s'.bioEof = true) ∧
      (s0.sc = false → o ≠ .broken) := by
  simp only [pump] at hp
  split at hp
  · split at hp
    · split at hp <;> (simp only [Prod.mk.injEq] at hp; obtain ⟨_, rfl⟩ := hp; simp)
    · simp only [Prod.mk.injEq] at hp; obtain ⟨_, rfl⟩ := hp; simp
  · simp only [Prod.mk.injEq] at hp; obtain ⟨_, rfl⟩ := hp; simp
  · simp only [Prod.mk.injEq] at hp; obtain ⟨rfl, rfl⟩ := hp
    cases hsc : s0.sc <;> simp
  · simp only [Prod.mk.injEq] at hp; obtain ⟨_, rfl⟩ := hp; simp

/-- BrokenResourceError is raised only with `standard_compatible` and only on an unexpected EOF;
without `standard_compatible` it is never raised. -/
theorem C17_broken_only_when_standard_compatible {s s' : State} {ev : Ev} {o : Out}
    (hs : step s ev = some (s', o)) :
    (o = .broken → s.sc = true ∧ s'.e.inEof = true ∧ s'.bioEof = true) ∧
      (s.sc = false → o ≠ .broken) := by
  cases ev with
  | call c =>
    simp only [step] at hs
    split at hs
    · contradiction
    · split at hs
      · exact pump_broken (Option.some.inj hs)
      · split at hs
        · cases hs; simp
        · contradiction
      · split at hs
        · exact pump_broken (Option.some.inj hs)
        · contradiction
  | write item sizes => simp only [step] at hs; split at hs <;> simp at hs; simp [← hs.2]
  | peerFlush b => simp only [step] at hs; split at hs <;> simp at hs; simp [← hs.2]
  | endTransport => simp only [step] at hs; split at hs <;> simp at hs; simp [← hs.2]
  | cut => simp only [step] at hs; split at hs <;> simp at hs; simp [← hs.2]
  | deliver k =>
    simp only [step] at hs
    split at hs
    · contradiction
    · split at hs
      · contradiction
      · simpa using pump_broken (Option.some.inj hs)
  | eofDeliver =>
    simp only [step] at hs
    split at hs
    · contradiction
    · split at hs
      · simpa using pump_broken (Option.some.inj hs)
      · contradiction

theorem starving_eof {e : Engine} {c : Call} (h : Starving e c) :
    runOp { e with inEof := true } c = ({ e with inEof := true }, .eofError) := by
  cases c with
  | read n =>
    obtain ⟨h1, h2, h3⟩ := h
    simp [runOp, Engine.read, h1, h2, h3, starve]
  | unwrap =>
    obtain ⟨h1, h2, h3⟩ := h
    simp [runOp, Engine.unwrap, h1, h2, h3, starve]
  | handshake =>
    obtain ⟨h1, h3⟩ := h
    rcases h1 with h1 | h1 | h1 <;> simp [runOp, Engine.handshake, h1, h3, starve]

/-- Truncation is detected at ANY cut point: whenever the transport ends while a call
(do_handshake during `wrap`, `receive`, or the closing handshake of `unwrap`/`aclose`) is
waiting for more ciphertext -- which is the case exactly when the byte stream stopped before
the record the call needs was complete, wherever that is -- the call ends at once, with
BrokenResourceError if `standard_compatible` and with EndOfStream otherwise; never with a clean
EndOfStream in the first case; nothing is delivered. -/
theorem C17_truncation_detected {s s' : State} {o : Out} {c : Call} (h : Reach s)
    (hpc : s.pc = .blocked c) (hs : step s .eofDeliver = some (s', o)) :
    s'.pc = .idle ∧ o = (if s.sc then .broken else .eos) ∧ s'.delivered = s.delivered ∧
      s'.e.gotCN = false := by
  have hi := C17_invariant h
  obtain ⟨_, hst, _, _⟩ := hi.blockedOk c hpc
  have hg : s.e.gotCN = false := by
    cases c with
    | read n => exact hst.2.1
    | unwrap => exact hst.2.1
    | handshake =>
      cases hg : s.e.gotCN with
      | false => rfl
      | true =>
        have := hi.cnPhase hg
        rcases hst.1 with h1 | h1 | h1 <;> simp [h1] at this
  simp only [step, hpc] at hs
  split at hs
  · have hp := Option.some.inj hs
    simp only [pump, starving_eof hst] at hp
    simp only [Prod.mk.injEq] at hp
    obtain ⟨rfl, rfl⟩ := hp
    simp [hg]
  · contradiction

/-- and such a blocked call cannot stay blocked once the transport has ended: the event that
ends it is enabled -/
theorem C17_truncation_not_silent {s : State} {c : Call} (hpc : s.pc = .blocked c)
    (h1 : s.incoming = []) (h2 : s.inEnded = true) : ∃ s' o, step s .eofDeliver = some (s', o) := by
  simp only [step, hpc, h1, h2, and_self, if_true]
  exact ⟨_, _, rfl⟩

/-! ### non-vacuity -/

/-- server: handshake with the client's flights arriving in 1-byte fragments, then a 5-byte
record read with max_bytes 2 three times, then close_notify: EndOfStream -/
example :
    ((runFrom step (init true true)
      [.call .handshake, .peerFlush [1, 1], .deliver 0, .deliver 0, .peerFlush [1, 3, 6, 10, 11, 12, 13, 14, 0],
       .deliver 0, .deliver 0, .call (.read 2), .deliver 2, .deliver 100, .call (.read 2),
       .call (.read 2), .call (.read 2)]).map
      (fun s => (s.delivered, s.e.gotCN, s.wireOut, s.e.phase))) =
    some ([10, 11, 12, 13, 14], true, [1, 2], Phase.established) := by decide

/-- same session cut inside the data record: BrokenResourceError state (BIOs at EOF), nothing
delivered -/
example :
    ((runFrom step (init true true)
      [.call .handshake, .peerFlush [1, 1, 1, 3, 6, 10, 11], .deliver 100, .call (.read 2),
       .endTransport, .eofDeliver]).map
      (fun s => (s.delivered, s.bioEof, s.pc))) =
    some ([], true, Pc.idle) := by decide

end AnyioModel.Stream.Tls
