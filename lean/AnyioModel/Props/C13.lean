/-
C13  Memory object streams: closing wakes everyone and errors tell the truth.

Property theorems only; the model is `AnyioModel.Stream.Memory`, the invariant `InvQ` and
its preservation are in `AnyioModel.Stream.MemoryInv` / `MemoryInvStep`.  All statements
quantify over all reachable states, i.e. all finite event lists: any number of tasks and of
clones of both ends, any order of clone / close / send / receive segments, closes while any
number of peers are blocked, cancellations (`fc`, `mc`) anywhere.
-/
import AnyioModel.Stream.MemoryInvStep

namespace AnyioModel.Stream.Memory

theorem C13_invariant {s : State} (h : Reach s) : InvQ s := invQ_reach h

/-- `openCount` is the number of handles created so far that are not closed -/
theorem openCount_eq_length (c : Nat → Bool) (n : Nat) :
    openCount c n = ((List.range n).filter (fun h => c h = false)).length := by
  induction n with
  | zero => rfl
  | succ n ih =>
    simp only [openCount, List.range_succ, List.filter_append, List.length_append, ih]
    cases hc : c n <;> simp [hc]

/-- `statistics().open_send_streams` / `open_receive_streams` equal the true number of open
clones: handles `0 .. nS-1` (resp. `nR-1`) exist, the count is the number of those whose
`_closed` flag is false. -/
theorem C13_counts {s : State} (h : Reach s) :
    s.openSend = ((List.range s.nS).filter (fun h => s.closedS h = false)).length ∧
    s.openRecv = ((List.range s.nR).filter (fun h => s.closedR h = false)).length := by
  have hi := C13_invariant h
  exact ⟨by rw [← openCount_eq_length]; exact hi.openSend_eq,
         by rw [← openCount_eq_length]; exact hi.openRecv_eq⟩

/-- a side whose counter is zero has every one of its clones closed (and it stays so: `clone`
of a closed handle is refused, see `C13_closed_iff`) -/
theorem C13_zero_all_closed {s : State} (h : Reach s) :
    (s.openSend = 0 → ∀ k, k < s.nS → s.closedS k = true) ∧
    (s.openRecv = 0 → ∀ k, k < s.nR → s.closedR k = true) := by
  have hi := C13_invariant h
  exact ⟨fun h0 => openCount_zero (by rw [← hi.openSend_eq]; exact h0),
         fun h0 => openCount_zero (by rw [← hi.openRecv_eq]; exact h0)⟩

-- events whose outcome is never the exception in question
set_option hygiene false in
local macro "other_out" : tactic =>
  `(tactic| (simp only [step] at hs
             split at hs <;> (try split at hs) <;> (try split at hs) <;> simp at hs))

theorem recvCore_eos {s : State} {h : Nat} (hr : (recvCore s h).2 = .eos) :
    s.openSend = 0 ∧ s.buffer = [] ∧ s.waitingSenders = [] := by
  rcases recvCore_cases s h with ⟨hc, he⟩ | ⟨hc, hws, hb, ho, he⟩ | ⟨hc, hws, hb, ho, he⟩ |
    ⟨hc, hws, y, ys, hb, he⟩ | ⟨hc, u, x, b, rest, y, ys, hws, hb, he⟩
  all_goals rw [he] at hr
  all_goals first
    | (simp at hr; done)
    | exact ⟨ho, hb, hws⟩

theorem sendCore_broken {s : State} {h x : Nat} {P : List Nat}
    (hr : (sendCore s h x P).2 = .broken) : s.openRecv = 0 := by
  rcases sendCore_cases s h x P with ⟨hc, he⟩ | ⟨hc, ho, he⟩ | ⟨hc, ho, d, u, rest, hw, hd, hu, huP, he⟩ |
    ⟨hc, ho, hd, hf, he⟩ | ⟨hc, ho, hd, hf, he⟩
  all_goals rw [he] at hr
  all_goals first
    | (simp at hr; done)
    | exact ho

theorem sendCore_closed_iff {s : State} {h x : Nat} {P : List Nat} :
    (sendCore s h x P).2 = .closed ↔ s.closedS h = true := by
  rcases sendCore_cases s h x P with ⟨hc, he⟩ | ⟨hc, ho, he⟩ | ⟨hc, ho, d, u, rest, hw, hd, hu, huP, he⟩ |
    ⟨hc, ho, hd, hf, he⟩ | ⟨hc, ho, hd, hf, he⟩
  all_goals rw [he]; simp [hc]

theorem recvCore_closed_iff {s : State} {h : Nat} :
    (recvCore s h).2 = .closed ↔ s.closedR h = true := by
  rcases recvCore_cases s h with ⟨hc, he⟩ | ⟨hc, hws, hb, ho, he⟩ | ⟨hc, hws, hb, ho, he⟩ |
    ⟨hc, hws, y, ys, hb, he⟩ | ⟨hc, u, x, b, rest, y, ys, hws, hb, he⟩
  all_goals rw [he]; simp [hc]

/-- EndOfStream is raised (by `receive_nowait`, by the `receive_nowait` inside `receive`, or by
the wake-up of a blocked `receive`) only in a state in which every send clone is closed,
nothing is buffered and no blocked sender holds an item. -/
theorem C13_eos_only_if {s s' : State} {e : Ev} (h : Reach s)
    (hs : step s e = some (s', .eos)) :
    s.openSend = 0 ∧ s.buffer = [] ∧ s.waitingSenders = [] ∧ ∀ k, k < s.nS → s.closedS k = true := by
  have hi := C13_invariant h
  suffices h3 : s.openSend = 0 ∧ s.buffer = [] ∧ s.waitingSenders = [] from
    ⟨h3.1, h3.2.1, h3.2.2, (C13_zero_all_closed h).1 h3.1⟩
  cases e with
  | receiveNowait t h =>
    simp only [step] at hs
    split at hs; · contradiction
    have := @recvCore_eos s h
    generalize recvCore s h = r at hs this
    obtain ⟨s1, res⟩ := r
    cases res <;> simp at hs
    exact this rfl
  | step t P =>
    simp only [step] at hs
    split at hs <;> try contradiction
    · generalize sendCore s _ _ P = r at hs
      obtain ⟨s1, res⟩ := r
      cases res <;> simp at hs
    · simp at hs
    · simp [sendCancelled] at hs
    · simp [sendCancelled] at hs
    · split at hs <;> simp at hs
    · rename_i hh hpc
      have := @recvCore_eos s hh
      generalize recvCore s hh = r at hs this
      obtain ⟨s1, res⟩ := r
      cases res <;> simp at hs
      exact this rfl
    · simp at hs
    · simp at hs
    · simp at hs
    · rename_i hpc; exact hi.eos_state t (Or.inl hpc)
    · simp at hs
    · simp at hs
  | send t h x pre => simp only [step] at hs; split at hs <;> simp at hs
  | receive t h pre => simp only [step] at hs; split at hs <;> simp at hs
  | sendNowait t h x P =>
    simp only [step] at hs
    split at hs; · contradiction
    generalize sendCore _ h x P = r at hs
    obtain ⟨s1, res⟩ := r
    cases res <;> simp at hs
  | closeS t h => other_out
  | closeR t h => other_out
  | cloneS t h => other_out
  | cloneR t h => other_out
  | fc t => simp only [step] at hs; split at hs <;> simp at hs
  | mc t => simp only [step] at hs; split at hs <;> simp at hs

/-- BrokenResourceError is raised (by `send_nowait`, by the `send_nowait` inside `send`, or by
the wake-up of a blocked `send`) only when every receive clone is closed. -/
theorem C13_broken_only_if {s s' : State} {e : Ev} (h : Reach s)
    (hs : step s e = some (s', .broken)) :
    s.openRecv = 0 ∧ ∀ k, k < s.nR → s.closedR k = true := by
  have hi := C13_invariant h
  suffices h3 : s.openRecv = 0 from ⟨h3, (C13_zero_all_closed h).2 h3⟩
  cases e with
  | sendNowait t h x P =>
    simp only [step] at hs
    split at hs; · contradiction
    have := @sendCore_broken { s with offered := s.offered ++ [(t, x)] } h x P
    generalize sendCore _ h x P = r at hs this
    obtain ⟨s1, res⟩ := r
    cases res <;> simp at hs
    exact this rfl
  | step t P =>
    simp only [step] at hs
    split at hs <;> try contradiction
    · rename_i hh x hpc
      have := @sendCore_broken s hh x P
      generalize sendCore s hh x P = r at hs this
      obtain ⟨s1, res⟩ := r
      cases res <;> simp at hs
      exact this rfl
    · simp at hs
    · simp [sendCancelled] at hs
    · simp [sendCancelled] at hs
    · rename_i x hpc
      by_cases hq : queuedS t s.waitingSenders = true
      · obtain ⟨y, b, hm⟩ := queuedS_iff.mp hq
        have h8 := hi.ws_pc t y b hm
        rw [hpc] at h8
        simp at h8
        obtain ⟨rfl, rfl⟩ := h8
        exact hi.ws_set t _ hm
      · simp [hq] at hs
    · generalize recvCore s _ = r at hs
      obtain ⟨s1, res⟩ := r
      cases res <;> simp at hs
    · simp at hs
    · simp at hs
    · simp at hs
    · simp at hs
    · simp at hs
    · simp at hs
  | send t h x pre => simp only [step] at hs; split at hs <;> simp at hs
  | receive t h pre => simp only [step] at hs; split at hs <;> simp at hs
  | receiveNowait t h =>
    simp only [step] at hs
    split at hs; · contradiction
    generalize recvCore s h = r at hs
    obtain ⟨s1, res⟩ := r
    cases res <;> simp at hs
  | closeS t h => other_out
  | closeR t h => other_out
  | cloneS t h => other_out
  | cloneR t h => other_out
  | fc t => simp only [step] at hs; split at hs <;> simp at hs
  | mc t => simp only [step] at hs; split at hs <;> simp at hs


/-- the `_closed` flag that the event's code path tests (memory.py:99, 145, 218, 275), if it
tests one: the `*_nowait` calls, `clone`, and the second segment of `send` / `receive` (the
flag is read after the checkpoint, not when the call is made) -/
def usedHandleClosed (s : State) : Ev → Option Bool
  | .sendNowait _ h _ _ => some (s.closedS h)
  | .receiveNowait _ h => some (s.closedR h)
  | .cloneS _ h => some (s.closedS h)
  | .cloneR _ h => some (s.closedR h)
  | .step t _ =>
    match s.pc t with
    | .sendChk h _ false => some (s.closedS h)
    | .recvChk h false => some (s.closedR h)
    | _ => none
  | _ => none

/-- ClosedResourceError is raised exactly by the operations invoked on a handle that is itself
closed -- whatever the state of its clones and of the other side -- and by nothing else
(`close` of a closed handle is a no-op; wake-ups never raise it). -/
theorem C13_closed_iff {s s' : State} {e : Ev} {o : Out} (hs : step s e = some (s', o)) :
    o = .closed ↔ usedHandleClosed s e = some true := by
  cases e with
  | sendNowait t h x P =>
    simp only [step] at hs
    split at hs; · contradiction
    have := @sendCore_closed_iff { s with offered := s.offered ++ [(t, x)] } h x P
    generalize sendCore _ h x P = r at hs this
    obtain ⟨s1, res⟩ := r
    simp only [usedHandleClosed, Option.some.injEq]
    cases res <;> simp at hs <;> obtain ⟨-, rfl⟩ := hs <;> simpa using this
  | receiveNowait t h =>
    simp only [step] at hs
    split at hs; · contradiction
    have := @recvCore_closed_iff s h
    generalize recvCore s h = r at hs this
    obtain ⟨s1, res⟩ := r
    simp only [usedHandleClosed, Option.some.injEq]
    cases res <;> simp at hs <;> obtain ⟨-, rfl⟩ := hs <;> simpa using this
  | cloneS t h =>
    simp only [step] at hs
    split at hs; · contradiction
    simp only [usedHandleClosed, Option.some.injEq]
    split at hs <;> simp at hs <;> obtain ⟨-, rfl⟩ := hs <;> simp_all
  | cloneR t h =>
    simp only [step] at hs
    split at hs; · contradiction
    simp only [usedHandleClosed, Option.some.injEq]
    split at hs <;> simp at hs <;> obtain ⟨-, rfl⟩ := hs <;> simp_all
  | step t P =>
    simp only [step] at hs
    simp only [usedHandleClosed]
    split at hs <;> try contradiction
    · rename_i hh x hpc
      have := @sendCore_closed_iff s hh x P
      generalize sendCore s hh x P = r at hs this
      obtain ⟨s1, res⟩ := r
      rw [hpc]
      simp only [Option.some.injEq]
      cases res <;> simp at hs <;> obtain ⟨-, rfl⟩ := hs <;> simpa using this
    · rename_i hpc; rw [hpc]; simp at hs; simp [← hs.2]
    · rename_i hpc; rw [hpc]; simp at hs; simp [← hs.2]
    · rename_i hpc; rw [hpc]; simp at hs; simp [← hs.2]
    · rename_i hpc; rw [hpc]; split at hs <;> simp at hs <;> simp [← hs.2]
    · rename_i hh hpc
      have := @recvCore_closed_iff s hh
      generalize recvCore s hh = r at hs this
      obtain ⟨s1, res⟩ := r
      rw [hpc]
      simp only [Option.some.injEq]
      cases res <;> simp at hs <;> obtain ⟨-, rfl⟩ := hs <;> simpa using this
    · rename_i hpc; rw [hpc]; simp at hs; simp [← hs.2]
    · rename_i hpc; rw [hpc]; simp at hs; simp [← hs.2]
    · rename_i hpc; rw [hpc]; simp at hs; simp [← hs.2]
    · rename_i hpc; rw [hpc]; simp at hs; simp [← hs.2]
    · rename_i hpc; rw [hpc]; simp at hs; simp [← hs.2]
    · rename_i hpc; rw [hpc]; simp at hs; simp [← hs.2]
  | send t h x pre =>
    simp only [step] at hs; split at hs <;> simp at hs; simp [usedHandleClosed, ← hs.2]
  | receive t h pre =>
    simp only [step] at hs; split at hs <;> simp at hs; simp [usedHandleClosed, ← hs.2]
  | closeS t h =>
    simp only [step] at hs
    split at hs <;> (try split at hs) <;> (try split at hs) <;> simp at hs <;>
      simp [usedHandleClosed, ← hs.2]
  | closeR t h =>
    simp only [step] at hs
    split at hs <;> (try split at hs) <;> (try split at hs) <;> simp at hs <;>
      simp [usedHandleClosed, ← hs.2]
  | fc t => simp only [step] at hs; split at hs <;> simp at hs <;> simp [usedHandleClosed, ← hs.2]
  | mc t => simp only [step] at hs; split at hs <;> simp at hs <;> simp [usedHandleClosed, ← hs.2]

/-- Closing the last clone of one side has woken every task blocked on the other side: once
`open_send_channels` is 0 the receiver queue is empty and no task sits in `receive()` with a
pending, un-set event (each former waiter has its event set -- `recvWoken none`, i.e.
EndOfStream at its wake-up -- or its future cancelled); once `open_receive_channels` is 0 every
entry left in `waiting_senders` has its event set and no task sits in `send()` on an un-set
event. -/
theorem C13_last_close_wakes {s : State} (h : Reach s) :
    (s.openSend = 0 → s.waitingReceivers = [] ∧ ∀ t, s.pc t ≠ .recvWait) ∧
    (s.openRecv = 0 → (∀ t x b, (t, x, b) ∈ s.waitingSenders → b = true) ∧
                      ∀ t x, s.pc t ≠ .sendWait x) := by
  have hi := C13_invariant h
  refine ⟨fun h0 => ?_, fun h0 => ?_⟩
  · have hw := hi.closedS_wr h0
    refine ⟨hw, fun t hp => ?_⟩
    have := hi.recvWait_wr t hp
    simp [hw] at this
  · refine ⟨fun t x b hm => ?_, fun t x hp => ?_⟩
    · cases b with
      | true => rfl
      | false => exact absurd h0 (hi.ws_unset t x hm)
    · exact hi.ws_unset t x (hi.sendWait_ws t x hp) h0

/-- ... and the receivers are released only after the remaining items have been handed out:
while anything is buffered or a blocked sender still holds an item, no receiver waits. -/
theorem C13_items_before_release {s : State} (h : Reach s) :
    (s.buffer ≠ [] ∨ s.waitingSenders ≠ []) → s.waitingReceivers = [] ∧ ∀ t, s.pc t ≠ .recvWait := by
  have hi := C13_invariant h
  intro hne
  have hw : s.waitingReceivers = [] := by
    rcases hne with hne | hne
    · exact hi.buf_wr hne
    · exact hi.ws_wr hne
  refine ⟨hw, fun t hp => ?_⟩
  have := hi.recvWait_wr t hp
  simp [hw] at this

/-- a task suspended on a pending future for which nothing is scheduled -/
def Stuck (p : Pc) : Prop := p = .recvWait ∨ ∃ x, p = .sendWait x

/-- No task stays blocked on a stream whose peer side is fully closed (state invariant) ... -/
theorem C13_no_one_left_blocked {s : State} (h : Reach s) (t : Nat) (hst : Stuck (s.pc t)) :
    (s.pc t = .recvWait → s.openSend ≠ 0) ∧ (∀ x, s.pc t = .sendWait x → s.openRecv ≠ 0) := by
  have hl := C13_last_close_wakes h
  exact ⟨fun hp h0 => (hl.1 h0).2 t hp, fun x hp h0 => (hl.2 h0).2 t x hp⟩

/-- ... plus one wake-up segment: a task whose event was set or whose future was cancelled can
always be resumed, and that single segment ends its operation. (`recvOrphan` -- a receiver
that `has_pending_cancellation()` reported as cancelled before its future was -- waits for
that cancellation, `fc`, by the environment assumption of the model.) -/
theorem C13_wakeup_segment_ends {s : State} (t : Nat) (P : List Nat)
    (hp : (∃ sl, s.pc t = .recvWoken sl ∨ s.pc t = .recvWokenMC sl) ∨ s.pc t = .recvWaitFC ∨
          ∃ x, s.pc t = .sendWoken x ∨ s.pc t = .sendWokenMC x ∨ s.pc t = .sendWaitFC x) :
    ∃ s' o, step s (.step t P) = some (s', o) ∧ s'.pc t = .idle ∧ o ≠ .susp := by
  rcases hp with ⟨sl, hp | hp⟩ | hp | ⟨x, hp | hp | hp⟩
  · cases sl <;> simp only [step, hp] <;> exact ⟨_, _, rfl, by simp, by simp⟩
  · cases sl <;> simp only [step, hp] <;> exact ⟨_, _, rfl, by simp, by simp⟩
  · simp only [step, hp]; exact ⟨_, _, rfl, by simp, by simp⟩
  · simp only [step, hp]
    split <;> exact ⟨_, _, rfl, by simp [reject], by simp⟩
  · simp only [step, hp, sendCancelled]
    split <;> exact ⟨_, _, rfl, by simp [reject], by simp⟩
  · simp only [step, hp, sendCancelled]
    split <;> exact ⟨_, _, rfl, by simp [reject], by simp⟩

/-! ### non-vacuity -/

/-- two receivers blocked, a clone of the send side outstanding: closing one send clone wakes
nobody, closing the last one wakes both with EndOfStream -/
example :
    (traceFrom step (init (some 0))
      [.cloneS 9 0, .receive 1 0 false, .step 1 [], .receive 2 0 false, .step 2 [],
       .closeS 9 0, .closeS 9 1, .step 1 [], .step 2 []]).map
      (fun r => (r.1.openSend, r.1.waitingReceivers, r.2.drop 5)) =
    some (0, [], [.ret, .ret, .eos, .eos]) := by decide

/-- after the first close the receivers are still queued -/
example :
    (runFrom step (init (some 0))
      [.cloneS 9 0, .receive 1 0 false, .step 1 [], .receive 2 0 false, .step 2 [],
       .closeS 9 0]).map
      (fun s => (s.openSend, s.waitingReceivers, s.pc 1)) =
    some (1, [1, 2], Pc.recvWait) := by decide

/-- buffer size 1, one item buffered, two senders blocked; the last receive clone is closed:
both senders wake with BrokenResourceError; a send on the closed-own handle raises
ClosedResourceError -/
example :
    (traceFrom step (init (some 1))
      [.sendNowait 1 0 10 [], .send 1 0 11 false, .step 1 [], .send 2 0 12 false, .step 2 [],
       .closeR 9 0, .step 1 [], .step 2 [], .closeS 9 0, .sendNowait 3 0 13 [],
       .receiveNowait 3 0]).map
      (fun r => (r.1.openRecv, r.1.waitingSenders, r.2.drop 5)) =
    some (0, [], [.ret, .broken, .broken, .ret, .closed, .closed]) := by decide

end AnyioModel.Stream.Memory
