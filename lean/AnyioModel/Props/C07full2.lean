/-
C07  TaskGroup.start(): the remaining case of `C07_value`.  A caller of `start()` that waits for the
readiness future (`Lib.startWait`) is blocked on that future or has been woken up by it; it is
never suspended in a bare `yield` and has started, so it is resumed only through `__wakeup`
(`.run (.wakeup t)`, covered by `C07_value`), never through `.run (.step t)`.
The invariant is field `y1` of the host invariant `HInv` (`AnyioModel.Kernel.HostInv`).
-/
import AnyioModel.Kernel.HostInv5
import AnyioModel.Props.C07full

namespace AnyioModel.Kernel

/-- In every reachable state a task inside `start()` waiting for the readiness future is neither
suspended in a bare `yield` nor unstarted. -/
theorem C07_startWait_not_yielded {st : State} (h : Reach st) {t g u f : Nat}
    (hl : (st.tasks t).lib = .startWait g u f) :
    (st.tasks t).st ≠ .yielded ∧ (st.tasks t).st ≠ .created := by
  refine ⟨(hinv_reach h).y1 t g u f hl, ?_⟩
  intro hc
  have := (finv_reach h).lib_created t hc
  rw [hl] at this; cases this

/-- ... so `Task.__step` is never scheduled for it: `.run (.step t)` is not enabled. -/
theorem C07_startWait_no_step {st : State} (h : Reach st) {t g u f : Nat}
    (hl : (st.tasks t).lib = .startWait g u f) : step st (.run (.step t)) = none := by
  obtain ⟨h1, h2⟩ := C07_startWait_not_yielded h hl
  simp only [step]
  split
  · rfl
  · rw [if_neg]
    rintro (hc | hc)
    · exact h2 hc
    · exact h1 hc

/-- Value, the `.run (.step t)` case: same statement as `C07_value` (vacuously: the transition does
not exist).  Together with `C07_value`: whichever handle resumes the caller, `start()` returns
normally only if the start future of the child has a result. -/
theorem C07_value_step {st st' : State} {t g u f : Nat} (h : Reach st)
    (hl : (st.tasks t).lib = .startWait g u f)
    (hs : step st (.run (.step t)) = some (st', .done .none)) :
    (st.tasks u).startFut = some f ∧ st.futs f = .result := by
  rw [C07_startWait_no_step h hl] at hs; cases hs

/-- `C07_value` for both handles -/
theorem C07_value_any {st st' : State} {t g u f : Nat} {hd : Handle} (h : Reach st)
    (hl : (st.tasks t).lib = .startWait g u f) (hh : hd = .step t ∨ hd = .wakeup t)
    (hs : step st (.run hd) = some (st', .done .none)) :
    (st.tasks u).startFut = some f ∧ st.futs f = .result := by
  rcases hh with rfl | rfl
  · exact C07_value_step h hl hs
  · exact C07_value h hl hs

/-! ### non-vacuity -/

/-- the caller of `start()` is blocked on the start future; its `__step` is not enabled, its
`__wakeup` is once the child has called `started()` -/
example : (runFrom step init
    [.mkGroup, .groupEnter 0, .start 0, .beginCycle 0, .run (.step 1), .started, .yield,
     .beginCycle 0]).map
    (fun st => ((st.tasks 0).lib, (st.tasks 0).st, (step st (.run (.step 0))).isNone,
      (step st (.run (.wakeup 0))).map (·.2))) =
    some (.startWait 0 1 0, .woken 0, true, some (.done .none)) := by decide

end AnyioModel.Kernel
