/-
C09, history level: "waiting tasks obtain it in the order in which they started waiting with no
newcomer overtaking a queued waiter ... A waiter that is cancelled neither ends up holding the lock
nor clogs the queue".

`Props/C09.lean` states FIFO per step (`C09_fifo_no_barging`, `C09_queue_order`).  Here the same
clause is stated over whole histories: for every event list (any number of tasks, any interleaving
of acquire / release / wake-ups / cancellations, a task may queue many times) three logs are read
off the run - `enq` (an `acquire()` ended queued), `granted` (a `release()` handed the lock to a
queued task), `cancelled` (a waiter future was cancelled) - and

* the hand-overs, followed by the tasks still queued, are a subsequence of the order in which the
  tasks started waiting (`C09_fifo_history`);
* every start of waiting is accounted for exactly once: handed the lock, cancelled, or still queued
  with a pending future (`C09_fifo_accounting`) - so a cancelled waiter is never handed the lock
  and a live one is never skipped for good;
* with no cancellation the hand-over order *is* the waiting order (`C09_fifo_exact`).

The logs are computed from what a step did (`Sync/LockHistory.lean`), not from `step`'s guards.
-/
import AnyioModel.Sync.LockHistory
import AnyioModel.Props.C09

namespace AnyioModel.Sync.Lock

/-- Hand-overs happen in the order in which the tasks started waiting, and everybody still in the
queue started waiting after all of those that were served - for every history. -/
theorem C09_fifo_history {f : Bool} {es : List Ev} {s : State} {l : Log}
    (h : runLog (init f) {} es = some (s, l)) :
    (l.granted ++ s.waiters.map Prod.fst).Sublist l.enq ∧ l.granted.Sublist l.enq := by
  have := (linv_runLog es (inv_init f) (linv_init f) h).2.order
  exact ⟨this, List.Sublist.trans (List.sublist_append_left _ _) this⟩

/-- Every start of waiting is accounted for exactly once: the waiter was handed the lock, or its
future was cancelled, or it is still queued with a pending future. -/
theorem C09_fifo_accounting {f : Bool} {es : List Ev} {s : State} {l : Log}
    (h : runLog (init f) {} es = some (s, l)) :
    l.enq.Perm (l.granted ++ l.cancelled ++ live s.waiters) := by
  have := (linv_runLog es (inv_init f) (linv_init f) h).2.acct
  rw [List.perm_iff_count]
  intro x
  simp only [List.count_append]
  exact this x

/-- A cancelled waiter is never handed the lock afterwards *as that waiter*: the number of times a
task was served never exceeds the number of times it queued minus the number of times it was
cancelled while queued. -/
theorem C09_cancelled_not_served {f : Bool} {es : List Ev} {s : State} {l : Log}
    (h : runLog (init f) {} es = some (s, l)) (t : Nat) :
    l.granted.count t + l.cancelled.count t ≤ l.enq.count t := by
  have := (linv_runLog es (inv_init f) (linv_init f) h).2.acct t
  omega

/-- Without cancellations the lock is handed over in exactly the order in which the tasks started
waiting: served ++ queued = started-waiting. -/
theorem C09_fifo_exact {f : Bool} {es : List Ev} {s : State} {l : Log}
    (h : runLog (init f) {} es = some (s, l)) (hc : l.cancelled = []) :
    l.granted ++ s.waiters.map Prod.fst = l.enq := by
  have hsub := (C09_fifo_history h).1
  have hperm := C09_fifo_accounting h
  apply hsub.eq_of_length_le
  have hlen := hperm.length_eq
  have hlive : (live s.waiters).length ≤ (s.waiters.map Prod.fst).length := by
    simp only [live, List.length_map]
    exact List.length_filter_le _ _
  simp only [hc, List.append_nil, List.length_append] at hlen ⊢
  omega

/-- The run with logs is the ordinary run: it reaches exactly the states `runFrom` reaches (so the
three theorems above speak about every reachable state). -/
theorem C09_runLog_runFrom (s : State) (l : Log) (es : List Ev) :
    (runLog s l es).map Prod.fst = runFrom step s es := by
  induction es generalizing s l with
  | nil => rfl
  | cons e es ih =>
    simp only [runLog, runFrom]
    split <;> simp_all

/-- `handedTo` means what it says: the task was queued with a pending future and is the owner now. -/
theorem C09_handedTo_sound {s s' : State} {u : Nat} (h : handedTo s s' = some u) :
    s.pc u = .waiting ∧ s'.owner = some u ∧ s'.pc u = .granted := by
  unfold handedTo at h
  split at h
  · rename_i v hv
    split at h
    · rename_i hc
      simp only [Option.some.injEq] at h
      subst h
      exact ⟨hc.1, hv, hc.2⟩
    · contradiction
  · contradiction

/-- ... and misses nothing: whenever a step makes a task owner that was queued, it is logged. -/
theorem C09_handedTo_complete {s s' : State} {e : Ev} {o : Out} {u : Nat} (hr : Reach s)
    (hs : step s e = some (s', o)) (hnew : s'.owner = some u) (hq : s.pc u = .waiting) :
    handedTo s s' = some u := by
  have hi : Inv s := C09_invariant hr
  have hold : s.owner ≠ some u := by
    intro ho
    rcases hi.owner_acct u ho with h | h
    · have := (hi.holds_owner u h).2; simp [hq] at this
    · simp [owning, hq] at h
  rcases C09_fifo_no_barging hs hnew hold with ⟨_, _, he⟩ | ⟨pre, rest, _, _, _, hg⟩
  · exfalso
    rcases he with rfl | rfl <;> simp [step, hq] at hs
  · simp [handedTo, hnew, hq, hg]

/-! ### non-vacuity: three tasks queue behind an owner, the middle one is cancelled -/

def demo : List Ev :=
  [.acquire 0 false, .step 0, .acquire 1 false, .acquire 2 false, .acquire 3 false, .fc 2,
   .release 0, .step 1, .step 2, .release 1, .step 3, .acquire 1 false, .release 3]

example : (runLog (init false) {} demo).map (fun r => (r.2.enq, r.2.granted, r.2.cancelled)) =
    some ([1, 2, 3, 1], [1, 3, 1], [2]) := by decide

example : (runLog (init true) {} [.acquire 0 false, .acquire 1 false, .acquire 2 false,
    .release 0, .step 1, .release 1]).map (fun r => (r.2.enq, r.2.granted, r.2.cancelled)) =
    some ([1, 2], [1, 2], []) := by decide

end AnyioModel.Sync.Lock
