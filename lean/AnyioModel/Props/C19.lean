/-
C19  anyio.itertools and functools.reduce agree with the standard library; tee.

Property theorems only.  Models: `AnyioModel.Iter.Itertools` (impl_f / spec_f),
`AnyioModel.Iter.Reduce`, `AnyioModel.Iter.Tee` (LTS); lemmas in `ItertoolsProofs`, `TeeProofs`,
`TeeProofs2`, `TeeProofs3`.

`C19_<f> : impl_f args xs = spec_f args xs` for ALL arguments (also the invalid ones: both sides
are then the same error class) and ALL finite element sequences, over any element type.  The
source adaptor `_iterate` is the identity on the element sequence, so the statements cover
synchronous and asynchronous sources alike (`reduce`, whose two branches are separate code,
takes the kind of source as a parameter).  That `spec_f` is what CPython's `itertools.f`
computes is not a theorem: it is the third leg of the harness's differential check.
-/
import AnyioModel.Iter.ItertoolsProofs
import AnyioModel.Iter.TeeProofs3

namespace AnyioModel.Iter

section
variable {α β κ : Type}

theorem C19_accumulate (f : α → α → α) (initial : Option α) (xs : List α) :
    impl_accumulate f initial xs = spec_accumulate f initial xs := by
  cases initial with
  | some i => simp [impl_accumulate, spec_accumulate, accLoop_eq_scanl]
  | none =>
    cases xs with
    | nil => rfl
    | cons x xs => simp [impl_accumulate, spec_accumulate, accLoop_eq_scanl]

theorem C19_batched (n : Option Int) (strict : Bool) (xs : List α) :
    impl_batched n strict xs = spec_batched n strict xs := by
  cases n with
  | none => rfl
  | some n =>
    unfold impl_batched spec_batched
    by_cases h : n < 1
    · have : n ≤ 0 := by omega
      simp [h, this]
    · have h' : ¬ n ≤ 0 := by omega
      simp only [h, h', if_false]
      rw [batchedLoop_eq n.toNat strict (by omega) _ xs (by omega)]
      rfl

theorem C19_chain_from_iterable (xss : List (List α)) :
    impl_chain_from_iterable xss = spec_chain_from_iterable xss := by
  simp [impl_chain_from_iterable, spec_chain_from_iterable, chainLoop_eq]

theorem C19_chain (xss : List (List α)) : impl_chain xss = spec_chain xss := by
  simp [impl_chain, impl_chain_from_iterable, spec_chain, chainLoop_eq]

/-- the pool handed to `itertools.combinations` is the element sequence -/
theorem C19_combinations (std : List α → Option Int → Res (List α)) (r : Option Int)
    (xs : List α) : impl_combinations std r xs = spec_combinations std r xs := by
  simp [impl_combinations, spec_combinations, collect_eq]

theorem C19_combinations_with_replacement (std : List α → Option Int → Res (List α))
    (r : Option Int) (xs : List α) :
    impl_combinations_with_replacement std r xs = spec_combinations_with_replacement std r xs := by
  simp [impl_combinations_with_replacement, spec_combinations_with_replacement, collect_eq]

/-- `permutations` checks `r` itself; it agrees with the stdlib function given two facts about
the latter (both exercised by the harness on CPython): `r = None` means `r = len(pool)`, and a
negative `r` is a ValueError -/
theorem C19_permutations (std : List α → Option Int → Res (List α))
    (hnone : ∀ pool, std pool none = std pool (some (pool.length : Int)))
    (hneg : ∀ pool (r : Int), r < 0 → std pool (some r) = .error .valueError)
    (r : Option Int) (xs : List α) :
    impl_permutations std r xs = spec_permutations std r xs := by
  unfold impl_permutations spec_permutations
  cases r with
  | none => simp [collect_eq, hnone]
  | some r => by_cases h : r < 0 <;> simp [collect_eq, h, hneg]

/-- same for `product`: `repeat=None` is a TypeError and a negative `repeat` a ValueError in the
stdlib too -/
theorem C19_product (std : List (List α) → Option Int → Res (List α))
    (hnone : ∀ pools, std pools none = .error .typeError)
    (hneg : ∀ pools (r : Int), r < 0 → std pools (some r) = .error .valueError)
    (rep : Option Int) (xss : List (List α)) :
    impl_product std rep xss = spec_product std rep xss := by
  unfold impl_product spec_product
  have hc : xss.map collect = xss := by
    induction xss with
    | nil => rfl
    | cons xs xss ih => simp [collect_eq, ih]
  cases rep with
  | none => simp [hnone]
  | some r => by_cases h : r < 0 <;> simp [h, hneg, hc]

theorem C19_compress (ds : List α) (ss : List Bool) : impl_compress ds ss = spec_compress ds ss := by
  simp [impl_compress, spec_compress, compressLoop_eq]

theorem C19_count (take : Nat) (start step : Int) :
    impl_count take start step = spec_count take start step := by
  simp [impl_count, spec_count, countLoop_eq]

theorem C19_cycle (take : Nat) (xs : List α) : impl_cycle take xs = spec_cycle take xs :=
  impl_cycle_eq take xs

theorem C19_repeat (take : Nat) (x : α) (times : Option Int) :
    impl_repeat take x times = spec_repeat take x times := by
  cases times with
  | none => rfl
  | some t =>
    unfold impl_repeat spec_repeat
    by_cases h : t ≤ 0
    · have : t.toNat = 0 := by omega
      simp [h, this]
    · simp [h, repeatLoop_eq]

theorem C19_dropwhile (p : α → Bool) (xs : List α) : impl_dropwhile p xs = spec_dropwhile p xs := by
  simp [impl_dropwhile, spec_dropwhile, dropwhileLoop_true]

theorem C19_filterfalse (p : α → Bool) (xs : List α) :
    impl_filterfalse p xs = spec_filterfalse p xs := by
  simp [impl_filterfalse, spec_filterfalse, filterfalseLoop_eq]

theorem C19_takewhile (p : α → Bool) (xs : List α) : impl_takewhile p xs = spec_takewhile p xs := by
  simp [impl_takewhile, spec_takewhile, takewhileLoop_eq]

theorem C19_groupby [DecidableEq κ] (key : α → κ) (xs : List α) :
    impl_groupby key xs = spec_groupby key xs := by
  cases xs with
  | nil => simp [impl_groupby, spec_groupby, groupRuns]
  | cons x xs => simp [impl_groupby, spec_groupby, groupbyLoop_eq, groupRuns_cons]

/-- all argument tuples: none (TypeError), 1-3 (each `None` or any integer; negative indices and
`step < 1` are ValueError), more than 3 (TypeError) -/
theorem C19_islice (args : List (Option Int)) (xs : List α) :
    impl_islice args xs = spec_islice args xs := by
  match args with
  | [] => rfl
  | [b] => simp [impl_islice, spec_islice, sliceArgs, isliceCore_eq]
  | [a, b] => simp [impl_islice, spec_islice, sliceArgs, isliceCore_eq]
  | [a, b, c] => simp [impl_islice, spec_islice, sliceArgs, isliceCore_eq]
  | _ :: _ :: _ :: _ :: _ => simp [impl_islice, spec_islice]

theorem C19_pairwise (xs : List α) : impl_pairwise xs = spec_pairwise xs := by
  cases xs with
  | nil => rfl
  | cons x xs => simp [impl_pairwise, spec_pairwise, pairwiseLoop_eq]

theorem C19_starmap (f : List α → β) (xss : List (List α)) :
    impl_starmap f xss = spec_starmap f xss := by
  simp [impl_starmap, spec_starmap, starmapLoop_eq]

theorem C19_zip_longest (fill : α) (xss : List (List α)) :
    impl_zip_longest fill xss = spec_zip_longest fill xss :=
  impl_zip_longest_eq fill xss

/-- `reduce(function, iterable, initial)`: both branches (sync / async source) -/
theorem C19_reduce_init (src : Src) (f : β → α → β) (initial : β) (xs : List α) :
    impl_reduce_init src f initial xs = spec_reduce_init f initial xs := by
  cases src <;> simp [impl_reduce_init, spec_reduce_init, reduceLoopSync_eq, reduceLoopAsync_eq]

/-- `reduce(function, iterable)`: the first element seeds the fold; empty -> TypeError -/
theorem C19_reduce_noinit (src : Src) (f : α → α → α) (xs : List α) :
    impl_reduce_noinit src f xs = spec_reduce_noinit f xs := by
  cases src <;> cases xs <;>
    simp [impl_reduce_noinit, spec_reduce_noinit, reduceLoopSync_eq, reduceLoopAsync_eq]

theorem C19_reduce (src : Src) (f : α → α → α) (initial : Option α) (xs : List α) :
    impl_reduce src f initial xs = spec_reduce f initial xs := by
  cases initial with
  | none => exact C19_reduce_noinit src f xs
  | some i => exact C19_reduce_init src f i xs

end

/-! non-vacuity: the specifications say something on concrete inputs -/

example : spec_islice [some 1, none, some 2] [10, 11, 12, 13, 14, 15] = .ok [11, 13, 15] := by decide
example : impl_islice [some 1, none, some 2] [10, 11, 12, 13, 14, 15] = .ok [11, 13, 15] := by decide
example : impl_islice [some (-1)] [10, 11] = .error .valueError := by decide
example : impl_islice ([] : List (Option Int)) [10, 11] = .error .typeError := by decide
example : impl_islice [none, none, some 0] [10, 11] = .error .valueError := by decide
example : spec_batched (some 2) false [1, 2, 3] = .ok [[1, 2], [3]] := by decide
example : impl_batched (some 2) true [1, 2, 3] = .error .valueError := by decide
example : impl_batched (some 0) false [1, 2, 3] = .error .valueError := by decide
example : spec_groupby (fun x : Nat => x % 2) [0, 2, 1, 1, 2] = .ok [(0, [0, 2]), (1, [1, 1]), (0, [2])] := by
  simp [spec_groupby, groupRuns]
example : spec_accumulate (· + ·) (some 10) [1, 2, 3] = .ok [10, 11, 13, 16] := by decide
example : spec_zip_longest 9 [[0, 1], [], [2]] = .ok [[0, 9, 2], [1, 9, 9]] := by decide
example : impl_zip_longest 9 [[0, 1], [], [2]] = .ok [[0, 9, 2], [1, 9, 9]] := by decide
example : spec_pairwise [1, 2, 3] = .ok [(1, 2), (2, 3)] := by decide
example : spec_compress [1, 2, 3] [true, false, true, true] = .ok [1, 3] := by decide
example : spec_cycle 5 [1, 2] = .ok [1, 2, 1, 2, 1] := by decide
example : impl_reduce .sync (· - ·) none [5, 1, 1] = .ok (3 : Int) := by decide
example : impl_reduce .async (· - ·) none ([] : List Int) = .error .typeError := by decide
example : impl_reduce .async (· - ·) (some 7) ([] : List Int) = .ok 7 := by decide

end AnyioModel.Iter

/-! ### tee -/

namespace AnyioModel.Iter
open AnyioModel.Iter.Tee
variable {α : Type}

/-- the invariant of `TeeProofs` holds in every reachable state: any number of consumers, any
source sequence, any interleaving of `next i` / `step i` / source answers -/
theorem C19_tee_invariant {n : Nat} {xs : List α} {s : State α} (h : Reach n xs s) : Inv xs s := by
  refine Reachable.invariant (Inv xs) ?_ ?_ s h
  · rintro s rfl; exact inv_init n xs
  · intro s e s' o hi hs; exact inv_step hi hs

/-- Every consumer observes exactly the source sequence, under every interleaving: at every
moment what `__anext__` has returned to consumer `i` is a prefix of the source sequence, of the
length of its cursor (minus a value taken but not yet handed out), and once consumer `i` has
received StopAsyncIteration it has been given the complete sequence. -/
theorem C19_tee_complete {n : Nat} {xs : List α} {s : State α} (h : Reach n xs s) (i : Nat) :
    (∃ rest, xs = s.seen i ++ rest) ∧
    (s.seen i ++ pend (s.pc i) = xs.take (s.cursor i)) ∧
    (s.finished i = true → s.seen i = xs) := by
  have hi := C19_tee_invariant h
  have h4 := hi.seen_ok i
  have h3 := hi.cursor_le i
  have h1 := hi.src_ok
  have htake : xs.take (s.cursor i) = s.consumed.take (s.cursor i) := by
    rw [← h1, List.take_append_of_le_length h3]
  refine ⟨⟨pend (s.pc i) ++ s.consumed.drop (s.cursor i) ++ s.src, ?_⟩, ?_, ?_⟩
  · rw [← List.append_assoc, ← List.append_assoc, h4, List.take_append_drop, h1]
  · rw [htake]; exact h4
  · intro hf
    obtain ⟨_, e2, e3, e4⟩ := hi.fin_ok i (Or.inl hf)
    rw [e4, e3, List.take_length, List.append_nil] at h4
    rw [h4, ← h1, e2, List.append_nil]

/-- The source is consumed once: its `__anext__` has been invoked once per element handed to
the chain, once more if the end has been seen, once more while a call is in flight -- never more
than `len + 1` times, and exactly `len + 1` times once any consumer has finished. -/
theorem C19_tee_once {n : Nat} {xs : List α} {s : State α} (h : Reach n xs s) :
    s.srcCalls = s.links.length + pendingCall s.owner s.pc ∧
    s.srcCalls ≤ xs.length + 1 ∧
    (∀ i, s.finished i = true → s.srcCalls = xs.length + 1) := by
  have hi := C19_tee_invariant h
  have h1 := hi.src_ok
  have hlen : s.consumed.length + s.src.length = xs.length := by
    rw [← h1, List.length_append]
  have hp : pendingCall s.owner s.pc = 0 ∨
      (pendingCall s.owner s.pc = 1 ∧ s.links = s.consumed.map some) := by
    cases ho : s.owner with
    | none => left; rfl
    | some k =>
      rw [pendingCall_some]
      cases hk : (s.pc k).isSrcWait with
      | false => left; simp
      | true => right; exact ⟨by simp, (hi.srcwait k hk).1⟩
  refine ⟨hi.calls, ?_, ?_⟩
  · rw [hi.calls]
    rcases hp with hp | ⟨hp, hl⟩
    · rcases hi.links_ok with hl | ⟨hl, hs⟩
      · rw [hp, hl]; simp; omega
      · rw [hp, hl]; simp; omega
    · rw [hp, hl]; simp; omega
  · intro i hf
    obtain ⟨e1, e2, _, _⟩ := hi.fin_ok i (Or.inl hf)
    rw [hi.calls]
    rcases hp with hp | ⟨hp, hl⟩
    · rw [hp, e1]; simp [e2] at hlen ⊢; omega
    · rw [hl] at e1; exact absurd e1 (append_ne_self _ _)

/-- the lock is never re-acquired by its owner: `next` never ends in `Lock`'s RuntimeError -/
theorem C19_tee_no_runtime_error {n : Nat} {xs : List α} {s s' : State α} {e : Ev}
    (h : Reach n xs s) : step s e ≠ some (s', .runtimeError) := by
  have hi := C19_tee_invariant h
  intro hs
  cases e with
  | next i =>
    simp only [step] at hs
    split at hs
    · contradiction
    · rename_i hidle
      have hpc : s.pc i = .idle := by
        have : i < s.n ∧ (s.pc i).isIdle = true := by simpa using hidle
        exact isIdle_iff.mp this.2
      split at hs
      · rename_i l hl
        cases l <;> simp only [afterFill] at hs
        · split at hs <;> cases hs
        · simp at hs
      · split at hs
        · cases hs
        · split at hs
          · rename_i ho
            have := (hi.holder i).mpr ho
            rw [hpc] at this; simp at this
          · cases hs
  | step i =>
    simp only [step] at hs
    split at hs <;> try contradiction
    · split at hs
      · rename_i l hl
        have e2 := congrArg Prod.snd (Option.some.inj hs)
        cases l <;> simp only [afterFill] at e2
        · split at e2 <;> cases e2
        · simp at e2
      · cases hs
    · split at hs <;> cases hs
  | srcYield =>
    simp only [step] at hs
    split at hs
    · split at hs
      · contradiction
      · have e2 := congrArg Prod.snd (Option.some.inj hs)
        simp [afterFill] at e2
    · contradiction
  | srcEnd =>
    simp only [step] at hs
    split at hs
    · split at hs
      · contradiction
      · have e2 := congrArg Prod.snd (Option.some.inj hs)
        simp only [afterFill] at e2
        split at e2 <;> cases e2
    · contradiction

/-! non-vacuity: a contended run of two consumers over [5, 6] -/

example :
    (traceFrom step (init 2 [5, 6])
      [.next 0, .next 1, .step 0, .srcYield, .step 1, .next 1, .step 1, .srcYield, .next 0, .step 0,
       .next 0, .step 0, .srcEnd, .next 1]).map (·.2) =
    some [.susp, .susp, .susp, .ret 5, .ret 5, .susp, .susp, .ret 6, .susp, .ret 6,
          .susp, .susp, .stop, .stop] := by decide

example :
    ((runFrom step (init 2 [5, 6])
      [.next 0, .next 1, .step 0, .srcYield, .step 1, .next 1, .step 1, .srcYield, .next 0, .step 0,
       .next 0, .step 0, .srcEnd, .next 1]).map
        fun s => (s.seen 0, s.seen 1, s.finished 0, s.finished 1, s.srcCalls)) =
    some ([5, 6], [5, 6], true, true, 3) := by decide

end AnyioModel.Iter
