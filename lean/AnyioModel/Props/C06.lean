/-
C06  Deadlines — the reachability part, on the kernel model.

"A cancel scope with a deadline is cancelled when, and only when, the event-loop clock reaches that
deadline while the scope is active (immediately on entry if it has already passed), and assigning
a new deadline re-arms it; a timeout never fires early, never after the scope was left, and is
never missed."   Anchor: `_asyncio.py:405,413,444,479-481,573-579,652-654,667-679` — "one live
timer per active, not yet cancelled scope with finite deadline".

The pure-function part (what `_timeout()`, the `deadline` setter, `__enter__`, the `timeout s`
callback and `fail_at` compute, for ALL states) is `Props/C06pure.lean`.  Here: what holds in every
state reachable by any finite event list (`Reach st`), and step-local facts about transitions out
of reachable states.  Invariant (`TInv`) and helper lemmas: `Kernel/TimerInv.lean` ..
`TimerInv6.lean`.

Loop structure of the model: `call_at` puts `(time, timeout s)` into `timers`; `beginCycle now`
(`_run_once`) moves every timer with `time ≤ now` into the batch `cur`; `run h` runs one handle of
the batch; `beginCycle` is enabled only when the batch is empty.

One statement of the plan is false on a reachable state and was corrected: `timer → ¬cancelCalled`
(see `C06_timer_armed` and the example after it).
-/
import AnyioModel.Kernel.TimerInv6
import AnyioModel.Props.C06pure
import AnyioModel.Props.C04pure

namespace AnyioModel.Kernel

/-! ### 1. one live timer per active, not yet cancelled scope with finite deadline -/

/-- **C06_timer_armed.**  In every reachable state, for every scope `s`:
* the `timer` flag (`_timeout_handle is not None and still live`) is set iff a `timeout s` callback
  is pending, in the timer heap or in the batch being run;
* such a callback never sits in the ready queue;
* there is at most one of them overall;
* one in the heap is at the scope's *current* deadline, which is still ahead of the clock;
* one in the batch belongs to a deadline that is due;
* a live timer belongs to an active (entered, not yet left) scope with a finite deadline;
* an active, not yet cancelled scope with a finite deadline has a live timer.

(`timer → ¬cancelCalled` does NOT hold: a scope cancelled *before* `__enter__` with a deadline
still ahead gets a timer in `__enter__`, in the model as in `_asyncio.py:444` — `_timeout()` does
not look at `_cancel_called`.  Harmless: when it fires `cancel()` is a no-op, `__exit__` and the
`deadline` setter cancel it.  See the example below.) -/
theorem C06_timer_armed {st : State} (hr : Reach st) (s : Nat) :
    ((st.scopes s).timer = true ↔
      (∃ w, (w, Handle.timeout s) ∈ st.timers) ∨ Handle.timeout s ∈ st.cur) ∧
    Handle.timeout s ∉ st.ready ∧
    (st.timers.filter (fun p => p.2 = Handle.timeout s)).length +
      st.cur.count (Handle.timeout s) ≤ 1 ∧
    (∀ w, (w, Handle.timeout s) ∈ st.timers → (st.scopes s).deadline = some w ∧ st.now < w) ∧
    (Handle.timeout s ∈ st.cur → ∃ d, (st.scopes s).deadline = some d ∧ d ≤ st.now) ∧
    ((st.scopes s).timer = true → (st.scopes s).active = true ∧ (st.scopes s).entered = true ∧
      ∃ d, (st.scopes s).deadline = some d) ∧
    (∀ d, (st.scopes s).active = true → (st.scopes s).cancelCalled = false →
      (st.scopes s).deadline = some d → (st.scopes s).timer = true) :=
  (tinv_reach hr).facts s

/-- the live timer of an active, not yet cancelled scope, located: exactly one `timeout s` callback
is pending; it is in the heap at the deadline iff the deadline is still ahead, and in the running
batch iff the deadline is due -/
theorem C06_one_live_timer {st : State} (hr : Reach st) {s d : Nat}
    (ha : (st.scopes s).active = true) (hc : (st.scopes s).cancelCalled = false)
    (hd : (st.scopes s).deadline = some d) :
    (st.timers.filter (fun p => p.2 = Handle.timeout s)).length +
      st.cur.count (Handle.timeout s) = 1 ∧
    (st.now < d → (d, Handle.timeout s) ∈ st.timers ∧ Handle.timeout s ∉ st.cur) ∧
    (d ≤ st.now → Handle.timeout s ∈ st.cur ∧ ∀ w, (w, Handle.timeout s) ∉ st.timers) := by
  have hs := tinv_reach hr s
  have ht := hs.live d ha hc hd
  have hcnt := hs.count
  rw [ht] at hcnt
  simp only [if_true] at hcnt
  have htm : ∀ w, (w, Handle.timeout s) ∈ st.timers → w = d ∧ st.now < d := by
    intro w hw
    have := hs.tm w (mem_tmL.2 hw)
    rw [hd] at this
    simp only [Option.some.injEq] at this
    exact ⟨this.1.symm, by omega⟩
  have hcu : Handle.timeout s ∈ st.cur → d ≤ st.now := by
    intro hm
    obtain ⟨d', h1, h2⟩ := hs.cu (List.count_pos_iff.2 hm)
    rw [hd] at h1
    simp only [Option.some.injEq] at h1
    omega
  refine ⟨by rw [← tmL_length]; exact hcnt, fun hlt => ?_, fun hdue => ?_⟩
  · have hnc : Handle.timeout s ∉ st.cur := fun hm => by have := hcu hm; omega
    have : st.cur.count (Handle.timeout s) = 0 := List.count_eq_zero.2 hnc
    obtain ⟨w, hw⟩ := List.exists_mem_of_length_pos (show 0 < (tmL st.timers s).length by omega)
    have hw' := mem_tmL.1 hw
    rw [(htm w hw').1] at hw'
    exact ⟨hw', hnc⟩
  · have hnt : ∀ w, (w, Handle.timeout s) ∉ st.timers := fun w hw => by
      have := (htm w hw).2; omega
    have : (tmL st.timers s).length = 0 := by
      cases hl : tmL st.timers s with
      | nil => rfl
      | cons w l => exact absurd (mem_tmL.1 (by rw [hl]; simp)) (hnt w)
    exact ⟨List.count_pos_iff.1 (by omega), hnt⟩

/-- the counter-example to `timer → ¬cancelCalled`: `scope = CancelScope(deadline=5);
scope.cancel(); scope.__enter__()` at time 0 leaves a cancelled scope with a live timer -/
example :
    (runFrom step init [.mkScope false (some 5), .cancel 0, .enter 0]).map
      (fun st => ((st.scopes 0).timer, (st.scopes 0).cancelCalled, (st.scopes 0).byDeadline,
        st.timers)) =
    some (true, true, false, [(5, .timeout 0)]) := by decide

/-- **C06_hrec.**  The hypothesis `hrec` of `C04_exit_no_timer_left`, `C06_set_deadline_rearms`
and `C06_set_deadline_no_stale_timer` holds in every reachable state: a scope whose `timer` flag is
clear has no `timeout` callback anywhere in the loop. -/
theorem C06_hrec {st : State} (hr : Reach st) (s : Nat) :
    (st.scopes s).timer = false → NoTimeout st s :=
  fun ht => (tinv_reach hr).noTimeout ht

/-- ... in the form the two `deadline`-setter theorems take it -/
theorem C06_hrec_timers {st : State} (hr : Reach st) (s : Nat) :
    (st.scopes s).timer = false → ∀ w, (w, Handle.timeout s) ∉ st.timers :=
  fun ht => (C06_hrec hr s ht).1

/-- **C06_exit_no_timer_left_reach.**  After `__exit__` of a scope in a reachable state no
`timeout s` callback is left anywhere in the loop (`C04_exit_no_timer_left` without its
hypothesis). -/
theorem C06_exit_no_timer_left_reach {st st' : State} (hr : Reach st) {t s : Nat} {ev : ExcVal}
    {r : ExitResult} (h : exitScope st t s ev = some (st', r)) : NoTimeout st' s :=
  C04_exit_no_timer_left h (C06_hrec hr s)

/-- **C06_set_deadline_rearms_reach.**  `scope.deadline = d'` on an active, not yet cancelled
scope in a reachable state (`C06_set_deadline_rearms` without its hypothesis): the old timer is
dropped; with `d' = +∞` nothing is armed, with `d'` ahead exactly one timer at `d'` is armed, with
`d'` already reached the scope is cancelled on the spot with reason "deadline". -/
theorem C06_set_deadline_rearms_reach {st : State} (hr : Reach st) (s : Nat) (d' : Option Nat)
    (hact : (st.scopes s).active = true) (hcc : (st.scopes s).cancelCalled = false) :
    ((setDeadline st s d').scopes s).deadline = d' ∧
    (setDeadline st s d').now = st.now ∧
    match d' with
    | none =>
      ((setDeadline st s d').scopes s).cancelCalled = false ∧
      ((setDeadline st s d').scopes s).timer = false ∧
      (setDeadline st s d').timers = st.timers.filter (·.2 ≠ .timeout s)
    | some d =>
      if st.now < d then
        ((setDeadline st s d').scopes s).cancelCalled = false ∧
        ((setDeadline st s d').scopes s).timer = true ∧
        (setDeadline st s d').timers = st.timers.filter (·.2 ≠ .timeout s) ++ [(d, .timeout s)]
      else
        ((setDeadline st s d').scopes s).cancelCalled = true ∧
        ((setDeadline st s d').scopes s).byDeadline = true ∧
        ((setDeadline st s d').scopes s).cancelTime = st.now ∧
        ((setDeadline st s d').scopes s).timer = false ∧
        (setDeadline st s d').timers = st.timers.filter (·.2 ≠ .timeout s) :=
  C06_set_deadline_rearms st s d' hact hcc (C06_hrec_timers hr s)

/-- no stale timer after a deadline assignment, in a reachable state -/
theorem C06_set_deadline_no_stale_timer_reach {st : State} (hr : Reach st) (s : Nat)
    (d' : Option Nat) (hact : (st.scopes s).active = true)
    (hcc : (st.scopes s).cancelCalled = false) :
    (∀ w, (w, Handle.timeout s) ∈ (setDeadline st s d').timers → d' = some w ∧ st.now < w) ∧
    ((setDeadline st s d').timers.filter (·.2 = .timeout s)).length ≤ 1 ∧
    (((setDeadline st s d').scopes s).timer = true ↔
      ∃ w, (w, Handle.timeout s) ∈ (setDeadline st s d').timers) :=
  C06_set_deadline_no_stale_timer st s d' hact hcc (C06_hrec_timers hr s)

/-! ### 2. never missed -/

/-- **C06_never_missed.**  If scope `s` is active, not cancelled, with deadline `d`, then the loop
cycle that begins at a time `now' ≥ d` has the scope's timeout callback in its batch — exactly
once, and no longer in the heap. -/
theorem C06_never_missed {st st' : State} (hr : Reach st) {s d now' : Nat} {o : Out}
    (ha : (st.scopes s).active = true) (hc : (st.scopes s).cancelCalled = false)
    (hd : (st.scopes s).deadline = some d)
    (hs : step st (.beginCycle now') = some (st', o)) (hdue : d ≤ now') :
    Handle.timeout s ∈ st'.cur ∧ st'.cur.count (Handle.timeout s) = 1 ∧
      (∀ w, (w, Handle.timeout s) ∉ st'.timers) :=
  never_missed (tinv_reach hr) ha hc hd hs hdue

/-- **C06_cycle_drains.**  Step-local: a cycle can only begin when no task is running and the
previous batch has been run to the end (`_run_once` runs every handle it popped) — so a timeout
callback that made it into a batch cannot be skipped by the next cycle; the clock is monotone. -/
theorem C06_cycle_drains {st st' : State} {now' : Nat} {o : Out}
    (hs : step st (.beginCycle now') = some (st', o)) :
    st.running = none ∧ st.cur = [] ∧ st.now ≤ now' ∧ st'.now = now' :=
  let ⟨a, b, c, d, _⟩ := beginCycle_spec hs
  ⟨a, b, c, d⟩

/-- **C06_handle_stays.**  A timeout callback in the batch stays in the batch across every
transition unless the scope is left, is cancelled (which is also what running the callback does),
or is given another deadline — the three operations that cancel the handle. -/
theorem C06_handle_stays {st st' : State} (hr : Reach st) {e : Ev} {o : Out} {s : Nat}
    (hm : Handle.timeout s ∈ st.cur) (hs : step st e = some (st', o)) :
    Handle.timeout s ∈ st'.cur ∨ (st'.scopes s).active = false ∨
      (st'.scopes s).cancelCalled = true ∨ (st'.scopes s).deadline ≠ (st.scopes s).deadline :=
  handle_stays (tinv_reach hr) hm hs

/-- **C06_fires_when_run.**  In a reachable state a timeout callback in the batch can be run as
soon as no task is running, and running it cancels the scope (if it was not cancelled already) with
reason "deadline" at the current clock, which has reached the deadline; nothing of `s` is left in
the loop, and no other scope is cancelled.  (`C06_timeout_run_exact` + the invariant: the re-arm
branch of `_timeout()` is dead for a handle the loop has popped.) -/
theorem C06_fires_when_run {st : State} (hr : Reach st) {s : Nat} (hrun : st.running = none)
    (hm : Handle.timeout s ∈ st.cur) :
    ∃ st', step st (.run (.timeout s)) = some (st', .none) ∧ st'.now = st.now ∧
      (∃ d, (st.scopes s).deadline = some d ∧ d ≤ st.now) ∧
      (st'.scopes s).cancelCalled = true ∧
      ((st.scopes s).cancelCalled = false →
        (st'.scopes s).byDeadline = true ∧ (st'.scopes s).cancelTime = st.now) ∧
      ((st.scopes s).cancelCalled = true →
        (st'.scopes s).byDeadline = (st.scopes s).byDeadline) ∧
      (∀ i, i ≠ s → (st'.scopes i).cancelCalled = (st.scopes i).cancelCalled) ∧
      NoTimeout st' s := by
  have hen := (C06_timeout_run_enabled_iff st s).2 ⟨hrun, hm⟩
  cases hst : step st (.run (.timeout s)) with
  | none => rw [hst] at hen; cases hen
  | some p =>
    obtain ⟨st', o⟩ := p
    obtain ⟨ho, hn, hoth, hfresh, hold, _, _⟩ := C06_timeout_run_exact hst
    subst ho
    have hi := tinv_reach hr
    have hdue := (hi s).cu (List.count_pos_iff.2 hm)
    have hi' := tinv_step hi hst
    have hcc' : (st'.scopes s).cancelCalled = true := by
      cases hc : (st.scopes s).cancelCalled with
      | true => exact (hold hc).1
      | false => exact ((hfresh hc).1).2 hdue
    refine ⟨st', rfl, hn, hdue, hcc', fun hc => ?_, fun hc => (hold hc).2, hoth, ?_⟩
    · have := (hfresh hc).2 hcc'
      exact ⟨this.1, this.2.1⟩
    · apply hi'.noTimeout
      cases ht : (st'.scopes s).timer with
      | false => rfl
      | true =>
        -- a live timer after the run would have to be in the heap, ahead of the clock, at the
        -- (unchanged) deadline, which is due
        exfalso
        obtain ⟨d, hd, hle⟩ := hdue
        have hlt : s < st.nScopes := by
          apply Classical.byContradiction; intro hge
          have := ((hi s).dflt (by omega)).2.2
          rw [hd] at this; cases this
        have h2 : st' = armTimeout (runMid st s) s := by
          rw [step_run_timeout] at hst
          split at hst
          · cases hst
          · simp only [Option.some.injEq, Prod.mk.injEq] at hst; exact hst.1.symm
        have hd' : (st'.scopes s).deadline = some d := by
          obtain ⟨_, _, _, _, hnorm⟩ := tevo_runTimeout hm hi
          rw [h2, (hnorm s hlt).deadline]; exact hd
        obtain ⟨f1, _, _, f4, _⟩ := hi'.facts s
        rcases f1.1 ht with ⟨w, hw⟩ | hc
        · have := f4 w hw
          rw [hd', hn] at this
          simp only [Option.some.injEq] at this
          omega
        · -- in the batch: but the only copy was popped
          have hcnt := (hi s).count
          have hcur : ∀ h ∈ st'.cur, h ∈ (runMid st s).cur := by
            rw [h2]; exact (cframe_armTimeout _ _).cur
          have hmem := hcur _ hc
          have hone : st.cur.count (Handle.timeout s) ≤ 1 := by
            split at hcnt <;> omega
          have : (st.cur.erase (Handle.timeout s)).count (Handle.timeout s) = 0 := by
            rw [List.count_erase_self]; omega
          exact absurd hmem (List.count_eq_zero.1 this)

/-! ### 3. never early -/

/-- **C06_by_deadline_due** (step-local "only when").  Whatever the event, if a step out of a
reachable state turns `byDeadline s` from false to true, then: the clock did not move in that
step; the scope was not cancelled before and is cancelled now, with cancel time the current clock;
the scope has been entered (this very step, or earlier and not left since — never before
`__enter__`, never after `__exit__`); and its deadline — the one in force after the step, which is
the one in force before it unless the step *is* the assignment `deadline = d` — is finite and has
been reached. -/
theorem C06_by_deadline_due {st st' : State} (hr : Reach st) {e : Ev} {o : Out}
    (hs : step st e = some (st', o)) (s : Nat)
    (h0 : (st.scopes s).byDeadline = false) (h1 : (st'.scopes s).byDeadline = true) :
    st'.now = st.now ∧ (st.scopes s).cancelCalled = false ∧ (st'.scopes s).cancelCalled = true ∧
      (st'.scopes s).cancelTime = st.now ∧ (st'.scopes s).entered = true ∧
      ((st.scopes s).entered = true → (st.scopes s).active = true) ∧
      (∃ d, (st'.scopes s).deadline = some d ∧ d ≤ st.now) ∧
      ((∀ x d, e ≠ .setDeadline x d) → (st'.scopes s).deadline = (st.scopes s).deadline) := by
  have hi := tinv_reach hr
  obtain ⟨a, b, c, d, e1, f, g⟩ := bd_step hi hs s h0 h1
  refine ⟨a, b, c, d, e1, f, g, fun hne => ?_⟩
  -- the scope existed before the step (a scope created in the step has no deadline)
  have hlt : s < st.nScopes := by
    apply Classical.byContradiction
    intro hge
    -- a record (re)created in this step has `byDeadline = false`; one not created yet has no deadline
    cases e with
    | beginCycle n =>
      have := (beginCycle_spec hs).2.2.2.2.1
      rw [this] at h1; rw [h0] at h1; cases h1
    | setDeadline x d' => exact hne x d' rfl
    | mkScope sh d' =>
      simp only [step] at hs
      simp only [Option.some.injEq, Prod.mk.injEq] at hs
      obtain ⟨rfl, _⟩ := hs
      have h1' : (upd st.scopes st.nScopes { exists_ := true, shield := sh, deadline := d' } s).byDeadline
          = true := h1
      by_cases hn : s = st.nScopes
      · subst hn; rw [upd_same] at h1'; cases h1'
      · rw [upd_other _ _ _ _ hn] at h1'; rw [h0] at h1'; cases h1'
    | _ =>
      obtain ⟨_, _, _, hb, _⟩ :=
        tevo_step hs (by intro n; simp) (by intro s d; simp) (by intro sh d; simp) hi
      rcases hb s with hb | hb
      · obtain ⟨d0, hd0, _⟩ := g
        rw [hb.deadline, ((hi s).dflt (by omega)).2.2] at hd0; cases hd0
      · rw [hb.2] at h1; cases h1
  cases e with
  | setDeadline x d' => exact absurd rfl (hne x d')
  | beginCycle n =>
    have := (beginCycle_spec hs).2.2.2.2.1
    rw [this]
  | mkScope sh d' =>
    simp only [step] at hs
    simp only [Option.some.injEq, Prod.mk.injEq] at hs
    obtain ⟨rfl, _⟩ := hs
    show (upd st.scopes st.nScopes _ s).deadline = _
    rw [upd_other _ _ _ _ (by omega)]
  | _ =>
    obtain ⟨_, _, _, _, hb⟩ :=
      tevo_step hs (by intro n; simp) (by intro s d; simp) (by intro sh d; simp) hi
    exact (hb s hlt).deadline

/-- **C06_by_deadline_inv.**  In every reachable state a scope marked "cancelled by deadline" is
cancelled, has been entered, and its cancel time is not in the future. -/
theorem C06_by_deadline_inv {st : State} (hr : Reach st) (s : Nat)
    (hb : (st.scopes s).byDeadline = true) :
    (st.scopes s).cancelCalled = true ∧ (st.scopes s).entered = true ∧
      (st.scopes s).cancelTime ≤ st.now :=
  (tinv_reach hr s).bd hb

/-- **C06_never_early.**  The callback is never in a batch before its time and never in the heap
at any time but the current deadline: in a reachable state `timeout s ∈ cur` implies the scope's
deadline is due, and `(w, timeout s) ∈ timers` implies `deadline s = w > now`.  Together with
`C06_timeout_run_exact` (running the callback cancels iff `deadline ≤ now`) and
`C06_by_deadline_due`, no execution cancels a scope by deadline before the clock reaches it. -/
theorem C06_never_early {st : State} (hr : Reach st) (s : Nat) :
    (Handle.timeout s ∈ st.cur → ∃ d, (st.scopes s).deadline = some d ∧ d ≤ st.now) ∧
    (∀ w, (w, Handle.timeout s) ∈ st.timers → (st.scopes s).deadline = some w ∧ st.now < w) :=
  let f := (tinv_reach hr).facts s
  ⟨f.2.2.2.2.1, f.2.2.2.1⟩

/-! ### 4. never after the scope was left -/

/-- **C06_not_after_exit.**  In every reachable state a scope that is not active (never entered,
or left) has no live timer and no `timeout` callback anywhere in the loop. -/
theorem C06_not_after_exit {st : State} (hr : Reach st) {s : Nat}
    (ha : (st.scopes s).active = false) :
    (st.scopes s).timer = false ∧ NoTimeout st s :=
  let hi := tinv_reach hr
  ⟨hi.inactive ha, hi.noTimeout (hi.inactive ha)⟩

/-- ... hence, whatever happens afterwards (any finite event list), a scope that has been left is
never activated again and its "cancelled by deadline" flag never changes: a deadline that passes
after `__exit__` cancels nothing. -/
theorem C06_not_after_exit_forever {st st' : State} (hr : Reach st) {s : Nat}
    (he : (st.scopes s).entered = true) (ha : (st.scopes s).active = false) (es : List Ev)
    (h : runFrom step st es = some st') :
    (st'.scopes s).active = false ∧ (st'.scopes s).byDeadline = (st.scopes s).byDeadline ∧
      (st'.scopes s).timer = false ∧ NoTimeout st' s := by
  obtain ⟨_, h2, h3⟩ := exited_runFrom hr he ha es h
  have hr' := reachable_of_runFrom hr es h
  exact ⟨h2, h3, C06_not_after_exit hr' h2⟩

/-! ### non-vacuity: concrete runs (task 0 is the root task, running at time 0) -/

section Examples

/-- `with CancelScope(deadline=5): await sleep(10)`: armed on entry, one timer at 5 -/
example :
    (runFrom step init [.mkScope false (some 5), .enter 0, .sleep 10]).map
      (fun st => ((st.scopes 0).timer, (st.scopes 0).cancelCalled, st.timers, st.cur)) =
    some (true, false, [(5, .timeout 0), (10, .sleepDone 0)], []) := by decide

/-- a cycle at time 4 does not touch it (never early) ... -/
example :
    (runFrom step init [.mkScope false (some 5), .enter 0, .sleep 10, .beginCycle 4]).map
      (fun st => ((st.scopes 0).cancelCalled, st.timers, st.cur)) =
    some (false, [(5, .timeout 0), (10, .sleepDone 0)], []) := by decide

/-- ... the cycle at time 5 has the callback in its batch (never missed), also a late one at 9 -/
example :
    (runFrom step init [.mkScope false (some 5), .enter 0, .sleep 10, .beginCycle 5]).map
      (fun st => ((st.scopes 0).timer, st.timers, st.cur)) =
    some (true, [(10, .sleepDone 0)], [.timeout 0]) := by decide

example :
    (runFrom step init [.mkScope false (some 5), .enter 0, .sleep 10, .beginCycle 4,
      .beginCycle 9]).map (fun st => (st.timers, st.cur)) =
    some ([(10, .sleepDone 0)], [.timeout 0]) := by decide

/-- running it cancels the scope by deadline at time 5, wakes the sleeping host with a
cancellation, and leaves nothing of the scope in the loop -/
example :
    (runFrom step init [.mkScope false (some 5), .enter 0, .sleep 10, .beginCycle 5,
      .run (.timeout 0)]).map
      (fun st => ((st.scopes 0).cancelCalled, (st.scopes 0).byDeadline, (st.scopes 0).cancelTime,
        (st.scopes 0).timer)) =
    some (true, true, 5, false) := by decide

example :
    (runFrom step init [.mkScope false (some 5), .enter 0, .sleep 10, .beginCycle 5,
      .run (.timeout 0)]).map (fun st => (st.cur, st.ready, st.futs 0)) =
    some ([], [.wakeup 0, .deliver 0], .cancelled true) := by decide

/-- the cancelled `sleep` is absorbed by the scope's `__exit__`: `cancelled_caught` -/
example :
    (runFrom step init [.mkScope false (some 5), .enter 0, .sleep 10, .beginCycle 5,
      .run (.timeout 0), .beginCycle 5, .run (.wakeup 0), .exit 0 (.one .cancelAnyio)]).map
      (fun st => ((st.scopes 0).caught, (st.scopes 0).active, st.timers)) =
    some (true, false, []) := by decide

/-- entering with a deadline that has already passed: cancelled on entry, reason "deadline",
no timer -/
example :
    (runFrom step init [.mkScope false (some 3), .yield, .beginCycle 5, .run (.step 0),
      .enter 0]).map
      (fun st => ((st.scopes 0).cancelCalled && (st.scopes 0).byDeadline,
        (st.scopes 0).cancelTime, (st.scopes 0).timer, st.timers)) =
    some (true, 5, false, []) := by decide

/-- `deadline = 8` re-arms: the timer at 5 is gone, one at 8 -/
example :
    (runFrom step init [.mkScope false (some 5), .enter 0, .setDeadline 0 (some 8)]).map
      (fun st => ((st.scopes 0).timer, st.timers)) =
    some (true, [(8, .timeout 0)]) := by decide

/-- `deadline = inf` disarms -/
example :
    (runFrom step init [.mkScope false (some 5), .enter 0, .setDeadline 0 none]).map
      (fun st => ((st.scopes 0).timer, st.timers)) =
    some (false, []) := by decide

/-- `deadline = 2` at time 5 cancels on the spot, reason "deadline" -/
example :
    (runFrom step init [.mkScope false none, .yield, .beginCycle 5, .run (.step 0), .enter 0,
      .setDeadline 0 (some 2)]).map
      (fun st => ((st.scopes 0).cancelCalled, (st.scopes 0).byDeadline, (st.scopes 0).cancelTime)) =
    some (true, true, 5) := by decide

/-- the deadline was moved after the callback entered the batch: the handle is cancelled, nothing
fires at the old deadline -/
example :
    (runFrom step init [.mkScope false (some 5), .enter 0, .yield, .beginCycle 5, .run (.step 0),
      .setDeadline 0 (some 9)]).map
      (fun st => ((st.scopes 0).cancelCalled, st.cur, st.timers)) =
    some (false, [], [(9, .timeout 0)]) := by decide

/-- `__exit__` before the deadline cancels the timer; the deadline passing later does nothing -/
example :
    (runFrom step init [.mkScope false (some 5), .enter 0, .exit 0 .none, .yield,
      .beginCycle 7]).map
      (fun st => ((st.scopes 0).timer, (st.scopes 0).cancelCalled, st.timers, st.cur)) =
    some (false, false, [], [.step 0]) := by decide

/-- an explicit `cancel()` cancels the timer too -/
example :
    (runFrom step init [.mkScope false (some 5), .enter 0, .cancel 0]).map
      (fun st => ((st.scopes 0).timer, (st.scopes 0).byDeadline, st.timers)) =
    some (false, false, []) := by decide

end Examples

end AnyioModel.Kernel
