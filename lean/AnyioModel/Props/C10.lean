import AnyioModel.Sync.SemaphoreProofs

namespace AnyioModel.Props.C10
open AnyioModel AnyioModel.Sync

/-! ## Semaphore -/

theorem C10_sem_invariant {s : Semaphore.State} (h : Semaphore.Reach s) : Semaphore.Inv s := by
  refine Reachable.invariant Semaphore.Inv ?_ ?_ s h
  · intro s h0; exact Semaphore.inv_init h0
  · intro s e s' o hi hs; exact Semaphore.inv_step hi hs

theorem C10_sem_conservation {s : Semaphore.State} (h : Semaphore.Reach s) :
    s.value + s.holders.length + s.infl.length + s.lost = s.init0 + s.extra ∧ s.lost ≤ s.extra :=
  ⟨(C10_sem_invariant h).conserve, (C10_sem_invariant h).lost_le⟩

theorem C10_sem_holders_le_permits {s : Semaphore.State} (h : Semaphore.Reach s) :
    s.holders.length + s.infl.length ≤ s.init0 + s.extra := by
  have := (C10_sem_invariant h).conserve; omega

theorem C10_sem_value_le_max {s : Semaphore.State} (h : Semaphore.Reach s) {m : Nat}
    (hm : s.max = some m) : s.value ≤ m :=
  (C10_sem_invariant h).le_max m hm

theorem C10_sem_no_waiter_when_positive {s : Semaphore.State} (h : Semaphore.Reach s)
    (hv : 0 < s.value) : s.waiters = [] :=
  (C10_sem_invariant h).pos_no_waiters hv

open Semaphore in
theorem C10_sem_no_barging {s s' : Semaphore.State} {e : Semaphore.Ev} {o : Semaphore.Out}
    (h : Semaphore.Reach s) (hs : Semaphore.step s e = some (s', o)) (hlt : s'.value < s.value) :
    s.waiters = [] ∧ s'.value + 1 = s.value ∧
      ∃ u, (e = .acquire u false ∨ e = .acquireNowait u) ∧ s.pc u = .idle := by
  have hi := C10_sem_invariant h
  have hrel : ∀ s1 s2 : State, doRelease s1 = some s2 → s1.value ≤ s2.value := by
    intro s1 s2 hr
    obtain ⟨_, hsh, _⟩ := doRelease_shape hr
    rcases hsh with ⟨hv, _⟩ | ⟨u, pre, _, _, hv, _⟩ <;> omega
  cases e with
  | acquire t pre =>
    simp only [step] at hs
    split at hs; · contradiction
    rename_i hpc; simp only [ne_eq, Decidable.not_not] at hpc
    split at hs
    · rename_i hfree
      split at hs
      · cases hs; simp at hlt
      · rename_i hpre
        simp only [Bool.not_eq_true] at hpre
        subst hpre
        split at hs <;> (cases hs; exact ⟨hfree.2, by simp; omega, t, Or.inl rfl, hpc⟩)
    · cases hs; simp at hlt
  | acquireNowait t =>
    simp only [step] at hs
    split at hs; · contradiction
    rename_i hpc; simp only [ne_eq, Decidable.not_not] at hpc
    split at hs
    · cases hs; omega
    · rename_i hv
      cases hs
      exact ⟨hi.pos_no_waiters (by omega), by simp; omega, t, Or.inr rfl, hpc⟩
  | release t =>
    simp only [step] at hs
    split at hs; · contradiction
    split at hs
    · cases hs; omega
    · rename_i s1 hr
      have := hrel _ _ hr
      split at hs <;> (cases hs; simp at hlt; omega)
  | fc t =>
    simp only [step] at hs
    split at hs
    · cases hs; simp at hlt
    · contradiction
  | mc t =>
    simp only [step] at hs
    split at hs <;> first | contradiction | (cases hs; simp at hlt)
  | step t =>
    have hgb : ∀ s2 o2, giveBack s t = (s2, o2) → s.value ≤ s2.value := by
      intro s2 o2 hg
      unfold giveBack at hg
      simp only at hg
      split at hg
      · rename_i s3 hr; cases hg; have := hrel _ _ hr; simpa using this
      · cases hg; simp
    simp only [step] at hs
    split at hs
    · contradiction
    · contradiction
    · cases hs; omega
    · cases hs; simp at hlt
    · cases hs; simp at hlt
    · injection hs with hs; have := hgb _ _ hs; omega
    · cases hs; simp at hlt
    · cases hs; simp at hlt
    · injection hs with hs; have := hgb _ _ hs; omega

end AnyioModel.Props.C10
