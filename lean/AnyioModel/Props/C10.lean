/-
C10  Semaphore and CapacityLimiter: permits are conserved and never over-granted.

Property theorems only.  Models: `AnyioModel.Sync.Semaphore`, `AnyioModel.Sync.Limiter`;
invariants and helper lemmas: `SemaphoreProofs`, `LimiterProofs`, `LimiterShape`.  Every
statement quantifies over all reachable states / all steps from reachable states, i.e. over all
finite event lists: any number of tasks and borrowers, any initial value / total (incl. infinity),
any interleaving of acquire / acquire_nowait / acquire_on_behalf_of / release(_on_behalf_of)
segments, `total_tokens` assignments (raise, lower below the number borrowed, raise again, 0,
infinity) and cancellations (`fc`: waiter future cancelled, `mc`: native cancellation landing
after the wake-up was scheduled), fast_acquire on or off.

Semaphore theorems are `C10_sem_*`; the others are about the CapacityLimiter and are stated for
disciplined histories (`OneWaitPerBorrower`, `ReleaseAfterReturn`; DESIGN section 4).
-/
import AnyioModel.Sync.SemaphoreProofs
import AnyioModel.Sync.LimiterShape

namespace AnyioModel.Props.C10
open AnyioModel AnyioModel.Sync

/-! ## Semaphore -/

theorem C10_sem_invariant {s : Semaphore.State} (h : Semaphore.Reach s) : Semaphore.Inv s := by
  refine Reachable.invariant Semaphore.Inv ?_ ?_ s h
  · intro s h0; exact Semaphore.inv_init h0
  · intro s e s' o hi hs; exact Semaphore.inv_step hi hs

theorem C10_sem_conservation {s : Semaphore.State} (h : Semaphore.Reach s) :
    s.value + s.holders.length + s.infl.length + s.lost = s.init0 + s.extra ∧ s.lost ≤ s.extra :=
  ⟨(C10_sem_invariant h).conserve, (C10_sem_invariant h).lost_le⟩

theorem C10_sem_holders_le_permits {s : Semaphore.State} (h : Semaphore.Reach s) :
    s.holders.length + s.infl.length ≤ s.init0 + s.extra := by
  have := (C10_sem_invariant h).conserve; omega

theorem C10_sem_value_le_max {s : Semaphore.State} (h : Semaphore.Reach s) {m : Nat}
    (hm : s.max = some m) : s.value ≤ m :=
  (C10_sem_invariant h).le_max m hm

theorem C10_sem_no_waiter_when_positive {s : Semaphore.State} (h : Semaphore.Reach s)
    (hv : 0 < s.value) : s.waiters = [] :=
  (C10_sem_invariant h).pos_no_waiters hv

open Semaphore in
theorem C10_sem_no_barging {s s' : Semaphore.State} {e : Semaphore.Ev} {o : Semaphore.Out}
    (h : Semaphore.Reach s) (hs : Semaphore.step s e = some (s', o)) (hlt : s'.value < s.value) :
    s.waiters = [] ∧ s'.value + 1 = s.value ∧
      ∃ u, (e = .acquire u false ∨ e = .acquireNowait u) ∧ s.pc u = .idle := by
  have hi := C10_sem_invariant h
  have hrel : ∀ s1 s2 : State, doRelease s1 = some s2 → s1.value ≤ s2.value := by
    intro s1 s2 hr
    obtain ⟨_, hsh, _⟩ := doRelease_shape hr
    rcases hsh with ⟨hv, _⟩ | ⟨u, pre, _, _, hv, _⟩ <;> omega
  cases e with
  | acquire t pre =>
    simp only [step] at hs
    split at hs; · contradiction
    rename_i hpc; simp only [ne_eq, Decidable.not_not] at hpc
    split at hs
    · rename_i hfree
      split at hs
      · cases hs; simp at hlt
      · rename_i hpre
        simp only [Bool.not_eq_true] at hpre
        subst hpre
        split at hs <;> (cases hs; exact ⟨hfree.2, by simp; omega, t, Or.inl rfl, hpc⟩)
    · cases hs; simp at hlt
  | acquireNowait t =>
    simp only [step] at hs
    split at hs; · contradiction
    rename_i hpc; simp only [ne_eq, Decidable.not_not] at hpc
    split at hs
    · cases hs; omega
    · rename_i hv
      cases hs
      exact ⟨hi.pos_no_waiters (by omega), by simp; omega, t, Or.inr rfl, hpc⟩
  | release t =>
    simp only [step] at hs
    split at hs; · contradiction
    split at hs
    · cases hs; omega
    · rename_i s1 hr
      have := hrel _ _ hr
      split at hs <;> (cases hs; simp at hlt; omega)
  | fc t =>
    simp only [step] at hs
    split at hs
    · cases hs; simp at hlt
    · contradiction
  | mc t =>
    simp only [step] at hs
    split at hs <;> first | contradiction | (cases hs; simp at hlt)
  | step t =>
    have hgb : ∀ s2 o2, giveBack s t = (s2, o2) → s.value ≤ s2.value := by
      intro s2 o2 hg
      unfold giveBack at hg
      simp only at hg
      split at hg
      · rename_i s3 hr; cases hg; have := hrel _ _ hr; simpa using this
      · cases hg; simp
    simp only [step] at hs
    split at hs
    · contradiction
    · contradiction
    · cases hs; omega
    · cases hs; simp at hlt
    · cases hs; simp at hlt
    · injection hs with hs; have := hgb _ _ hs; omega
    · cases hs; simp at hlt
    · cases hs; simp at hlt
    · injection hs with hs; have := hgb _ _ hs; omega

/-- FIFO hand-over: a task's future is resolved (`granted`) only by a `release()` body -- a
user's `release` or the give-back of a cancelled acquirer -- that finds it as the first entry of
the queue whose future is not cancelled; everything ahead of it is a cancelled entry, the queue
loses exactly that prefix, and the value is *not* incremented. -/
theorem C10_sem_fifo_handover {s s' : Semaphore.State} {e : Semaphore.Ev} {o : Semaphore.Out}
    {u : Nat} (hs : Semaphore.step s e = some (s', o))
    (hnew : s'.pc u = .granted) (hold : s.pc u ≠ .granted) :
    ∃ pre rest, s.waiters = pre ++ (u, false) :: rest ∧ (∀ w ∈ pre, w.2 = true) ∧
      s'.waiters = rest ∧ s'.value = s.value := by
  open Semaphore in
  have hrel : ∀ s1 s2 : State, doRelease s1 = some s2 → s1.waiters = s.waiters →
      s1.value = s.value → s1.pc u ≠ .granted → s2.pc u = .granted →
      ∃ pre rest, s.waiters = pre ++ (u, false) :: rest ∧ (∀ w ∈ pre, w.2 = true) ∧
        s2.waiters = rest ∧ s2.value = s.value := by
    intro s1 s2 hr hw hv hp1 hp2
    obtain ⟨_, hsh, _⟩ := doRelease_shape hr
    rcases hsh with ⟨_, _, hpc, _⟩ | ⟨v, pre, hws, hpre, hval, hpc, _⟩
    · rw [hpc] at hp2; exact absurd hp2 hp1
    · have : u = v := by
        by_cases huv : u = v
        · exact huv
        · rw [hpc] at hp2; simp [huv] at hp2; exact absurd hp2 hp1
      subst this
      exact ⟨pre, s2.waiters, by rw [← hw, hws], hpre, rfl, by rw [hval, hv]⟩
  open Semaphore in
  have hgb : ∀ t s2 o2, giveBack s t = (s2, o2) → s2.pc u = .granted →
      ∃ pre rest, s.waiters = pre ++ (u, false) :: rest ∧ (∀ w ∈ pre, w.2 = true) ∧
        s2.waiters = rest ∧ s2.value = s.value := by
    intro t s2 o2 hg hp2
    unfold giveBack at hg
    simp only at hg
    have hp1 : upd s.pc t .idle u ≠ .granted := by
      by_cases hut : u = t <;> simp [hut, hold]
    split at hg
    · rename_i s3 hr; cases hg; exact hrel _ _ hr rfl rfl hp1 hp2
    · cases hg; exact absurd hp2 hp1
  open Semaphore in
  cases e with
  | acquire t pre =>
    simp only [step] at hs
    split at hs; · contradiction
    split at hs
    · split at hs
      · cases hs; simp only [upd_apply] at hnew; grind
      · split at hs
        · cases hs; exact absurd hnew hold
        · cases hs; simp only [upd_apply] at hnew; grind
    · cases hs; simp only [upd_apply] at hnew; grind
  | acquireNowait t =>
    simp only [step] at hs
    split at hs; · contradiction
    split at hs <;> (cases hs; exact absurd hnew hold)
  | release t =>
    simp only [step] at hs
    split at hs; · contradiction
    split at hs
    · cases hs; exact absurd hnew hold
    · rename_i s1 hr
      split at hs <;> (cases hs; exact hrel s s1 hr rfl rfl hold hnew)
  | fc t =>
    simp only [step] at hs
    split at hs
    · cases hs; simp only [upd_apply] at hnew; grind
    · contradiction
  | mc t =>
    simp only [step] at hs
    split at hs <;> first | contradiction | (cases hs; simp only [upd_apply] at hnew; grind)
  | step t =>
    simp only [step] at hs
    split at hs
    · contradiction
    · contradiction
    · cases hs; exact absurd hnew hold
    · cases hs; simp only [upd_apply] at hnew; grind
    · cases hs; simp only [upd_apply] at hnew; grind
    · injection hs with hs; exact hgb _ _ _ hs hnew
    · cases hs; simp only [upd_apply] at hnew; grind
    · cases hs; simp only [upd_apply] at hnew; grind
    · injection hs with hs; exact hgb _ _ _ hs hnew

/-- The queue keeps arrival order: a step only appends the caller at the tail or deletes
entries; it never reorders or inserts elsewhere. -/
theorem C10_sem_queue_order {s s' : Semaphore.State} {e : Semaphore.Ev} {o : Semaphore.Out}
    (hs : Semaphore.step s e = some (s', o)) :
    (s'.waiters.map Prod.fst).Sublist (s.waiters.map Prod.fst) ∨
    (∃ t pre, e = .acquire t pre ∧ s'.waiters = s.waiters ++ [(t, false)]) := by
  open Semaphore in
  have hrel : ∀ s1 s2 : State, doRelease s1 = some s2 → s1.waiters = s.waiters →
      (s2.waiters.map Prod.fst).Sublist (s.waiters.map Prod.fst) := by
    intro s1 s2 hr hw
    obtain ⟨_, hsh, _⟩ := doRelease_shape hr
    rcases hsh with ⟨_, hnil, _⟩ | ⟨v, pre, hws, _⟩
    · simp [hnil]
    · rw [← hw, hws]
      simp only [List.map_append, List.map_cons]
      exact List.Sublist.trans (List.sublist_cons_self _ _) (List.sublist_append_right _ _)
  open Semaphore in
  have hgb : ∀ t s2 o2, giveBack s t = (s2, o2) →
      (s2.waiters.map Prod.fst).Sublist (s.waiters.map Prod.fst) := by
    intro t s2 o2 hg
    unfold giveBack at hg
    simp only at hg
    split at hg
    · rename_i s3 hr; cases hg; exact hrel _ _ hr rfl
    · cases hg; exact List.Sublist.refl _
  open Semaphore in
  cases e with
  | acquire t pre =>
    simp only [step] at hs
    split at hs; · contradiction
    split at hs
    · split at hs
      · cases hs; left; exact List.Sublist.refl _
      · split at hs <;> (cases hs; left; exact List.Sublist.refl _)
    · cases hs; right; exact ⟨t, pre, rfl, rfl⟩
  | acquireNowait t =>
    simp only [step] at hs
    split at hs; · contradiction
    split at hs <;> (cases hs; left; exact List.Sublist.refl _)
  | release t =>
    simp only [step] at hs
    split at hs; · contradiction
    split at hs
    · cases hs; left; exact List.Sublist.refl _
    · rename_i s1 hr
      split at hs <;> (cases hs; left; exact hrel s s1 hr rfl)
  | fc t =>
    simp only [step] at hs
    split at hs
    · cases hs; left; simp [map_fst_markCancelled]
    · contradiction
  | mc t =>
    simp only [step] at hs
    split at hs <;> first | contradiction | (cases hs; left; exact List.Sublist.refl _)
  | step t =>
    simp only [step] at hs
    split at hs
    · contradiction
    · contradiction
    · cases hs; left; exact List.Sublist.refl _
    · cases hs; left; exact List.Sublist.refl _
    · cases hs; left; exact List.Sublist.refl _
    · injection hs with hs; left; exact hgb _ _ _ hs
    · cases hs; left; exact List.Sublist.map _ List.filter_sublist
    · cases hs; left; exact List.Sublist.refl _
    · injection hs with hs; left; exact hgb _ _ _ hs

/-- Cancel-safety.  When a task's `acquire` ends with the cancellation exception the task is
out of the queue and out of the in-flight set, nobody's holdings and none of the ghost counters
change, and the number of permits that are free or in flight is what it was: a waiter cancelled
while still queued (or spinning in `checkpoint_if_cancelled`) changes neither `value` nor the
in-flight set; one that had already been handed a permit (`grantedMC`, `fastYieldMC`) passes it
to the first live waiter or puts it back into `value`. -/
theorem C10_sem_cancel_safe {s s' : Semaphore.State} (h : Semaphore.Reach s) {t : Nat}
    (hs : Semaphore.step s (.step t) = some (s', .cancelled)) :
    s'.pc t = .idle ∧ t ∉ s'.infl ∧ (∀ c, (t, c) ∉ s'.waiters) ∧
    s'.holders = s.holders ∧ s'.extra = s.extra ∧ s'.lost = s.lost ∧
    s'.value + s'.infl.length = s.value + s.infl.length ∧
    (s.pc t = .waitFC ∨ s.pc t = .preSpinMC → s'.value = s.value ∧ s'.infl = s.infl) ∧
    (s.pc t = .grantedMC ∨ s.pc t = .fastYieldMC →
      (s'.value = s.value + 1 ∧ s'.waiters = []) ∨
      (∃ u, s.pc u = .waiting ∧ s'.pc u = .granted ∧ s'.value = s.value)) := by
  open Semaphore in
  have hi := C10_sem_invariant h
  open Semaphore in
  have hi' := C10_sem_invariant (Reachable.next h hs)
  open Semaphore in
  have hgb : ∀ s2, owning (s.pc t) → giveBack s t = (s2, Out.cancelled) →
      s2.pc t = .idle ∧ s2.holders = s.holders ∧ s2.extra = s.extra ∧ s2.lost = s.lost ∧
      s2.init0 = s.init0 ∧
      ((s2.value = s.value + 1 ∧ s2.waiters = []) ∨
       (∃ u, s.pc u = .waiting ∧ s2.pc u = .granted ∧ s2.value = s.value)) := by
    intro s2 ho hg
    obtain ⟨hs1, _⟩ := struct_leave hi.toStruct ho
    unfold giveBack at hg
    simp only at hg
    split at hg
    · rename_i s3 hr
      injection hg with hg1 hg2
      subst hg1
      obtain ⟨_, hsh, e1, e2, e3, e4, _⟩ := doRelease_shape hr
      refine ⟨?_, e1, e2, e3, e4, ?_⟩
      · rcases hsh with ⟨_, _, hpc, _⟩ | ⟨v, pre, hws, hpre, hval, hpc, _⟩
        · rw [hpc]; simp
        · have hv := hs1.waiter_pc v false (by rw [hws]; simp)
          have hvt : t ≠ v := by
            rintro rfl; simp at hv
          rw [hpc]; simp [hvt]
      · rcases hsh with ⟨hv, hnil, _⟩ | ⟨v, pre, hws, hpre, hval, hpc, _⟩
        · left; exact ⟨hv, hnil⟩
        · right
          have hv := hs1.waiter_pc v false (by rw [hws]; simp)
          have hvt : v ≠ t := by
            rintro rfl; simp at hv
          refine ⟨v, ?_, by rw [hpc]; simp, hval⟩
          simpa [hvt] using hv
    · injection hg with hg1 hg2; cases hg2
  open Semaphore in
  have key : s'.pc t = .idle ∧ s'.holders = s.holders ∧ s'.extra = s.extra ∧ s'.lost = s.lost ∧
      s'.init0 = s.init0 ∧
      (s.pc t = .waitFC ∨ s.pc t = .preSpinMC → s'.value = s.value ∧ s'.infl = s.infl) ∧
      (s.pc t = .grantedMC ∨ s.pc t = .fastYieldMC →
        (s'.value = s.value + 1 ∧ s'.waiters = []) ∨
        (∃ u, s.pc u = .waiting ∧ s'.pc u = .granted ∧ s'.value = s.value)) := by
    simp only [step] at hs
    split at hs
    · contradiction
    · contradiction
    · cases hs
    · rename_i hpc; cases hs; simp [hpc]
    · cases hs
    · rename_i hpc; injection hs with hs
      have := hgb _ (by simp [owning, hpc]) hs
      simp [hpc]; exact this
    · rename_i hpc; cases hs; simp [hpc]
    · cases hs
    · rename_i hpc; injection hs with hs
      have := hgb _ (by simp [owning, hpc]) hs
      simp [hpc]; exact this
  obtain ⟨k1, k2, k3, k4, k5, k6, k7⟩ := key
  refine ⟨k1, ?_, ?_, k2, k3, k4, ?_, k6, k7⟩
  · intro hm; have := (hi'.infl_iff t).mp hm; simp [Semaphore.owning, k1] at this
  · intro c hm; have := hi'.waiter_pc t c hm; simp [k1] at this
  · have c1 := hi.conserve; have c2 := hi'.conserve
    rw [k2, k3, k4, k5] at c2; omega

/-- Releasing beyond `max_value` is rejected with the state unchanged -- and only then. -/
theorem C10_sem_over_release {s s' : Semaphore.State} {o : Semaphore.Out} {t : Nat}
    (hs : Semaphore.step s (.release t) = some (s', o)) :
    (s.max = some s.value → o = .valueError ∧ s' = s) ∧
    (s.max ≠ some s.value → o = .ret) := by
  open Semaphore in
  simp only [step] at hs
  split at hs; · contradiction
  split at hs
  · rename_i hr
    cases hs
    exact ⟨fun _ => ⟨rfl, rfl⟩, fun hne => absurd (doRelease_none.mp hr) hne⟩
  · rename_i s1 hr
    have := (doRelease_shape hr).1
    split at hs <;> (cases hs; exact ⟨fun he => absurd he this, fun _ => rfl⟩)

/-- `acquire_nowait` never blocks and never queues: it takes a permit iff the value is positive. -/
theorem C10_sem_nowait {s s' : Semaphore.State} {o : Semaphore.Out} {t : Nat}
    (hs : Semaphore.step s (.acquireNowait t) = some (s', o)) :
    (s.value = 0 → o = .wouldBlock ∧ s' = s) ∧
    (0 < s.value → o = .ret ∧ s'.value + 1 = s.value ∧ s'.holders = t :: s.holders) := by
  simp only [Semaphore.step] at hs
  split at hs; · contradiction
  split at hs
  · rename_i hv; cases hs; exact ⟨fun _ => ⟨rfl, rfl⟩, fun hp => by omega⟩
  · rename_i hv; cases hs
    exact ⟨fun h0 => absurd h0 hv, fun _ => ⟨rfl, by simp; omega, rfl⟩⟩

/-- Quiescence: once no task is inside an operation and every holder has released, nothing is
queued or in flight and the value accounts for every permit; without extra releases it is the
initial value again. -/
theorem C10_sem_quiescent {s : Semaphore.State} (h : Semaphore.Reach s)
    (hq : ∀ t, s.pc t = .idle) (hh : s.holders = []) :
    s.waiters = [] ∧ s.infl = [] ∧ s.value + s.lost = s.init0 + s.extra ∧
    (s.extra = 0 → s.value = s.init0) := by
  have hi := C10_sem_invariant h
  have hw : s.waiters = [] := by
    apply List.eq_nil_iff_forall_not_mem.mpr
    rintro ⟨t, c⟩ hm
    have := hi.waiter_pc t c hm
    simp [hq t] at this
  have hin : s.infl = [] := by
    apply List.eq_nil_iff_forall_not_mem.mpr
    intro t hm
    have := (hi.infl_iff t).mp hm
    simp [Semaphore.owning, hq t] at this
  have hc := hi.conserve
  have hl := hi.lost_le
  rw [hh, hin] at hc
  simp at hc
  exact ⟨hw, hin, hc, fun he => by omega⟩

/-! ## CapacityLimiter

All statements are about `Limiter.Reach`: states reachable by *any* finite list of events each
of which respects the discipline `okEv` (`OneWaitPerBorrower` and `ReleaseAfterReturn`, see
`AnyioModel.Sync.Limiter`); `C10_disciplined_history` ties this to the decidable predicates on
histories. -/

theorem C10_invariant {s : Limiter.State} (h : Limiter.Reach s) : Limiter.Inv s := by
  refine Reachable.invariant Limiter.Inv ?_ ?_ s h
  · intro s h0; exact Limiter.inv_init h0
  · intro s e s' o hi hs; exact Limiter.inv_step hi hs

/-- A history (any event list, run with the unrestricted `step`) that satisfies the two
decidable predicates leads to a state covered by the theorems below. -/
theorem C10_disciplined_history {s0 s : Limiter.State} {es : List Limiter.Ev}
    (h0 : Limiter.Reach s0) (hr : runFrom Limiter.step s0 es = some s)
    (h1 : Limiter.OneWaitPerBorrower s0 es = true)
    (h2 : Limiter.ReleaseAfterReturn s0 es = true) : Limiter.Reach s := by
  induction es generalizing s0 with
  | nil => simp [runFrom] at hr; exact hr ▸ h0
  | cons e es ih =>
    simp only [runFrom] at hr
    split at hr
    · contradiction
    · rename_i s1 o hs
      simp only [Limiter.OneWaitPerBorrower, Limiter.ReleaseAfterReturn, hs, Bool.and_eq_true] at h1 h2
      have hd : Limiter.dstep s0 e = some (s1, o) := by
        simp [Limiter.dstep, Limiter.okEv, h1.1, h2.1, hs]
      exact ih (Reachable.next h0 hd) hr h1.2 h2.2

/-- Every single wake-up -- in `release`, in the `total_tokens` setter's loop, in a cancelled
waiter's give-back -- starts from a state with a free token and adds exactly one borrower. -/
theorem C10_wake_only_when_free {s s' : Limiter.State} (h : Limiter.Inv s)
    (hw : Limiter.wake1 s = some s') :
    Limiter.ltTot s.borrowers.length s.total = true ∧
    s'.borrowers.length = s.borrowers.length + 1 ∧ s'.total = s.total := by
  obtain ⟨_, hlen, htot, _, hlt, _⟩ := Limiter.invW_wake1 h.toInvW hw
  exact ⟨hlt, hlen, htot⟩

/-- Grant safety: a transition that adds a borrower -- direct caller, woken waiter(s), or the
`total_tokens` setter -- ends with `|borrowers| ≤ total`: every token it handed out was free. -/
theorem C10_grant_safe {s s' : Limiter.State} {e : Limiter.Ev} {o : Limiter.Out}
    (h : Limiter.Reach s) (hs : Limiter.dstep s e = some (s', o))
    (hnew : ∃ c, c ∈ s'.borrowers ∧ c ∉ s.borrowers) :
    Limiter.leTot s'.borrowers.length s'.total = true := by
  obtain ⟨c, hc1, hc2⟩ := hnew
  rcases Limiter.dstep_cases (C10_invariant h) hs with hq | hg | ⟨s1, pre, hw, _, _, hsub, _, _⟩
  · rw [hq.2.1] at hc1; exact absurd hc1 hc2
  · obtain ⟨_, _, hlt, htot, _, b, _, hb, _⟩ := hg
    rw [hb, htot]; exact Limiter.ltTot_succ_le hlt
  · have hpre : pre ≠ [] := by
      rintro rfl
      have := hw.same rfl; subst this
      exact hc2 (hsub c hc1)
    rw [hw.total]; exact hw.safe hpre

/-- Bound, part 1: on every history that never assigned a total below the number borrowed,
`|borrowers| ≤ total`. -/
theorem C10_bound {s : Limiter.State} (h : Limiter.Reach s) (hl : s.lowered = false) :
    Limiter.leTot s.borrowers.length s.total = true :=
  (C10_invariant h).bound hl

/-- Bound, part 2: the ghost flag `lowered` is raised only by such an assignment. -/
theorem C10_bound_flag {s s' : Limiter.State} {e : Limiter.Ev} {o : Limiter.Out}
    (h : Limiter.Reach s) (hs : Limiter.dstep s e = some (s', o)) (hl : s'.lowered = true) :
    s.lowered = true ∨ ∃ v, e = .setTotal v ∧ Limiter.leTot s.borrowers.length v = false := by
  rcases Limiter.dstep_cases (C10_invariant h) hs with hq | hg | ⟨s1, pre, hw, _, _, _, _, hk⟩
  · left; rw [← hq.2.2.2.1]; exact hl
  · left; rw [← hg.2.2.2.2.1]; exact hl
  · rw [hw.lowered] at hl
    rcases hk with ⟨_, hlow, _⟩ | ⟨v, he, _, _, hlow⟩
    · left; rw [← hlow]; exact hl
    · rw [hlow] at hl
      simp only [Bool.or_eq_true, Bool.not_eq_true'] at hl
      rcases hl with hl | hl
      · exact Or.inl hl
      · exact Or.inr ⟨v, he, hl⟩

/-- Bound, part 3: in any case -- also after the total was lowered below the number borrowed --
the number borrowed never *increases* to a value above `total`. -/
theorem C10_bound_step {s s' : Limiter.State} {e : Limiter.Ev} {o : Limiter.Out}
    (h : Limiter.Reach s) (hs : Limiter.dstep s e = some (s', o)) :
    s'.borrowers.length ≤ s.borrowers.length ∨
    Limiter.leTot s'.borrowers.length s'.total = true := by
  rcases Limiter.dstep_cases (C10_invariant h) hs with hq | hg | ⟨s1, pre, hw, _, _, _, hlen, _⟩
  · left; rw [hq.2.1]; exact Nat.le_refl _
  · obtain ⟨_, _, hlt, htot, _, b, _, hb, _⟩ := hg
    right; rw [hb, htot]; exact Limiter.ltTot_succ_le hlt
  · by_cases hpre : pre = []
    · have := hw.same hpre; subst this; left; exact hlen
    · right; rw [hw.total]; exact hw.safe hpre

/-- No idle token: while anybody is queued, every token is borrowed (possibly reserved for a
waiter that has been notified and has not run yet). -/
theorem C10_no_idle_token {s : Limiter.State} (h : Limiter.Reach s) (hq : s.queue ≠ []) :
    Limiter.ltTot s.borrowers.length s.total = false :=
  (C10_invariant h).no_idle hq

/-- The reported numbers are the true ones: `borrowed_tokens` (`|borrowers|`; `available_tokens`
is `total - |borrowers|` by definition) equals the number of borrowers that hold a token plus
the number of tokens reserved for acquire calls in flight; the set of borrowers is exactly
holders ∪ reserved; `holders` counts grants minus releases. -/
theorem C10_stats {s : Limiter.State} (h : Limiter.Reach s) :
    s.borrowers.length = s.holders.length + s.resv.length ∧
    (∀ b, b ∈ s.borrowers ↔ (b ∈ s.holders ∨ ∃ u, (b, u) ∈ s.resv)) ∧
    s.holders.length + s.rels = s.grants := by
  have hi := C10_invariant h
  refine ⟨?_, hi.mem_B, hi.counts⟩
  have hnd : (s.holders ++ s.resv.map Prod.fst).Nodup := by
    refine List.nodup_append.mpr ⟨hi.nodupH, hi.nodupR, ?_⟩
    intro a ha b hb hab
    subst hab
    obtain ⟨u, hu⟩ := Limiter.mem_keys.mp hb
    exact hi.disjHR a u ha hu
  have hperm : s.borrowers.Perm (s.holders ++ s.resv.map Prod.fst) := by
    apply (List.perm_ext_iff_of_nodup hi.nodupB hnd).mpr
    intro a
    rw [hi.mem_B a, List.mem_append, Limiter.mem_keys]
  have := hperm.length_eq
  simpa using this

/-- A borrower never holds two tokens: a second acquire for a current borrower is refused with
the state unchanged, and the borrower and holder collections are duplicate-free. -/
theorem C10_one_token {s : Limiter.State} (h : Limiter.Reach s) :
    s.borrowers.Nodup ∧ s.holders.Nodup ∧
    (∀ t b s' o, b ∈ s.borrowers →
      (Limiter.step s (.acquireOnBehalf t b false) = some (s', o) ∨
       Limiter.step s (.acquireOnBehalfNowait t b) = some (s', o)) →
      o = .runtimeError ∧ s' = s) ∧
    (∀ t s' o, t ∈ s.borrowers →
      (Limiter.step s (.acquire t false) = some (s', o) ∨
       Limiter.step s (.acquireNowait t) = some (s', o)) →
      o = .runtimeError ∧ s' = s) := by
  have hi := C10_invariant h
  refine ⟨hi.nodupB, hi.nodupH, ?_, ?_⟩
  · intro t b s' o hb hs
    rcases hs with hs | hs <;>
      simp only [Limiter.step, Limiter.acq, Limiter.acqNowait] at hs <;> grind
  · intro t s' o hb hs
    rcases hs with hs | hs <;>
      simp only [Limiter.step, Limiter.acq, Limiter.acqNowait] at hs <;> grind

/-- Releasing for a non-borrower is refused with the state unchanged. -/
theorem C10_release_non_borrower {s s' : Limiter.State} {o : Limiter.Out} {t b : Nat}
    (hb : b ∉ s.borrowers) :
    (Limiter.step s (.releaseOnBehalf t b) = some (s', o) → o = .runtimeError ∧ s' = s) ∧
    (b = t → Limiter.step s (.release t) = some (s', o) → o = .runtimeError ∧ s' = s) := by
  constructor
  · intro hs; simp only [Limiter.step, Limiter.rel] at hs; grind
  · rintro rfl hs; simp only [Limiter.step, Limiter.rel] at hs; grind

/-- ... and a holder's release is always accepted and removes exactly that borrower. -/
theorem C10_release_holder {s : Limiter.State} (h : Limiter.Reach s) {t b : Nat}
    (hpc : s.pc t = .idle) (hb : b ∈ s.holders) :
    ∃ s', Limiter.dstep s (.releaseOnBehalf t b) = some (s', .ret) ∧ b ∉ s'.holders := by
  have hi := C10_invariant h
  have hbB : b ∈ s.borrowers := (hi.mem_B b).mpr (Or.inl hb)
  have hnr : ∀ u, (b, u) ∉ s.resv := fun u hu => hi.disjHR b u hb hu
  have hok : Limiter.okEv s (.releaseOnBehalf t b) = true := by
    simp only [Limiter.okEv, Limiter.oneWaitOk, Limiter.releaseOk, Bool.true_and,
      Bool.not_eq_true', List.contains_eq_mem, decide_eq_false_iff_not]
    intro hm
    obtain ⟨u, hu⟩ := Limiter.mem_keys.mp hm
    exact hnr u hu
  refine ⟨Limiter.notify { s with borrowers := s.borrowers.erase b, holders := s.holders.erase b,
                                   rels := s.rels + 1 }, ?_, ?_⟩
  · simp [Limiter.dstep, hok, Limiter.step, Limiter.rel, hpc, hbB]
  · obtain ⟨pre, hw, _⟩ := Limiter.notify_woke
      { s with borrowers := s.borrowers.erase b, holders := s.holders.erase b, rels := s.rels + 1 }
    rw [hw.holders]
    exact fun hm => ((List.Nodup.mem_erase_iff hi.nodupH).mp hm).1 rfl

/-- Cancel-safety.  When a task's acquire call ends with the cancellation exception, the task
is idle, has no queue entry and no reservation; nobody's holdings and no counter change; the
number borrowed does not grow.  If a token had already been reserved for the call (uncontended
path, or notified waiter -- also one notified *after* its future was cancelled) the borrower
is no longer registered; otherwise the borrower set is untouched.  `C10_invariant` for the
successor state then says the token has been handed on: `C10_no_idle_token` holds again. -/
theorem C10_cancel_safe {s s' : Limiter.State} (h : Limiter.Reach s) {t : Nat}
    (hs : Limiter.dstep s (.step t) = some (s', .cancelled)) :
    s'.pc t = .idle ∧ (∀ b, (b, t) ∉ s'.queue) ∧ (∀ b, (b, t) ∉ s'.resv) ∧
    s'.holders = s.holders ∧ s'.grants = s.grants ∧ s'.rels = s.rels ∧
    s'.borrowers.length ≤ s.borrowers.length ∧
    (Limiter.reserving (s.pc t) → s.beh t ∉ s'.borrowers) ∧
    (¬ Limiter.reserving (s.pc t) → s'.borrowers = s.borrowers) := by
  open Limiter in
  have hi := C10_invariant h
  open Limiter in
  have hi' := C10_invariant (Reachable.next h hs)
  open Limiter in
  have hgb : reserving (s.pc t) →
      let s2 := notify { s with pc := upd s.pc t .idle, resv := unresv t s.resv,
                                borrowers := s.borrowers.erase (s.beh t) }
      s2.pc t = .idle ∧ s2.holders = s.holders ∧ s2.grants = s.grants ∧ s2.rels = s.rels ∧
      s2.borrowers.length ≤ s.borrowers.length ∧ s.beh t ∉ s2.borrowers := by
    intro hr
    obtain ⟨hm, hbB, hbH, hbU, hbQ, hnq⟩ := resv_facts hi.toInvW hr
    obtain ⟨hw1, hlen⟩ := invW_unreserve hi.toInvW hr
    obtain ⟨pre, hw, hl⟩ := notify_woke
      { s with pc := upd s.pc t .idle, resv := unresv t s.resv,
               borrowers := s.borrowers.erase (s.beh t) }
    have hpre : ∀ x, x ∈ pre → x ∈ s.queue := by
      intro x hx
      have := hw.queue
      simp only at this
      rw [this]; simp [hx]
    refine ⟨?_, hw.holders, hw.grants, hw.rels, ?_, ?_⟩
    · rw [hw.pc t]
      · simp
      · intro b hb
        exact hnq (hi.q_pc b t (hpre _ hb)).2
    · have := hw.len; simp only at this hlen; omega
    · intro hmem
      rcases hw.new _ hmem with hc | ⟨u, hu⟩
      · exact ((List.Nodup.mem_erase_iff hi.nodupB).mp hc).1 rfl
      · exact hbQ u (hpre _ hu)
  open Limiter in
  have key : s'.pc t = .idle ∧ s'.holders = s.holders ∧ s'.grants = s.grants ∧ s'.rels = s.rels ∧
      s'.borrowers.length ≤ s.borrowers.length ∧
      (reserving (s.pc t) → s.beh t ∉ s'.borrowers) ∧
      (¬ reserving (s.pc t) → s'.borrowers = s.borrowers) := by
    simp only [dstep, okEv, oneWaitOk, releaseOk, Bool.and_self, if_true, step] at hs
    split at hs
    · contradiction
    · contradiction
    · cases hs
    · rename_i hpc; cases hs; simp [hpc, reserving]
    · cases hs
    · rename_i hpc
      have hr : reserving (s.pc t) := by simp [hpc, reserving]
      obtain ⟨_, hbB, _⟩ := resv_facts hi.toInvW hr
      simp only [hbB, if_true] at hs
      cases hs
      obtain ⟨a1, a2, a3, a4, a5, a6⟩ := hgb hr
      exact ⟨a1, a2, a3, a4, a5, fun _ => a6, fun hn => absurd hr hn⟩
    · rename_i hpc; cases hs; simp [hpc, reserving]
    · cases hs
    · rename_i hpc
      have hr : reserving (s.pc t) := by simp [hpc, reserving]
      cases hs
      rw [giveBack_eq hi hr]
      obtain ⟨a1, a2, a3, a4, a5, a6⟩ := hgb hr
      exact ⟨a1, a2, a3, a4, a5, fun _ => a6, fun hn => absurd hr hn⟩
    · rename_i hpc
      have hr : reserving (s.pc t) := by simp [hpc, reserving]
      cases hs
      rw [giveBack_eq hi hr]
      obtain ⟨a1, a2, a3, a4, a5, a6⟩ := hgb hr
      exact ⟨a1, a2, a3, a4, a5, fun _ => a6, fun hn => absurd hr hn⟩
  obtain ⟨k1, k2, k3, k4, k5, k6, k7⟩ := key
  refine ⟨k1, ?_, ?_, k2, k3, k4, k5, k6, k7⟩
  · intro b hm; have := (hi'.q_pc b t hm).2; simp [Limiter.queued, k1] at this
  · intro b hm; have := (hi'.r_pc b t hm).2; simp [Limiter.reserving, k1] at this

/-- Quiescence: once no task is inside an operation and every holder has released, the limiter
is back in its initial state: no borrowers, empty queue, nothing reserved, all tokens free. -/
theorem C10_quiescent {s : Limiter.State} (h : Limiter.Reach s)
    (hq : ∀ t, s.pc t = .idle) (hh : s.holders = []) :
    s.borrowers = [] ∧ s.queue = [] ∧ s.resv = [] := by
  have hi := C10_invariant h
  have hr : s.resv = [] := by
    apply List.eq_nil_iff_forall_not_mem.mpr
    rintro ⟨b, u⟩ hm
    have := (hi.r_pc b u hm).2
    simp [Limiter.reserving, hq u] at this
  have hqq : s.queue = [] := by
    apply List.eq_nil_iff_forall_not_mem.mpr
    rintro ⟨b, u⟩ hm
    have := (hi.q_pc b u hm).2
    simp [Limiter.queued, hq u] at this
  refine ⟨?_, hqq, hr⟩
  apply List.eq_nil_iff_forall_not_mem.mpr
  intro b hb
  rcases (hi.mem_B b).mp hb with hm | ⟨u, hu⟩
  · simp [hh] at hm
  · simp [hr] at hu

/-- First come, first served.  A token is newly reserved for `(b, u)` either because `u` itself
took a free token while *nobody was queued*, or because `(b, u)` was in the queue and the step
notified it together with *every entry ahead of it*. -/
theorem C10_fifo {s s' : Limiter.State} {e : Limiter.Ev} {o : Limiter.Out}
    (h : Limiter.Reach s) (hs : Limiter.dstep s e = some (s', o)) {b u : Nat}
    (hnew : (b, u) ∈ s'.resv) (hold : (b, u) ∉ s.resv) :
    (s.queue = [] ∧ s.pc u = .idle) ∨
    (∃ pre rest, s.queue = pre ++ (b, u) :: rest ∧ ∀ x ∈ pre, x ∈ s'.resv) := by
  rcases Limiter.dstep_cases (C10_invariant h) hs with hq | hg | ⟨s1, pre, hw, hq1, hr1, _, _, _⟩
  · exact absurd (hq.2.2.1 _ hnew) hold
  · obtain ⟨hq0, _, _, _, _, b', _, _, hr⟩ := hg
    rcases hr with hr | ⟨t, hr, hpc⟩
    · rw [hr] at hnew; exact absurd hnew hold
    · rw [hr] at hnew
      rcases List.mem_cons.mp hnew with he | hm
      · cases he; exact Or.inl ⟨hq0, hpc⟩
      · exact absurd hm hold
  · right
    rw [hw.resv] at hnew
    rcases List.mem_append.mp hnew with hm | hm
    · have hm' : (b, u) ∈ pre := List.mem_reverse.mp hm
      obtain ⟨p1, p2, hp⟩ := List.append_of_mem hm'
      refine ⟨p1, p2 ++ s'.queue, ?_, ?_⟩
      · rw [← hq1, hw.queue, hp]; simp
      · intro x hx
        rw [hw.resv]
        apply List.mem_append_left
        apply List.mem_reverse.mpr
        rw [hp]; simp [hx]
    · exact absurd (hr1 _ hm) hold

/-- No barging: while somebody is queued, a new borrower can only be a queued one. -/
theorem C10_no_barging {s s' : Limiter.State} {e : Limiter.Ev} {o : Limiter.Out}
    (h : Limiter.Reach s) (hs : Limiter.dstep s e = some (s', o)) {c : Nat}
    (hc1 : c ∈ s'.borrowers) (hc2 : c ∉ s.borrowers) (hq : s.queue ≠ []) :
    ∃ u, (c, u) ∈ s.queue := by
  rcases Limiter.dstep_cases (C10_invariant h) hs with hq' | hg | ⟨s1, pre, hw, hq1, _, hsub, _, _⟩
  · rw [hq'.2.1] at hc1; exact absurd hc1 hc2
  · exact absurd hg.1 hq
  · rcases hw.new c hc1 with hm | ⟨u, hu⟩
    · exact absurd (hsub c hm) hc2
    · exact ⟨u, by rw [← hq1, hw.queue]; simp [hu]⟩

/-- The queue keeps arrival order: a step only appends the caller at the tail or deletes
entries (a notified prefix, or a cancelled waiter's own entry). -/
theorem C10_queue_order {s s' : Limiter.State} {e : Limiter.Ev} {o : Limiter.Out}
    (h : Limiter.Reach s) (hs : Limiter.dstep s e = some (s', o)) :
    s'.queue.Sublist s.queue ∨ ∃ b t, s'.queue = s.queue ++ [(b, t)] ∧ s.pc t = .idle := by
  rcases Limiter.dstep_cases (C10_invariant h) hs with hq | hg | ⟨s1, pre, hw, hq1, _, _, _, _⟩
  · rcases hq.2.2.2.2 with he | ⟨b, t, he, hpc⟩ | ⟨t, he, _⟩
    · left; rw [he]; exact List.Sublist.refl _
    · right; exact ⟨b, t, he, hpc⟩
    · left; rw [he]; exact List.filter_sublist
  · left; rw [hg.2.1, hg.1]; exact List.Sublist.refl _
  · left; rw [← hq1, hw.queue]; exact List.sublist_append_right _ _

/-! ## non-vacuity: the hypotheses above are met by concrete contended histories -/

section examples
open Semaphore in
/-- Semaphore(1): 1 takes the permit, 2 and 3 queue, 2 is cancelled while queued, 1 releases:
the permit skips 2's cancelled future and goes to 3 without passing through `value` -/
example :
    (runFrom step (init false 1 none)
      [.acquire 1 false, .step 1, .acquire 2 false, .acquire 3 false, .fc 2, .release 1]).map
      (fun s => (s.value, s.waiters, s.pc 3, s.infl)) =
    some (0, [], Pc.granted, [3]) := by decide

open Semaphore in
/-- hand-over cycle: 1 releases to 2, a native cancel hits 2 before it runs, 2 passes it to 3 -/
example :
    (runFrom step (init false 1 none)
      [.acquire 1 false, .step 1, .acquire 2 false, .acquire 3 false, .release 1, .mc 2,
       .step 2]).map
      (fun s => (s.value, s.waiters, s.pc 2, s.pc 3, s.infl)) =
    some (0, [], Pc.idle, Pc.granted, [3]) := by decide

open Semaphore in
/-- Semaphore(0, max_value=1) used as a signal: an extra release is a new permit; the third
release is refused -/
example :
    (traceFrom step (init false 0 (some 1)) [.acquire 1 false, .release 2, .release 2, .release 2]).map
      (fun r => (r.1.value, r.1.pc 1, r.1.extra, r.2)) =
    some (1, Pc.granted, 2, [Out.susp, Out.ret, Out.ret, Out.valueError]) := by decide

open Semaphore in
/-- ... and if the signalled waiter is then cancelled natively before it runs, the permit it
gives back is an over-release: `acquire` raises `ValueError`, the permit is dropped (`lost`) -/
example :
    (traceFrom step (init false 0 (some 1))
      [.acquire 1 false, .release 2, .release 2, .mc 1, .step 1]).map
      (fun r => (r.1.value, r.1.pc 1, r.1.extra, r.1.lost, r.2.getLast?)) =
    some (1, Pc.idle, 2, 1, some Out.valueError) := by decide

open Limiter in
/-- the F1 history: CapacityLimiter(2), tasks 0 and 1 hold, 2 waits; `total_tokens = 1` then
`= 2` wakes nobody (2 of 2 borrowed); only a release lets 2 in -/
example :
    (runFrom dstep (init (some 2))
      [.acquire 0 false, .step 0, .acquire 1 false, .step 1, .acquire 2 false,
       .setTotal (some 1), .setTotal (some 2)]).map
      (fun s => (s.borrowers, s.queue, s.total, s.lowered, s.pc 2)) =
    some ([1, 0], [(2, 2)], some 2, true, Pc.waiting) := by decide

open Limiter in
example :
    (runFrom dstep (init (some 2))
      [.acquire 0 false, .step 0, .acquire 1 false, .step 1, .acquire 2 false,
       .setTotal (some 1), .setTotal (some 2), .release 0]).map
      (fun s => (s.borrowers, s.queue, s.pc 2, s.holders)) =
    some ([2, 1], [], Pc.granted, [1]) := by decide

open Limiter in
/-- the same history satisfies the two decidable preconditions -/
example :
    let es : List Ev := [.acquire 0 false, .step 0, .acquire 1 false, .step 1, .acquire 2 false,
       .setTotal (some 1), .setTotal (some 2), .release 0]
    OneWaitPerBorrower (init (some 2)) es = true ∧ ReleaseAfterReturn (init (some 2)) es = true := by
  decide

open Limiter in
/-- raising the total with waiters and free capacity wakes exactly as many as fit, in order;
infinity wakes all -/
example :
    (runFrom dstep (init (some 0))
      [.acquire 0 false, .acquireOnBehalf 1 100 false, .acquire 2 false, .setTotal (some 2)]).map
      (fun s => (s.borrowers, s.queue, s.pc 0, s.pc 1, s.pc 2)) =
    some ([100, 0], [(2, 2)], Pc.granted, Pc.granted, Pc.waiting) := by decide

open Limiter in
example :
    (runFrom dstep (init (some 0))
      [.acquire 0 false, .acquireOnBehalf 1 100 false, .acquire 2 false, .setTotal none]).map
      (fun s => (s.borrowers.length, s.queue)) = some (3, []) := by decide

open Limiter in
/-- hand-over cycle: 0 releases, the token is reserved for 1; a native cancel hits 1 before it
runs; 1 gives the token back and 2 is notified -/
example :
    (runFrom dstep (init (some 1))
      [.acquire 0 false, .step 0, .acquire 1 false, .acquire 2 false, .release 0, .mc 1,
       .step 1]).map
      (fun s => (s.borrowers, s.queue, s.pc 1, s.pc 2)) =
    some ([2], [], Pc.idle, Pc.granted) := by decide

open Limiter in
/-- a waiter whose future is already cancelled is still notified (its entry is in the queue
until it runs): it gives the token back when it runs (`grantedFC`) -/
example :
    (traceFrom dstep (init (some 1))
      [.acquire 0 false, .step 0, .acquire 1 false, .acquire 2 false, .fc 1, .release 0,
       .step 1]).map
      (fun r => (r.1.borrowers, r.1.queue, r.1.pc 1, r.1.pc 2, r.2.getLast?)) =
    some ([2], [], Pc.idle, Pc.granted, some Out.cancelled) := by decide

open Limiter in
/-- F8: `acquire_on_behalf_of(100)` by task 0 on the uncontended path, native cancel in the
checkpoint: borrower 100's token is given back (not the caller's own) -/
example :
    (traceFrom dstep (init (some 2))
      [.acquire 0 false, .step 0, .acquireOnBehalf 0 100 false, .mc 0, .step 0]).map
      (fun r => (r.1.borrowers, r.1.holders, r.1.resv, r.2.getLast?)) =
    some ([0], [0], [], some Out.cancelled) := by decide

open Limiter in
/-- the boundary of the claim: the same borrower waiting twice is *not* a disciplined history,
and it does break the bookkeeping (task 1 is left waiting with no queue entry once task 0,
whose entry it overwrote, is cancelled) -/
example :
    let es : List Ev := [.acquireOnBehalf 0 100 false, .acquireOnBehalf 1 100 false, .fc 0, .step 0]
    OneWaitPerBorrower (init (some 0)) es = false ∧
    (runFrom step (init (some 0)) es).map (fun s => (s.queue, s.pc 1)) =
      some ([], Pc.waiting) := by decide

end examples

end AnyioModel.Props.C10
