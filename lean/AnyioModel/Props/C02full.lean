/-
C02  Task group errors, the statements that need "`__aexit__` runs at most once per group"
(the host invariant `HInv` of `AnyioModel.Kernel.HostInv` .. `HostInv5`: the current scope of a
running task is hosted by it, so only the task that entered the group can pass the guard of
`__aexit__`, and only once).  Property theorems only; `Props/C02.lean` has the step-local part and
the `_partial` versions this file supersedes.

* `C02_aexit_disabled`, `C02_aexit_once`, `C02_aexit_enters`: `__aexit__` of a group is executed at
  most once;
* `C02_exactly_once`: the accounting invariant without slack (`B0 = []` in
  `C02_exactly_once_partial`);
* `C02_exactly_once_at_exit`: the transition in which the block ends raises/returns exactly the
  collected errors.
-/
import AnyioModel.Kernel.ExitStep2
import AnyioModel.Props.C02

namespace AnyioModel.Kernel

/-- At most once, state form: in every reachable state, if `__aexit__` of `g` has recorded an
exception of the body, or a task is inside `__aexit__` of `g`, or the block of `g` has ended, then
`__aexit__` of `g` cannot be started: `.aexit g ev'` is not enabled. -/
theorem C02_aexit_disabled {st : State} (h : Reach st) (g : Nat) (ev' : ExcVal)
    (hk : (st.groups g).bodyErrs ≠ [] ∨ (∃ t, InAexit st g t) ∨ (st.groups g).exited = true) :
    step st (.aexit g ev') = none := by
  rcases hk with hk | hk | hk
  · exact hinv_aexit_disabled (hinv_reach h) (wf_reach h) g ev' (.inl hk)
  · exact hinv_aexit_disabled (hinv_reach h) (wf_reach h) g ev' (.inr (.inr hk))
  · rw [step_aexit]
    split
    · rfl
    · simp [hk]

/-- At most once, along every run: once `.aexit g ev` has been executed, `.aexit g ev'` is never
enabled again, whatever happens in between (any event list `evs`). -/
theorem C02_aexit_once {st st1 st2 : State} {g : Nat} {ev : ExcVal} {o : Out} (h : Reach st)
    (hs : step st (.aexit g ev) = some (st1, o)) (evs : List Ev)
    (hr : runFrom step st1 evs = some st2) (ev' : ExcVal) : step st2 (.aexit g ev') = none := by
  have h1 : Reach st1 := Reachable.next h hs
  have i1 := hinv_aexit_mark (hinv_reach h) (wf_reach h) hs
  have i2 := hinv_runFrom evs h1 i1 hr
  exact hinv_aexit_disabled i2 (wf_reach (reachable_of_runFrom h1 evs hr)) g ev' (.inr (.inl rfl))

/-- ... because from then on, until the block ends, some task is inside `__aexit__` of `g`; and the
transition that starts `__aexit__` does not end the block itself. -/
theorem C02_aexit_enters {st st1 st2 : State} {g : Nat} {ev : ExcVal} {o : Out} (h : Reach st)
    (hs : step st (.aexit g ev) = some (st1, o)) (evs : List Ev)
    (hr : runFrom step st1 evs = some st2) :
    (st1.groups g).exited = false ∧
      ((st2.groups g).exited = true ∨ ∃ t, InAexit st2 g t) := by
  have h1 : Reach st1 := Reachable.next h hs
  have i1 := hinv_aexit_mark (hinv_reach h) (wf_reach h) hs
  have i2 := hinv_runFrom evs h1 i1 hr
  refine ⟨?_, ?_⟩
  · cases hx : (st1.groups g).exited
    · rfl
    · have hx0 := ex_aexit hs g hx
      have hd := C02_aexit_disabled h g ev (.inr (.inr hx0))
      rw [hd] at hs; cases hs
  · rcases i2.b1 g (.inr rfl) with hx | ⟨t, hi | hi⟩
    · exact .inl hx
    · exact .inr ⟨t, hi⟩
    · cases hi

/-- Exactly once, accounting invariant at full strength: in every reachable state, for every group
whose block has not ended, `_exceptions` is a permutation of the leaves the body handed to
`__aexit__` followed by the errors of the routed children; every child is routed at most once, and
only children of the group whose `task_done` has run and whose outcome is a non-cancellation
exception are routed. -/
theorem C02_exactly_once {st : State} (h : Reach st) (g : Nat)
    (hx : (st.groups g).exited = false) :
    List.Perm (st.groups g).exceptions ((st.groups g).bodyErrs ++ routedErrs st g) ∧
    (st.groups g).routed.Nodup ∧
    (∀ u ∈ (st.groups g).routed, u ∈ (st.groups g).spawned ∧ (st.tasks u).doneCbRun = true ∧
      ∃ o, (st.tasks u).outcome = some o ∧ o.isCancelledError = false ∧ o ≠ .none) := by
  have a := ainv0_reach h
  refine ⟨a.acct g hx, a.nodup g, fun u hu => ?_⟩
  have := a.routed_cb g u hu
  exact ⟨(ginv_reach h).g0 u g this.2.1, this.1, this.2.2⟩

/-- `routedErrs` is the concatenation, over the routed children, of the leaves of their outcome -/
theorem C02_routedErrs_eq (st : State) (g : Nat) :
    routedErrs st g = (st.groups g).routed.flatMap
      (fun u => match (st.tasks u).outcome with | some o => errs o | none => []) := rfl

/-- Exactly once, at the end of the block: in every reachable state, the transition in which the
block of `g` ends (`exited` becomes true) is the resumption of the task that is inside
`__aexit__` of `g`, it completes `__aexit__` with `.done ev'`, and the non-cancellation leaves of
what is raised (`ev' = .none`: the block returns normally) are a permutation of the
non-cancellation leaves of the body's exception and the errors of the routed children: nothing is
lost, nothing is duplicated, nothing else is raised. -/
theorem C02_exactly_once_at_exit {st st' : State} {e : Ev} {o : Out} {g : Nat} (h : Reach st)
    (hs : step st e = some (st', o)) (hx : (st.groups g).exited = false)
    (hx' : (st'.groups g).exited = true) :
    ∃ t ev', (e = .run (.step t) ∨ e = .run (.wakeup t)) ∧ InAexit st g t ∧ o = .done ev' ∧
      List.Perm (ev'.leaves.filter (fun x => !x.isCancel))
        (((st.groups g).bodyErrs ++ routedErrs st g).filter (fun x => !x.isCancel)) := by
  rcases step_fin hs with hex | ⟨t, g0, s, ev0, ev, x, he, hl, hn, px, hf⟩
  · have := hex g hx'; rw [hx] at this; cases this
  · have hg : g = g0 := by
      apply Classical.byContradiction
      intro hne
      have h1 := aexitFinish_ex hf g hne
      rw [(px.groups g).exited, hx] at h1
      rw [h1] at hx'; cases hx'
    subst hg
    obtain ⟨ev', ho, _, hfil⟩ := C02_exit_output hf
    refine ⟨t, ev', he, ⟨s, ev0, hl⟩, ho, ?_⟩
    have hacct := (ainv0_reach h).acct g hx
    have he1 : nc ev0.leaves = nc (st.groups g).bodyErrs :=
      (hinv_reach h).e1 t g s ev0 (fun t0 => by simp) hl
    rw [hfil, (px.groups g).exceptions]
    by_cases hne : (st.groups g).exceptions = []
    · rw [hne] at hacct
      have hnil := hacct.symm.eq_nil
      have hb : (st.groups g).bodyErrs = [] := (List.append_eq_nil_iff.mp hnil).1
      rw [if_neg (by simpa using hne), hnil]
      have : nc ev.leaves = [] := by rw [hn, he1, hb]; rfl
      unfold nc at this
      rw [this]
      exact List.Perm.refl _
    · rw [if_pos hne]
      exact hacct.filter _

/-! ### non-vacuity -/

/-- `__aexit__` has started (a child is still running): it cannot be started again, neither by the
host task (it is inside `__aexit__`) nor after the child has run -/
example : (runFrom step init
    [.mkGroup, .groupEnter 0, .spawn 0, .aexit 0 .none, .beginCycle 0, .run (.step 1)]).map
    (fun st => ((st.tasks 0).lib, (step st (.aexit 0 (.one (.err 7)))).isNone)) =
    some (.aexitWait 0 2 .none, true) := by decide

/-- the child task of the group has the group scope as its current scope only before its first
step; once it runs, its current scope is its handle scope: the guard of `.aexit` fails for it -/
example : (runFrom step init
    [.mkGroup, .groupEnter 0, .spawn 0, .yield, .beginCycle 0, .run (.step 1)]).map
    (fun st => (st.running, (st.tasks 1).scope, (st.groups 0).scope,
      (step st (.aexit 0 .none)).isNone)) = some (some 1, some 1, 0, true) := by decide

/-- accounting without slack: body raised `err 3`, the children `err 1` and `err 2` -/
example : (runFrom step init
    [.mkGroup, .groupEnter 0, .spawn 0, .spawn 0, .aexit 0 (.one (.err 3)),
     .beginCycle 0, .run (.step 1), .finish (.one (.err 1)), .run (.step 2),
     .finish (.one (.err 2)), .run (.deliver 0),
     .beginCycle 0, .run (.taskDone 1), .run (.taskDone 2), .run (.deliver 0)]).map
    (fun st => ((st.groups 0).exceptions, (st.groups 0).bodyErrs, routedErrs st 0,
      (st.groups 0).exited)) =
    some ([.err 3, .err 1, .err 2], [.err 3], [.err 2, .err 1], false) := by decide

/-- the transition that ends the block: resumption of the host task, output `.done` of the
collected errors, `exited` set -/
example : (traceFrom step init
    [.mkGroup, .groupEnter 0, .spawn 0, .spawn 0, .aexit 0 (.one (.err 3)),
     .beginCycle 0, .run (.step 1), .finish (.one (.err 1)), .run (.step 2),
     .finish (.one (.err 2)), .run (.deliver 0),
     .beginCycle 0, .run (.taskDone 1), .run (.taskDone 2), .run (.deliver 0),
     .run (.wakeup 0)]).map (fun p => (p.2.getLast?, (p.1.groups 0).exited)) =
    some (some (.done (.group [.err 3, .err 1, .err 2])), true) := by decide

/-- a native cancellation arrives while `__aexit__` waits; the body had raised nothing: the block
ends with the cancellation, whose non-cancellation leaves are `[]` like those of `bodyErrs` -/
example : (traceFrom step init
    [.mkGroup, .groupEnter 0, .spawn 0, .aexit 0 .none, .nativeCancel 0,
     .beginCycle 0, .run (.wakeup 0), .run (.step 1), .finish .none,
     .beginCycle 0, .run (.deliver 0), .run (.taskDone 1), .beginCycle 0, .run (.wakeup 0)]).map
    (fun p => (p.2.getLast?, (p.1.groups 0).exited, (p.1.groups 0).bodyErrs)) =
    some (some (.done (.one .cancelNative)), true, []) := by decide

end AnyioModel.Kernel
