import AnyioModel.Kernel.Step
