/-
C04  Cancellation containment — delivery soundness (the reachability half; the pure-function half
is `Props/C04pure.lean`).

"A task receives an AnyIO cancellation only while its current scope is effectively cancelled; code
inside a shielded scope and tasks outside the cancelled subtree are never interrupted."  The only
place where the kernel calls `Task.cancel()` with a cancel-scope message is the loop body of
`_deliver_cancellation`; `Props/C03.lean` (`C03_deliverGo_spec`, `C03_deliver_hits`) shows that a
delivery from origin `o` calls it exactly on the tasks of `hitSet st o`, i.e. on tasks sitting in a
scope `c` with `reachDown st o c`.  Here: every such scope is effectively cancelled when `o` is
cancelled (in the sense of `C04_effectively_cancelled_iff`), lies in the subtree of `o`, and has no
shielded scope between itself and `o`; hence a task whose scope is not effectively cancelled is
left untouched by every delivery.

Lemmas: `Kernel/DeliverInv.lean` .. `DeliverInv7.lean`; for the versions over `Reach` that do not
assume `cancelCalled o` (a scheduled `deliver o` callback implies it): `DeliverInv8.lean` .. `10`.
-/
import AnyioModel.Kernel.DeliverInv7
import AnyioModel.Kernel.DeliverInv10
import AnyioModel.Props.C04pure

namespace AnyioModel.Kernel

/-- **C04_reached_effectively_cancelled.**  Every scope a delivery from a cancelled origin reaches
is effectively cancelled. -/
theorem C04_reached_effectively_cancelled {st : State} (w : WF st) {o c : Nat}
    (r : reachDown st o c) (hc : (st.scopes o).cancelCalled = true) :
    effCancelled st c = true :=
  effCancelled_of_reachDown w r hc

/-- **C04_deliver_sound.**  Every task hit by a delivery from a cancelled origin sits in a scope —
its current scope, `_task_states[task].cancel_scope` — that is effectively cancelled. -/
theorem C04_deliver_sound {st : State} (w : WF st) {o t : Nat}
    (hc : (st.scopes o).cancelCalled = true) (hh : hitSet st o t) :
    ∃ c, (st.tasks t).scope = some c ∧ t ∈ (st.scopes c).tasks ∧ effCancelled st c = true := by
  obtain ⟨c, hr, ht, _⟩ := hh
  exact ⟨c, ((w.tasks_mem c t).mp ht).2, ht, effCancelled_of_reachDown w hr hc⟩

/-- **C04_deliver_subtree.**  A task hit by a delivery from `o` lies in the subtree of `o`: its
scope is `o` or has `o` among its ancestors.  Tasks outside the cancelled subtree are never hit. -/
theorem C04_deliver_subtree {st : State} (w : WF st) {o t : Nat} (hh : hitSet st o t) :
    ∃ c, (st.tasks t).scope = some c ∧ (c = o ∨ o ∈ (st.scopes c).chain) := by
  obtain ⟨c, hr, ht, _⟩ := hh
  exact ⟨c, ((w.tasks_mem c t).mp ht).2, mem_chain_of_reachDown w hr⟩

/-- **C04_shield_blocks_delivery.**  Between a scope that a delivery from `o` reaches and `o`
there is no shielded scope (and no scope with a cancellation of its own, which delivers for
itself): reading the chain of `c` from `c` upwards, every scope before `o` is neither shielded nor
cancelled.  So tasks inside a shielded scope below the origin are never hit. -/
theorem C04_shield_blocks_delivery {st : State} (w : WF st) {o c : Nat} (r : reachDown st o c)
    (i : Nat) (hi : i < (st.scopes c).chain.length) (ho : (st.scopes c).chain[i] = o)
    (j : Nat) (hj : j < i) :
    (st.scopes ((st.scopes c).chain[j]'(Nat.lt_trans hj hi))).shield = false ∧
    (st.scopes ((st.scopes c).chain[j]'(Nat.lt_trans hj hi))).cancelCalled = false := by
  have nd := w.chain_nodup c
  rcases reachDownChain_of_reachDown w r with rfl | ⟨i', hi', ho', hb⟩
  · -- `c = o`: `o` is the head of its own chain
    exfalso
    have hent : (st.scopes c).entered = true := by
      cases he : (st.scopes c).entered
      · rw [(w.not_entered c he).2.2.2.2.2] at hi; simp at hi
      · rfl
    have h0 : (st.scopes c).chain[0]'(by omega) = c := by
      have := w.chain_spec c hent
      simp only [this]; simp
    have := (List.getElem_inj (h₀ := hi) (h₁ := by omega) nd).mp (ho.trans h0.symm)
    omega
  · have e : i' = i :=
      (List.getElem_inj (h₀ := hi') (h₁ := hi) nd).mp (ho'.trans ho.symm)
    subst e
    exact ⟨(hb j hj).2.1, (hb j hj).2.2⟩

/-- **C04_deliver_contained.**  A task whose current scope is not effectively cancelled is not in
the hit set of any delivery from a cancelled origin: the walk of `_deliver_cancellation` leaves
its whole record (state, `_must_cancel`, `cancelling()`, ...) unchanged. -/
theorem C04_deliver_contained {st : State} (w : WF st) (bw : BW st) {o t c : Nat}
    (hc : (st.scopes o).cancelCalled = true) (hs : (st.tasks t).scope = some c)
    (he : effCancelled st c = false) :
    ¬ hitSet st o t ∧ (deliverGo (st.nScopes + 1) st o o).1.tasks t = st.tasks t ∧
      (deliver st o).tasks t = st.tasks t := by
  have hn : ¬ hitSet st o t := by
    intro hh
    obtain ⟨c', h1, _, h3⟩ := C04_deliver_sound w hc hh
    rw [hs] at h1
    cases h1
    rw [he] at h3; cases h3
  exact ⟨hn, (deliverGo_task w.tree bw o t).2 hn, (deliver_task w.tree bw o t).2 hn⟩

/-- **C04_deliver_contained_step.**  In every reachable state, the delivery callback of a cancelled
scope does not touch a task whose current scope is not effectively cancelled. -/
theorem C04_deliver_contained_step {st st' : State} {o t c : Nat} {out : Out} (hr : Reach st)
    (hs : step st (.run (.deliver o)) = some (st', out))
    (hc : (st.scopes o).cancelCalled = true) (hsc : (st.tasks t).scope = some c)
    (he : effCancelled st c = false) : st'.tasks t = st.tasks t := by
  have w := wf_reach hr
  have d := di_reach hr
  simp only [step] at hs
  split at hs
  · contradiction
  · simp only [Option.some.injEq, Prod.mk.injEq] at hs
    obtain ⟨rfl, _⟩ := hs
    have w1 : WF { st with cur := st.cur.erase (.deliver o) } :=
      wf_shrinkCur w _ (fun y hy => List.mem_of_mem_erase hy)
    have b1 : BW { st with cur := st.cur.erase (.deliver o) } := d.bw
    have he' : effCancelled ({ st with cur := st.cur.erase (.deliver o) } : State) c = false := by
      rw [effCancelled_congr (st := st) (st' := { st with cur := st.cur.erase (.deliver o) })
        (fun _ => rfl)]; exact he
    exact (C04_deliver_contained w1 b1 (c := c) hc hsc he').2.2

/-! ### over `Reach`, without assuming that the origin is cancelled -/

/-- **C04_deliver_handle_cancelled.**  In every reachable state a scheduled `deliver o` callback
belongs to a scope on which `cancel()` was called; in particular the callback the loop runs. -/
theorem C04_deliver_handle_cancelled {st st' : State} {o : Nat} {out : Out} (hr : Reach st)
    (hs : step st (.run (.deliver o)) = some (st', out)) : (st.scopes o).cancelCalled = true := by
  have hm : Handle.deliver o ∈ st.cur := by
    simp only [step] at hs
    split at hs
    · contradiction
    · rename_i hg
      exact Classical.byContradiction (fun hx => hg (.inr hx))
  exact (dbn_reach hr).1 o (List.mem_append_right _ hm)

/-- **C04_deliver_step_sound.**  In every reachable state, whenever the loop runs a delivery
callback, every task whose record changes (state, `_must_cancel`, `cancelling()`, ...) sits in a
scope — its current scope — that is effectively cancelled. -/
theorem C04_deliver_step_sound {st st' : State} {o : Nat} {out : Out} (hr : Reach st)
    (hs : step st (.run (.deliver o)) = some (st', out)) (t : Nat)
    (hne : st'.tasks t ≠ st.tasks t) :
    ∃ c, (st.tasks t).scope = some c ∧ t ∈ (st.scopes c).tasks ∧ effCancelled st c = true := by
  have w := wf_reach hr
  have d := di_reach hr
  have hc := C04_deliver_handle_cancelled hr hs
  have hh : hitSet st o t := by
    apply Classical.byContradiction
    intro hn
    apply hne
    simp only [step] at hs
    split at hs
    · contradiction
    · simp only [Option.some.injEq, Prod.mk.injEq] at hs
      obtain ⟨rfl, _⟩ := hs
      have w1 : WF { st with cur := st.cur.erase (.deliver o) } :=
        wf_shrinkCur w _ (fun y hy => List.mem_of_mem_erase hy)
      have b1 : BW { st with cur := st.cur.erase (.deliver o) } := d.bw
      exact (deliver_task w1.tree b1 o t).2 (fun hh => hn
        (hitSet_congr (a := { st with cur := st.cur.erase (.deliver o) }) (b := st) rfl rfl rfl hh))
  exact C04_deliver_sound w hc hh

/-- **C04_deliver_contained_reach.**  `C04_deliver_contained_step` without the hypothesis on the
origin: in every reachable state no delivery callback touches a task whose current scope is not
effectively cancelled, nor a task that has no current scope. -/
theorem C04_deliver_contained_reach {st st' : State} {o t : Nat} {out : Out} (hr : Reach st)
    (hs : step st (.run (.deliver o)) = some (st', out))
    (he : ∀ c, (st.tasks t).scope = some c → effCancelled st c = false) :
    st'.tasks t = st.tasks t := by
  apply Classical.byContradiction
  intro hne
  obtain ⟨c, h1, _, h3⟩ := C04_deliver_step_sound hr hs t hne
  rw [he c h1] at h3; cases h3

/-! ### non-vacuity -/

/-- Group scope 0 cancelled while it holds a child (task 1, not started) and its host (task 0) sits
inside a shielded scope (scope 2): scope 2 is not effectively cancelled, and the delivery from
scope 0 (kept alive by the child) does not touch task 0 ... -/
example :
    (runFrom step init
      [.mkGroup, .groupEnter 0, .spawn 0, .mkScope true none, .enter 2, .cancel 0, .yield,
       .beginCycle 0, .run (.deliver 0)]).map
      (fun st => (effCancelled st 2, effCancelled st 0, (st.tasks 0).mustCancel,
        (st.tasks 0).nAnyio, (st.scopes 0).deliver)) =
      some (false, true, false, 0, true) := by decide

/-- ... while without the shield the same delivery hits it (`_must_cancel` with the scope's
message, one `Task.cancel()`), and its scope is effectively cancelled. -/
example :
    (runFrom step init
      [.mkScope false none, .enter 0, .mkScope false none, .enter 1, .cancel 0, .yield,
       .beginCycle 0, .run (.deliver 0)]).map
      (fun st => (effCancelled st 1, (st.tasks 0).mustCancel, (st.tasks 0).mcAnyio,
        (st.tasks 0).nAnyio, (st.scopes 0).deliver)) =
      some (true, true, true, 1, true) := by decide

/-- A sibling subtree is not touched: task 1 is spawned into a group whose scope (scope 0) is not
below the cancelled scope 2, which the root task enters afterwards. -/
example :
    (runFrom step init
      [.mkGroup, .groupEnter 0, .spawn 0, .mkScope false none, .enter 2, .cancel 2, .yield,
       .beginCycle 0, .run (.step 1), .yield, .run (.deliver 2)]).map
      (fun st => ((st.tasks 1).mustCancel, (st.tasks 1).nAnyio, (st.tasks 0).mustCancel,
        (st.tasks 0).nAnyio)) =
      some (false, 0, true, 1) := by decide

/-- `C04_deliver_step_sound`: the delivery of scope 0 changes the record of the host of the inner
scope 1 (task 0: `_must_cancel`), whose current scope is effectively cancelled, and of nobody else:
task 1, spawned into a group that was entered before scope 0 and is not below it, is untouched. -/
example :
    (runFrom step init
      [.mkGroup, .groupEnter 0, .spawn 0, .mkScope false none, .enter 2, .mkScope false none,
       .enter 3, .cancel 2, .yield, .beginCycle 0, .run (.step 1), .yield]).map
      (fun st => ((st.tasks 0).scope, effCancelled st 3, (st.tasks 1).scope, effCancelled st 1,
        st.cur)) =
      some (some 3, true, some 1, false, [.deliver 2, .step 0]) := by decide

example :
    (runFrom step init
      [.mkGroup, .groupEnter 0, .spawn 0, .mkScope false none, .enter 2, .mkScope false none,
       .enter 3, .cancel 2, .yield, .beginCycle 0, .run (.step 1), .yield, .run (.deliver 2)]).map
      (fun st => ((st.tasks 0).mustCancel, (st.tasks 0).nAnyio, (st.tasks 1).mustCancel,
        (st.tasks 1).nAnyio, (st.scopes 2).cancelCalled)) =
      some (true, 1, false, 0, true) := by decide

end AnyioModel.Kernel
