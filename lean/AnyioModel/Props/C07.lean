/-
C07  TaskGroup.start(): readiness handshake is exact and loses nothing.

Property theorems only, on the kernel model; shape lemmas of `task_done` in
`AnyioModel.Kernel.GroupInv6`, routing invariant `RInv` in `GroupInv7`.

Proved here: the `started()` protocol (`C07_second_started`), what `task_done` does with the
child's outcome depending on the state of the start future (`C07_early_exit_partial`,
`C07_error_after_handshake_goes_to_group` which contains finding F2, `C07_caller_cancelled_f2`),
and that `start()` returns normally only when resumed by a result (`C07_value_partial`).
Not proved (see the final comment): that a start future is private to the handshake
(`C07_start_future_private`) and the two statements that depend on it.
-/
import AnyioModel.Kernel.GroupInv7

namespace AnyioModel.Kernel

/-- `task_status.started()`: the first call resolves the start future; a second call (future has a
result) or a call after the child's failure was delivered raises `RuntimeError` and changes
nothing; if the caller of `start()` was cancelled in the meantime (future cancelled) the call is
silently ignored. -/
theorem C07_second_started {st st' : State} {o : Out} {t sf : Nat} (hr : st.running = some t)
    (hsf : (st.tasks t).startFut = some sf) (hs : step st .started = some (st', o)) :
    (st.futs sf = .pending → st' = resolveFut st sf .result ∧ o = .none) ∧
    (st.futs sf = .result → st' = st ∧ o = .rterr) ∧
    (∀ e, st.futs sf = .failed e → st' = st ∧ o = .rterr) ∧
    (∀ a, st.futs sf = .cancelled a → st' = st ∧ o = .none) := by
  unfold step at hs
  simp only [hr] at hs
  rw [hsf] at hs
  refine ⟨fun h => ?_, fun h => ?_, fun e h => ?_, fun a h => ?_⟩ <;>
    (simp only [h, Option.some.injEq, Prod.mk.injEq] at hs
     exact ⟨hs.1.symm, hs.2.symm⟩)

/-- the `task_done` transition is `runTaskDone` -/
theorem C07_taskDone_step {st st' : State} {o : Out} {u : Nat}
    (hs : step st (.run (.taskDone u)) = some (st', o)) :
    runTaskDone { st with cur := st.cur.erase (.taskDone u) } u = some st' := by
  simp only [step] at hs
  split at hs
  · contradiction
  · split at hs
    · rename_i st1 h
      simp only [Option.some.injEq, Prod.mk.injEq] at hs
      rw [h, hs.1]
    · contradiction

theorem resolveFut_other (st : State) {f f' : Nat} (v : FutSt) (h : f' ≠ f) :
    (resolveFut st f v).futs f' = st.futs f' := by
  unfold resolveFut
  split
  · rfl
  · simp only []
    split
    · split <;> simp [h]
    · simp [h]

/-- Early exit: if the child ends while the start future is still pending (it never called
`started()`), `task_done` hands its exception to the caller of `start()` -- `RuntimeError` if the
child merely returned -- records nothing in the group and cancels no scope.

Partial: the hypothesis `hoc` (the start future is not at the same time the group's
`_on_completed_fut`) is a consequence of "library futures are used for one purpose"
(`C07_start_future_private`), which is not proved. -/
theorem C07_early_exit_partial {st st' : State} {u g sf : Nat} {o : Outcome}
    (hg : (st.tasks u).group = some g) (ho : (st.tasks u).outcome = some o)
    (hsf : (st.tasks u).startFut = some sf) (hp : st.futs sf = .pending)
    (hoc : (st.groups g).onCompleted ≠ some sf)
    (he : runTaskDone st u = some st') :
    st'.futs sf = .failed (if o = .none then .one .runtimeError else o) ∧
    (∀ s, (st'.scopes s).cancelCalled = (st.scopes s).cancelCalled) ∧
    (∀ g', (st'.groups g').exceptions = (st.groups g').exceptions) := by
  obtain ⟨g0, sc, o', hg', hsc, ho', ht⟩ := runTaskDone_shape he
  rw [hg] at hg'; cases hg'
  rw [ho] at ho'; cases ho'
  rw [hsf] at ht
  -- the state after the bookkeeping and the wake-up of the host
  have hM : (taskDoneMid (taskDoneCore st u g sc) g).futs sf = .pending ∧
      (∀ s, ((taskDoneMid (taskDoneCore st u g sc) g).scopes s).cancelCalled =
        (st.scopes s).cancelCalled) ∧
      (∀ g', ((taskDoneMid (taskDoneCore st u g sc) g).groups g').exceptions =
        (st.groups g').exceptions) := by
    have hc : ∀ s, ((taskDoneCore st u g sc).scopes s).cancelCalled = (st.scopes s).cancelCalled := by
      intro s; unfold taskDoneCore
      by_cases hs : s = sc
      · subst hs; simp
      · simp [hs]
    have hx : ∀ g', ((taskDoneCore st u g sc).groups g').exceptions = (st.groups g').exceptions := by
      intro g'; unfold taskDoneCore
      by_cases hgg : g' = g
      · subst hgg; simp
      · simp [hgg]
    have hoc' : ((taskDoneCore st u g sc).groups g).onCompleted ≠ some sf := by
      unfold taskDoneCore; simpa using hoc
    unfold taskDoneMid
    split
    · rename_i f hf
      split
      · have hne : sf ≠ f := by intro e; subst e; exact hoc' hf
        refine ⟨by rw [resolveFut_other _ _ hne]; exact hp, fun s => ?_, fun g' => ?_⟩
        · rw [((frame_resolveFut _ _ _).scopes s).cancelCalled]; exact hc s
        · rw [(frame_resolveFut _ _ _).groups]; exact hx g'
      · exact ⟨hp, hc, hx⟩
    · exact ⟨hp, hc, hx⟩
  generalize taskDoneMid (taskDoneCore st u g sc) g = M at ht hM
  have hnd : (M.futs sf).done = false := by rw [hM.1]; rfl
  have fin : ∀ v, st' = resolveFut M sf v → st'.futs sf = v ∧
      (∀ s, (st'.scopes s).cancelCalled = (st.scopes s).cancelCalled) ∧
      (∀ g', (st'.groups g').exceptions = (st.groups g').exceptions) := by
    intro v e
    subst e
    refine ⟨resolveFut_self hnd, fun s => ?_, fun g' => ?_⟩
    · rw [((frame_resolveFut _ _ _).scopes s).cancelCalled]; exact hM.2.1 s
    · rw [(frame_resolveFut _ _ _).groups]; exact hM.2.2 g'
  by_cases hon : o = .none
  · subst hon
    simp only [taskDoneTail, hnd, Bool.false_eq_true, if_false, Option.some.injEq] at ht
    simpa using fin _ ht.symm
  · rw [taskDoneTail_err M g u o (some sf) hon] at ht
    simp only [taskDoneTailErr, hM.1, FutSt.isCancelled, FutSt.done, Bool.false_eq_true,
      false_and, if_false, Option.some.injEq] at ht
    simpa [hon] using fin _ ht.symm

/-- `task_done` of a child whose start future is already done (result, or cancelled) and whose
outcome is a non-cancellation exception appends the exception to the group. -/
theorem C07_routed_of_done_future {st st' : State} {u g sf : Nat} {o : Outcome}
    (hg : (st.tasks u).group = some g) (ho : (st.tasks u).outcome = some o) (hne : o ≠ .none)
    (hnc : o.isCancelledError = false) (hsf : (st.tasks u).startFut = some sf)
    (hd : (st.futs sf).done = true) (hlt : sf < st.nFuts)
    (he : runTaskDone st u = some st') :
    u ∈ (st'.groups g).routed ∧ ∃ l, List.Perm ((st'.groups g).exceptions) (l ++ o.leaves) := by
  obtain ⟨g0, sc, o', hg', hsc, ho', ht⟩ := runTaskDone_shape he
  rw [hg] at hg'; cases hg'
  rw [ho] at ho'; cases ho'
  rw [hsf] at ht
  have lM := gle_taskDoneMid (taskDoneCore st u g sc) g
  have hMf : (taskDoneMid (taskDoneCore st u g sc) g).futs sf = st.futs sf :=
    lM.futs sf hlt hd
  generalize taskDoneMid (taskDoneCore st u g sc) g = M at ht hMf
  rcases taskDoneTail_shape ht with ⟨_, _, h3⟩ | ⟨_, _, _, hr⟩
  · rcases h3 with h3 | h3 | ⟨sf', hs', hd', _⟩
    · exact absurd h3 hne
    · rw [hnc] at h3; contradiction
    · cases hs'
      rw [hMf, hd] at hd'; contradiction
  · rcases hr with ⟨_, rfl⟩ | ⟨_, rfl⟩
    · exact ⟨by simp [routeErr], (M.groups g).exceptions, by simp [routeErr]⟩
    · have l := (gle_cancelScope (routeErr M g u o) (M.groups g).scope false).groups g
      rw [l.routed, l.exceptions]
      exact ⟨by simp [routeErr], (M.groups g).exceptions, by simp [routeErr]⟩

/-- After the handshake is over -- the start future has a result (the child called `started()`,
it is an ordinary member of the group from then on), or was cancelled because the caller of
`start()` was cancelled (finding F2: the pinned AnyIO dropped the exception in this case) --
a non-cancellation exception of the child is recorded in the group's `_exceptions`: in every
reachable state, the `task_done` transition of such a child routes it. -/
theorem C07_error_after_handshake_goes_to_group {st st' : State} {out : Out} {u g sf : Nat}
    {o : Outcome} (h : Reach st) (hg : (st.tasks u).group = some g)
    (ho : (st.tasks u).outcome = some o) (hne : o ≠ .none) (hnc : o.isCancelledError = false)
    (hsf : (st.tasks u).startFut = some sf) (hd : (st.futs sf).done = true)
    (hs : step st (.run (.taskDone u)) = some (st', out)) :
    u ∈ (st'.groups g).routed ∧
      ∃ l, List.Perm ((st'.groups g).exceptions) (l ++ o.leaves) :=
  C07_routed_of_done_future (st := { st with cur := st.cur.erase (.taskDone u) }) hg ho hne hnc hsf
    hd ((rinv_reach h).sf_lt u sf hsf) (C07_taskDone_step hs)

/-- F2, spelled out: the caller of `start()` was cancelled (start future cancelled), the child
raises a non-cancellation exception while unwinding: it ends up in the group. -/
theorem C07_caller_cancelled_f2 {st st' : State} {out : Out} {u g sf : Nat} {a : Bool}
    {o : Outcome} (h : Reach st) (hg : (st.tasks u).group = some g)
    (ho : (st.tasks u).outcome = some o) (hne : o ≠ .none) (hnc : o.isCancelledError = false)
    (hsf : (st.tasks u).startFut = some sf) (hc : st.futs sf = .cancelled a)
    (hs : step st (.run (.taskDone u)) = some (st', out)) : u ∈ (st'.groups g).routed :=
  (C07_error_after_handshake_goes_to_group h hg ho hne hnc hsf (by rw [hc]; rfl) hs).1

/-- `start()` returns normally only if its wait on the start future was resumed with a result,
never after an exception or a cancellation. -/
theorem C07_value_partial {st st' : State} {t g u f : Nat} {r : Resume}
    (hl : (st.tasks t).lib = .startWait g u f)
    (he : continueLib st t r = some (st', .done .none)) : r = .none := by
  unfold continueLib at he
  split at he <;> rename_i hx <;> (try (rw [hl] at hx; cases hx))
  split at he
  · rfl
  · rename_i hne
    simp only [] at he
    split at he
    · contradiction
    · split at he
      · split at he
        · contradiction
        · split at he <;> simp at he
      · simp only [Option.some.injEq, Prod.mk.injEq, Out.done.injEq] at he
        exact absurd he.2 hne

/-! ### non-vacuity -/

/-- the child calls `started()`: `start()` returns normally, the child is a member of the group -/
example : (traceFrom step init
    [.mkGroup, .groupEnter 0, .start 0, .beginCycle 0, .run (.step 1), .started, .yield,
     .beginCycle 0, .run (.wakeup 0)]).map
    (fun p => (p.2.getLast?, p.1.futs 0, (p.1.groups 0).tasks)) =
    some (some (.done .none), .result, [1]) := by decide

/-- the child raises before `started()`: `start()` raises its exception, the group collects
nothing and is not cancelled -/
example : (traceFrom step init
    [.mkGroup, .groupEnter 0, .start 0, .beginCycle 0, .run (.step 1), .finish (.one (.err 5)),
     .beginCycle 0, .run (.taskDone 1), .beginCycle 0, .run (.wakeup 0)]).map
    (fun p => (p.2.getLast?, p.1.futs 0, (p.1.groups 0).exceptions, (p.1.scopes 0).cancelCalled)) =
    some (some (.done (.one (.err 5))), .failed (.one (.err 5)), [], false) := by decide

/-- a second `started()` raises `RuntimeError` -/
example : (traceFrom step init
    [.mkGroup, .groupEnter 0, .start 0, .beginCycle 0, .run (.step 1), .started, .started]).map
    (fun p => p.2.getLast?) = some (some .rterr) := by decide

/-
Not proved (statements of the plan):

* `C07_start_future_private`: for every reachable state, if `(tasks u).startFut = some sf` then
  `userFut sf = false`, `sf` is not the `_on_completed_fut` of a group, not in the `hwaiters` of a
  task, no `sleepDone sf` handle is scheduled, and `startFut` is injective; consequently the only
  transition that gives `sf` a result is `.started` by `u`, `.failed` only `task_done` of `u`,
  `.cancelled` only a cancellation of the caller blocked on it.  This is a "fresh allocation"
  invariant over all future-valued fields (`GLe` would have to bound `userFut` above `nFuts`); the
  hypothesis `hoc` of `C07_early_exit_partial` is the one instance of it used above.
* `C07_value` in full ("`.done .none` only if the child executed `.started`") and the first half
  of `C07_caller_cancelled` ("from `startJoin`, `.done` with resume `.none` only if
  `finished u`") follow from it together with `C07_value_partial`.
-/

end AnyioModel.Kernel
