/-
C04  Cancel scopes — WHO can cancel a scope.

The complete list of transitions of the kernel model that turn `cancelCalled` of a scope from false
to true (`CancelScope.cancel()` is called and takes effect).  The list is the inductive predicate
`CancelCause st e s` (`Kernel/CauseInv4.lean`), one constructor per cause, every side condition
read in the state `st` BEFORE the transition:

| constructor | event | who / when |
|---|---|---|
| `userCancel` | `.cancel s` | `scope.cancel()` by user code, from a task or from a loop callback (the event needs no running task); `s` exists |
| `deadlineFired` | `.run (.timeout s)` | the loop runs the scope's `_timeout` callback, `deadline s = some d`, `d ≤ now` |
| `deadlineSetPast` | `.setDeadline s (some d)` | `scope.deadline = d` on an ACTIVE scope, `d ≤ now` |
| `enterPastDeadline` | `.enter s` | `with scope:` on a user scope (not a group / handle scope), `deadline s = some d`, `d ≤ now` |
| `groupEnterPastDeadline` | `.groupEnter g` | `async with group:`, the group scope's deadline already passed |
| `childStartPastDeadline` | `.run (.step u)` | first step of child `u` (state `created`, resumed normally): `TaskHandle._run_coro` enters the handle scope whose deadline already passed |
| `bodyException` | `.aexit g ev`, `ev ≠ .none` | `TaskGroup.__aexit__` entered with an exception of the body (cancellation included): `s = group g`'s scope |
| `childFailed` | `.run (.taskDone u)` | `task_done` of a child of `g`: outcome an exception (cancellation included), start future absent or already done (and not "cancelled + cancellation outcome"), and `effCancelled st s = false` |
| `aexitHostCancelled` | `.run (.step t)` / `.run (.wakeup t)` | host `t` is inside `g.__aexit__` (`lib = aexitChk g ..` or `aexitWait g ..`) and is resumed with a `CancelledError` |
| `startCallerFailed` | `.run (.step t)` / `.run (.wakeup t)` | `t` is inside `g.start()` (`lib = startWait g u f`), resumed with an exception; `s` = handle scope of child `u`, `u` not finished |
| `handleCancel` | `.handleCancel u` | `TaskHandle.cancel()`, `s` = handle scope of `u`, `u` not finished |

Nothing else cancels a scope: `C04_cancel_causes`.  Helpers: `Kernel/CauseInv.lean` ..
`CauseInv5.lean`.
-/
import AnyioModel.Kernel.CauseInv5
import AnyioModel.Kernel.HostInv5

namespace AnyioModel.Kernel

/-! ### 1. the exhaustive list -/

/-- **C04_cancel_causes_any** (step-local, ANY state).  If a transition turns `cancelCalled` of
scope `s` from false to true, it is one of the causes of the list.  The one structural hypothesis
(no start future is also a group's `_on_completed_fut`; true in every reachable state) is needed
only for the `childFailed` clause "the start future was already done". -/
theorem C04_cancel_causes_any {st st' : State} {e : Ev} {out : Out} {s : Nat}
    (hd : StartOnCDisjoint st) (hs : step st e = some (st', out))
    (h0 : (st.scopes s).cancelCalled = false) (h1 : (st'.scopes s).cancelCalled = true) :
    CancelCause st e s := by
  rcases cc_step hs hd s h1 with h | c
  · rw [h0] at h; cases h
  · exact c

/-- **C04_cancel_causes.**  Out of a reachable state: a transition that turns `cancelCalled` of `s`
from false to true is one of the eleven causes. -/
theorem C04_cancel_causes {st st' : State} (hr : Reach st) {e : Ev} {out : Out} {s : Nat}
    (hs : step st e = some (st', out))
    (h0 : (st.scopes s).cancelCalled = false) (h1 : (st'.scopes s).cancelCalled = true) :
    CancelCause st e s :=
  C04_cancel_causes_any (startOnC_reach hr) hs h0 h1

/-- The same as one disjunction over the event, for readers who prefer it spelled out. -/
theorem C04_cancel_causes_cases {st st' : State} (hr : Reach st) {e : Ev} {out : Out} {s : Nat}
    (hs : step st e = some (st', out))
    (h0 : (st.scopes s).cancelCalled = false) (h1 : (st'.scopes s).cancelCalled = true) :
    -- explicit `cancel()`
    (e = .cancel s ∧ (st.scopes s).exists_ = true) ∨
    -- the deadline: timer callback, `deadline` setter, `__enter__` (user scope, group, handle)
    (e = .run (.timeout s) ∧ ∃ d, (st.scopes s).deadline = some d ∧ d ≤ st.now) ∨
    (∃ d, e = .setDeadline s (some d) ∧ (st.scopes s).active = true ∧ d ≤ st.now) ∨
    (e = .enter s ∧ isGroupScope st s = false ∧ isHandleScope st s = false ∧
      ∃ d, (st.scopes s).deadline = some d ∧ d ≤ st.now) ∨
    (∃ g, e = .groupEnter g ∧ s = (st.groups g).scope ∧
      ∃ d, (st.scopes s).deadline = some d ∧ d ≤ st.now) ∨
    (∃ u, e = .run (.step u) ∧ (st.tasks u).st = .created ∧ (st.tasks u).hscope = some s ∧
      resumeValue st u = .none ∧ ∃ d, (st.scopes s).deadline = some d ∧ d ≤ st.now) ∨
    -- the task group
    (∃ g ev, e = .aexit g ev ∧ ev ≠ .none ∧ s = (st.groups g).scope) ∨
    (∃ u g o, e = .run (.taskDone u) ∧ (st.tasks u).group = some g ∧ s = (st.groups g).scope ∧
      (st.tasks u).outcome = some o ∧ o ≠ .none ∧ effCancelled st s = false ∧
      ∀ sf, (st.tasks u).startFut = some sf → (st.futs sf).done = true ∧
        ¬ (o.isCancelledError = true ∧ ∃ a, st.futs sf = .cancelled a)) ∨
    (∃ h t g w ev, e = .run h ∧ (h = .step t ∨ h = .wakeup t) ∧
      ((st.tasks t).lib = .aexitChk g w ev ∨ (st.tasks t).lib = .aexitWait g w ev) ∧
      (resumeValue st t).isCancelledError = true ∧ s = (st.groups g).scope) ∨
    -- the task handle
    (∃ h t g u f, e = .run h ∧ (h = .step t ∨ h = .wakeup t) ∧
      (st.tasks t).lib = .startWait g u f ∧ resumeValue st t ≠ .none ∧
      (st.tasks u).hscope = some s ∧ (st.tasks u).finished = false) ∨
    (∃ u, e = .handleCancel u ∧ (st.tasks u).hscope = some s ∧ (st.tasks u).finished = false) := by
  cases C04_cancel_causes hr hs h0 h1 with
  | userCancel _ hex => exact .inl ⟨rfl, hex⟩
  | deadlineFired _ d hd hle => exact .inr (.inl ⟨rfl, d, hd, hle⟩)
  | deadlineSetPast _ d _ ha hle => exact .inr (.inr (.inl ⟨d, rfl, ha, hle⟩))
  | enterPastDeadline _ d a b hd hle => exact .inr (.inr (.inr (.inl ⟨rfl, a, b, d, hd, hle⟩)))
  | groupEnterPastDeadline g d _ hd hle =>
    exact .inr (.inr (.inr (.inr (.inl ⟨g, rfl, rfl, d, hd, hle⟩))))
  | childStartPastDeadline u _ d a b c hd hle =>
    exact .inr (.inr (.inr (.inr (.inr (.inl ⟨u, rfl, a, b, c, d, hd, hle⟩)))))
  | bodyException g ev _ hne =>
    exact .inr (.inr (.inr (.inr (.inr (.inr (.inl ⟨g, ev, rfl, hne, rfl⟩))))))
  | childFailed u g o a b c d f =>
    exact .inr (.inr (.inr (.inr (.inr (.inr (.inr (.inl ⟨u, g, o, rfl, a, rfl, b, c, d, f⟩)))))))
  | aexitHostCancelled h t g w ev a b c =>
    exact .inr (.inr (.inr (.inr (.inr (.inr (.inr (.inr (.inl
      ⟨h, t, g, w, ev, rfl, a, b, c, rfl⟩))))))))
  | startCallerFailed h t g u f _ a b c d e' =>
    exact .inr (.inr (.inr (.inr (.inr (.inr (.inr (.inr (.inr (.inl
      ⟨h, t, g, u, f, rfl, a, b, c, d, e'⟩)))))))))
  | handleCancel u _ a b =>
    exact .inr (.inr (.inr (.inr (.inr (.inr (.inr (.inr (.inr (.inr ⟨u, rfl, a, b⟩)))))))))

/-- In a reachable state the `start()` cause only arrives through `Task.__wakeup` (the caller is
blocked on the readiness future, never in a bare `yield`). -/
theorem C04_start_caller_failed_is_wakeup {st : State} (hr : Reach st) {h : Handle}
    {t g u f : Nat} (hh : h = .step t ∨ h = .wakeup t)
    (hl : (st.tasks t).lib = .startWait g u f) {st' : State} {out : Out}
    (hs : step st (.run h) = some (st', out)) : h = .wakeup t := by
  rcases hh with rfl | rfl
  · exfalso
    simp only [step] at hs
    split at hs
    · contradiction
    · split at hs
      · rename_i hst
        rcases hst with hst | hst
        · have := (finv_reach hr).lib_created t hst
          rw [hl] at this; cases this
        · exact (hinv_reach hr).y1 t g u f hl hst
      · contradiction
  · rfl

/-! ### 2. monotonicity -/

/-- **C04_cancel_is_monotone** (ANY state, every transition): `cancelCalled` of an allocated scope
never goes back from true to false. -/
theorem C04_cancel_is_monotone {st st' : State} {e : Ev} {out : Out}
    (hs : step st e = some (st', out)) {s : Nat} (hlt : s < st.nScopes)
    (hc : (st.scopes s).cancelCalled = true) : (st'.scopes s).cancelCalled = true :=
  step_cancelCalled_mono hs hlt hc

/-- ... out of a reachable state, for every scope id (an id that is not allocated is not cancelled) -/
theorem C04_cancel_is_monotone_reach {st st' : State} (hr : Reach st) {e : Ev} {out : Out}
    (hs : step st e = some (st', out)) {s : Nat}
    (hc : (st.scopes s).cancelCalled = true) : (st'.scopes s).cancelCalled = true :=
  step_cancelCalled_mono hs (cc_alloc_reach hr s hc) hc

/-- ... hence along every event list -/
theorem C04_cancel_is_monotone_run {st st' : State} (hr : Reach st) (es : List Ev)
    (h : runFrom step st es = some st') {s : Nat}
    (hc : (st.scopes s).cancelCalled = true) : (st'.scopes s).cancelCalled = true :=
  (mono_runFrom es h).cc s (cc_alloc_reach hr s hc) hc

/-- In a reachable state only allocated scopes are cancelled. -/
theorem C04_cancelled_is_allocated {st : State} (hr : Reach st) {s : Nat}
    (hc : (st.scopes s).cancelCalled = true) : s < st.nScopes :=
  cc_alloc_reach hr s hc

/-- The bound `s < st.nScopes` cannot be dropped for arbitrary (unreachable) states: allocation
(`CancelScope()`) writes a fresh record at index `nScopes`; in a junk state whose unallocated
record 0 is marked cancelled, the flag goes from true to false. -/
example :
    let junk : State := { init with scopes := fun _ => { cancelCalled := true } }
    (junk.scopes 0).cancelCalled = true ∧
    (step junk (.mkScope false none)).map (fun p => (p.1.scopes 0).cancelCalled) = some false := by
  decide

/-! ### 3. the scope of a task group -/

/-- **C04_group_scope_cancelled_only_by.**  Out of a reachable state, the scope of task group `g`
goes from not cancelled to cancelled only by
1. a user `cancel()` of that scope;
2. its deadline (set by user code on `group.cancel_scope`): the timer callback, the `deadline`
   setter with a past deadline while the scope is active, or `__aenter__` after the deadline;
3. `__aexit__` entered with an exception of the body;
4. the `task_done` callback of a child of `g` that ended with an exception (cancellation
   included) not relayed to a pending start future, WHILE THE GROUP SCOPE WAS NOT EFFECTIVELY
   CANCELLED;
5. the host being resumed with a `CancelledError` inside `__aexit__` (checkpoint / wait loop).
Not by: `with scope:` (user code cannot enter a group scope), anything of `TaskHandle`, `start()`. -/
theorem C04_group_scope_cancelled_only_by {st st' : State} (hr : Reach st) {e : Ev} {out : Out}
    {g : Nat} (hg : g < st.nGroups) (hs : step st e = some (st', out))
    (h0 : (st.scopes (st.groups g).scope).cancelCalled = false)
    (h1 : (st'.scopes (st.groups g).scope).cancelCalled = true) :
    e = .cancel (st.groups g).scope ∨
    (e = .run (.timeout (st.groups g).scope) ∧
      ∃ d, (st.scopes (st.groups g).scope).deadline = some d ∧ d ≤ st.now) ∨
    (∃ d, e = .setDeadline (st.groups g).scope (some d) ∧
      (st.scopes (st.groups g).scope).active = true ∧ d ≤ st.now) ∨
    (e = .groupEnter g ∧
      ∃ d, (st.scopes (st.groups g).scope).deadline = some d ∧ d ≤ st.now) ∨
    (∃ ev, e = .aexit g ev ∧ ev ≠ .none) ∨
    (∃ u o, e = .run (.taskDone u) ∧ (st.tasks u).group = some g ∧
      (st.tasks u).outcome = some o ∧ o ≠ .none ∧
      effCancelled st (st.groups g).scope = false ∧
      ∀ sf, (st.tasks u).startFut = some sf → (st.futs sf).done = true ∧
        ¬ (o.isCancelledError = true ∧ ∃ a, st.futs sf = .cancelled a)) ∨
    (∃ h t w ev, e = .run h ∧ (h = .step t ∨ h = .wakeup t) ∧
      ((st.tasks t).lib = .aexitChk g w ev ∨ (st.tasks t).lib = .aexitWait g w ev) ∧
      (resumeValue st t).isCancelledError = true) :=
  (C04_cancel_causes hr hs h0 h1).group_cases (wf_reach hr) (xi_reach hr).2 hg

/-- **C04_task_done_no_recancel** (ANY state; the statement a seeded fault violated).  The
`task_done` callback of a child of group `g` does NOT call `cancel()` when the group scope is
effectively cancelled already — not on the group scope, and on no other scope either: every scope
that is not cancelled before the callback is not cancelled after it. -/
theorem C04_task_done_no_recancel {st st' : State} {u g : Nat} {out : Out}
    (hs : step st (.run (.taskDone u)) = some (st', out))
    (hg : (st.tasks u).group = some g)
    (heff : effCancelled st (st.groups g).scope = true) (x : Nat)
    (h0 : (st.scopes x).cancelCalled = false) : (st'.scopes x).cancelCalled = false := by
  cases h1 : (st'.scopes x).cancelCalled with
  | false => rfl
  | true =>
    exfalso
    simp only [step] at hs
    split at hs
    · contradiction
    · split at hs
      · rename_i st2 hrt
        simp only [Option.some.injEq, Prod.mk.injEq] at hs
        obtain ⟨rfl, _⟩ := hs
        rcases cc_runTaskDone hrt x h1 with h | ⟨g', o, a1, _, _, a4, a5, _⟩
        · have h' : (st.scopes x).cancelCalled = true := h
          rw [h0] at h'; cases h'
        · have hg' : (st.tasks u).group = some g' := a1
          rw [hg] at hg'
          cases hg'
          have e1 : x = (st.groups g).scope := a4
          have e2 : effCancelled st x = false :=
            (effCancelled_congr (st := st)
              (st' := { st with cur := st.cur.erase (Handle.taskDone u) })
              (SameWalk.of_scopes_eq rfl).nav _).symm.trans a5
          rw [e1, heff] at e2; cases e2
      · contradiction

/-- ... in particular the group scope itself stays as it is (reachable states: in both directions) -/
theorem C04_task_done_keeps_group_scope {st st' : State} (hr : Reach st) {u g : Nat} {out : Out}
    (hs : step st (.run (.taskDone u)) = some (st', out))
    (hg : (st.tasks u).group = some g)
    (heff : effCancelled st (st.groups g).scope = true) :
    (st'.scopes (st.groups g).scope).cancelCalled =
      (st.scopes (st.groups g).scope).cancelCalled := by
  cases h0 : (st.scopes (st.groups g).scope).cancelCalled with
  | false => exact C04_task_done_no_recancel hs hg heff _ h0
  | true => exact C04_cancel_is_monotone_reach hr hs h0

/-! ### 4. non-vacuity: one concrete run per cause (task 0 is the root task, running, time 0) -/

section Examples

/-- `userCancel`: `with CancelScope() as s: s.cancel()` -/
example :
    (runFrom step init [.mkScope false none, .enter 0]).map
      (fun st => (st.scopes 0).cancelCalled) = some false ∧
    (runFrom step init [.mkScope false none, .enter 0, .cancel 0]).map
      (fun st => (st.scopes 0).cancelCalled) = some true := by decide

/-- `userCancel` from a loop callback: no task is running when `cancel()` is called -/
example :
    (runFrom step init [.mkScope false none, .enter 0, .sleep 3, .cancel 0]).map
      (fun st => (st.running, (st.scopes 0).cancelCalled)) = some (none, true) := by decide

/-- `deadlineFired`: the timer callback at the deadline -/
example :
    (runFrom step init [.mkScope false (some 5), .enter 0, .sleep 10, .beginCycle 5]).map
      (fun st => (st.scopes 0).cancelCalled) = some false ∧
    (runFrom step init [.mkScope false (some 5), .enter 0, .sleep 10, .beginCycle 5,
      .run (.timeout 0)]).map
      (fun st => ((st.scopes 0).cancelCalled, (st.scopes 0).byDeadline)) = some (true, true) := by
  decide

/-- `deadlineSetPast` and `enterPastDeadline` at time 5 -/
example :
    (runFrom step init [.mkScope false none, .yield, .beginCycle 5, .run (.step 0), .enter 0,
      .setDeadline 0 (some 2)]).map (fun st => (st.scopes 0).cancelCalled) = some true ∧
    (runFrom step init [.mkScope false (some 3), .yield, .beginCycle 5, .run (.step 0),
      .enter 0]).map (fun st => (st.scopes 0).cancelCalled) = some true := by decide

/-- `bodyException`: the body of `async with create_task_group()` raises -/
example :
    (runFrom step init [.mkGroup, .groupEnter 0]).map
      (fun st => (st.scopes 0).cancelCalled) = some false ∧
    (runFrom step init [.mkGroup, .groupEnter 0, .aexit 0 (.one (.err 1))]).map
      (fun st => (st.scopes 0).cancelCalled) = some true := by decide

/-- `childFailed`: child 1 of group 0 raises; its `task_done` callback cancels the group scope
(scope 0), which was not effectively cancelled -/
example :
    (runFrom step init [.mkGroup, .groupEnter 0, .spawn 0, .aexit 0 .none, .beginCycle 0,
      .run (.step 1), .finish (.one (.err 7)), .beginCycle 0]).map
      (fun st => ((st.scopes 0).cancelCalled, effCancelled st 0, (st.tasks 1).outcome)) =
      some (false, false, some (.one (.err 7))) ∧
    (runFrom step init [.mkGroup, .groupEnter 0, .spawn 0, .aexit 0 .none, .beginCycle 0,
      .run (.step 1), .finish (.one (.err 7)), .beginCycle 0, .run (.taskDone 1)]).map
      (fun st => ((st.scopes 0).cancelCalled, (st.groups 0).exceptions)) =
      some (true, [.err 7]) := by decide

/-- ... a child that ends with a cancellation of its own cancels the group too (nothing is added
to `_exceptions`) -/
example :
    (runFrom step init [.mkGroup, .groupEnter 0, .spawn 0, .aexit 0 .none, .beginCycle 0,
      .run (.step 1), .finish (.one .cancelNative), .beginCycle 0, .run (.taskDone 1)]).map
      (fun st => ((st.scopes 0).cancelCalled, (st.groups 0).exceptions)) =
      some (true, []) := by decide

/-- `childFailed` does NOT fire on an effectively cancelled group: the enclosing scope 0 is
cancelled, the group scope 1 is not (`cancelCalled = false`, `effCancelled = true`); the child ends
with the cancellation; `task_done` leaves the group scope alone (`C04_task_done_no_recancel`) -/
example :
    (runFrom step init [.mkScope false none, .enter 0, .mkGroup, .groupEnter 0, .spawn 0,
      .aexit 0 .none, .beginCycle 0, .run (.step 1), .cancel 0, .finish (.one .cancelAnyio),
      .beginCycle 0]).map
      (fun st => ((st.scopes 0).cancelCalled, (st.scopes 1).cancelCalled, effCancelled st 1)) =
      some (true, false, true) ∧
    (runFrom step init [.mkScope false none, .enter 0, .mkGroup, .groupEnter 0, .spawn 0,
      .aexit 0 .none, .beginCycle 0, .run (.step 1), .cancel 0, .finish (.one .cancelAnyio),
      .beginCycle 0]).map
      (fun st => ((st.groups 0).scope, (st.tasks 1).group, (st.tasks 1).outcome)) =
      some (1, some 0, some (.one .cancelAnyio)) ∧
    (runFrom step init [.mkScope false none, .enter 0, .mkGroup, .groupEnter 0, .spawn 0,
      .aexit 0 .none, .beginCycle 0, .run (.step 1), .cancel 0, .finish (.one .cancelAnyio),
      .beginCycle 0, .run (.taskDone 1)]).map
      (fun st => ((st.scopes 1).cancelCalled, (st.tasks 1).doneCbRun)) =
      some (false, true) := by decide

/-- ... the same for a child that FAILS in an effectively cancelled group: the error is recorded,
`cancel()` is not called -/
example :
    (runFrom step init [.mkScope false none, .enter 0, .mkGroup, .groupEnter 0, .spawn 0,
      .aexit 0 .none, .beginCycle 0, .run (.step 1), .cancel 0, .finish (.one (.err 7)),
      .beginCycle 0, .run (.taskDone 1)]).map
      (fun st => ((st.scopes 1).cancelCalled, (st.groups 0).exceptions)) =
      some (false, [.err 7]) := by decide

/-- `aexitHostCancelled`: the host is cancelled natively while `__aexit__` waits for child 1 -/
example :
    (runFrom step init [.mkGroup, .groupEnter 0, .spawn 0, .aexit 0 .none, .nativeCancel 0,
      .beginCycle 0]).map
      (fun st => ((st.scopes 0).cancelCalled, (st.tasks 0).lib, resumeValue st 0)) =
      some (false, .aexitWait 0 2 .none, .one .cancelNative) ∧
    (runFrom step init [.mkGroup, .groupEnter 0, .spawn 0, .aexit 0 .none, .nativeCancel 0,
      .beginCycle 0, .run (.wakeup 0)]).map
      (fun st => (st.scopes 0).cancelCalled) = some true := by decide

/-- `handleCancel`: `handle.cancel()` on child 1 (handle scope 1), before it has started -/
example :
    (runFrom step init [.mkGroup, .groupEnter 0, .spawn 0]).map
      (fun st => ((st.tasks 1).hscope, (st.scopes 1).cancelCalled)) = some (some 1, false) ∧
    (runFrom step init [.mkGroup, .groupEnter 0, .spawn 0, .handleCancel 1]).map
      (fun st => ((st.scopes 1).cancelCalled, (st.scopes 0).cancelCalled)) =
      some (true, false) := by decide

/-- `startCallerFailed`: the caller of `start()` is cancelled before the child called `started()`:
`start()` cancels the child through its handle scope (scope 1) -/
example :
    (runFrom step init [.mkGroup, .groupEnter 0, .start 0, .nativeCancel 0, .beginCycle 0]).map
      (fun st => ((st.tasks 0).lib, (st.tasks 1).hscope, (st.scopes 1).cancelCalled)) =
      some (.startWait 0 1 0, some 1, false) ∧
    (runFrom step init [.mkGroup, .groupEnter 0, .start 0, .nativeCancel 0, .beginCycle 0,
      .run (.wakeup 0)]).map
      (fun st => ((st.scopes 1).cancelCalled, (st.scopes 0).cancelCalled)) =
      some (true, false) := by decide

/-- `childStartPastDeadline` and `groupEnterPastDeadline`: deadlines given to a handle scope /
a group scope before they are entered -/
example :
    (runFrom step init [.mkGroup, .groupEnter 0, .spawn 0, .setDeadline 1 (some 3),
      .aexit 0 .none, .beginCycle 5, .run (.step 1)]).map
      (fun st => ((st.scopes 1).cancelCalled, (st.scopes 1).byDeadline)) = some (true, true) ∧
    (runFrom step init [.mkGroup, .setDeadline 0 (some 3), .yield, .beginCycle 5, .run (.step 0),
      .groupEnter 0]).map
      (fun st => ((st.scopes 0).cancelCalled, (st.scopes 0).byDeadline)) = some (true, true) := by
  decide

end Examples

end AnyioModel.Kernel
