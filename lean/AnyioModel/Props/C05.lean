/-
C05  "Leaving a cancel scope leaves no residue in the task or the loop" on the kernel model.

`Task.cancelling()` (`ncancel`) is tied, in every reachable state, to the ghost counters of the
native requests (`nNative`, minus those user code took back, `nUserUncancel`), of the scope
deliveries coming from scopes hosted by *other* tasks (`nForeign`), of own deliveries that were
never paid back because the scope had no parent hosted by the same task (`nDropped`), and to the
`_pending_uncancellations` of the scopes the task currently hosts (`pendSum`, defined in
`Kernel/CountInv5.lean` as `Σ {pending s | s < nScopes, host s = some t, s active}`).

Invariant and helper lemmas: `Kernel/CountInv.lean` .. `CountInv5.lean`; `WF`: `Kernel/WF*.lean`.
-/
import AnyioModel.Kernel.CountInv5
import AnyioModel.Props.C04pure

namespace AnyioModel.Kernel

/-! ### the count -/

/-- **C05_count.**  In every reachable state, for every task `t`: the outstanding native
cancellation requests are exactly the native ones not taken back by user code, the deliveries from
scopes hosted by other tasks, the own deliveries nobody will pay back, and what the active scopes
hosted by `t` still owe; and user code never took back more than was requested natively. -/
theorem C05_count {st : State} (hr : Reach st) (t : Nat) :
    (st.tasks t).ncancel + (st.tasks t).nUserUncancel =
      (st.tasks t).nNative + (st.tasks t).nForeign + (st.tasks t).nDropped + pendSum st t ∧
    (st.tasks t).nUserUncancel ≤ (st.tasks t).nNative := by
  have c := ci_reach hr
  rw [pendSum_eq_pendH (wf_reach hr)]
  exact ⟨c.count t, c.user t⟩

/-- A scope that is not active owes nothing and has no host; a scope that was never entered is
not active.  (So an exited scope keeps no claim on any task.) -/
theorem C05_inactive_scope_clean {st : State} (hr : Reach st) (s : Nat) :
    ((st.scopes s).active = false → (st.scopes s).pending = 0 ∧ (st.scopes s).host = none) ∧
    ((st.scopes s).entered = false → (st.scopes s).active = false) := by
  have w := wf_reach hr
  have c := ci_reach hr
  refine ⟨fun ha => ?_, fun he => (w.not_entered s he).1⟩
  have hh : (st.scopes s).host = none := by
    have := w.host_active s
    rw [ha] at this
    cases hx : (st.scopes s).host <;> simp_all
  exact ⟨c.nohost s hh, hh⟩

/-- Book-keeping of the ghost counters themselves: every scope delivery is either "own" (origin
hosted by the task) or "foreign", and `cancelling()` is the number of `cancel()` calls minus the
number of effective `uncancel()` calls. -/
theorem C05_counters {st : State} (hr : Reach st) (t : Nat) :
    (st.tasks t).nAnyio = (st.tasks t).nOwn + (st.tasks t).nForeign ∧
    (st.tasks t).ncancel + (st.tasks t).nUncancel = (st.tasks t).nNative + (st.tasks t).nAnyio :=
  ⟨(ci_reach hr).anyio t, (ci_reach hr).total t⟩

/-- A scope never owes more than its host's `cancelling()`: the `uncancel()` loop of an absorbing
`__exit__` is never cut short by the count reaching zero. -/
theorem C05_pending_le_cancelling {st : State} (hr : Reach st) {s t : Nat}
    (hh : (st.scopes s).host = some t) : (st.scopes s).pending ≤ (st.tasks t).ncancel :=
  (ci_reach hr).pending_le hh

/-- **C05_restored.**  Once no active scope hosted by `t` owes anything, `cancelling()` is back
at what native asyncio code expects: its own requests not yet taken back, plus deliveries that
belong to other tasks' scopes (paid back by nobody: F5 is about exactly those) and dropped ones. -/
theorem C05_restored {st : State} (hr : Reach st) (t : Nat)
    (h0 : ∀ s, (st.scopes s).host = some t → (st.scopes s).active = true →
      (st.scopes s).pending = 0) :
    (st.tasks t).ncancel =
      (st.tasks t).nNative - (st.tasks t).nUserUncancel + (st.tasks t).nForeign +
        (st.tasks t).nDropped := by
  have w := wf_reach hr
  have c := ci_reach hr
  have hp : pendH st.nScopes st.scopes t = 0 := by
    apply pendH_zero
    intro s _
    simp only [contrib]
    split
    · rename_i hh
      refine h0 s hh ?_
      rw [← w.host_active s, hh]; rfl
    · rfl
  have h1 := c.count t
  have h2 := c.user t
  omega

/-- In particular a task that hosts no scope at all. -/
theorem C05_restored_no_scope {st : State} (hr : Reach st) (t : Nat)
    (h0 : ∀ s, (st.scopes s).host ≠ some t) :
    (st.tasks t).ncancel =
      (st.tasks t).nNative - (st.tasks t).nUserUncancel + (st.tasks t).nForeign +
        (st.tasks t).nDropped :=
  C05_restored hr t (fun s hh => absurd hh (h0 s))

/-! ### `__exit__` -/

/-- **C05_absorbing_exit_pays_back** (step-local, any `__exit__` performed by the running task in
a reachable state): if the scope was cancelled and no cancelled enclosing scope is visible to it
(the condition under which `__exit__` swallows, see `C04_exit_absorbs_iff`), `__exit__` lowers the
host's `cancelling()` by exactly the scope's `_pending_uncancellations` — the subtraction is not
truncated — and leaves the scope owing nothing. -/
theorem C05_absorbing_exit_pays_back {st st' : State} {t s : Nat} {ev : ExcVal} {r : ExitResult}
    (hr : Reach st) (hrun : st.running = some t) (h : exitScope st t s ev = some (st', r))
    (hc : (st.scopes s).cancelCalled = true) (hv : parentVisible st s = false) :
    (st.scopes s).pending ≤ (st.tasks t).ncancel ∧
    (st'.tasks t).ncancel = (st.tasks t).ncancel - (st.scopes s).pending ∧
    (st'.scopes s).pending = 0 := by
  have w := wf_reach hr
  have c := ci_reach hr
  have hpar : (st.scopes s).parent ≠ some s := w.parent_ne
  rw [exitScope_eq] at h
  split at h
  · contradiction
  · rename_i hg
    simp only [Option.some.injEq] at h
    have hg' : (st.scopes s).active = true ∧ (st.scopes s).host = some t ∧
        (st.tasks t).hasState = true ∧ (st.tasks t).scope = some s := by
      simpa using hg
    obtain ⟨e1, e2, e3, e4⟩ := exitCore_scope_self st t s hpar
    have f1 := frame_restartInParent (exitCore st t s) s
    have hmid : exitMid st t s = restartInParent (exitCore st t s) s := rfl
    -- the decision is taken on the same flags
    have hc' : ((restartInParent (exitCore st t s) s).scopes s).cancelCalled = true := by
      rw [(f1.scopes s).cancelCalled, e2]; exact hc
    have hv' : parentVisible (restartInParent (exitCore st t s) s) s = false := by
      rw [← hmid, parentVisible_congr (exitMid_sameWalk st t s).nav]; exact hv
    -- `_restart_cancellation_in_parent` touches neither `pending s` nor the running task
    have hns : s ∉ ((exitCore st t s).scopes s).chain.tail := by
      rw [e1, w.chain_spec s (w.active_entered s hg'.1)]
      have := w.chain_nodup s
      rw [w.chain_spec s (w.active_entered s hg'.1)] at this
      simpa using (List.nodup_cons.mp this).1
    have hp : ((restartInParent (exitCore st t s) s).scopes s).pending = (st.scopes s).pending := by
      unfold restartInParent
      rw [restartList_scope_other _ _ hns, e3]
    have hn : ((restartInParent (exitCore st t s) s).tasks t).ncancel = (st.tasks t).ncancel := by
      unfold restartInParent
      rw [(restartList_running _ _ (by rw [e4]; exact hrun)).ncancel,
        ((gf_exitCore st t s).tasks t).ncancel]
    have ha := exitTail_absorb (restartInParent (exitCore st t s) s) t s ev hc' hv'
    rw [h, hp, hn] at ha
    exact ⟨c.pending_le hg'.2.1, ha.1, ha.2⟩

/-- The same for an exit that swallows (`__exit__` returned `True`). -/
theorem C05_swallowing_exit_pays_back {st st' : State} {t s : Nat} {ev : ExcVal}
    (hr : Reach st) (hrun : st.running = some t)
    (h : exitScope st t s ev = some (st', .swallowed)) :
    (st.scopes s).pending ≤ (st.tasks t).ncancel ∧
    (st'.tasks t).ncancel = (st.tasks t).ncancel - (st.scopes s).pending ∧
    (st'.scopes s).pending = 0 := by
  have := (C04_exit_absorbs_iff h).mp (.inl rfl)
  exact C05_absorbing_exit_pays_back hr hrun h this.1 this.2.1

/-- **C05_pointer.**  After any `__exit__` in a reachable state the task's current scope is the
parent again, and the scope is inactive, has no host, no live timeout handle and owes nothing. -/
theorem C05_pointer {st st' : State} {t s : Nat} {ev : ExcVal} {r : ExitResult}
    (hr : Reach st) (h : exitScope st t s ev = some (st', r)) :
    (st'.tasks t).scope = (st.scopes s).parent ∧
    (st'.scopes s).active = false ∧
    (st'.scopes s).host = none ∧
    (st'.scopes s).timer = false ∧
    (st'.scopes s).pending = 0 := by
  obtain ⟨h1, h2, h3, h4⟩ := C04_exit_restores_pointer h
  refine ⟨h1, h2, h3, h4, ?_⟩
  have w := wf_reach hr
  have hpar : (st.scopes s).parent ≠ some s := w.parent_ne
  rw [exitScope_eq] at h
  split at h
  · contradiction
  · simp only [Option.some.injEq] at h
    have f1 := frame_restartInParent (exitCore st t s) s
    have := exitTail_pending (restartInParent (exitCore st t s) s) t s ev
      (by rw [(f1.scopes s).parent]
          have := (gf_exitCore st t s)
          cases hB : (st.scopes s).parent <;> cases hT : (st.scopes s).timer <;>
            simp only [exitCore, hB, hT, setScope_scopes, setTask_scopes, unschedule_scopes,
              Bool.false_eq_true, if_false, if_true] <;>
            grind)
    rw [h] at this
    exact this

/-- ... as seen by user code: the `.exit s ev` event. -/
theorem C05_pointer_step {st st' : State} {s : Nat} {ev : ExcVal} {r : ExitResult}
    (hr : Reach st) (hs : step st (.exit s ev) = some (st', .exit r)) :
    ∃ t, st.running = some t ∧
      (st'.tasks t).scope = (st.scopes s).parent ∧
      (st'.scopes s).active = false ∧ (st'.scopes s).host = none ∧
      (st'.scopes s).timer = false ∧ (st'.scopes s).pending = 0 := by
  simp only [step] at hs
  split at hs
  · contradiction
  · rename_i t hrun
    split at hs
    · contradiction
    · split at hs
      · simp at hs
      · rename_i st1 r1 hex
        simp only [Option.some.injEq, Prod.mk.injEq] at hs
        obtain ⟨rfl, _⟩ := hs
        exact ⟨t, hrun, C05_pointer hr hex⟩

/-- ... as seen by user code: a `.exit s ev` event that swallows lowers `cancelling()` of the
running task by exactly what the scope owed. -/
theorem C05_swallowing_exit_step {st st' : State} {s : Nat} {ev : ExcVal}
    (hr : Reach st) (hs : step st (.exit s ev) = some (st', .exit .swallowed)) :
    ∃ t, st.running = some t ∧ (st.scopes s).pending ≤ (st.tasks t).ncancel ∧
      (st'.tasks t).ncancel = (st.tasks t).ncancel - (st.scopes s).pending ∧
      (st'.scopes s).pending = 0 := by
  simp only [step] at hs
  split at hs
  · contradiction
  · rename_i t hrun
    split at hs
    · contradiction
    · split at hs
      · simp at hs
      · rename_i st1 r1 hex
        simp only [Option.some.injEq, Prod.mk.injEq, Out.exit.injEq] at hs
        obtain ⟨rfl, rfl⟩ := hs
        exact ⟨t, hrun, C05_swallowing_exit_pays_back hr hrun hex⟩

/-- Leaving the outermost scope of a task (by any `__exit__`, absorbing or not) leaves
`cancelling()` at exactly the native requests not taken back plus what other tasks' scopes and
dropped deliveries left: no scope of the task has any claim left. -/
theorem C05_outermost_exit_restores {st st' : State} {s : Nat} {ev : ExcVal} {r : ExitResult}
    (hr : Reach st) (hs : step st (.exit s ev) = some (st', .exit r))
    (hout : (st.scopes s).parent = none) :
    ∃ t, st.running = some t ∧
      (st'.tasks t).ncancel =
        (st'.tasks t).nNative - (st'.tasks t).nUserUncancel + (st'.tasks t).nForeign +
          (st'.tasks t).nDropped := by
  have hr' : Reach st' := Reachable.next hr hs
  have w' := wf_reach hr'
  obtain ⟨t, hrun, hsc, _⟩ := C05_pointer_step hr hs
  refine ⟨t, hrun, C05_restored_no_scope hr' t (fun x hx => ?_)⟩
  have hrun' : st'.running = some t := by
    simp only [step, hrun] at hs
    split at hs
    · contradiction
    · split at hs
      · simp at hs
      · rename_i st1 r1 hex
        simp only [Option.some.injEq, Prod.mk.injEq] at hs
        obtain ⟨rfl, _⟩ := hs
        rw [exitScope_running hex]; exact hrun
  rcases w'.host_scope x t hx with ⟨_, s0, h0, _⟩ | hd
  · rw [hsc, hout] at h0; cases h0
  · have := (w'.running_spec t).mp hrun'
    rw [hd] at this; cases this

/-- The timeout handle of the scope is cancelled by `__exit__`: if the scope had a live handle,
every `timeout s` entry is gone from the timers and from the current batch, nothing else is
removed, and nothing `__exit__` schedules is a timeout handle. -/
theorem C05_timer_removed {st st' : State} {t s : Nat} {ev : ExcVal} {r : ExitResult}
    (h : exitScope st t s ev = some (st', r)) :
    st'.timers =
      (if (st.scopes s).timer then st.timers.filter (·.2 ≠ .timeout s) else st.timers) ∧
    st'.cur = (if (st.scopes s).timer then st.cur.filter (· ≠ .timeout s) else st.cur) ∧
    ∃ extra, st'.ready =
        (if (st.scopes s).timer then st.ready.filter (· ≠ .timeout s) else st.ready) ++ extra ∧
      ∀ h ∈ extra, ∀ s', h ≠ Handle.timeout s' :=
  (C04_exit_queues h).2

/-! ### the delivery callback -/

/-- **C05_deliver_stops.**  A `_deliver_cancellation` callback that finds no live task in its
scope and no child scope to descend into (every child is shielded or cancelled itself) clears
`_cancel_handle` and schedules nothing: it does not keep the loop busy (the issue #1111 shape).
Nothing else changes either. -/
theorem C05_deliver_stops {st st' : State} {o : Out} {s : Nat}
    (hs : step st (.run (.deliver s)) = some (st', o))
    (ht : ∀ u ∈ (st.scopes s).tasks, (st.tasks u).st = .done)
    (hc : ∀ c ∈ (st.scopes s).children,
      (st.scopes c).shield = true ∨ (st.scopes c).cancelCalled = true) :
    (st'.scopes s).deliver = false ∧ st'.ready = st.ready ∧
    st'.cur = st.cur.erase (.deliver s) ∧ st'.timers = st.timers ∧ st'.tasks = st.tasks ∧
    (∀ x, x ≠ s → st'.scopes x = st.scopes x) := by
  simp only [step] at hs
  split at hs
  · contradiction
  · simp only [Option.some.injEq, Prod.mk.injEq] at hs
    obtain ⟨rfl, _⟩ := hs
    rw [deliver_idle { st with cur := st.cur.erase (Handle.deliver s) } s ht hc]
    refine ⟨by simp, rfl, rfl, rfl, rfl, fun x hx => by simp [hx]⟩

/-- After `__exit__` the scope has no task of its own left if the host was its only member, so a
still-scheduled delivery handle of an exited plain scope stops at its next run. -/
theorem C05_exited_scope_deliver_stops {st st' st'' : State} {t s : Nat} {ev : ExcVal}
    {r : ExitResult} {o : Out} (hr : Reach st) (h : exitScope st t s ev = some (st', r))
    (hone : (st.scopes s).tasks = [t]) (hch : (st.scopes s).children = [])
    (hs : step st' (.run (.deliver s)) = some (st'', o)) :
    (st''.scopes s).deliver = false ∧ st''.ready = st'.ready := by
  have w := wf_reach hr
  have hl := (C04_exit_relinks h).2.1 w.parent_ne
  have := C05_deliver_stops hs (by rw [hl.1, hone]; simp) (by rw [hl.2, hch]; simp)
  exact ⟨this.1, this.2.1⟩

/-! ### non-vacuity: concrete runs -/

/-- A scope cancelled by its own host, re-delivered in two consecutive cycles: the host's
`cancelling()` is 2 and the scope owes 2. -/
example :
    (runFrom step init
      [.mkScope false none, .enter 0, .cancel 0, .yield,
       .beginCycle 0, .run (.deliver 0), .run (.step 0),
       .yield, .beginCycle 0, .run (.deliver 0), .run (.step 0)]).map
      (fun st => ((st.tasks 0).ncancel, (st.scopes 0).pending, pendSum st 0, (st.tasks 0).nOwn)) =
      some (2, 2, 2, 2) := by decide

/-- ... in that state the hypotheses of `C05_absorbing_exit_pays_back` hold and `__exit__` swallows. -/
example :
    (runFrom step init
      [.mkScope false none, .enter 0, .cancel 0, .yield,
       .beginCycle 0, .run (.deliver 0), .run (.step 0),
       .yield, .beginCycle 0, .run (.deliver 0), .run (.step 0)]).map
      (fun st => (st.running, (st.scopes 0).cancelCalled, parentVisible st 0,
        (exitScope st 0 0 (.one .cancelAnyio)).map (·.2))) =
      some (some 0, true, false, some .swallowed) := by decide

/-- ... and after the exit `cancelling()` is 0 again, the scope is inactive, hostless and owes
nothing; its delivery handle is still scheduled. -/
example :
    (runFrom step init
      [.mkScope false none, .enter 0, .cancel 0, .yield,
       .beginCycle 0, .run (.deliver 0), .run (.step 0),
       .yield, .beginCycle 0, .run (.deliver 0), .run (.step 0),
       .exit 0 (.one .cancelAnyio)]).map
      (fun st => ((st.tasks 0).ncancel, (st.scopes 0).pending, (st.scopes 0).active,
        (st.scopes 0).host, (st.tasks 0).scope)) =
      some (0, 0, false, none, none) := by decide

example :
    (runFrom step init
      [.mkScope false none, .enter 0, .cancel 0, .yield,
       .beginCycle 0, .run (.deliver 0), .run (.step 0),
       .yield, .beginCycle 0, .run (.deliver 0), .run (.step 0),
       .exit 0 (.one .cancelAnyio)]).map
      (fun st => (st.ready, (st.scopes 0).tasks, (st.scopes 0).children)) =
      some ([.deliver 0], [], []) := by decide

/-- ... which stops at its next run (`C05_deliver_stops`): flag cleared, nothing scheduled. -/
example :
    (runFrom step init
      [.mkScope false none, .enter 0, .cancel 0, .yield,
       .beginCycle 0, .run (.deliver 0), .run (.step 0),
       .yield, .beginCycle 0, .run (.deliver 0), .run (.step 0),
       .exit 0 (.one .cancelAnyio), .yield, .beginCycle 0, .run (.deliver 0)]).map
      (fun st => ((st.scopes 0).deliver, st.ready, st.cur)) =
      some (false, [], [.step 0]) := by decide

/-- Nested scopes of one host, both cancelled: the inner scope collects two deliveries, does not
absorb (its cancelled parent is visible) and hands its count to the parent ... -/
example :
    (runFrom step init
      [.mkScope false none, .mkScope false none, .enter 0, .enter 1, .cancel 1, .cancel 0, .yield,
       .beginCycle 0, .run (.deliver 1), .run (.step 0),
       .yield, .beginCycle 0, .run (.deliver 1), .run (.step 0),
       .exit 1 (.one .cancelAnyio)]).map
      (fun st => ((st.tasks 0).ncancel, (st.scopes 0).pending, (st.scopes 1).pending,
        (st.scopes 1).host, pendSum st 0)) =
      some (2, 2, 0, none, 2) := by decide

/-- ... whose absorbing exit pays everything back. -/
example :
    (runFrom step init
      [.mkScope false none, .mkScope false none, .enter 0, .enter 1, .cancel 1, .cancel 0, .yield,
       .beginCycle 0, .run (.deliver 1), .run (.step 0),
       .yield, .beginCycle 0, .run (.deliver 1), .run (.step 0),
       .exit 1 (.one .cancelAnyio), .exit 0 (.one .cancelAnyio)]).map
      (fun st => ((st.tasks 0).ncancel, (st.scopes 0).pending, (st.scopes 1).pending,
        pendSum st 0, (st.tasks 0).nDropped)) =
      some (0, 0, 0, 0, 0) := by decide

/-- The F5 shape: a child's `TaskHandle.cancel()` is delivered to the child (own delivery), then
the group scope is cancelled; the child's handle scope exits without absorbing and its parent (the
group scope) is hosted by another task: the count is dropped (`nDropped`), the group's host is not
charged, and the equation of `C05_count` holds for both tasks. -/
example :
    (runFrom step init
      [.mkGroup, .groupEnter 0, .spawn 0, .yield, .beginCycle 0, .run (.step 1), .yield,
       .run (.step 0), .handleCancel 1, .cancel 0, .yield, .beginCycle 0, .run (.step 1),
       .finish (.one .cancelAnyio)]).map
      (fun st => (((st.tasks 1).ncancel, (st.tasks 1).nDropped, (st.tasks 1).nOwn, pendSum st 1),
        ((st.tasks 0).ncancel, (st.scopes 0).pending, pendSum st 0))) =
      some ((1, 1, 1, 0), (0, 0, 0)) := by decide

/-- A delivery from a scope hosted by another task is "foreign": the group scope (hosted by the
root task) cancels the child; nobody will uncancel it. -/
example :
    (runFrom step init
      [.mkGroup, .groupEnter 0, .spawn 0, .yield, .beginCycle 0, .run (.step 1), .yield,
       .run (.step 0), .cancel 0]).map
      (fun st => ((st.tasks 1).ncancel, (st.tasks 1).nForeign, (st.tasks 1).nOwn, pendSum st 1,
        (st.scopes 0).pending)) =
      some (1, 1, 0, 0, 0) := by decide

/-- Native `cancel()` / `uncancel()` by user code; `uncancel()` without a native request is outside
the API discipline (not enabled). -/
example :
    (runFrom step init [.nativeCancel 0, .uncancel]).map
      (fun st => ((st.tasks 0).ncancel, (st.tasks 0).nNative, (st.tasks 0).nUserUncancel)) =
      some (0, 1, 1) ∧
    (runFrom step init [.uncancel]).isNone = true := by decide

end AnyioModel.Kernel
