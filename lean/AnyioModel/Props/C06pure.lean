/-
C06  Deadlines — the pure-function part.

Statements about the model's functions for ALL states and arguments (no reachability):
`current_effective_deadline()` against a declarative spec, `CancelScope._timeout()`
(`armTimeout`), the `deadline` setter, the `timeout s` branch of `step`, and the last line of
`fail_at`.  Helper lemmas: `Kernel/PureProofs.lean`; the timeout helpers: `Kernel/Timeouts.lean`.
-/
import AnyioModel.Kernel.PureProofs
import AnyioModel.Kernel.Timeouts

namespace AnyioModel.Kernel

/-! ### 5. `current_effective_deadline()` -/

/-- The walk of `current_effective_deadline()` along a chain equals the declarative spec
`effDeadlineSpec`: let `k` be the index of the first scope that is cancelled or shielded; if that
scope exists and is cancelled the result is −∞, otherwise it is the least finite deadline among
`l[0..k]` inclusive (`List.min?` of the finite deadlines of `walked st l`), +∞ if there is none. -/
theorem C06_effective_deadline_spec (st : State) (l : List Nat) :
    effDeadlineList st l none = effDeadlineSpec st l :=
  effDeadlineList_spec st l

/-- the same for the task-level function -/
theorem C06_effective_deadline_task (st : State) (t : Nat) :
    effDeadline st t =
      match (st.tasks t).scope with
      | none => .inf
      | some s => effDeadlineSpec st (st.scopes s).chain := by
  unfold effDeadline
  cases (st.tasks t).scope with
  | none => rfl
  | some s => exact effDeadlineList_spec st _

/-- The scopes the walk takes into account, declaratively: `l[i]` such that no scope before it is
cancelled or shielded ("the enclosing scopes up to the nearest shield", the shielded scope
included). -/
theorem C06_walked_iff (st : State) (l : List Nat) (s : Nat) :
    s ∈ walked st l ↔
      ∃ i, ∃ h : i < l.length, l[i] = s ∧
        ∀ j (hj : j < i), (st.scopes (l[j]'(Nat.lt_trans hj h))).cancelCalled = false ∧
          (st.scopes (l[j]'(Nat.lt_trans hj h))).shield = false := by
  rw [mem_walked_iff]
  simp only [stops, Bool.or_eq_false_iff]

/-- (a) −∞ exactly once cancelled: the effective deadline is −∞ iff the current scope is
effectively cancelled (C04), i.e. iff a cancelled scope is met before any shield. -/
theorem C06_effective_deadline_negInf_iff (st : State) (l : List Nat) :
    effDeadlineList st l none = .negInf ↔ effCancelledList st l = true := by
  rw [effDeadlineList_spec, effDeadlineSpec, cancelledFirst_eq_effCancelledList]
  cases effCancelledList st l <;> simp [toED_ne_negInf]

theorem C06_effective_deadline_negInf_iff' (st : State) (l : List Nat) :
    effDeadlineList st l none = .negInf ↔
      ∃ i, ∃ h : i < l.length, (st.scopes l[i]).cancelCalled = true ∧
        ∀ j (hj : j < i), (st.scopes (l[j]'(Nat.lt_trans hj h))).cancelCalled = false ∧
          (st.scopes (l[j]'(Nat.lt_trans hj h))).shield = false := by
  rw [C06_effective_deadline_negInf_iff, effCancelledList_iff]

/-- (b) a finite result `d` is the deadline of one of the visited scopes and is ≤ every finite
deadline among them — and conversely: "the earliest deadline among the enclosing scopes up to
the nearest shield". -/
theorem C06_effective_deadline_at_iff (st : State) (l : List Nat) (d : Nat) :
    effDeadlineList st l none = .at d ↔
      effCancelledList st l = false ∧
      (∃ s ∈ walked st l, (st.scopes s).deadline = some d) ∧
      ∀ s ∈ walked st l, ∀ d', (st.scopes s).deadline = some d' → d ≤ d' := by
  rw [effDeadlineList_spec, effDeadlineSpec, cancelledFirst_eq_effCancelledList]
  cases hc : effCancelledList st l with
  | true => simp
  | false =>
    simp only [Bool.false_eq_true, if_false, true_and]
    rw [toED_eq_at, List.min?_eq_some_iff]
    simp only [List.mem_filterMap]
    constructor
    · rintro ⟨⟨s, hs, hd⟩, hmin⟩
      exact ⟨⟨s, hs, hd⟩, fun s' hs' d' hd' => hmin d' ⟨s', hs', hd'⟩⟩
    · rintro ⟨⟨s, hs, hd⟩, hmin⟩
      exact ⟨⟨s, hs, hd⟩, fun d' ⟨s', hs', hd'⟩ => hmin s' hs' d' hd'⟩

/-- ... and the result is +∞ iff not cancelled and none of the visited scopes has a finite
deadline. -/
theorem C06_effective_deadline_inf_iff (st : State) (l : List Nat) :
    effDeadlineList st l none = .inf ↔
      effCancelledList st l = false ∧ ∀ s ∈ walked st l, (st.scopes s).deadline = none := by
  rw [effDeadlineList_spec, effDeadlineSpec, cancelledFirst_eq_effCancelledList]
  cases hc : effCancelledList st l with
  | true => simp
  | false =>
    simp only [Bool.false_eq_true, if_false, true_and]
    rw [toED_eq_inf, List.min?_eq_none_iff, List.filterMap_eq_nil_iff]

/-- A shielded, not cancelled scope hides the deadlines (and cancellations) of everything
outside it. -/
theorem C06_shield_hides_outer (st : State) (s : Nat) (rest : List Nat)
    (hc : (st.scopes s).cancelCalled = false) (hs : (st.scopes s).shield = true) :
    effDeadlineList st (s :: rest) none = toED (st.scopes s).deadline := by
  simp only [effDeadlineList, hc, hs, minOpt, Bool.false_eq_true, if_false, if_true]
  cases (st.scopes s).deadline <;> rfl

/-- The effective deadline only depends on `cancelCalled` / `shield` / `deadline` of the scopes
of the chain; in particular `__exit__` of any scope leaves the effective deadline computed along
any chain unchanged. -/
theorem C06_effective_deadline_exit_frame {st st' : State} {t s : Nat} {ev : ExcVal}
    {r : ExitResult} (h : exitScope st t s ev = some (st', r)) (l : List Nat) :
    effDeadlineList st' l none = effDeadlineList st l none :=
  effDeadlineList_congr (exitScope_sameNav h) l none

/-! ### 6. `_timeout()` and the `deadline` setter -/

/-- `CancelScope._timeout()`: with deadline `d`, if the clock has reached `d` the scope is
cancelled (`cancel()`; if it was not cancelled before, `cancelCalled` becomes true with reason
"deadline" and the cancel time is now, its timer handle is dropped, and no other scope's control
state changes), otherwise a timer `(d, timeout s)` is appended and recorded in the `timer` flag and
nothing else changes; with no deadline nothing changes at all. -/
theorem C06_arm_timeout_spec (st : State) (s : Nat) :
    match (st.scopes s).deadline with
    | none => armTimeout st s = st
    | some d =>
      if d ≤ st.now then
        armTimeout st s = cancelScope st s true ∧
        ((armTimeout st s).scopes s).cancelCalled = true ∧
        ((st.scopes s).cancelCalled = false →
          ((armTimeout st s).scopes s).byDeadline = true ∧
          ((armTimeout st s).scopes s).cancelTime = st.now ∧
          ((armTimeout st s).scopes s).timer = false) ∧
        (∀ w, (w, Handle.timeout s) ∈ (armTimeout st s).timers → (w, Handle.timeout s) ∈ st.timers)
      else
        ((armTimeout st s).scopes s).cancelCalled = (st.scopes s).cancelCalled ∧
        ((armTimeout st s).scopes s).byDeadline = (st.scopes s).byDeadline ∧
        ((armTimeout st s).scopes s).timer = true ∧
        (armTimeout st s).timers = st.timers ++ [(d, .timeout s)] := by
  have hsp := (armTimeout_cases st s).2.2.2
  cases hd : (st.scopes s).deadline with
  | none => exact armTimeout_none st s hd
  | some d =>
    rw [hd] at hsp
    dsimp only at hsp ⊢
    by_cases hdue : d ≤ st.now
    · rw [if_pos hdue]
      rw [if_neg (by omega)] at hsp
      refine ⟨armTimeout_due st s d hd hdue, ?_⟩
      cases hc : (st.scopes s).cancelCalled with
      | true =>
        rw [hc, if_pos rfl] at hsp
        rw [hsp]
        exact ⟨hc, fun h => absurd h (by decide), fun _ h => h⟩
      | false =>
        rw [hc, if_neg (by simp)] at hsp
        obtain ⟨h1, h2⟩ := hsp
        refine ⟨(congrArg Scope.cancelCalled h1 :), fun _ =>
          ⟨(congrArg Scope.byDeadline h1 :), (congrArg Scope.cancelTime h1 :),
            (congrArg Scope.timer h1 :)⟩, ?_⟩
        intro w hw
        rw [h2] at hw
        split at hw
        · exact (List.mem_filter.1 hw).1
        · exact hw
    · rw [if_neg hdue]
      rw [if_pos (by omega)] at hsp
      obtain ⟨h1, h2⟩ := hsp
      exact ⟨(congrArg Scope.cancelCalled h1 :), (congrArg Scope.byDeadline h1 :),
        (congrArg Scope.timer h1 :), h2⟩

/-- `_timeout()` never touches the control state of another scope, the clock, or any task's
current-scope pointer. -/
theorem C06_arm_timeout_frame (st : State) (s : Nat) :
    (armTimeout st s).now = st.now ∧
    (∀ i, i ≠ s → ((armTimeout st s).scopes i).cancelCalled = (st.scopes i).cancelCalled ∧
      ((armTimeout st s).scopes i).deadline = (st.scopes i).deadline ∧
      ((armTimeout st s).scopes i).timer = (st.scopes i).timer ∧
      ((armTimeout st s).scopes i).caught = (st.scopes i).caught) ∧
    (∀ t, ((armTimeout st s).tasks t).scope = (st.tasks t).scope) := by
  obtain ⟨h1, h2, h3, _⟩ := armTimeout_cases st s
  exact ⟨h1, fun i hi => ⟨ctl_cancelCalled (h2 i hi), ctl_deadline (h2 i hi), ctl_timer (h2 i hi),
    ctl_caught (h2 i hi)⟩, h3⟩

/-- Assigning `scope.deadline = d'` on an active, not yet cancelled scope re-arms it: the old
timer is dropped and, depending on `d'`, either nothing is armed (+∞), or exactly one timer at
`d'` is armed (clock not there yet), or the scope is cancelled on the spot with reason
"deadline" (already past).  `hrec`: every live timer of `s` is recorded by its `timer` flag
(`_timeout_handle`), which is the only way the code creates them. -/
theorem C06_set_deadline_rearms (st : State) (s : Nat) (d' : Option Nat)
    (hact : (st.scopes s).active = true) (hcc : (st.scopes s).cancelCalled = false)
    (hrec : (st.scopes s).timer = false → ∀ w, (w, Handle.timeout s) ∉ st.timers) :
    ((setDeadline st s d').scopes s).deadline = d' ∧
    (setDeadline st s d').now = st.now ∧
    match d' with
    | none =>
      ((setDeadline st s d').scopes s).cancelCalled = false ∧
      ((setDeadline st s d').scopes s).timer = false ∧
      (setDeadline st s d').timers = st.timers.filter (·.2 ≠ .timeout s)
    | some d =>
      if st.now < d then
        ((setDeadline st s d').scopes s).cancelCalled = false ∧
        ((setDeadline st s d').scopes s).timer = true ∧
        (setDeadline st s d').timers = st.timers.filter (·.2 ≠ .timeout s) ++ [(d, .timeout s)]
      else
        ((setDeadline st s d').scopes s).cancelCalled = true ∧
        ((setDeadline st s d').scopes s).byDeadline = true ∧
        ((setDeadline st s d').scopes s).cancelTime = st.now ∧
        ((setDeadline st s d').scopes s).timer = false ∧
        (setDeadline st s d').timers = st.timers.filter (·.2 ≠ .timeout s) := by
  rw [setDeadline_split', if_pos ⟨hact, hcc⟩]
  have hm := deadlineMid_scopes st s d'
  have hms : (deadlineMid st s d').scopes s =
      { st.scopes s with deadline := d', timer := false } := by rw [hm, upd_same]
  have hn := deadlineMid_now st s d'
  have ht := deadlineMid_timers_of_rec st s d' hrec
  obtain ⟨a1, _, _, a4⟩ := armTimeout_cases (deadlineMid st s d') s
  rw [hms] at a4
  dsimp only at a4
  rw [hn] at a4 a1
  cases d' with
  | none =>
    dsimp only at a4 ⊢
    rw [a4]
    exact ⟨by rw [hms], hn, by rw [hms]; exact hcc, by rw [hms], ht⟩
  | some d =>
    dsimp only at a4 ⊢
    by_cases hlt : st.now < d
    · rw [if_pos hlt] at a4 ⊢
      obtain ⟨h1, h2⟩ := a4
      exact ⟨(congrArg Scope.deadline h1 :), a1, ((congrArg Scope.cancelCalled h1 :) : _ = _).trans hcc,
        (congrArg Scope.timer h1 :), by rw [h2, ht]⟩
    · rw [if_neg hlt] at a4 ⊢
      rw [hcc, if_neg (by simp)] at a4
      obtain ⟨h1, h2⟩ := a4
      refine ⟨(congrArg Scope.deadline h1 :), a1, (congrArg Scope.cancelCalled h1 :),
        (congrArg Scope.byDeadline h1 :), (congrArg Scope.cancelTime h1 :),
        (congrArg Scope.timer h1 :), ?_⟩
      rw [h2, ht]; simp

/-- No stale timer after a deadline assignment (same hypotheses): every live timer of `s` is at
the new deadline and that deadline is still in the future; there is at most one; and the `timer`
flag says exactly whether there is one. -/
theorem C06_set_deadline_no_stale_timer (st : State) (s : Nat) (d' : Option Nat)
    (hact : (st.scopes s).active = true) (hcc : (st.scopes s).cancelCalled = false)
    (hrec : (st.scopes s).timer = false → ∀ w, (w, Handle.timeout s) ∉ st.timers) :
    (∀ w, (w, Handle.timeout s) ∈ (setDeadline st s d').timers → d' = some w ∧ st.now < w) ∧
    ((setDeadline st s d').timers.filter (·.2 = .timeout s)).length ≤ 1 ∧
    (((setDeadline st s d').scopes s).timer = true ↔
      ∃ w, (w, Handle.timeout s) ∈ (setDeadline st s d').timers) := by
  obtain ⟨_, _, h⟩ := C06_set_deadline_rearms st s d' hact hcc hrec
  have hnone : ∀ w, (w, Handle.timeout s) ∉ st.timers.filter (·.2 ≠ .timeout s) := by
    intro w hw; simpa using (List.mem_filter.1 hw).2
  have hcount : (st.timers.filter (·.2 ≠ .timeout s)).filter (·.2 = .timeout s) = [] := by
    rw [List.filter_filter, List.filter_eq_nil_iff]
    intro p _; simp
  cases d' with
  | none =>
    obtain ⟨_, h2, h3⟩ := h
    rw [h3, h2]
    exact ⟨fun w hw => absurd hw (hnone w), by rw [hcount]; simp,
      by simp only [Bool.false_eq_true, false_iff]; rintro ⟨w, hw⟩; exact hnone w hw⟩
  | some d =>
    dsimp only at h
    by_cases hlt : st.now < d
    · rw [if_pos hlt] at h
      obtain ⟨_, h2, h3⟩ := h
      rw [h3, h2]
      refine ⟨?_, ?_, ?_⟩
      · intro w hw
        rcases List.mem_append.1 hw with hw | hw
        · exact absurd hw (hnone w)
        · simp only [List.mem_singleton, Prod.mk.injEq, and_true] at hw
          subst hw; exact ⟨rfl, hlt⟩
      · rw [List.filter_append, hcount]; simp
      · simp only [true_iff]; exact ⟨d, by simp⟩
    · rw [if_neg hlt] at h
      obtain ⟨_, _, _, h2, h3⟩ := h
      rw [h3, h2]
      exact ⟨fun w hw => absurd hw (hnone w), by rw [hcount]; simp,
        by simp only [Bool.false_eq_true, false_iff]; rintro ⟨w, hw⟩; exact hnone w hw⟩

/-- Assigning the deadline of a scope that is not active or already cancelled only records it
and drops the timer: nothing is armed and nothing is cancelled ("never after the scope was
left"). -/
theorem C06_set_deadline_inactive (st : State) (s : Nat) (d' : Option Nat)
    (h : (st.scopes s).active = false ∨ (st.scopes s).cancelCalled = true) :
    (setDeadline st s d').scopes =
      upd st.scopes s { st.scopes s with deadline := d', timer := false } ∧
    (setDeadline st s d').timers =
      (if (st.scopes s).timer then st.timers.filter (·.2 ≠ .timeout s) else st.timers) := by
  rw [setDeadline_split', if_neg (by rcases h with h | h <;> simp [h])]
  exact ⟨deadlineMid_scopes st s d', deadlineMid_timers st s d'⟩

/-- `__enter__` arms the deadline: a scope entered with a deadline that has already passed is
cancelled immediately (reason "deadline", cancel time = now); with a deadline still ahead exactly
one timer `(d, timeout s)` is appended; with no deadline nothing is armed.  (`enterScope`
succeeds only for a scope that is not active and was never entered.) -/
theorem C06_enter_arms {st st' : State} {t s : Nat} (h : enterScope st t s = some st') :
    (st'.scopes s).active = true ∧ st'.now = st.now ∧
    match (st.scopes s).deadline with
    | none =>
      (st'.scopes s).cancelCalled = (st.scopes s).cancelCalled ∧
      (st'.scopes s).timer = (st.scopes s).timer ∧ st'.timers = st.timers
    | some d =>
      if d ≤ st.now then
        (st'.scopes s).cancelCalled = true ∧
        ((st.scopes s).cancelCalled = false →
          (st'.scopes s).byDeadline = true ∧ (st'.scopes s).cancelTime = st.now ∧
          (st'.scopes s).timer = false)
      else
        (st'.scopes s).cancelCalled = (st.scopes s).cancelCalled ∧
        (st'.scopes s).timer = true ∧
        st'.timers = st.timers ++ [(d, .timeout s)] := by
  obtain ⟨_, _, hact, hcc, hbd, hct, htm, _, htimers, hnow⟩ := enterScope_after_arm h
  have hu := enterLink_unlinked st t s s
  obtain ⟨qn, qt⟩ := enterLink_queues st t s
  have hspec := C06_arm_timeout_spec (enterLink st t s) s
  have hfr := (C06_arm_timeout_frame (enterLink st t s) s).1
  rw [unlinked_deadline hu, qn] at hspec
  refine ⟨hact, by rw [hnow, hfr, qn], ?_⟩
  rw [hcc, hbd, hct, htm, htimers]
  cases hd : (st.scopes s).deadline with
  | none =>
    rw [hd] at hspec; dsimp only at hspec ⊢
    rw [hspec]
    exact ⟨unlinked_cancelCalled hu, unlinked_timer hu, qt⟩
  | some d =>
    rw [hd] at hspec; dsimp only at hspec ⊢
    by_cases hdue : d ≤ st.now
    · rw [if_pos hdue] at hspec ⊢
      obtain ⟨_, h2, h3, _⟩ := hspec
      rw [unlinked_cancelCalled hu] at h3
      exact ⟨h2, h3⟩
    · rw [if_neg hdue] at hspec ⊢
      obtain ⟨h1, _, h3, h4⟩ := hspec
      exact ⟨h1.trans (unlinked_cancelCalled hu), h3, by rw [h4, qt]⟩

/-! ### 7. the `timeout s` callback fires exactly when due; `fail_at` -/

/-- The `run (timeout s)` branch of `step` (the loop runs `scope._timeout`): it cancels `s` iff
the clock has reached the scope's deadline — never early; when it does, the reason is "deadline"
and the cancel time is the current clock; when the deadline is still ahead (it was moved) the
timer is re-armed at the deadline instead; no other scope is cancelled. -/
theorem C06_timeout_run_exact {st st' : State} {s : Nat} {o : Out}
    (h : step st (.run (.timeout s)) = some (st', o)) :
    o = .none ∧ st'.now = st.now ∧
    (∀ i, i ≠ s → (st'.scopes i).cancelCalled = (st.scopes i).cancelCalled) ∧
    ((st.scopes s).cancelCalled = false →
      ((st'.scopes s).cancelCalled = true ↔
        ∃ d, (st.scopes s).deadline = some d ∧ d ≤ st.now) ∧
      ((st'.scopes s).cancelCalled = true →
        (st'.scopes s).byDeadline = true ∧ (st'.scopes s).cancelTime = st.now ∧
        (st'.scopes s).timer = false)) ∧
    ((st.scopes s).cancelCalled = true →
      (st'.scopes s).cancelCalled = true ∧
      (st'.scopes s).byDeadline = (st.scopes s).byDeadline) ∧
    (∀ d, (st.scopes s).deadline = some d → st.now < d →
      (st'.scopes s).timer = true ∧ st'.timers = st.timers ++ [(d, .timeout s)]) ∧
    ((st.scopes s).deadline = none → (st'.scopes s).timer = false ∧ st'.timers = st.timers) := by
  rw [step_run_timeout] at h
  split at h
  · cases h
  · simp only [Option.some.injEq, Prod.mk.injEq] at h
    obtain ⟨rfl, rfl⟩ := h
    have hms : (runMid st s).scopes s = { st.scopes s with timer := false } := by
      rw [runMid_scopes, upd_same]
    have hmo : ∀ i, i ≠ s → (runMid st s).scopes i = st.scopes i := by
      intro i hi; rw [runMid_scopes, upd_other _ _ _ _ hi]
    have hn : (runMid st s).now = st.now := rfl
    have htm : (runMid st s).timers = st.timers := rfl
    obtain ⟨a1, a2, _, a4⟩ := armTimeout_cases (runMid st s) s
    rw [hms] at a4
    dsimp only at a4
    rw [hn, htm] at a4
    refine ⟨rfl, a1, fun i hi => by rw [ctl_cancelCalled (a2 i hi), hmo i hi], ?_, ?_, ?_, ?_⟩
    · intro hcc
      cases hd : (st.scopes s).deadline with
      | none =>
        rw [hd] at a4; dsimp only at a4
        rw [a4, hms]
        simp [hcc]
      | some d =>
        rw [hd] at a4; dsimp only at a4
        by_cases hlt : st.now < d
        · rw [if_pos hlt] at a4
          have hc' : ((armTimeout (runMid st s) s).scopes s).cancelCalled = false :=
            ((congrArg Scope.cancelCalled a4.1 :) : _ = _).trans hcc
          rw [hc']
          simp only [Bool.false_eq_true, Option.some.injEq, exists_eq_left', false_iff,
            false_imp_iff, and_true]
          omega
        · rw [if_neg hlt, hcc, if_neg (by simp)] at a4
          obtain ⟨h1, _⟩ := a4
          refine ⟨?_, fun _ => ⟨(congrArg Scope.byDeadline h1 :), (congrArg Scope.cancelTime h1 :),
            (congrArg Scope.timer h1 :)⟩⟩
          have hc' : ((armTimeout (runMid st s) s).scopes s).cancelCalled = true :=
            (congrArg Scope.cancelCalled h1 :)
          rw [hc']
          simp only [Option.some.injEq, exists_eq_left', true_iff]
          omega
    · intro hcc
      cases hd : (st.scopes s).deadline with
      | none =>
        rw [hd] at a4; dsimp only at a4
        rw [a4, hms]; exact ⟨hcc, rfl⟩
      | some d =>
        rw [hd] at a4; dsimp only at a4
        by_cases hlt : st.now < d
        · rw [if_pos hlt] at a4
          exact ⟨((congrArg Scope.cancelCalled a4.1 :) : _ = _).trans hcc,
            (congrArg Scope.byDeadline a4.1 :)⟩
        · rw [if_neg hlt, hcc, if_pos rfl] at a4
          rw [a4, hms]; exact ⟨hcc, rfl⟩
    · intro d hd hlt
      rw [hd] at a4; dsimp only at a4
      rw [if_pos hlt] at a4
      exact ⟨(congrArg Scope.timer a4.1 :), a4.2⟩
    · intro hd
      rw [hd] at a4; dsimp only at a4
      rw [a4, hms]; exact ⟨rfl, rfl⟩

/-- The handle runs only when the loop has popped it: `run (timeout s)` is enabled iff no task is
running and the handle is in the current batch. -/
theorem C06_timeout_run_enabled_iff (st : State) (s : Nat) :
    (step st (.run (.timeout s))).isSome ↔
      st.running = none ∧ Handle.timeout s ∈ st.cur := by
  rw [step_run_timeout]
  cases hr : st.running <;> by_cases hm : Handle.timeout s ∈ st.cur <;> simp [hm]

/-- `fail_at`'s last line raises TimeoutError iff the scope caught its own cancellation and the
clock has reached the scope's (current, finite) deadline. -/
theorem C06_fail_at_iff (caught : Bool) (now : Nat) (dl : Option Nat) :
    failAtRaises caught now dl = true ↔ caught = true ∧ ∃ d, dl = some d ∧ d ≤ now := by
  cases dl <;> simp [failAtRaises]

/-- `fail_at(None)` / `fail_after(None)` never raise TimeoutError. -/
theorem C06_fail_at_inf (caught : Bool) (now : Nat) : failAtRaises caught now none = false := by
  simp [failAtRaises]

/-- The whole `with fail_at(...)` exit: TimeoutError is raised iff the scope's `__exit__` let
nothing out, `cancelled_caught` is set afterwards, and the clock has reached the deadline; an
exception that leaves `__exit__` (native cancellation, errors, a cancellation belonging to an
outer scope, the remainder of a group) is never replaced by TimeoutError. -/
theorem C06_fail_at_exit_iff {st st' : State} {t s : Nat} {ev : ExcVal} {out : FailOut}
    (h : failAtExit st t s ev = some (st', out)) :
    ∃ r, exitScope st t s ev = some (st', r) ∧
      (out = .timeout ↔
        exitToOut ev r = .none ∧ (st'.scopes s).caught = true ∧
          ∃ d, (st.scopes s).deadline = some d ∧ d ≤ st.now) ∧
      (∀ e, out = .exc e ↔ (exitToOut ev r = e ∧ e ≠ .none)) := by
  unfold failAtExit at h
  split at h
  · cases h
  · rename_i st1 r he
    refine ⟨r, ?_⟩
    have hdl : (st1.scopes s).deadline = (st.scopes s).deadline := nav_deadline (exitScope_sameNav he s)
    have hnow : st1.now = st.now := (exitScope_queues he).1
    split at h
    · rename_i hout
      simp only [Option.some.injEq, Prod.mk.injEq] at h
      obtain ⟨rfl, rfl⟩ := h
      refine ⟨he, ?_, ?_⟩
      · rw [hout, ← hdl, ← hnow, ← C06_fail_at_iff]
        cases failAtRaises (st1.scopes s).caught st1.now (st1.scopes s).deadline <;> simp
      · intro e; rw [hout]
        cases failAtRaises (st1.scopes s).caught st1.now (st1.scopes s).deadline <;>
          simp only [Bool.false_eq_true, if_false, if_true, reduceCtorEq, false_iff, not_and,
            Decidable.not_not] <;> exact fun h => h.symm
    · rename_i hne
      simp only [Option.some.injEq, Prod.mk.injEq] at h
      obtain ⟨rfl, rfl⟩ := h
      refine ⟨he, ?_, ?_⟩
      · simp only [reduceCtorEq, false_iff, not_and]
        intro h0; exact absurd h0 (by simpa using hne)
      · intro e
        simp only [FailOut.exc.injEq]
        constructor
        · rintro rfl; exact ⟨rfl, by simpa using hne⟩
        · rintro ⟨rfl, _⟩; rfl

/-- For a scope that had not caught anything before (every `fail_at` scope is fresh), the
`with fail_at(...)` statement raises TimeoutError exactly when the scope's exit swallowed an
AnyIO cancellation and the deadline has passed. -/
theorem C06_fail_at_exit_fresh {st st' : State} {t s : Nat} {ev : ExcVal} {out : FailOut}
    (h : failAtExit st t s ev = some (st', out)) (hfresh : (st.scopes s).caught = false) :
    out = .timeout ↔
      (st.scopes s).cancelCalled = true ∧ parentVisible st s = false ∧
      (ev = .one .cancelAnyio ∨ ∃ es, ev = .group es ∧ es ≠ [] ∧ ∀ e ∈ es, e = .cancelAnyio) ∧
      ∃ d, (st.scopes s).deadline = some d ∧ d ≤ st.now := by
  obtain ⟨r, he, h1, _⟩ := C06_fail_at_exit_iff h
  obtain ⟨_, hr, hs⟩ := exitScope_class he
  have hcaught : (st'.scopes s).caught = decide (r ≠ .passed) := by
    rw [hs.caught, walk_caught (exitMid_sameWalk st t s s), hfresh]; simp
  have hsw : (exitToOut ev r = .none ∧ (st'.scopes s).caught = true) ↔ r = .swallowed := by
    rw [hcaught]
    cases r with
    | swallowed => simp [exitToOut]
    | passed => simp
    | raised es => simp [exitToOut]
  rw [h1, ← and_assoc, hsw]
  have := exitClass_swallowed_iff (st.scopes s).cancelCalled (parentVisible st s) ev
  rw [← hr] at this
  rw [this]
  constructor
  · rintro ⟨⟨a, b, c⟩, d⟩; exact ⟨a, b, c, d⟩
  · rintro ⟨a, b, c, d⟩; exact ⟨⟨a, b, c⟩, d⟩

/-! ### non-vacuity -/

section Examples

/-- chain `[3, 2, 1, 0]`: deadlines 50, –, 30, 10; scope 1 shielded -/
def exE : State :=
  { ({} : State) with
    scopes := fun i =>
      if i = 0 then { deadline := some 10, chain := [0] }
      else if i = 1 then { deadline := some 30, shield := true, chain := [1, 0] }
      else if i = 2 then { chain := [2, 1, 0] }
      else if i = 3 then { deadline := some 50, chain := [3, 2, 1, 0] }
      else {}
    tasks := fun i => if i = 0 then { scope := some 3, hasState := true } else {} }

/-- the same with scope 2 cancelled -/
def exF : State :=
  { exE with
    scopes := fun i => if i = 2 then { cancelCalled := true, chain := [2, 1, 0] } else exE.scopes i }

-- the shield hides deadline 10 of scope 0; min(50, 30) = 30
example : effDeadline exE 0 = .at 30 := by decide
example : walked exE [3, 2, 1, 0] = [3, 2, 1] := by decide
example : effDeadlineList exE [0] none = .at 10 := by decide
example : effDeadlineList exE [2] none = .inf := by decide
example : effDeadline exF 0 = .negInf := by decide
example : effDeadlineSpec exF [3, 2, 1, 0] = .negInf := by decide

/-- an active scope 0 with deadline 5 and its timer armed, clock at 3 -/
def exG : State :=
  { ({} : State) with
    now := 3
    cur := [.timeout 0]
    timers := [(5, .timeout 0), (9, .timeout 7)]
    scopes := fun i =>
      if i = 0 then { active := true, deadline := some 5, timer := true, chain := [0] } else {} }

-- `_timeout` before the deadline re-arms, at the deadline cancels with reason "deadline"
example : ((armTimeout exG 0).scopes 0).cancelCalled = false := by decide
example : (armTimeout exG 0).timers = [(5, .timeout 0), (9, .timeout 7), (5, .timeout 0)] := by
  decide
example : ((armTimeout { exG with now := 5 } 0).scopes 0).cancelCalled = true := by decide
example : ((armTimeout { exG with now := 5 } 0).scopes 0).byDeadline = true := by decide
example : (armTimeout { exG with now := 5 } 0).timers = [(9, .timeout 7)] := by decide
-- moving the deadline later / to infinity / into the past
example : (setDeadline exG 0 (some 8)).timers = [(9, .timeout 7), (8, .timeout 0)] := by decide
example : (setDeadline exG 0 none).timers = [(9, .timeout 7)] := by decide
example : ((setDeadline exG 0 none).scopes 0).timer = false := by decide
example : ((setDeadline exG 0 (some 2)).scopes 0).cancelCalled = true := by decide
example : ((setDeadline exG 0 (some 2)).scopes 0).byDeadline = true := by decide
-- the loop runs the handle early (clock 3 < 5): not cancelled; at 6: cancelled
example : (step exG (.run (.timeout 0))).map (fun p => (p.1.scopes 0).cancelCalled) =
    some false := by decide
example : (step { exG with now := 6 } (.run (.timeout 0))).map
    (fun p => ((p.1.scopes 0).cancelCalled, (p.1.scopes 0).byDeadline, (p.1.scopes 0).cancelTime)) =
    some (true, true, 6) := by decide
example : (step { exG with running := some 0 } (.run (.timeout 0))).isSome = false := by decide
-- entering a scope whose deadline has passed cancels it at once; otherwise a timer is armed
example : (enterScope { ({} : State) with now := 9, scopes := fun i =>
    if i = 0 then { exists_ := true, deadline := some 5 } else {} } 0 0).map
    (fun p => ((p.scopes 0).cancelCalled, (p.scopes 0).byDeadline, p.timers)) =
    some (true, true, []) := by decide
example : (enterScope { ({} : State) with now := 2, scopes := fun i =>
    if i = 0 then { exists_ := true, deadline := some 5 } else {} } 0 0).map
    (fun p => ((p.scopes 0).cancelCalled, (p.scopes 0).timer, p.timers)) =
    some (false, true, [(5, .timeout 0)]) := by decide
-- fail_at
example : failAtRaises true 7 (some 5) = true := by decide
example : failAtRaises true 4 (some 5) = false := by decide
example : failAtRaises false 7 (some 5) = false := by decide
example : failAtRaises true 7 none = false := by decide

/-- task 0 inside a `fail_at(5)` scope 1 that was cancelled by its deadline, clock at 5 -/
def exH : State :=
  { ({} : State) with
    now := 5
    running := some 0
    tasks := fun i => if i = 0 then { st := .running, hasState := true, scope := some 1 } else {}
    scopes := fun i =>
      if i = 0 then { active := true, host := some 0, chain := [0], children := [1] }
      else if i = 1 then
        { active := true, host := some 0, parent := some 0, chain := [1, 0], tasks := [0],
          cancelCalled := true, byDeadline := true, deadline := some 5 }
      else {} }

example : (failAtExit exH 0 1 (.one .cancelAnyio)).map (·.2) = some .timeout := by decide
example : (failAtExit exH 0 1 .none).map (·.2) = some .ret := by decide
example : (failAtExit exH 0 1 (.one (.err 1))).map (·.2) = some (.exc (.one (.err 1))) := by
  decide
-- explicit cancel before the deadline (clock 4 < 5): swallowed, but no TimeoutError
example : (failAtExit { exH with now := 4 } 0 1 (.one .cancelAnyio)).map (·.2) = some .ret := by
  decide

end Examples

end AnyioModel.Kernel
