import AnyioModel.Stream.Buffered
import AnyioModel.Stream.TextCodecs
