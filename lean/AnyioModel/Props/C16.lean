/-
C16  Buffered and text stream wrappers are transparent to chunking.

Property theorems only.  Models: `AnyioModel.Stream.Buffered` (BufferedByteReceiveStream),
`AnyioModel.Stream.Text` (+ `TextCodecs`); lemmas: `Stream/FindProofs`, `Stream/BufferedProofs`,
`Stream/BufferedLoops`, `Stream/TextProofs`, `Stream/Utf8Proofs`.

Buffered part: every statement is for ALL states - any buffer contents, any remaining chunk
list of the wrapped stream (= any chunking of any byte sequence), either kind of wrapped stream,
any list `env` of environment choices (how many bytes a byte stream returns per call), open or
closed - and for all arguments; `C16_conservation` is for all call sequences.
`s.pending = s.buf ++ s.rest` is everything not yet handed out, in order.
-/
import AnyioModel.Stream.BufferedLoops
import AnyioModel.Stream.Utf8Proofs

namespace AnyioModel.Props.C16

section Buffered
open AnyioModel.Stream.Buffered

/-- Nothing dropped, duplicated or reordered, for every call sequence (receive /
receive_exactly / receive_until / feed_data / aclose in any order): what was handed out
(results and consumed delimiters, in call order) followed by the final buffer is exactly the
initial buffer followed by the bytes that entered (pulled from the wrapped stream or fed, in
the order they entered); and the wrapped stream was consumed strictly from its front. -/
theorem C16_conservation (s : State) (cs : List Call) :
    handedOf cs (run s cs).1 ++ (run s cs).2.buf = s.buf ++ entered s cs ∧
    s.rest = sourced s cs ++ (run s cs).2.rest := by
  induction cs generalizing s with
  | nil => simp [run, handedOf, entered, sourced]
  | cons c cs ih =>
    obtain ⟨ih1, ih2⟩ := ih (call s c).2
    obtain ⟨p, h1, h2⟩ := call_conserves (show call s c = ((call s c).1, (call s c).2) from rfl)
    have hp := pulledBy_eq h1
    simp only [run, handedOf, entered, sourced, hp]
    constructor
    · rw [List.append_assoc, ih1, ← List.append_assoc, h2]
      simp [List.append_assoc]
    · rw [List.append_assoc, ← ih2, ← h1]

/-- Without `feed_data` this reads: handed out ++ buffer ++ undelivered rest is the original
pending byte sequence. -/
theorem C16_conservation_nofeed (s : State) (cs : List Call) (hnf : ∀ c ∈ cs, fedBy c = []) :
    handedOf cs (run s cs).1 ++ (run s cs).2.pending = s.pending := by
  induction cs generalizing s with
  | nil => simp [run, handedOf]
  | cons c cs ih =>
    have ih' := ih (call s c).2 (fun c' hc' => hnf c' (by simp [hc']))
    obtain ⟨p, h1, h2⟩ := call_conserves (show call s c = ((call s c).1, (call s c).2) from rfl)
    rw [hnf c (by simp), List.append_nil] at h2
    simp only [run, handedOf]
    rw [List.append_assoc, ih']
    simp only [State.pending]
    rw [← List.append_assoc, h2, h1, List.append_assoc]

/-- One call: the bytes it hands out are a prefix of what was pending (buffer first, then the
wrapped stream in order); a failing call hands out nothing and loses nothing. -/
theorem C16_conservation_step {s s' : State} {c : Call} {r : Res} (h : call s c = (r, s'))
    (hnf : fedBy c = []) : handed c r ++ s'.pending = s.pending ∧
    (∀ e, r = .error e → s'.pending = s.pending) := by
  obtain ⟨p, h1, h2⟩ := call_conserves h
  rw [hnf, List.append_nil] at h2
  have : handed c r ++ s'.pending = s.pending := by
    simp only [State.pending]
    rw [← List.append_assoc, h2, h1, List.append_assoc]
  refine ⟨this, fun e he => ?_⟩
  subst he
  cases c <;> simpa [handed] using this

/-- `receive(n)`: `ValueError` iff `n < 1` (checked first, nothing changes); otherwise 1..n
bytes (given a wrapped stream that never delivers an empty chunk), a prefix of the pending
bytes; it fails only on a closed stream or - `EndOfStream` - when nothing at all is pending,
and a failing call leaves the state untouched. -/
theorem C16_receive {s s' : State} {n : Nat} {r : Res} (h : receive s n = (r, s')) :
    (n < 1 → r = .error .value ∧ s' = s) ∧
    (∀ bs, r = .ok bs → 1 ≤ n ∧ bs ++ s'.pending = s.pending ∧
      (NonemptyChunks s → 1 ≤ bs.length ∧ bs.length ≤ n)) ∧
    (∀ e, r = .error e → s' = s ∧
      (e = .value ∧ n < 1 ∨ e = .closed ∧ s.closed = true ∨ e = .eos ∧ s.pending = [])) ∧
    (1 ≤ n → s.closed = false → s.pending ≠ [] → ∃ bs, r = .ok bs) := by
  obtain ⟨hm, hv, he, hok1, hok2, -⟩ := receive_spec h
  refine ⟨fun hn => ?_, fun bs hbs => ?_, he, fun h1 h2 h3 => ?_⟩
  · exact ⟨hv hn, (he _ (hv hn)).1⟩
  · subst hbs
    exact ⟨(hok1 bs rfl).1, by simpa [handed] using hm.pending, hok2 bs rfl⟩
  · cases r with
    | ok bs => exact ⟨bs, rfl⟩
    | error e =>
      rcases (he e rfl).2 with ⟨-, hc⟩ | ⟨-, hc⟩ | ⟨-, hc⟩
      · omega
      · simp [h2] at hc
      · exact absurd hc h3

/-- The hypothesis of `C16_receive` ("the wrapped stream never delivers an empty chunk") holds
throughout every call sequence if it holds for the initial chunking - also for a byte stream
that returns only part of a chunk. -/
theorem C16_nonempty_chunks_invariant (s : State) (cs : List Call) (h : NonemptyChunks s) :
    NonemptyChunks (run s cs).2 := by
  induction cs generalizing s with
  | nil => exact h
  | cons c cs ih =>
    exact ih (call s c).2
      (call_nonempty (show call s c = ((call s c).1, (call s c).2) from rfl) h)

/-- `receive_exactly(n)`: exactly the first `n` pending bytes; otherwise `IncompleteRead`,
only when the wrapped stream is at its end with fewer than `n` bytes in all (or
`ClosedResourceError` on a closed stream), and then nothing is handed out or lost (what was
pulled stays in the buffer).  The loop always terminates (`diverge` is not among the results). -/
theorem C16_exactly {s s' : State} {n : Nat} {r : Res} (h : receiveExactly s n = (r, s')) :
    (∀ bs, r = .ok bs → bs.length = n ∧ bs = s.pending.take n ∧ s'.pending = s.pending.drop n) ∧
    (∀ e, r = .error e → s'.pending = s.pending ∧
      (e = .incomplete ∧ s'.chunks = [] ∧ s.pending.length < n ∧ s.closed = false ∨
       e = .closed ∧ s.closed = true)) ∧
    (s.closed = false → n ≤ s.pending.length → ∃ bs, r = .ok bs) := by
  obtain ⟨hm, hok, herr, hdiv, -⟩ := exactlyLoop_spec _ _ _ _ _ h
  have hp := hm.pending
  have herr' : ∀ e, r = .error e → s'.pending = s.pending ∧
      (e = .incomplete ∧ s'.chunks = [] ∧ s.pending.length < n ∧ s.closed = false ∨
       e = .closed ∧ s.closed = true) := by
    intro e he
    subst he
    have hp' : s'.pending = s.pending := by simpa [handed] using hp
    refine ⟨hp', ?_⟩
    rcases herr e rfl with ⟨a, b, c, d⟩ | a | a
    · refine .inl ⟨a, b, ?_, d⟩
      rw [← hp']
      simp [State.pending, State.rest, b]
      exact c
    · exact .inr a
    · subst a
      exact absurd rfl (hdiv (Nat.le_refl _))
  refine ⟨fun bs hbs => ?_, herr', fun h1 h2 => ?_⟩
  · subst hbs
    have hl := hok bs rfl
    simp only [handed] at hp
    refine ⟨hl, ?_, ?_⟩
    · rw [← hp, ← hl, List.take_left]
    · rw [← hp, ← hl, List.drop_left]
  · cases r with
    | ok bs => exact ⟨bs, rfl⟩
    | error e =>
      rcases (herr' e rfl).2 with ⟨-, -, hc, -⟩ | ⟨-, hc⟩
      · omega
      · simp [h1] at hc

/-- `receive_until(d, m)`: on success the result is exactly the bytes before the FIRST
occurrence of `d` in the pending byte sequence (naive `find` from 0 on buffer ++ rest of the
wrapped stream), the delimiter is consumed and does not occur in the result;
`DelimiterNotFound` only if `d` does not occur in the first `m` pending bytes;
`IncompleteRead` only at the end of the wrapped stream with `d` occurring nowhere; a failing
call hands out nothing and loses nothing; the loop terminates. -/
theorem C16_until {s s' : State} {d : List Byte} {m : Nat} {r : Res}
    (h : receiveUntil s d m = (r, s')) :
    (∀ bs, r = .ok bs → ∃ i, find0 d s.pending = some i ∧ bs = s.pending.take i ∧
      s'.pending = s.pending.drop (i + d.length) ∧ (d ≠ [] → ∀ j, ¬ Occ d bs j)) ∧
    (∀ e, r = .error e → s'.pending = s.pending ∧
      (e = .notFound ∧ find0 d (s.pending.take m) = none ∨
       e = .incomplete ∧ s'.chunks = [] ∧ find0 d s.pending = none ∧ s.closed = false ∨
       e = .closed ∧ s.closed = true)) ∧
    (s.closed = false → find0 d (s.pending.take m) ≠ none → ∃ bs, r = .ok bs) := by
  obtain ⟨hm, hok, herr, hdiv, -⟩ := untilLoop_spec _ _ _ _ _ _ _ h (by simp)
  have herr' : ∀ e, r = .error e → s'.pending = s.pending ∧
      (e = .notFound ∧ find0 d (s.pending.take m) = none ∨
       e = .incomplete ∧ s'.chunks = [] ∧ find0 d s.pending = none ∧ s.closed = false ∨
       e = .closed ∧ s.closed = true) := by
    intro e he
    subst he
    have hp' : s'.pending = s.pending := by simpa [handed] using hm.pending
    refine ⟨hp', ?_⟩
    rcases herr e rfl with ⟨a, b, c⟩ | ⟨a, b, c, d'⟩ | a | a
    · refine .inl ⟨a, ?_⟩
      rw [find0_eq_none_iff]
      intro j hj
      rw [← hp'] at hj
      simp only [State.pending] at hj
      rw [List.take_append_of_le_length b] at hj
      exact c j (occ_of_occ_take hj)
    · refine .inr (.inl ⟨a, b, ?_, c⟩)
      rw [← hp', find0_eq_none_iff]
      simpa [State.pending, State.rest, b] using d'
    · exact .inr (.inr a)
    · subst a
      exact absurd rfl (hdiv (Nat.le_refl _))
  refine ⟨fun bs hbs => ?_, herr', fun h1 h2 => ?_⟩
  · obtain ⟨i, hf, hbs', hrest⟩ := hok bs hbs
    refine ⟨i, find0_eq_some_iff.2 hf, hbs', hrest, fun hd j hj => ?_⟩
    rw [hbs'] at hj
    have hj' := occ_of_occ_take hj
    have hb := hj.bound
    have hdl : 0 < d.length := List.length_pos_iff.2 hd
    simp at hb
    exact hf.2 j (by omega) hj'
  · cases r with
    | ok bs => exact ⟨bs, rfl⟩
    | error e =>
      rcases (herr' e rfl).2 with ⟨-, hc⟩ | ⟨-, -, hc, -⟩ | ⟨-, hc⟩
      · exact absurd hc h2
      · exfalso
        apply h2
        rw [find0_eq_none_iff] at hc ⊢
        exact fun j hj => hc j (occ_of_occ_take hj)
      · simp [h1] at hc

/-- The search offset kept between two iterations of `receive_until` is sound: if `d` does not
occur in the buffer, then after appending any new data `c`, searching from
`max(len(buf) - len(d) + 1, 0)` finds the same first occurrence as searching from 0. -/
theorem C16_offset_sound (d buf c : List Byte) (h : find0 d buf = none) :
    find d (buf ++ c) (buf.length + 1 - d.length) = find0 d (buf ++ c) :=
  find_eq_find0_of_no_occ_below (no_occ_below_offset (find0_eq_none_iff.1 h))

/-- `find0` is `bytes.find`: the first index at which `d` occurs. -/
theorem C16_find_is_first_occurrence (d l : List Byte) (i : Nat) :
    find0 d l = some i ↔ (Occ d l i ∧ ∀ j, j < i → ¬ Occ d l j) :=
  find0_eq_some_iff

/-! ### non-vacuity -/

/-- a delimiter straddling a chunk boundary is found (object stream: "a|" then "|b", delimiter
"||"), and the surplus stays buffered -/
example : (run (init .obj [[97, 124], [124, 98]] []) [.until [124, 124] 8, .receive 5]).1 =
    [.ok [97], .ok [98]] := by decide

/-- the offset is tight: one more and the straddling occurrence is lost -/
example : find [124, 124] ([97, 124] ++ [124]) 2 = none ∧
    find0 [124, 124] ([97, 124] ++ [124]) = some 1 ∧
    find [124, 124] ([97, 124] ++ [124]) (2 + 1 - 2) = some 1 := by decide

/-- byte stream returning one byte per call (environment choices 1,1,1): receive_exactly loops -/
example : (run (init .byte [[97, 98, 99, 100]] [1, 1, 1]) [.exactly 3, .receive 9]).1 =
    [.ok [97, 98, 99], .ok [100]] := by decide

/-- IncompleteRead keeps what was pulled: a later call still sees it -/
example : (run (init .obj [[97], [98]] []) [.exactly 3, .receive 9]).1 =
    [.error .incomplete, .ok [97, 98]] := by decide

/-- DelimiterNotFound at the limit consumes nothing; an oversized object chunk: surplus kept -/
example : (run (init .obj [[97, 98, 99], [100, 124]] []) [.until [124] 3, .receive 2, .receive 9,
    .receive 1]).1 = [.error .notFound, .ok [97, 98], .ok [99], .ok [100]] := by decide

example : (run (init .obj [[97, 98, 99]] []) [.receive 0, .receive 2, .feed [120], .close,
    .receive 1, .exactly 2]).1 =
    [.error .value, .ok [97, 98], .ok [], .ok [], .error .closed, .ok [99, 120]] := by decide

end Buffered

section Text
open AnyioModel.Stream.Text

/-- `TextReceiveStream`: for ANY incremental decoder (state + per-byte step, `decode` = fold),
any input and any way of splitting it into chunks (also inside a multi-byte character, also
with empty chunks): if the whole input decodes to `out`, the successive `receive()` calls
return non-empty strings whose concatenation is `out` and then `EndOfStream`; if the whole
input is malformed, a `UnicodeDecodeError` is raised however it is chunked. -/
theorem C16_text_chunking {σ χ : Type} (D : Decoder σ χ) (whole : List Byte)
    (cs : List (List Byte)) (hcs : cs.flatten = whole) :
    (∀ sf out, D.decode D.init whole = some (sf, out) →
      ∃ outs, receiveAll D cs = (outs, .eos) ∧ outs.flatten = out ∧ ∀ o ∈ outs, o ≠ []) ∧
    (D.decode D.init whole = none → (receiveAll D cs).2 = .decode) := by
  subst hcs
  exact ⟨fun sf out h => receiveAllAux_spec D _ _ sf cs out h (Nat.lt_succ_self _),
    fun h => receiveAllAux_error D _ _ cs h (Nat.lt_succ_self _)⟩

/-- a single `receive()` never returns an empty string, from any decoder state -/
theorem C16_text_receive_nonempty {σ χ : Type} (D : Decoder σ χ) (st : σ)
    (cs : List (List Byte)) (out : List χ) (h : (receive D st cs).1 = .ok out) : out ≠ [] :=
  ((receive_spec D st cs).1 out h).1

/-- Round trip over abstract codecs: if decoding the concatenation of what the (stateful)
encoder produced for a list of items gives back their concatenation, then sending the items
through `TextSendStream`, re-chunking the transport bytes in ANY way and receiving through
`TextReceiveStream` yields non-empty strings concatenating to the text sent. -/
theorem C16_text_roundtrip {σ τ χ : Type} (E : Encoder τ χ) (D : Decoder σ χ)
    (items : List (List χ)) (wire : List (List Byte))
    (_hsend : sendAll E E.init items = (wire, none))
    (hcodec : ∃ sf, D.decode D.init wire.flatten = some (sf, items.flatten))
    (cs : List (List Byte)) (hcs : cs.flatten = wire.flatten) :
    ∃ outs, receiveAll D cs = (outs, .eos) ∧ outs.flatten = items.flatten ∧
      ∀ o ∈ outs, o ≠ [] := by
  obtain ⟨sf, hd⟩ := hcodec
  exact (C16_text_chunking D _ cs hcs).1 sf _ hd

/-- UTF-8 (Lean core's encoder `String.utf8EncodeChar` / decoder `ByteArray.utf8DecodeChar?`):
sending any list of strings through `TextSendStream` never fails, and receiving the transport
bytes through `TextReceiveStream` over any re-chunking `cs` is the identity on the text. -/
theorem C16_text_roundtrip_utf8 (items : List (List Char)) (cs : List (List Byte))
    (hcs : cs.flatten = (sendAll utf8Encoder utf8Encoder.init items).1.flatten) :
    (sendAll utf8Encoder utf8Encoder.init items).2 = none ∧
    ∃ outs, receiveAll utf8Decoder cs = (outs, .eos) ∧ outs.flatten = items.flatten ∧
      ∀ o ∈ outs, o ≠ [] := by
  have hs : sendAll utf8Encoder utf8Encoder.init items =
      (items.map (fun s => s.flatMap String.utf8EncodeChar), none) :=
    sendAll_stateless utf8Encoder _ (fun _ _ => ⟨(), rfl⟩) _ items
  refine ⟨by rw [hs], ?_⟩
  refine C16_text_roundtrip utf8Encoder utf8Decoder items _ hs ⟨[], ?_⟩ cs (by rw [hcs, hs])
  rw [flatten_map_flatMap]
  exact utf8_decode_encode _

/-! ### non-vacuity -/

/-- U+20AC U+1F600 in UTF-16 with BOM, split inside the BOM, inside a code unit and between the
two surrogates: three receives-worth of chunks yield the two characters -/
example : receiveAll (utf16Decoder none)
    [[0xFF], [0xFE, 0xAC], [0x20, 0x3D, 0xD8], [0x00], [0xDE]] =
    ([[Char.ofNat 0x20AC], [Char.ofNat 0x1F600]], .eos) := by decide

/-- UTF-8: "é😀" split inside both characters -/
example : receiveAll utf8Decoder [[0xC3], [0xA9, 0xF0, 0x9F], [0x98, 0x80]] =
    ([[Char.ofNat 0xE9], [Char.ofNat 0x1F600]], .eos) := by decide

/-- the stateful encoder writes the BOM once (F9: a stateless one wrote it per item, and the
second mark came back as U+FEFF) -/
example : (sendAll (utf16Encoder none) (utf16Encoder none).init [['a'], ['b']]).1 =
    [[0xFF, 0xFE, 0x61, 0x00], [0x62, 0x00]] := by decide

example : (receiveAll (utf16Decoder none) [[0xFF, 0xFE, 0x61, 0x00], [0xFF, 0xFE, 0x62, 0x00]]).1 =
    [['a'], [Char.ofNat 0xFEFF, 'b']] := by decide

/-- malformed input is an error under every chunking, here one -/
example : (receiveAll (utf16Decoder (some true)) [[0x00], [0xDC]]).2 = .decode := by decide

end Text

end AnyioModel.Props.C16
