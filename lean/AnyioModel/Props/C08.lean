/-
C08  Checkpoint discipline: blocking primitives always check cancellation and yield.

Property theorems only.  For every cell of the operation × state-class matrix of
`harness/c08.py` whose operation has a Lean model, a theorem about that model that holds for
**all** states of the cell's state class (most of them: for all states of the model, reachable
or not; reachability is used only where it is needed, for `*_parked_undisturbed`):

 (a) *check before effect* -- `C08_<m>_check_before_effect`, `C08_<m>_parked_only_exit`,
     `C08_<m>_cancel_exit`, `C08_<m>_parked_undisturbed`: entered with the caller's scope already
     cancelled (`pre = true`), the call's first segment suspends (does not return) and changes
     nothing observable (`SameBut`/`SameObs` of `AnyioModel.Sync.C08Lemmas`,
     `AnyioModel.Stream.C08Memory`: every field of the primitive and every other task; only the
     caller's own program counter moves); the task is parked in `checkpoint_if_cancelled`; while
     parked, the only enabled events of that task are the spinning `step`, the delivery `mc`,
     and -- after `mc` -- the `step` that raises `cancelled`, each again without observable
     change; no event of another task moves a parked task.
 (b) *yields before returning* -- `C08_<m>_yields_first`, `C08_<m>_returns_in_later_step`:
     without `pre`, in the non-blocking state class, the first segment ends with `susp` and the
     normal return is produced by a later `step t`.
 Exemptions proved as such: `C08_<m>_fast_acquire_exempt` (+ `..._check_still_first`) and
 `C08_<m>_nowait_synchronous`.

Models: `Sync/Lock`, `Sync/Semaphore`, `Sync/Limiter`, `Sync/Event`, `Sync/Condition`,
`Stream/Memory`, `Cache/Lru`, `Kernel/Step`, and `Iter/Checkpoints` for the itertools part.
Deviations of a model from the scheme are stated at the head of its section.  Cells without a
Lean model (`to_thread.run_sync`, `Future.wait`, `await Future`, `functools.reduce`, and the
per-function itertools cells) are covered by the probe matrix only.
-/
import AnyioModel.Sync.C08Lemmas
import AnyioModel.Stream.C08Memory
import AnyioModel.Cache.Lru
import AnyioModel.Kernel.C08Kernel
import AnyioModel.Iter.Checkpoints

namespace AnyioModel.Props.C08
open AnyioModel AnyioModel.Sync AnyioModel.Stream AnyioModel.Cache AnyioModel.Props.C08Aux

/-! ## Lock.acquire  (cells `Lock.acquire[free,fast=0]`, `Lock.acquire[free,fast=1]`) -/

/-- (a) check before effect, every free lock (fast_acquire on or off), every idle task: entered in
a cancelled scope, the first segment suspends (does not return), takes nothing -- owner, waiters,
`holds`, `fast` and every other task are as before -- and parks `t` in `preSpin`. -/
theorem C08_lock_check_before_effect (s : Lock.State) (t : Nat) (hidle : s.pc t = .idle)
    (hfree : s.owner = none ∧ s.waiters = []) :
    ∃ s1, Lock.step s (.acquire t true) = some (s1, .susp) ∧ s1.pc t = .preSpin ∧
      Lock.SameBut t s s1 := by
  refine ⟨{ s with pc := upd s.pc t .preSpin }, ?_, ?_, ?_⟩
  · simp [Lock.step, hidle, hfree]
  · simp
  · simp [Lock.SameBut]; intro u hu; simp [upd, hu]

/-- (a) the only way out: while parked (`preSpin`/`preSpinMC`), whatever event task `t` itself
executes leaves owner/waiters/holds/other tasks unchanged and is one of: `step t` spinning
(`susp`, identical state), `mc t` (`_must_cancel` delivered), or `step t` after `mc t`, which
raises the cancellation exception and leaves the operation.  In particular no event of `t`
returns normally, and `acquire`/`acquire_nowait`/`release`/`fc` by `t` are not enabled. -/
theorem C08_lock_parked_only_exit (s : Lock.State) (t : Nat) (hp : Lock.Parked t s)
    (e : Lock.Ev) (he : Lock.actor e = t) (s' : Lock.State) (o : Lock.Out)
    (hs : Lock.step s e = some (s', o)) :
    Lock.SameBut t s s' ∧
    ((e = .step t ∧ s.pc t = .preSpin ∧ o = .susp ∧ s' = s) ∨
     (e = .mc t ∧ s.pc t = .preSpin ∧ o = .env ∧ s'.pc t = .preSpinMC) ∨
     (e = .step t ∧ s.pc t = .preSpinMC ∧ o = .cancelled ∧ s'.pc t = .idle)) := by
  rcases hp with hp | hp <;> cases e <;> simp [Lock.actor] at he <;> subst he <;>
    simp [Lock.step, hp] at hs <;> (try obtain ⟨rfl, rfl⟩ := hs) <;> simp [Lock.SameBut, hp] <;>
    (intro u hu; simp [upd, hu])

/-- (a) and the exit exists: after `mc t` the wake-up segment raises `cancelled`. -/
theorem C08_lock_cancel_exit (s : Lock.State) (t : Nat) (hp : s.pc t = .preSpin) :
    ∃ s1 s2, Lock.step s (.mc t) = some (s1, .env) ∧ Lock.step s1 (.step t) = some (s2, .cancelled) ∧
      s2.pc t = .idle ∧ Lock.SameBut t s s2 := by
  refine ⟨{ s with pc := upd s.pc t .preSpinMC }, { s with pc := upd (upd s.pc t .preSpinMC) t .idle }, ?_, ?_, ?_, ?_⟩
  · simp [Lock.step, hp]
  · simp [Lock.step]
  · simp
  · simp [Lock.SameBut]; intro u hu; simp [upd, hu]

/-- (a) in every reachable state no event of *another* task moves a parked task: the wake-up
segment of `t` after `mc t` is the only exit. -/
theorem C08_lock_parked_undisturbed {s s' : Lock.State} (h : Lock.Reach s) {t : Nat}
    (hp : Lock.Parked t s) {e : Lock.Ev} {o : Lock.Out} (he : Lock.actor e ≠ t)
    (hs : Lock.step s e = some (s', o)) : s'.pc t = s.pc t :=
  Lock.parked_undisturbed (Lock.inv_of_reach h) hp he hs

/-- (b) yields before returning, `fast_acquire = False`, every free lock: the first segment takes
the lock and suspends in `cancel_shielded_checkpoint` (`fastYield`); `acquire` has not returned
(`holds t` unchanged). -/
theorem C08_lock_yields_first (s : Lock.State) (t : Nat) (hidle : s.pc t = .idle)
    (hfree : s.owner = none ∧ s.waiters = []) (hfast : s.fast = false) :
    ∃ s1, Lock.step s (.acquire t false) = some (s1, .susp) ∧ s1.pc t = .fastYield ∧
      s1.owner = some t ∧ s1.holds = s.holds := by
  refine ⟨{ s with owner := some t, pc := upd s.pc t .fastYield }, ?_, ?_, rfl, rfl⟩
  · simp [Lock.step, hidle, hfree, hfast]
  · simp

/-- (b) ... and it returns only in a later segment: in `fastYield`/`fastYieldMC` the events of `t`
are `step t` (returns, or raises after `mc`) and `mc t`; the return comes from `step t`. -/
theorem C08_lock_returns_in_later_step (s : Lock.State) (t : Nat)
    (hp : s.pc t = .fastYield ∨ s.pc t = .fastYieldMC)
    (e : Lock.Ev) (he : Lock.actor e = t) (s' : Lock.State) (o : Lock.Out)
    (hs : Lock.step s e = some (s', o)) :
    (e = .step t ∧ s.pc t = .fastYield ∧ o = .ret ∧ s'.holds t = true ∧ s'.owner = s.owner) ∨
    (e = .mc t ∧ s.pc t = .fastYield ∧ o = .env) ∨
    (e = .step t ∧ s.pc t = .fastYieldMC ∧ o = .cancelled) := by
  rcases hp with hp | hp <;> cases e <;> simp [Lock.actor] at he <;> subst he <;>
    simp [Lock.step, hp] at hs <;> (try obtain ⟨rfl, rfl⟩ := hs) <;> simp [hp]

/-- exemption `fast_acquire = True`: on a free lock, not cancelled, `acquire` returns at once. -/
theorem C08_lock_fast_acquire_exempt (s : Lock.State) (t : Nat) (hidle : s.pc t = .idle)
    (hfree : s.owner = none ∧ s.waiters = []) (hfast : s.fast = true) :
    ∃ s1, Lock.step s (.acquire t false) = some (s1, .ret) ∧ s1.owner = some t ∧
      s1.holds t = true ∧ s1.pc t = .idle := by
  refine ⟨{ s with owner := some t, holds := upd s.holds t true }, ?_, rfl, ?_, hidle⟩
  · simp [Lock.step, hidle, hfree, hfast]
  · simp

/-- ... and with `fast_acquire = True` the cancellation check still comes first. -/
theorem C08_lock_fast_acquire_check_still_first (s : Lock.State) (t : Nat)
    (hidle : s.pc t = .idle) (hfree : s.owner = none ∧ s.waiters = []) (_hfast : s.fast = true) :
    ∃ s1, Lock.step s (.acquire t true) = some (s1, .susp) ∧ s1.pc t = .preSpin ∧
      Lock.SameBut t s s1 :=
  C08_lock_check_before_effect s t hidle hfree

/-- exemption `acquire_nowait`/`release`: synchronous in every state (never `susp`, the task stays
outside any operation). -/
theorem C08_lock_nowait_synchronous (s s' : Lock.State) (t : Nat) (o : Lock.Out) (e : Lock.Ev)
    (he : e = .acquireNowait t ∨ e = .release t) (hs : Lock.step s e = some (s', o)) :
    o ≠ .susp ∧ s.pc t = .idle := by
  rcases he with rfl | rfl <;> simp only [Lock.step] at hs <;> repeat' split at hs
  all_goals first | contradiction | (cases hs; simp_all)

/-! ## Semaphore.acquire  (cells `Semaphore.acquire[value>0,fast=0/1]`) -/

/-- (a) check before effect, every semaphore with a free permit and no queue, fast or not:
entered in a cancelled scope the first segment suspends and changes nothing (value, max,
waiters and all ghost counters as before); `t` is parked in `preSpin`. -/
theorem C08_sem_check_before_effect (s : Semaphore.State) (t : Nat) (hidle : s.pc t = .idle)
    (hfree : 0 < s.value ∧ s.waiters = []) :
    ∃ s1, Semaphore.step s (.acquire t true) = some (s1, .susp) ∧ s1.pc t = .preSpin ∧
      Sem.SameBut t s s1 := by
  refine ⟨{ s with pc := upd s.pc t .preSpin }, ?_, ?_, ?_⟩
  · simp [Semaphore.step, hidle, hfree]
  · simp
  · simp [Sem.SameBut]; intro u hu; simp [upd, hu]

/-- (a) the only way out of the parked state, as for the Lock. -/
theorem C08_sem_parked_only_exit (s : Semaphore.State) (t : Nat) (hp : Sem.Parked t s)
    (e : Semaphore.Ev) (he : Sem.actor e = t) (s' : Semaphore.State) (o : Semaphore.Out)
    (hs : Semaphore.step s e = some (s', o)) :
    Sem.SameBut t s s' ∧
    ((e = .step t ∧ s.pc t = .preSpin ∧ o = .susp ∧ s' = s) ∨
     (e = .mc t ∧ s.pc t = .preSpin ∧ o = .env ∧ s'.pc t = .preSpinMC) ∨
     (e = .step t ∧ s.pc t = .preSpinMC ∧ o = .cancelled ∧ s'.pc t = .idle)) := by
  rcases hp with hp | hp <;> cases e <;> simp [Sem.actor] at he <;> subst he <;>
    simp [Semaphore.step, hp] at hs <;> (try obtain ⟨rfl, rfl⟩ := hs) <;>
    simp [Sem.SameBut, hp] <;> (intro u hu; simp [upd, hu])

theorem C08_sem_cancel_exit (s : Semaphore.State) (t : Nat) (hp : s.pc t = .preSpin) :
    ∃ s1 s2, Semaphore.step s (.mc t) = some (s1, .env) ∧
      Semaphore.step s1 (.step t) = some (s2, .cancelled) ∧ s2.pc t = .idle ∧
      Sem.SameBut t s s2 := by
  refine ⟨{ s with pc := upd s.pc t .preSpinMC },
    { s with pc := upd (upd s.pc t .preSpinMC) t .idle }, ?_, ?_, ?_, ?_⟩
  · simp [Semaphore.step, hp]
  · simp [Semaphore.step]
  · simp
  · simp [Sem.SameBut]; intro u hu; simp [upd, hu]

theorem C08_sem_parked_undisturbed {s s' : Semaphore.State} (h : Semaphore.Reach s) {t : Nat}
    (hp : Sem.Parked t s) {e : Semaphore.Ev} {o : Semaphore.Out} (he : Sem.actor e ≠ t)
    (hs : Semaphore.step s e = some (s', o)) : s'.pc t = s.pc t :=
  Sem.parked_undisturbed (Sem.inv_of_reach h) hp he hs

/-- (b) `fast_acquire = False`: the first segment takes a permit and suspends in
`cancel_shielded_checkpoint`; the call has not returned (`holders` unchanged). -/
theorem C08_sem_yields_first (s : Semaphore.State) (t : Nat) (hidle : s.pc t = .idle)
    (hfree : 0 < s.value ∧ s.waiters = []) (hfast : s.fast = false) :
    ∃ s1, Semaphore.step s (.acquire t false) = some (s1, .susp) ∧ s1.pc t = .fastYield ∧
      s1.value = s.value - 1 ∧ s1.holders = s.holders := by
  refine ⟨{ s with value := s.value - 1, pc := upd s.pc t .fastYield, infl := t :: s.infl },
    ?_, ?_, rfl, rfl⟩
  · simp [Semaphore.step, hidle, hfree, hfast]
  · simp

/-- (b) it returns only in a later `step t`. -/
theorem C08_sem_returns_in_later_step (s : Semaphore.State) (t : Nat)
    (hp : s.pc t = .fastYield ∨ s.pc t = .fastYieldMC)
    (e : Semaphore.Ev) (he : Sem.actor e = t) (s' : Semaphore.State) (o : Semaphore.Out)
    (hs : Semaphore.step s e = some (s', o)) :
    (e = .step t ∧ s.pc t = .fastYield ∧ o = .ret ∧ s'.holders = t :: s.holders ∧
        s'.value = s.value) ∨
    (e = .mc t ∧ s.pc t = .fastYield ∧ o = .env) ∨
    (e = .step t ∧ s.pc t = .fastYieldMC ∧ (o = .cancelled ∨ o = .valueError)) := by
  rcases hp with hp | hp <;> cases e <;> simp [Sem.actor] at he <;>
    (have he' := he.symm; subst he') <;> simp [Semaphore.step, hp] at hs
  · obtain ⟨rfl, rfl⟩ := hs; simp [hp]
  · obtain ⟨rfl, rfl⟩ := hs; simp [hp]
  · simp [hp]
    have : o = (Semaphore.giveBack s t).2 := by rw [hs]
    rw [this]; unfold Semaphore.giveBack; simp only; split <;> simp

theorem C08_sem_fast_acquire_exempt (s : Semaphore.State) (t : Nat) (hidle : s.pc t = .idle)
    (hfree : 0 < s.value ∧ s.waiters = []) (hfast : s.fast = true) :
    ∃ s1, Semaphore.step s (.acquire t false) = some (s1, .ret) ∧ s1.value = s.value - 1 ∧
      s1.holders = t :: s.holders ∧ s1.pc t = .idle := by
  refine ⟨{ s with value := s.value - 1, holders := t :: s.holders }, ?_, rfl, rfl, hidle⟩
  simp [Semaphore.step, hidle, hfree, hfast]

theorem C08_sem_fast_acquire_check_still_first (s : Semaphore.State) (t : Nat)
    (hidle : s.pc t = .idle) (hfree : 0 < s.value ∧ s.waiters = []) (_hfast : s.fast = true) :
    ∃ s1, Semaphore.step s (.acquire t true) = some (s1, .susp) ∧ s1.pc t = .preSpin ∧
      Sem.SameBut t s s1 :=
  C08_sem_check_before_effect s t hidle hfree

theorem C08_sem_nowait_synchronous (s s' : Semaphore.State) (t : Nat) (o : Semaphore.Out)
    (e : Semaphore.Ev) (he : e = .acquireNowait t ∨ e = .release t)
    (hs : Semaphore.step s e = some (s', o)) : o ≠ .susp ∧ s.pc t = .idle := by
  rcases he with rfl | rfl <;> simp only [Semaphore.step] at hs <;> repeat' split at hs
  all_goals first | contradiction | (cases hs; simp_all)

/-! ## CapacityLimiter.acquire / acquire_on_behalf_of
(cells `CapacityLimiter.acquire[free]`, `CapacityLimiter.acquire_on_behalf_of[free]`;
`acquire t pre` is by definition `acquireOnBehalf t t pre`) -/

/-- (a) check before effect.  `checkpoint_if_cancelled()` is the *first statement* of
`acquire_on_behalf_of`, so this holds in **every** state (free, full, queue non-empty, borrower
already registered), not only in the free class: nothing changes but `t`'s program counter and
its local variable `beh t` (the borrower argument). -/
theorem C08_limiter_check_before_effect (s : Limiter.State) (t b : Nat) (hidle : s.pc t = .idle) :
    ∃ s1, Limiter.step s (.acquireOnBehalf t b true) = some (s1, .susp) ∧ s1.pc t = .preSpin ∧
      Lim.SameBut t s s1 ∧ Limiter.step s (.acquire t true) = Limiter.step s (.acquireOnBehalf t t true) := by
  refine ⟨{ s with pc := upd s.pc t .preSpin, beh := upd s.beh t b }, ?_, ?_, ?_, rfl⟩
  · simp [Limiter.step, Limiter.acq, hidle]
  · simp
  · simp [Lim.SameBut]; intro u hu; simp [upd, hu]

theorem C08_limiter_parked_only_exit (s : Limiter.State) (t : Nat) (hp : Lim.Parked t s)
    (e : Limiter.Ev) (he : Lim.actor e = some t) (s' : Limiter.State) (o : Limiter.Out)
    (hs : Limiter.step s e = some (s', o)) :
    Lim.SameBut t s s' ∧
    ((e = .step t ∧ s.pc t = .preSpin ∧ o = .susp ∧ s' = s) ∨
     (e = .mc t ∧ s.pc t = .preSpin ∧ o = .env ∧ s'.pc t = .preSpinMC) ∨
     (e = .step t ∧ s.pc t = .preSpinMC ∧ o = .cancelled ∧ s'.pc t = .idle)) := by
  rcases hp with hp | hp <;> cases e <;> simp [Lim.actor] at he <;> subst he <;>
    simp [Limiter.step, Limiter.acq, Limiter.acqNowait, Limiter.rel, hp] at hs <;>
    (try obtain ⟨rfl, rfl⟩ := hs) <;>
    simp [Lim.SameBut, hp] <;> (intro u hu; simp [upd, hu])

theorem C08_limiter_cancel_exit (s : Limiter.State) (t : Nat) (hp : s.pc t = .preSpin) :
    ∃ s1 s2, Limiter.step s (.mc t) = some (s1, .env) ∧
      Limiter.step s1 (.step t) = some (s2, .cancelled) ∧ s2.pc t = .idle ∧
      Lim.SameBut t s s2 := by
  refine ⟨{ s with pc := upd s.pc t .preSpinMC },
    { s with pc := upd (upd s.pc t .preSpinMC) t .idle }, ?_, ?_, ?_, ?_⟩
  · simp [Limiter.step, hp]
  · simp [Limiter.step]
  · simp
  · simp [Lim.SameBut]; intro u hu; simp [upd, hu]

/-- holds in every state of the model (no reachability needed): the limiter's wake-ups only
touch `waiting`/`waitFC` tasks. -/
theorem C08_limiter_parked_undisturbed {s s' : Limiter.State} {t : Nat}
    (hp : Lim.Parked t s) {e : Limiter.Ev} {o : Limiter.Out} (he : Lim.actor e ≠ some t)
    (hs : Limiter.step s e = some (s', o)) : s'.pc t = s.pc t :=
  Lim.parked_undisturbed hp he hs

/-- (b) free class (borrower not registered, queue empty, a token free): the first segment
registers the borrower and suspends in `cancel_shielded_checkpoint`; not returned yet
(`grants`, `holders` unchanged).  There is no fast mode. -/
theorem C08_limiter_yields_first (s : Limiter.State) (t b : Nat) (hidle : s.pc t = .idle)
    (hb : b ∉ s.borrowers) (hq : s.queue = [])
    (hfree : Limiter.ltTot s.borrowers.length s.total = true) :
    ∃ s1, Limiter.step s (.acquireOnBehalf t b false) = some (s1, .susp) ∧
      s1.pc t = .fastYield ∧ s1.borrowers = b :: s.borrowers ∧ s1.grants = s.grants ∧
      s1.holders = s.holders := by
  refine ⟨{ s with borrowers := b :: s.borrowers, pc := upd s.pc t .fastYield,
                   beh := upd s.beh t b, resv := (b, t) :: s.resv }, ?_, ?_, rfl, rfl, rfl⟩
  · simp [Limiter.step, Limiter.acq, hidle, hb, hq, hfree]
  · simp

theorem C08_limiter_returns_in_later_step (s : Limiter.State) (t : Nat)
    (hp : s.pc t = .fastYield ∨ s.pc t = .fastYieldMC)
    (e : Limiter.Ev) (he : Lim.actor e = some t) (s' : Limiter.State) (o : Limiter.Out)
    (hs : Limiter.step s e = some (s', o)) :
    (e = .step t ∧ s.pc t = .fastYield ∧ o = .ret ∧ s'.grants = s.grants + 1 ∧
        s'.borrowers = s.borrowers) ∨
    (e = .mc t ∧ s.pc t = .fastYield ∧ o = .env) ∨
    (e = .step t ∧ s.pc t = .fastYieldMC ∧ (o = .cancelled ∨ o = .runtimeError)) := by
  rcases hp with hp | hp <;> cases e <;> simp [Lim.actor] at he <;>
    (have he' := he.symm; subst he') <;>
    simp [Limiter.step, Limiter.acq, Limiter.acqNowait, Limiter.rel, hp] at hs
  · obtain ⟨rfl, rfl⟩ := hs; simp [hp]
  · obtain ⟨rfl, rfl⟩ := hs; simp [hp]
  · simp [hp]; split at hs <;> (cases hs; simp)

theorem C08_limiter_nowait_synchronous (s s' : Limiter.State) (t b : Nat) (o : Limiter.Out)
    (e : Limiter.Ev)
    (he : e = .acquireNowait t ∨ e = .acquireOnBehalfNowait t b ∨ e = .release t ∨
          e = .releaseOnBehalf t b)
    (hs : Limiter.step s e = some (s', o)) : o ≠ .susp ∧ s.pc t = .idle := by
  rcases he with rfl | rfl | rfl | rfl <;>
    simp only [Limiter.step, Limiter.acqNowait, Limiter.rel] at hs <;> repeat' split at hs
  all_goals first | contradiction | (cases hs; simp_all)

/-! ## Event.wait on a set event  (cell `Event.wait[set]`; also what `TaskHandle.wait` /
`await handle` / `Future.wait` on a finished object run: `self._finished_event.wait()`)

Deviation from the scheme: `Event.wait` has no `checkpoint_if_cancelled`; on a set event it runs
`checkpoint()` = one bare `sleep(0)`.  The model's `pre` flag is carried for protocol uniformity
only and is ignored by the transition.  "Check before effect" is therefore trivial -- the
operation has *no* effect on the event at any time -- and what is true is: the call always
suspends first; a cancellation (already pending on entry or not) reaches the task as `mc` during
that yield and the wake-up raises; otherwise the wake-up returns.  That the pending cancellation
of a scope cancelled *before* the call lands before the wake-up is a fact about the loop's
ordering of the delivery callback and the task step (kernel model, `C08_kernel_*`) and is probed
on the real code. -/

/-- (b) every state with the flag set, either value of `pre`: the first segment suspends in
`checkpoint()`; flag, `_waiters` and every other task are untouched. -/
theorem C08_event_wait_set_yields (s : Event.State) (t : Nat) (pre : Bool)
    (hidle : s.pc t = .idle) (hset : s.flag = true) :
    ∃ s1, Event.step s (.wait t pre) = some (s1, .susp) ∧ s1.pc t = .yielding ∧
      Evt.SameBut t s s1 := by
  refine ⟨{ s with pc := upd s.pc t .yielding }, ?_, ?_, ?_⟩
  · simp [Event.step, hidle, hset]
  · simp
  · simp [Evt.SameBut]; intro u hu; simp [upd, hu]

/-- the ways out of that yield: `step t` returns; or `mc t` and then `step t` raises
`cancelled`; flag and `_waiters` are unchanged by each of them (nothing to undo), and `wait`,
`fc` by `t` are not enabled. -/
theorem C08_event_yielding_only_exit (s : Event.State) (t : Nat) (hp : Evt.Yielding t s)
    (e : Event.Ev) (he : Evt.actor e = some t) (s' : Event.State) (o : Event.Out)
    (hs : Event.step s e = some (s', o)) :
    Evt.SameBut t s s' ∧
    ((e = .step t ∧ s.pc t = .yielding ∧ o = .ret ∧ s'.pc t = .idle) ∨
     (e = .mc t ∧ s.pc t = .yielding ∧ o = .env ∧ s'.pc t = .yieldingMC) ∨
     (e = .step t ∧ s.pc t = .yieldingMC ∧ o = .cancelled ∧ s'.pc t = .idle)) := by
  rcases hp with hp | hp <;> cases e <;> simp [Evt.actor] at he <;> subst he <;>
    simp [Event.step, hp] at hs <;> (try obtain ⟨rfl, rfl⟩ := hs) <;>
    simp [Evt.SameBut, hp] <;> (intro u hu; simp [upd, hu])

/-- (a) as far as it applies: once `_must_cancel` is delivered during the yield, the wake-up
raises and the event is as before. -/
theorem C08_event_cancel_exit (s : Event.State) (t : Nat) (hp : s.pc t = .yielding) :
    ∃ s1 s2, Event.step s (.mc t) = some (s1, .env) ∧
      Event.step s1 (.step t) = some (s2, .cancelled) ∧ s2.pc t = .idle ∧ Evt.SameBut t s s2 := by
  refine ⟨{ s with pc := upd s.pc t .yieldingMC },
    { s with pc := upd (upd s.pc t .yieldingMC) t .idle }, ?_, ?_, ?_, ?_⟩
  · simp [Event.step, hp]
  · simp [Event.step]
  · simp
  · simp [Evt.SameBut]; intro u hu; simp [upd, hu]

theorem C08_event_yielding_undisturbed {s s' : Event.State} {t : Nat}
    (hp : Evt.Yielding t s) {e : Event.Ev} {o : Event.Out} (he : Evt.actor e ≠ some t)
    (hs : Event.step s e = some (s', o)) : s'.pc t = s.pc t :=
  Evt.yielding_undisturbed hp he hs

/-- `set()` is synchronous. -/
theorem C08_event_set_synchronous (s s' : Event.State) (o : Event.Out)
    (hs : Event.step s .set = some (s', o)) : o = .ret := by
  simp only [Event.step] at hs; split at hs <;> (cases hs; rfl)

/-! ## Condition.acquire on a free lock, Condition.wait in a cancelled scope
(cells `Condition.acquire[free]`, `Condition.wait[cancelled scope keeps the lock]`) -/

/-- (a) `Condition.acquire` = `Lock.acquire` + `_owner_task = current`: entered cancelled on a
free lock it suspends, the lock's fields, the condition's `_owner_task`/`_waiters` and all other
tasks are unchanged, the task is parked in the Lock's `preSpin`. -/
theorem C08_cond_acquire_check_before_effect (s : Condition.State) (t : Nat)
    (hc : s.cpc t = .none) (hidle : s.lock.pc t = .idle)
    (hfree : s.lock.owner = none ∧ s.lock.waiters = []) :
    ∃ s1, Condition.step s (.acquire t true) = some (s1, .susp) ∧ s1.cpc t = .acq ∧
      s1.lock.pc t = .preSpin ∧ Cond.SameBut t s s1 := by
  refine ⟨{ s with lock := { s.lock with pc := upd s.lock.pc t .preSpin },
                   cpc := upd s.cpc t .acq }, ?_, ?_, ?_, ?_⟩
  · simp [Condition.step, hc, Lock.step, hidle, hfree, Condition.lockResult]
  · simp
  · simp
  · simp [Cond.SameBut, Lock.SameBut]
    constructor <;> (intro u hu; simp [upd, hu])

/-- (a) while parked there (`cpc = acq`, Lock pc `preSpin`/`preSpinMC`) the events of `t` are the
spinning `step t`, `mc t`, and the raising `step t`; none returns, all leave everything but
`t`'s program counters unchanged. -/
theorem C08_cond_acquire_parked_only_exit (s : Condition.State) (t : Nat)
    (hc : s.cpc t = .acq) (hp : Lock.Parked t s.lock)
    (e : Condition.Ev) (he : Cond.actor e = t) (s' : Condition.State) (o : Condition.Out)
    (hs : Condition.step s e = some (s', o)) :
    Cond.SameBut t s s' ∧
    ((e = .step t ∧ s.lock.pc t = .preSpin ∧ o = .susp ∧ s'.lock = s.lock ∧ s'.cpc t = .acq) ∨
     (e = .mc t ∧ s.lock.pc t = .preSpin ∧ o = .env ∧ s'.lock.pc t = .preSpinMC ∧ s'.cpc t = .acq) ∨
     (e = .step t ∧ s.lock.pc t = .preSpinMC ∧ o = .cancelled ∧ s'.lock.pc t = .idle ∧
        s'.cpc t = .none)) := by
  rcases hp with hp | hp <;> cases e <;> simp [Cond.actor] at he <;> subst he <;>
    simp [Condition.step, hc, Lock.step, hp, Condition.lockResult] at hs <;>
    (try obtain ⟨rfl, rfl⟩ := hs) <;>
    simp [Cond.SameBut, Lock.SameBut, hp, hc] <;>
    (try constructor) <;> (try (intro u hu; simp [upd, hu]))

/-- (a) `Condition.wait`, **every** state (in particular: the caller owns the lock): entered in a
cancelled scope, `checkpoint_if_cancelled` (its first statement) suspends; the embedded lock is
*identical* (still owned by whoever owned it), `_owner_task`, the waiter deque and the ghost
counters are unchanged: no event queued, nothing released. -/
theorem C08_cond_wait_check_before_effect (s : Condition.State) (t : Nat) (hc : s.cpc t = .none) :
    ∃ s1, Condition.step s (.wait t true) = some (s1, .susp) ∧ s1.cpc t = .waitPre ∧
      s1.lock = s.lock ∧ Cond.SameBut t s s1 := by
  refine ⟨{ s with cpc := upd s.cpc t .waitPre }, ?_, ?_, rfl, ?_⟩
  · simp [Condition.step, hc]
  · simp
  · simp [Cond.SameBut, Lock.SameBut.refl]; intro u hu; simp [upd, hu]

/-- (a) ... and keeps the lock until it raises: parked in `waitPre`/`waitPreMC` the events of `t`
are the spinning `step t` (identical state), `mc t`, and the `step t` that raises `cancelled`;
each leaves the embedded lock identical, so a caller that owned the lock on entry
(`ownerTask = some t`, `lock.owner = some t`, `lock.holds t`) still owns it when `wait()` raises. -/
theorem C08_cond_wait_parked_keeps_lock (s : Condition.State) (t : Nat)
    (hp : s.cpc t = .waitPre ∨ s.cpc t = .waitPreMC)
    (e : Condition.Ev) (he : Cond.actor e = t) (s' : Condition.State) (o : Condition.Out)
    (hs : Condition.step s e = some (s', o)) :
    s'.lock = s.lock ∧ Cond.SameBut t s s' ∧
    ((e = .step t ∧ s.cpc t = .waitPre ∧ o = .susp ∧ s' = s) ∨
     (e = .mc t ∧ s.cpc t = .waitPre ∧ o = .env ∧ s'.cpc t = .waitPreMC) ∨
     (e = .step t ∧ s.cpc t = .waitPreMC ∧ o = .cancelled ∧ s'.cpc t = .none)) := by
  rcases hp with hp | hp <;> cases e <;> simp [Cond.actor] at he <;> subst he <;>
    simp [Condition.step, hp] at hs <;> (try obtain ⟨rfl, rfl⟩ := hs) <;>
    simp [Cond.SameBut, Lock.SameBut.refl, hp] <;> (intro u hu; simp [upd, hu])

theorem C08_cond_wait_cancel_exit (s : Condition.State) (t : Nat) (hp : s.cpc t = .waitPre) :
    ∃ s1 s2, Condition.step s (.mc t) = some (s1, .env) ∧
      Condition.step s1 (.step t) = some (s2, .cancelled) ∧ s2.cpc t = .none ∧
      s2.lock = s.lock ∧ s2.ownerTask = s.ownerTask ∧ s2.waiters = s.waiters := by
  refine ⟨{ s with cpc := upd s.cpc t .waitPreMC },
    { s with cpc := upd (upd s.cpc t .waitPreMC) t .none }, ?_, ?_, ?_, rfl, rfl, rfl⟩
  · simp [Condition.step, hp]
  · simp [Condition.step]
  · simp

/-- (a) in every reachable state no event of another task moves a task parked in `wait`'s or
`acquire`'s `checkpoint_if_cancelled` (neither its condition-level nor its lock-level program
counter). -/
theorem C08_cond_parked_undisturbed {s s' : Condition.State} (h : Condition.Reach s) {t : Nat}
    (hp : Cond.CParked t s) (hl : s.cpc t = .acq → Lock.Parked t s.lock)
    {e : Condition.Ev} {o : Condition.Out} (he : Cond.actor e ≠ t)
    (hs : Condition.step s e = some (s', o)) :
    s'.cpc t = s.cpc t ∧ s'.lock.pc t = s.lock.pc t :=
  Cond.other_keeps_pc hp (Cond.cparked_not_queued (Condition.inv_reach h) hp hl) he hs

/-- (b) `Condition.acquire`, free lock, `fast_acquire = False`: suspends in the Lock's shielded
yield (lock taken, `_owner_task` not yet set: the call has not returned). -/
theorem C08_cond_acquire_yields_first (s : Condition.State) (t : Nat)
    (hc : s.cpc t = .none) (hidle : s.lock.pc t = .idle)
    (hfree : s.lock.owner = none ∧ s.lock.waiters = []) (hfast : s.lock.fast = false) :
    ∃ s1, Condition.step s (.acquire t false) = some (s1, .susp) ∧ s1.cpc t = .acq ∧
      s1.lock.pc t = .fastYield ∧ s1.lock.owner = some t ∧ s1.ownerTask = s.ownerTask := by
  refine ⟨{ s with lock := { s.lock with owner := some t, pc := upd s.lock.pc t .fastYield },
                   cpc := upd s.cpc t .acq }, ?_, ?_, ?_, rfl, rfl⟩
  · simp [Condition.step, hc, Lock.step, hidle, hfree, hfast, Condition.lockResult]
  · simp
  · simp

/-- (b) ... and the `step t` that ends the yield is what returns and sets `_owner_task`. -/
theorem C08_cond_acquire_returns_in_later_step (s : Condition.State) (t : Nat)
    (hc : s.cpc t = .acq) (hp : s.lock.pc t = .fastYield) :
    ∃ s2, Condition.step s (.step t) = some (s2, .ret) ∧ s2.ownerTask = some t ∧
      s2.cpc t = .none ∧ s2.lock.owner = s.lock.owner ∧ s2.lock.holds t = true := by
  refine ⟨{ s with lock := { s.lock with pc := upd s.lock.pc t .idle,
                                         holds := upd s.lock.holds t true },
                   ownerTask := some t, cpc := upd s.cpc t .none }, ?_, rfl, ?_, rfl, ?_⟩
  · simp [Condition.step, hc, Lock.step, hp, Condition.lockResult]
  · simp
  · simp

/-- exemption: with a `fast_acquire` lock, not cancelled, `Condition.acquire` returns at once. -/
theorem C08_cond_fast_acquire_exempt (s : Condition.State) (t : Nat)
    (hc : s.cpc t = .none) (hidle : s.lock.pc t = .idle)
    (hfree : s.lock.owner = none ∧ s.lock.waiters = []) (hfast : s.lock.fast = true) :
    ∃ s1, Condition.step s (.acquire t false) = some (s1, .ret) ∧ s1.ownerTask = some t ∧
      s1.lock.owner = some t := by
  refine ⟨{ s with lock := { s.lock with owner := some t, holds := upd s.lock.holds t true },
                   ownerTask := some t, cpc := upd s.cpc t .none }, ?_, rfl, rfl⟩
  simp [Condition.step, hc, Lock.step, hidle, hfree, hfast, Condition.lockResult]

/-- exemption: `acquire_nowait`, `release`, `notify`, `notify_all` are synchronous. -/
theorem C08_cond_nowait_synchronous (s s' : Condition.State) (t n : Nat) (o : Condition.Out)
    (e : Condition.Ev)
    (he : e = .acquireNowait t ∨ e = .release t ∨ e = .notify t n ∨ e = .notifyAll t)
    (hs : Condition.step s e = some (s', o)) : o ≠ .susp := by
  have hl : ∀ (e : Lock.Ev) l lo, (e = .acquireNowait t ∨ e = .release t) →
      Lock.step s.lock e = some (l, lo) → lo ≠ .susp := by
    intro e l lo he h
    rcases he with rfl | rfl <;> simp only [Lock.step] at h <;> repeat' split at h
    all_goals first | contradiction | (cases h; simp)
  rcases he with rfl | rfl | rfl | rfl <;> simp only [Condition.step] at hs
  · split at hs; · contradiction
    cases h : Lock.step s.lock (.acquireNowait t) with
    | none => simp [h, Condition.lockResult] at hs
    | some p =>
      obtain ⟨l, lo⟩ := p
      have := hl _ l lo (Or.inl rfl) h
      rw [h] at hs
      cases lo <;> simp [Condition.lockResult] at hs <;> first | (exact absurd rfl this) | (rw [← hs.2]; simp)
  · split at hs; · contradiction
    cases h : Lock.step s.lock (.release t) with
    | none => simp [h] at hs
    | some p =>
      obtain ⟨l, lo⟩ := p
      have := hl _ l lo (Or.inr rfl) h
      rw [h] at hs
      cases lo <;> simp at hs <;> first | (exact absurd rfl this) | (rw [← hs.2]; simp)
  · repeat' split at hs
    all_goals first | contradiction | (cases hs; simp)
  · repeat' split at hs
    all_goals first | contradiction | (cases hs; simp)

/-! ## Memory object stream: send / receive
(cells `MemoryStream.send[buffer has room]`, `MemoryStream.send[receiver waiting]`,
`MemoryStream.receive[item buffered]`, `MemoryStream.receive[sender waiting]`)

`send`/`receive` start with `await checkpoint()` = `checkpoint_if_cancelled` +
`cancel_shielded_checkpoint` *before* touching the queues; the model's first segment therefore
never has an effect, in any state.  Deviation from the Lock scheme: a call entered with `pre`
is parked in `sendChk h x true` / `recvChk h true`, where `step t` is *disabled* (no spinning
self-loop is modelled) until `mc t` has been delivered. -/

/-- (a) send, every state in which the call is enabled: entered cancelled, the first segment
suspends and nothing observable changes (buffer, both waiting lists, counters, handles, the
stream history); the item is only recorded as offered. -/
theorem C08_mem_send_check_before_effect (s : Memory.State) (t h x : Nat)
    (hidle : s.pc t = .idle) (hh : h < s.nS) (hx : Memory.isOffered s x = false) :
    ∃ s1, Memory.step s (.send t h x true) = some (s1, .susp) ∧ s1.pc t = .sendChk h x true ∧
      Mem.SameObs t s s1 := by
  refine ⟨{ s with pc := upd s.pc t (.sendChk h x true), offered := s.offered ++ [(t, x)],
                   loc := upd s.loc x (.chk t) }, ?_, ?_, ?_⟩
  · simp [Memory.step, hidle, hh, hx]
  · simp
  · simp [Mem.SameObs]; intro u hu; simp [upd, hu]

/-- (a) the only way out: parked, the events of `t` are `mc t` and then the wake-up `step t P`
that raises `cancelled` and records the item as rejected; nothing observable changes, the item
never enters the stream (`entered`, `buffer` unchanged), no event of `t` returns. -/
theorem C08_mem_send_parked_only_exit (s : Memory.State) (t h x : Nat)
    (hp : s.pc t = .sendChk h x true ∨ s.pc t = .sendChkMC x)
    (e : Memory.Ev) (he : Mem.actor e = t) (s' : Memory.State) (o : Memory.Out)
    (hs : Memory.step s e = some (s', o)) :
    Mem.SameObs t s s' ∧
    ((e = .mc t ∧ s.pc t = .sendChk h x true ∧ o = .env ∧ s'.pc t = .sendChkMC x) ∨
     (∃ P, e = .step t P ∧ s.pc t = .sendChkMC x ∧ o = .cancelled ∧ s'.pc t = .idle ∧
        s'.loc x = .rejected)) := by
  rcases hp with hp | hp <;> cases e <;> simp [Mem.actor] at he <;> subst he <;>
    simp [Memory.step, hp, Memory.reject] at hs <;> (try obtain ⟨rfl, rfl⟩ := hs) <;>
    simp [Mem.SameObs, hp] <;> (intro u hu; simp [upd, hu])

theorem C08_mem_send_cancel_exit (s : Memory.State) (t h x : Nat) (P : List Nat)
    (hp : s.pc t = .sendChk h x true) :
    Memory.step s (.step t P) = none ∧
    ∃ s1 s2, Memory.step s (.mc t) = some (s1, .env) ∧
      Memory.step s1 (.step t P) = some (s2, .cancelled) ∧ s2.pc t = .idle ∧
      Mem.SameObs t s s2 := by
  refine ⟨by simp [Memory.step, hp], { s with pc := upd s.pc t (.sendChkMC x) },
    Memory.reject { s with pc := upd s.pc t (.sendChkMC x) } t x, ?_, ?_, ?_, ?_⟩
  · simp [Memory.step, hp]
  · simp [Memory.step]
  · simp [Memory.reject]
  · simp [Mem.SameObs, Memory.reject]; intro u hu; simp [upd, hu]

/-- (b) send, **every** state, not cancelled: the first segment suspends (`checkpoint()`) before
anything is touched. -/
theorem C08_mem_send_yields_first (s : Memory.State) (t h x : Nat)
    (hidle : s.pc t = .idle) (hh : h < s.nS) (hx : Memory.isOffered s x = false) :
    ∃ s1, Memory.step s (.send t h x false) = some (s1, .susp) ∧ s1.pc t = .sendChk h x false ∧
      Mem.SameObs t s s1 := by
  refine ⟨{ s with pc := upd s.pc t (.sendChk h x false), offered := s.offered ++ [(t, x)],
                   loc := upd s.loc x (.chk t) }, ?_, ?_, ?_⟩
  · simp [Memory.step, hidle, hh, hx]
  · simp
  · simp [Mem.SameObs]; intro u hu; simp [upd, hu]

/-- (b) in that checkpoint the only events of `t` are `mc t` and `step t P`: whatever `send`
does or returns, it does in a later `step t`. -/
theorem C08_mem_send_returns_in_later_step (s : Memory.State) (t h x : Nat)
    (hp : s.pc t = .sendChk h x false)
    (e : Memory.Ev) (he : Mem.actor e = t) (s' : Memory.State) (o : Memory.Out)
    (hs : Memory.step s e = some (s', o)) : e = .mc t ∨ ∃ P, e = .step t P := by
  cases e <;> simp [Mem.actor] at he <;> subst he <;> simp [Memory.step, hp] at hs <;> simp

/-- (b) state class "buffer has room" (handle open, a receive end open, no receiver waiting):
the second segment appends the item and returns. -/
theorem C08_mem_send_room_returns (s : Memory.State) (t h x : Nat) (P : List Nat)
    (hp : s.pc t = .sendChk h x false) (hopen : s.closedS h = false) (hr : s.openRecv ≠ 0)
    (hw : s.waitingReceivers = []) (hfit : Memory.fits s.maxSize s.buffer.length = true) :
    ∃ s2, Memory.step s (.step t P) = some (s2, .ret) ∧ s2.buffer = s.buffer ++ [x] ∧
      s2.pc t = .idle := by
  simp [Memory.step, hp, Memory.sendCore, hopen, hr, hw, Mem.scanR_nil, hfit]

/-- (b) state class "receiver waiting" (first queued receiver live): the second segment hands
the item to that receiver's slot, wakes it, and returns. -/
theorem C08_mem_send_receiver_waiting_returns (s : Memory.State) (t h x u : Nat)
    (rest P : List Nat)
    (hp : s.pc t = .sendChk h x false) (hopen : s.closedS h = false) (hr : s.openRecv ≠ 0)
    (hw : s.waitingReceivers = u :: rest) (hlive : s.pc u ≠ .recvWaitFC) (hP : u ∉ P)
    (hut : u ≠ t) :
    ∃ s2, Memory.step s (.step t P) = some (s2, .ret) ∧ s2.waitingReceivers = rest ∧
      s2.pc u = .recvWoken (some x) ∧ s2.buffer = s.buffer ∧ s2.pc t = .idle := by
  simp [Memory.step, hp, Memory.sendCore, hopen, hr, hw, Memory.scanR, hlive, hP, hut]

/-- (a) receive, every state in which the call is enabled. -/
theorem C08_mem_receive_check_before_effect (s : Memory.State) (t h : Nat)
    (hidle : s.pc t = .idle) (hh : h < s.nR) :
    ∃ s1, Memory.step s (.receive t h true) = some (s1, .susp) ∧ s1.pc t = .recvChk h true ∧
      Mem.SameObs t s s1 ∧ s1.loc = s.loc := by
  refine ⟨{ s with pc := upd s.pc t (.recvChk h true) }, ?_, ?_, ?_, rfl⟩
  · simp [Memory.step, hidle, hh]
  · simp
  · simp [Mem.SameObs]; intro u hu; simp [upd, hu]

/-- (a) the only way out for a parked `receive`: `mc t`, then the raising wake-up; nothing is
consumed (buffer, waiting senders, every item's location unchanged). -/
theorem C08_mem_receive_parked_only_exit (s : Memory.State) (t h : Nat)
    (hp : s.pc t = .recvChk h true ∨ s.pc t = .recvChkMC)
    (e : Memory.Ev) (he : Mem.actor e = t) (s' : Memory.State) (o : Memory.Out)
    (hs : Memory.step s e = some (s', o)) :
    Mem.SameObs t s s' ∧ s'.loc = s.loc ∧
    ((e = .mc t ∧ s.pc t = .recvChk h true ∧ o = .env ∧ s'.pc t = .recvChkMC) ∨
     (∃ P, e = .step t P ∧ s.pc t = .recvChkMC ∧ o = .cancelled ∧ s'.pc t = .idle)) := by
  rcases hp with hp | hp <;> cases e <;> simp [Mem.actor] at he <;> subst he <;>
    simp [Memory.step, hp] at hs <;> (try obtain ⟨rfl, rfl⟩ := hs) <;>
    simp [Mem.SameObs, hp] <;> (intro u hu; simp [upd, hu])

theorem C08_mem_receive_cancel_exit (s : Memory.State) (t h : Nat) (P : List Nat)
    (hp : s.pc t = .recvChk h true) :
    Memory.step s (.step t P) = none ∧
    ∃ s1 s2, Memory.step s (.mc t) = some (s1, .env) ∧
      Memory.step s1 (.step t P) = some (s2, .cancelled) ∧ s2.pc t = .idle ∧
      Mem.SameObs t s s2 ∧ s2.loc = s.loc := by
  refine ⟨by simp [Memory.step, hp], { s with pc := upd s.pc t .recvChkMC },
    { s with pc := upd (upd s.pc t .recvChkMC) t .idle }, ?_, ?_, ?_, ?_, rfl⟩
  · simp [Memory.step, hp]
  · simp [Memory.step]
  · simp
  · simp [Mem.SameObs]; intro u hu; simp [upd, hu]

/-- (b) receive, every state: the first segment suspends before anything is touched. -/
theorem C08_mem_receive_yields_first (s : Memory.State) (t h : Nat)
    (hidle : s.pc t = .idle) (hh : h < s.nR) :
    ∃ s1, Memory.step s (.receive t h false) = some (s1, .susp) ∧ s1.pc t = .recvChk h false ∧
      Mem.SameObs t s s1 ∧ s1.loc = s.loc := by
  refine ⟨{ s with pc := upd s.pc t (.recvChk h false) }, ?_, ?_, ?_, rfl⟩
  · simp [Memory.step, hidle, hh]
  · simp
  · simp [Mem.SameObs]; intro u hu; simp [upd, hu]

theorem C08_mem_receive_returns_in_later_step (s : Memory.State) (t h : Nat)
    (hp : s.pc t = .recvChk h false)
    (e : Memory.Ev) (he : Mem.actor e = t) (s' : Memory.State) (o : Memory.Out)
    (hs : Memory.step s e = some (s', o)) : e = .mc t ∨ ∃ P, e = .step t P := by
  cases e <;> simp [Mem.actor] at he <;> subst he <;> simp [Memory.step, hp] at hs <;> simp

/-- (b) state class "item buffered" (handle open, no sender queued): the second segment pops the
head of the buffer and returns it. -/
theorem C08_mem_receive_buffered_returns (s : Memory.State) (t h y : Nat) (ys P : List Nat)
    (hp : s.pc t = .recvChk h false) (hopen : s.closedR h = false)
    (hb : s.buffer = y :: ys) (hws : s.waitingSenders = []) :
    ∃ s2, Memory.step s (.step t P) = some (s2, .item y) ∧ s2.buffer = ys ∧ s2.pc t = .idle := by
  simp [Memory.step, hp, Memory.recvCore, hopen, Memory.pullSender, hws, hb]

/-- (b) state class "sender waiting" (empty buffer, a sender queued): the second segment pulls
the first queued sender's item through the buffer, wakes that sender and returns the item. -/
theorem C08_mem_receive_sender_waiting_returns (s : Memory.State) (t h u x : Nat) (b : Bool)
    (rest : List (Nat × Nat × Bool)) (P : List Nat)
    (hp : s.pc t = .recvChk h false) (hopen : s.closedR h = false)
    (hb : s.buffer = []) (hws : s.waitingSenders = (u, x, b) :: rest) (hut : u ≠ t) :
    ∃ s2, Memory.step s (.step t P) = some (s2, .item x) ∧ s2.buffer = [] ∧
      s2.waitingSenders = rest ∧ s2.pc u = Memory.wakeSender (s.pc u) ∧ s2.pc t = .idle := by
  simp [Memory.step, hp, Memory.recvCore, hopen, Memory.pullSender, hws, hb, hut]

/-- (a)/(b) in every reachable state no event of another task moves a task that is inside the
opening checkpoint of `send`/`receive` (parked with `pre`, or yielding without). -/
theorem C08_mem_chk_undisturbed {s s' : Memory.State} (h : Memory.Reach s) {t : Nat}
    (hp : Mem.InChk t s) {e : Memory.Ev} {o : Memory.Out} (he : Mem.actor e ≠ t)
    (hs : Memory.step s e = some (s', o)) : s'.pc t = s.pc t :=
  Mem.other_keeps_pc hp (Mem.inChk_not_waiting (Memory.invQ_reach h) hp) he hs

/-- exemption: `send_nowait`, `receive_nowait`, `close` (= `aclose`) and `clone` are synchronous
in every state. -/
theorem C08_mem_nowait_close_synchronous (s s' : Memory.State) (t h x : Nat) (P : List Nat)
    (o : Memory.Out) (e : Memory.Ev)
    (he : e = .sendNowait t h x P ∨ e = .receiveNowait t h ∨ e = .closeS t h ∨ e = .closeR t h ∨
          e = .cloneS t h ∨ e = .cloneR t h)
    (hs : Memory.step s e = some (s', o)) : o ≠ .susp ∧ s.pc t = .idle := by
  rcases he with rfl | rfl | rfl | rfl | rfl | rfl <;> simp only [Memory.step] at hs <;>
    repeat' split at hs
  all_goals first | contradiction | (cases hs; simp_all)

/-! ## `functools.lru_cache` wrapper, hit path with `always_checkpoint=True`
(no cell in harness/c08.py: the cache wrapper is not in C08's operation table; it is covered
because its hit path is the one place where it decides about a checkpoint itself -- the miss
path goes through `Lock.acquire`, see the Lock theorems)

Deviation from the scheme, stated as it is in the code (functools.py:189-194): the hit is
counted and the entry moved to the end *before* `await checkpoint()`, and there is no
`checkpoint_if_cancelled`; `pre` plays no role on this path.  So "check before effect" does
**not** hold for the statistics/LRU order: a hit entered in a cancelled scope raises at the
checkpoint with `hits` already incremented (`C08_lru_hit_cancel_exit`).  What holds is
"yields before returning". -/

/-- (b) every state with a fresh completed entry for `k`, `always_checkpoint = True`, cached mode
(`maxsize ≠ 0`), either value of `pre`: the first segment counts the hit and suspends in
`checkpoint()`; the value is returned by a later `step c`. -/
theorem C08_lru_hit_always_checkpoint_yields (s : Lru.State) (c k v : Nat) (e : Option Nat)
    (pre : Bool) (hidle : s.pc c = .idle) (hmode : s.cfg.maxsize ≠ some 0) (hac : s.cfg.ac = true)
    (hget : Lru.dget k s.dict = some (.value v e)) (hfresh : Lru.expired e s.now = false) :
    ∃ s1, Lru.step s (.call c k pre) = some (s1, .susp) ∧ s1.pc c = .hitYield ∧
      s1.hits = s.hits + 1 ∧ s1.misses = s.misses ∧
      Lru.step s1 (.step c) = some ({ s1 with pc := upd s1.pc c .idle }, .ret v) := by
  simp [Lru.step, hidle, hmode, Lru.lookupStep, hget, hfresh, Lru.moveToEnd?, hac]

/-- the ways out of that checkpoint: `step c` returns the cached value; or `mc c`, then `step c`
raises `cancelled`.  (`sc c`, the scope's `cancel_called` flag being set, is an environment event
that changes only `creq c`.) -/
theorem C08_lru_hit_returns_in_later_step (s : Lru.State) (c : Nat)
    (hp : s.pc c = .hitYield ∨ s.pc c = .hitYieldMC) (s' : Lru.State) (o : Lru.Out) :
    (∀ k pre, Lru.step s (.call c k pre) = none) ∧
    (∀ v, Lru.step s (.wrappedReturns c v) = none) ∧ Lru.step s (.wrappedRaises c) = none ∧
    Lru.step s (.fc c) = none ∧
    (Lru.step s (.step c) = some (s', o) →
      (s.pc c = .hitYield ∧ o = .ret (s.hv c) ∨ s.pc c = .hitYieldMC ∧ o = .cancelled) ∧
      s'.hits = s.hits ∧ s'.dict = s.dict ∧ s'.pc c = .idle) ∧
    (Lru.step s (.mc c) = some (s', o) →
      s.pc c = .hitYield ∧ o = .env ∧ s'.pc c = .hitYieldMC ∧ s'.hits = s.hits ∧
      s'.dict = s.dict) := by
  rcases hp with hp | hp <;> simp [Lru.step, hp]
  · constructor <;> (rintro rfl rfl; simp)
  · rintro rfl rfl; simp

/-- what is true instead of (a): the cancelled hit raises, and the hit stays counted. -/
theorem C08_lru_hit_cancel_exit (s : Lru.State) (c : Nat) (hp : s.pc c = .hitYield) :
    ∃ s1 s2, Lru.step s (.mc c) = some (s1, .env) ∧ Lru.step s1 (.step c) = some (s2, .cancelled) ∧
      s2.pc c = .idle ∧ s2.hits = s.hits ∧ s2.dict = s.dict := by
  refine ⟨{ s with pc := upd s.pc c .hitYieldMC },
    { s with pc := upd (upd s.pc c .hitYieldMC) c .idle }, ?_, ?_, ?_, rfl, rfl⟩
  · simp [Lru.step, hp]
  · simp [Lru.step]
  · simp

/-- documented mode `always_checkpoint=False`: a hit returns at once, without a checkpoint. -/
theorem C08_lru_hit_no_checkpoint_mode_returns_at_once (s : Lru.State) (c k v : Nat)
    (e : Option Nat) (pre : Bool) (hidle : s.pc c = .idle) (hmode : s.cfg.maxsize ≠ some 0)
    (hac : s.cfg.ac = false)
    (hget : Lru.dget k s.dict = some (.value v e)) (hfresh : Lru.expired e s.now = false) :
    ∃ s1, Lru.step s (.call c k pre) = some (s1, .ret v) ∧ s1.pc c = .idle ∧
      s1.hits = s.hits + 1 := by
  simp [Lru.step, hidle, hmode, Lru.lookupStep, hget, hfresh, Lru.moveToEnd?, hac]

section KernelPart
open AnyioModel.Kernel (State Ev Out Handle Lib TSt ExcVal Exc)

/-! ## Kernel: sleep(0)/checkpoint, checkpoint_if_cancelled, cancel_shielded_checkpoint, sleep(d),
empty task group exit, TaskHandle.wait on a finished task
(cells `sleep(0)`, `sleep_until(past)`, `lowlevel.checkpoint`, `TaskGroup exit[no children]`,
`TaskHandle.wait[finished]`, `await TaskHandle[finished]`)

In the kernel model the cancellation of a scope is *delivered* (`_deliver_cancellation` sets
`_must_cancel` on a suspended task, `hitTask`); a bare `yield` is where it lands.  The theorems
below are step-local and hold in every state of the model.  That a scope which is already
effectively cancelled when the task yields has its delivery callback scheduled, and that the
callback runs before the task's next step, is the level-triggered delivery property C03
(`C03_delivery_live`, `C03_deliver_hits`), not repeated here. -/

/-- (b) `sleep(0)` = `checkpoint()` = a bare `yield`, every state in which a task runs user code:
the task always suspends, its `__step` is scheduled for the next cycle, nobody is running. -/
theorem C08_kernel_yield_suspends (st : State) (t : Nat) (hr : st.running = some t)
    (hl : (st.tasks t).lib = .none) :
    ∃ st1, Kernel.step st .yield = some (st1, .susp) ∧ st1.running = none ∧
      (st1.tasks t).st = .yielded ∧ Handle.step t ∈ st1.ready ∧ st1.scopes = st.scopes ∧
      st1.groups = st.groups ∧ st1.futs = st.futs := by
  refine ⟨Kernel.doYield st t, ?_, rfl, ?_, ?_, rfl, rfl, rfl⟩
  · simp [Kernel.step, hr, hl]
  · simp [Kernel.doYield, State.setTask, State.schedule]
  · simp [Kernel.doYield, State.setTask, State.schedule]

/-- (a)/(b) how that yield ends: the resumption hands user code the cancellation exception iff
`_must_cancel` was set while the task was suspended, and a normal resume otherwise; the operation
has no effect of its own to undo. -/
theorem C08_kernel_yield_resumes (st : State) (t : Nat) (hr : st.running = none)
    (hc : Handle.step t ∈ st.cur) (hy : (st.tasks t).st = .yielded)
    (hl : (st.tasks t).lib = .none) :
    ∃ st1, Kernel.step st (.run (.step t)) =
        some (st1, .resumed (if (st.tasks t).mustCancel
          then .one (if (st.tasks t).mcAnyio then .cancelAnyio else .cancelNative) else .none)) ∧
      st1.running = some t ∧ (st1.tasks t).st = .running ∧ (st1.tasks t).mustCancel = false := by
  simp [Kernel.step, hr, hc, hy, Kernel.runTask, Kernel.continueLib, Kernel.resumeValue,
    State.setTask, hl]

/-- `checkpoint_if_cancelled` outside an effectively cancelled scope: returns at once, the state
is *identical* (no suspension -- it is only the check, the yield of a full checkpoint comes from
`cancel_shielded_checkpoint`). -/
theorem C08_kernel_chkIf_not_cancelled_returns (st : State) (t : Nat) (hr : st.running = some t)
    (hl : (st.tasks t).lib = .none)
    (hs : ∀ s, (st.tasks t).scope = some s → Kernel.effCancelled st s = false) :
    Kernel.step st .chkIfCancelled = some (st, .done .none) := by
  simp only [Kernel.step, hr, hl]
  cases h : (st.tasks t).scope with
  | none => simp
  | some s => simp [hs s h]

/-- (a) `checkpoint_if_cancelled` inside an effectively cancelled scope: it does not return; the
task suspends inside the library frame `chkIf`; scopes, groups and futures are untouched. -/
theorem C08_kernel_chkIf_cancelled_parks (st : State) (t s : Nat) (hr : st.running = some t)
    (hl : (st.tasks t).lib = .none) (hs : (st.tasks t).scope = some s)
    (hc : Kernel.effCancelled st s = true) :
    ∃ st1, Kernel.step st .chkIfCancelled = some (st1, .susp) ∧ st1.running = none ∧
      (st1.tasks t).st = .yielded ∧ (st1.tasks t).lib = .chkIf ∧ st1.scopes = st.scopes ∧
      st1.groups = st.groups ∧ st1.futs = st.futs := by
  have h : Kernel.step st .chkIfCancelled = some (Kernel.doYield
      (st.setTask t (fun x => { x with lib := .chkIf })) t, .susp) := by
    simp only [Kernel.step, hr, hl, hs]; simp [hc]
  exact ⟨_, h, by simp [Kernel.doYield, State.setTask, State.schedule]⟩

/-- (a) the only way out of `chkIf`: a resumption without a pending cancellation yields again
(same frame: spinning), one with `_must_cancel` set raises the cancellation exception and leaves
the frame.  It never completes normally (`.done .none`). -/
theorem C08_kernel_chkIf_spins_until_cancelled (st : State) (t : Nat) (hr : st.running = none)
    (hc : Handle.step t ∈ st.cur) (hy : (st.tasks t).st = .yielded)
    (hl : (st.tasks t).lib = .chkIf) :
    ∃ st1 o, Kernel.step st (.run (.step t)) = some (st1, o) ∧
      (((st.tasks t).mustCancel = false ∧ o = .susp ∧ (st1.tasks t).lib = .chkIf ∧
          (st1.tasks t).st = .yielded ∧ st1.running = none) ∨
       ((st.tasks t).mustCancel = true ∧
          o = .done (.one (if (st.tasks t).mcAnyio then .cancelAnyio else .cancelNative)) ∧
          (st1.tasks t).lib = .none ∧ st1.running = some t)) ∧
      st1.scopes = st.scopes ∧ st1.groups = st.groups ∧ st1.futs = st.futs := by
  cases hm : (st.tasks t).mustCancel <;>
    simp [Kernel.step, hr, hc, hy, Kernel.runTask, Kernel.continueLib, Kernel.resumeValue,
      State.setTask, hl, hm, Kernel.doYield, State.schedule] <;>
    exact ⟨_, _, ⟨rfl, rfl⟩, by simp⟩

/-- (b) `cancel_shielded_checkpoint`, every state: always suspends (inside a fresh shielded
scope), whether or not anything is cancelled. -/
theorem C08_kernel_shieldedChk_suspends (st : State) (t : Nat) (hr : st.running = some t)
    (hl : (st.tasks t).lib = .none) :
    ∃ st1, Kernel.step st .shieldedChk = some (st1, .susp) ∧ st1.running = none ∧
      (st1.tasks t).st = .yielded ∧ (st1.tasks t).lib = .shChk st.nScopes ∧
      Handle.step t ∈ st1.ready := by
  obtain ⟨st0, h0⟩ := Ker.enterScope_new st t true none
  have h : Kernel.step st .shieldedChk = some (Kernel.doYield
      (st0.setTask t (fun x => { x with lib := .shChk st.nScopes })) t, .susp) := by
    simp only [Kernel.step, hr, hl]
    have : (Kernel.newScope st true none).2 = st.nScopes := rfl
    simp [this, h0]
  exact ⟨_, h, by simp [Kernel.doYield, State.setTask, State.schedule]⟩

/-- (b) `sleep(d)` with `d > 0`: always suspends on a timer future.  (`sleep(0)` is the `yield`
event; `.sleep 0` is not an event of the model.) -/
theorem C08_kernel_sleep_suspends (st : State) (t d : Nat) (hr : st.running = some t)
    (hl : (st.tasks t).lib = .none) (hd : d ≠ 0) :
    (∃ st1, Kernel.step st (.sleep d) = some (st1, .susp) ∧ st1.running = none ∧
      (st1.tasks t).lib = .sleeping st.nFuts) ∧ Kernel.step st (.sleep 0) = none := by
  have h : ∃ X : State, Kernel.step st (.sleep d) = some (Kernel.blockOn X t st.nFuts, .susp) ∧
      (X.tasks t).lib = .sleeping st.nFuts := by
    simp only [Kernel.step, hr, hl]; simp [hd]
    exact ⟨_, rfl, by simp [State.setTask, Kernel.newFut]⟩
  obtain ⟨X, h1, h2⟩ := h
  refine ⟨⟨_, h1, Ker.blockOn_running _ _ _, ?_⟩, ?_⟩
  · rw [Ker.blockOn_lib]; exact h2
  · simp [Kernel.step, hr]

/-- (b) `TaskHandle.wait()` / `await handle` on a finished task: suspends once (the bare
`sleep(0)` of `Event.wait` on a set event); nothing else changes. -/
theorem C08_kernel_handleWait_finished_yields (st : State) (t u : Nat) (hr : st.running = some t)
    (hl : (st.tasks t).lib = .none) (hh : (st.tasks u).hscope.isSome = true)
    (hf : (st.tasks u).finished = true) :
    ∃ st1, Kernel.step st (.handleWait u) = some (st1, .susp) ∧ st1 = Kernel.doYield st t ∧
      st1.running = none ∧ (st1.tasks t).st = .yielded ∧ (st1.tasks t).lib = .none := by
  refine ⟨Kernel.doYield st t, ?_, rfl, rfl, ?_, ?_⟩
  · simp only [Kernel.step, hr, hl]; simp [hf]
    intro h; simp [h] at hh
  · simp [Kernel.doYield, State.setTask, State.schedule]
  · simp [Kernel.doYield, State.setTask, State.schedule, hl]

/-- (b) leaving a task group that has no children (any body outcome `ev`): `__aexit__` suspends in
the shielded empty-group checkpoint `aexitChk`, i.e. the `async with` block yields at least once
before it completes. -/
theorem C08_kernel_empty_group_exit_yields (st : State) (t g : Nat) (ev : ExcVal)
    (hr : st.running = some t) (hl : (st.tasks t).lib = .none) (hg : g < st.nGroups)
    (he : (st.groups g).entered = true) (hx : (st.groups g).exited = false)
    (hsc : (st.tasks t).scope = some (st.groups g).scope) (hempty : (st.groups g).tasks = []) :
    ∃ st1 s, Kernel.step st (.aexit g ev) = some (st1, .susp) ∧ st1.running = none ∧
      (st1.tasks t).st = .yielded ∧ (st1.tasks t).lib = .aexitChk g s ev ∧
      (st1.groups g).tasks = [] ∧ (st1.groups g).exited = false := by
  -- the state after the body's exception (if any) has been recorded
  have key : ∀ st' : State, (st'.groups g).tasks = [] → (st'.groups g).exited = false →
      ∃ st1 s, (if (st'.groups g).tasks = [] then
          (match Kernel.enterScope (Kernel.newScope st' true none).1 t (Kernel.newScope st' true none).2 with
            | none => none
            | some st2 => some (Kernel.doYield (st2.setTask t
                (fun x => { x with lib := .aexitChk g (Kernel.newScope st' true none).2 ev })) t, Out.susp))
          else Kernel.aexitAfterChk st' t g ev) = some (st1, .susp) ∧ st1.running = none ∧
        (st1.tasks t).st = .yielded ∧ (st1.tasks t).lib = .aexitChk g s ev ∧
        (st1.groups g).tasks = [] ∧ (st1.groups g).exited = false := by
    intro st' h1 h2
    obtain ⟨st0, h0⟩ := Ker.enterScope_new st' t true none
    have hs : (Kernel.newScope st' true none).2 = st'.nScopes := rfl
    have hgr := (Ker.enterScope_frame h0).2.1
    have hgr' : st0.groups = st'.groups := by rw [hgr]; rfl
    refine ⟨Kernel.doYield (st0.setTask t
      (fun x => { x with lib := .aexitChk g st'.nScopes ev })) t, st'.nScopes, ?_, ?_⟩
    · rw [if_pos h1, hs, h0]
    · simp [Kernel.doYield, State.setTask, State.schedule, hgr', h1, h2]
  have hcs := (Kernel.cframe_cancelScope st (st.groups g).scope false).groups
  simp only [Kernel.step, hr]
  rw [if_neg (by simp [hl, he, hx, hsc]; omega)]
  split
  · split
    · have h1 : ((Kernel.cancelScope st (st.groups g).scope false).groups g).tasks = [] := by
        rw [hcs]; exact hempty
      have k := key _ h1 (by rw [hcs]; exact hx)
      first | exact k | (rw [if_pos h1] at k; rw [if_pos h1]; exact k)
    · have h1 : ((State.setGroup (Kernel.cancelScope st (st.groups g).scope false) g (fun x =>
          { x with exceptions := x.exceptions ++ ev.leaves, bodyErrs := ev.leaves })).groups g).tasks
          = [] := by simp [State.setGroup, hcs, hempty]
      have k := key _ h1 (by simp [State.setGroup, hcs, hx])
      first | exact k | (rw [if_pos h1] at k; rw [if_pos h1]; exact k)
  · have k := key _ hempty hx
    first | exact k | (rw [if_pos hempty] at k; exact k)

end KernelPart

/-! ## anyio.itertools  (cells `itertools.<f><sync[...]>`, `itertools.<f><async-empty>`)

Two schemas from `AnyioModel.Iter.Checkpoints`: the adaptor every synchronous source is wrapped
in, and the `if not element_yielded: await checkpoint()` tail.  They are ∀-statements over all
lists / all source traces.  That each of the 20 functions is an instance (keeps
`element_yielded` correctly, or -- `combinations`, `permutations`, `product`, `repeat`, ... --
places its own checkpoints) is **not** proved here; it is decided by the exhaustive probe matrix
of `harness/c08.py` on the real code. -/
section IterPart
open AnyioModel.Iter.Checkpoints

/-- a full traversal of any synchronous iterable (any list, `[]` included) through `_iterate`
contains exactly, hence at least, `xs.length + 1` yields -- at least one --, hands over exactly
the elements of the source and raises nothing. -/
theorem C08_itertools_sync_source_traversal_yields {α : Type} (xs : List α) :
    yields (traverse xs) = xs.length + 1 ∧ xs.length + 1 ≤ yields (traverse xs) ∧
    1 ≤ yields (traverse xs) ∧ emits (traverse xs) = xs ∧ raises (traverse xs) = false :=
  ⟨traverse_yields xs, (traverse_yields_ge xs).1, (traverse_yields_ge xs).2,
   (traverse_emits xs).1, (traverse_emits xs).2⟩

/-- each element is handed over only after the yield of its own `__anext__` call: the prefix of
the traversal before the `n`-th `emit` (counting from 0) contains `n + 1` yields. -/
theorem C08_itertools_sync_source_yield_before_each_element {α : Type} (xs : List α)
    (pre suf : List (Mu α)) (x : α) (h : traverse xs = pre ++ .emit x :: suf) :
    yields pre = (emits pre).length + 1 :=
  traverse_yield_before_each_emit xs pre suf x h

/-- with a cancelled scope the first micro-event of `__anext__` is the raising check: no yield,
no element, the source untouched (`next(self.iterator)` is not reached), for every source. -/
theorem C08_itertools_sync_source_cancelled_raises_first {α : Type} (xs : List α) :
    anext true xs = ([.chk true], xs) ∧ traverseCancelledAt 0 xs = [.chk true] ∧
    emits (traverseCancelledAt 0 xs) = [] ∧ raises (traverseCancelledAt 0 xs) = true :=
  ⟨(anext_cancelled xs).1, (traverse_cancelled_at_entry xs).1, (traverse_cancelled_at_entry xs).2.1,
   (traverse_cancelled_at_entry xs).2.2⟩

/-- a scope cancelled before call `k ≤ xs.length`: exactly the first `k` elements were handed
over, each after a yield, then the check raises; element `k` is not consumed. -/
theorem C08_itertools_sync_source_cancelled_at {α : Type} (k : Nat) (xs : List α)
    (hk : k ≤ xs.length) :
    emits (traverseCancelledAt k xs) = xs.take k ∧ yields (traverseCancelledAt k xs) = k ∧
    raises (traverseCancelledAt k xs) = true :=
  traverse_cancelled_at k xs hk

/-- tail schema: for any loop trace that handed over nothing, the tail adds a yield; the tail
never changes what is handed over; so a complete traversal emitted an element or yielded. -/
theorem C08_itertools_nothing_yielded_tail {β : Type} (body : List (Mu β)) :
    emits (withTail body) = emits body ∧
    (emits body = [] → yields (withTail body) = yields body + 1) ∧
    (emits (withTail body) ≠ [] ∨ 1 ≤ yields (withTail body)) :=
  ⟨(withTail_checkpoint body).1, (withTail_checkpoint body).2.1, withTail_emits_or_yields body⟩

/-- a filtering/mapping consumer loop with that tail over an **arbitrary** source trace (also one
without any yield, such as an empty async generator): if its traversal hands over nothing it
contains a yield; over a synchronous source `xs` it contains at least `xs.length + 1` yields. -/
theorem C08_itertools_consumer_checkpoints {α β : Type} (f : α → Option β) :
    (∀ src : List (Mu α), emits (withTail (consume f src)) = [] →
        1 ≤ yields (withTail (consume f src))) ∧
    (∀ xs : List α, xs.length + 1 ≤ yields (withTail (consume f (traverse xs)))) :=
  ⟨fun src h => consumer_nothing_emitted_yields f src h,
   fun xs => consumer_over_sync_source_yields f xs⟩

end IterPart

/-! ## non-vacuity: the scripted runs of the harness cells, on the models -/

-- Lock.acquire[free,fast=0]: cancelled probe (susp, spin, mc, cancelled) then yield probe
example : (traceFrom Lock.step (Lock.init false)
    [.acquire 0 true, .step 0, .mc 0, .step 0, .acquire 0 false, .step 0]).map (·.2) =
    some [.susp, .susp, .env, .cancelled, .susp, .ret] := by decide
-- Lock.acquire[free,fast=1]
example : (traceFrom Lock.step (Lock.init true)
    [.acquire 0 true, .mc 0, .step 0, .acquire 0 false]).map (·.2) =
    some [.susp, .env, .cancelled, .ret] := by decide
example : (traceFrom Semaphore.step (Semaphore.init false 2 none)
    [.acquire 0 true, .mc 0, .step 0, .acquire 0 false, .step 0]).map (·.2) =
    some [.susp, .env, .cancelled, .susp, .ret] := by decide
example : (traceFrom Semaphore.step (Semaphore.init true 2 none)
    [.acquire 0 true, .mc 0, .step 0, .acquire 0 false]).map (·.2) =
    some [.susp, .env, .cancelled, .ret] := by decide
example : (traceFrom Limiter.step (Limiter.init (some 2))
    [.acquire 0 true, .mc 0, .step 0, .acquireOnBehalf 0 100 false, .step 0]).map (·.2) =
    some [.susp, .env, .cancelled, .susp, .ret] := by decide
example : (traceFrom Event.step Event.init
    [.set, .wait 0 true, .mc 0, .step 0, .wait 0 false, .step 0]).map (·.2) =
    some [.ret, .susp, .env, .cancelled, .susp, .ret] := by decide
-- Condition.wait[cancelled scope keeps the lock]: the final `release` succeeds
example : (traceFrom Condition.step (Condition.init false)
    [.acquire 0 false, .step 0, .wait 0 true, .step 0, .mc 0, .step 0, .release 0]).map (·.2) =
    some [.susp, .ret, .susp, .susp, .env, .cancelled, .ret] := by decide
example : (traceFrom Memory.step (Memory.init (some 1))
    [.send 0 0 1 true, .mc 0, .step 0 [], .send 0 0 2 false, .step 0 [],
     .receive 0 0 true, .mc 0, .step 0 [], .receive 0 0 false, .step 0 []]).map (·.2) =
    some [.susp, .env, .cancelled, .susp, .ret, .susp, .env, .cancelled, .susp, .item 2] := by
  decide
example : (traceFrom Lru.step (Lru.init { maxsize := none, ttl := none, ac := true })
    [.call 0 5 false, .step 0, .wrappedReturns 0 9, .call 0 5 false, .step 0,
     .call 0 5 true, .mc 0, .step 0]).map (·.2) =
    some [.susp, .susp, .ret 9, .susp, .ret 9, .susp, .env, .cancelled] := by decide
-- kernel: checkpoint_if_cancelled in a cancelled scope parks, the delivery lands, the wake-up raises
example : (traceFrom Kernel.step Kernel.init
    [.mkScope false none, .enter 0, .cancel 0, .chkIfCancelled, .beginCycle 0,
     .run (.deliver 0), .run (.step 0)]).map (·.2) =
    some [.id 0, .none, .none, .susp, .none, .none, .done (.one .cancelAnyio)] := by decide
-- kernel: sleep(0) in a cancelled scope raises, outside it resumes normally
example : (traceFrom Kernel.step Kernel.init
    [.mkScope false none, .enter 0, .cancel 0, .yield, .beginCycle 0,
     .run (.deliver 0), .run (.step 0)]).map (·.2) =
    some [.id 0, .none, .none, .susp, .none, .none, .resumed (.one .cancelAnyio)] := by decide
example : (traceFrom Kernel.step Kernel.init
    [.yield, .beginCycle 0, .run (.step 0)]).map (·.2) =
    some [.susp, .none, .resumed .none] := by decide
-- kernel: TaskGroup exit[no children] yields once, then completes
example : (traceFrom Kernel.step Kernel.init
    [.mkGroup, .groupEnter 0, .aexit 0 .none, .beginCycle 0, .run (.step 0)]).map (·.2) =
    some [.id 0, .none, .susp, .none, .done .none] := by decide
-- the hypotheses of the ∀-theorems are satisfiable: instances on initial states
example := C08_lock_check_before_effect (Lock.init false) 0 rfl ⟨rfl, rfl⟩
example := C08_sem_yields_first (Semaphore.init false 1 none) 0 rfl ⟨by decide, rfl⟩ rfl
example := C08_limiter_yields_first (Limiter.init (some 1)) 0 100 rfl (by decide) rfl (by decide)
example := C08_cond_wait_check_before_effect (Condition.init false) 0 rfl
example := C08_mem_send_check_before_effect (Memory.init (some 1)) 0 0 1 rfl (by decide) (by decide)
example := C08_kernel_yield_suspends Kernel.init 0 rfl rfl
example := C08_kernel_empty_group_exit_yields
example := C08_itertools_sync_source_traversal_yields ([] : List Nat)

end AnyioModel.Props.C08
