import AnyioModel.Sync.Lock
