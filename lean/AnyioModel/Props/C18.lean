/-
C18  asyncio `StreamProtocol` + `SocketStream` (and the `UNIXSocketStream` raw-socket loops):
bytes are delivered once, in order, in chunks of 1..max_bytes; oversized chunks are split with
the remainder pushed back to the front; EndOfStream only after everything was delivered; a
locally closed stream drains and then raises ClosedResourceError without blocking; the
receive/send guards admit one task each; `send` returns only through an open write gate;
the transport reads only while a `receive` waits.

Property theorems only; the model is `AnyioModel.Stream.Socket`, the invariant is in
`AnyioModel.Stream.SocketProofs`, its preservation in `AnyioModel.Stream.SocketInv`.  Every
LTS statement quantifies over all reachable states, i.e. over all finite event lists: any
number of tasks, any interleaving of receive / send / send_eof / aclose segments with
cancellations (`fc`) and with the transport's callbacks (`data_received`, `eof_received`,
`connection_lost`, `pause_writing`, `resume_writing`).
-/
import AnyioModel.Stream.SocketInv

namespace AnyioModel.Stream.Socket

theorem C18_invariant {s : State} (h : Reach s) : Inv s := by
  refine Reachable.invariant Inv ?_ ?_ s h
  · rintro s rfl; exact inv_init
  · intro s e s' o hi hs; exact inv_step hi hs

/-! ### delivery: once, in order, nothing dropped -/

/-- Everything passed to `data_received` is what `receive` has returned so far followed by
the queued chunks, in order. -/
theorem C18_prefix {s : State} (h : Reach s) : s.arrived = s.delivered ++ s.queue.flatten :=
  (C18_invariant h).pref

/-- What `receive` returned is a prefix of what arrived: order kept, nothing duplicated. -/
theorem C18_delivered_prefix {s : State} (h : Reach s) : s.delivered <+: s.arrived :=
  ⟨s.queue.flatten, (C18_prefix h).symm⟩

theorem C18_nothing_dropped {s : State} (h : Reach s) (hq : s.queue = []) :
    s.delivered = s.arrived := by
  have := C18_prefix h
  simp [hq] at this
  exact this.symm

/-- `receive` never returns an empty chunk nor more than `max_bytes`, and what it returns is
appended to the delivered bytes. -/
theorem C18_chunk_bounds {s s' : State} {t : Nat} {d : Bytes} (h : Reach s)
    (hs : step s (.step t) = some (s', .retData d)) :
    1 ≤ d.length ∧ d.length ≤ s.arg t ∧ s'.delivered = s.delivered ++ d := by
  have hi := C18_invariant h
  have key : ∀ r : Bool, (s.pc t = .recvWoken ∨ s.pc t = .recvChk) →
      recvFinish { s with reading := r } t = (s', .retData d) →
      1 ≤ d.length ∧ d.length ≤ s.arg t ∧ s'.delivered = s.delivered ++ d := by
    intro r hpc hr
    have harg : 1 ≤ s.arg t := hi.arg_pos t (by grind)
    unfold recvFinish at hr
    split at hr
    · simp only [Prod.mk.injEq] at hr
      split at hr <;> (try split at hr) <;> simp at hr
    · rename_i c rest hq
      simp only at hq
      have hc : c ≠ [] := hi.chunks_ne c (by simp [hq])
      have hcl : 1 ≤ c.length := by cases c <;> simp_all
      simp only [Prod.mk.injEq, Out.retData.injEq] at hr
      obtain ⟨rfl, rfl⟩ := hr
      split
      · simp; omega
      · simp; omega
  simp only [step] at hs
  split at hs
  · split at hs <;> simp at hs
  · split at hs <;> try contradiction
    · rename_i hpc; exact key false (Or.inl hpc) (Option.some.inj hs)
    · rename_i hpc; exact key s.reading (Or.inr hpc) (Option.some.inj hs)
    · rename_i hpc
      have := Option.some.inj hs
      unfold sendWrite at this
      simp only at this
      repeat' split at this
      all_goals simp at this
    · simp at hs
    · simp at hs

/-- A chunk larger than `max_bytes` is split: the first `max_bytes` bytes are returned and the
remainder goes back to the FRONT of the queue; a chunk that fits is returned whole. -/
theorem C18_split_front {s s' : State} {t : Nat} {d : Bytes} (_h : Reach s)
    (hs : step s (.step t) = some (s', .retData d)) :
    ∃ c rest, s.queue = c :: rest ∧ d = c.take (s.arg t) ∧
      (c.length > s.arg t → s'.queue = c.drop (s.arg t) :: rest) ∧
      (c.length ≤ s.arg t → s'.queue = rest ∧ d = c) := by
  have key : ∀ r : Bool, recvFinish { s with reading := r } t = (s', .retData d) →
      ∃ c rest, s.queue = c :: rest ∧ d = c.take (s.arg t) ∧
        (c.length > s.arg t → s'.queue = c.drop (s.arg t) :: rest) ∧
        (c.length ≤ s.arg t → s'.queue = rest ∧ d = c) := by
    intro r hr
    unfold recvFinish at hr
    split at hr
    · simp only [Prod.mk.injEq] at hr
      split at hr <;> (try split at hr) <;> simp at hr
    · rename_i c rest hq
      simp only at hq
      simp only [Prod.mk.injEq, Out.retData.injEq] at hr
      obtain ⟨rfl, rfl⟩ := hr
      refine ⟨c, rest, hq, ?_, ?_, ?_⟩
      · split
        · rfl
        · rw [List.take_of_length_le (by omega)]
      · intro hl; simp [hl]
      · intro hl
        have : ¬ c.length > s.arg t := by omega
        simp [this]
  simp only [step] at hs
  split at hs
  · split at hs <;> simp at hs
  · split at hs <;> try contradiction
    · exact key false (Option.some.inj hs)
    · exact key s.reading (Option.some.inj hs)
    · have := Option.some.inj hs
      unfold sendWrite at this
      simp only at this
      repeat' split at this
      all_goals simp at this
    · simp at hs
    · simp at hs

/-- EndOfStream is raised only when the queue is empty, the peer's EOF (or the loss of the
connection, without an exception) was seen, the stream was not closed locally, and every byte
that ever arrived has been returned. -/
theorem C18_eos_only_at_end {s s' : State} {t : Nat} (h : Reach s)
    (hs : step s (.step t) = some (s', .eos)) :
    s.queue = [] ∧ (s.eof = true ∨ s.lost = true) ∧ s.closed = false ∧ s.exc = false ∧
      s.delivered = s.arrived := by
  have hi := C18_invariant h
  have key : ∀ r : Bool, (s.pc t = .recvWoken ∨ s.pc t = .recvChk) →
      recvFinish { s with reading := r } t = (s', .eos) →
      s.queue = [] ∧ (s.eof = true ∨ s.lost = true) ∧ s.closed = false ∧ s.exc = false := by
    intro r hpc hr
    unfold recvFinish at hr
    split at hr
    · rename_i hq
      simp only at hq
      simp only [Prod.mk.injEq] at hr
      have hcl : s.closed = false := by
        cases hc : s.closed <;> simp [hc] at hr ⊢
      have hex : s.exc = false := by
        cases hc : s.exc <;> simp [hc, hcl] at hr ⊢
      refine ⟨hq, ?_, hcl, hex⟩
      rcases hpc with hpc | hpc
      · exact hi.ev_queue (hi.woken_ev t hpc) hq
      · rcases hi.chk_ev t hpc with h1 | h1 | h1
        · exact hi.ev_queue h1 hq
        · rcases hi.closing_src h1 with h2 | h2
          · simp [hcl] at h2
          · exact Or.inr h2
        · exact Or.inl h1
    · simp at hr
  have main : s.queue = [] ∧ (s.eof = true ∨ s.lost = true) ∧ s.closed = false ∧
      s.exc = false := by
    simp only [step] at hs
    split at hs
    · split at hs <;> simp at hs
    · split at hs <;> try contradiction
      · rename_i hpc; exact key false (Or.inl hpc) (Option.some.inj hs)
      · rename_i hpc; exact key s.reading (Or.inr hpc) (Option.some.inj hs)
      · have := Option.some.inj hs
        unfold sendWrite at this
        simp only at this
        repeat' split at this
        all_goals simp at this
      · simp at hs
      · simp at hs
  exact ⟨main.1, main.2.1, main.2.2.1, main.2.2.2, C18_nothing_dropped h main.1⟩

/-! ### local close -/

/-- `send` on a locally closed stream raises ClosedResourceError and hands nothing to the
transport. -/
theorem C18_closed_send {s s' : State} {t : Nat} {o : Out} (_h : Reach s)
    (hcl : s.closed = true) (hs : step s (.step t) = some (s', o))
    (hpc : s.pc t = .sendChk) (hc : s.canc t = false) :
    o = .closedErr ∧ s'.written = s.written := by
  simp [step, hpc, hc, sendWrite, hcl] at hs
  obtain ⟨rfl, rfl⟩ := hs
  simp

/-- `receive` on a locally closed stream never enters the wait ... -/
theorem C18_closed_receive_never_blocks {s s' : State} {t n : Nat} {o : Out} (h : Reach s)
    (hcl : s.closed = true) (hs : step s (.receive t n) = some (s', o)) :
    s'.pc t ≠ .recvWait := by
  have hclosing := (C18_invariant h).closed_closing hcl
  simp only [step] at hs
  split at hs; · contradiction
  rename_i hpc; simp only [ne_eq, Decidable.not_not] at hpc
  split at hs; · cases hs; simp [hpc]
  split at hs; · cases hs; simp [hpc]
  split at hs
  · rename_i hw; simp [hclosing] at hw
  · cases hs; simp

/-- ... it drains what had been received before the close and then raises
ClosedResourceError, without blocking. -/
theorem C18_closed_receive_drains {s : State} {t : Nat}
    (hcl : s.closed = true) (hpc : s.pc t = .recvChk) (hc : s.canc t = false) :
    ∃ s' o, step s (.step t) = some (s', o) ∧
      ((s.queue ≠ [] ∧ ∃ d, o = .retData d) ∨ (s.queue = [] ∧ o = .closedErr)) := by
  refine ⟨(recvFinish s t).1, (recvFinish s t).2, by simp [step, hpc, hc], ?_⟩
  unfold recvFinish
  split
  · rename_i hq; right; exact ⟨hq, by simp [hcl]⟩
  · rename_i c rest hq; left; exact ⟨by simp [hq], _, rfl⟩

/-! ### one receiver, one sender -/

/-- A second concurrent `receive` raises BusyResourceError and changes nothing. -/
theorem C18_busy {s : State} {t n : Nat} (ho : s.rowner.isSome) (hpc : s.pc t = .idle)
    (hn : 1 ≤ n) : step s (.receive t n) = some (s, .busy) := by
  have : ¬ n < 1 := by omega
  simp [step, hpc, this, ho]

/-- A second concurrent `send` raises BusyResourceError and changes nothing. -/
theorem C18_busy_send {s : State} {t : Nat} {item : Bytes} (ho : s.sowner.isSome)
    (hpc : s.pc t = .idle) : step s (.send t item) = some (s, .busy) := by
  simp [step, hpc, ho]

/-- The guards are held exactly by the task inside the operation. -/
theorem C18_guard_owner {s : State} (h : Reach s) (t : Nat) :
    (s.rowner = some t ↔ isRecvPc (s.pc t) = true) ∧
    (s.sowner = some t ↔ isSendPc (s.pc t) = true) := by
  have hi := C18_invariant h
  exact ⟨by rw [isRecvPc_iff]; exact hi.rowner_iff t, by rw [isSendPc_iff]; exact hi.sowner_iff t⟩

theorem C18_single_user {s : State} {t u : Nat} (h : Reach s)
    (ht : isRecvPc (s.pc t) = true) (hu : isRecvPc (s.pc u) = true) : t = u := by
  have h1 := ((C18_guard_owner h t).1).2 ht
  have h2 := ((C18_guard_owner h u).1).2 hu
  rw [h1] at h2
  exact Option.some.inj h2

theorem C18_single_sender {s : State} {t u : Nat} (h : Reach s)
    (ht : isSendPc (s.pc t) = true) (hu : isSendPc (s.pc u) = true) : t = u := by
  have h1 := ((C18_guard_owner h t).2).2 ht
  have h2 := ((C18_guard_owner h u).2).2 hu
  rw [h1] at h2
  exact Option.some.inj h2

/-! ### write-side back-pressure -/

/-- `send` returns normally only straight through an open gate, or after its wait on the gate
was resolved. -/
theorem C18_send_returns_only_with_open_gate {s s' : State} {t : Nat} (_h : Reach s)
    (hs : step s (.step t) = some (s', .ret)) (hpc : isSendPc (s.pc t) = true) :
    (s.pc t = .sendChk ∧ s.writeOpen = true) ∨ s.pc t = .sendWoken := by
  rw [isSendPc_iff] at hpc
  simp only [step] at hs
  split at hs
  · split at hs <;> simp at hs
  · split at hs <;> try contradiction
    all_goals try (simp_all; done)
    rename_i hp
    left
    refine ⟨hp, ?_⟩
    have := Option.some.inj hs
    unfold sendWrite at this
    simp only at this
    repeat' split at this
    all_goals simp at this
    all_goals simp_all

/-- A sender waiting on the gate (and not cancelled) stays blocked while writing is paused. -/
theorem C18_sender_blocked_while_paused {s : State} {t : Nat} (h : Reach s)
    (hpc : s.pc t = .sendWait) (hc : s.canc t = false) :
    s.writeOpen = false ∧ step s (.step t) = none :=
  ⟨(C18_invariant h).send_wait t hpc hc, by simp [step, hpc, hc]⟩

/-- Only `resume_writing` and `connection_lost` (both set the write event) resolve a sender's
wait. -/
theorem C18_woken_only_by_gate {s s' : State} {e : Ev} {o : Out} {t : Nat}
    (hs : step s e = some (s', o)) (hpc : s.pc t ≠ .sendWoken) (hpc' : s'.pc t = .sendWoken) :
    e = .resumeWriting ∨ ∃ b, e = .connectionLost b := by
  cases e with
  | resumeWriting => exact Or.inl rfl
  | connectionLost b => exact Or.inr ⟨b, rfl⟩
  | step u =>
    exfalso
    simp only [step] at hs
    have hrf : ∀ s0 : State, s0.pc = s.pc → (recvFinish s0 u).1.pc t ≠ .sendWoken := by
      intro s0 h0
      unfold recvFinish
      split <;> (simp only [h0, upd_apply]; split <;> simp [hpc])
    have hsw : (sendWrite s u).1.pc t ≠ .sendWoken := by
      unfold sendWrite
      simp only
      repeat' split
      all_goals (simp only [upd_apply]; split <;> simp [hpc])
    split at hs
    · split at hs
      all_goals first
        | contradiction
        | (cases hs; simp only [upd_apply] at hpc'; split at hpc' <;> simp_all)
    · split at hs
      · contradiction
      · contradiction
      · contradiction
      · have := congrArg Prod.fst (Option.some.inj hs)
        simp only at this; subst this
        exact hrf { s with reading := false } rfl hpc'
      · have := congrArg Prod.fst (Option.some.inj hs)
        simp only at this; subst this
        exact hrf s rfl hpc'
      · have := congrArg Prod.fst (Option.some.inj hs)
        simp only at this; subst this
        exact hsw hpc'
      · cases hs; simp only [upd_apply] at hpc'; split at hpc' <;> simp_all
      · cases hs; simp only [upd_apply] at hpc'; split at hpc' <;> simp_all
  | receive u n =>
    exfalso
    simp only [step] at hs
    repeat' split at hs
    all_goals first
      | contradiction
      | (cases hs; exact hpc hpc')
      | (cases hs; simp only [upd_apply] at hpc'; split at hpc' <;> simp_all)
  | send u it =>
    exfalso
    simp only [step] at hs
    repeat' split at hs
    all_goals first
      | contradiction
      | (cases hs; exact hpc hpc')
      | (cases hs; simp only [upd_apply] at hpc'; split at hpc' <;> simp_all)
  | sendEof u =>
    exfalso
    simp only [step] at hs
    repeat' split at hs
    all_goals first
      | contradiction
      | (cases hs; exact hpc hpc')
  | aclose u =>
    exfalso
    simp only [step] at hs
    repeat' split at hs
    all_goals first
      | contradiction
      | (cases hs; exact hpc hpc')
      | (cases hs; simp only [upd_apply] at hpc'; split at hpc' <;> simp_all)
  | fc u =>
    exfalso
    simp only [step] at hs
    repeat' split at hs
    all_goals first
      | contradiction
      | (cases hs; exact hpc hpc')
  | dataReceived c =>
    exfalso
    simp only [step] at hs
    split at hs
    · cases hs; simp only [setReadEvent] at hpc'; split at hpc' <;> simp_all
    · contradiction
  | eofReceived =>
    exfalso
    simp only [step] at hs
    split at hs
    · cases hs; simp only [setReadEvent] at hpc'; split at hpc' <;> simp_all
    · contradiction
  | pauseWriting =>
    exfalso
    simp only [step] at hs
    split at hs
    · cases hs; exact hpc hpc'
    · contradiction

/-- Bytes reach the transport item by item: a step either leaves `written` alone or appends
the whole item of the one task passing `send`'s checkpoint. -/
theorem C18_written_in_order {s s' : State} {e : Ev} {o : Out} (hs : step s e = some (s', o)) :
    s'.written = s.written ∨
      ∃ t, e = .step t ∧ s.pc t = .sendChk ∧ s'.written = s.written ++ s.item t := by
  cases e with
  | step u =>
    simp only [step] at hs
    have hrf : ∀ s0 : State, s0.written = s.written →
        (recvFinish s0 u).1.written = s.written := by
      intro s0 h0
      unfold recvFinish
      split <;> simp [h0]
    split at hs
    · split at hs
      all_goals first
        | contradiction
        | (cases hs; exact Or.inl rfl)
    · split at hs
      · contradiction
      · contradiction
      · contradiction
      · have := congrArg Prod.fst (Option.some.inj hs)
        simp only at this; subst this
        exact Or.inl (hrf _ rfl)
      · have := congrArg Prod.fst (Option.some.inj hs)
        simp only at this; subst this
        exact Or.inl (hrf _ rfl)
      · rename_i hp
        have := congrArg Prod.fst (Option.some.inj hs)
        simp only at this; subst this
        unfold sendWrite
        simp only
        repeat' split
        all_goals first
          | exact Or.inl rfl
          | exact Or.inr ⟨u, rfl, hp, rfl⟩
      · cases hs; exact Or.inl rfl
      · cases hs; exact Or.inl rfl
  | receive u n =>
    left; simp only [step] at hs
    repeat' split at hs
    all_goals first | contradiction | (cases hs; rfl)
  | send u it =>
    left; simp only [step] at hs
    repeat' split at hs
    all_goals first | contradiction | (cases hs; rfl)
  | sendEof u =>
    left; simp only [step] at hs
    repeat' split at hs
    all_goals first | contradiction | (cases hs; rfl)
  | aclose u =>
    left; simp only [step] at hs
    repeat' split at hs
    all_goals first | contradiction | (cases hs; rfl)
  | fc u =>
    left; simp only [step] at hs
    repeat' split at hs
    all_goals first | contradiction | (cases hs; rfl)
  | dataReceived c =>
    left; simp only [step] at hs
    repeat' split at hs
    all_goals first | contradiction | (cases hs; rfl)
  | eofReceived =>
    left; simp only [step] at hs
    repeat' split at hs
    all_goals first | contradiction | (cases hs; rfl)
  | connectionLost b =>
    left; simp only [step] at hs
    repeat' split at hs
    all_goals first | contradiction | (cases hs; rfl)
  | pauseWriting =>
    left; simp only [step] at hs
    repeat' split at hs
    all_goals first | contradiction | (cases hs; rfl)
  | resumeWriting =>
    left; simp only [step] at hs
    repeat' split at hs
    all_goals first | contradiction | (cases hs; rfl)

/-! ### read-side back-pressure -/

/-- The transport's reading is resumed only while the task inside the receive guard is in
(or being woken from) its wait on the read event. -/
theorem C18_reader_backpressure {s : State} (h : Reach s) (hr : s.reading = true) :
    ∃ t, s.rowner = some t ∧ (s.pc t = .recvWait ∨ s.pc t = .recvWoken) := by
  have hi := C18_invariant h
  obtain ⟨t, ht⟩ := hi.reading_src hr
  exact ⟨t, (hi.rowner_iff t).2 (by grind), ht⟩

/-- No unbounded read-side buffering: data arrives only while a `receive` is waiting for it. -/
theorem C18_data_only_while_receiver_waits {s s' : State} {c : Bytes} {o : Out} (h : Reach s)
    (hs : step s (.dataReceived c) = some (s', o)) : ∃ t, s.rowner = some t := by
  simp only [step] at hs
  split at hs
  · rename_i hc
    obtain ⟨t, ht, _⟩ := C18_reader_backpressure h hc.2.1
    exact ⟨t, ht⟩
  · contradiction

/-- A blocked (not cancelled) receiver is never blocked while there is something to deliver:
no queued chunk, no EOF, no lost connection. -/
theorem C18_no_lost_wakeup {s : State} {t : Nat} (h : Reach s)
    (hpc : s.pc t = .recvWait) (hc : s.canc t = false) :
    s.queue = [] ∧ s.eof = false ∧ s.lost = false := by
  have hi := C18_invariant h
  obtain ⟨h1, h2, h3, _⟩ := hi.recv_wait t hpc hc
  refine ⟨?_, h2, h3⟩
  cases hq : s.queue with
  | nil => rfl
  | cons c rest =>
    have := hi.queue_ev (by simp [hq])
    simp [h1] at this

/-! ### UNIX raw-socket loops -/

/-- For every script of partial sends and BlockingIOErrors the socket is given exactly the
item's bytes, in order. -/
theorem C18_unix_send_all (item : Bytes) (script : List Nat) : (unixSend item script).1 = item := by
  simp [unixSend, unixSendLoop_all _ _ _ _ (Nat.le_refl _)]

/-- A `receive(n)` that returns data returns between 1 and `n` bytes. -/
theorem C18_unix_recv_bounds {fuel n : Nat} {p : Bytes} {sc : List (Option Bytes)} {d p' sc'}
    (hn : 1 ≤ n) (h : unixRecvOne fuel n p sc = (.data d, p', sc')) :
    1 ≤ d.length ∧ d.length ≤ n :=
  ⟨(unixRecvOne_data hn h).1, (unixRecvOne_data hn h).2.1⟩

/-- ... and these are the next bytes of the stream: nothing lost, order kept. -/
theorem C18_unix_recv_prefix {fuel n : Nat} {p : Bytes} {sc : List (Option Bytes)} {d p' sc'}
    (hn : 1 ≤ n) (h : unixRecvOne fuel n p sc = (.data d, p', sc')) :
    p ++ flattenChunks sc = d ++ p' ++ flattenChunks sc' :=
  (unixRecvOne_data hn h).2.2

/-- EndOfStream only with no pending bytes, and without dropping anything on the way. -/
theorem C18_unix_recv_eos {n : Nat} {p : Bytes} {sc : List (Option Bytes)} {p' sc'}
    (h : unixRecvOne (sc.length + 1) n p sc = (.eos, p', sc')) :
    p = [] ∧ p' = [] ∧ flattenChunks sc = flattenChunks sc' :=
  unixRecvOne_eos (Nat.le_refl _) h

/-- A sequence of `receive` calls answers every call, and each data answer to a request
`n` has between 1 and `n` bytes. -/
theorem C18_unix_recv_seq_bounds (ns : List Nat) (p : Bytes) (sc : List (Option Bytes)) :
    (unixRecv ns p sc).length = ns.length ∧
    ∀ n d, (n, RecvOut.data d) ∈ ns.zip (unixRecv ns p sc) → 1 ≤ d.length ∧ d.length ≤ n := by
  refine ⟨unixRecv_length ns p sc, ?_⟩
  induction ns generalizing p sc with
  | nil => simp [unixRecv]
  | cons m ns ih =>
    intro n d hm
    simp only [unixRecv] at hm
    split at hm
    · simp only [List.zip_cons_cons, List.mem_cons, Prod.mk.injEq, reduceCtorEq, and_false,
        false_or] at hm
      exact ih _ _ n d hm
    · rename_i hlt
      simp only [List.zip_cons_cons, List.mem_cons, Prod.mk.injEq] at hm
      rcases hm with ⟨rfl, hd⟩ | hm
      · exact C18_unix_recv_bounds (by omega) (Prod.ext hd.symm rfl : unixRecvOne _ _ _ _ = (_, _, _))
      · exact ih _ _ n d hm

/-! ### non-vacuity: the hypotheses above are met by concrete histories -/

/-- an oversized chunk (5 bytes, max_bytes 2) is split across three receives while a second
chunk stays queued behind the remainder; the fourth receive returns the second chunk -/
example :
    (runFrom step init
      [.receive 1 2, .dataReceived [1, 2, 3, 4, 5], .dataReceived [6, 7], .step 1,
       .receive 1 2, .step 1, .receive 1 2]).map
      (fun s => (s.queue, s.delivered, s.pc 1, s.readEvent, s.reading)) =
    some ([[5], [6, 7]], [1, 2, 3, 4], Pc.recvChk, true, false) ∧
    (traceFrom step init
      [.receive 1 2, .dataReceived [1, 2, 3, 4, 5], .dataReceived [6, 7], .step 1,
       .receive 1 2, .step 1, .receive 1 2, .step 1, .receive 1 2, .step 1]).map
      (fun r => (r.1.queue, r.1.delivered, r.1.arrived, r.2)) =
    some ([], [1, 2, 3, 4, 5, 6, 7], [1, 2, 3, 4, 5, 6, 7],
      [.susp, .env, .env, .retData [1, 2], .susp, .retData [3, 4], .susp, .retData [5],
       .susp, .retData [6, 7]]) := by decide

/-- close-then-drain: data arrives, another task closes the stream; receive returns the
queued chunk, the next receive raises ClosedResourceError, send raises it too -/
example :
    (traceFrom step init
      [.receive 1 10, .dataReceived [1, 2], .aclose 2, .step 1, .receive 1 10, .step 1,
       .send 1 [9], .step 1]).map
      (fun r => (r.1.closed, r.1.queue, r.1.written, r.2)) =
    some (true, [], [],
      [.susp, .env, .susp, .retData [1, 2], .susp, .closedErr, .susp, .closedErr]) := by decide

/-- Busy: a second receive and a second send while the first ones are inside -/
example :
    (traceFrom step init
      [.receive 1 4, .receive 2 4, .send 3 [1], .send 4 [2]]).map
      (fun r => (r.1.rowner, r.1.sowner, r.1.pc 2, r.1.pc 4, r.2)) =
    some (some 1, some 3, Pc.idle, Pc.idle, [.susp, .busy, .susp, .busy]) := by decide

/-- paused gate: the item is written, the sender blocks, `resume_writing` wakes it -/
example :
    (traceFrom step init
      [.pauseWriting, .send 1 [1, 2], .step 1]).map
      (fun r => (r.1.written, r.1.pc 1, r.1.writeOpen, r.2)) =
    some ([1, 2], Pc.sendWait, false, [.env, .susp, .susp]) ∧
    (traceFrom step init
      [.pauseWriting, .send 1 [1, 2], .step 1, .resumeWriting, .step 1]).map
      (fun r => (r.1.written, r.1.pc 1, r.1.sowner, r.2)) =
    some ([1, 2], Pc.idle, none, [.env, .susp, .susp, .env, .ret]) := by decide

/-- EndOfStream only after the queue was drained; reader back-pressure visible in `reading` -/
example :
    (traceFrom step init
      [.receive 1 8, .dataReceived [1], .eofReceived, .step 1, .receive 1 8, .step 1]).map
      (fun r => (r.1.delivered, r.1.arrived, r.1.reading, r.2)) =
    some ([1], [1], false, [.susp, .env, .env, .retData [1], .susp, .eos]) := by decide

/-- UNIX loops: partial sends with a BlockingIOError in between; receive with pending bytes -/
example : unixSend [1, 2, 3, 4, 5] [2, 0, 1] = ([1, 2, 3, 4, 5], []) ∧
    unixRecv [2, 2, 0, 2, 2] [] [none, some [1, 2, 3], some [4]] =
      [.data [1, 2], .data [3], .valueError, .data [4], .eos] := by decide

end AnyioModel.Stream.Socket
