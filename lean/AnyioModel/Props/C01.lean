/-
C01  Task group join: no child outlives its task group block.

Property theorems only, on the kernel model (`AnyioModel.Kernel.{Types,Scope,Step}`); the
invariant `GInv` and the case analysis of `step` are in `AnyioModel.Kernel.GroupInv`..`GroupInv6`,
well-formedness `WF` in `AnyioModel.Kernel.WF`..`WF10`.  Every statement quantifies over all
reachable states, i.e. over all finite event lists: any number of tasks, groups, nested scopes,
any interleaving of the loop's cycles with API calls, cancellations from inside, outside, by
deadline or native.

Ghost fields used: `Group.spawned` (every task ever passed to `_spawn` for the group),
`Group.exited` (`__aexit__` has returned or raised), `Task.doneCbRun` (`task_done` has run).
-/
import AnyioModel.Kernel.GroupInv6

namespace AnyioModel.Kernel

/-- The group invariant holds in every reachable state. -/
theorem C01_invariant {st : State} (h : Reach st) : GInv st := ginv_reach h

/-- Join: once `__aexit__` of group `g` has finished (returned, raised, or was cancelled), every
task ever spawned into `g` (by `start_soon`/`create_task`/`start`, by whomever, whenever) is done,
its `task_done` callback has run, and `_tasks` is empty. -/
theorem C01_join {st : State} (h : Reach st) {g u : Nat} (hx : (st.groups g).exited = true)
    (hu : u ∈ (st.groups g).spawned) :
    (st.tasks u).st = .done ∧ (st.tasks u).doneCbRun = true ∧ (st.groups g).tasks = [] := by
  have hi := ginv_reach h
  have h3 := (hi.g3 g hx).1
  rcases (hi.g2 g u hu).2 with hm | hd
  · rw [h3] at hm; contradiction
  · exact ⟨hd.1, hd.2, h3⟩

/-- A task that is done is never resumed: its `__step` and `__wakeup` handles are not enabled
(in any state, reachable or not). -/
theorem C01_done_never_runs {st : State} {u : Nat} (hd : (st.tasks u).st = .done) :
    step st (.run (.step u)) = none ∧ step st (.run (.wakeup u)) = none := by
  constructor <;> (simp only [step]; split <;> simp [hd])

/-- Done is final: a done task is done after every transition, with the same outcome; it is not
the running task before or after, and the transition was not a resumption of it. -/
theorem C01_done_is_final {st st' : State} {e : Ev} {o : Out} (h : Reach st) {u : Nat}
    (hd : (st.tasks u).st = .done) (hs : step st e = some (st', o)) :
    (st'.tasks u).st = .done ∧ (st'.tasks u).outcome = (st.tasks u).outcome ∧
      st.running ≠ some u ∧ st'.running ≠ some u ∧
      e ≠ .run (.step u) ∧ e ≠ .run (.wakeup u) := by
  have w := wf_reach h
  have w' := wf_reach (Reachable.next h hs)
  have f := step_doneFix (ginv_reach h) w hs u hd
  refine ⟨f.1, f.2.1, ?_, ?_, ?_, ?_⟩
  · intro hr; have := (w.running_spec u).mp hr; rw [hd] at this; contradiction
  · intro hr; have := (w'.running_spec u).mp hr; rw [f.1] at this; contradiction
  · intro he; subst he; rw [(C01_done_never_runs hd).1] at hs; contradiction
  · intro he; subst he; rw [(C01_done_never_runs hd).2] at hs; contradiction

/-- In particular no child of an exited group ever runs again. -/
theorem C01_no_child_step_after_exit {st st' : State} {e : Ev} {o : Out} (h : Reach st)
    {g u : Nat} (hx : (st.groups g).exited = true) (hu : u ∈ (st.groups g).spawned)
    (hs : step st e = some (st', o)) :
    e ≠ .run (.step u) ∧ e ≠ .run (.wakeup u) ∧ (st'.tasks u).st = .done := by
  have hd := (C01_join h hx hu).1
  have := C01_done_is_final h hd hs
  exact ⟨this.2.2.2.2.1, this.2.2.2.2.2, this.1⟩

/-- Nothing can be spawned into a group whose block has ended: `start_soon`/`create_task` raise
`RuntimeError` and change nothing. -/
theorem C01_no_spawn_after_exit {st st' : State} {o : Out} (h : Reach st) {g : Nat}
    (hx : (st.groups g).exited = true) (hs : step st (.spawn g) = some (st', o)) :
    st' = st ∧ o = .rterr := by
  have ha := (ginv_reach h |>.g3 g hx).2.1
  simp only [step] at hs
  split at hs
  · contradiction
  · simp [ha] at hs
    exact ⟨hs.1.symm, hs.2.symm⟩

/-- The same for `start()`. -/
theorem C01_no_start_after_exit {st st' : State} {o : Out} (h : Reach st) {g : Nat}
    (hx : (st.groups g).exited = true) (hs : step st (.start g) = some (st', o)) :
    st' = st ∧ o = .rterr := by
  have ha := (ginv_reach h |>.g3 g hx).2.1
  simp only [step] at hs
  split at hs
  · contradiction
  · split at hs
    · contradiction
    · simp [ha] at hs
      exact ⟨hs.1.symm, hs.2.symm⟩

/-- When the block has ended, every child's `TaskHandle` is final: the finished event is set. -/
theorem C01_handle_final {st : State} (h : Reach st) {g u : Nat}
    (hx : (st.groups g).exited = true) (hu : u ∈ (st.groups g).spawned) :
    (st.tasks u).finished = true := by
  have hi := ginv_reach h
  have hd := (C01_join h hx hu).1
  exact hi.g6 u (hasHandle_reach h u g (hi.g2 g u hu).1) hd

/-- What the handle reports is how the coroutine ended: the segment in which the coroutine of
an AnyIO child ends with outcome `o` (`.none` = returned) records `o` in the handle, sets the
finished event, and completes the task. -/
theorem C01_handle_records_outcome {st st' : State} {o : Outcome} {out : Out} {t hs : Nat}
    (hr : st.running = some t) (hh : (st.tasks t).hscope = some hs)
    (hstep : step st (.finish o) = some (st', out)) :
    (st'.tasks t).hexc = o ∧ (st'.tasks t).finished = true ∧ (st'.tasks t).st = .done := by
  simp only [step, hr] at hstep
  split at hstep
  · contradiction
  · split at hstep
    · contradiction
    · split at hstep
      · contradiction
      · rename_i st1 hf
        simp only [Option.some.injEq, Prod.mk.injEq] at hstep
        obtain ⟨rfl, _⟩ := hstep
        unfold finishTask at hf
        simp only [hh] at hf
        split at hf
        · contradiction
        · rename_i st2 r hex
          simp only [Option.some.injEq] at hf
          subst hf
          obtain ⟨_, _, _, _, c⟩ := exitScope_spec hex
          have t1 := c.tasks t
          have t0 := foldl_resolveFut_task (st := st.setTask t (fun x =>
            { x with hexc := o, finished := true })) (st.tasks t).hwaiters .result t
          have e1 : ((exitPre ((List.foldl (fun st f => resolveFut st f .result)
              (st.setTask t (fun x => { x with hexc := o, finished := true }))
              (st.tasks t).hwaiters).setTask t (fun x => { x with hwaiters := [] })) t hs).tasks t).hexc
              = o ∧ ((exitPre ((List.foldl (fun st f => resolveFut st f .result)
              (st.setTask t (fun x => { x with hexc := o, finished := true }))
              (st.tasks t).hwaiters).setTask t (fun x => { x with hwaiters := [] })) t hs).tasks
              t).finished = true := by
            rw [exitPre_task]
            simp only [if_true, setTask_tasks, upd_same]
            rw [t0.hexc, t0.finished]
            simp
          refine ⟨?_, ?_, ?_⟩
          · simp only [schedule_tasks, setTask_tasks, upd_same]
            rw [t1.hexc]; exact e1.1
          · simp only [schedule_tasks, setTask_tasks, upd_same]
            rw [t1.finished]; exact e1.2
          · simp

/-- ... and no later transition changes what the handle of a done task reports. -/
theorem C01_handle_stable {st st' : State} {e : Ev} {o : Out} (h : Reach st) {u : Nat}
    (hd : (st.tasks u).st = .done) (hs : step st e = some (st', o)) :
    (st'.tasks u).finished = (st.tasks u).finished ∧ (st'.tasks u).hexc = (st.tasks u).hexc ∧
      (st'.tasks u).outcome = (st.tasks u).outcome := by
  have f := step_doneFix (ginv_reach h) (wf_reach h) hs u hd
  exact ⟨f.2.2.1, f.2.2.2, f.2.1⟩

/-! ### non-vacuity -/

/-- a group with one child: the host waits in `__aexit__`, the child runs and returns, its
`task_done` wakes the host, the block ends -/
example : (runFrom step init
    [.mkGroup, .groupEnter 0, .spawn 0, .aexit 0 .none, .beginCycle 0, .run (.step 1),
     .finish .none, .beginCycle 0, .run (.taskDone 1), .beginCycle 0, .run (.wakeup 0)]).map
    (fun s => ((s.groups 0).exited, (s.groups 0).spawned, (s.tasks 1).st, (s.tasks 1).finished)) =
    some (true, [1], .done, true) := by decide

/-- before the child's callback has run the block has not ended -/
example : (runFrom step init
    [.mkGroup, .groupEnter 0, .spawn 0, .aexit 0 .none, .beginCycle 0, .run (.step 1),
     .finish .none, .beginCycle 0]).map
    (fun s => ((s.groups 0).exited, (s.groups 0).tasks, (s.tasks 1).st)) =
    some (false, [1], .done) := by decide

/-- after the end of the block `start_soon` raises -/
example : (traceFrom step init
    [.mkGroup, .groupEnter 0, .spawn 0, .aexit 0 .none, .beginCycle 0, .run (.step 1),
     .finish .none, .beginCycle 0, .run (.taskDone 1), .beginCycle 0, .run (.wakeup 0),
     .spawn 0]).map (fun p => p.2.getLast?) = some (some .rterr) := by decide

/-- a child that raises: the handle records the exception -/
example : (runFrom step init
    [.mkGroup, .groupEnter 0, .spawn 0, .aexit 0 .none, .beginCycle 0, .run (.step 1),
     .finish (.one (.err 7))]).map (fun s => ((s.tasks 1).hexc, (s.tasks 1).finished)) =
    some (.one (.err 7), true) := by decide

end AnyioModel.Kernel
