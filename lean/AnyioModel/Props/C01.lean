import AnyioModel.Kernel.Step
