/-
C11  Event and Condition: no early, spurious or lost wake-ups.

Property theorems only.  Models: `AnyioModel.Sync.Event`, `AnyioModel.Sync.Condition` (which embeds
the Lock model of C09); invariants and helper lemmas: `Sync/EventProofs`, `Sync/LockFrame`,
`Sync/ConditionProofs`, `Sync/ConditionQueue`, `Sync/ConditionNotify`, `Sync/ConditionInv`,
`Sync/ConditionFacts`.  Every statement quantifies over all reachable states, i.e. over all finite
event lists: any number of waiters and notifiers, any `n`, any interleaving of the segments of
`wait`/`notify`/`acquire`/`release` with cancellations (`fc`: the waiter's future is cancelled
while pending; `mc`: a native cancellation lands after the wake-up was scheduled).
-/
import AnyioModel.Sync.EventProofs
import AnyioModel.Sync.ConditionFacts

namespace AnyioModel.Props.C11
open AnyioModel AnyioModel.Sync

-- the non-vacuity examples compare tuples of more than five observables
set_option synthInstance.maxSize 2048

/-! ## Event -/

theorem C11_event_invariant {s : Event.State} (h : Event.Reach s) : Event.Inv s := by
  refine Reachable.invariant Event.Inv ?_ ?_ s h
  · rintro s rfl; exact Event.inv_init
  · intro s e s' o hi hs; exact Event.inv_step hi hs

/-- No early wake-up: the only transitions that return normally are `set()` itself and the
wake-up segment of a `wait()`, and the latter only in a state whose flag is set (and stays set).
In particular the call segment of `wait()` never returns by itself. -/
theorem C11_event_wait_only_after_set {s s' : Event.State} (h : Event.Reach s) {e : Event.Ev}
    (hs : Event.step s e = some (s', .ret)) :
    e = .set ∨ (∃ t, e = .step t ∧ s.flag = true ∧ s'.flag = true) := by
  have hi := C11_event_invariant h
  cases e with
  | wait t pre =>
    simp only [Event.step] at hs
    split at hs; · contradiction
    split at hs <;> cases hs
  | set => exact Or.inl rfl
  | fc t =>
    simp only [Event.step] at hs
    split at hs <;> cases hs
  | mc t =>
    simp only [Event.step] at hs
    split at hs <;> cases hs
  | step t =>
    right
    refine ⟨t, rfl, ?_⟩
    simp only [Event.step] at hs
    split at hs
    all_goals first
      | contradiction
      | (cases hs; done)
      | (rename_i hpc
         have hf : s.flag = true := hi.released_flag t (by simp [Event.releasedPc, hpc])
         cases hs
         exact ⟨hf, hf⟩)

/-- `set()` releases every task waiting at that moment: each pending future is resolved (its
task's wake-up is scheduled, and by `C11_event_released_progress` that wake-up ends the wait), no
task is left blocked on a pending future, and the flag is set. -/
theorem C11_event_set_releases_all {s s' : Event.State} (h : Event.Reach s) {o : Event.Out}
    (hs : Event.step s .set = some (s', o)) :
    o = .ret ∧ s'.flag = true ∧ s'.waiters = s.waiters ∧
    (∀ t, s'.pc t ≠ .waiting) ∧ (∀ t, s.pc t = .waiting → s'.pc t = .woken) ∧
    (∀ t, s.pc t ≠ .waiting → s'.pc t = s.pc t) := by
  have hi := C11_event_invariant h
  simp only [Event.step] at hs
  split at hs
  · rename_i hf
    cases hs
    refine ⟨rfl, hf, rfl, hi.flag_no_pending hf, ?_, fun _ _ => rfl⟩
    intro t ht; exact absurd ht (hi.flag_no_pending hf t)
  · cases hs
    have hq : ∀ t, s.pc t = .waiting → t ∈ s.waiters := by
      intro t ht; exact (hi.queued_iff t).mpr (Or.inl ht)
    refine ⟨rfl, rfl, rfl, ?_, ?_, ?_⟩
    · intro t
      show (if t ∈ s.waiters ∧ s.pc t = .waiting then Event.Pc.woken else s.pc t) ≠ .waiting
      split
      · simp
      · rename_i hn; intro hw; exact hn ⟨hq t hw, hw⟩
    · intro t ht
      show (if t ∈ s.waiters ∧ s.pc t = .waiting then Event.Pc.woken else s.pc t) = .woken
      simp [hq t ht, ht]
    · intro t ht
      show (if t ∈ s.waiters ∧ s.pc t = .waiting then Event.Pc.woken else s.pc t) = s.pc t
      simp [ht]

/-- Once the flag is set, every task inside `wait()` -- whether it was waiting at the moment of
`set()` or called `wait()` afterwards -- can be resumed, and its resumption ends the `wait()`:
normally, unless a cancellation was delivered to it (`fc`/`mc`). -/
theorem C11_event_released_progress {s : Event.State} (h : Event.Reach s) (hf : s.flag = true)
    {t : Nat} (hin : s.pc t ≠ .idle) :
    ∃ s' o, Event.step s (.step t) = some (s', o) ∧ s'.pc t = .idle ∧ s'.flag = true ∧
      ((o = .ret ∧ (s.pc t = .woken ∨ s.pc t = .yielding)) ∨
       (o = .cancelled ∧ (s.pc t = .waitFC ∨ s.pc t = .wokenMC ∨ s.pc t = .yieldingMC))) := by
  have hi := C11_event_invariant h
  have hnw := hi.flag_no_pending hf t
  cases hpc : s.pc t with
  | idle => exact absurd hpc hin
  | waiting => exact absurd hpc hnw
  | yielding =>
    have e : Event.step s (.step t) = some ({ s with pc := upd s.pc t .idle }, .ret) := by
      simp [Event.step, hpc]
    exact ⟨_, _, e, by simp, hf, by simp⟩
  | yieldingMC =>
    have e : Event.step s (.step t) = some ({ s with pc := upd s.pc t .idle }, .cancelled) := by
      simp [Event.step, hpc]
    exact ⟨_, _, e, by simp, hf, by simp⟩
  | woken =>
    have e : Event.step s (.step t) =
        some ({ s with waiters := s.waiters.erase t, pc := upd s.pc t .idle }, .ret) := by
      simp [Event.step, hpc]
    exact ⟨_, _, e, by simp, hf, by simp⟩
  | waitFC =>
    have e : Event.step s (.step t) =
        some ({ s with waiters := s.waiters.erase t, pc := upd s.pc t .idle }, .cancelled) := by
      simp [Event.step, hpc]
    exact ⟨_, _, e, by simp, hf, by simp⟩
  | wokenMC =>
    have e : Event.step s (.step t) =
        some ({ s with waiters := s.waiters.erase t, pc := upd s.pc t .idle }, .cancelled) := by
      simp [Event.step, hpc]
    exact ⟨_, _, e, by simp, hf, by simp⟩

/-- A `wait()` called on a set event takes the non-blocking path (one bare yield). -/
theorem C11_event_wait_after_set {s : Event.State} (hf : s.flag = true) {t : Nat} {pre : Bool}
    (hidle : s.pc t = .idle) :
    Event.step s (.wait t pre) = some ({ s with pc := upd s.pc t .yielding }, .susp) := by
  simp [Event.step, hidle, hf]

/-- A set event stays set, along every continuation. -/
theorem C11_event_monotone {s s' : Event.State} {es : List Event.Ev}
    (hr : runFrom Event.step s es = some s') (hf : s.flag = true) : s'.flag = true := by
  induction es generalizing s with
  | nil => simp [runFrom] at hr; subst hr; exact hf
  | cons e es ih =>
    simp only [runFrom] at hr
    split at hr
    · contradiction
    · rename_i s1 o hs
      refine ih hr ?_
      cases e <;> simp only [Event.step] at hs <;> (repeat' split at hs) <;>
        first | contradiction | (cases hs; first | exact hf | rfl)

/-! ## Condition -/

theorem C11_invariant {s : Condition.State} (h : Condition.Reach s) : Condition.Inv s :=
  Condition.inv_reach h

/-- `notify(n)` by the lock holder sets exactly the events of the `min n |waiters|` oldest
waiters (the prefix `take n` of the FIFO), removes exactly those from the queue, and touches
nobody else; the lock stays with the notifier. -/
theorem C11_notify_at_most_n {s s' : Condition.State} (h : Condition.Reach s) {t n : Nat}
    {o : Condition.Out} (hs : Condition.step s (.notify t n) = some (s', o))
    (hown : s.ownerTask = some t) :
    o = .ret ∧ s'.waiters = s.waiters.drop n ∧
    (s.waiters.take n).length = min n s.waiters.length ∧
    (∀ u ∈ s.waiters.take n, Condition.isSet (s'.cpc u) = true ∧ s'.wasSet u = true) ∧
    (∀ u, u ∉ s.waiters.take n → s'.cpc u = s.cpc u ∧ s'.wasSet u = s.wasSet u) ∧
    s'.issued = s.issued + min n s.waiters.length ∧
    s'.lock = s.lock ∧ s'.ownerTask = s.ownerTask := by
  have hi := C11_invariant h
  simp only [Condition.step] at hs
  split at hs; · contradiction
  rename_i hcp; simp only [ne_eq, Decidable.not_not] at hcp
  split at hs
  · rename_i hno; exact absurd hown hno
  · cases hs
    have hx := Condition.invQx_of_invQ (t := t) hi.q (by simp [hcp, Condition.isQueued])
      (by simp [hcp, Condition.isSet])
    obtain ⟨_, sp⟩ := Condition.notifyLoop_spec t n s hx
    exact ⟨rfl, sp.waiters, List.length_take, sp.selected, sp.others,
      by rw [sp.issued, List.length_take], sp.lock, sp.owner⟩

/-- `notify_all()` by the lock holder sets the event of every queued waiter and empties the queue. -/
theorem C11_notify_all_releases_all {s s' : Condition.State} (h : Condition.Reach s) {t : Nat}
    {o : Condition.Out} (hs : Condition.step s (.notifyAll t) = some (s', o))
    (hown : s.ownerTask = some t) :
    o = .ret ∧ s'.waiters = [] ∧
    (∀ u ∈ s.waiters, Condition.isSet (s'.cpc u) = true ∧ s'.wasSet u = true) ∧
    (∀ u, u ∉ s.waiters → s'.cpc u = s.cpc u ∧ s'.wasSet u = s.wasSet u) ∧
    s'.issued = s.issued + s.waiters.length := by
  have hi := C11_invariant h
  simp only [Condition.step] at hs
  split at hs; · contradiction
  rename_i hcp; simp only [ne_eq, Decidable.not_not] at hcp
  split at hs
  · rename_i hno; exact absurd hown hno
  · cases hs
    have hx := Condition.invQx_of_invQ (t := t) hi.q (by simp [hcp, Condition.isQueued])
      (by simp [hcp, Condition.isSet])
    obtain ⟨_, sp⟩ := Condition.notifyLoop_spec t s.waiters.length s hx
    have ht : s.waiters.take s.waiters.length = s.waiters := List.take_length
    refine ⟨rfl, by rw [sp.waiters]; simp, ?_, ?_, by rw [sp.issued, ht]⟩
    · intro u hu; exact sp.selected u (by rw [ht]; exact hu)
    · intro u hu; exact sp.others u (by rw [ht]; exact hu)

/-- The ghost "my event has been set" can only be switched on by a `notify(n)`/`notify_all()` of
the current lock holder that selects the task among the oldest waiters, or by a notified waiter
that is being cancelled and hands its notification to the task at the head of the queue. -/
theorem C11_set_only_by_notification {s s' : Condition.State} (h : Condition.Reach s)
    {e : Condition.Ev} {o : Condition.Out} (hs : Condition.step s e = some (s', o)) {u : Nat}
    (h0 : s.wasSet u = false) (h1 : s'.wasSet u = true) :
    (∃ t n, e = .notify t n ∧ s.ownerTask = some t ∧ u ∈ s.waiters.take n) ∨
    (∃ t, e = .notifyAll t ∧ s.ownerTask = some t ∧ u ∈ s.waiters) ∨
    (∃ t, e = .step t ∧ Condition.cancelledNotified (s.cpc t) ∧ s.waiters.head? = some u) :=
  Condition.wasSet_rises (C11_invariant h) hs h0 h1

/-- No early or spurious wake-up: the call segment of `wait()` never returns, and a later segment
returns normally only to a task whose event has been set (see `C11_set_only_by_notification`; the
bit is cleared on entry to `wait()`), which was not resumed by a cancellation, and which at that
moment again holds the lock: it is the Lock's owner, the Condition's recorded owner, and the
unique task with `holds`. -/
theorem C11_wait_returns_notified_holding {s s' : Condition.State} (h : Condition.Reach s) :
    (∀ t pre, Condition.step s (.wait t pre) ≠ some (s', .ret)) ∧
    (∀ t, Condition.step s (.step t) = some (s', .ret) → Condition.inWait (s.cpc t) →
      s.wasSet t = true ∧ (s.cpc t = .reacq false ∨ ∃ p, s.cpc t = .evSet p) ∧
      s'.lock.holds t = true ∧ s'.lock.owner = some t ∧ s'.ownerTask = some t ∧
      s'.cpc t = .none ∧ (∀ u, s'.lock.holds u = true → u = t)) := by
  have hi := C11_invariant h
  constructor
  · intro t pre hs
    simp only [Condition.step] at hs
    split at hs; · contradiction
    split at hs
    · cases hs
    · unfold Condition.waitBody at hs
      split at hs
      · cases hs
      · simp only at hs
        split at hs
        · contradiction
        · cases hs
        · rename_i l lo hne hr
          injection hs with hs; injection hs with _ hs2
          subst hs2
          exact hne rfl
  · intro t hs hw
    have hi' := Condition.inv_step hi hs
    obtain ⟨h1, h2, h3, h4⟩ := Condition.wait_ret hi hs hw
    have hh : s'.lock.holds t = true := (hi'.a.owner_holds t).mp h2
    have ho := (hi'.a.lockInv.holds_owner t hh).1
    refine ⟨h1, h4, hh, ho, h2, h3, ?_⟩
    intro u hu
    have := (hi'.a.lockInv.holds_owner u hu).1
    rw [ho] at this; cases this; rfl

/-- Accounting of notifications: every event set by a notifier is, at any moment, either
consumed by the waiter it was issued to, consumed by a waiter it was passed on to, dropped by a
cancelled waiter that found the queue empty, or still pending at a task whose wake-up has not
run yet (`notified` lists exactly the tasks suspended on a set event). -/
theorem C11_pass_on_accounting {s : Condition.State} (h : Condition.Reach s) :
    s.issued = s.consumedDirect + s.consumedPassed + s.dropped + s.notified.length ∧
    s.notified.Nodup ∧ (∀ u, u ∈ s.notified ↔ Condition.isSet (s.cpc u) = true) :=
  let hi := C11_invariant h
  ⟨hi.c, hi.q.n_nodup, hi.q.notified_iff⟩

/-- A notification handed to a waiter that is being cancelled is not lost: when a task whose
event was set is resumed by a cancellation (future cancelled before the `notify`: `evFCSet`;
native cancellation after it: `evSetMC`), its `wait()` does not return normally, and in the same
segment the event of the oldest still-queued waiter is set (that waiter leaves the queue and is
now pending); only if nobody is queued is the notification dropped. -/
theorem C11_pass_on {s s' : Condition.State} (h : Condition.Reach s) {t : Nat} {o : Condition.Out}
    (hs : Condition.step s (.step t) = some (s', o))
    (hc : Condition.cancelledNotified (s.cpc t)) :
    o ≠ .ret ∧ (s'.cpc t = .none ∨ s'.cpc t = .reacq true) ∧ t ∉ s'.notified ∧
    ((s.waiters = [] ∧ s'.waiters = [] ∧ s'.dropped = s.dropped + 1) ∨
     (∃ u rest, s.waiters = u :: rest ∧ s'.waiters = rest ∧ Condition.isSet (s'.cpc u) = true ∧
        s'.wasSet u = true ∧ u ∈ s'.notified ∧ s'.dropped = s.dropped)) :=
  Condition.cancelledNotified_step (C11_invariant h) hs hc

/-- No ghost waiter, no hidden waiter: the queue holds, without repetition, exactly the tasks
suspended in `wait()` on an event that has not been set (future pending or cancelled). -/
theorem C11_no_ghost_waiter {s : Condition.State} (h : Condition.Reach s) :
    s.waiters.Nodup ∧ ∀ u, u ∈ s.waiters ↔ (s.cpc u = .evWait ∨ s.cpc u = .evFC) := by
  have hi := C11_invariant h
  refine ⟨hi.q.q_nodup, ?_⟩
  intro u
  rw [hi.q.queue_iff u]
  cases hcu : s.cpc u <;> simp [Condition.isQueued]

/-- The Condition's recorded owner is exactly the task that currently holds the lock (returned
from `acquire`/`acquire_nowait`/`wait` and has not released or re-entered `wait` since). -/
theorem C11_owner_is_holder {s : Condition.State} (h : Condition.Reach s) (t : Nat) :
    s.ownerTask = some t ↔ s.lock.holds t = true :=
  (C11_invariant h).a.owner_holds t

/-- `wait`, `notify` and `notify_all` by a task that does not currently hold the lock are refused
with `RuntimeError` and change nothing (for `wait`: when the caller's scope is not already
cancelled -- then `checkpoint_if_cancelled` raises first, also without any effect). -/
theorem C11_refusal {s : Condition.State} (h : Condition.Reach s) {t : Nat}
    (hidle : s.cpc t = .none) (hh : s.lock.holds t = false) :
    Condition.step s (.wait t false) = some (s, .runtimeError) ∧
    (∀ n, Condition.step s (.notify t n) = some (s, .runtimeError)) ∧
    Condition.step s (.notifyAll t) = some (s, .runtimeError) := by
  have hno : s.ownerTask ≠ some t := by
    intro ho; have := (C11_owner_is_holder h t).mp ho; rw [hh] at this; cases this
  refine ⟨?_, ?_, ?_⟩
  · simp [Condition.step, hidle, Condition.waitBody, hno]
  · intro n; simp [Condition.step, hidle, hno]
  · simp [Condition.step, hidle, hno]

/-- Conversely the lock holder is never refused: its `wait()` enqueues it at the tail, gives up
the lock and suspends; its `notify(n)` returns. -/
theorem C11_holder_accepted {s : Condition.State} (h : Condition.Reach s) {t : Nat}
    (hidle : s.cpc t = .none) (hh : s.lock.holds t = true) :
    (∃ s', Condition.step s (.wait t false) = some (s', .susp) ∧ s'.cpc t = .evWait ∧
        s'.waiters = s.waiters ++ [t] ∧ s'.lock.holds t = false ∧ s'.ownerTask = none) ∧
    (∀ n, ∃ s', Condition.step s (.notify t n) = some (s', .ret)) := by
  have hi := C11_invariant h
  have hown : s.ownerTask = some t := (hi.a.owner_holds t).mpr hh
  obtain ⟨hlo, hlpc⟩ := hi.a.lockInv.holds_owner t hh
  have hr : Lock.step s.lock (.release t) =
      some (Lock.doRelease { s.lock with holds := upd s.lock.holds t false }, .ret) := by
    simp [Lock.step, hlpc, hlo]
  obtain ⟨_, hcase⟩ := Lock.frame_release hi.a.lockInv hr
  have hh' : (Lock.doRelease { s.lock with holds := upd s.lock.holds t false }).holds t = false := by
    rcases hcase with ⟨_, _, h3, _⟩ | ⟨h1, _⟩
    · exact h3
    · cases h1
  constructor
  · refine ⟨{ s with waiters := s.waiters ++ [t], wasSet := upd s.wasSet t false,
                     lock := Lock.doRelease { s.lock with holds := upd s.lock.holds t false },
                     ownerTask := none, cpc := upd s.cpc t .evWait }, ?_, by simp, rfl, hh', rfl⟩
    simp [Condition.step, hidle, Condition.waitBody, hown, hr]
  · intro n
    exact ⟨Condition.notifyLoop n s, by simp [Condition.step, hidle, hown]⟩

/-- No lost wake-up at the level of a single waiter: a task whose event has been set can always be
resumed, and that segment takes it off the pending list for good (it consumes the notification or
hands it on, `C11_pass_on`). -/
theorem C11_notified_resumes {s : Condition.State} (h : Condition.Reach s) {t : Nat}
    (hset : Condition.isSet (s.cpc t) = true) :
    ∃ s' o, Condition.step s (.step t) = some (s', o) ∧ t ∉ s'.notified ∧
      Condition.isSet (s'.cpc t) = false := by
  have hi := C11_invariant h
  have hlpc : s.lock.pc t = .idle := by
    have := hi.a.pc_link t
    apply Classical.byContradiction
    intro hne
    have hl := this.mp hne
    rcases hl with hl | ⟨e, hl⟩ <;> simp [hl, Condition.isSet] at hset
  have hx0 : Condition.InvQx t { s with notified := s.notified.erase t } :=
    Condition.invQx_eraseN hi.q hset rfl rfl rfl rfl
  have hfin : ∀ (s1 : Condition.State) (exc : Bool), s1.lock = s.lock → t ∉ s1.notified →
      ∃ s' o, Condition.reacquire t exc s1 = some (s', o) ∧ t ∉ s'.notified ∧
        Condition.isSet (s'.cpc t) = false := by
    intro s1 exc hl hn
    have hen : ∃ x, Lock.step s1.lock (.acquire t false) = some x := by
      rw [hl]; simp only [Lock.step, hlpc]
      simp only [ne_eq, not_true_eq_false, if_false]
      repeat' split
      all_goals exact ⟨_, rfl⟩
    obtain ⟨⟨l, lo⟩, hr⟩ := hen
    have hsome : ∃ y, Condition.reacquire t exc s1 = some y := by
      unfold Condition.reacquire; rw [hr]; unfold Condition.lockResult
      split <;> first | exact ⟨_, rfl⟩ | simp_all
    obtain ⟨⟨s', o⟩, hy⟩ := hsome
    refine ⟨s', o, hy, ?_, ?_⟩
    · unfold Condition.reacquire at hy
      rw [(Condition.lockResult_wasSet hy).2.2.2]; exact hn
    · unfold Condition.reacquire at hy
      obtain ⟨_, _, _, _, _, hcase⟩ := Condition.lockResult_cases hy
      rcases hcase with ⟨_, _, hc, _⟩ | ⟨_, _, hc, _⟩ | ⟨_, _, _, hc, _⟩ <;>
        simp [hc, Condition.isSet]
  cases hcp : s.cpc t <;> simp [hcp, Condition.isSet] at hset
  · rename_i p
    obtain ⟨s', o, h1, h2⟩ := hfin (Condition.passOn { s with notified := s.notified.erase t }) true
      (Condition.view_passOn _).1 (Condition.invQx_passOn hx0).t_notn
    exact ⟨s', o, by simp only [Condition.step, hcp]; exact h1, h2⟩
  · rename_i p
    obtain ⟨s', o, h1, h2⟩ := hfin
      { s with notified := s.notified.erase t,
               consumedDirect := if p then s.consumedDirect else s.consumedDirect + 1,
               consumedPassed := if p then s.consumedPassed + 1 else s.consumedPassed } false rfl
      hx0.t_notn
    exact ⟨s', o, by simp only [Condition.step, hcp]; exact h1, h2⟩
  · rename_i p
    obtain ⟨s', o, h1, h2⟩ := hfin (Condition.passOn { s with notified := s.notified.erase t }) true
      (Condition.view_passOn _).1 (Condition.invQx_passOn hx0).t_notn
    exact ⟨s', o, by simp only [Condition.step, hcp]; exact h1, h2⟩

/-! ### boundary of the claim: native cancellation during the shielded re-acquire

Cancel-scope cancellation cannot reach a task inside `with CancelScope(shield=True): await
self.acquire()`.  A native `Task.cancel()` can: `Lock.acquire` then raises out of the `finally:`
block.  The history below (checked by evaluation) shows what the code then does: task 1 was
notified, woke up normally (notification consumed), was queued on the lock still held by the
notifier 3, and its Lock future is cancelled natively: `wait()` raises, task 1 does *not* hold the
lock, and the other waiter 2 stays asleep -- the consumed notification is not passed on.
AnyIO scopes its guarantees to cancel-scope cancellation, so C11 is claimed for that (DESIGN
section 4, same decision as for C12); this witness keeps the boundary machine-checked. -/
theorem C11_native_cancel_reacquire_witness :
    (traceFrom Condition.step (Condition.init false)
      [.acquire 1 false, .step 1, .wait 1 false, .acquire 2 false, .step 2, .wait 2 false,
       .acquire 3 false, .step 3, .notify 3 1, .step 1, .fc 1, .step 1]).map
      (fun r => (r.2.drop 8, r.1.lock.holds 1, r.1.lock.owner, r.1.waiters, r.1.cpc 1, r.1.cpc 2,
        r.1.issued, r.1.consumedDirect, r.1.notified)) =
    some ([.ret, .susp, .env, .cancelled], false, some 3, [2], .none, .evWait, 1, 1, []) := by
  decide

/-! ### non-vacuity: the hypotheses above are met by concrete histories -/

/-- Event: two waiters, one cancelled while waiting, `set()`, both resume; a late waiter takes
the non-blocking path -/
example :
    (traceFrom Event.step Event.init
      [.wait 1 false, .wait 2 false, .fc 2, .set, .step 1, .step 2, .wait 3 false, .step 3]).map
      (fun r => (r.2, r.1.flag, r.1.waiters)) =
    some ([.susp, .susp, .env, .ret, .ret, .cancelled, .susp, .ret], true, []) := by decide

/-- Event: native cancellation between `set()` and the wake-up: `wait()` raises although the flag
is set -/
example :
    (traceFrom Event.step Event.init [.wait 1 false, .set, .mc 1, .step 1]).map
      (fun r => (r.2, r.1.flag, r.1.waiters)) =
    some ([.susp, .ret, .env, .cancelled], true, []) := by decide

/-- three waiters 1,2,3; `notify(2)` by 4 selects 1 and 2 in waiting order, 3 stays queued -/
example :
    (runFrom Condition.step (Condition.init false)
      [.acquire 1 false, .step 1, .wait 1 false, .acquire 2 false, .step 2, .wait 2 false,
       .acquire 3 false, .step 3, .wait 3 false, .acquire 4 false, .step 4, .notify 4 2]).map
      (fun s => (s.waiters, s.cpc 1, s.cpc 2, s.cpc 3, s.issued, s.ownerTask)) =
    some ([3], .evSet false, .evSet false, .evWait, 2, some 4) := by decide

/-- the notified waiter is cancelled in the same cycle, cancellation first: waiter 1's future is
cancelled (`fc`), then `notify(1)` pops and sets its event; on wake-up 1 passes the notification
on to 2, which later returns from `wait()` holding the lock, while 1 re-raises -/
example :
    (traceFrom Condition.step (Condition.init false)
      [.acquire 1 false, .step 1, .wait 1 false, .acquire 2 false, .step 2, .wait 2 false,
       .acquire 3 false, .step 3, .fc 1, .notify 3 1, .release 3, .step 1, .step 1, .release 1,
       .step 2, .step 2]).map
      (fun r => (r.2.drop 8, r.1.waiters, r.1.cpc 2, r.1.ownerTask, r.1.lock.holds 2,
        r.1.consumedDirect, r.1.consumedPassed, r.1.dropped, r.1.issued)) =
    some ([.env, .ret, .ret, .susp, .cancelled, .ret, .susp, .ret], [], .none, some 2, true,
      0, 1, 0, 1) := by decide

/-- same cycle, notification first: `notify(1)` sets waiter 1's event, a native cancellation hits
1 before it runs (`mc`); 1 passes the notification on to 2 -/
example :
    (runFrom Condition.step (Condition.init false)
      [.acquire 1 false, .step 1, .wait 1 false, .acquire 2 false, .step 2, .wait 2 false,
       .acquire 3 false, .step 3, .notify 3 1, .mc 1, .step 1]).map
      (fun s => (s.waiters, s.cpc 1, s.cpc 2, s.notified, s.dropped)) =
    some ([], .reacq true, .evSet true, [2], 0) := by decide

/-- a notified-and-cancelled waiter with nobody behind it: the notification is dropped -/
example :
    (runFrom Condition.step (Condition.init false)
      [.acquire 1 false, .step 1, .wait 1 false, .acquire 3 false, .step 3, .notify 3 1, .mc 1,
       .step 1]).map
      (fun s => (s.waiters, s.cpc 1, s.notified, s.dropped, s.issued)) =
    some ([], .reacq true, [], 1, 1) := by decide

/-- misuse: a task that has released the lock calls `notify()` and `wait()`: refused, nothing
queued (the F7 history) -/
example :
    (traceFrom Condition.step (Condition.init false)
      [.acquire 1 false, .step 1, .release 1, .notify 1 1, .wait 1 false, .notifyAll 1]).map
      (fun r => (r.2, r.1.waiters, r.1.ownerTask)) =
    some ([.susp, .ret, .ret, .runtimeError, .runtimeError, .runtimeError], [], none) := by decide

end AnyioModel.Props.C11
