import AnyioModel.Sync.Event
import AnyioModel.Sync.Condition
