/-
C20  Async lru_cache: right value, single flight, bounded retention.

Property theorems only.  Model: `AnyioModel.Cache.Lru` (functools.py `AsyncLRUCacheWrapper.__call__`
with the F3 repair, plus the per-placeholder `Lock`s); invariant and helper lemmas:
`AnyioModel.Cache.{LruDict, LruProofs, LruStep, LruInv, LruOut, LruEvict, LruChange, LruHit}`.  Every statement
quantifies over all reachable states, i.e. over all finite event lists: any number of callers and
keys, any `maxsize` (`none`, 0, 1, ...), any `ttl`, `always_checkpoint` on or off, any interleaving
of call segments with completions / failures of the wrapped function, cancellations (`fc`, `mc`,
`sc`) and clock ticks.
-/
import AnyioModel.Cache.LruHit

namespace AnyioModel.Cache.Lru

theorem C20_invariant {s : State} (h : Reach s) : Inv s := inv_reach h

/-- the call is inside the wrapped function, holding its key's lock -/
def inflight (p : Pc) : Prop := p = .computing ∨ p = .computingX

/-- At most one call per key is inside the wrapped function (cached mode, i.e. `maxsize ≠ 0`;
with `maxsize = 0` calls sit in `bypass`, which promises no caching at all). -/
theorem C20_single_flight {s : State} (h : Reach s) {c1 c2 : Nat}
    (h1 : inflight (s.pc c1)) (h2 : inflight (s.pc c2)) (hk : s.key c1 = s.key c2) : c1 = c2 := by
  have hi := C20_invariant h
  have e1 := hi.computing_entry c1 h1
  have e2 := hi.computing_entry c2 h2
  rw [hk, e2] at e1
  simp only [Option.some.injEq, Entry.placeholder.injEq] at e1
  have o1 := hi.owning_owner c1 (by unfold inflight at h1; unfold owning; grind)
  have o2 := hi.owning_owner c2 (by unfold inflight at h2; unfold owning; grind)
  rw [← e1, o2] at o1
  exact (Option.some.inj o1).symm

/-- While a call computes, the dict holds *its* placeholder under its key: nobody evicts,
replaces or overwrites the entry of a computation in flight (the F3 signature). -/
theorem C20_inflight_placeholder {s : State} (h : Reach s) {c : Nat} (hc : inflight (s.pc c)) :
    dget (s.key c) s.dict = some (.placeholder (s.lk c)) ∧ s.owner (s.lk c) = some c :=
  ⟨(C20_invariant h).computing_entry c hc,
   (C20_invariant h).owning_owner c (by unfold inflight at hc; unfold owning; grind)⟩

/-- Retained completed results never exceed `maxsize`, at every segment boundary, and
`cache_info().currsize` is exactly their number. -/
theorem C20_bound {s : State} (h : Reach s) :
    s.currsize = ncompleted s.dict ∧ ∀ m, s.cfg.maxsize = some m → ncompleted s.dict ≤ m :=
  ⟨(C20_invariant h).currsize_eq, (C20_invariant h).bound⟩

/-- A call only ever queues on a lock created for its own key; everybody else on that lock has
the same key, and the lock is held by a live call for that key (which is computing or about to
run): calls for different keys never wait for one another. -/
theorem C20_independent_keys {s : State} (h : Reach s) {c : Nat} (hw : s.pc c = .waiting) :
    s.lockKey (s.lk c) = s.key c ∧
    (∀ u b, (u, b) ∈ s.waiters (s.lk c) → s.key u = s.key c) ∧
    ∃ u, s.owner (s.lk c) = some u ∧ s.key u = s.key c ∧ owning (s.pc u) := by
  have hi := C20_invariant h
  have hc := hi.lock_key c (by simp [lockpc, hw])
  refine ⟨hc.1, ?_, ?_⟩
  · intro u b hm
    have hu := hi.waiter_pc _ u b hm
    have := hi.lock_key u (by unfold lockpc; grind)
    rw [hu.1] at this
    rw [← this.1, hc.1]
  · have hq := hi.waiting_queued c hw
    cases ho : s.owner (s.lk c) with
    | none => rw [hi.free_no_waiters _ ho] at hq; simp at hq
    | some u =>
      rcases hi.owner_owning _ u ho with hx | hx
      · simp at hx
      · have := hi.lock_key u (Or.inl hx.2)
        rw [hx.1] at this
        exact ⟨u, rfl, by rw [← this.1, hc.1], hx.2⟩

/-- No internal error ever reaches a caller: every `move_to_end` finds its key, `Lock.acquire`
is never re-entered by the owner, every `Lock.release` is done by the owner. -/
theorem C20_no_internal_error {s s' : State} {e : Ev} {o : Out} (h : Reach s)
    (hs : step s e = some (s', o)) : o ≠ .internalError := by
  intro ho
  rcases step_spec (C20_invariant h) hs with h1 | ⟨_, _, h1, _⟩ | ⟨_, _, h1, _⟩ | ⟨_, _, _, h1, _⟩
  · rcases h1 with h1 | h1 | h1 <;> simp [ho] at h1
  all_goals simp [ho] at h1

/-- ... and the eviction loop finds an entry whenever the cache is over capacity: the lookup
`firstCompleted` of `storeStep` cannot come back empty-handed. -/
theorem C20_no_internal_error_evict {s : State} (h : Reach s) {c : Nat} {v : Val} {m : Nat}
    (hc : s.pc c = .computing) (hm : s.cfg.maxsize = some m) (hover : m < s.currsize + 1) :
    ∃ k', firstCompleted (storedDict s c v) = some k' := by
  have hi := C20_invariant h
  cases hf : firstCompleted (storedDict s c v) with
  | some k' => exact ⟨k', rfl⟩
  | none =>
    have := firstCompleted_none hf
    have h2 := ncompleted_storedDict hi hc v
    omega

/-- A returned value is the wrapped function's result for an equal key. -/
theorem C20_value {s s' : State} {e : Ev} {v : Val} (h : Reach s)
    (hs : step s e = some (s', .ret v)) :
    ∃ c, e.task = some c ∧ (s'.key c, v) ∈ s'.produced := by
  have hi := C20_invariant h
  have hi' := C20_invariant (Reachable.next h hs)
  rcases step_spec hi hs with h1 | ⟨_, _, h1, _⟩ | ⟨_, _, h1, _⟩ | ⟨c, w, ht, h1, hw⟩
  · rcases h1 with h1 | h1 | h1 <;> simp at h1
  · simp at h1
  · simp at h1
  · simp only [Out.ret.injEq] at h1; subst h1
    refine ⟨c, ht, ?_⟩
    rcases hw with hw | ⟨he, hpc, hv⟩ | ⟨x, hg, _, _⟩
    · subst hw
      simp only [step] at hs
      split at hs
      · cases hs; simp
      · rename_i hpc
        simp only [Option.some.injEq] at hs
        have := store_out hi hpc v
        rw [hs] at this
        simp only at this
        rw [this.2.1]; exact this.2.2
      · contradiction
    · subst he
      have := hi.hv_produced c (Or.inl hpc)
      simp only [step, hpc, Option.some.injEq, Prod.mk.injEq] at hs
      rw [← hs.1, hv]; exact this
    · have hp := (hi.value_last _ _ _ hg).2
      exact produced_mono hs hp

/-- A value served from the cache is the entry currently retained under the call's key, which is
the result of the most recent successful execution for that key; on the lookup at the top of the
call (first segment or restart) it is moreover unexpired.  Evicted or expired entries are not in
the dict any more, so they can never be served. -/
theorem C20_value_hit {s s' : State} {e : Ev} {v : Val} {c : Nat} (h : Reach s)
    (hs : step s e = some (s', .ret v)) (ht : e.task = some c)
    (hown : e ≠ .wrappedReturns c v) (hnow : s.pc c ≠ .hitYield) :
    ∃ x, dget (s'.key c) s.dict = some (.value v x) ∧ s.last (s'.key c) = some v ∧
      (fastPath s e c → expired x s.now = false) := by
  have hi := C20_invariant h
  rcases step_spec hi hs with h1 | ⟨_, _, h1, _⟩ | ⟨_, _, h1, _⟩ | ⟨c', w, ht', h1, hw⟩
  · rcases h1 with h1 | h1 | h1 <;> simp at h1
  · simp at h1
  · simp at h1
  · simp only [Out.ret.injEq] at h1; subst h1
    rw [ht] at ht'; simp only [Option.some.injEq] at ht'; subst ht'
    rcases hw with hw | ⟨_, hpc, _⟩ | ⟨x, hg, hx, _⟩
    · exact absurd hw hown
    · exact absurd hpc hnow
    · exact ⟨x, hg, (hi.value_last _ _ _ hg).1, hx⟩

/-- `always_checkpoint`: the value a call carries through its `checkpoint()` was, when the hit
was counted, the retained and unexpired entry of its key. -/
theorem C20_value_checkpoint_hit {s s' : State} {e : Ev} {o : Out} {c : Nat} (h : Reach s)
    (hs : step s e = some (s', o)) (h0 : s.pc c ≠ .hitYield ∧ s.pc c ≠ .hitYieldMC)
    (h1 : s'.pc c = .hitYield) :
    ∃ x, dget (s'.key c) s.dict = some (.value (s'.hv c) x) ∧ expired x s.now = false ∧
      s.last (s'.key c) = some (s'.hv c) :=
  hitYield_origin (C20_invariant h) hs h0 h1

/-- LRU: a completed entry leaves the dict only (a) because a call for *its own key* found it
expired and replaced it by a placeholder, or (b) because a computation finished while the cache
was full and the entry was the least recently used completed one (the first completed entry in
the recency-ordered dict; everything in front of it is an in-flight placeholder). -/
theorem C20_lru {s s' : State} {e : Ev} {o : Out} (h : Reach s)
    (hs : step s e = some (s', o)) {k : Key} {v : Val} {x : Option Nat}
    (hk : dget k s.dict = some (.value v x)) :
    dget k s'.dict = some (.value v x) ∨
    (∃ c, fastPath s e c ∧ s'.key c = k ∧ expired x s.now = true ∧
      ∃ L, dget k s'.dict = some (.placeholder L)) ∨
    (∃ c w m, e = .wrappedReturns c w ∧ s.pc c = .computing ∧ s.cfg.maxsize = some m ∧
      m < s.currsize + 1 ∧ dget k s'.dict = none ∧ firstCompleted s.dict = some k) :=
  dict_change (C20_invariant h) hs hk

/-- ... and a use (hit or store) makes the key the most recently used one without disturbing the
relative order of the others (`move_to_end`), so the dict order *is* the recency order. -/
theorem C20_lru_order (k : Key) (d d' : Dict) (hm : moveToEnd? k d = some d') :
    ∃ e, dget k d = some e ∧ d' = ddel k d ++ [(k, e)] := moveToEnd?_some hm

/-- Exceptions: a call raises the wrapped function's exception exactly when its *own* execution
raised (then the placeholder stays, `currsize` and the counters are untouched); it raises the
cancellation exception only if a cancellation was delivered to it; nothing else is ever raised
(`C20_no_internal_error`). -/
theorem C20_exceptions {s s' : State} {e : Ev} {o : Out} (h : Reach s)
    (hs : step s e = some (s', o)) :
    (o = .raised → ∃ c, e = .wrappedRaises c ∧ (s.pc c = .computing ∨ s.pc c = .bypass) ∧
      s'.dict = s.dict ∧ s'.currsize = s.currsize ∧ s'.hits = s.hits ∧ s'.misses = s.misses) ∧
    (o = .cancelled → ∃ c, e = .step c ∧ cancelPending (s.pc c)) ∧
    (∀ c, e = .wrappedRaises c → o = .raised) := by
  have hi := C20_invariant h
  refine ⟨?_, ?_, ?_⟩
  · intro ho
    rcases step_spec hi hs with h1 | h1 | ⟨_, _, h1, _⟩ | ⟨_, _, _, h1, _⟩
    · rcases h1 with h1 | h1 | h1 <;> simp [ho] at h1
    · obtain ⟨c, he, _, hr⟩ := h1; exact ⟨c, he, hr⟩
    · simp [ho] at h1
    · simp [ho] at h1
  · intro ho
    rcases step_spec hi hs with h1 | ⟨_, _, h1, _⟩ | h1 | ⟨_, _, _, h1, _⟩
    · rcases h1 with h1 | h1 | h1 <;> simp [ho] at h1
    · simp [ho] at h1
    · obtain ⟨c, he, _, hr⟩ := h1; exact ⟨c, he, hr⟩
    · simp [ho] at h1
  · intro c he
    subst he
    simp only [step] at hs
    split at hs
    · cases hs; rfl
    · rename_i hpc
      simp only [Option.some.injEq] at hs
      have ha := abort_out hi (c := c) (by simp [owning, hpc]) .raised
      rw [hs] at ha; exact ha.1
    · contradiction

/-- A failed execution hands the lock to the next live waiter, which will run the function
itself: a queued caller is never failed on behalf of somebody else's execution (history B). -/
theorem C20_failure_passes_lock {s s' : State} {c : Nat} {o : Out} (h : Reach s)
    (hs : step s (.wrappedRaises c) = some (s', o)) (hc : s.pc c = .computing) :
    s' = rel { s with pc := upd s.pc c .idle } (s.lk c) := by
  have ho := (C20_invariant h).owning_owner c (by simp [owning, hc])
  simp only [step, hc, abortStep, ho, ne_eq, not_true_eq_false, if_false, Option.some.injEq,
    Prod.mk.injEq] at hs
  exact hs.1.symm

/-! ### non-vacuity: the three F3 histories, and ttl / always_checkpoint runs -/

def cfg1 : Cfg := { maxsize := some 1, ttl := none, ac := false }

def view (s : State) :=
  (s.dict, s.hits, s.misses, s.currsize)

/-- A: f(1) in flight while f(2) completes with maxsize = 1: the placeholder of key 1 survives,
then key 1's completion evicts key 2 (the least recently used *completed* entry) -/
example :
    (runFrom step (init cfg1)
      [.call 0 1 false, .call 1 2 false, .wrappedReturns 1 20]).map view =
    some ([(1, .placeholder 0), (2, .value 20 none)], 0, 2, 1) := by decide

example :
    (runFrom step (init cfg1)
      [.call 0 1 false, .call 1 2 false, .wrappedReturns 1 20, .wrappedReturns 0 10]).map view =
    some ([(1, .value 10 none)], 0, 2, 1) := by decide

/-- B: a waiter queued on key 1's lock while f(1) fails (f(2) in flight): the waiter is granted
the lock, finds the placeholder still there and computes itself -/
example :
    (traceFrom step (init cfg1)
      [.call 0 1 false, .call 1 1 false, .call 2 2 false, .wrappedRaises 0, .step 1,
       .wrappedReturns 1 11]).map (fun r => (view r.1, r.2)) =
    some (([(2, .placeholder 1), (1, .value 11 none)], 0, 3, 1),
      [.susp, .susp, .susp, .raised, .susp, .ret 11]) := by decide

/-- C: f(1) called again while in flight: the second caller queues (no second execution); when
the result was evicted before it runs, it starts over -/
example :
    (traceFrom step (init cfg1)
      [.call 0 1 false, .call 1 2 false, .call 2 1 false, .wrappedReturns 0 10,
       .wrappedReturns 1 20, .step 2, .step 2]).map (fun r => (view r.1, r.2)) =
    some (([(2, .value 20 none), (1, .placeholder 2)], 0, 3, 1),
      [.susp, .susp, .susp, .ret 10, .ret 20, .cont, .susp]) := by decide

example :
    (runFrom step (init cfg1)
      [.call 0 1 false, .call 1 2 false, .call 2 1 false, .wrappedReturns 0 10,
       .wrappedReturns 1 20, .step 2, .step 2]).map (fun s => (s.pc 2, s.pc 0, s.pc 1)) =
    some (.computing, .idle, .idle) := by decide

/-- ttl: an expired entry is replaced by a placeholder and recomputed; always_checkpoint: a hit
suspends once -/
example :
    (traceFrom step (init { maxsize := some 2, ttl := some 3, ac := true })
      [.call 0 1 false, .step 0, .wrappedReturns 0 10, .tick 2, .call 1 1 false, .step 1, .tick 1,
       .call 2 1 false, .step 2]).map (fun r => (view r.1, r.2)) =
    some (([(1, .placeholder 1)], 1, 2, 0),
      [.susp, .susp, .ret 10, .env, .susp, .ret 10, .env, .susp, .susp]) := by decide

end AnyioModel.Cache.Lru
