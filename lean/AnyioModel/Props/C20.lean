import AnyioModel.Cache.Lru
