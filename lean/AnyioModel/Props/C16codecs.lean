/-
C16, text streams: the round-trip hypothesis of `C16_text_roundtrip` (Props/C16.lean)
discharged for the remaining codecs of `Stream/TextCodecs`: latin-1, UTF-16 and UTF-32, each of
the wide ones in its three variants `le = some true` (…-le), `some false` (…-be) and `none`
(the BOM-writing encoder / BOM-detecting decoder, "utf-16" / "utf-32" of CPython on a
little-endian machine).

Property theorems only; lemmas in `Stream/TextCodecProofs.lean` (shared facts, latin-1, UTF-16:
BMP = one code unit, supplementary planes = surrogate pair) and `Stream/TextCodecProofs32.lean`.

What the model's BOM-writing encoder does (`wideEncoder`, as CPython): the mark is written by
the FIRST `encode` call, also when that call's string is empty, and never again.  Hence the
transport carries the BOM iff at least one item was sent (`C16_text_wire_utf16/32`); with no item
at all nothing is sent and the detecting decoder ends still waiting for a BOM, with nothing
pending.  The detecting decoder strips only that first mark: a text that itself starts with
U+FEFF comes back unchanged (covered by the theorems - items are arbitrary - and by an example).

Every statement is for ALL lists of items (any Unicode scalar values) and ALL chunkings `cs`
of the transport bytes (chunk borders inside the BOM, inside a code unit, between the two
surrogates; empty chunks).
-/
import AnyioModel.Props.C16
import AnyioModel.Stream.TextCodecProofs32

namespace AnyioModel.Props.C16

section TextCodecs
open AnyioModel.Stream.Text

/-- latin-1: if every character of every item is below U+0100, sending never fails and
receiving the transport bytes over any re-chunking is the identity on the text. -/
theorem C16_text_roundtrip_latin1 (items : List (List Char))
    (hlat : ∀ s ∈ items, ∀ c ∈ s, c.toNat < 256) (cs : List (List Byte))
    (hcs : cs.flatten = (sendAll latin1Encoder latin1Encoder.init items).1.flatten) :
    (sendAll latin1Encoder latin1Encoder.init items).2 = none ∧
    ∃ outs, receiveAll latin1Decoder cs = (outs, .eos) ∧ outs.flatten = items.flatten ∧
      ∀ o ∈ outs, o ≠ [] := by
  have hs := latin1_sendAll items hlat
  refine ⟨by rw [show latin1Encoder.init = () from rfl, hs], ?_⟩
  refine C16_text_roundtrip latin1Encoder latin1Decoder items _ hs ⟨(), ?_⟩ cs
    (by rw [hcs, show latin1Encoder.init = () from rfl, hs])
  have : (items.map (fun s => s.map (fun c => UInt8.ofNat c.toNat))).flatten =
      items.flatten.map (fun c => UInt8.ofNat c.toNat) := by
    simp [List.map_flatten]
  rw [this]
  exact latin1_decode_encode _ (by
    intro c hc
    obtain ⟨s, hs, hcs⟩ := List.mem_flatten.1 hc
    exact hlat s hs c hcs)

/-- latin-1 is partial: an item with a character ≥ U+0100 is a `UnicodeEncodeError` (nothing of
that item is sent), so the side condition of `C16_text_roundtrip_latin1` is necessary. -/
theorem C16_text_latin1_encode_error (st : Unit) (s : List Char) (c : Char) (hc : c ∈ s)
    (hbig : 256 ≤ c.toNat) (items : List (List Char)) :
    sendAll latin1Encoder st (s :: items) = ([], some .encode) := by
  have : (s.all fun c => decide (c.toNat < 256)) = false := by
    rw [List.all_eq_false]
    exact ⟨c, hc, by simpa using hbig⟩
  simp only [sendAll, latin1Encoder, this, Bool.false_eq_true, if_false]

/-- what the UTF-16 `TextSendStream` puts on the transport: no item ever fails to encode; the
bytes are the per-character encodings in order, preceded - for the BOM-writing variant
`le = none`, and only if at least one item (possibly empty) was sent - by exactly one `FF FE`. -/
theorem C16_text_wire_utf16 (le : Option Bool) (items : List (List Char)) :
    (sendAll (utf16Encoder le) (utf16Encoder le).init items).2 = none ∧
    (sendAll (utf16Encoder le) (utf16Encoder le).init items).1.flatten =
      (if le = none ∧ items ≠ [] then [0xFF, 0xFE] else []) ++
        items.flatten.flatMap (utf16EncodeChar (le.getD true)) := by
  have h := sendAll_wide utf16EncodeChar [0xFF, 0xFE] (le.getD true) le.isNone items
  cases le <;> simpa [utf16Encoder, wideEncoder] using h

/-- the same for UTF-32 (`FF FE 00 00`) -/
theorem C16_text_wire_utf32 (le : Option Bool) (items : List (List Char)) :
    (sendAll (utf32Encoder le) (utf32Encoder le).init items).2 = none ∧
    (sendAll (utf32Encoder le) (utf32Encoder le).init items).1.flatten =
      (if le = none ∧ items ≠ [] then [0xFF, 0xFE, 0, 0] else []) ++
        items.flatten.flatMap (utf32EncodeChar (le.getD true)) := by
  have h := sendAll_wide utf32EncodeChar [0xFF, 0xFE, 0, 0] (le.getD true) le.isNone items
  cases le <;> simpa [utf32Encoder, wideEncoder] using h

/-- the codec round trip for UTF-16, on the unchunked transport bytes: they decode to the text
sent, and the decoder ends with no pending byte, in byte order `le` - except when
`le = none` and nothing at all was sent: then it is still waiting for a BOM -/
theorem C16_text_codec_utf16 (le : Option Bool) (items : List (List Char)) :
    (utf16Decoder le).decode (utf16Decoder le).init
        (sendAll (utf16Encoder le) (utf16Encoder le).init items).1.flatten =
      some (⟨[], if items = [] then le else some (le.getD true)⟩, items.flatten) := by
  rw [(C16_text_wire_utf16 le items).2]
  cases le with
  | some b =>
    simp only [reduceCtorEq, false_and, if_false, List.nil_append, Option.getD_some, ite_self]
    exact utf16_decode_encode b (some b) _
  | none =>
    by_cases hi : items = []
    · subst hi; rfl
    · simp only [true_and, ne_eq, hi, not_false_eq_true, if_true, if_false, Option.getD_none]
      have := (utf16Decoder none).decode_append_some (utf16_decode_bom none)
        (utf16_decode_encode true none items.flatten)
      exact this

theorem C16_text_codec_utf32 (le : Option Bool) (items : List (List Char)) :
    (utf32Decoder le).decode (utf32Decoder le).init
        (sendAll (utf32Encoder le) (utf32Encoder le).init items).1.flatten =
      some (⟨[], if items = [] then le else some (le.getD true)⟩, items.flatten) := by
  rw [(C16_text_wire_utf32 le items).2]
  cases le with
  | some b =>
    simp only [reduceCtorEq, false_and, if_false, List.nil_append, Option.getD_some, ite_self]
    exact utf32_decode_encode b (some b) _
  | none =>
    by_cases hi : items = []
    · subst hi; rfl
    · simp only [true_and, ne_eq, hi, not_false_eq_true, if_true, if_false, Option.getD_none]
      have := (utf32Decoder none).decode_append_some (utf32_decode_bom none)
        (utf32_decode_encode true none items.flatten)
      exact this

/-- UTF-16, all three variants (`le = some true`: utf-16-le, `some false`: utf-16-be, `none`:
utf-16 with BOM): sending any list of strings - any Unicode scalar values, characters outside
the BMP go as surrogate pairs - through `TextSendStream` never fails; feeding the transport
bytes in ANY chunking `cs` to the incremental decoder yields exactly the concatenated
characters and ends with no pending byte; and `TextReceiveStream` over `cs` returns non-empty
strings concatenating to the text sent, then `EndOfStream`. -/
theorem C16_text_roundtrip_utf16 (le : Option Bool) (items : List (List Char))
    (cs : List (List Byte))
    (hcs : cs.flatten = (sendAll (utf16Encoder le) (utf16Encoder le).init items).1.flatten) :
    (sendAll (utf16Encoder le) (utf16Encoder le).init items).2 = none ∧
    (∃ sf, (utf16Decoder le).decode (utf16Decoder le).init cs.flatten =
      some (sf, items.flatten) ∧ sf.pend = []) ∧
    ∃ outs, receiveAll (utf16Decoder le) cs = (outs, .eos) ∧ outs.flatten = items.flatten ∧
      ∀ o ∈ outs, o ≠ [] := by
  have hd := C16_text_codec_utf16 le items
  refine ⟨(C16_text_wire_utf16 le items).1, ⟨_, by rw [hcs]; exact hd, rfl⟩, ?_⟩
  exact C16_text_roundtrip (utf16Encoder le) (utf16Decoder le) items _
    (Prod.ext rfl (C16_text_wire_utf16 le items).1) ⟨_, hd⟩ cs hcs

/-- UTF-32, all three variants: as `C16_text_roundtrip_utf16`. -/
theorem C16_text_roundtrip_utf32 (le : Option Bool) (items : List (List Char))
    (cs : List (List Byte))
    (hcs : cs.flatten = (sendAll (utf32Encoder le) (utf32Encoder le).init items).1.flatten) :
    (sendAll (utf32Encoder le) (utf32Encoder le).init items).2 = none ∧
    (∃ sf, (utf32Decoder le).decode (utf32Decoder le).init cs.flatten =
      some (sf, items.flatten) ∧ sf.pend = []) ∧
    ∃ outs, receiveAll (utf32Decoder le) cs = (outs, .eos) ∧ outs.flatten = items.flatten ∧
      ∀ o ∈ outs, o ≠ [] := by
  have hd := C16_text_codec_utf32 le items
  refine ⟨(C16_text_wire_utf32 le items).1, ⟨_, by rw [hcs]; exact hd, rfl⟩, ?_⟩
  exact C16_text_roundtrip (utf32Encoder le) (utf32Decoder le) items _
    (Prod.ext rfl (C16_text_wire_utf32 le items).1) ⟨_, hd⟩ cs hcs

/-- The BOM-detecting decoders also read the other byte order (a big-endian sender that wrote
`FE FF`, resp. `00 00 FE FF`, itself): the mark selects the byte order and is not part of the
text. -/
theorem C16_text_bom_selects_order (s : List Char) :
    (utf16Decoder none).decode (utf16Decoder none).init
        ([0xFE, 0xFF] ++ s.flatMap (utf16EncodeChar false)) = some (⟨[], some false⟩, s) ∧
    (utf32Decoder none).decode (utf32Decoder none).init
        ([0, 0, 0xFE, 0xFF] ++ s.flatMap (utf32EncodeChar false)) = some (⟨[], some false⟩, s) := by
  constructor
  · have := (utf16Decoder none).decode_append_some (utf16_decode_bom_be none)
      (utf16_decode_encode false none s)
    exact this
  · have := (utf32Decoder none).decode_append_some (utf32_decode_bom_be none)
      (utf32_decode_encode false none s)
    exact this

/-! ### non-vacuity -/

/-- "a😀b" (U+1F600 = D83D DE00) in utf-16 with BOM, delivered one byte per chunk: the surrogate
pair is split over four chunks; four receives return one character each... -/
example :
    (sendAll (utf16Encoder none) (utf16Encoder none).init [['a', Char.ofNat 0x1F600, 'b']]).1 =
      [[0xFF, 0xFE, 0x61, 0x00, 0x3D, 0xD8, 0x00, 0xDE, 0x62, 0x00]] ∧
    receiveAll (utf16Decoder none)
      [[0xFF], [0xFE], [0x61], [0x00], [0x3D], [0xD8], [0x00], [0xDE], [0x62], [0x00]] =
      ([['a'], [Char.ofNat 0x1F600], ['b']], .eos) := by decide

/-- ... and big endian without BOM, chunk border between the two surrogates -/
example :
    (sendAll (utf16Encoder (some false)) (utf16Encoder (some false)).init
      [['a', Char.ofNat 0x1F600], ['b']]).1 = [[0x00, 0x61, 0xD8, 0x3D, 0xDE, 0x00], [0x00, 0x62]] ∧
    receiveAll (utf16Decoder (some false)) [[0x00, 0x61, 0xD8, 0x3D], [], [0xDE], [0x00, 0x00, 0x62]] =
      ([['a'], [Char.ofNat 0x1F600, 'b']], .eos) := by decide

/-- a text that itself starts with U+FEFF: only the encoder's mark is stripped (CPython's
`utf-16` incremental decoder does the same); with an explicit byte order nothing is stripped -/
example :
    (sendAll (utf16Encoder none) (utf16Encoder none).init [[Char.ofNat 0xFEFF, 'a']]).1 =
      [[0xFF, 0xFE, 0xFF, 0xFE, 0x61, 0x00]] ∧
    receiveAll (utf16Decoder none) [[0xFF, 0xFE, 0xFF], [0xFE, 0x61, 0x00]] =
      ([[Char.ofNat 0xFEFF, 'a']], .eos) ∧
    receiveAll (utf16Decoder (some true)) [[0xFF, 0xFE, 0x61, 0x00]] =
      ([[Char.ofNat 0xFEFF, 'a']], .eos) := by decide

/-- the mark is written by the first `encode` call even for an empty string, and once -/
example : (sendAll (utf16Encoder none) (utf16Encoder none).init [[], ['a'], []]).1 =
    [[0xFF, 0xFE], [0x61, 0x00], []] ∧
    (sendAll (utf32Encoder none) (utf32Encoder none).init [[], ['a']]).1 =
    [[0xFF, 0xFE, 0, 0], [0x61, 0, 0, 0]] := by decide

/-- UTF-32 with BOM, U+1F600 = 00 F6 01 00 little endian, one byte per chunk -/
example :
    (sendAll (utf32Encoder none) (utf32Encoder none).init [[Char.ofNat 0x1F600]]).1 =
      [[0xFF, 0xFE, 0, 0, 0x00, 0xF6, 0x01, 0x00]] ∧
    receiveAll (utf32Decoder none) [[0xFF], [0xFE], [0], [0], [0x00], [0xF6], [0x01], [0x00]] =
      ([[Char.ofNat 0x1F600]], .eos) ∧
    receiveAll (utf32Decoder (some false)) [[0x00, 0x01], [0xF6, 0x00]] =
      ([[Char.ofNat 0x1F600]], .eos) := by decide

/-- latin-1: "é" is one byte; U+0100 does not encode -/
example : (sendAll latin1Encoder latin1Encoder.init [[Char.ofNat 0xE9], ['x']]).1 = [[0xE9], [0x78]] ∧
    receiveAll latin1Decoder [[0xE9, 0x78]] = ([[Char.ofNat 0xE9, 'x']], .eos) ∧
    sendAll latin1Encoder latin1Encoder.init [[Char.ofNat 0x100]] = ([], some .encode) := by decide

/-- the round-trip statements do not hold for arbitrary bytes: a lone low surrogate, and a
stream without BOM for the detecting decoder, are decode errors -/
example : (receiveAll (utf16Decoder (some true)) [[0x00, 0xDC]]).2 = .decode ∧
    (receiveAll (utf16Decoder none) [[0x61, 0x00]]).2 = .decode ∧
    (receiveAll (utf32Decoder (some true)) [[0x00, 0xD8, 0x00, 0x00]]).2 = .decode := by decide

end TextCodecs

end AnyioModel.Props.C16
