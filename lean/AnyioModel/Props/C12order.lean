/-
C12_order at full strength: clause (d) of the DESIGN statement (per-sender order), which
`Props/C12.lean` left open (`C12_order_partial`), and the conjunction (a) ∧ (b) ∧ (c) ∧ (d).

Property theorems only.  Model: `AnyioModel.Stream.Memory`.  Invariant `OrdInv` and its
preservation: `Stream/MemoryOrder.lean` (list level: the three ghost micro-transitions
offer / enter / quiet) and `Stream/MemoryOrderStep.lean` (every `step` is a composition of
them).  All statements quantify over every reachable state = every finite event list: any
buffer size, any number of tasks and clones, blocking and `*_nowait` calls, cancellations at
every segment boundary (`fc`, `mc`), closing.

"Offered by `t`" for an item id `x` is `(t, x) ∈ s.offered`; ids are offered once
(`C12_order_aux`), so every item has exactly one offering task.  The offer sequence of `t` is
`(s.offered.filter (·.1 = t)).map (·.2)`; it contains every item of every `send` /
`send_nowait` call of `t`, including calls that raised (WouldBlock, Closed/BrokenResourceError,
cancellation) -- whence "sublist" and not "prefix".
-/
import AnyioModel.Props.C12
import AnyioModel.Stream.MemoryOrderStep

namespace AnyioModel.Stream.Memory

/-- (d) For every task `t` the items offered by `t` enter the stream (buffer or direct hand-over
to a waiting receiver) in the order `t` offered them. -/
theorem C12_order_entry {s : State} (h : Reach s) (t : Nat) :
    (s.entered.filter (fun x => decide ((t, x) ∈ s.offered))).Sublist
      ((s.offered.filter (·.1 = t)).map (·.2)) :=
  (ordInv_reach h).sub t

/-- Per-sender delivery order ((a) + (d)).  For every task `t`: the items offered by `t` that
have left the stream towards receivers so far (`handed`, in hand-over order), followed by the
items of `t` that are still in the buffer (in buffer order, i.e. the order in which they will
be handed over), appear in the order `t` offered them.  In particular each of the two parts
does. -/
theorem C12_order_per_sender {s : State} (h : Reach s) (t : Nat) :
    ((s.handed.filter (fun x => decide ((t, x) ∈ s.offered))) ++
      (s.buffer.filter (fun x => decide ((t, x) ∈ s.offered)))).Sublist
      ((s.offered.filter (·.1 = t)).map (·.2)) ∧
    (s.handed.filter (fun x => decide ((t, x) ∈ s.offered))).Sublist
      ((s.offered.filter (·.1 = t)).map (·.2)) ∧
    (s.buffer.filter (fun x => decide ((t, x) ∈ s.offered))).Sublist
      ((s.offered.filter (·.1 = t)).map (·.2)) := by
  have hd := C12_order_entry h t
  rw [C12_order_fifo h, List.filter_append] at hd
  exact ⟨hd, (List.sublist_append_left _ _).trans hd, (List.sublist_append_right _ _).trans hd⟩

/-- Facts behind (d), useful on their own: an item enters the stream at most once; an item id
is offered at most once (one owner per item); every item that entered was offered; and an item
in flight -- argument of a `send` of `t` that is still in its checkpoint, or `t`'s entry in
`waiting_senders` -- is the last item `t` offered (a task has one send call at a time, and a
cancelled or woken sender's queue entry is gone before the task can call again). -/
theorem C12_order_aux {s : State} (h : Reach s) :
    s.entered.Nodup ∧ (s.offered.map (·.2)).Nodup ∧
    (∀ x, x ∈ s.entered → ∃ t, (t, x) ∈ s.offered) ∧
    (∀ t x, ((∃ h pre, s.pc t = .sendChk h x pre) ∨ s.pc t = .sendChkMC x ∨
        (∃ b, (t, x, b) ∈ s.waitingSenders)) →
      ∃ l, (s.offered.filter (·.1 = t)).map (·.2) = l ++ [x]) := by
  have ho := ordInv_reach h
  have hg := invG_reach h
  refine ⟨ho.ent_nodup, ho.off_nodup, fun x hx => ?_, fun t x hp => ?_⟩
  · have h1 := ho.ent_loc x hx
    have h2 : s.loc x ≠ .fresh := by
      intro e; simp only [State.gh] at h1; rw [e] at h1; simp at h1
    have h3 := mt (hg.fresh_iff x).mpr h2
    simpa using h3
  · apply ho.pend_last t x
    rcases hp with ⟨h', pre, hp⟩ | hp | ⟨b, hm⟩
    · exact Or.inl (hg.chk_a t h' x pre hp)
    · exact Or.inl (hg.chk_b t x hp)
    · exact Or.inr (hg.queued_a t x b hm)

/-- C12_order, full statement (DESIGN section 5), in every reachable state `s`:
(a) the stream is FIFO: what entered = what was handed to receivers ++ the buffer;
(b) blocked receivers are served in the order they started waiting (`send_nowait` on `s`);
(c) blocked senders are served in the order they started waiting (`receive_nowait` on `s`);
(d) for every task the items it offered enter the stream in the order it offered them;
and, from (a) and (d), they are handed to receivers in that order. -/
theorem C12_order {s : State} (hr : Reach s) :
    -- (a)
    s.entered = s.handed ++ s.buffer ∧
    -- (b)
    (∀ h x P,
      (∃ d u rest, s.waitingReceivers = d ++ u :: rest ∧
        (∀ v ∈ d, s.pc v = .recvWaitFC ∨ v ∈ P) ∧ s.pc u ≠ .recvWaitFC ∧ u ∉ P ∧
        (sendCore s h x P).1.pc u = .recvWoken (some x) ∧
        (sendCore s h x P).1.waitingReceivers = rest ∧ (sendCore s h x P).2 = .done ∧
        ∀ v, v ≠ u → (sendCore s h x P).1.pc v = orphanize d s.pc v) ∨
      (∀ v sl, (sendCore s h x P).1.pc v = .recvWoken sl → s.pc v = .recvWoken sl)) ∧
    -- (c)
    (∀ h,
      ((recvCore s h).1.entered = s.entered ∧ (recvCore s h).1.waitingSenders = s.waitingSenders) ∨
      (∃ u x b rest, s.waitingSenders = (u, x, b) :: rest ∧
        (recvCore s h).1.entered = s.entered ++ [x] ∧ (recvCore s h).1.waitingSenders = rest)) ∧
    -- (d)
    (∀ t, (s.entered.filter (fun x => decide ((t, x) ∈ s.offered))).Sublist
      ((s.offered.filter (·.1 = t)).map (·.2))) ∧
    -- (a) + (d): per-sender delivery order
    (∀ t, (s.handed.filter (fun x => decide ((t, x) ∈ s.offered))).Sublist
      ((s.offered.filter (·.1 = t)).map (·.2))) :=
  ⟨C12_order_fifo hr, fun h x P => C12_order_blocked_receivers s h x P,
    fun h => C12_order_blocked_senders s h, fun t => C12_order_entry hr t,
    fun t => (C12_order_per_sender hr t).2.1⟩

/-! ### non-vacuity -/

/-- the event list of the two-sender example below -/
def twoSenders : List Ev :=
  [.send 0 0 1 false, .send 1 0 2 false, .step 1 [], .step 0 [], .sendNowait 1 0 3 [],
   .receiveNowait 2 0, .step 0 [], .send 0 0 4 false, .receiveNowait 2 0, .step 0 [],
   .receiveNowait 2 0, .sendNowait 1 0 5 []]

/-- buffer size 1, senders 0 and 1 interleave, receiver 2 uses `receive_nowait`:
task 0 offers 1 and task 1 offers 2 (both in their checkpoints); task 1 runs first, 2 is
buffered; task 0 finds the buffer full and blocks with 1; task 1's `send_nowait(3)` raises
WouldBlock (3 is offered, never enters); the receiver takes 2 and thereby pulls 1 into the
buffer; task 0 wakes up and offers 4; the receiver takes 1; 4 is buffered; the receiver takes
4; task 1's `send_nowait(5)` is buffered.
Entry order [2, 1, 4, 5] is not the global offer order [1, 2, 3, 4, 5], but per task it is:
task 0: [1, 4] of [1, 4]; task 1: [2, 5], a proper sublist of [2, 3, 5]. -/
example :
    (runFrom step (init (some 1)) twoSenders).map
      (fun s => (s.offered, s.entered, s.handed, s.buffer, s.rejected)) =
    some ([(0, 1), (1, 2), (1, 3), (0, 4), (1, 5)], [2, 1, 4, 5], [2, 1, 4], [5], [3]) := by decide

example :
    (runFrom step (init (some 1)) twoSenders).map
      (fun s => (s.entered.filter (fun x => decide ((0, x) ∈ s.offered)),
        (s.offered.filter (·.1 = 0)).map (·.2),
        s.entered.filter (fun x => decide ((1, x) ∈ s.offered)),
        (s.offered.filter (·.1 = 1)).map (·.2))) =
    some ([1, 4], [1, 4], [2, 5], [2, 3, 5]) := by decide

/-- a sender that is cancelled while queued and sends again: task 0 blocks with item 1
(size 0), its future is cancelled, the wake-up removes its queue entry (1 is rejected);
task 0 then blocks with item 2, which a `receive_nowait` pulls.  The cancelled item never
enters later: entered = [2]. -/
example :
    (runFrom step (init (some 0))
      [.send 0 0 1 false, .step 0 [], .fc 0, .step 0 [], .send 0 0 2 false, .step 0 [],
       .receiveNowait 1 0, .step 0 []]).map
      (fun s => (s.offered, s.entered, s.handed, s.rejected, s.accepted)) =
    some ([(0, 1), (0, 2)], [2], [2], [1], [2]) := by decide

/-- the theorems apply to every state produced by an event list -/
example (m : Option Nat) (es : List Ev) (s : State) (h : runFrom step (init m) es = some s)
    (t : Nat) :
    (s.handed.filter (fun x => decide ((t, x) ∈ s.offered))).Sublist
      ((s.offered.filter (·.1 = t)).map (·.2)) :=
  (C12_order_per_sender (reachable_of_runFrom (Reachable.start ⟨m, rfl⟩) es h) t).2.1

end AnyioModel.Stream.Memory
