/-
Generic labelled-transition-system plumbing shared by every model.

A model is `step : σ → ε → Option (σ × ω)`: `none` means "event not enabled in this
state", `ω` is what the API user observes (return / raise / suspended).  Theorems are
stated over `Reachable`, i.e. over *all* finite event lists, by `Reachable.induction`.
-/
namespace AnyioModel

/-- functional update of a finite map represented as a total function -/
def upd {α : Type} (f : Nat → α) (k : Nat) (v : α) : Nat → α :=
  fun i => if i = k then v else f i

@[simp, grind =] theorem upd_same {α} (f : Nat → α) (k : Nat) (v : α) : upd f k v k = v := by
  simp [upd]

@[simp, grind =] theorem upd_other {α} (f : Nat → α) (k i : Nat) (v : α) (h : i ≠ k) :
    upd f k v i = f i := by
  simp [upd, h]

theorem upd_apply {α} (f : Nat → α) (k i : Nat) (v : α) :
    upd f k v i = if i = k then v else f i := rfl

section
variable {σ ε ω : Type}

/-- run an event list; `none` as soon as one event is not enabled -/
def runFrom (step : σ → ε → Option (σ × ω)) : σ → List ε → Option σ
  | s, [] => some s
  | s, e :: es =>
    match step s e with
    | none => none
    | some (s', _) => runFrom step s' es

/-- same, collecting the observations -/
def traceFrom (step : σ → ε → Option (σ × ω)) : σ → List ε → Option (σ × List ω)
  | s, [] => some (s, [])
  | s, e :: es =>
    match step s e with
    | none => none
    | some (s', o) =>
      match traceFrom step s' es with
      | none => none
      | some (s'', os) => some (s'', o :: os)

/-- states reachable from an initial state satisfying `init` by some finite event list -/
inductive Reachable (init : σ → Prop) (step : σ → ε → Option (σ × ω)) : σ → Prop
  | start {s} : init s → Reachable init step s
  | next {s e s' o} : Reachable init step s → step s e = some (s', o) → Reachable init step s'

theorem Reachable.invariant {init : σ → Prop} {step : σ → ε → Option (σ × ω)}
    (Inv : σ → Prop) (h0 : ∀ s, init s → Inv s)
    (hstep : ∀ s e s' o, Inv s → step s e = some (s', o) → Inv s') :
    ∀ s, Reachable init step s → Inv s := by
  intro s h
  induction h with
  | start h => exact h0 _ h
  | next _ hs ih => exact hstep _ _ _ _ ih hs

theorem reachable_of_runFrom {init : σ → Prop} {step : σ → ε → Option (σ × ω)}
    {s0 s : σ} (h0 : Reachable init step s0) (es : List ε) (h : runFrom step s0 es = some s) :
    Reachable init step s := by
  induction es generalizing s0 with
  | nil => simp [runFrom] at h; exact h ▸ h0
  | cons e es ih =>
    simp only [runFrom] at h
    split at h
    · contradiction
    · rename_i s' o hs
      exact ih (Reachable.next h0 hs) h

theorem runFrom_of_reachable {init : σ → Prop} {step : σ → ε → Option (σ × ω)}
    {s : σ} (h : Reachable init step s) : ∃ s0 es, init s0 ∧ runFrom step s0 es = some s := by
  induction h with
  | start h => exact ⟨_, [], h, rfl⟩
  | @next s1 e s2 o _ hs ih =>
    obtain ⟨s0, es, hi, hr⟩ := ih
    refine ⟨s0, es ++ [e], hi, ?_⟩
    clear hi
    induction es generalizing s0 with
    | nil => simp [runFrom] at hr; subst hr; simp [runFrom, hs]
    | cons e es ih2 =>
      simp only [runFrom, List.cons_append] at hr ⊢
      split at hr
      · contradiction
      · rename_i s1 o1 h1
        exact ih2 _ hr

end
end AnyioModel
