/-
Every event of the `lru_cache` model preserves the invariant.
-/
import AnyioModel.Cache.LruStep

namespace AnyioModel.Cache.Lru

open AnyioModel.Sync.Lock (grant markCancelled removeWaiter grant_some grant_none
  mem_markCancelled map_fst_markCancelled mem_removeWaiter)

theorem inv_fc_wait {s : State} {c : Nat} (hi : Inv s) (hpc : s.pc c = .waiting) :
    Inv { s with waiters := upd s.waiters (s.lk c) (markCancelled c (s.waiters (s.lk c))),
                 pc := upd s.pc c .waitFC } := by
  obtain ⟨h1, h2, h3, h4, h5, h6, h7, h8, h9, h10, h11, h12, h13, h14⟩ := hi
  refine ⟨?_, ?_, ?_, ?_, ?_, ?_, h7, h8, ?_, h10, ?_, h12, h13, ?_⟩
  · intro L hL
    by_cases hLL : L = s.lk c
    · subst hLL; simp [markCancelled, h1 _ hL]
    · simp only [upd_apply, hLL, if_false]; exact h1 L hL
  · intro c'; simp only [owning, upd_apply] at *; grind
  · intro L c'; simp only [owning, upd_apply] at *; grind
  · intro L c' b hm
    by_cases hLL : L = s.lk c
    · subst hLL
      simp only [upd_same] at hm
      rcases mem_markCancelled.mp hm with ⟨rfl, rfl, _⟩ | ⟨hne, hm⟩
      · simp
      · simpa [upd_apply, hne] using h4 _ c' b hm
    · simp only [upd_apply, hLL, if_false] at hm
      have := h4 L c' b hm
      have hcc : c' ≠ c := by intro h; subst h; exact hLL this.1.symm
      simpa [upd_apply, hcc] using this
  · intro c' hc'
    have hcc : c' ≠ c := by intro h; subst h; simp at hc'
    simp only [upd_apply, hcc, if_false] at hc'
    have := h5 c' hc'
    by_cases hLL : s.lk c' = s.lk c
    · rw [hLL]; simp only [upd_same]; rw [hLL] at this
      exact mem_markCancelled.mpr (Or.inr ⟨hcc, this⟩)
    · simp only [upd_apply, hLL, if_false]; exact this
  · intro L
    by_cases hLL : L = s.lk c
    · subst hLL; simpa [map_fst_markCancelled] using h6 _
    · simp only [upd_apply, hLL, if_false]; exact h6 L
  · intro c'; simp only [upd_apply] at *; grind
  · intro c' hc'
    by_cases hcc : c' = c
    · subst hcc; exact h11 c' (by simp [lockpc, hpc])
    · simp only [upd_apply, hcc, if_false] at hc' ⊢; exact h11 c' hc'
  · intro c'; simp only [upd_apply] at *; grind

theorem inv_waitfc_step {s : State} {c : Nat} (hi : Inv s) (hpc : s.pc c = .waitFC) :
    Inv { s with waiters := upd s.waiters (s.lk c) (removeWaiter c (s.waiters (s.lk c))),
                 pc := upd s.pc c .idle } := by
  obtain ⟨h1, h2, h3, h4, h5, h6, h7, h8, h9, h10, h11, h12, h13, h14⟩ := hi
  refine ⟨?_, ?_, ?_, ?_, ?_, ?_, h7, h8, ?_, h10, ?_, h12, h13, ?_⟩
  · intro L hL
    by_cases hLL : L = s.lk c
    · subst hLL; simp [removeWaiter, h1 _ hL]
    · simp only [upd_apply, hLL, if_false]; exact h1 L hL
  · intro c'; simp only [owning, upd_apply] at *; grind
  · intro L c'; simp only [owning, upd_apply] at *; grind
  · intro L c' b hm
    by_cases hLL : L = s.lk c
    · subst hLL
      simp only [upd_same] at hm
      obtain ⟨hm, hne⟩ := mem_removeWaiter.mp hm
      simp at hne
      simpa [upd_apply, hne] using h4 _ c' b hm
    · simp only [upd_apply, hLL, if_false] at hm
      have := h4 L c' b hm
      have hcc : c' ≠ c := by intro h; subst h; exact hLL this.1.symm
      simpa [upd_apply, hcc] using this
  · intro c' hc'
    have hcc : c' ≠ c := by intro h; subst h; simp at hc'
    simp only [upd_apply, hcc, if_false] at hc'
    have := h5 c' hc'
    by_cases hLL : s.lk c' = s.lk c
    · rw [hLL]; simp only [upd_same]; rw [hLL] at this
      exact mem_removeWaiter.mpr ⟨this, by simpa using hcc⟩
    · simp only [upd_apply, hLL, if_false]; exact this
  · intro L
    by_cases hLL : L = s.lk c
    · subst hLL
      simp only [upd_same, removeWaiter]
      exact List.Nodup.sublist (List.Sublist.map _ List.filter_sublist) (h6 _)
    · simp only [upd_apply, hLL, if_false]; exact h6 L
  · intro c'; simp only [upd_apply] at *; grind
  · intro c' hc'
    by_cases hcc : c' = c
    · subst hcc; simp [lockpc, owning] at hc'
    · simp only [upd_apply, hcc, if_false] at hc' ⊢; exact h11 c' hc'
  · intro c'; simp only [upd_apply] at *; grind

/-- a pc change whose class is checked by `simp` -/
macro "pc_class" hi:term "," c:term "," p:term "," hpc:term : tactic =>
  `(tactic| exact inv_pc_class $hi $c $p (by simp [owning, $hpc:term]) (by simp [$hpc:term])
      (by simp [$hpc:term]) (by simp [lockpc, owning, $hpc:term]) (by simp [$hpc:term])
      (by simp [$hpc:term]))

theorem inv_step {s s' : State} {e : Ev} {o : Out} (hi : Inv s)
    (hs : step s e = some (s', o)) : Inv s' := by
  cases e with
  | call c k pre =>
    simp only [step] at hs
    split at hs; · contradiction
    rename_i hpc; simp only [ne_eq, Decidable.not_not] at hpc
    have hk := inv_setkey hi c k pre hpc
    split at hs
    · cases hs
      pc_class hk, c, .bypass, hpc
    · simp only [Option.some.injEq] at hs
      rw [show s' = (s', o).1 from rfl, ← hs]
      exact inv_lookup hk (Or.inl (by simpa using hpc))
  | step c =>
    simp only [step] at hs
    split at hs
    all_goals first | contradiction | skip
    · rename_i hpc; cases hs; pc_class hi, c, .idle, hpc
    · rename_i hpc; cases hs; pc_class hi, c, .idle, hpc
    · rename_i hpc; cases hs; pc_class hi, c, .idle, hpc
    · cases hs; exact hi
    · rename_i hpc; cases hs; pc_class hi, c, .idle, hpc
    · rename_i hpc
      simp only [Option.some.injEq] at hs; rw [show s' = (s', o).1 from rfl, ← hs]
      have hown : owning (s.pc c) := by simp [owning, hpc]
      exact inv_body (invx_weaken hi) (hi.owning_owner c hown)
        (detached_of_pc hi (by simp [hpc])) (hi.lock_key c (Or.inl hown))
    · rename_i hpc
      simp only [Option.some.injEq] at hs; rw [show s' = (s', o).1 from rfl, ← hs]
      exact inv_abort hi (by simp [owning, hpc]) _
    · rename_i hpc; cases hs; exact inv_waitfc_step hi hpc
    · rename_i hpc
      simp only [Option.some.injEq] at hs; rw [show s' = (s', o).1 from rfl, ← hs]
      have hown : owning (s.pc c) := by simp [owning, hpc]
      exact inv_body (invx_weaken hi) (hi.owning_owner c hown)
        (detached_of_pc hi (by simp [hpc])) (hi.lock_key c (Or.inl hown))
    · rename_i hpc
      simp only [Option.some.injEq] at hs; rw [show s' = (s', o).1 from rfl, ← hs]
      exact inv_abort hi (by simp [owning, hpc]) _
    · rename_i hpc
      simp only [Option.some.injEq] at hs; rw [show s' = (s', o).1 from rfl, ← hs]
      exact inv_abort hi (by simp [owning, hpc]) _
    · rename_i hpc
      simp only [Option.some.injEq] at hs; rw [show s' = (s', o).1 from rfl, ← hs]
      exact inv_lookup hi (Or.inr hpc)
  | wrappedReturns c v =>
    simp only [step] at hs
    split at hs
    · rename_i hpc; cases hs
      have h1 := inv_ghost hi (s.misses + 1) s.now (s.key c, v) s.creq
      pc_class h1, c, .idle, hpc
    · rename_i hpc
      simp only [Option.some.injEq] at hs; rw [show s' = (s', o).1 from rfl, ← hs]
      exact inv_store hi hpc v
    · contradiction
  | wrappedRaises c =>
    simp only [step] at hs
    split at hs
    · rename_i hpc; cases hs; pc_class hi, c, .idle, hpc
    · rename_i hpc
      simp only [Option.some.injEq] at hs; rw [show s' = (s', o).1 from rfl, ← hs]
      exact inv_abort hi (by simp [owning, hpc]) _
    · contradiction
  | fc c =>
    simp only [step] at hs
    split at hs
    · rename_i hpc; cases hs; exact inv_fc_wait hi hpc
    · rename_i hpc; cases hs; pc_class hi, c, .computingX, hpc
    · rename_i hpc; cases hs; pc_class hi, c, .bypassX, hpc
    · contradiction
  | mc c =>
    simp only [step] at hs
    split at hs
    · rename_i hpc; cases hs; pc_class hi, c, .preSpinMC, hpc
    · rename_i hpc; cases hs; pc_class hi, c, .lockYieldMC, hpc
    · rename_i hpc; cases hs; pc_class hi, c, .grantedMC, hpc
    · rename_i hpc; cases hs; pc_class hi, c, .hitYieldMC, hpc
    · rename_i hpc; cases hs; pc_class hi, c, .computingX, hpc
    · rename_i hpc; cases hs; pc_class hi, c, .bypassX, hpc
    · contradiction
  | sc c =>
    simp only [step] at hs
    split at hs
    · contradiction
    · cases hs; exact inv_env hi s.now _
  | tick n =>
    simp only [step] at hs
    cases hs; exact inv_env hi _ s.creq

theorem inv_reach {s : State} (h : Reach s) : Inv s := by
  refine Reachable.invariant Inv ?_ ?_ s h
  · rintro s ⟨cfg, rfl⟩; exact inv_init cfg
  · intro s e s' o hi hs; exact inv_step hi hs

end AnyioModel.Cache.Lru
