import AnyioModel.Cache.LruChange

namespace AnyioModel.Cache.Lru

theorem rel_pc_hit {s : State} {L c' : Nat} (h : (rel s L).pc c' = .hitYield) :
    s.pc c' = .hitYield := by
  unfold rel at h
  split at h
  · simp only [upd_apply] at h; split at h
    · cases h
    · exact h
  · exact h

theorem body_pc_hit {s : State} {c c' : Nat} (h : (bodyStep s c).1.pc c' = .hitYield) :
    c' ≠ c ∧ s.pc c' = .hitYield := by
  unfold bodyStep at h
  simp only at h
  split at h
  · simp only [upd_apply] at h; grind
  · split at h
    · split at h <;> (have h2 := rel_pc_hit h; simp only [upd_apply] at h2; grind)
    · split at h
      · simp only [upd_apply] at h; grind
      · have h2 := rel_pc_hit h; simp only [upd_apply] at h2; grind
    · have h2 := rel_pc_hit h; simp only [upd_apply] at h2; grind

theorem acquire_pc_hit {s : State} {c L c' : Nat} (h : (acquireStep s c L).1.pc c' = .hitYield) :
    c' ≠ c ∧ s.pc c' = .hitYield := by
  unfold acquireStep at h
  simp only at h
  split at h
  · split at h
    · simp only [upd_apply] at h; grind
    · split at h
      · simp only [upd_apply] at h; grind
      · have := body_pc_hit h; simpa using this
  · split at h
    · simp only [upd_apply] at h; grind
    · simp only [upd_apply] at h; grind

theorem lookup_pc_hit {s : State} {c c' : Nat} (hi : Inv s)
    (h : (lookupStep s c).1.pc c' = .hitYield) :
    (c' ≠ c ∧ s.pc c' = .hitYield) ∨
    (c' = c ∧ ∃ x, dget (s.key c) s.dict = some (.value ((lookupStep s c).1.hv c) x) ∧
      expired x s.now = false ∧ s.last (s.key c) = some ((lookupStep s c).1.hv c)) := by
  unfold lookupStep at h ⊢
  simp only at h ⊢
  split at h
  · left; have := acquire_pc_hit h; simpa using this
  · left; exact acquire_pc_hit h
  · rename_i v e hget
    split at h
    · left; have := acquire_pc_hit h; simpa using this
    · rename_i hexp
      rw [if_neg hexp]
      rw [moveToEnd?_isSome hget] at h ⊢
      simp only at h ⊢
      split at h
      · rename_i hac
        simp only [hac, if_true]
        simp only [upd_apply] at h
        by_cases hcc : c' = c
        · right
          refine ⟨hcc, e, ?_, by simpa using hexp, ?_⟩
          · simpa using hget
          · simpa using (hi.value_last _ _ _ hget).1
        · left; simp only [hcc, if_false] at h; exact ⟨hcc, h⟩
      · simp only [upd_apply] at h; left; grind

theorem abort_pc_hit {s : State} {c c' : Nat} {o : Out}
    (h : (abortStep s c o).1.pc c' = .hitYield) : s.pc c' = .hitYield := by
  unfold abortStep at h
  simp only at h
  split at h
  · simp only [upd_apply] at h; grind
  · have h2 := rel_pc_hit h; simp only [upd_apply] at h2; grind

theorem store_pc_hit {s : State} {c c' : Nat} {v : Val}
    (h : (storeStep s c v).1.pc c' = .hitYield) : s.pc c' = .hitYield := by
  unfold storeStep at h
  simp only at h
  split at h
  · simp only [upd_apply] at h; grind
  · split at h <;> (have h2 := rel_pc_hit h; simp only [upd_apply] at h2; grind)

theorem hitYield_origin {s s' : State} {e : Ev} {o : Out} {c : Nat} (hi : Inv s)
    (hs : step s e = some (s', o)) (h0 : s.pc c ≠ .hitYield ∧ s.pc c ≠ .hitYieldMC)
    (h1 : s'.pc c = .hitYield) :
    ∃ x, dget (s'.key c) s.dict = some (.value (s'.hv c) x) ∧ expired x s.now = false ∧
      s.last (s'.key c) = some (s'.hv c) := by
  have simple : ∀ (c0 : Nat) (p : Pc), p ≠ .hitYield → upd s.pc c0 p c = .hitYield → False := by
    intro c0 p hp h
    simp only [upd_apply] at h
    split at h
    · exact hp h
    · exact h0.1 h
  cases e with
  | call c0 k pre =>
    simp only [step] at hs
    split at hs; · contradiction
    rename_i hpc; simp only [ne_eq, Decidable.not_not] at hpc
    have hk0 := inv_setkey hi c0 k pre hpc
    split at hs
    · cases hs; exact absurd h1 (fun h => simple c0 .bypass (by simp) h)
    · simp only [Option.some.injEq] at hs
      have hkey := (lookup_out hk0 (c := c0) (Or.inl (by simpa using hpc))).2
      have hl := lookup_pc_hit (c := c0) (c' := c) hk0 (by rw [hs]; exact h1)
      rw [hs] at hl hkey
      rcases hl with ⟨_, hl⟩ | ⟨hcc, x, hx⟩
      · exact absurd hl h0.1
      · subst hcc
        simp only at hkey hx
        rw [hkey]
        exact ⟨x, hx⟩
  | step c0 =>
    simp only [step] at hs
    split at hs
    all_goals first | contradiction | skip
    · cases hs; exact absurd h1 (fun h => simple c0 .idle (by simp) h)
    · cases hs; exact absurd h1 (fun h => simple c0 .idle (by simp) h)
    · cases hs; exact absurd h1 (fun h => simple c0 .idle (by simp) h)
    · cases hs; exact absurd h1 h0.1
    · cases hs; exact absurd h1 (fun h => simple c0 .idle (by simp) h)
    · simp only [Option.some.injEq] at hs
      have := body_pc_hit (s := s) (c := c0) (c' := c) (by rw [hs]; exact h1)
      exact absurd this.2 h0.1
    · simp only [Option.some.injEq] at hs
      have := abort_pc_hit (s := s) (c := c0) (c' := c) (o := .cancelled) (by rw [hs]; exact h1)
      exact absurd this h0.1
    · cases hs; exact absurd h1 (fun h => simple c0 .idle (by simp) h)
    · simp only [Option.some.injEq] at hs
      have := body_pc_hit (s := s) (c := c0) (c' := c) (by rw [hs]; exact h1)
      exact absurd this.2 h0.1
    · simp only [Option.some.injEq] at hs
      have := abort_pc_hit (s := s) (c := c0) (c' := c) (o := .cancelled) (by rw [hs]; exact h1)
      exact absurd this h0.1
    · simp only [Option.some.injEq] at hs
      have := abort_pc_hit (s := s) (c := c0) (c' := c) (o := .cancelled) (by rw [hs]; exact h1)
      exact absurd this h0.1
    · rename_i hpc
      simp only [Option.some.injEq] at hs
      have hkey := (lookup_out hi (c := c0) (Or.inr hpc)).2
      have hl := lookup_pc_hit (c := c0) (c' := c) hi (by rw [hs]; exact h1)
      rw [hs] at hl hkey
      rcases hl with ⟨_, hl⟩ | ⟨hcc, x, hx⟩
      · exact absurd hl h0.1
      · subst hcc
        simp only at hkey hx
        rw [hkey]
        exact ⟨x, hx⟩
  | wrappedReturns c0 v =>
    simp only [step] at hs
    split at hs
    · cases hs; exact absurd h1 (fun h => simple c0 .idle (by simp) h)
    · simp only [Option.some.injEq] at hs
      have := store_pc_hit (s := s) (c := c0) (c' := c) (v := v) (by rw [hs]; exact h1)
      exact absurd this h0.1
    · contradiction
  | wrappedRaises c0 =>
    simp only [step] at hs
    split at hs
    · cases hs; exact absurd h1 (fun h => simple c0 .idle (by simp) h)
    · simp only [Option.some.injEq] at hs
      have := abort_pc_hit (s := s) (c := c0) (c' := c) (o := .raised) (by rw [hs]; exact h1)
      exact absurd this h0.1
    · contradiction
  | fc c0 =>
    simp only [step] at hs
    split at hs
    · cases hs; exact absurd h1 (fun h => simple c0 .waitFC (by simp) h)
    · cases hs; exact absurd h1 (fun h => simple c0 .computingX (by simp) h)
    · cases hs; exact absurd h1 (fun h => simple c0 .bypassX (by simp) h)
    · contradiction
  | mc c0 =>
    simp only [step] at hs
    split at hs
    · cases hs; exact absurd h1 (fun h => simple c0 .preSpinMC (by simp) h)
    · cases hs; exact absurd h1 (fun h => simple c0 .lockYieldMC (by simp) h)
    · cases hs; exact absurd h1 (fun h => simple c0 .grantedMC (by simp) h)
    · cases hs; exact absurd h1 (fun h => simple c0 .hitYieldMC (by simp) h)
    · cases hs; exact absurd h1 (fun h => simple c0 .computingX (by simp) h)
    · cases hs; exact absurd h1 (fun h => simple c0 .bypassX (by simp) h)
    · contradiction
  | sc c0 =>
    simp only [step] at hs
    split at hs
    · contradiction
    · cases hs; exact absurd h1 h0.1
  | tick n =>
    simp only [step] at hs
    cases hs; exact absurd h1 h0.1

end AnyioModel.Cache.Lru
