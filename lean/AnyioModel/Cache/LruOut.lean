/-
What the building blocks of `step` output, and how they change the dict, on states satisfying
the invariant.
-/
import AnyioModel.Cache.LruInv

namespace AnyioModel.Cache.Lru

@[simp] theorem rel_dict (s : State) (L : Nat) : (rel s L).dict = s.dict := by
  unfold rel; split <;> rfl
@[simp] theorem rel_currsize (s : State) (L : Nat) : (rel s L).currsize = s.currsize := by
  unfold rel; split <;> rfl
@[simp] theorem rel_hits (s : State) (L : Nat) : (rel s L).hits = s.hits := by
  unfold rel; split <;> rfl
@[simp] theorem rel_misses (s : State) (L : Nat) : (rel s L).misses = s.misses := by
  unfold rel; split <;> rfl
@[simp] theorem rel_key (s : State) (L : Nat) : (rel s L).key = s.key := by
  unfold rel; split <;> rfl
@[simp] theorem rel_hv (s : State) (L : Nat) : (rel s L).hv = s.hv := by
  unfold rel; split <;> rfl
@[simp] theorem rel_last (s : State) (L : Nat) : (rel s L).last = s.last := by
  unfold rel; split <;> rfl
@[simp] theorem rel_produced (s : State) (L : Nat) : (rel s L).produced = s.produced := by
  unfold rel; split <;> rfl

/-- a segment that went through `async with lock:` either suspended, has to start over, or
returned the completed entry it found under its key -/
def GoodOut (s : State) (c : Nat) (o : Out) : Prop :=
  o = .susp ∨ o = .cont ∨ ∃ v x, o = .ret v ∧ dget (s.key c) s.dict = some (.value v x)

theorem body_out {s : State} {c : Nat} (ho : s.owner (s.lk c) = some c) :
    GoodOut s c (bodyStep s c).2 ∧ (bodyStep s c).1.key = s.key ∧
    (∀ k, dget k (bodyStep s c).1.dict = dget k s.dict) ∧
    (bodyStep s c).1.currsize = s.currsize := by
  unfold bodyStep GoodOut
  simp only [ho, ne_eq, not_true_eq_false, if_false]
  split
  · rename_i v e hget
    have hm := moveToEnd?_isSome hget
    rw [hm]
    refine ⟨Or.inr (Or.inr ⟨v, e, rfl, hget⟩), by simp, ?_, by simp⟩
    intro k; simp only [rel_dict]; exact dget_moveToEnd hm k
  · split <;> simp
  · simp

theorem acquire_out {s : State} {c L : Nat} (hn : ∀ L', s.owner L' ≠ some c) :
    GoodOut s c (acquireStep s c L).2 ∧ (acquireStep s c L).1.key = s.key ∧
    (∀ k, dget k (acquireStep s c L).1.dict = dget k s.dict) ∧
    (acquireStep s c L).1.currsize = s.currsize := by
  unfold acquireStep
  simp only
  split
  · split
    · simp [GoodOut]
    · split
      · simp [GoodOut]
      · exact body_out (s := { s with lk := upd s.lk c L, owner := upd s.owner L (some c) })
          (c := c) (by simp)
  · split
    · rename_i h; exact absurd h (hn L)
    · simp [GoodOut]

theorem lookup_out {s : State} {c : Nat} (hi : Inv s) (hpc : s.pc c = .idle ∨ s.pc c = .retry) :
    ((lookupStep s c).2 = .susp ∨ (lookupStep s c).2 = .cont ∨
      ∃ v x, (lookupStep s c).2 = .ret v ∧ dget (s.key c) s.dict = some (.value v x) ∧
        expired x s.now = false ∧ s.cfg.ac = false) ∧
    (lookupStep s c).1.key = s.key := by
  have hn : ∀ L', s.owner L' ≠ some c := by
    intro L' h
    have := hi.owner_owning L' c h
    simp [owning] at this
    grind
  unfold lookupStep
  simp only
  split
  · have h := acquire_out
      (s := { s with dict := dset (s.key c) (.placeholder s.nextLock) s.dict,
                     nextLock := s.nextLock + 1,
                     lockKey := upd s.lockKey s.nextLock (s.key c) })
      (c := c) (L := s.nextLock) hn
    refine ⟨?_, h.2.1⟩
    rcases h.1 with h1 | h1 | ⟨v, x, _, h1⟩
    · exact Or.inl h1
    · exact Or.inr (Or.inl h1)
    · simp [dget_dset_same] at h1
  · rename_i L hget
    have h := acquire_out (s := s) (c := c) (L := L) hn
    refine ⟨?_, h.2.1⟩
    rcases h.1 with h1 | h1 | ⟨v, x, _, h1⟩
    · exact Or.inl h1
    · exact Or.inr (Or.inl h1)
    · rw [hget] at h1; simp at h1
  · rename_i v e hget
    split
    · have h := acquire_out
        (s := { s with currsize := s.currsize - 1,
                       dict := dset (s.key c) (.placeholder s.nextLock) s.dict,
                       nextLock := s.nextLock + 1,
                       lockKey := upd s.lockKey s.nextLock (s.key c) })
        (c := c) (L := s.nextLock) hn
      refine ⟨?_, h.2.1⟩
      rcases h.1 with h1 | h1 | ⟨v, x, _, h1⟩
      · exact Or.inl h1
      · exact Or.inr (Or.inl h1)
      · simp [dget_dset_same] at h1
    · rename_i hexp
      rw [moveToEnd?_isSome hget]
      simp only
      split
      · simp
      · rename_i hac
        refine ⟨Or.inr (Or.inr ⟨v, e, rfl, hget, by simpa using hexp, by simpa using hac⟩), rfl⟩

theorem store_out {s : State} {c : Nat} (hi : Inv s) (hpc : s.pc c = .computing) (v : Val) :
    (storeStep s c v).2 = .ret v ∧ (storeStep s c v).1.key = s.key ∧
    (s.key c, v) ∈ (storeStep s c v).1.produced := by
  have ho := hi.owning_owner c (by simp [owning, hpc])
  unfold storeStep
  simp only [ho, ne_eq, not_true_eq_false, if_false]
  rw [moveToEnd?_isSome (dget_dset_same _ _ _)]
  simp

theorem abort_out {s : State} {c : Nat} (hi : Inv s) (hpc : owning (s.pc c)) (o : Out) :
    (abortStep s c o).2 = o ∧ (abortStep s c o).1.dict = s.dict ∧
    (abortStep s c o).1.currsize = s.currsize ∧ (abortStep s c o).1.hits = s.hits ∧
    (abortStep s c o).1.misses = s.misses := by
  have ho := hi.owning_owner c hpc
  unfold abortStep
  simp [ho]

def Ev.task : Ev → Option Nat
  | .call c _ _ | .step c | .wrappedReturns c _ | .wrappedRaises c => some c
  | _ => none

/-- a cancellation has been delivered to the call and not yet raised -/
def cancelPending (p : Pc) : Prop :=
  p = .bypassX ∨ p = .hitYieldMC ∨ p = .preSpinMC ∨ p = .lockYieldMC ∨ p = .waitFC ∨
  p = .grantedMC ∨ p = .computingX

/-- the lookup at the top of `__call__` (first segment of a call, or a restarted call) -/
def fastPath (s : State) (e : Ev) (c : Nat) : Prop :=
  (∃ k pre, e = .call c k pre) ∨ (e = .step c ∧ s.pc c = .retry)

/-- why a call may return `v` -/
def RetWhy (s s' : State) (e : Ev) (c : Nat) (v : Val) : Prop :=
  e = .wrappedReturns c v ∨
  (e = .step c ∧ s.pc c = .hitYield ∧ v = s.hv c) ∨
  (∃ x, dget (s'.key c) s.dict = some (.value v x) ∧ (fastPath s e c → expired x s.now = false) ∧
    (fastPath s e c ∨ (e = .step c ∧ (s.pc c = .granted ∨ s.pc c = .lockYield))))

def StepSpec (s s' : State) (e : Ev) (o : Out) : Prop :=
  (o = .susp ∨ o = .cont ∨ o = .env) ∨
  (∃ c, e = .wrappedRaises c ∧ o = .raised ∧ (s.pc c = .computing ∨ s.pc c = .bypass) ∧
    s'.dict = s.dict ∧ s'.currsize = s.currsize ∧ s'.hits = s.hits ∧ s'.misses = s.misses) ∨
  (∃ c, e = .step c ∧ o = .cancelled ∧ cancelPending (s.pc c)) ∨
  (∃ c v, e.task = some c ∧ o = .ret v ∧ RetWhy s s' e c v)

theorem goodOut_spec {s s' : State} {e : Ev} {c : Nat} {o : Out} (h : GoodOut s c o)
    (hk : s'.key = s.key) (he : e = .step c) (hpc : s.pc c = .granted ∨ s.pc c = .lockYield) :
    StepSpec s s' e o := by
  rcases h with h | h | ⟨v, x, h, hg⟩
  · exact Or.inl (Or.inl h)
  · exact Or.inl (Or.inr (Or.inl h))
  · refine Or.inr (Or.inr (Or.inr ⟨c, v, by simp [he, Ev.task], h, Or.inr (Or.inr ⟨x, ?_, ?_, ?_⟩)⟩))
    · rw [hk]; exact hg
    · intro hf
      rcases hf with ⟨k, pre, hf⟩ | ⟨_, hf⟩
      · rw [he] at hf; cases hf
      · rcases hpc with hpc | hpc <;> simp [hpc] at hf
    · exact Or.inr ⟨he, hpc⟩

theorem step_spec {s s' : State} {e : Ev} {o : Out} (hi : Inv s)
    (hs : step s e = some (s', o)) : StepSpec s s' e o := by
  cases e with
  | call c k pre =>
    simp only [step] at hs
    split at hs; · contradiction
    rename_i hpc; simp only [ne_eq, Decidable.not_not] at hpc
    have hk := inv_setkey hi c k pre hpc
    split at hs
    · cases hs; exact Or.inl (Or.inl rfl)
    · simp only [Option.some.injEq] at hs
      have hl := lookup_out hk (c := c) (Or.inl (by simpa using hpc))
      rw [hs] at hl
      rcases hl.1 with h | h | ⟨v, x, h, hg, hx, _⟩
      · exact Or.inl (Or.inl h)
      · exact Or.inl (Or.inr (Or.inl h))
      · refine Or.inr (Or.inr (Or.inr ⟨c, v, rfl, h, Or.inr (Or.inr ⟨x, ?_, fun _ => hx,
          Or.inl (Or.inl ⟨k, pre, rfl⟩)⟩)⟩))
        simp only at hl
        rw [hl.2]; exact hg
  | step c =>
    simp only [step] at hs
    split at hs
    all_goals first | contradiction | skip
    · rename_i hpc; cases hs
      exact Or.inr (Or.inr (Or.inl ⟨c, rfl, rfl, by simp [cancelPending, hpc]⟩))
    · rename_i hpc; cases hs
      exact Or.inr (Or.inr (Or.inr ⟨c, _, rfl, rfl, Or.inr (Or.inl ⟨rfl, hpc, rfl⟩)⟩))
    · rename_i hpc; cases hs
      exact Or.inr (Or.inr (Or.inl ⟨c, rfl, rfl, by simp [cancelPending, hpc]⟩))
    · cases hs; exact Or.inl (Or.inl rfl)
    · rename_i hpc; cases hs
      exact Or.inr (Or.inr (Or.inl ⟨c, rfl, rfl, by simp [cancelPending, hpc]⟩))
    · rename_i hpc
      simp only [Option.some.injEq] at hs
      have hb := body_out (hi.owning_owner c (by simp [owning, hpc]))
      rw [hs] at hb
      exact goodOut_spec hb.1 hb.2.1 rfl (Or.inr hpc)
    · rename_i hpc
      simp only [Option.some.injEq] at hs
      have ha := abort_out hi (c := c) (by simp [owning, hpc]) .cancelled
      rw [hs] at ha
      exact Or.inr (Or.inr (Or.inl ⟨c, rfl, ha.1, by simp [cancelPending, hpc]⟩))
    · rename_i hpc; cases hs
      exact Or.inr (Or.inr (Or.inl ⟨c, rfl, rfl, by simp [cancelPending, hpc]⟩))
    · rename_i hpc
      simp only [Option.some.injEq] at hs
      have hb := body_out (hi.owning_owner c (by simp [owning, hpc]))
      rw [hs] at hb
      exact goodOut_spec hb.1 hb.2.1 rfl (Or.inl hpc)
    · rename_i hpc
      simp only [Option.some.injEq] at hs
      have ha := abort_out hi (c := c) (by simp [owning, hpc]) .cancelled
      rw [hs] at ha
      exact Or.inr (Or.inr (Or.inl ⟨c, rfl, ha.1, by simp [cancelPending, hpc]⟩))
    · rename_i hpc
      simp only [Option.some.injEq] at hs
      have ha := abort_out hi (c := c) (by simp [owning, hpc]) .cancelled
      rw [hs] at ha
      exact Or.inr (Or.inr (Or.inl ⟨c, rfl, ha.1, by simp [cancelPending, hpc]⟩))
    · rename_i hpc
      simp only [Option.some.injEq] at hs
      have hl := lookup_out hi (c := c) (Or.inr hpc)
      rw [hs] at hl
      rcases hl.1 with h | h | ⟨v, x, h, hg, hx, _⟩
      · exact Or.inl (Or.inl h)
      · exact Or.inl (Or.inr (Or.inl h))
      · refine Or.inr (Or.inr (Or.inr ⟨c, v, rfl, h, Or.inr (Or.inr ⟨x, ?_, fun _ => hx,
          Or.inl (Or.inr ⟨rfl, hpc⟩)⟩)⟩))
        simp only at hl
        rw [hl.2]; exact hg
  | wrappedReturns c v =>
    simp only [step] at hs
    split at hs
    · cases hs; exact Or.inr (Or.inr (Or.inr ⟨c, v, rfl, rfl, Or.inl rfl⟩))
    · rename_i hpc
      simp only [Option.some.injEq] at hs
      have h := store_out hi hpc v
      rw [hs] at h
      exact Or.inr (Or.inr (Or.inr ⟨c, v, rfl, h.1, Or.inl rfl⟩))
    · contradiction
  | wrappedRaises c =>
    simp only [step] at hs
    split at hs
    · rename_i hpc; cases hs
      exact Or.inr (Or.inl ⟨c, rfl, rfl, Or.inr hpc, rfl, rfl, rfl, rfl⟩)
    · rename_i hpc
      simp only [Option.some.injEq] at hs
      have ha := abort_out hi (c := c) (by simp [owning, hpc]) .raised
      rw [hs] at ha
      exact Or.inr (Or.inl ⟨c, rfl, ha.1, Or.inl hpc, ha.2.1, ha.2.2.1, ha.2.2.2.1, ha.2.2.2.2⟩)
    · contradiction
  | fc c =>
    simp only [step] at hs
    split at hs <;> first | contradiction | (cases hs; exact Or.inl (Or.inr (Or.inr rfl)))
  | mc c =>
    simp only [step] at hs
    split at hs <;> first | contradiction | (cases hs; exact Or.inl (Or.inr (Or.inr rfl)))
  | sc c =>
    simp only [step] at hs
    split at hs
    · contradiction
    · cases hs; exact Or.inl (Or.inr (Or.inr rfl))
  | tick n =>
    simp only [step] at hs
    cases hs; exact Or.inl (Or.inr (Or.inr rfl))

end AnyioModel.Cache.Lru
