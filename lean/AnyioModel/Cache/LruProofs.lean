/-
Invariant of the `lru_cache` model and its preservation by the building blocks of `step`
(`rel`, `bodyStep`, `acquireStep`, `lookupStep`, `storeStep`, `abortStep`).
-/
import AnyioModel.Cache.LruDict
import AnyioModel.Sync.LockProofs

namespace AnyioModel.Cache.Lru

open AnyioModel.Sync.Lock (grant markCancelled removeWaiter grant_some grant_none
  mem_markCancelled map_fst_markCancelled mem_removeWaiter)

/-- the call owns its lock -/
def owning (p : Pc) : Prop :=
  p = .lockYield ∨ p = .lockYieldMC ∨ p = .granted ∨ p = .grantedMC ∨ p = .computing ∨
  p = .computingX

/-- the call is somewhere inside `async with lock:` (its `lk` is meaningful) -/
def lockpc (p : Pc) : Prop :=
  owning p ∨ p = .waiting ∨ p = .waitFC ∨ p = .preSpin ∨ p = .preSpinMC

/-- The invariant.  `x = some (L, c)`: mid-segment states in which call `c` is recorded as the
owner of lock `L` while its program counter does not say so yet / any more. -/
structure InvX (x : Option (Nat × Nat)) (s : State) : Prop where
  free_no_waiters : ∀ L, s.owner L = none → s.waiters L = []
  owning_owner : ∀ c, owning (s.pc c) → s.owner (s.lk c) = some c
  owner_owning : ∀ L c, s.owner L = some c → x = some (L, c) ∨ (s.lk c = L ∧ owning (s.pc c))
  waiter_pc : ∀ L c b, (c, b) ∈ s.waiters L →
    s.lk c = L ∧ ((b = false ∧ s.pc c = .waiting) ∨ (b = true ∧ s.pc c = .waitFC))
  waiting_queued : ∀ c, s.pc c = .waiting → (c, false) ∈ s.waiters (s.lk c)
  waiters_nodup : ∀ L, ((s.waiters L).map Prod.fst).Nodup
  keys_nodup : (keys s.dict).Nodup
  currsize_eq : s.currsize = ncompleted s.dict
  computing_entry : ∀ c, (s.pc c = .computing ∨ s.pc c = .computingX) →
    dget (s.key c) s.dict = some (.placeholder (s.lk c))
  dict_lock : ∀ k L, dget k s.dict = some (.placeholder L) → L < s.nextLock ∧ s.lockKey L = k
  lock_key : ∀ c, lockpc (s.pc c) → s.lockKey (s.lk c) = s.key c ∧ s.lk c < s.nextLock
  bound : ∀ m, s.cfg.maxsize = some m → ncompleted s.dict ≤ m
  value_last : ∀ k v e, dget k s.dict = some (.value v e) →
    s.last k = some v ∧ (k, v) ∈ s.produced
  hv_produced : ∀ c, (s.pc c = .hitYield ∨ s.pc c = .hitYieldMC) →
    (s.key c, s.hv c) ∈ s.produced

abbrev Inv (s : State) : Prop := InvX none s

theorem inv_init (cfg : Cfg) : Inv (init cfg) := by
  constructor <;> simp [init, owning, lockpc, keys, dget]

/-- `release()` by a call that is done with the lock re-establishes the invariant -/
theorem invx_rel {s : State} {L c : Nat} (hi : InvX (some (L, c)) s)
    (ho : s.owner L = some c) (hpc : s.pc c = .idle ∨ s.pc c = .retry) : Inv (rel s L) := by
  obtain ⟨h1, h2, h3, h4, h5, h6, h7, h8, h9, h10, h11, h12, h13, h14⟩ := hi
  unfold rel
  split
  · rename_i u rest hg
    obtain ⟨pre, hws, hpre⟩ := grant_some hg
    have hu := h4 L u false (by simp [hws])
    have hnr : ∀ b, (u, b) ∉ rest := by
      intro b hb
      have hnd := h6 L
      rw [hws] at hnd
      simp only [List.map_append, List.map_cons] at hnd
      have := List.nodup_append.mp hnd
      have h2' := (List.nodup_cons.mp this.2.1).1
      exact h2' (List.mem_map.mpr ⟨(u, b), hb, rfl⟩)
    have hsub : ∀ w, w ∈ rest → w ∈ s.waiters L := by intro w hw'; simp [hws, hw']
    have hndr : (rest.map Prod.fst).Nodup := by
      have hnd := h6 L
      rw [hws] at hnd
      simp only [List.map_append, List.map_cons] at hnd
      exact (List.nodup_cons.mp (List.nodup_append.mp hnd).2.1).2
    have hpre' : ∀ v, (v, false) ∈ s.waiters L → v = u ∨ (v, false) ∈ rest := by
      intro v hv
      rw [hws] at hv
      simp only [List.mem_append, List.mem_cons, Prod.mk.injEq] at hv
      rcases hv with hv | hv | hv
      · have := hpre _ hv; simp at this
      · exact Or.inl hv.1
      · exact Or.inr hv
    constructor
    · intro L'; simp only [upd_apply]; grind
    · intro c'; simp only [owning, upd_apply] at *; grind
    · intro L' c'; simp only [owning, upd_apply] at *; grind
    · intro L' c' b; simp only [upd_apply] at *; grind
    · intro c'; simp only [upd_apply] at *; grind
    · intro L'; simp only [upd_apply]; grind
    · exact h7
    · exact h8
    · intro c'; simp only [upd_apply] at *; grind
    · exact h10
    · intro c'; simp only [lockpc, owning, upd_apply] at *; grind
    · exact h12
    · exact h13
    · intro c'; simp only [upd_apply] at *; grind
  · rename_i hg
    have hall := grant_none hg
    constructor
    · intro L'; simp only [upd_apply]; grind
    · intro c'; simp only [owning, upd_apply] at *; grind
    · intro L' c'; simp only [owning, upd_apply] at *; grind
    · intro L' c' b; simp only [upd_apply] at *; grind
    · intro c' hc'
      have := h5 c' hc'
      by_cases hL : s.lk c' = L
      · rw [hL] at this; have := hall _ this; simp at this
      · simp [hL]; exact this
    · intro L'; simp only [upd_apply]; grind
    · exact h7
    · exact h8
    · exact h9
    · exact h10
    · exact h11
    · exact h12
    · exact h13
    · exact h14

/-- replacing the dict by an equivalent one (same lookups, same number of completed entries) -/
theorem invx_dict {x} {s : State} (hi : InvX x s) (d' : Dict)
    (hd : ∀ k, dget k d' = dget k s.dict) (hn : (keys d').Nodup)
    (hc : ncompleted d' = ncompleted s.dict) : InvX x { s with dict := d' } := by
  obtain ⟨h1, h2, h3, h4, h5, h6, h7, h8, h9, h10, h11, h12, h13, h14⟩ := hi
  refine ⟨h1, h2, h3, h4, h5, h6, hn, ?_, ?_, ?_, h11, ?_, ?_, h14⟩
  · simp only [hc]; exact h8
  · intro c hc'; simp only [hd]; exact h9 c hc'
  · intro k L; simp only [hd]; exact h10 k L
  · intro m hm; simp only [hc]; exact h12 m hm
  · intro k v e; simp only [hd]; exact h13 k v e

/-- a call that is in no queue and owns no lock (except as recorded in `x`) leaves the lock -/
theorem invx_setpc {x} {s : State} (hi : InvX x s) (c : Nat) (p : Pc)
    (hp : p = .idle ∨ p = .retry) (hdet : ∀ L b, (c, b) ∉ s.waiters L)
    (hown : ∀ L, s.owner L = some c → x = some (L, c)) :
    InvX x { s with pc := upd s.pc c p } := by
  obtain ⟨h1, h2, h3, h4, h5, h6, h7, h8, h9, h10, h11, h12, h13, h14⟩ := hi
  refine ⟨h1, ?_, ?_, ?_, ?_, h6, h7, h8, ?_, h10, ?_, h12, h13, ?_⟩
  · intro c'; simp only [owning, upd_apply] at *; grind
  · intro L c'; simp only [owning, upd_apply] at *; grind
  · intro L c' b; simp only [upd_apply] at *; grind
  · intro c'; simp only [upd_apply] at *; grind
  · intro c'; simp only [upd_apply] at *; grind
  · intro c' hc'
    by_cases hcc : c' = c
    · subst hcc
      simp only [upd_same] at hc'
      rcases hp with rfl | rfl <;> simp [lockpc, owning] at hc'
    · simp only [upd_apply, hcc, if_false] at hc' ⊢; exact h11 c' hc'
  · intro c'; simp only [upd_apply] at *; grind

theorem invx_counters {x} {s : State} (hi : InvX x s) (h m : Nat) :
    InvX x { s with hits := h, misses := m } := by
  obtain ⟨h1, h2, h3, h4, h5, h6, h7, h8, h9, h10, h11, h12, h13, h14⟩ := hi
  exact ⟨h1, h2, h3, h4, h5, h6, h7, h8, h9, h10, h11, h12, h13, h14⟩

/-- the block under `async with lock:` -/
theorem inv_body {s : State} {c : Nat} (hi : InvX (some (s.lk c, c)) s)
    (ho : s.owner (s.lk c) = some c) (hdet : ∀ L b, (c, b) ∉ s.waiters L)
    (hlk : s.lockKey (s.lk c) = s.key c ∧ s.lk c < s.nextLock) : Inv (bodyStep s c).1 := by
  have hown : ∀ L, s.owner L = some c → some (s.lk c, c) = some (L, c) := by
    intro L hL
    rcases hi.owner_owning L c hL with h | h
    · exact h
    · rw [h.1]
  unfold bodyStep
  simp only [ho, ne_eq, not_true_eq_false, if_false]
  split
  · rename_i v e hget
    rw [moveToEnd?_isSome hget]
    simp only
    have hm := moveToEnd?_isSome hget
    have h1 := invx_setpc hi c .idle (Or.inl rfl) hdet hown
    have h2 := invx_dict h1 _ (fun k => dget_moveToEnd hm k) (nodup_moveToEnd hi.keys_nodup hm)
      (ncompleted_moveToEnd hi.keys_nodup hm)
    have h3 := invx_counters h2 (s.hits + 1) s.misses
    exact invx_rel (L := s.lk c) (c := c) h3 ho (by simp)
  · rename_i L' hget
    split
    · rename_i hL
      subst hL
      obtain ⟨h1, h2, h3, h4, h5, h6, h7, h8, h9, h10, h11, h12, h13, h14⟩ := hi
      refine ⟨h1, ?_, ?_, ?_, ?_, h6, h7, h8, ?_, h10, ?_, h12, h13, ?_⟩
      · intro c'; simp only [owning, upd_apply] at *; grind
      · intro L c'; simp only [owning, upd_apply] at *; grind
      · intro L c' b; simp only [upd_apply] at *; grind
      · intro c'; simp only [upd_apply] at *; grind
      · intro c'; simp only [upd_apply] at *; grind
      · intro c'; simp only [lockpc, owning, upd_apply] at *; grind
      · intro c'; simp only [upd_apply] at *; grind
    · have h1 := invx_setpc hi c .retry (Or.inr rfl) hdet hown
      exact invx_rel (L := s.lk c) (c := c) h1 ho (by simp)
  · have h1 := invx_setpc hi c .retry (Or.inr rfl) hdet hown
    exact invx_rel (L := s.lk c) (c := c) h1 ho (by simp)

end AnyioModel.Cache.Lru
