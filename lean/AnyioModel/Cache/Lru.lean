/-
Model of `anyio.functools.AsyncLRUCacheWrapper.__call__` (src/anyio/functools.py, with the F3
repair 4d3f7cb) together with the per-placeholder `Lock`s it creates
(src/anyio/_backends/_asyncio.py, class Lock), cut at the awaits into atomic segments.

Shared state mirrors the wrapper's fields and its per-loop `OrderedDict`:
* `dict`     : the ordered dict, oldest first.  `placeholder L` is the tuple
               `(initial_missing, L, None)`, `value v e` is `(v, None, e)`.
* `hits misses currsize`, `cfg.maxsize` (`none` = unbounded), `cfg.ttl`, `cfg.ac`
  (`always_checkpoint`; every lock is created with `fast_acquire = not ac`), clock `now`.
* locks are numbered in creation order (`nextLock`); `owner L`, `waiters L` are the fields
  `_owner_task`, `_waiters` of lock `L` (a waiter's future is a flag "cancelled", exactly as in
  `AnyioModel.Sync.Lock`, whose `grant`/`markCancelled`/`removeWaiter` are reused).
* per call `c` (one call per task at a time): program counter `pc c`, its key `key c`, its local
  variable `lock` (`lk c`), the value a hit has read (`hv c`), and `creq c` = `cancel_called`
  of the caller's scope (read by `checkpoint_if_cancelled` in the uncontended acquire path).
* `typed` is not part of the state: it only decides which argument tuples are equal keys.

Events
* `call c k pre`      task `c` calls the wrapper with (canonical) key `k`; `pre` = scope already
                      cancelled.  Runs up to the first suspension.
* `step c`            the loop resumes `c` (one segment).  The only internal (non-loop) use is
                      `pc c = retry`: the code's `return await self(*args)` continues in the same
                      segment; the model splits it, so `Out.cont` is followed at once by `step c`
                      (more interleavings than the real loop produces: sound for safety).
* `wrappedReturns c v` / `wrappedRaises c`   the wrapped function of `c` (pc `computing` or, for
                      `maxsize = 0`, `bypass`) is resumed and returns `v` / raises.
* `fc c`              the future `c` is blocked on (lock waiter, or whatever the wrapped function
                      awaits) becomes cancelled;  `mc c`: `Task._must_cancel` set while `c` sits in
                      a bare `sleep(0)` or its future is already resolved;  `sc c`: the scope's
                      `cancel_called` becomes true.
* `tick n`            the clock advances.
-/
import AnyioModel.Util.LTS
import AnyioModel.Sync.Lock

namespace AnyioModel.Cache.Lru

open AnyioModel.Sync.Lock (grant markCancelled removeWaiter)

abbrev Key := Nat
abbrev Val := Nat

inductive Entry where
  | placeholder (lock : Nat)
  | value (v : Val) (expiry : Option Nat)
  deriving DecidableEq, Repr

abbrev Dict := List (Key × Entry)

def Entry.isValue : Entry → Bool
  | .value _ _ => true
  | .placeholder _ => false

/-- `cache_entry.get(key)` -/
def dget (k : Key) : Dict → Option Entry
  | [] => none
  | (k', e) :: d => if k' = k then some e else dget k d

/-- `cache_entry[key] = e`: in place if the key exists, appended otherwise -/
def dset (k : Key) (e : Entry) : Dict → Dict
  | [] => [(k, e)]
  | (k', e') :: d => if k' = k then (k, e) :: d else (k', e') :: dset k e d

/-- `del cache_entry[key]` -/
def ddel (k : Key) : Dict → Dict
  | [] => []
  | (k', e) :: d => if k' = k then ddel k d else (k', e) :: ddel k d

/-- `cache_entry.move_to_end(key)`; `none` = `KeyError` -/
def moveToEnd? (k : Key) (d : Dict) : Option Dict :=
  match dget k d with
  | some e => some (ddel k d ++ [(k, e)])
  | none => none

/-- the eviction loop: first key (oldest first) whose entry has `lock is None` -/
def firstCompleted : Dict → Option Key
  | [] => none
  | (k, .value _ _) :: _ => some k
  | (_, .placeholder _) :: d => firstCompleted d

/-- number of retained completed results -/
def ncompleted (d : Dict) : Nat := (d.filter (fun p => p.2.isValue)).length

inductive Pc where
  | idle         -- not inside a call
  | bypass       -- maxsize = 0: inside the wrapped function, no lock, no dict
  | bypassX      -- same, a cancellation has reached the wrapped function's await
  | hitYield     -- always_checkpoint: hit counted, in `checkpoint()`
  | hitYieldMC
  | preSpin      -- uncontended acquire in a cancelled scope: in checkpoint_if_cancelled's sleep(0)
  | preSpinMC
  | lockYield    -- owns the lock (uncontended path, not fast): in cancel_shielded_checkpoint
  | lockYieldMC
  | waiting      -- queued on the lock, future pending
  | waitFC       -- future cancelled, wake-up not yet run
  | granted      -- future resolved by release(): owns the lock, wake-up not yet run
  | grantedMC
  | computing    -- holds the lock, inside the wrapped function
  | computingX   -- same, a cancellation has reached the wrapped function's await
  | retry        -- lock released because the entry vanished / was replaced: about to start over
  deriving DecidableEq, Repr, Inhabited

inductive Out where
  | susp            -- the call suspended
  | cont            -- internal: the segment continues with `step c` (pc = retry)
  | ret (v : Val)   -- the call returned `v`
  | raised          -- the call raised what the wrapped function raised
  | cancelled       -- the call raised the cancellation exception
  | internalError   -- KeyError from the dict / RuntimeError from the lock reached the caller
  | env
  deriving DecidableEq, Repr

inductive Ev where
  | call (c : Nat) (k : Key) (pre : Bool)
  | step (c : Nat)
  | wrappedReturns (c : Nat) (v : Val)
  | wrappedRaises (c : Nat)
  | fc (c : Nat)
  | mc (c : Nat)
  | sc (c : Nat)
  | tick (n : Nat)
  deriving DecidableEq, Repr

structure Cfg where
  maxsize : Option Nat
  ttl : Option Nat
  ac : Bool
  deriving DecidableEq, Repr

structure State where
  cfg : Cfg
  dict : Dict
  hits : Nat
  misses : Nat
  currsize : Nat
  now : Nat
  nextLock : Nat
  owner : Nat → Option Nat
  waiters : Nat → List (Nat × Bool)
  pc : Nat → Pc
  key : Nat → Key
  lk : Nat → Nat
  hv : Nat → Val
  creq : Nat → Bool
  /-- ghost: key for which lock `L` was created -/
  lockKey : Nat → Key
  /-- ghost: result of the most recent successful (cached-mode) execution for a key -/
  last : Key → Option Val
  /-- ghost: every (key, value) the wrapped function has returned -/
  produced : List (Key × Val)

def init (cfg : Cfg) : State :=
  { cfg, dict := [], hits := 0, misses := 0, currsize := 0, now := 0, nextLock := 0,
    owner := fun _ => none, waiters := fun _ => [], pc := fun _ => .idle, key := fun _ => 0,
    lk := fun _ => 0, hv := fun _ => 0, creq := fun _ => false, lockKey := fun _ => 0,
    last := fun _ => none, produced := [] }

def expired (e : Option Nat) (now : Nat) : Bool :=
  match e with
  | some t => decide (t ≤ now)
  | none => false

/-- body of `Lock.release()` of lock `L` once the owner check has passed -/
def rel (s : State) (L : Nat) : State :=
  match grant (s.waiters L) with
  | some (u, rest) =>
    { s with owner := upd s.owner L (some u), waiters := upd s.waiters L rest,
             pc := upd s.pc u .granted }
  | none => { s with owner := upd s.owner L none, waiters := upd s.waiters L [] }

/-- the block under `async with lock:` up to its first suspension; `c` owns `s.lk c` -/
def bodyStep (s : State) (c : Nat) : State × Out :=
  let k := s.key c
  let L := s.lk c
  if s.owner L ≠ some c then ({ s with pc := upd s.pc c .idle }, .internalError) else
  match dget k s.dict with
  | some (.value v _) =>
    match moveToEnd? k s.dict with
    | some d' =>
      (rel { s with hits := s.hits + 1, dict := d', pc := upd s.pc c .idle } L, .ret v)
    | none => (rel { s with hits := s.hits + 1, pc := upd s.pc c .idle } L, .internalError)
  | some (.placeholder L') =>
    if L' = L then ({ s with misses := s.misses + 1, pc := upd s.pc c .computing }, .susp)
    else (rel { s with pc := upd s.pc c .retry } L, .cont)
  | none => (rel { s with pc := upd s.pc c .retry } L, .cont)

/-- `async with lock:` entry (`Lock.acquire`) on lock `L`, up to the first suspension -/
def acquireStep (s : State) (c : Nat) (L : Nat) : State × Out :=
  let s := { s with lk := upd s.lk c L }
  if s.owner L = none ∧ s.waiters L = [] then
    if s.creq c then ({ s with pc := upd s.pc c .preSpin }, .susp)
    else
      let s := { s with owner := upd s.owner L (some c) }
      if s.cfg.ac then ({ s with pc := upd s.pc c .lockYield }, .susp)
      else bodyStep s c
  else if s.owner L = some c then ({ s with pc := upd s.pc c .idle }, .internalError)
  else
    ({ s with waiters := upd s.waiters L (s.waiters L ++ [(c, false)]),
              pc := upd s.pc c .waiting }, .susp)

/-- from the dict lookup at the top of `__call__` to the first suspension -/
def lookupStep (s : State) (c : Nat) : State × Out :=
  let k := s.key c
  match dget k s.dict with
  | none =>
    let L := s.nextLock
    acquireStep { s with dict := dset k (.placeholder L) s.dict, nextLock := L + 1,
                         lockKey := upd s.lockKey L k } c L
  | some (.placeholder L) => acquireStep s c L
  | some (.value v e) =>
    if expired e s.now then
      let L := s.nextLock
      acquireStep { s with currsize := s.currsize - 1, dict := dset k (.placeholder L) s.dict,
                           nextLock := L + 1, lockKey := upd s.lockKey L k } c L
    else
      match moveToEnd? k s.dict with
      | none => ({ s with hits := s.hits + 1, pc := upd s.pc c .idle }, .internalError)
      | some d' =>
        let s := { s with hits := s.hits + 1, dict := d' }
        if s.cfg.ac then ({ s with pc := upd s.pc c .hitYield, hv := upd s.hv c v }, .susp)
        else ({ s with pc := upd s.pc c .idle }, .ret v)

/-- `self._currsize` has just been incremented to `cs`: evict the least recently used completed
entry if that exceeds `maxsize` -/
def evict (maxsize : Option Nat) (d : Dict) (cs : Nat) : Dict × Nat :=
  match maxsize with
  | none => (d, cs)
  | some m =>
    if m < cs then
      match firstCompleted d with
      | some k' => (ddel k' d, cs - 1)
      | none => (d, cs)
    else (d, cs)

/-- the statements after `value = await self.__wrapped__(...)` inside the lock -/
def storeStep (s : State) (c : Nat) (v : Val) : State × Out :=
  let k := s.key c
  let L := s.lk c
  let s := { s with last := upd s.last k (some v), produced := (k, v) :: s.produced }
  if s.owner L ≠ some c then ({ s with pc := upd s.pc c .idle }, .internalError) else
  let e := s.cfg.ttl.map (fun t => s.now + t)
  match moveToEnd? k (dset k (.value v e) s.dict) with
  | none => (rel { s with pc := upd s.pc c .idle } L, .internalError)
  | some d1 =>
    let r := evict s.cfg.maxsize d1 (s.currsize + 1)
    (rel { s with dict := r.1, currsize := r.2, pc := upd s.pc c .idle } L, .ret v)

/-- leave `async with lock:` with an exception (`o`) -/
def abortStep (s : State) (c : Nat) (o : Out) : State × Out :=
  let L := s.lk c
  if s.owner L ≠ some c then ({ s with pc := upd s.pc c .idle }, .internalError)
  else (rel { s with pc := upd s.pc c .idle } L, o)

def step (s : State) : Ev → Option (State × Out)
  | .call c k pre =>
    if s.pc c ≠ .idle then none else
    let s := { s with key := upd s.key c k, creq := upd s.creq c pre }
    if s.cfg.maxsize = some 0 then some ({ s with pc := upd s.pc c .bypass }, .susp)
    else some (lookupStep s c)
  | .step c =>
    match s.pc c with
    | .idle => none
    | .bypass => none
    | .computing => none
    | .waiting => none
    | .bypassX => some ({ s with pc := upd s.pc c .idle }, .cancelled)
    | .hitYield => some ({ s with pc := upd s.pc c .idle }, .ret (s.hv c))
    | .hitYieldMC => some ({ s with pc := upd s.pc c .idle }, .cancelled)
    | .preSpin => some (s, .susp)
    | .preSpinMC => some ({ s with pc := upd s.pc c .idle }, .cancelled)
    | .lockYield => some (bodyStep s c)
    | .lockYieldMC => some (abortStep s c .cancelled)
    | .waitFC =>
      some ({ s with waiters := upd s.waiters (s.lk c) (removeWaiter c (s.waiters (s.lk c))),
                     pc := upd s.pc c .idle }, .cancelled)
    | .granted => some (bodyStep s c)
    | .grantedMC => some (abortStep s c .cancelled)
    | .computingX => some (abortStep s c .cancelled)
    | .retry => some (lookupStep s c)
  | .wrappedReturns c v =>
    match s.pc c with
    | .bypass =>
      some ({ s with misses := s.misses + 1, produced := (s.key c, v) :: s.produced,
                     pc := upd s.pc c .idle }, .ret v)
    | .computing => some (storeStep s c v)
    | _ => none
  | .wrappedRaises c =>
    match s.pc c with
    | .bypass => some ({ s with pc := upd s.pc c .idle }, .raised)
    | .computing => some (abortStep s c .raised)
    | _ => none
  | .fc c =>
    match s.pc c with
    | .waiting =>
      some ({ s with waiters := upd s.waiters (s.lk c) (markCancelled c (s.waiters (s.lk c))),
                     pc := upd s.pc c .waitFC }, .env)
    | .computing => some ({ s with pc := upd s.pc c .computingX }, .env)
    | .bypass => some ({ s with pc := upd s.pc c .bypassX }, .env)
    | _ => none
  | .mc c =>
    match s.pc c with
    | .preSpin => some ({ s with pc := upd s.pc c .preSpinMC }, .env)
    | .lockYield => some ({ s with pc := upd s.pc c .lockYieldMC }, .env)
    | .granted => some ({ s with pc := upd s.pc c .grantedMC }, .env)
    | .hitYield => some ({ s with pc := upd s.pc c .hitYieldMC }, .env)
    | .computing => some ({ s with pc := upd s.pc c .computingX }, .env)
    | .bypass => some ({ s with pc := upd s.pc c .bypassX }, .env)
    | _ => none
  | .sc c =>
    if s.pc c = .idle then none else some ({ s with creq := upd s.creq c true }, .env)
  | .tick n => some ({ s with now := s.now + n }, .env)

abbrev Reach (s : State) : Prop :=
  Reachable (fun s0 => ∃ cfg, s0 = init cfg) step s

end AnyioModel.Cache.Lru
