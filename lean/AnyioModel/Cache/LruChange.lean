/-
How a step changes the completed entries of the dict (for C20_lru).
-/
import AnyioModel.Cache.LruEvict

namespace AnyioModel.Cache.Lru

theorem firstCompleted_append (d1 d2 : Dict) :
    firstCompleted (d1 ++ d2) = match firstCompleted d1 with
      | some k => some k
      | none => firstCompleted d2 := by
  induction d1 with
  | nil => simp [firstCompleted]
  | cons p d ih =>
    obtain ⟨k, e⟩ := p
    cases e with
    | value v x => simp [firstCompleted]
    | placeholder L => simpa [firstCompleted] using ih

theorem ddel_dset (k : Key) (e : Entry) (d : Dict) : ddel k (dset k e d) = ddel k d := by
  induction d with
  | nil => simp [dset, ddel]
  | cons p d ih =>
    obtain ⟨k2, e2⟩ := p
    by_cases hk : k2 = k <;> simp [dset, ddel, hk, ih]

theorem firstCompleted_ddel_ph {k : Key} {d : Dict}
    (h : ∀ e, (k, e) ∈ d → e.isValue = false) : firstCompleted (ddel k d) = firstCompleted d := by
  induction d with
  | nil => rfl
  | cons p d ih =>
    obtain ⟨k2, e2⟩ := p
    have ih' := ih (fun e he => h e (List.mem_cons_of_mem _ he))
    by_cases hk : k2 = k
    · subst hk
      have := h e2 (by simp)
      cases e2 with
      | value v x => simp [Entry.isValue] at this
      | placeholder L => simp [ddel, firstCompleted, ih']
    · cases e2 with
      | value v x => simp [ddel, hk, firstCompleted]
      | placeholder L => simp [ddel, hk, firstCompleted, ih']

theorem evict_spec (ms : Option Nat) (d : Dict) (cs : Nat) :
    evict ms d cs = (d, cs) ∨
    ∃ m k', ms = some m ∧ m < cs ∧ firstCompleted d = some k' ∧
      evict ms d cs = (ddel k' d, cs - 1) := by
  unfold evict
  split
  · exact Or.inl rfl
  · rename_i m
    split
    · rename_i hlt
      split
      · rename_i k' hf; exact Or.inr ⟨m, k', rfl, hlt, hf, rfl⟩
      · exact Or.inl rfl
    · exact Or.inl rfl

theorem store_dict_eq {s : State} {c : Nat} (hi : Inv s) (hpc : s.pc c = .computing) (v : Val) :
    (storeStep s c v).1.dict = (evict s.cfg.maxsize (storedDict s c v) (s.currsize + 1)).1 := by
  have ho := hi.owning_owner c (by simp [owning, hpc])
  unfold storeStep storedDict
  simp only [ho, ne_eq, not_true_eq_false, if_false]
  rw [moveToEnd?_isSome (dget_dset_same _ _ _)]
  simp

/-- the wrapped function returned: the only completed entry that can disappear is the least
recently used one, and only when the cache is over capacity -/
theorem store_dict {s : State} {c : Nat} (hi : Inv s) (hpc : s.pc c = .computing) (w : Val)
    {q : Key} {v : Val} {x : Option Nat} (hq : dget q s.dict = some (.value v x)) :
    dget q (storeStep s c w).1.dict = some (.value v x) ∨
    (∃ m, s.cfg.maxsize = some m ∧ m < s.currsize + 1 ∧
      dget q (storeStep s c w).1.dict = none ∧ firstCompleted s.dict = some q) := by
  have hget := hi.computing_entry c (Or.inl hpc)
  have hqk : q ≠ s.key c := by intro h; rw [h, hget] at hq; simp at hq
  rw [store_dict_eq hi hpc]
  have hm := moveToEnd?_isSome (dget_dset_same (s.key c)
    (.value w (s.cfg.ttl.map (fun t => s.now + t))) s.dict)
  have hsd : ∀ k', k' ≠ s.key c → dget k' (storedDict s c w) = dget k' s.dict := by
    intro k' hk'
    unfold storedDict
    rw [dget_moveToEnd hm k', dget_dset_other _ _ hk']
  have hfc : firstCompleted (storedDict s c w) = match firstCompleted s.dict with
      | some k => some k
      | none => some (s.key c) := by
    unfold storedDict
    rw [firstCompleted_append, ddel_dset, firstCompleted_ddel_ph]
    · cases firstCompleted s.dict <;> simp [firstCompleted]
    · intro e he
      have := mem_dget hi.keys_nodup he
      rw [hget] at this
      simp only [Option.some.injEq] at this
      subst this; rfl
  rcases evict_spec s.cfg.maxsize (storedDict s c w) (s.currsize + 1) with h | ⟨m, k', hm1, hm2, hf, h⟩
  · left; rw [h]; simp only; rw [hsd q hqk]; exact hq
  · rw [h]; simp only
    by_cases hqk' : q = k'
    · subst hqk'
      right
      refine ⟨m, hm1, hm2, dget_ddel_same _ _, ?_⟩
      rw [hfc] at hf
      cases hfs : firstCompleted s.dict with
      | some k2 => rw [hfs] at hf; simpa using hf
      | none => rw [hfs] at hf; simp at hf; exact absurd hf.symm hqk
    · left; rw [dget_ddel_other _ hqk', hsd q hqk]; exact hq

/-- the lookup at the top of `__call__`: a completed entry changes only if it is the call's own
key and has expired -/
theorem lookup_dict {s : State} {c : Nat} (hi : Inv s) (hpc : s.pc c = .idle ∨ s.pc c = .retry)
    {q : Key} {v : Val} {x : Option Nat} (hq : dget q s.dict = some (.value v x)) :
    dget q (lookupStep s c).1.dict = some (.value v x) ∨
    (q = s.key c ∧ expired x s.now = true ∧
      ∃ L, dget q (lookupStep s c).1.dict = some (.placeholder L)) := by
  have hn : ∀ L', s.owner L' ≠ some c := by
    intro L' h
    have := hi.owner_owning L' c h
    simp [owning] at this
    grind
  unfold lookupStep
  simp only
  split
  · rename_i hget
    have hqk : q ≠ s.key c := by intro h; rw [h, hget] at hq; simp at hq
    have h := acquire_out
      (s := { s with dict := dset (s.key c) (.placeholder s.nextLock) s.dict,
                     nextLock := s.nextLock + 1,
                     lockKey := upd s.lockKey s.nextLock (s.key c) })
      (c := c) (L := s.nextLock) hn
    left; rw [h.2.2.1 q]; simp only; rw [dget_dset_other _ _ hqk]; exact hq
  · rename_i L hget
    have h := acquire_out (s := s) (c := c) (L := L) hn
    left; rw [h.2.2.1 q]; exact hq
  · rename_i v' e' hget
    split
    · rename_i hexp
      have h := acquire_out
        (s := { s with currsize := s.currsize - 1,
                       dict := dset (s.key c) (.placeholder s.nextLock) s.dict,
                       nextLock := s.nextLock + 1,
                       lockKey := upd s.lockKey s.nextLock (s.key c) })
        (c := c) (L := s.nextLock) hn
      by_cases hqk : q = s.key c
      · right
        subst hqk
        rw [hget] at hq
        simp only [Option.some.injEq, Entry.value.injEq] at hq
        refine ⟨rfl, by rw [← hq.2]; exact hexp, s.nextLock, ?_⟩
        rw [h.2.2.1]; simp only; exact dget_dset_same _ _ _
      · left; rw [h.2.2.1 q]; simp only; rw [dget_dset_other _ _ hqk]; exact hq
    · have hm := moveToEnd?_isSome hget
      rw [hm]
      simp only
      left
      split <;> (simp only; rw [dget_moveToEnd hm q]; exact hq)

theorem dict_change {s s' : State} {e : Ev} {o : Out} (hi : Inv s)
    (hs : step s e = some (s', o)) {k : Key} {v : Val} {x : Option Nat}
    (hk : dget k s.dict = some (.value v x)) :
    dget k s'.dict = some (.value v x) ∨
    (∃ c, fastPath s e c ∧ s'.key c = k ∧ expired x s.now = true ∧
      ∃ L, dget k s'.dict = some (.placeholder L)) ∨
    (∃ c w m, e = .wrappedReturns c w ∧ s.pc c = .computing ∧ s.cfg.maxsize = some m ∧
      m < s.currsize + 1 ∧ dget k s'.dict = none ∧ firstCompleted s.dict = some k) := by
  cases e with
  | call c k0 pre =>
    simp only [step] at hs
    split at hs; · contradiction
    rename_i hpc; simp only [ne_eq, Decidable.not_not] at hpc
    have hk0 := inv_setkey hi c k0 pre hpc
    split at hs
    · cases hs; exact Or.inl hk
    · simp only [Option.some.injEq] at hs
      have hl := lookup_dict hk0 (c := c) (Or.inl (by simpa using hpc)) (q := k) (by simpa using hk)
      have hkey := (lookup_out hk0 (c := c) (Or.inl (by simpa using hpc))).2
      rw [hs] at hl hkey
      rcases hl with hl | ⟨h1, h2, h3⟩
      · exact Or.inl hl
      · refine Or.inr (Or.inl ⟨c, Or.inl ⟨k0, pre, rfl⟩, ?_, h2, h3⟩)
        simp only at hkey h1
        rw [hkey]; exact h1.symm
  | step c =>
    simp only [step] at hs
    split at hs
    all_goals first | contradiction | skip
    · cases hs; exact Or.inl hk
    · cases hs; exact Or.inl hk
    · cases hs; exact Or.inl hk
    · cases hs; exact Or.inl hk
    · cases hs; exact Or.inl hk
    · rename_i hpc
      simp only [Option.some.injEq] at hs
      have hb := body_out (hi.owning_owner c (by simp [owning, hpc]))
      rw [hs] at hb
      left; rw [hb.2.2.1 k]; exact hk
    · rename_i hpc
      simp only [Option.some.injEq] at hs
      have ha := abort_out hi (c := c) (by simp [owning, hpc]) .cancelled
      rw [hs] at ha
      left; simp only at ha; rw [ha.2.1]; exact hk
    · cases hs; exact Or.inl hk
    · rename_i hpc
      simp only [Option.some.injEq] at hs
      have hb := body_out (hi.owning_owner c (by simp [owning, hpc]))
      rw [hs] at hb
      left; rw [hb.2.2.1 k]; exact hk
    · rename_i hpc
      simp only [Option.some.injEq] at hs
      have ha := abort_out hi (c := c) (by simp [owning, hpc]) .cancelled
      rw [hs] at ha
      left; simp only at ha; rw [ha.2.1]; exact hk
    · rename_i hpc
      simp only [Option.some.injEq] at hs
      have ha := abort_out hi (c := c) (by simp [owning, hpc]) .cancelled
      rw [hs] at ha
      left; simp only at ha; rw [ha.2.1]; exact hk
    · rename_i hpc
      simp only [Option.some.injEq] at hs
      have hl := lookup_dict hi (c := c) (Or.inr hpc) hk
      have hkey := (lookup_out hi (c := c) (Or.inr hpc)).2
      rw [hs] at hl hkey
      rcases hl with hl | ⟨h1, h2, h3⟩
      · exact Or.inl hl
      · refine Or.inr (Or.inl ⟨c, Or.inr ⟨rfl, hpc⟩, ?_, h2, h3⟩)
        simp only at hkey
        rw [hkey]; exact h1.symm
  | wrappedReturns c w =>
    simp only [step] at hs
    split at hs
    · cases hs; exact Or.inl hk
    · rename_i hpc
      simp only [Option.some.injEq] at hs
      have h := store_dict hi hpc w hk
      rw [hs] at h
      rcases h with h | ⟨m, h1, h2, h3, h4⟩
      · exact Or.inl h
      · exact Or.inr (Or.inr ⟨c, w, m, rfl, hpc, h1, h2, h3, h4⟩)
    · contradiction
  | wrappedRaises c =>
    simp only [step] at hs
    split at hs
    · cases hs; exact Or.inl hk
    · rename_i hpc
      simp only [Option.some.injEq] at hs
      have ha := abort_out hi (c := c) (by simp [owning, hpc]) .raised
      rw [hs] at ha
      left; simp only at ha; rw [ha.2.1]; exact hk
    · contradiction
  | fc c =>
    simp only [step] at hs
    split at hs <;> first | contradiction | (cases hs; exact Or.inl hk)
  | mc c =>
    simp only [step] at hs
    split at hs <;> first | contradiction | (cases hs; exact Or.inl hk)
  | sc c =>
    simp only [step] at hs
    split at hs
    · contradiction
    · cases hs; exact Or.inl hk
  | tick n =>
    simp only [step] at hs
    cases hs; exact Or.inl hk

end AnyioModel.Cache.Lru
