/-
Lemmas about the ordered-dict operations of the `lru_cache` model.
-/
import AnyioModel.Cache.Lru

namespace AnyioModel.Cache.Lru

def keys (d : Dict) : List Key := d.map Prod.fst

def bit (e : Entry) : Nat := if e.isValue then 1 else 0

@[simp] theorem bit_value (v e) : bit (.value v e) = 1 := rfl
@[simp] theorem bit_placeholder (L) : bit (.placeholder L) = 0 := rfl

@[simp] theorem ncompleted_nil : ncompleted [] = 0 := rfl

theorem ncompleted_cons (p : Key × Entry) (d : Dict) :
    ncompleted (p :: d) = bit p.2 + ncompleted d := by
  unfold ncompleted bit
  by_cases h : p.2.isValue <;> simp [h] <;> omega

theorem ncompleted_append (d1 d2 : Dict) :
    ncompleted (d1 ++ d2) = ncompleted d1 + ncompleted d2 := by
  simp [ncompleted, List.filter_append]

/-! ### dget -/

theorem dget_none_iff {k : Key} {d : Dict} : dget k d = none ↔ k ∉ keys d := by
  induction d with
  | nil => simp [dget, keys]
  | cons p d ih =>
    obtain ⟨k', e⟩ := p
    by_cases h : k' = k
    · simp [dget, keys, h]
    · simp only [dget, h, if_false, ih, keys, List.map_cons, List.mem_cons]
      constructor
      · intro h1 h2
        rcases h2 with h2 | h2
        · exact h h2.symm
        · exact h1 h2
      · intro h1 h2; exact h1 (Or.inr h2)

theorem dget_mem {k : Key} {d : Dict} {e : Entry} (h : dget k d = some e) : (k, e) ∈ d := by
  induction d with
  | nil => simp [dget] at h
  | cons p d ih =>
    obtain ⟨k', e'⟩ := p
    by_cases hk : k' = k
    · simp [dget, hk] at h; simp [hk, h]
    · simp [dget, hk] at h; simp [ih h]

theorem mem_dget {k : Key} {d : Dict} {e : Entry} (hn : (keys d).Nodup) (h : (k, e) ∈ d) :
    dget k d = some e := by
  induction d with
  | nil => simp at h
  | cons p d ih =>
    obtain ⟨k', e'⟩ := p
    simp only [keys, List.map_cons, List.nodup_cons] at hn
    rcases List.mem_cons.mp h with h | h
    · cases h; simp [dget]
    · have hk : k' ≠ k := by
        intro hk; subst hk
        exact hn.1 (List.mem_map.mpr ⟨(k', e), h, rfl⟩)
      simp [dget, hk, ih hn.2 h]

theorem dget_append (k : Key) (d1 d2 : Dict) :
    dget k (d1 ++ d2) = match dget k d1 with
      | some e => some e
      | none => dget k d2 := by
  induction d1 with
  | nil => simp [dget]
  | cons p d ih =>
    obtain ⟨k', e'⟩ := p
    by_cases hk : k' = k <;> simp [dget, hk, ih]

/-! ### dset -/

theorem dget_dset_same (k : Key) (e : Entry) (d : Dict) : dget k (dset k e d) = some e := by
  induction d with
  | nil => simp [dset, dget]
  | cons p d ih =>
    obtain ⟨k', e'⟩ := p
    by_cases hk : k' = k <;> simp [dset, dget, hk, ih]

theorem dget_dset_other {k k' : Key} (e : Entry) (d : Dict) (h : k' ≠ k) :
    dget k' (dset k e d) = dget k' d := by
  induction d with
  | nil => simp [dset, dget, Ne.symm h]
  | cons p d ih =>
    obtain ⟨k2, e2⟩ := p
    by_cases hk : k2 = k
    · subst hk; simp [dset, dget, Ne.symm h]
    · by_cases hk' : k2 = k'
      · subst hk'; simp [dset, dget, hk]
      · simp [dset, dget, hk, hk', ih]

theorem keys_dset (k : Key) (e : Entry) (d : Dict) :
    keys (dset k e d) = if k ∈ keys d then keys d else keys d ++ [k] := by
  induction d with
  | nil => simp [dset, keys]
  | cons p d ih =>
    obtain ⟨k2, e2⟩ := p
    by_cases hk : k2 = k
    · subst hk; simp [dset, keys]
    · simp only [dset, hk, if_false, keys, List.map_cons, List.mem_cons] at ih ⊢
      rw [ih]
      have : ¬ k = k2 := fun h => hk h.symm
      by_cases hm : k ∈ List.map Prod.fst d <;> simp [hm, this]

theorem nodup_dset {k : Key} {e : Entry} {d : Dict} (h : (keys d).Nodup) :
    (keys (dset k e d)).Nodup := by
  rw [keys_dset]
  split
  · exact h
  · rename_i hk
    rw [List.nodup_append]
    refine ⟨h, by simp, ?_⟩
    intro a ha b hb
    simp at hb; subst hb
    intro hab; subst hab; exact hk ha

theorem ncompleted_dset_new {k : Key} {e : Entry} {d : Dict} (h : dget k d = none) :
    ncompleted (dset k e d) = ncompleted d + bit e := by
  induction d with
  | nil => simp [dset, ncompleted_cons]
  | cons p d ih =>
    obtain ⟨k2, e2⟩ := p
    by_cases hk : k2 = k
    · simp [dget, hk] at h
    · simp [dget, hk] at h
      simp [dset, hk, ncompleted_cons, ih h]; omega

theorem ncompleted_dset_old {k : Key} {e e0 : Entry} {d : Dict} (h : dget k d = some e0) :
    ncompleted (dset k e d) + bit e0 = ncompleted d + bit e := by
  induction d with
  | nil => simp [dget] at h
  | cons p d ih =>
    obtain ⟨k2, e2⟩ := p
    by_cases hk : k2 = k
    · simp [dget, hk] at h; subst h
      simp [dset, hk, ncompleted_cons]; omega
    · simp [dget, hk] at h
      have := ih h
      simp [dset, hk, ncompleted_cons]; omega

/-! ### ddel -/

theorem keys_ddel (k : Key) (d : Dict) : keys (ddel k d) = (keys d).filter (fun x => x ≠ k) := by
  induction d with
  | nil => simp [ddel, keys]
  | cons p d ih =>
    obtain ⟨k2, e2⟩ := p
    simp only [keys] at ih
    by_cases hk : k2 = k <;> simp [ddel, keys, List.filter_cons, hk, ih]

theorem dget_ddel_same (k : Key) (d : Dict) : dget k (ddel k d) = none := by
  rw [dget_none_iff, keys_ddel]; simp

theorem dget_ddel_other {k k' : Key} (d : Dict) (h : k' ≠ k) :
    dget k' (ddel k d) = dget k' d := by
  induction d with
  | nil => simp [ddel, dget]
  | cons p d ih =>
    obtain ⟨k2, e2⟩ := p
    by_cases hk : k2 = k
    · subst hk
      simp [ddel, dget, Ne.symm h, ih]
    · by_cases hk' : k2 = k'
      · subst hk'; simp [ddel, dget, hk]
      · simp [ddel, dget, hk, hk', ih]

theorem nodup_ddel {k : Key} {d : Dict} (h : (keys d).Nodup) : (keys (ddel k d)).Nodup := by
  rw [keys_ddel]; exact List.Nodup.sublist List.filter_sublist h

theorem ncompleted_ddel_absent {k : Key} {d : Dict} (h : k ∉ keys d) :
    ncompleted (ddel k d) = ncompleted d := by
  induction d with
  | nil => simp [ddel]
  | cons p d ih =>
    obtain ⟨k2, e2⟩ := p
    simp only [keys, List.map_cons, List.mem_cons, not_or] at h
    have hp : k2 ≠ k := fun h' => h.1 h'.symm
    simp [ddel, hp, ncompleted_cons, ih h.2]

theorem ncompleted_ddel {k : Key} {e0 : Entry} {d : Dict} (hn : (keys d).Nodup)
    (h : dget k d = some e0) : ncompleted (ddel k d) + bit e0 = ncompleted d := by
  induction d with
  | nil => simp [dget] at h
  | cons p d ih =>
    obtain ⟨k2, e2⟩ := p
    simp only [keys, List.map_cons, List.nodup_cons] at hn
    by_cases hk : k2 = k
    · subst hk
      simp [dget] at h; subst h
      have := ncompleted_ddel_absent (k := k2) (d := d) hn.1
      simp [ddel, ncompleted_cons, this]; omega
    · simp [dget, hk] at h
      have := ih hn.2 h
      simp [ddel, hk, ncompleted_cons]; omega

/-! ### moveToEnd? -/

theorem moveToEnd?_some {k : Key} {d d' : Dict} (h : moveToEnd? k d = some d') :
    ∃ e, dget k d = some e ∧ d' = ddel k d ++ [(k, e)] := by
  unfold moveToEnd? at h
  split at h
  · rename_i e he; exact ⟨e, he, by simpa using h.symm⟩
  · contradiction

theorem moveToEnd?_isSome {k : Key} {d : Dict} {e : Entry} (h : dget k d = some e) :
    moveToEnd? k d = some (ddel k d ++ [(k, e)]) := by
  simp [moveToEnd?, h]

theorem dget_moveToEnd {k : Key} {d d' : Dict} (h : moveToEnd? k d = some d') (k' : Key) :
    dget k' d' = dget k' d := by
  obtain ⟨e, he, rfl⟩ := moveToEnd?_some h
  rw [dget_append]
  by_cases hk : k' = k
  · subst hk; simp [dget_ddel_same, dget, he]
  · rw [dget_ddel_other d hk]
    cases hd : dget k' d with
    | some x => rfl
    | none => simp [dget, Ne.symm hk]

theorem nodup_moveToEnd {k : Key} {d d' : Dict} (hn : (keys d).Nodup)
    (h : moveToEnd? k d = some d') : (keys d').Nodup := by
  obtain ⟨e, he, rfl⟩ := moveToEnd?_some h
  simp only [keys, List.map_append, List.map_cons, List.map_nil]
  rw [List.nodup_append]
  refine ⟨nodup_ddel hn, by simp, ?_⟩
  intro a ha b hb
  simp at hb; subst hb
  intro hab; subst hab
  have : a ∈ keys (ddel a d) := ha
  rw [keys_ddel] at this
  simp at this

theorem ncompleted_moveToEnd {k : Key} {d d' : Dict} (hn : (keys d).Nodup)
    (h : moveToEnd? k d = some d') : ncompleted d' = ncompleted d := by
  obtain ⟨e, he, rfl⟩ := moveToEnd?_some h
  have := ncompleted_ddel hn he
  simp [ncompleted_append, ncompleted_cons]; omega

/-! ### firstCompleted -/

theorem firstCompleted_some {d : Dict} {k : Key} (h : firstCompleted d = some k) :
    ∃ pre v e post, d = pre ++ (k, .value v e) :: post ∧ ∀ p ∈ pre, p.2.isValue = false := by
  induction d with
  | nil => simp [firstCompleted] at h
  | cons p d ih =>
    obtain ⟨k2, e2⟩ := p
    cases e2 with
    | value v e =>
      simp [firstCompleted] at h; subst h
      exact ⟨[], v, e, d, by simp, by simp⟩
    | placeholder L =>
      simp only [firstCompleted] at h
      obtain ⟨pre, v, e, post, hd, hp⟩ := ih h
      refine ⟨(k2, .placeholder L) :: pre, v, e, post, by simp [hd], ?_⟩
      intro p hp'
      rcases List.mem_cons.mp hp' with h1 | h1
      · subst h1; rfl
      · exact hp p h1

theorem firstCompleted_none {d : Dict} (h : firstCompleted d = none) : ncompleted d = 0 := by
  induction d with
  | nil => rfl
  | cons p d ih =>
    obtain ⟨k2, e2⟩ := p
    cases e2 with
    | value v e => simp [firstCompleted] at h
    | placeholder L =>
      simp only [firstCompleted] at h
      simp [ncompleted_cons, ih h]

theorem firstCompleted_dget {d : Dict} {k : Key} (hn : (keys d).Nodup)
    (h : firstCompleted d = some k) : ∃ v e, dget k d = some (.value v e) := by
  obtain ⟨pre, v, e, post, hd, _⟩ := firstCompleted_some h
  exact ⟨v, e, mem_dget hn (by simp [hd])⟩

end AnyioModel.Cache.Lru
