/-
Preservation of the `lru_cache` invariant by `acquireStep`, `lookupStep`, `storeStep`,
`abortStep` and by every event of `step`.
-/
import AnyioModel.Cache.LruProofs

namespace AnyioModel.Cache.Lru

open AnyioModel.Sync.Lock (grant markCancelled removeWaiter grant_some grant_none
  mem_markCancelled map_fst_markCancelled mem_removeWaiter)

theorem detached_of_pc {x} {s : State} (hi : InvX x s) {c : Nat}
    (hpc : s.pc c ≠ .waiting ∧ s.pc c ≠ .waitFC) : ∀ L b, (c, b) ∉ s.waiters L := by
  intro L b hm
  have := (hi.waiter_pc L c b hm).2
  grind

/-- `Lock.acquire` on the lock `L` found in (or just put into) the dict under the call's key -/
theorem inv_acquire {s : State} {c L : Nat} (hi : Inv s)
    (hpc : s.pc c = .idle ∨ s.pc c = .retry)
    (hget : dget (s.key c) s.dict = some (.placeholder L)) : Inv (acquireStep s c L).1 := by
  have hdet : ∀ L b, (c, b) ∉ s.waiters L := detached_of_pc hi (by grind)
  have hL := hi.dict_lock _ _ hget
  have hnown : ∀ L', s.owner L' ≠ some c := by
    intro L' h
    have := hi.owner_owning L' c h
    simp [owning] at this
    grind
  obtain ⟨h1, h2, h3, h4, h5, h6, h7, h8, h9, h10, h11, h12, h13, h14⟩ := hi
  unfold acquireStep
  simp only
  split
  · rename_i hfree
    split
    · -- preSpin
      refine ⟨h1, ?_, ?_, ?_, ?_, h6, h7, h8, ?_, h10, ?_, h12, h13, ?_⟩
      · intro c'; simp only [owning, upd_apply] at *; grind
      · intro L' c'; simp only [owning, upd_apply] at *; grind
      · intro L' c' b; simp only [upd_apply] at *; grind
      · intro c'; simp only [upd_apply] at *; grind
      · intro c'; simp only [upd_apply] at *; grind
      · intro c' hc'
        by_cases hcc : c' = c
        · subst hcc; simp only [upd_same]; exact ⟨hL.2, hL.1⟩
        · simp only [upd_apply, hcc, if_false] at hc' ⊢; exact h11 c' hc'
      · intro c'; simp only [upd_apply] at *; grind
    · -- take the lock
      have hx : InvX (some (L, c))
          { s with lk := upd s.lk c L, owner := upd s.owner L (some c) } := by
        refine ⟨?_, ?_, ?_, ?_, ?_, h6, h7, h8, ?_, h10, ?_, h12, h13, h14⟩
        · intro L'; simp only [upd_apply] at *; grind
        · intro c'; simp only [owning, upd_apply] at *; grind
        · intro L' c'; simp only [owning, upd_apply] at *; grind
        · intro L' c' b; simp only [upd_apply] at *; grind
        · intro c'; simp only [upd_apply] at *; grind
        · intro c'; simp only [upd_apply] at *; grind
        · intro c' hc'
          by_cases hcc : c' = c
          · subst hcc; simp only [lockpc, owning] at hc'; grind
          · simp only [upd_apply, hcc, if_false] at hc' ⊢; exact h11 c' hc'
      split
      · -- lockYield
        obtain ⟨g1, g2, g3, g4, g5, g6, g7, g8, g9, g10, g11, g12, g13, g14⟩ := hx
        refine ⟨g1, ?_, ?_, ?_, ?_, g6, g7, g8, ?_, g10, ?_, g12, g13, ?_⟩
        · intro c'; simp only [owning, upd_apply] at *; grind
        · intro L' c'; simp only [owning, upd_apply] at *; grind
        · intro L' c' b; simp only [upd_apply] at *; grind
        · intro c'; simp only [upd_apply] at *; grind
        · intro c'; simp only [upd_apply] at *; grind
        · intro c' hc'
          by_cases hcc : c' = c
          · subst hcc; simp only [upd_same]; exact ⟨hL.2, hL.1⟩
          · simp only [upd_apply, hcc, if_false] at hc' ⊢; exact h11 c' hc'
        · intro c'; simp only [upd_apply] at *; grind
      · apply inv_body
        · simpa using hx
        · simp
        · simpa using hdet
        · simpa using And.intro hL.2 hL.1
  · split
    · rename_i ho; exact absurd ho (hnown L)
    · -- queue
      rename_i hbusy hno
      have hne : s.owner L ≠ none := by
        intro h; exact hbusy ⟨by simpa using h, by simpa using h1 L h⟩
      have hnq : c ∉ (s.waiters L).map Prod.fst := by
        intro hm
        obtain ⟨⟨u, b⟩, hm2, rfl⟩ := List.mem_map.mp hm
        exact hdet L b hm2
      refine ⟨?_, ?_, ?_, ?_, ?_, ?_, h7, h8, ?_, h10, ?_, h12, h13, ?_⟩
      · intro L'; simp only [upd_apply] at *; grind
      · intro c'; simp only [owning, upd_apply] at *; grind
      · intro L' c'; simp only [owning, upd_apply] at *; grind
      · intro L' c' b; simp only [upd_apply] at *; grind
      · intro c'; simp only [upd_apply] at *; grind
      · intro L'
        by_cases hLL : L' = L
        · subst hLL
          simp only [upd_same, List.map_append, List.map_cons, List.map_nil]
          rw [List.nodup_append]
          refine ⟨h6 L', by simp, ?_⟩
          intro a ha b hb
          simp at hb; subst hb
          intro hab; subst hab; exact hnq ha
        · simp [hLL]; exact h6 L'
      · intro c'; simp only [upd_apply] at *; grind
      · intro c' hc'
        by_cases hcc : c' = c
        · subst hcc; simp only [upd_same]; exact ⟨hL.2, hL.1⟩
        · simp only [upd_apply, hcc, if_false] at hc' ⊢; exact h11 c' hc'
      · intro c'; simp only [upd_apply] at *; grind

/-- a new placeholder with a fresh lock replaces nothing or a completed entry -/
theorem inv_newph {s : State} {k : Key} (hi : Inv s) (cs : Nat)
    (hk : dget k s.dict = none ∨ ∃ v e, dget k s.dict = some (.value v e))
    (hcs : cs = ncompleted (dset k (.placeholder s.nextLock) s.dict)) :
    Inv { s with currsize := cs, dict := dset k (.placeholder s.nextLock) s.dict,
                 nextLock := s.nextLock + 1, lockKey := upd s.lockKey s.nextLock k } := by
  obtain ⟨h1, h2, h3, h4, h5, h6, h7, h8, h9, h10, h11, h12, h13, h14⟩ := hi
  have hle : ncompleted (dset k (.placeholder s.nextLock) s.dict) ≤ ncompleted s.dict := by
    rcases hk with hk | ⟨v, e, hk⟩
    · rw [ncompleted_dset_new hk]; simp
    · have := ncompleted_dset_old (e := .placeholder s.nextLock) hk; simp at this; omega
  refine ⟨h1, h2, h3, h4, h5, h6, nodup_dset h7, hcs, ?_, ?_, ?_, ?_, ?_, h14⟩
  · intro c' hc'
    have := h9 c' hc'
    have hne : s.key c' ≠ k := by
      intro h; rw [h] at this; rcases hk with hk | ⟨v, e, hk⟩ <;> simp [hk] at this
    simp only [dget_dset_other _ _ hne]; exact this
  · intro k' L' hg
    by_cases hkk : k' = k
    · subst hkk
      simp only [dget_dset_same, Option.some.injEq, Entry.placeholder.injEq] at hg
      subst hg; simp
    · simp only [dget_dset_other _ _ hkk] at hg
      have := h10 k' L' hg
      have hne : L' ≠ s.nextLock := by omega
      simp only [upd_apply, hne, if_false]; exact ⟨by omega, this.2⟩
  · intro c' hc'
    have := h11 c' hc'
    have hne : s.lk c' ≠ s.nextLock := by omega
    simp only [upd_apply, hne, if_false]; exact ⟨this.1, by omega⟩
  · intro m hm; exact Nat.le_trans hle (h12 m hm)
  · intro k' v e hg
    by_cases hkk : k' = k
    · subst hkk; simp [dget_dset_same] at hg
    · simp only [dget_dset_other _ _ hkk] at hg; exact h13 k' v e hg

/-- from the dict lookup at the top of `__call__` (also after a restart) -/
theorem inv_lookup {s : State} {c : Nat} (hi : Inv s)
    (hpc : s.pc c = .idle ∨ s.pc c = .retry) : Inv (lookupStep s c).1 := by
  have hdet : ∀ L b, (c, b) ∉ s.waiters L := detached_of_pc hi (by grind)
  have hnown : ∀ L', s.owner L' = some c → (none : Option (Nat × Nat)) = some (L', c) := by
    intro L' h
    have := hi.owner_owning L' c h
    simp [owning] at this
    grind
  unfold lookupStep
  simp only
  split
  · rename_i hget
    have h1 := inv_newph (k := s.key c) hi s.currsize (Or.inl hget)
      (by rw [ncompleted_dset_new hget]; simpa using hi.currsize_eq)
    exact inv_acquire (s := { s with dict := _, nextLock := _, lockKey := _ }) h1 hpc
      (dget_dset_same _ _ _)
  · rename_i L hget
    exact inv_acquire hi hpc hget
  · rename_i v e hget
    split
    · have h1 := inv_newph (k := s.key c) hi (s.currsize - 1) (Or.inr ⟨v, e, hget⟩)
        (by have := ncompleted_dset_old (e := .placeholder s.nextLock) hget
            have := hi.currsize_eq; simp at *; omega)
      exact inv_acquire (s := { s with currsize := _, dict := _, nextLock := _, lockKey := _ })
        h1 hpc (dget_dset_same _ _ _)
    · have hm := moveToEnd?_isSome hget
      rw [hm]
      simp only
      have h2 := invx_dict hi _ (fun k => dget_moveToEnd hm k) (nodup_moveToEnd hi.keys_nodup hm)
        (ncompleted_moveToEnd hi.keys_nodup hm)
      have h3 := invx_counters h2 (s.hits + 1) s.misses
      split
      · obtain ⟨h1, h2, h3, h4, h5, h6, h7, h8, h9, h10, h11, h12, h13, h14⟩ := h3
        have hprod := (hi.value_last _ _ _ hget).2
        refine ⟨h1, ?_, ?_, ?_, ?_, h6, h7, h8, ?_, h10, ?_, h12, h13, ?_⟩
        · intro c'; simp only [owning, upd_apply] at *; grind
        · intro L' c'; simp only [owning, upd_apply] at *; grind
        · intro L' c' b; simp only [upd_apply] at *; grind
        · intro c'; simp only [upd_apply] at *; grind
        · intro c'; simp only [upd_apply] at *; grind
        · intro c' hc'
          by_cases hcc : c' = c
          · subst hcc; simp [lockpc, owning] at hc'
          · simp only [upd_apply, hcc, if_false] at hc' ⊢; exact h11 c' hc'
        · intro c' hc'
          by_cases hcc : c' = c
          · subst hcc; simpa using hprod
          · simp only [upd_apply, hcc, if_false] at hc' ⊢; exact h14 c' hc'
      · exact invx_setpc h3 c .idle (Or.inl rfl) hdet hnown

theorem invx_weaken {x} {s : State} (hi : Inv s) : InvX x s := by
  obtain ⟨h1, h2, h3, h4, h5, h6, h7, h8, h9, h10, h11, h12, h13, h14⟩ := hi
  refine ⟨h1, h2, ?_, h4, h5, h6, h7, h8, h9, h10, h11, h12, h13, h14⟩
  intro L c h
  rcases h3 L c h with h | h
  · simp at h
  · exact Or.inr h

theorem evict_props {ms : Option Nat} {d : Dict} {cs : Nat} (hn : (keys d).Nodup)
    (hcs : cs = ncompleted d) :
    (keys (evict ms d cs).1).Nodup ∧ (evict ms d cs).2 = ncompleted (evict ms d cs).1 ∧
    (∀ m, ms = some m → cs ≤ m + 1 → ncompleted (evict ms d cs).1 ≤ m) ∧
    (∀ k, dget k (evict ms d cs).1 = dget k d ∨
      (dget k (evict ms d cs).1 = none ∧ ∃ v e, dget k d = some (.value v e))) := by
  unfold evict
  split
  · exact ⟨hn, hcs, by simp, fun k => Or.inl rfl⟩
  · rename_i m
    split
    · rename_i hlt
      split
      · rename_i k' hf
        obtain ⟨v, e, hg⟩ := firstCompleted_dget hn hf
        have hc := ncompleted_ddel hn hg
        simp at hc
        refine ⟨nodup_ddel hn, by simp; omega, ?_, ?_⟩
        · intro m' hm' hle; simp at hm'; subst hm'; simp; omega
        · intro k
          by_cases hk : k = k'
          · subst hk; right; exact ⟨dget_ddel_same _ _, v, e, hg⟩
          · left; exact dget_ddel_other _ hk
      · rename_i hf
        have := firstCompleted_none hf
        refine ⟨hn, hcs, ?_, fun k => Or.inl rfl⟩
        intro m' hm' hle; simp at hm'; subst hm'; simp; omega
    · rename_i hlt
      refine ⟨hn, hcs, ?_, fun k => Or.inl rfl⟩
      intro m' hm' hle; simp at hm'; subst hm'; simp; omega

/-- leaving `async with lock:` with an exception -/
theorem inv_abort {s : State} {c : Nat} (hi : Inv s) (hpc : owning (s.pc c)) (o : Out) :
    Inv (abortStep s c o).1 := by
  have ho := hi.owning_owner c hpc
  have hdet : ∀ L b, (c, b) ∉ s.waiters L := detached_of_pc hi (by simp only [owning] at hpc; grind)
  unfold abortStep
  simp only [ho, ne_eq, not_true_eq_false, if_false]
  have hx : InvX (some (s.lk c, c)) s := invx_weaken hi
  have hown : ∀ L, s.owner L = some c → some (s.lk c, c) = some (L, c) := by
    intro L hL
    rcases hi.owner_owning L c hL with h | h
    · simp at h
    · rw [h.1]
  have h1 := invx_setpc hx c .idle (Or.inl rfl) hdet hown
  exact invx_rel (L := s.lk c) (c := c) h1 ho (by simp)

/-- the wrapped function returned: store, move to the end, count, evict, release -/
theorem inv_store {s : State} {c : Nat} (hi : Inv s) (hpc : s.pc c = .computing) (v : Val) :
    Inv (storeStep s c v).1 := by
  have hown' : owning (s.pc c) := by simp [owning, hpc]
  have ho := hi.owning_owner c hown'
  have hget := hi.computing_entry c (Or.inl hpc)
  have hdet : ∀ L b, (c, b) ∉ s.waiters L := detached_of_pc hi (by simp [hpc])
  have hx : InvX (some (s.lk c, c)) s := invx_weaken hi
  have hown : ∀ L, s.owner L = some c → some (s.lk c, c) = some (L, c) := by
    intro L hL
    rcases hi.owner_owning L c hL with h | h
    · simp at h
    · rw [h.1]
  have h1 := invx_setpc hx c .idle (Or.inl rfl) hdet hown
  unfold storeStep
  simp only [ho, ne_eq, not_true_eq_false, if_false]
  have hm := moveToEnd?_isSome (dget_dset_same (s.key c)
    (.value v (s.cfg.ttl.map (fun t => s.now + t))) s.dict)
  rw [hm]
  simp only
  -- the dict after store + move_to_end
  have hnd1 := nodup_moveToEnd (nodup_dset (k := s.key c)
    (e := .value v (s.cfg.ttl.map (fun t => s.now + t))) hi.keys_nodup) hm
  have hc1 := ncompleted_moveToEnd (nodup_dset (k := s.key c)
    (e := .value v (s.cfg.ttl.map (fun t => s.now + t))) hi.keys_nodup) hm
  have hc0 := ncompleted_dset_old (e := .value v (s.cfg.ttl.map (fun t => s.now + t))) hget
  simp only [bit_value, bit_placeholder, Nat.add_zero] at hc0
  have hg1 : ∀ k', dget k' (ddel (s.key c) (dset (s.key c)
      (.value v (s.cfg.ttl.map (fun t => s.now + t))) s.dict) ++
      [(s.key c, .value v (s.cfg.ttl.map (fun t => s.now + t)))]) =
      if k' = s.key c then some (.value v (s.cfg.ttl.map (fun t => s.now + t)))
      else dget k' s.dict := by
    intro k'
    rw [dget_moveToEnd hm k']
    by_cases hk : k' = s.key c
    · subst hk; simp [dget_dset_same]
    · simp [hk, dget_dset_other _ _ hk]
  have hcs : s.currsize + 1 = ncompleted (ddel (s.key c) (dset (s.key c)
      (.value v (s.cfg.ttl.map (fun t => s.now + t))) s.dict) ++
      [(s.key c, .value v (s.cfg.ttl.map (fun t => s.now + t)))]) := by
    have := hi.currsize_eq; omega
  obtain ⟨e1, e2, e3, e4⟩ := evict_props (ms := s.cfg.maxsize) hnd1 hcs
  apply invx_rel (L := s.lk c) (c := c) _ (by simpa using ho) (by simp)
  obtain ⟨g1, g2, g3, g4, g5, g6, g7, g8, g9, g10, g11, g12, g13, g14⟩ := h1
  refine ⟨g1, g2, g3, g4, g5, g6, e1, e2, ?_, ?_, g11, ?_, ?_, ?_⟩
  · intro c' hc'
    have hcc : c' ≠ c := by
      intro h; subst h; simp at hc'
    simp only [upd_apply, hcc, if_false] at hc'
    have hold := hi.computing_entry c' hc'
    have hkk : s.key c' ≠ s.key c := by
      intro hk
      rw [hk, hget] at hold
      simp at hold
      have h2 := hi.owning_owner c' (by simp only [owning]; grind)
      rw [← hold, ho] at h2
      simp at h2; exact hcc h2.symm
    rcases e4 (s.key c') with h | ⟨_, v', e', h⟩
    · simp only at h ⊢; rw [h, hg1]; simp [hkk]; exact hold
    · rw [hg1] at h; simp [hkk, hold] at h
  · intro k' L' hk'
    simp only at hk'
    rcases e4 k' with h | ⟨h, _⟩
    · rw [h, hg1] at hk'
      by_cases hkk : k' = s.key c
      · simp [hkk] at hk'
      · simp only [hkk, if_false] at hk'; exact hi.dict_lock k' L' hk'
    · rw [h] at hk'; simp at hk'
  · intro m hm'
    exact e3 m hm' (by have := hi.bound m hm'; have := hi.currsize_eq; omega)
  · intro k' v' e' hk'
    simp only at hk'
    rcases e4 k' with h | ⟨h, _⟩
    · rw [h, hg1] at hk'
      by_cases hkk : k' = s.key c
      · simp [hkk] at hk'
        simp [hkk, hk'.1]
      · simp only [hkk, if_false] at hk'
        have := hi.value_last k' v' e' hk'
        simp [upd_apply, hkk, this]
    · rw [h] at hk'; simp at hk'
  · intro c' hc'
    have hcc : c' ≠ c := by
      intro h; subst h; simp at hc'
    simp only [upd_apply, hcc, if_false] at hc'
    have := hi.hv_produced c' hc'
    simp [this]

/-- a program-counter change that stays within the same class w.r.t. every clause -/
theorem inv_pc_class {s : State} (hi : Inv s) (c : Nat) (p1 : Pc)
    (ho : owning p1 ↔ owning (s.pc c)) (hw : p1 = .waiting ↔ s.pc c = .waiting)
    (hf : p1 = .waitFC ↔ s.pc c = .waitFC) (hl : lockpc p1 → lockpc (s.pc c))
    (hc : (p1 = .computing ∨ p1 = .computingX) → (s.pc c = .computing ∨ s.pc c = .computingX))
    (hh : (p1 = .hitYield ∨ p1 = .hitYieldMC) → (s.pc c = .hitYield ∨ s.pc c = .hitYieldMC)) :
    Inv { s with pc := upd s.pc c p1 } := by
  obtain ⟨h1, h2, h3, h4, h5, h6, h7, h8, h9, h10, h11, h12, h13, h14⟩ := hi
  refine ⟨h1, ?_, ?_, ?_, ?_, h6, h7, h8, ?_, h10, ?_, h12, h13, ?_⟩
  · intro c' hc'
    by_cases hcc : c' = c
    · subst hcc; simp only [upd_same] at hc'; exact h2 c' (ho.mp hc')
    · simp only [upd_apply, hcc, if_false] at hc'; exact h2 c' hc'
  · intro L c' hL
    rcases h3 L c' hL with h | h
    · simp at h
    · right
      by_cases hcc : c' = c
      · subst hcc; simp only [upd_same]; exact ⟨h.1, ho.mpr h.2⟩
      · simp only [upd_apply, hcc, if_false]; exact h
  · intro L c' b hm
    have := h4 L c' b hm
    by_cases hcc : c' = c
    · subst hcc; simp only [upd_same]; grind
    · simp only [upd_apply, hcc, if_false]; exact this
  · intro c' hc'
    by_cases hcc : c' = c
    · subst hcc; simp only [upd_same] at hc'; exact h5 c' (hw.mp hc')
    · simp only [upd_apply, hcc, if_false] at hc'; exact h5 c' hc'
  · intro c' hc'
    by_cases hcc : c' = c
    · subst hcc; simp only [upd_same] at hc'; exact h9 c' (hc hc')
    · simp only [upd_apply, hcc, if_false] at hc'; exact h9 c' hc'
  · intro c' hc'
    by_cases hcc : c' = c
    · subst hcc; simp only [upd_same] at hc'; exact h11 c' (hl hc')
    · simp only [upd_apply, hcc, if_false] at hc'; exact h11 c' hc'
  · intro c' hc'
    by_cases hcc : c' = c
    · subst hcc; simp only [upd_same] at hc'; exact h14 c' (hh hc')
    · simp only [upd_apply, hcc, if_false] at hc'; exact h14 c' hc'

theorem inv_setkey {s : State} (hi : Inv s) (c : Nat) (k : Key) (pre : Bool)
    (hpc : s.pc c = .idle) :
    Inv { s with key := upd s.key c k, creq := upd s.creq c pre } := by
  obtain ⟨h1, h2, h3, h4, h5, h6, h7, h8, h9, h10, h11, h12, h13, h14⟩ := hi
  refine ⟨h1, h2, h3, h4, h5, h6, h7, h8, ?_, h10, ?_, h12, h13, ?_⟩
  · intro c' hc'
    have hcc : c' ≠ c := by intro h; subst h; simp [hpc] at hc'
    simp only [upd_apply, hcc, if_false]; exact h9 c' hc'
  · intro c' hc'
    have hcc : c' ≠ c := by intro h; subst h; simp [hpc, lockpc, owning] at hc'
    simp only [upd_apply, hcc, if_false]; exact h11 c' hc'
  · intro c' hc'
    have hcc : c' ≠ c := by intro h; subst h; simp [hpc] at hc'
    simp only [upd_apply, hcc, if_false]; exact h14 c' hc'

theorem inv_ghost {s : State} (hi : Inv s) (m n : Nat) (kv : Key × Val) (cr : Nat → Bool) :
    Inv { s with misses := m, now := n, produced := kv :: s.produced, creq := cr } := by
  obtain ⟨h1, h2, h3, h4, h5, h6, h7, h8, h9, h10, h11, h12, h13, h14⟩ := hi
  refine ⟨h1, h2, h3, h4, h5, h6, h7, h8, h9, h10, h11, h12, ?_, ?_⟩
  · intro k v e h; have := h13 k v e h; exact ⟨this.1, List.mem_cons_of_mem _ this.2⟩
  · intro c h; exact List.mem_cons_of_mem _ (h14 c h)

theorem inv_env {s : State} (hi : Inv s) (n : Nat) (cr : Nat → Bool) :
    Inv { s with now := n, creq := cr } := by
  obtain ⟨h1, h2, h3, h4, h5, h6, h7, h8, h9, h10, h11, h12, h13, h14⟩ := hi
  exact ⟨h1, h2, h3, h4, h5, h6, h7, h8, h9, h10, h11, h12, h13, h14⟩

end AnyioModel.Cache.Lru
