/-
How a step changes the ghost log and the completed entries of the dict (for C20_value, C20_lru).
-/
import AnyioModel.Cache.LruOut

namespace AnyioModel.Cache.Lru

/-- the dict right after `cache_entry[key] = value, None, expires_at; move_to_end(key)` -/
def storedDict (s : State) (c : Nat) (v : Val) : Dict :=
  ddel (s.key c) (dset (s.key c) (.value v (s.cfg.ttl.map (fun t => s.now + t))) s.dict) ++
    [(s.key c, .value v (s.cfg.ttl.map (fun t => s.now + t)))]

theorem ncompleted_storedDict {s : State} {c : Nat} (hi : Inv s) (hc : s.pc c = .computing)
    (v : Val) : ncompleted (storedDict s c v) = s.currsize + 1 := by
  have hget := hi.computing_entry c (Or.inl hc)
  have hm := moveToEnd?_isSome (dget_dset_same (s.key c)
    (.value v (s.cfg.ttl.map (fun t => s.now + t))) s.dict)
  have hc1 := ncompleted_moveToEnd (nodup_dset (k := s.key c)
    (e := .value v (s.cfg.ttl.map (fun t => s.now + t))) hi.keys_nodup) hm
  have hc0 := ncompleted_dset_old (e := .value v (s.cfg.ttl.map (fun t => s.now + t))) hget
  simp only [bit_value, bit_placeholder, Nat.add_zero] at hc0
  have := hi.currsize_eq
  unfold storedDict; omega

/-! ### the ghost log only grows -/

@[simp] theorem body_produced (s : State) (c : Nat) : (bodyStep s c).1.produced = s.produced := by
  unfold bodyStep
  simp only
  split
  · rfl
  · split
    · split <;> simp
    · split <;> simp
    · simp

@[simp] theorem acquire_produced (s : State) (c L : Nat) :
    (acquireStep s c L).1.produced = s.produced := by
  unfold acquireStep
  simp only
  split
  · split
    · rfl
    · split
      · rfl
      · simp
  · split <;> rfl

@[simp] theorem lookup_produced (s : State) (c : Nat) :
    (lookupStep s c).1.produced = s.produced := by
  unfold lookupStep
  simp only
  split
  · simp
  · simp
  · split
    · simp
    · split
      · rfl
      · split <;> rfl

@[simp] theorem abort_produced (s : State) (c : Nat) (o : Out) :
    (abortStep s c o).1.produced = s.produced := by
  unfold abortStep
  simp only
  split <;> simp

theorem store_produced (s : State) (c : Nat) (v : Val) :
    (storeStep s c v).1.produced = (s.key c, v) :: s.produced := by
  unfold storeStep
  simp only
  split
  · rfl
  · split <;> simp

theorem produced_mono {s s' : State} {e : Ev} {o : Out} (hs : step s e = some (s', o))
    {p : Key × Val} (hp : p ∈ s.produced) : p ∈ s'.produced := by
  cases e with
  | call c k pre =>
    simp only [step] at hs
    split at hs; · contradiction
    split at hs
    · cases hs; exact hp
    · simp only [Option.some.injEq] at hs
      rw [show s' = (s', o).1 from rfl, ← hs]; simpa using hp
  | step c =>
    simp only [step] at hs
    split at hs
    all_goals first | contradiction | skip
    all_goals first
      | (cases hs; exact hp)
      | (simp only [Option.some.injEq] at hs
         rw [show s' = (s', o).1 from rfl, ← hs]; simpa using hp)
  | wrappedReturns c v =>
    simp only [step] at hs
    split at hs
    · cases hs; exact List.mem_cons_of_mem _ hp
    · simp only [Option.some.injEq] at hs
      rw [show s' = (s', o).1 from rfl, ← hs, store_produced]
      exact List.mem_cons_of_mem _ hp
    · contradiction
  | wrappedRaises c =>
    simp only [step] at hs
    split at hs
    · cases hs; exact hp
    · simp only [Option.some.injEq] at hs
      rw [show s' = (s', o).1 from rfl, ← hs]; simpa using hp
    · contradiction
  | fc c =>
    simp only [step] at hs
    split at hs <;> first | contradiction | (cases hs; exact hp)
  | mc c =>
    simp only [step] at hs
    split at hs <;> first | contradiction | (cases hs; exact hp)
  | sc c =>
    simp only [step] at hs
    split at hs
    · contradiction
    · cases hs; exact hp
  | tick n =>
    simp only [step] at hs
    cases hs; exact hp

end AnyioModel.Cache.Lru
