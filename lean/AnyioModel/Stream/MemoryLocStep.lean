/-
The conservation invariant `InvG` is preserved by every step.
-/
import AnyioModel.Stream.MemoryLoc

namespace AnyioModel.Stream.Memory

set_option hygiene false in
local macro "gfin" : tactic =>
  `(tactic| (constructor <;> first
      | assumption
      | (apply nodup_snoc <;> grind)
      | (simp only [upd_apply, orphanize_apply, reject]; grind)))

theorem InvG.mapPc {s : State} (hg : InvG s) (pc' : Nat → Pc)
    (h : ∀ v, pc' v = s.pc v ∨ (gneutral (s.pc v) = true ∧ gneutral (pc' v) = true)) :
    InvG { s with pc := pc' } := by
  obtain ⟨g1, g2, g3, g4, g5, g6, g7, g8, g9, g10, g11, g12, g13, g14, g15, g16, g17⟩ := hg
  have a := fun v => @gneutral_ne (s.pc v)
  have b := fun v => @gneutral_ne (pc' v)
  constructor <;> first | assumption | grind

theorem gneutral_wakeRecv (p : Pc) : wakeRecv p = p ∨ (gneutral p = true ∧ gneutral (wakeRecv p) = true) := by
  cases p <;> simp [wakeRecv, gneutral]

theorem gneutral_wakeSender (p : Pc) :
    wakeSender p = p ∨ (gneutral p = true ∧ gneutral (wakeSender p) = true) := by
  cases p <;> simp [wakeSender, gneutral]

theorem invG_step_simple {s s' : State} {e : Ev} {o : Out} (hq : InvQ s) (hg : InvG s)
    (hs : step s e = some (s', o))
    (he : (∃ t h x pre, e = .send t h x pre) ∨ (∃ t h pre, e = .receive t h pre) ∨
          (∃ t h, e = .receiveNowait t h) ∨ (∃ t h, e = .closeS t h) ∨ (∃ t h, e = .closeR t h) ∨
          (∃ t h, e = .cloneS t h) ∨ (∃ t h, e = .cloneR t h)) : InvG s' := by
  rcases he with ⟨t, h, x, pre, rfl⟩ | ⟨t, h, pre, rfl⟩ | ⟨t, h, rfl⟩ | ⟨t, h, rfl⟩ | ⟨t, h, rfl⟩ |
    ⟨t, h, rfl⟩ | ⟨t, h, rfl⟩
  · obtain ⟨g1, g2, g3, g4, g5, g6, g7, g8, g9, g10, g11, g12, g13, g14, g15, g16, g17⟩ := hg
    simp only [step] at hs
    split at hs; · contradiction
    rename_i hg0
    simp only [not_or, Decidable.not_not] at hg0
    obtain ⟨hpc, hh, hoff⟩ := hg0
    have hfresh : s.loc x = .fresh := (g1 x).mpr (by
      intro u hm; exact hoff (isOffered_iff.mpr ⟨u, hm⟩))
    cases hs
    gfin
  · simp only [step] at hs
    split at hs; · contradiction
    rename_i hg0
    simp only [not_or, Decidable.not_not] at hg0
    cases hs
    exact hg.setPc t _ (by simp [hg0.1, gneutral]) (by simp [gneutral])
  · simp only [step] at hs
    split at hs; · contradiction
    have := invG_recvCore hq hg h
    generalize recvCore s h = r at hs this
    obtain ⟨s1, res⟩ := r
    cases res <;> simp only at hs <;> cases hs <;> exact this
  · simp only [step] at hs
    split at hs; · contradiction
    split at hs
    · cases hs; exact hg
    · split at hs
      · cases hs
        refine (hg.mapPc (fun v => if v ∈ s.waitingReceivers then wakeRecv (s.pc v) else s.pc v)
          ?_).congr rfl rfl rfl rfl rfl rfl rfl rfl
        intro v
        by_cases hv : v ∈ s.waitingReceivers
        · simp only [hv, if_true]; exact gneutral_wakeRecv _
        · simp [hv]
      · cases hs; exact hg.congr rfl rfl rfl rfl rfl rfl rfl rfl
  · simp only [step] at hs
    split at hs; · contradiction
    split at hs
    · cases hs; exact hg
    · split at hs
      · cases hs
        have h1 := hg.mapPc (fun v => if queuedS v s.waitingSenders = true then wakeSender (s.pc v)
          else s.pc v) (by
            intro v
            by_cases hv : queuedS v s.waitingSenders = true
            · simp only [hv, if_true]; exact gneutral_wakeSender _
            · simp [hv])
        obtain ⟨g1, g2, g3, g4, g5, g6, g7, g8, g9, g10, g11, g12, g13, g14, g15, g16, g17⟩ := h1
        have hmap : ∀ u x b, (u, x, b) ∈ s.waitingSenders.map (fun w => (w.1, w.2.1, true)) ↔
            b = true ∧ ∃ b', (u, x, b') ∈ s.waitingSenders := by
          intro u x b
          simp only [List.mem_map, Prod.mk.injEq, Prod.exists]
          constructor
          · rintro ⟨a, y, b', hm, rfl, rfl, rfl⟩; exact ⟨rfl, b', hm⟩
          · rintro ⟨rfl, b', hm⟩; exact ⟨u, x, b', hm, rfl, rfl, rfl⟩
        constructor <;> first | assumption | grind
      · cases hs; exact hg.congr rfl rfl rfl rfl rfl rfl rfl rfl
  · simp only [step] at hs
    split at hs; · contradiction
    split at hs <;> (cases hs; first | exact hg | exact hg.congr rfl rfl rfl rfl rfl rfl rfl rfl)
  · simp only [step] at hs
    split at hs; · contradiction
    split at hs <;> (cases hs; first | exact hg | exact hg.congr rfl rfl rfl rfl rfl rfl rfl rfl)


theorem invG_finish_send {s : State} (hq : InvQ s) (hg : InvG s) (t x : Nat)
    (hp : s.pc t = .sendWaitFC x ∨ s.pc t = .sendWoken x ∨ s.pc t = .sendWokenMC x)
    (hqd : queuedS t s.waitingSenders = true) :
    InvG (reject { s with waitingSenders := rmSender t s.waitingSenders } t x) := by
  obtain ⟨g1, g2, g3, g4, g5, g6, g7, g8, g9, g10, g11, g12, g13, g14, g15, g16, g17⟩ := hg
  obtain ⟨y, b, hm⟩ := queuedS_iff.mp hqd
  have hy : y = x := by have := hq.ws_pc t y b hm; grind
  subst hy
  have hloc : s.loc y = .queued t := g5 t y b hm
  have hmr : ∀ w, w ∈ rmSender t s.waitingSenders ↔ w ∈ s.waitingSenders ∧ w.1 ≠ t :=
    fun w => mem_rmSender
  have hws := hq.ws_pc
  gfin

theorem invG_step_step {s s' : State} {o : Out} {t : Nat} {P : List Nat} (hq : InvQ s) (hg : InvG s)
    (hs : step s (.step t P) = some (s', o)) : InvG s' := by
  simp only [step] at hs
  split at hs <;> try contradiction
  · -- sendChk h x false
    rename_i h x hpc
    obtain ⟨g1, g2, g3, g4, g5, g6, g7, g8, g9, g10, g11, g12, g13, g14, g15, g16, g17⟩ := hg
    have hloc : s.loc x = .chk t := g2 t h x false hpc
    have hwr := hq.wr_pc
    have hws := hq.ws_pc
    rcases sendCore_cases s h x P with
      ⟨hc, he⟩ | ⟨hc, ho, he⟩ | ⟨hc, ho, d, u, rest, hw, hd, hu, huP, he⟩ |
      ⟨hc, ho, hd, hf, he⟩ | ⟨hc, ho, hd, hf, he⟩
    · rw [he] at hs; simp only at hs; cases hs; gfin
    · rw [he] at hs; simp only at hs; cases hs; gfin
    · rw [he] at hs; simp only at hs; cases hs
      have hu2 := hwr u (by simp [hw])
      gfin
    · rw [he] at hs; simp only at hs; cases hs; gfin
    · rw [he] at hs; simp only at hs; cases hs
      have hm : ∀ w, w ∈ s.waitingSenders ++ [(t, x, false)] ↔ w ∈ s.waitingSenders ∨ w = (t, x, false) := by
        intro w; simp
      gfin
  · -- sendChkMC
    rename_i x hpc
    obtain ⟨g1, g2, g3, g4, g5, g6, g7, g8, g9, g10, g11, g12, g13, g14, g15, g16, g17⟩ := hg
    have hloc : s.loc x = .chk t := g3 t x hpc
    cases hs; gfin
  · rename_i x hpc
    cases hs
    unfold sendCancelled
    split
    · rename_i hqd; exact invG_finish_send hq hg t x (by simp [hpc]) hqd
    · exact (hg.setPc t .idle (by simp [hpc, gneutral]) (by simp [gneutral])).congr
        rfl rfl rfl rfl rfl rfl rfl rfl
  · rename_i x hpc
    cases hs
    unfold sendCancelled
    split
    · rename_i hqd; exact invG_finish_send hq hg t x (by simp [hpc]) hqd
    · exact (hg.setPc t .idle (by simp [hpc, gneutral]) (by simp [gneutral])).congr
        rfl rfl rfl rfl rfl rfl rfl rfl
  · rename_i x hpc
    split at hs
    · rename_i hqd; cases hs; exact invG_finish_send hq hg t x (by simp [hpc]) hqd
    · cases hs
      exact (hg.setPc t .idle (by simp [hpc, gneutral]) (by simp [gneutral])).congr
        rfl rfl rfl rfl rfl rfl rfl rfl
  · -- recvChk h false
    rename_i h hpc
    have hg1 := invG_recvCore hq hg h
    have hpc1 := recvCore_pc_of_neutral hq (t := t) (by simp [hpc, neutral]) h
    have hn : gneutral ((recvCore s h).1.pc t) = true := by rw [hpc1]; simp [hpc, gneutral]
    generalize recvCore s h = r at hs hg1 hn
    obtain ⟨s1, res⟩ := r
    cases res <;> simp only at hs <;> cases hs
    all_goals
      exact (hg1.setPc t _ hn (by simp [gneutral])).congr rfl rfl rfl rfl rfl rfl rfl rfl
  · rename_i hpc
    cases hs; exact hg.setPc t .idle (by simp [hpc, gneutral]) (by simp [gneutral])
  · rename_i hpc
    cases hs
    exact (hg.setPc t .idle (by simp [hpc, gneutral]) (by simp [gneutral])).congr
      rfl rfl rfl rfl rfl rfl rfl rfl
  · -- recvWoken (some x)
    rename_i x hpc
    obtain ⟨g1, g2, g3, g4, g5, g6, g7, g8, g9, g10, g11, g12, g13, g14, g15, g16, g17⟩ := hg
    have hloc : s.loc x = .slot t := g9 t x hpc
    cases hs; gfin
  · rename_i hpc
    cases hs
    exact (hg.setPc t .idle (by simp [hpc, gneutral]) (by simp [gneutral])).congr
      rfl rfl rfl rfl rfl rfl rfl rfl
  · -- recvWokenMC (some x)
    rename_i x hpc
    obtain ⟨g1, g2, g3, g4, g5, g6, g7, g8, g9, g10, g11, g12, g13, g14, g15, g16, g17⟩ := hg
    have hloc : s.loc x = .slot t := g10 t x hpc
    cases hs; gfin
  · rename_i hpc
    cases hs
    exact (hg.setPc t .idle (by simp [hpc, gneutral]) (by simp [gneutral])).congr
      rfl rfl rfl rfl rfl rfl rfl rfl

theorem invG_step {s s' : State} {e : Ev} {o : Out} (hq : InvQ s) (hg : InvG s)
    (hs : step s e = some (s', o)) : InvG s' := by
  cases e with
  | send t h x pre => exact invG_step_simple hq hg hs (Or.inl ⟨t, h, x, pre, rfl⟩)
  | receive t h pre => exact invG_step_simple hq hg hs (Or.inr (Or.inl ⟨t, h, pre, rfl⟩))
  | receiveNowait t h => exact invG_step_simple hq hg hs (Or.inr (Or.inr (Or.inl ⟨t, h, rfl⟩)))
  | closeS t h => exact invG_step_simple hq hg hs (Or.inr (Or.inr (Or.inr (Or.inl ⟨t, h, rfl⟩))))
  | closeR t h =>
    exact invG_step_simple hq hg hs (Or.inr (Or.inr (Or.inr (Or.inr (Or.inl ⟨t, h, rfl⟩)))))
  | cloneS t h =>
    exact invG_step_simple hq hg hs (Or.inr (Or.inr (Or.inr (Or.inr (Or.inr (Or.inl ⟨t, h, rfl⟩))))))
  | cloneR t h =>
    exact invG_step_simple hq hg hs (Or.inr (Or.inr (Or.inr (Or.inr (Or.inr (Or.inr ⟨t, h, rfl⟩))))))
  | sendNowait t h x P => exact invG_step_sendNowait hq hg hs
  | step t P => exact invG_step_step hq hg hs
  | fc t => exact invG_step_env hg (Or.inl hs)
  | mc t => exact invG_step_env hg (Or.inr hs)

theorem invG_reach {s : State} (h : Reach s) : InvG s := by
  have : InvQ s ∧ InvG s := by
    refine Reachable.invariant (fun s => InvQ s ∧ InvG s) ?_ ?_ s h
    · rintro s ⟨m, rfl⟩; exact ⟨invQ_init m, invG_init m⟩
    · intro s e s' o hi hs; exact ⟨invQ_step hi.1 hs, invG_step hi.1 hi.2 hs⟩
  exact this.2

end AnyioModel.Stream.Memory
