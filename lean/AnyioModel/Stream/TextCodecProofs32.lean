/-
Round-trip lemmas for the wide codecs of `TextCodecs` - part 2: UTF-32.  The incremental
decoder, fed `utf32EncodeChar le c` byte by byte from the state "nothing pending, byte order
`le` known", emits exactly `[c]` and is back in that state.
-/
import AnyioModel.Stream.TextCodecProofs

namespace AnyioModel.Stream.Text

/-- four bytes forming a scalar value -/
theorem utf32_decode_word (le : Bool) {a b c d : Byte} {ch : Char}
    (hc : mkChar (wordOf le [a, b, c, d]) = some ch) (x : Option Bool) :
    (utf32Decoder x).decode ⟨[], some le⟩ [a, b, c, d] = some (⟨[], some le⟩, [ch]) := by
  simp [Decoder.decode, utf32Decoder, utf32Step, hc]

/-- the four bytes written for a character are read back as its code point -/
theorem utf32_word_encode (le : Bool) (c : Char) :
    ∃ a b c' d, utf32EncodeChar le c = [a, b, c', d] ∧ wordOf le [a, b, c', d] = c.toNat := by
  have hv := char_valid c
  have h0 : c.toNat / 0x1000000 < 256 := by omega
  have h1 : c.toNat / 0x10000 % 256 < 256 := Nat.mod_lt _ (by decide)
  have h2 : c.toNat / 0x100 % 256 < 256 := Nat.mod_lt _ (by decide)
  have h3 : c.toNat % 256 < 256 := Nat.mod_lt _ (by decide)
  cases le with
  | true =>
    refine ⟨_, _, _, _, rfl, ?_⟩
    simp only [wordOf, if_true, List.reverse_cons, List.reverse_nil, List.nil_append,
      List.cons_append, List.foldl_cons, List.foldl_nil, toNat_ofNat_of_lt h0,
      toNat_ofNat_of_lt h1, toNat_ofNat_of_lt h2, toNat_ofNat_of_lt h3]
    omega
  | false =>
    refine ⟨_, _, _, _, rfl, ?_⟩
    simp only [wordOf, Bool.false_eq_true, if_false, List.foldl_cons, List.foldl_nil,
      toNat_ofNat_of_lt h0, toNat_ofNat_of_lt h1, toNat_ofNat_of_lt h2, toNat_ofNat_of_lt h3]
    omega

/-- **one character** -/
theorem utf32_decode_char (le : Bool) (x : Option Bool) (c : Char) :
    (utf32Decoder x).decode ⟨[], some le⟩ (utf32EncodeChar le c) = some (⟨[], some le⟩, [c]) := by
  obtain ⟨a, b, c', d, he, hw⟩ := utf32_word_encode le c
  rw [he]
  exact utf32_decode_word le (mkChar_of_eq hw) x

/-- a whole text, byte order known -/
theorem utf32_decode_encode (le : Bool) (x : Option Bool) (s : List Char) :
    (utf32Decoder x).decode ⟨[], some le⟩ (s.flatMap (utf32EncodeChar le)) =
      some (⟨[], some le⟩, s) :=
  decode_flatMap _ _ _ (utf32_decode_char le x) s

/-- the little-endian BOM switches the detecting decoder to little endian and emits nothing -/
theorem utf32_decode_bom (x : Option Bool) :
    (utf32Decoder x).decode ⟨[], none⟩ [0xFF, 0xFE, 0, 0] = some (⟨[], some true⟩, []) := by
  simp [Decoder.decode, utf32Decoder, utf32Step]

theorem utf32_decode_bom_be (x : Option Bool) :
    (utf32Decoder x).decode ⟨[], none⟩ [0, 0, 0xFE, 0xFF] = some (⟨[], some false⟩, []) := by
  simp [Decoder.decode, utf32Decoder, utf32Step]

end AnyioModel.Stream.Text
