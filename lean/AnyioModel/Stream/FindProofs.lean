/-
Lemmas about the delimiter search of `receive_until`: `find0` is "first occurrence", `find`
is "first occurrence at or after an offset", and the offset the code stores between two
iterations (`max(len(buf) - len(d) + 1, 0)`) loses no occurrence.
-/
import AnyioModel.Stream.Buffered

namespace AnyioModel.Stream.Buffered

/-- `d` occurs in `l` at index `j` -/
def Occ (d l : List Byte) (j : Nat) : Prop := j ≤ l.length ∧ d <+: l.drop j

/-- `i` is the index of the first occurrence of `d` in `l` -/
def FirstOcc (d l : List Byte) (i : Nat) : Prop := Occ d l i ∧ ∀ j, j < i → ¬ Occ d l j

theorem Occ.bound {d l : List Byte} {j : Nat} (h : Occ d l j) : j + d.length ≤ l.length := by
  have := h.2.length_le
  simp at this
  have := h.1
  omega

theorem occ_zero_iff {d l : List Byte} : Occ d l 0 ↔ d <+: l := by simp [Occ]

theorem occ_cons_succ {d : List Byte} {x : Byte} {xs : List Byte} {j : Nat} :
    Occ d (x :: xs) (j + 1) ↔ Occ d xs j := by simp [Occ]

theorem find0_spec (d : List Byte) : ∀ l : List Byte,
    (∀ i, find0 d l = some i → FirstOcc d l i) ∧ (find0 d l = none → ∀ j, ¬ Occ d l j)
  | [] => by
    simp only [find0]
    split
    · rename_i h
      rw [List.isPrefixOf_iff_prefix] at h
      refine ⟨?_, by simp⟩
      intro i hi
      cases hi
      exact ⟨occ_zero_iff.2 h, by simp⟩
    · rename_i h
      rw [List.isPrefixOf_iff_prefix] at h
      refine ⟨by simp, ?_⟩
      rintro - j ⟨hj, hp⟩
      simp at hj
      subst hj
      exact h (by simpa using hp)
  | x :: xs => by
    have ih := find0_spec d xs
    simp only [find0]
    split
    · rename_i h
      rw [List.isPrefixOf_iff_prefix] at h
      refine ⟨?_, by simp⟩
      intro i hi
      cases hi
      exact ⟨occ_zero_iff.2 h, by simp⟩
    · rename_i h
      rw [List.isPrefixOf_iff_prefix] at h
      constructor
      · intro i hi
        cases hf : find0 d xs with
        | none => simp [hf] at hi
        | some k =>
          simp [hf] at hi
          subst hi
          obtain ⟨ho, hmin⟩ := ih.1 k hf
          refine ⟨occ_cons_succ.2 ho, ?_⟩
          intro j hj
          cases j with
          | zero => exact fun hc => h (occ_zero_iff.1 hc)
          | succ j => exact fun hc => hmin j (by omega) (occ_cons_succ.1 hc)
      · intro hn j
        cases hf : find0 d xs with
        | some k => simp [hf] at hn
        | none =>
          cases j with
          | zero => exact fun hc => h (occ_zero_iff.1 hc)
          | succ j => exact fun hc => ih.2 hf j (occ_cons_succ.1 hc)

theorem firstOcc_unique {d l : List Byte} {i i' : Nat} (h : FirstOcc d l i)
    (h' : FirstOcc d l i') : i = i' := by
  have h1 := h.2 i'
  have h2 := h'.2 i
  have := h.1
  have := h'.1
  by_cases hlt : i < i'
  · exact absurd h.1 (h2 hlt)
  · by_cases hgt : i' < i
    · exact absurd h'.1 (h1 hgt)
    · omega

theorem find0_eq_some_iff {d l : List Byte} {i : Nat} : find0 d l = some i ↔ FirstOcc d l i := by
  constructor
  · exact (find0_spec d l).1 i
  · intro h
    cases hf : find0 d l with
    | none => exact absurd h.1 ((find0_spec d l).2 hf i)
    | some k => rw [firstOcc_unique ((find0_spec d l).1 k hf) h]

theorem find0_eq_none_iff {d l : List Byte} : find0 d l = none ↔ ∀ j, ¬ Occ d l j := by
  constructor
  · exact (find0_spec d l).2
  · intro h
    cases hf : find0 d l with
    | none => rfl
    | some k => exact absurd ((find0_spec d l).1 k hf).1 (h k)

theorem occ_drop {d l : List Byte} {off j : Nat} (ho : off ≤ l.length) :
    Occ d (l.drop off) j ↔ Occ d l (j + off) := by
  simp only [Occ, List.length_drop, List.drop_drop]
  rw [Nat.add_comm off j]
  constructor
  · rintro ⟨h1, h2⟩; exact ⟨by omega, h2⟩
  · rintro ⟨h1, h2⟩; exact ⟨by omega, h2⟩

/-- `find` returns the first occurrence at or after `off` -/
theorem find_spec (d l : List Byte) (off : Nat) :
    (∀ i, find d l off = some i →
      off ≤ i ∧ Occ d l i ∧ ∀ j, off ≤ j → j < i → ¬ Occ d l j) ∧
    (find d l off = none → ∀ j, off ≤ j → ¬ Occ d l j) := by
  unfold find
  split
  · rename_i ho
    constructor
    · intro i hi
      cases hf : find0 d (l.drop off) with
      | none => simp [hf] at hi
      | some k =>
        simp [hf] at hi
        subst hi
        obtain ⟨hocc, hmin⟩ := find0_eq_some_iff.1 hf
        refine ⟨by omega, (occ_drop ho).1 hocc, ?_⟩
        intro j hj1 hj2 hc
        have : Occ d (l.drop off) (j - off) := (occ_drop ho).2 (by rwa [Nat.sub_add_cancel hj1])
        exact hmin (j - off) (by omega) this
    · intro hn j hj hc
      cases hf : find0 d (l.drop off) with
      | some k => simp [hf] at hn
      | none =>
        have : Occ d (l.drop off) (j - off) := (occ_drop ho).2 (by rwa [Nat.sub_add_cancel hj])
        exact find0_eq_none_iff.1 hf _ this
  · rename_i ho
    refine ⟨by simp, ?_⟩
    rintro - j hj ⟨hc, -⟩
    omega

/-- Searching from an offset below which there is no occurrence is searching from 0. -/
theorem find_eq_find0_of_no_occ_below {d l : List Byte} {off : Nat}
    (h : ∀ j, j < off → ¬ Occ d l j) : find d l off = find0 d l := by
  have hs := find_spec d l off
  cases hf : find d l off with
  | none =>
    symm
    rw [find0_eq_none_iff]
    intro j hc
    by_cases hj : j < off
    · exact h j hj hc
    · exact hs.2 hf j (by omega) hc
  | some i =>
    symm
    rw [find0_eq_some_iff]
    obtain ⟨h1, h2, h3⟩ := hs.1 i hf
    refine ⟨h2, ?_⟩
    intro j hj hc
    by_cases hjo : j < off
    · exact h j hjo hc
    · exact h3 j (by omega) hj hc

/-- an occurrence that ends inside `l` is an occurrence in `l ++ c` and conversely -/
theorem occ_append_iff {d l c : List Byte} {j : Nat} (hj : j + d.length ≤ l.length) :
    Occ d (l ++ c) j ↔ Occ d l j := by
  have hjl : j ≤ l.length := by omega
  simp only [Occ, List.length_append, List.drop_append_of_le_length hjl]
  constructor
  · rintro ⟨-, hp⟩
    refine ⟨hjl, ?_⟩
    exact List.prefix_of_prefix_length_le hp (List.prefix_append _ _) (by simp; omega)
  · rintro ⟨-, hp⟩
    exact ⟨by omega, hp.trans (List.prefix_append _ _)⟩

/-- the guard against the off-by-one: after appending `c` to a buffer in which `d` does not
occur, every occurrence starts at `len(buf) - len(d) + 1` or later -/
theorem no_occ_below_offset {d buf c : List Byte} (h : ∀ j, ¬ Occ d buf j) :
    ∀ j, j < buf.length + 1 - d.length → ¬ Occ d (buf ++ c) j := by
  intro j hj hc
  exact h j ((occ_append_iff (by omega)).1 hc)

/-- a first occurrence in `l` stays the first occurrence when more data follows -/
theorem firstOcc_append {d l c : List Byte} {i : Nat} (h : FirstOcc d l i) :
    FirstOcc d (l ++ c) i := by
  have hb := h.1.bound
  refine ⟨(occ_append_iff hb).2 h.1, ?_⟩
  intro j hj hc
  exact h.2 j hj ((occ_append_iff (by omega)).1 hc)

theorem occ_of_occ_take {d l : List Byte} {m j : Nat} (h : Occ d (l.take m) j) : Occ d l j := by
  obtain ⟨h1, h2⟩ := h
  refine ⟨by simp at h1; omega, ?_⟩
  rw [List.drop_take] at h2
  exact h2.trans (List.take_prefix _ _)

end AnyioModel.Stream.Buffered
