/-
Per-sender order in the memory-stream model, list level.

Only three ghost fields matter for "the items offered by a task enter the stream in the order
the task offered them": `loc`, `offered`, `entered` (`Gh`).  Every model step is a composition
of three kinds of ghost micro-transitions (`Trans`):
  `Quiet`  nothing is offered, nothing enters (locations may move forward),
  `Offer`  task `t` offers the fresh id `x` (`t` has no other item in flight),
  `Enter`  the item `x`, in flight for task `u` (argument of `u`'s send in its checkpoint, or
           `u`'s entry in `waiting_senders`), enters the stream.
`OrdInv` is preserved by each of them.  The step-by-step pass that shows that `step` only does
such transitions is in `MemoryOrderStep`.
-/
import AnyioModel.Stream.MemoryAcc

namespace AnyioModel.Stream.Memory

/-- the items offered by task `t`, in the order of `t`'s calls -/
def offersOf (off : List (Nat × Nat)) (t : Nat) : List Nat :=
  (off.filter (fun p => p.1 = t)).map (·.2)

/-- the items of `l` that were offered by task `t`, in the order of `l` -/
def byTask (off : List (Nat × Nat)) (t : Nat) (l : List Nat) : List Nat :=
  l.filter (fun x => decide ((t, x) ∈ off))

/-! ### list facts -/

theorem offersOf_snoc (off : List (Nat × Nat)) (t x t' : Nat) :
    offersOf (off ++ [(t, x)]) t' = offersOf off t' ++ (if t = t' then [x] else []) := by
  simp only [offersOf, List.filter_append, List.map_append]
  by_cases h : t = t' <;> simp [h]

theorem mem_offersOf {off : List (Nat × Nat)} {t x : Nat} : x ∈ offersOf off t ↔ (t, x) ∈ off := by
  simp only [offersOf, List.mem_map, List.mem_filter, decide_eq_true_eq]
  constructor
  · rintro ⟨⟨a, b⟩, ⟨hm, rfl⟩, rfl⟩; exact hm
  · intro h; exact ⟨(t, x), ⟨h, rfl⟩, rfl⟩

theorem mem_byTask {off : List (Nat × Nat)} {t x : Nat} {l : List Nat} :
    x ∈ byTask off t l ↔ x ∈ l ∧ (t, x) ∈ off := by
  simp [byTask]

/-- item ids are offered once, so an item has one owner -/
theorem owner_unique {off : List (Nat × Nat)} (hn : (off.map (·.2)).Nodup) {t t' x : Nat}
    (h1 : (t, x) ∈ off) (h2 : (t', x) ∈ off) : t = t' := by
  induction off with
  | nil => cases h1
  | cons p rest ih =>
    simp only [List.map_cons, List.nodup_cons, List.mem_map, not_exists, not_and] at hn
    rcases List.mem_cons.mp h1 with e1 | e1 <;> rcases List.mem_cons.mp h2 with e2 | e2
    · rw [← e1] at e2; cases e2; rfl
    · exact absurd (by rw [← e1]) (hn.1 (t', x) e2)
    · exact absurd (by rw [← e2]) (hn.1 (t, x) e1)
    · exact ih hn.2 e1 e2

theorem byTask_snoc (off : List (Nat × Nat)) (t x : Nat) (l : List Nat) :
    byTask off t (l ++ [x]) = byTask off t l ++ (if (t, x) ∈ off then [x] else []) := by
  simp only [byTask, List.filter_append]
  by_cases h : (t, x) ∈ off <;> simp [h]

theorem byTask_append (off : List (Nat × Nat)) (t : Nat) (l l' : List Nat) :
    byTask off t (l ++ l') = byTask off t l ++ byTask off t l' := by
  simp [byTask]

/-- offering an id that is not in `l` does not change who offered the items of `l` -/
theorem byTask_off_snoc {off : List (Nat × Nat)} {t x : Nat} {l : List Nat} (hx : x ∉ l) (t' : Nat) :
    byTask (off ++ [(t, x)]) t' l = byTask off t' l := by
  unfold byTask
  apply List.filter_congr
  intro y hy
  have hne : y ≠ x := fun e => hx (e ▸ hy)
  simp [hne]

theorem sublist_of_snoc {l1 l : List Nat} {x : Nat} (h : l1.Sublist (l ++ [x])) (hx : x ∉ l1) :
    l1.Sublist l := by
  obtain ⟨a, b, rfl, ha, hb⟩ := List.sublist_append_iff.mp h
  have hb0 : b = [] := by
    cases b with
    | nil => rfl
    | cons c cs =>
      have hc : c ∈ [x] := hb.subset (by simp)
      simp only [List.mem_singleton] at hc
      subst hc
      exact absurd (by simp) hx
  subst hb0
  simpa using ha

/-! ### the ghost projection and its micro-transitions -/

structure Gh where
  loc : Nat → Loc
  offered : List (Nat × Nat)
  entered : List Nat

def State.gh (s : State) : Gh := ⟨s.loc, s.offered, s.entered⟩

/-- `x` is in flight for task `t` and has not entered the stream: argument of `t`'s `send`
that is still in its checkpoint, or `t`'s entry in `waiting_senders` -/
def Pend (g : Gh) (t x : Nat) : Prop := g.loc x = .chk t ∨ g.loc x = .queued t

structure OrdInv (g : Gh) : Prop where
  /-- an item that entered the stream is in the buffer, in a receiver's slot, delivered or lost -/
  ent_loc : ∀ x, x ∈ g.entered → (g.loc x).entered = true
  /-- an item enters at most once -/
  ent_nodup : g.entered.Nodup
  /-- an item id is offered at most once -/
  off_nodup : (g.offered.map (·.2)).Nodup
  /-- an item in flight is the last item its task offered -/
  pend_last : ∀ t x, Pend g t x → ∃ l, offersOf g.offered t = l ++ [x]
  /-- per task, entry order is offer order -/
  sub : ∀ t, (byTask g.offered t g.entered).Sublist (offersOf g.offered t)

structure Quiet (g g' : Gh) : Prop where
  off : g'.offered = g.offered
  ent : g'.entered = g.entered
  pend : ∀ t y, Pend g' t y → Pend g t y
  mono : ∀ y, (g.loc y).entered = true → (g'.loc y).entered = true

structure Offer (g g' : Gh) (t x : Nat) : Prop where
  off : g'.offered = g.offered ++ [(t, x)]
  ent : g'.entered = g.entered
  fresh : g.loc x = .fresh
  noff : ∀ u, (u, x) ∉ g.offered
  nopend : ∀ y, ¬ Pend g t y
  pend : ∀ t' y, Pend g' t' y → Pend g t' y ∨ (t' = t ∧ y = x)
  mono : ∀ y, (g.loc y).entered = true → (g'.loc y).entered = true

structure Enter (g g' : Gh) (u x : Nat) : Prop where
  off : g'.offered = g.offered
  ent : g'.entered = g.entered ++ [x]
  was : Pend g u x
  now : (g'.loc x).entered = true
  pend : ∀ t y, Pend g' t y → Pend g t y
  mono : ∀ y, (g.loc y).entered = true → (g'.loc y).entered = true

inductive Trans : Gh → Gh → Prop
  | quiet {g g'} : Quiet g g' → Trans g g'
  | offer {g g'} (t x : Nat) : Offer g g' t x → Trans g g'
  | enter {g g'} (u x : Nat) : Enter g g' u x → Trans g g'
  | comp {g m g'} : Trans g m → Trans m g' → Trans g g'

theorem OrdInv.quiet {g g' : Gh} (hi : OrdInv g) (q : Quiet g g') : OrdInv g' := by
  obtain ⟨i1, i2, i3, i4, i5⟩ := hi
  obtain ⟨q1, q2, q3, q4⟩ := q
  refine ⟨?_, ?_, ?_, ?_, ?_⟩
  · intro x hx; rw [q2] at hx; exact q4 x (i1 x hx)
  · rw [q2]; exact i2
  · rw [q1]; exact i3
  · intro t x hp; rw [q1]; exact i4 t x (q3 t x hp)
  · intro t; rw [q1, q2]; exact i5 t

theorem OrdInv.offer {g g' : Gh} {t x : Nat} (hi : OrdInv g) (q : Offer g g' t x) : OrdInv g' := by
  obtain ⟨i1, i2, i3, i4, i5⟩ := hi
  obtain ⟨q1, q2, qf, qn, qp, q3, q4⟩ := q
  have hxe : x ∉ g.entered := by
    intro hm; have := i1 x hm; rw [qf] at this; simp at this
  refine ⟨?_, ?_, ?_, ?_, ?_⟩
  · intro y hy; rw [q2] at hy; exact q4 y (i1 y hy)
  · rw [q2]; exact i2
  · rw [q1]; simp only [List.map_append, List.map_cons, List.map_nil]
    apply nodup_snoc i3
    intro hm
    obtain ⟨⟨u, y⟩, hm', rfl⟩ := List.mem_map.mp hm
    exact qn u hm'
  · intro t' y hp
    rw [q1, offersOf_snoc]
    rcases q3 t' y hp with h | ⟨h1, h2⟩
    · obtain ⟨l, hl⟩ := i4 t' y h
      by_cases htt : t = t'
      · subst htt; exact absurd h (qp y)
      · exact ⟨l, by simp [htt, hl]⟩
    · subst h1; subst h2
      exact ⟨offersOf g.offered t', by simp⟩
  · intro t'
    rw [q1, q2, byTask_off_snoc hxe, offersOf_snoc]
    exact (i5 t').trans (List.sublist_append_left _ _)

theorem OrdInv.enter {g g' : Gh} {u x : Nat} (hi : OrdInv g) (q : Enter g g' u x) : OrdInv g' := by
  obtain ⟨i1, i2, i3, i4, i5⟩ := hi
  obtain ⟨q1, q2, qw, qn, q3, q4⟩ := q
  have hxe : x ∉ g.entered := by
    intro hm; have := i1 x hm
    rcases qw with h | h <;> rw [h] at this <;> simp at this
  obtain ⟨l, hl⟩ := i4 u x qw
  have hux : (u, x) ∈ g.offered := mem_offersOf.mp (by rw [hl]; simp)
  refine ⟨?_, ?_, ?_, ?_, ?_⟩
  · intro y hy; rw [q2] at hy
    rcases List.mem_append.mp hy with h | h
    · exact q4 y (i1 y h)
    · simp only [List.mem_singleton] at h; subst h; exact qn
  · rw [q2]; exact nodup_snoc i2 hxe
  · rw [q1]; exact i3
  · intro t y hp; rw [q1]; exact i4 t y (q3 t y hp)
  · intro t
    rw [q1, q2, byTask_snoc]
    by_cases ht : (t, x) ∈ g.offered
    · have htu : t = u := owner_unique i3 ht hux
      subst htu
      simp only [ht, if_true]
      have h5 := i5 t
      rw [hl] at h5 ⊢
      have hx' : x ∉ byTask g.offered t g.entered := fun hm => hxe (mem_byTask.mp hm).1
      exact List.Sublist.append (sublist_of_snoc h5 hx') (List.Sublist.refl _)
    · simp only [ht, if_false, List.append_nil]; exact i5 t

theorem OrdInv.trans {g g' : Gh} (hi : OrdInv g) (h : Trans g g') : OrdInv g' := by
  induction h with
  | quiet q => exact hi.quiet q
  | offer t x q => exact hi.offer q
  | enter u x q => exact hi.enter q
  | comp _ _ ih1 ih2 => exact ih2 (ih1 hi)

/-! ### how the model produces the micro-transitions -/

theorem Quiet.of_eq {g g' : Gh} (h1 : g'.loc = g.loc) (h2 : g'.offered = g.offered)
    (h3 : g'.entered = g.entered) : Quiet g g' :=
  ⟨h2, h3, fun t y hp => by simpa [Pend, h1] using hp, fun y hy => by rw [h1]; exact hy⟩

theorem Trans.refl (g : Gh) : Trans g g := .quiet (Quiet.of_eq rfl rfl rfl)

/-- one location moves: forward inside the stream, or from "in flight" to "in flight for the
same task" / "rejected" -/
theorem Quiet.setLoc (g : Gh) (x : Nat) (l : Loc)
    (h1 : (g.loc x).entered = true → l.entered = true)
    (h2 : ∀ t, l = .chk t ∨ l = .queued t → Pend g t x) :
    Quiet g ⟨upd g.loc x l, g.offered, g.entered⟩ := by
  refine ⟨rfl, rfl, ?_, ?_⟩
  · intro t y hp
    by_cases hy : y = x
    · subst hy; simp only [Pend, upd_same] at hp; exact h2 t hp
    · simpa only [Pend, upd_other _ _ _ _ hy] using hp
  · intro y hy
    by_cases hyx : y = x
    · subst hyx; simp only [upd_same]; exact h1 hy
    · simpa only [upd_other _ _ _ _ hyx] using hy

/-- a fresh id is offered by `t`; its location becomes `l` (in `t`'s checkpoint, or -- for a
`send_nowait` that raises -- rejected at once) -/
theorem Offer.setLoc (g : Gh) (t x : Nat) (l : Loc) (hf : g.loc x = .fresh)
    (hno : ∀ u, (u, x) ∉ g.offered) (hnp : ∀ y, ¬ Pend g t y)
    (hl : ∀ t', l = .chk t' ∨ l = .queued t' → t' = t) :
    Offer g ⟨upd g.loc x l, g.offered ++ [(t, x)], g.entered⟩ t x := by
  refine ⟨rfl, rfl, hf, hno, hnp, ?_, ?_⟩
  · intro t' y hp
    by_cases hy : y = x
    · subst hy; simp only [Pend, upd_same] at hp; exact Or.inr ⟨hl t' hp, rfl⟩
    · left; simpa only [Pend, upd_other _ _ _ _ hy] using hp
  · intro y hy
    by_cases hyx : y = x
    · subst hyx; rw [hf] at hy; simp at hy
    · simpa only [upd_other _ _ _ _ hyx] using hy

/-- the in-flight item `x` enters: its location becomes `l` (buffer or a receiver's slot);
`loc0` agrees with the old locations except possibly at `x` -/
theorem Enter.setLoc (g : Gh) (loc0 : Nat → Loc) (u x : Nat) (l : Loc) (hp : Pend g u x)
    (hl : l.entered = true) (h0 : ∀ y, y ≠ x → loc0 y = g.loc y) :
    Enter g ⟨upd loc0 x l, g.offered, g.entered ++ [x]⟩ u x := by
  refine ⟨rfl, rfl, hp, by simpa using hl, ?_, ?_⟩
  · intro t y hq
    by_cases hy : y = x
    · subst hy
      simp only [Pend, upd_same] at hq
      rcases hq with h | h <;> rw [h] at hl <;> simp at hl
    · simpa only [Pend, upd_other _ _ _ _ hy, h0 y hy] using hq
  · intro y hy
    by_cases hyx : y = x
    · subst hyx; simpa using hl
    · simpa only [upd_other _ _ _ _ hyx, h0 y hyx] using hy

end AnyioModel.Stream.Memory
