/-
C08 helper definitions for the memory object stream model.  No model is changed here.

* `actor e`          the task that executes event `e`;
* `InChk t s`        task `t` is inside the `checkpoint()` that opens `send`/`receive`;
* `other_keeps_pc`   no event executed by another task moves a task that is in that checkpoint
                     (needs only that the task is not in `waiting_receivers`, which the
                     reachable-state invariant `InvQ` provides);
* `SameObs t s s'`   nothing observable happened to the stream: all fields of
                     `_MemoryObjectStreamState` (buffer, max size, open-channel counters, both
                     waiting lists), the handle tables, every other task's program counter and
                     the ghost stream history (`entered`, `handed`, `delivered`, `accepted`,
                     `interrupted`, `lost`) are the same.  Not included: `t`'s own program
                     counter and the ghost bookkeeping *of the call itself* (`offered`,
                     `loc x`, `rejected`: "this item was offered and never entered").
-/
import AnyioModel.Stream.MemoryInvStep

namespace AnyioModel.Props.C08Aux.Mem
open AnyioModel.Stream.Memory

def actor : Ev → Nat
  | .send t _ _ _ => t | .sendNowait t _ _ _ => t | .receive t _ _ => t
  | .receiveNowait t _ => t | .closeS t _ => t | .closeR t _ => t | .cloneS t _ => t
  | .cloneR t _ => t | .step t _ => t | .fc t => t | .mc t => t

def SameObs (t : Nat) (s s' : State) : Prop :=
  s'.maxSize = s.maxSize ∧ s'.buffer = s.buffer ∧ s'.openSend = s.openSend ∧
  s'.openRecv = s.openRecv ∧ s'.waitingReceivers = s.waitingReceivers ∧
  s'.waitingSenders = s.waitingSenders ∧ s'.nS = s.nS ∧ s'.nR = s.nR ∧
  s'.closedS = s.closedS ∧ s'.closedR = s.closedR ∧
  s'.entered = s.entered ∧ s'.handed = s.handed ∧ s'.delivered = s.delivered ∧
  s'.accepted = s.accepted ∧ s'.interrupted = s.interrupted ∧ s'.lost = s.lost ∧
  ∀ u, u ≠ t → s'.pc u = s.pc u

theorem SameObs.refl (t : Nat) (s : State) : SameObs t s s := by simp [SameObs]

/-- no live receiver is waiting: `send_nowait`'s scan of `waiting_receivers` finds nobody -/
theorem scanR_nil (pend : Nat → Bool) : scanR pend [] = ([], none) := rfl

theorem scanR_live (pend : Nat → Bool) (u : Nat) (us : List Nat) (h : pend u = false) :
    scanR pend (u :: us) = ([], some (u, us)) := by
  simp [scanR, h]

/-- `t` is inside the opening `checkpoint()` of `send`/`receive` -/
def InChk (t : Nat) (s : State) : Prop :=
  (∃ h x pre, s.pc t = .sendChk h x pre) ∨ (∃ x, s.pc t = .sendChkMC x) ∨
  (∃ h pre, s.pc t = .recvChk h pre) ∨ s.pc t = .recvChkMC

theorem wakeSender_inChk {s : State} {t : Nat} (hp : InChk t s) : wakeSender (s.pc t) = s.pc t := by
  rcases hp with ⟨h, x, pre, hp⟩ | ⟨x, hp⟩ | ⟨h, pre, hp⟩ | hp <;> simp [hp, wakeSender]

theorem wakeRecv_inChk {s : State} {t : Nat} (hp : InChk t s) : wakeRecv (s.pc t) = s.pc t := by
  rcases hp with ⟨h, x, pre, hp⟩ | ⟨x, hp⟩ | ⟨h, pre, hp⟩ | hp <;> simp [hp, wakeRecv]

theorem orphanize_inChk {s : State} {t : Nat} (hp : InChk t s) (d : List Nat) :
    orphanize d s.pc t = s.pc t := by
  unfold orphanize
  rcases hp with ⟨h, x, pre, hp⟩ | ⟨x, hp⟩ | ⟨h, pre, hp⟩ | hp <;> simp [hp]

theorem scanR_mem (pend : Nat → Bool) (l : List Nat) {u : Nat} {rest d : List Nat}
    (h : scanR pend l = (d, some (u, rest))) : u ∈ l := by
  induction l generalizing d with
  | nil => simp [scanR] at h
  | cons v vs ih =>
    simp only [scanR] at h
    split at h
    · simp only [Prod.mk.injEq] at h
      exact List.mem_cons_of_mem _ (ih (d := (scanR pend vs).1) (Prod.ext rfl h.2))
    · simp only [Prod.mk.injEq, Option.some.injEq] at h
      rw [← h.2.1]; simp

theorem sendCore_pc {s : State} {t : Nat} (hp : InChk t s) (hq : t ∉ s.waitingReceivers)
    (h x : Nat) (P : List Nat) (s0 : State) (hpc : s0.pc = s.pc)
    (hwr : s0.waitingReceivers = s.waitingReceivers) : (sendCore s0 h x P).1.pc t = s.pc t := by
  have hp0 : InChk t s0 := by unfold InChk at hp ⊢; rw [hpc]; exact hp
  unfold sendCore
  split; · rw [hpc]
  split; · rw [hpc]
  split
  · rename_i d u rest hsc
    have hu : u ∈ s0.waitingReceivers := scanR_mem _ _ hsc
    have hne : t ≠ u := by intro h; subst h; rw [hwr] at hu; exact hq hu
    simp [hne, hpc, orphanize_inChk hp]
  · split <;> simp [hpc, orphanize_inChk hp]

theorem pullSender_pc {s : State} {t : Nat} (hp : InChk t s) : (pullSender s).pc t = s.pc t := by
  unfold pullSender
  split
  · rfl
  · rename_i u x b rest _
    simp only [upd]
    split
    · rename_i h; subst h; exact wakeSender_inChk hp
    · rfl

theorem recvCore_pc {s : State} {t : Nat} (hp : InChk t s) (h : Nat) :
    (recvCore s h).1.pc t = s.pc t := by
  unfold recvCore
  split; · rfl
  split <;> (try split) <;> simp [pullSender_pc hp]

/-- an event executed by another task does not move a task that is inside the opening checkpoint -/
theorem other_keeps_pc {s s' : State} {e : Ev} {o : Out} {t : Nat} (hp : InChk t s)
    (hq : t ∉ s.waitingReceivers) (he : actor e ≠ t) (hs : step s e = some (s', o)) :
    s'.pc t = s.pc t := by
  have hne : t ≠ actor e := fun h => he h.symm
  cases e <;> simp only [actor] at hne <;> simp only [step] at hs
  case send u h x pre =>
    split at hs; · contradiction
    cases hs; simp [hne]
  case sendNowait u h x P =>
    split at hs; · contradiction
    have := sendCore_pc hp hq h x P { s with offered := s.offered ++ [(u, x)] } rfl rfl
    split at hs <;> (cases hs; rename_i heq; rw [heq] at this; simp [reject, hne]; exact this)
  case receive u h pre =>
    split at hs; · contradiction
    cases hs; simp [hne]
  case receiveNowait u h =>
    split at hs; · contradiction
    have := recvCore_pc hp h
    split at hs <;> (cases hs; rename_i heq; rw [heq] at this; exact this)
  case closeS u h =>
    repeat' split at hs
    all_goals first | contradiction | (cases hs; first | rfl | (simp [wakeRecv_inChk hp]))
  case closeR u h =>
    repeat' split at hs
    all_goals first | contradiction | (cases hs; first | rfl | (simp [wakeSender_inChk hp]))
  case cloneS u h =>
    repeat' split at hs
    all_goals first | contradiction | (cases hs; rfl)
  case cloneR u h =>
    repeat' split at hs
    all_goals first | contradiction | (cases hs; rfl)
  case fc u =>
    split at hs
    all_goals first | contradiction | (cases hs; simp [hne])
  case mc u =>
    split at hs
    all_goals first | contradiction | (cases hs; simp [hne])
  case step u P =>
    split at hs
    all_goals try contradiction
    · rename_i h x _
      have := sendCore_pc hp hq h x P s rfl rfl
      split at hs <;> (cases hs; rename_i heq; rw [heq] at this; simp [reject, hne]; exact this)
    · cases hs; simp [reject, hne]
    · cases hs; unfold sendCancelled; split <;> simp [reject, hne]
    · cases hs; unfold sendCancelled; split <;> simp [reject, hne]
    · split at hs <;> (cases hs; simp [reject, hne])
    · rename_i h _
      have := recvCore_pc hp h
      split at hs <;> (cases hs; rename_i heq; rw [heq] at this; simp [hne]; exact this)
    all_goals (cases hs; simp [hne])

theorem inChk_not_waiting {s : State} (hi : InvQ s) {t : Nat} (hp : InChk t s) :
    t ∉ s.waitingReceivers := by
  intro hm
  have := hi.wr_pc t hm
  rcases hp with ⟨h, x, pre, hp⟩ | ⟨x, hp⟩ | ⟨h, pre, hp⟩ | hp <;> simp [hp] at this

end AnyioModel.Props.C08Aux.Mem
