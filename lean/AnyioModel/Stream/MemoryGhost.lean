/-
Ghost-state invariants of the memory-stream model: the stream is a FIFO queue
(`entered = handed ++ buffer`), and under scope-only cancellation no item is ever lost.
-/
import AnyioModel.Stream.MemoryInvStep

namespace AnyioModel.Stream.Memory

/-! ### FIFO -/

/-- items leave the stream in the order they entered it -/
def Fifo (s : State) : Prop := s.entered = s.handed ++ s.buffer

theorem Fifo.congr {s s' : State} (hf : Fifo s) (e1 : s'.entered = s.entered)
    (e2 : s'.handed = s.handed) (e3 : s'.buffer = s.buffer) : Fifo s' := by
  unfold Fifo at *; rw [e1, e2, e3]; exact hf

theorem fifo_sendCore {s : State} (hi : InvQ s) (hf : Fifo s) (h x : Nat) (P : List Nat) :
    Fifo (sendCore s h x P).1 := by
  rcases sendCore_cases s h x P with ⟨hc, he⟩ | ⟨hc, ho, he⟩ | ⟨hc, ho, d, u, rest, hw, hd, hu, huP, he⟩ |
    ⟨hc, ho, hd, hf', he⟩ | ⟨hc, ho, hd, hf', he⟩
  · rw [he]; exact hf
  · rw [he]; exact hf
  · rw [he]
    have hb : s.buffer = [] := Classical.byContradiction fun hb => by
      have := hi.buf_wr hb; simp [hw] at this
    unfold Fifo at *
    simp [hf, hb]
  · rw [he]; unfold Fifo at *; simp [hf]
  · rw [he]; exact hf

theorem fifo_recvCore {s : State} (hf : Fifo s) (h : Nat) : Fifo (recvCore s h).1 := by
  rcases recvCore_cases s h with ⟨hc, he⟩ | ⟨hc, hws, hb, ho, he⟩ | ⟨hc, hws, hb, ho, he⟩ |
    ⟨hc, hws, y, ys, hb, he⟩ | ⟨hc, u, x, b, rest, y, ys, hws, hb, he⟩
  · rw [he]; exact hf
  · rw [he]; exact hf
  · rw [he]; exact hf
  · rw [he]; unfold Fifo at *; simp [hf, hb]
  · rw [he]; unfold Fifo at *
    simp only [hf, List.append_assoc, hb, List.singleton_append]

theorem fifo_step {s s' : State} {e : Ev} {o : Out} (hi : InvQ s) (hf : Fifo s)
    (hs : step s e = some (s', o)) : Fifo s' := by
  cases e with
  | send t h x pre =>
    simp only [step] at hs; split at hs; · contradiction
    cases hs; exact hf.congr rfl rfl rfl
  | receive t h pre =>
    simp only [step] at hs; split at hs; · contradiction
    cases hs; exact hf.congr rfl rfl rfl
  | sendNowait t h x P =>
    simp only [step] at hs; split at hs; · contradiction
    have hi0 : InvQ { s with offered := s.offered ++ [(t, x)] } :=
      hi.congr rfl rfl rfl rfl rfl rfl rfl rfl rfl rfl rfl
    have := fifo_sendCore hi0 (hf.congr rfl rfl rfl) h x P
    generalize sendCore _ h x P = r at hs this
    obtain ⟨s1, res⟩ := r
    cases res <;> simp only at hs <;> cases hs <;> exact this.congr rfl rfl rfl
  | receiveNowait t h =>
    simp only [step] at hs; split at hs; · contradiction
    have := fifo_recvCore hf h
    generalize recvCore s h = r at hs this
    obtain ⟨s1, res⟩ := r
    cases res <;> simp only at hs <;> cases hs <;> exact this
  | closeS t h =>
    simp only [step] at hs
    split at hs <;> (try split at hs) <;> (try split at hs) <;> simp at hs <;>
      (rw [← hs.1]; exact hf.congr rfl rfl rfl)
  | closeR t h =>
    simp only [step] at hs
    split at hs <;> (try split at hs) <;> (try split at hs) <;> simp at hs <;>
      (rw [← hs.1]; exact hf.congr rfl rfl rfl)
  | cloneS t h =>
    simp only [step] at hs
    split at hs <;> (try split at hs) <;> simp at hs <;> (rw [← hs.1]; exact hf.congr rfl rfl rfl)
  | cloneR t h =>
    simp only [step] at hs
    split at hs <;> (try split at hs) <;> simp at hs <;> (rw [← hs.1]; exact hf.congr rfl rfl rfl)
  | fc t =>
    simp only [step] at hs
    split at hs <;> simp at hs <;> (rw [← hs.1]; exact hf.congr rfl rfl rfl)
  | mc t =>
    simp only [step] at hs
    split at hs <;> simp at hs <;> (rw [← hs.1]; exact hf.congr rfl rfl rfl)
  | step t P =>
    simp only [step] at hs
    split at hs <;> try contradiction
    · rename_i h x hpc
      have := fifo_sendCore hi hf h x P
      generalize sendCore s h x P = r at hs this
      obtain ⟨s1, res⟩ := r
      cases res <;> simp only at hs <;> cases hs <;> exact this.congr rfl rfl rfl
    · cases hs; exact hf.congr rfl rfl rfl
    · cases hs; unfold sendCancelled; split <;> exact hf.congr rfl rfl rfl
    · cases hs; unfold sendCancelled; split <;> exact hf.congr rfl rfl rfl
    · split at hs <;> (cases hs; exact hf.congr rfl rfl rfl)
    · rename_i h hpc
      have := fifo_recvCore hf h
      generalize recvCore s h = r at hs this
      obtain ⟨s1, res⟩ := r
      cases res <;> simp only at hs <;> cases hs <;> exact this.congr rfl rfl rfl
    all_goals (cases hs; exact hf.congr rfl rfl rfl)

theorem fifo_reach {s : State} (h : Reach s) : Fifo s := by
  have : InvQ s ∧ Fifo s := by
    refine Reachable.invariant (fun s => InvQ s ∧ Fifo s) ?_ ?_ s h
    · rintro s ⟨m, rfl⟩; exact ⟨invQ_init m, rfl⟩
    · intro s e s' o hi hs; exact ⟨invQ_step hi.1 hs, fifo_step hi.1 hi.2 hs⟩
  exact this.2


/-! ### no loss under scope-only cancellation -/

/-- the one environment event the C12 claim excludes (DESIGN section 4): a native
`Task.cancel()` that sets `_must_cancel` on a receiver whose slot already holds an item -/
def NativeAfterHandover (s : State) (e : Ev) : Prop :=
  ∃ t x, e = .mc t ∧ s.pc t = .recvWoken (some x)

/-- states reachable without that event -/
inductive ReachScope : State → Prop
  | start (m : Option Nat) : ReachScope (init m)
  | next {s e s' o} : ReachScope s → step s e = some (s', o) → ¬ NativeAfterHandover s e →
      ReachScope s'

theorem ReachScope.reach {s : State} (h : ReachScope s) : Reach s := by
  induction h with
  | start m => exact Reachable.start ⟨m, rfl⟩
  | next _ hs _ ih => exact Reachable.next ih hs

/-- nothing lost so far and no receiver is about to lose its slot -/
def NL (s : State) : Prop := s.lost = [] ∧ ∀ t x, s.pc t ≠ .recvWokenMC (some x)

theorem NL.mapPc {s s' : State} (hn : NL s) (e1 : s'.lost = s.lost)
    (e2 : ∀ v, s'.pc v = s.pc v ∨ ∀ x, s'.pc v ≠ .recvWokenMC (some x)) : NL s' := by
  refine ⟨by rw [e1]; exact hn.1, fun t x hp => ?_⟩
  rcases e2 t with h | h
  · rw [h] at hp; exact hn.2 t x hp
  · exact h x hp

theorem nl_sendCore {s : State} (hn : NL s) (h x : Nat) (P : List Nat) : NL (sendCore s h x P).1 := by
  rcases sendCore_cases s h x P with ⟨hc, he⟩ | ⟨hc, ho, he⟩ | ⟨hc, ho, d, u, rest, hw, hd, hu, huP, he⟩ |
    ⟨hc, ho, hd, hf', he⟩ | ⟨hc, ho, hd, hf', he⟩
  all_goals rw [he]
  · exact hn
  · exact hn
  all_goals
    refine hn.mapPc rfl (fun v => ?_)
    simp only [upd_apply, orphanize_apply]
    grind

theorem nl_recvCore {s : State} (hn : NL s) (h : Nat) : NL (recvCore s h).1 := by
  rcases recvCore_cases s h with ⟨hc, he⟩ | ⟨hc, hws, hb, ho, he⟩ | ⟨hc, hws, hb, ho, he⟩ |
    ⟨hc, hws, y, ys, hb, he⟩ | ⟨hc, u, x, b, rest, y, ys, hws, hb, he⟩
  all_goals rw [he]
  · exact hn
  · exact hn
  · exact hn
  · exact hn.mapPc rfl (fun v => Or.inl rfl)
  · refine hn.mapPc rfl (fun v => ?_)
    simp only [upd_apply]
    rcases wakeSender_cases (s.pc u) with ⟨x0, hp0, hw0⟩ | ⟨hp0, hw0⟩ <;> rw [hw0] <;> grind

theorem nl_step {s s' : State} {e : Ev} {o : Out} (hn : NL s) (hs : step s e = some (s', o))
    (hne : ¬ NativeAfterHandover s e) : NL s' := by
  cases e with
  | send t h x pre =>
    simp only [step] at hs; split at hs; · contradiction
    cases hs; exact hn.mapPc rfl (fun v => by simp only [upd_apply]; grind)
  | receive t h pre =>
    simp only [step] at hs; split at hs; · contradiction
    cases hs; exact hn.mapPc rfl (fun v => by simp only [upd_apply]; grind)
  | sendNowait t h x P =>
    simp only [step] at hs; split at hs; · contradiction
    have := nl_sendCore (s := { s with offered := s.offered ++ [(t, x)] }) hn h x P
    generalize sendCore _ h x P = r at hs this
    obtain ⟨s1, res⟩ := r
    cases res <;> simp only at hs <;> cases hs <;>
      exact this.mapPc rfl (fun v => by simp only [reject, upd_apply]; grind)
  | receiveNowait t h =>
    simp only [step] at hs; split at hs; · contradiction
    have := nl_recvCore hn h
    generalize recvCore s h = r at hs this
    obtain ⟨s1, res⟩ := r
    cases res <;> simp only at hs <;> cases hs <;> exact this
  | closeS t h =>
    simp only [step] at hs
    split at hs <;> (try split at hs) <;> (try split at hs) <;> simp at hs <;>
      (rw [← hs.1]; exact hn.mapPc rfl (fun v => by simp only [wakeRecv_eq]; grind))
  | closeR t h =>
    simp only [step] at hs
    have hwk := wakeSender_cases
    split at hs <;> (try split at hs) <;> (try split at hs) <;> simp at hs <;>
      (rw [← hs.1]; exact hn.mapPc rfl (fun v => by grind))
  | cloneS t h =>
    simp only [step] at hs
    split at hs <;> (try split at hs) <;> simp at hs <;>
      (rw [← hs.1]; exact hn.mapPc rfl (fun v => Or.inl rfl))
  | cloneR t h =>
    simp only [step] at hs
    split at hs <;> (try split at hs) <;> simp at hs <;>
      (rw [← hs.1]; exact hn.mapPc rfl (fun v => Or.inl rfl))
  | fc t =>
    simp only [step] at hs
    split at hs <;> simp at hs <;>
      (rw [← hs.1]; exact hn.mapPc rfl (fun v => by simp only [upd_apply]; grind))
  | mc t =>
    simp only [step] at hs
    split at hs <;> try contradiction
    · cases hs; exact hn.mapPc rfl (fun v => by simp only [upd_apply]; grind)
    · cases hs; exact hn.mapPc rfl (fun v => by simp only [upd_apply]; grind)
    · cases hs; exact hn.mapPc rfl (fun v => by simp only [upd_apply]; grind)
    · rename_i sl hpc
      cases hs
      cases sl with
      | none => exact hn.mapPc rfl (fun v => by simp only [upd_apply]; grind)
      | some x => exact absurd ⟨t, x, rfl, hpc⟩ hne
  | step t P =>
    simp only [step] at hs
    split at hs <;> try contradiction
    · rename_i h x hpc
      have := nl_sendCore hn h x P
      generalize sendCore s h x P = r at hs this
      obtain ⟨s1, res⟩ := r
      cases res <;> simp only at hs <;> cases hs <;>
        exact this.mapPc rfl (fun v => by simp only [reject, upd_apply]; grind)
    · cases hs; exact hn.mapPc rfl (fun v => by simp only [reject, upd_apply]; grind)
    · cases hs; unfold sendCancelled
      split <;> exact hn.mapPc rfl (fun v => by simp only [reject, upd_apply]; grind)
    · cases hs; unfold sendCancelled
      split <;> exact hn.mapPc rfl (fun v => by simp only [reject, upd_apply]; grind)
    · split at hs <;>
        (cases hs; exact hn.mapPc rfl (fun v => by simp only [reject, upd_apply]; grind))
    · rename_i h hpc
      have := nl_recvCore hn h
      generalize recvCore s h = r at hs this
      obtain ⟨s1, res⟩ := r
      cases res <;> simp only at hs <;> cases hs <;>
        exact this.mapPc rfl (fun v => by simp only [upd_apply]; grind)
    · cases hs; exact hn.mapPc rfl (fun v => by simp only [upd_apply]; grind)
    · cases hs; exact hn.mapPc rfl (fun v => by simp only [upd_apply]; grind)
    · cases hs; exact hn.mapPc rfl (fun v => by simp only [upd_apply]; grind)
    · cases hs; exact hn.mapPc rfl (fun v => by simp only [upd_apply]; grind)
    · rename_i x hpc; exact absurd hpc (hn.2 t x)
    · cases hs; exact hn.mapPc rfl (fun v => by simp only [upd_apply]; grind)

theorem nl_reachScope {s : State} (h : ReachScope s) : NL s := by
  induction h with
  | start m => exact ⟨rfl, fun t x hp => by simp [init] at hp⟩
  | next _ hs hne ih => exact nl_step ih hs hne

end AnyioModel.Stream.Memory
