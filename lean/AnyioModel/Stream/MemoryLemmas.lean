/-
Helper lemmas for the memory-stream model: the receiver scan, explicit case descriptions of
the bodies of `send_nowait` / `receive_nowait`, and counting of open handles.
-/
import AnyioModel.Stream.Memory

namespace AnyioModel.Stream.Memory

/-! ### counting open handles -/

/-- number of handles `h < n` with `closed h = false` -/
def openCount (closed : Nat → Bool) : Nat → Nat
  | 0 => 0
  | n + 1 => openCount closed n + (if closed n = true then 0 else 1)

theorem openCount_congr {c c' : Nat → Bool} {n : Nat} (h : ∀ i, i < n → c i = c' i) :
    openCount c n = openCount c' n := by
  induction n with
  | zero => rfl
  | succ n ih =>
    simp only [openCount]
    rw [ih (fun i hi => h i (by omega)), h n (by omega)]

theorem openCount_close {c : Nat → Bool} {n h : Nat} (hh : h < n) (ho : c h = false) :
    openCount (upd c h true) n + 1 = openCount c n := by
  induction n with
  | zero => omega
  | succ n ih =>
    simp only [openCount]
    by_cases hn : h = n
    · subst hn
      have : openCount (upd c h true) h = openCount c h :=
        openCount_congr (fun i hi => by simp [upd_apply]; omega)
      simp [this, ho]
    · have hlt : h < n := by omega
      have := ih hlt
      have hne : n ≠ h := fun e => hn e.symm
      simp only [upd_other _ _ _ _ hne]
      omega

theorem openCount_zero {c : Nat → Bool} {n : Nat} (h0 : openCount c n = 0) :
    ∀ h, h < n → c h = true := by
  induction n with
  | zero => intro h hh; omega
  | succ n ih =>
    simp only [openCount] at h0
    intro h hh
    by_cases hn : h = n
    · subst hn
      cases hc : c h with
      | true => rfl
      | false => simp [hc] at h0
    · exact ih (by omega) h (by omega)

theorem openCount_pos {c : Nat → Bool} {n h : Nat} (hh : h < n) (ho : c h = false) :
    0 < openCount c n := by
  cases hz : openCount c n with
  | zero => have := openCount_zero hz h hh; simp [ho] at this
  | succ k => omega

/-! ### the receiver scan of `send_nowait` -/

theorem scanR_spec (pend : Nat → Bool) (l : List Nat) :
    (∃ d u rest, scanR pend l = (d, some (u, rest)) ∧ l = d ++ u :: rest ∧
        (∀ v ∈ d, pend v = true) ∧ pend u = false) ∨
    (scanR pend l = (l, none) ∧ ∀ v ∈ l, pend v = true) := by
  induction l with
  | nil => right; simp [scanR]
  | cons a l ih =>
    by_cases ha : pend a = true
    · rcases ih with ⟨d, u, rest, h1, h2, h3, h4⟩ | ⟨h1, h2⟩
      · left
        refine ⟨a :: d, u, rest, by simp [scanR, ha, h1], by simp [h2], ?_, h4⟩
        intro v hv
        rcases List.mem_cons.mp hv with rfl | hv
        · exact ha
        · exact h3 v hv
      · right
        refine ⟨by simp [scanR, ha, h1], ?_⟩
        intro v hv
        rcases List.mem_cons.mp hv with rfl | hv
        · exact ha
        · exact h2 v hv
    · left
      exact ⟨[], a, l, by simp [scanR, ha], by simp, by simp, by simpa using ha⟩

/-- the five ways `send_nowait` can go, with the resulting state spelled out -/
theorem sendCore_cases (s : State) (h x : Nat) (P : List Nat) :
    (s.closedS h = true ∧ sendCore s h x P = (s, .closed)) ∨
    (s.closedS h = false ∧ s.openRecv = 0 ∧ sendCore s h x P = (s, .broken)) ∨
    (s.closedS h = false ∧ s.openRecv ≠ 0 ∧ ∃ d u rest, s.waitingReceivers = d ++ u :: rest ∧
      (∀ v ∈ d, s.pc v = .recvWaitFC ∨ v ∈ P) ∧ s.pc u ≠ .recvWaitFC ∧ u ∉ P ∧
      sendCore s h x P =
        ({ s with waitingReceivers := rest,
                  pc := upd (orphanize d s.pc) u (.recvWoken (some x)),
                  loc := upd s.loc x (.slot u),
                  entered := s.entered ++ [x], handed := s.handed ++ [x] }, .done)) ∨
    (s.closedS h = false ∧ s.openRecv ≠ 0 ∧
      (∀ v ∈ s.waitingReceivers, s.pc v = .recvWaitFC ∨ v ∈ P) ∧
      fits s.maxSize s.buffer.length = true ∧
      sendCore s h x P =
        ({ s with waitingReceivers := [], pc := orphanize s.waitingReceivers s.pc,
                  buffer := s.buffer ++ [x], loc := upd s.loc x .buffered,
                  entered := s.entered ++ [x] }, .done)) ∨
    (s.closedS h = false ∧ s.openRecv ≠ 0 ∧
      (∀ v ∈ s.waitingReceivers, s.pc v = .recvWaitFC ∨ v ∈ P) ∧
      fits s.maxSize s.buffer.length = false ∧
      sendCore s h x P =
        ({ s with waitingReceivers := [], pc := orphanize s.waitingReceivers s.pc },
         .wouldBlock)) := by
  by_cases hc : s.closedS h = true
  · left; exact ⟨hc, by simp [sendCore, hc]⟩
  · right
    have hc' : s.closedS h = false := by simpa using hc
    by_cases ho : s.openRecv = 0
    · left; exact ⟨hc', ho, by simp [sendCore, hc', ho]⟩
    · right
      rcases scanR_spec (fun u => decide (s.pc u = .recvWaitFC ∨ u ∈ P)) s.waitingReceivers with
        ⟨d, u, rest, h1, h2, h3, h4⟩ | ⟨h1, h2⟩
      · left
        refine ⟨hc', ho, d, u, rest, h2, ?_, ?_, ?_, ?_⟩
        · intro v hv; simpa using h3 v hv
        · intro hu; simp [hu] at h4
        · intro hu; simp [hu] at h4
        · simp only [sendCore, hc', ho, h1, Bool.false_eq_true, ↓reduceIte]
      · right
        have hp : ∀ v ∈ s.waitingReceivers, s.pc v = .recvWaitFC ∨ v ∈ P := by
          intro v hv; simpa using h2 v hv
        by_cases hf : fits s.maxSize s.buffer.length = true
        · left
          exact ⟨hc', ho, hp, hf, by simp only [sendCore, hc', ho, h1, hf, Bool.false_eq_true, ↓reduceIte]⟩
        · right
          have hf' : fits s.maxSize s.buffer.length = false := by simpa using hf
          exact ⟨hc', ho, hp, hf', by simp only [sendCore, hc', ho, h1, hf', Bool.false_eq_true, ↓reduceIte]⟩

/-- the ways `receive_nowait` can go -/
theorem recvCore_cases (s : State) (h : Nat) :
    (s.closedR h = true ∧ recvCore s h = (s, .closed)) ∨
    (s.closedR h = false ∧ s.waitingSenders = [] ∧ s.buffer = [] ∧ s.openSend = 0 ∧
      recvCore s h = (s, .eos)) ∨
    (s.closedR h = false ∧ s.waitingSenders = [] ∧ s.buffer = [] ∧ s.openSend ≠ 0 ∧
      recvCore s h = (s, .wouldBlock)) ∨
    (s.closedR h = false ∧ s.waitingSenders = [] ∧ ∃ y ys, s.buffer = y :: ys ∧
      recvCore s h =
        ({ s with buffer := ys, handed := s.handed ++ [y], delivered := s.delivered ++ [y],
                  loc := upd s.loc y .delivered }, .item y)) ∨
    (s.closedR h = false ∧ ∃ u x b rest y ys, s.waitingSenders = (u, x, b) :: rest ∧
      s.buffer ++ [x] = y :: ys ∧
      recvCore s h =
        ({ s with waitingSenders := rest, buffer := ys,
                  pc := upd s.pc u (wakeSender (s.pc u)),
                  loc := upd (upd s.loc x .buffered) y .delivered,
                  entered := s.entered ++ [x], handed := s.handed ++ [y],
                  delivered := s.delivered ++ [y] }, .item y)) := by
  by_cases hc : s.closedR h = true
  · left; exact ⟨hc, by simp [recvCore, hc]⟩
  · right
    have hc' : s.closedR h = false := by simpa using hc
    by_cases hws : s.waitingSenders = []
    · have hp : pullSender s = s := by simp [pullSender, hws]
      by_cases hb : s.buffer = []
      · by_cases ho : s.openSend = 0
        · left; exact ⟨hc', hws, hb, ho, by simp [recvCore, hc', hp, hb, ho]⟩
        · right; left; exact ⟨hc', hws, hb, ho, by simp [recvCore, hc', hp, hb, ho]⟩
      · obtain ⟨y, ys, hb⟩ := List.exists_cons_of_ne_nil hb
        right; right; left
        exact ⟨hc', hws, y, ys, hb, by simp [recvCore, hc', hp, hb]⟩
    · obtain ⟨⟨u, x, b⟩, rest, hws⟩ := List.exists_cons_of_ne_nil hws
      right; right; right
      have hne : s.buffer ++ [x] ≠ [] := by simp
      obtain ⟨y, ys, hb⟩ := List.exists_cons_of_ne_nil hne
      refine ⟨hc', u, x, b, rest, y, ys, hws, hb, ?_⟩
      simp [recvCore, hc', pullSender, hws, hb]

/-! ### small list facts -/

theorem mem_rmSender {t : Nat} {ws : List (Nat × Nat × Bool)} {w} :
    w ∈ rmSender t ws ↔ w ∈ ws ∧ w.1 ≠ t := by
  simp [rmSender]

theorem mem_rmRecv {t u : Nat} {wr : List Nat} : u ∈ rmRecv t wr ↔ u ∈ wr ∧ u ≠ t := by
  simp [rmRecv]

theorem queuedS_iff {t : Nat} {ws : List (Nat × Nat × Bool)} :
    queuedS t ws = true ↔ ∃ x b, (t, x, b) ∈ ws := by
  simp only [queuedS, List.any_eq_true, decide_eq_true_eq]
  constructor
  · rintro ⟨⟨a, x, b⟩, hm, rfl⟩; exact ⟨x, b, hm⟩
  · rintro ⟨x, b, hm⟩; exact ⟨(t, x, b), hm, rfl⟩

theorem queuedS_false_iff {t : Nat} {ws : List (Nat × Nat × Bool)} :
    queuedS t ws = false ↔ ∀ x b, (t, x, b) ∉ ws := by
  rw [← Bool.not_eq_true, queuedS_iff]
  simp

theorem isOffered_iff {s : State} {x : Nat} : isOffered s x = true ↔ ∃ t, (t, x) ∈ s.offered := by
  simp only [isOffered, List.any_eq_true, decide_eq_true_eq]
  constructor
  · rintro ⟨⟨t, y⟩, hm, rfl⟩; exact ⟨t, hm⟩
  · rintro ⟨t, hm⟩; exact ⟨(t, x), hm, rfl⟩

end AnyioModel.Stream.Memory
