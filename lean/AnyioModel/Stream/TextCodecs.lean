/-
Concrete incremental codecs for the text-stream model: UTF-8 (over Lean core's
`ByteArray.utf8DecodeChar?` / `List.utf8Encode`, so that core's round-trip lemmas apply),
latin-1, UTF-16 and UTF-32 (little/big endian and the BOM-detecting / BOM-writing variants,
as CPython on a little-endian machine).

The decoders are *lenient about malformed input*: a byte sequence is reported as an error
only when no continuation could complete it (CPython reports some malformed sequences a few
bytes earlier).  The correspondence check therefore feeds the model well-formed encodings
only - which is all the property speaks about.
-/
import AnyioModel.Stream.Text

namespace AnyioModel.Stream.Text

/-! ### UTF-8 -/

/-- state: the bytes of a not yet complete character -/
def utf8Step (p : List Byte) (b : Byte) : Option (List Byte × List Char) :=
  let q := p ++ [b]
  match ByteArray.utf8DecodeChar? q.toByteArray 0 with
  | some c => some ([], [c])
  | none => if q.length < 4 then some (q, []) else none

def utf8Decoder : Decoder (List Byte) Char := ⟨[], utf8Step⟩

def utf8Encoder : Encoder Unit Char :=
  ⟨(), fun _ s => some ((), s.flatMap String.utf8EncodeChar)⟩

/-! ### latin-1 -/

def latin1Decoder : Decoder Unit Char := ⟨(), fun _ b => some ((), [Char.ofNat b.toNat])⟩

def latin1Encoder : Encoder Unit Char :=
  ⟨(), fun _ s => if s.all (fun c => c.toNat < 256) then
      some ((), s.map (fun c => UInt8.ofNat c.toNat)) else none⟩

/-! ### UTF-16 / UTF-32 -/

def mkChar (n : Nat) : Option Char :=
  if n < 0xD800 ∨ (0xDFFF < n ∧ n < 0x110000) then some (Char.ofNat n) else none

/-- decoder state: pending bytes and byte order (`none`: still waiting for a possible BOM;
`some true`: little endian) -/
structure WState where
  pend : List Byte
  le : Option Bool
  deriving DecidableEq, Repr

def unitOf (le : Bool) (a b : Byte) : Nat :=
  if le then a.toNat + 256 * b.toNat else 256 * a.toNat + b.toNat

def utf16Units (le : Bool) (q : List Byte) : Option (List Byte × List Char) :=
  match q with
  | [a, b] =>
    let u := unitOf le a b
    if 0xD800 ≤ u ∧ u < 0xDC00 then some (q, [])
    else match mkChar u with
      | some c => some ([], [c])
      | none => none
  | [a, b, c, d] =>
    let u := unitOf le a b
    let v := unitOf le c d
    if 0xDC00 ≤ v ∧ v < 0xE000 then
      match mkChar (0x10000 + (u - 0xD800) * 0x400 + (v - 0xDC00)) with
      | some ch => some ([], [ch])
      | none => none
    else none
  | _ => some (q, [])

def utf16Step (s : WState) (b : Byte) : Option (WState × List Char) :=
  let q := s.pend ++ [b]
  match s.le with
  | none =>
    if q.length < 2 then some (⟨q, none⟩, [])
    else if q = [0xFF, 0xFE] then some (⟨[], some true⟩, [])
    else if q = [0xFE, 0xFF] then some (⟨[], some false⟩, [])
    else none  -- CPython: "UTF-16 stream does not start with BOM"
  | some le => (utf16Units le q).map fun (p, o) => (⟨p, some le⟩, o)

def utf16Decoder (le : Option Bool) : Decoder WState Char := ⟨⟨[], le⟩, utf16Step⟩

def wordOf (le : Bool) (q : List Byte) : Nat :=
  let l := if le then q.reverse else q
  l.foldl (fun acc b => 256 * acc + b.toNat) 0

def utf32Step (s : WState) (b : Byte) : Option (WState × List Char) :=
  let q := s.pend ++ [b]
  if q.length < 4 then some (⟨q, s.le⟩, [])
  else match s.le with
    | none =>
      if q = [0xFF, 0xFE, 0, 0] then some (⟨[], some true⟩, [])
      else if q = [0, 0, 0xFE, 0xFF] then some (⟨[], some false⟩, [])
      else none  -- CPython: "UTF-32 stream does not start with BOM"
    | some le => (mkChar (wordOf le q)).map fun c => (⟨[], some le⟩, [c])

def utf32Decoder (le : Option Bool) : Decoder WState Char := ⟨⟨[], le⟩, utf32Step⟩

def unitBytes (le : Bool) (u : Nat) : List Byte :=
  if le then [UInt8.ofNat (u % 256), UInt8.ofNat (u / 256)]
  else [UInt8.ofNat (u / 256), UInt8.ofNat (u % 256)]

def utf16EncodeChar (le : Bool) (c : Char) : List Byte :=
  let n := c.toNat
  if n < 0x10000 then unitBytes le n
  else
    let m := n - 0x10000
    unitBytes le (0xD800 + m / 0x400) ++ unitBytes le (0xDC00 + m % 0x400)

def utf32EncodeChar (le : Bool) (c : Char) : List Byte :=
  let n := c.toNat
  let bs := [UInt8.ofNat (n / 0x1000000), UInt8.ofNat (n / 0x10000 % 256),
             UInt8.ofNat (n / 0x100 % 256), UInt8.ofNat (n % 256)]
  if le then bs.reverse else bs

/-- encoder state: `true` = a BOM still has to be written by the next `encode` call (CPython
writes it on the first call even for an empty string) -/
def wideEncoder (encChar : Bool → Char → List Byte) (bom : List Byte) (le : Bool)
    (withBom : Bool) : Encoder Bool Char :=
  ⟨withBom, fun st s => some (false, (if st then bom else []) ++ s.flatMap (encChar le))⟩

def utf16Encoder (le : Option Bool) : Encoder Bool Char :=
  wideEncoder utf16EncodeChar [0xFF, 0xFE] (le.getD true) le.isNone

def utf32Encoder (le : Option Bool) : Encoder Bool Char :=
  wideEncoder utf32EncodeChar [0xFF, 0xFE, 0, 0] (le.getD true) le.isNone

end AnyioModel.Stream.Text
