/-
Model of AnyIO's memory object streams (src/anyio/streams/memory.py:
`_MemoryObjectStreamState`, `MemoryObjectSendStream`, `MemoryObjectReceiveStream`;
`create_memory_object_stream` in src/anyio/_core/_streams.py), cut at its awaits into
atomic segments.  One model for C12 (delivery) and C13 (closing).

Shared state = the fields of `_MemoryObjectStreamState`:
  `buffer`, `max_buffer_size` (`none` = math.inf), `open_send_channels`,
  `open_receive_channels`, `waiting_receivers` (OrderedDict: here the list of the waiting
  tasks in insertion order), `waiting_senders` (OrderedDict event -> item: here
  `(task, item, eventSet)` in insertion order),
plus the `_closed` flag of every stream object ("handle"; send and receive handles are
numbered separately from 0, `clone()` creates handle number `nS` / `nR`).

The `_MemoryObjectItemReceiver.item` slot of a receiver and the state of the `Event` a task
waits on live in the frame of the suspended `receive()`/`send()`; they are part of the
task's program counter (`recvWoken slot`, `sendWoken`, ...).

Segments
* `send`:    [call .. `await checkpoint()`]  [`send_nowait`; on WouldBlock enqueue ..
             `await send_event.wait()`]  [wake-up: still queued -> BrokenResourceError,
             else return | cancellation: `waiting_senders.pop(send_event, None)`, re-raise]
* `receive`: [call .. `await checkpoint()`]  [`receive_nowait`; on WouldBlock enqueue ..
             `await receive_event.wait()`]  [wake-up: `waiting_receivers.pop(ev, None)`;
             slot filled -> return it, else EndOfStream | cancellation: pop, re-raise --
             an item already in the slot is dropped with the frame (memory.py:125-133)]
* `send_nowait`, `receive_nowait`, `close` (= `aclose`, which has no await), `clone`:
  one segment each.

Events
* `send t h x pre`, `sendNowait t h x P`, `receive t h pre`, `receiveNowait t h`,
  `closeS/closeR t h`, `cloneS/cloneR t h`: task `t` (running, not inside another stream
  operation) calls the method on handle `h`.  `x` is the item: a unique ghost id, the event
  is enabled only for an id never offered before.  `pre` = the caller's cancel scope is
  already cancelled on entry.
* `step t P`: the event loop resumes `t` (one segment).
* `fc t`: `t`'s pending waiter future is cancelled (cancel-scope delivery, deadline, or
  native `Task.cancel()` while the future is pending).
* `mc t`: `Task._must_cancel` is set on `t` while it has no pending future: it is suspended
  in the bare `sleep(0)` of `checkpoint()`, or its event was already set (a native
  `Task.cancel()` between hand-over and wake-up; AnyIO's own delivery never does this,
  `_deliver_cancellation` skips tasks whose waiter is done).

`P` (on the two events that execute `send_nowait`'s body) is the environment's part of
`TaskInfo.has_pending_cancellation()` (src/anyio/_backends/_asyncio.py:2253-2268): the list
of tasks for which it reads true at that moment.  The model itself knows the clause
"`_fut_waiter` is cancelled" (`recvWaitFC`); a receiver is treated as pending if the model
knows it or the environment says so.  A receiver that the environment reports pending while
its future is not cancelled yet is dropped from the queue like the code does and parked in
`recvOrphan`, where only `fc` is enabled (DESIGN section 5 C12: a receiver reported pending
is subsequently cancelled, never handed an item).

Ghost state (history variables, never read by the executable part except the freshness
test of item ids): `loc`, `offered`, `entered`, `handed`, `delivered`, `accepted`,
`rejected`, `interrupted`, `lost`.
-/
import AnyioModel.Util.LTS

namespace AnyioModel.Stream.Memory

inductive Pc where
  | idle
  | sendChk (h x : Nat) (pre : Bool)  -- in send()'s checkpoint
  | sendChkMC (x : Nat)               -- same, cancellation has landed
  | sendWait (x : Nat)                -- queued in waiting_senders, future pending
  | sendWaitFC (x : Nat)              -- future cancelled, wake-up (which raises) not yet run
  | sendWoken (x : Nat)               -- event set, wake-up not yet run
  | sendWokenMC (x : Nat)             -- same, native cancellation pending
  | recvChk (h : Nat) (pre : Bool)
  | recvChkMC
  | recvWait                          -- queued in waiting_receivers, future pending
  | recvOrphan                        -- dropped from the queue as "pending cancellation", future still pending
  | recvWaitFC                        -- future cancelled, wake-up not yet run
  | recvWoken (slot : Option Nat)     -- event set; `slot` = receiver.item
  | recvWokenMC (slot : Option Nat)   -- same, native cancellation pending
  deriving DecidableEq, Repr, Inhabited

inductive Out where
  | susp
  | ret
  | item (x : Nat)
  | handle (h : Nat)
  | wouldBlock
  | closed        -- ClosedResourceError
  | broken        -- BrokenResourceError
  | eos           -- EndOfStream
  | cancelled
  | env
  deriving DecidableEq, Repr

inductive Ev where
  | send (t h x : Nat) (pre : Bool)
  | sendNowait (t h x : Nat) (P : List Nat)
  | receive (t h : Nat) (pre : Bool)
  | receiveNowait (t h : Nat)
  | closeS (t h : Nat)
  | closeR (t h : Nat)
  | cloneS (t h : Nat)
  | cloneR (t h : Nat)
  | step (t : Nat) (P : List Nat)
  | fc (t : Nat)
  | mc (t : Nat)
  deriving DecidableEq, Repr

/-- ghost: where an item id currently is -/
inductive Loc where
  | fresh               -- never offered
  | chk (t : Nat)       -- argument of a `send` that is still in its checkpoint
  | queued (t : Nat)    -- in `waiting_senders`, put there by task `t`
  | buffered
  | slot (t : Nat)      -- in the receiver slot of task `t`, whose wake-up has not run yet
  | delivered           -- returned by a receive call
  | rejected            -- the send call raised and the item never entered the stream
  | lost                -- dropped with the frame of a receive that raised (only under `mc`)
  deriving DecidableEq, Repr, Inhabited

structure State where
  maxSize : Option Nat
  buffer : List Nat
  openSend : Nat
  openRecv : Nat
  waitingReceivers : List Nat
  waitingSenders : List (Nat × Nat × Bool)
  nS : Nat
  nR : Nat
  closedS : Nat → Bool
  closedR : Nat → Bool
  pc : Nat → Pc
  -- ghost
  loc : Nat → Loc
  offered : List (Nat × Nat)   -- (task, item) in call order
  entered : List Nat           -- items in the order they entered the stream (buffer or direct hand-over)
  handed : List Nat            -- items in the order they left it towards a receiver
  delivered : List Nat         -- items in the order receive calls returned them
  accepted : List Nat          -- send / send_nowait returned normally
  rejected : List Nat
  interrupted : List Nat       -- send raised the cancellation exception after its item had entered
  lost : List Nat

def init (maxSize : Option Nat) : State :=
  { maxSize, buffer := [], openSend := 1, openRecv := 1, waitingReceivers := [],
    waitingSenders := [], nS := 1, nR := 1, closedS := fun _ => false, closedR := fun _ => false,
    pc := fun _ => .idle, loc := fun _ => .fresh, offered := [], entered := [], handed := [],
    delivered := [], accepted := [], rejected := [], interrupted := [], lost := [] }

/-- `len(buffer) < max_buffer_size` -/
def fits : Option Nat → Nat → Bool
  | none, _ => true
  | some m, n => decide (n < m)

/-- the `while self._state.waiting_receivers:` loop of `send_nowait`: pop from the head, skip
(and thereby drop) receivers with a pending cancellation; result = (dropped, first live one
and the rest of the queue) -/
def scanR (pend : Nat → Bool) : List Nat → List Nat × Option (Nat × List Nat)
  | [] => ([], none)
  | u :: us =>
    if pend u then ((u :: (scanR pend us).1), (scanR pend us).2)
    else ([], some (u, us))

/-- dropped receivers whose future is still pending wait for their cancellation -/
def orphanize (d : List Nat) (pc : Nat → Pc) : Nat → Pc :=
  fun v => if v ∈ d ∧ pc v = .recvWait then .recvOrphan else pc v

def wakeSender : Pc → Pc
  | .sendWait x => .sendWoken x
  | p => p

def wakeRecv : Pc → Pc
  | .recvWait => .recvWoken none
  | p => p

inductive SendRes where
  | done | wouldBlock | closed | broken
  deriving DecidableEq, Repr

/-- body of `send_nowait(item)` on send handle `h` (memory.py:218-233) -/
def sendCore (s : State) (h x : Nat) (P : List Nat) : State × SendRes :=
  if s.closedS h = true then (s, .closed)
  else if s.openRecv = 0 then (s, .broken)
  else
    match scanR (fun u => decide (s.pc u = .recvWaitFC ∨ u ∈ P)) s.waitingReceivers with
    | (d, some (u, rest)) =>
      ({ s with waitingReceivers := rest,
                pc := upd (orphanize d s.pc) u (.recvWoken (some x)),
                loc := upd s.loc x (.slot u),
                entered := s.entered ++ [x], handed := s.handed ++ [x] }, .done)
    | (d, none) =>
      if fits s.maxSize s.buffer.length = true then
        ({ s with waitingReceivers := [], pc := orphanize d s.pc,
                  buffer := s.buffer ++ [x], loc := upd s.loc x .buffered,
                  entered := s.entered ++ [x] }, .done)
      else
        ({ s with waitingReceivers := [], pc := orphanize d s.pc }, .wouldBlock)

/-- `if self._state.waiting_senders: popitem(last=False); buffer.append(item); send_event.set()` -/
def pullSender (s : State) : State :=
  match s.waitingSenders with
  | [] => s
  | (u, x, _) :: rest =>
    { s with waitingSenders := rest, buffer := s.buffer ++ [x],
             pc := upd s.pc u (wakeSender (s.pc u)),
             loc := upd s.loc x .buffered, entered := s.entered ++ [x] }

inductive RecvRes where
  | item (x : Nat) | wouldBlock | closed | eos
  deriving DecidableEq, Repr

/-- body of `receive_nowait()` on receive handle `h` (memory.py:99-113); a returned item is
recorded as delivered here (both callers return it to the user in the same segment) -/
def recvCore (s : State) (h : Nat) : State × RecvRes :=
  if s.closedR h = true then (s, .closed)
  else
    match (pullSender s).buffer with
    | y :: ys =>
      ({ pullSender s with buffer := ys, handed := (pullSender s).handed ++ [y],
                           delivered := (pullSender s).delivered ++ [y],
                           loc := upd (pullSender s).loc y .delivered }, .item y)
    | [] => if (pullSender s).openSend = 0 then (pullSender s, .eos) else (pullSender s, .wouldBlock)

def rmSender (t : Nat) (ws : List (Nat × Nat × Bool)) : List (Nat × Nat × Bool) :=
  ws.filter (fun w => w.1 ≠ t)

def queuedS (t : Nat) (ws : List (Nat × Nat × Bool)) : Bool :=
  ws.any (fun w => w.1 = t)

def rmRecv (t : Nat) (wr : List Nat) : List Nat :=
  wr.filter (fun u => u ≠ t)

def isOffered (s : State) (x : Nat) : Bool :=
  s.offered.any (fun p => p.2 = x)

/-- a send call ends with an exception and its item did not enter the stream -/
def reject (s : State) (t x : Nat) : State :=
  { s with pc := upd s.pc t .idle, loc := upd s.loc x .rejected, rejected := s.rejected ++ [x] }

/-- the wake-up segment of a blocked `send` that is raising the cancellation exception:
`self._state.waiting_senders.pop(send_event, None); raise` -/
def sendCancelled (s : State) (t x : Nat) : State :=
  if queuedS t s.waitingSenders = true then
    reject { s with waitingSenders := rmSender t s.waitingSenders } t x
  else
    { s with pc := upd s.pc t .idle, interrupted := s.interrupted ++ [x] }

def step (s : State) : Ev → Option (State × Out)
  | .send t h x pre =>
    if s.pc t ≠ .idle ∨ ¬ h < s.nS ∨ isOffered s x = true then none else
    some ({ s with pc := upd s.pc t (.sendChk h x pre), offered := s.offered ++ [(t, x)],
                   loc := upd s.loc x (.chk t) }, .susp)
  | .sendNowait t h x P =>
    if s.pc t ≠ .idle ∨ ¬ h < s.nS ∨ isOffered s x = true then none else
    match sendCore { s with offered := s.offered ++ [(t, x)] } h x P with
    | (s1, .done) => some ({ s1 with accepted := s1.accepted ++ [x] }, .ret)
    | (s1, .wouldBlock) => some (reject s1 t x, .wouldBlock)
    | (s1, .closed) => some (reject s1 t x, .closed)
    | (s1, .broken) => some (reject s1 t x, .broken)
  | .receive t h pre =>
    if s.pc t ≠ .idle ∨ ¬ h < s.nR then none else
    some ({ s with pc := upd s.pc t (.recvChk h pre) }, .susp)
  | .receiveNowait t h =>
    if s.pc t ≠ .idle ∨ ¬ h < s.nR then none else
    match recvCore s h with
    | (s1, .item y) => some (s1, .item y)
    | (s1, .wouldBlock) => some (s1, .wouldBlock)
    | (s1, .closed) => some (s1, .closed)
    | (s1, .eos) => some (s1, .eos)
  | .closeS t h =>
    if s.pc t ≠ .idle ∨ ¬ h < s.nS then none else
    if s.closedS h = true then some (s, .ret) else
    if s.openSend - 1 = 0 then
      some ({ s with closedS := upd s.closedS h true, openSend := s.openSend - 1,
                     waitingReceivers := [],
                     pc := fun v => if v ∈ s.waitingReceivers then wakeRecv (s.pc v) else s.pc v },
            .ret)
    else
      some ({ s with closedS := upd s.closedS h true, openSend := s.openSend - 1 }, .ret)
  | .closeR t h =>
    if s.pc t ≠ .idle ∨ ¬ h < s.nR then none else
    if s.closedR h = true then some (s, .ret) else
    if s.openRecv - 1 = 0 then
      some ({ s with closedR := upd s.closedR h true, openRecv := s.openRecv - 1,
                     waitingSenders := s.waitingSenders.map (fun w => (w.1, w.2.1, true)),
                     pc := fun v => if queuedS v s.waitingSenders = true then wakeSender (s.pc v)
                                    else s.pc v },
            .ret)
    else
      some ({ s with closedR := upd s.closedR h true, openRecv := s.openRecv - 1 }, .ret)
  | .cloneS t h =>
    if s.pc t ≠ .idle ∨ ¬ h < s.nS then none else
    if s.closedS h = true then some (s, .closed) else
    some ({ s with nS := s.nS + 1, openSend := s.openSend + 1 }, .handle s.nS)
  | .cloneR t h =>
    if s.pc t ≠ .idle ∨ ¬ h < s.nR then none else
    if s.closedR h = true then some (s, .closed) else
    some ({ s with nR := s.nR + 1, openRecv := s.openRecv + 1 }, .handle s.nR)
  | .fc t =>
    match s.pc t with
    | .sendWait x => some ({ s with pc := upd s.pc t (.sendWaitFC x) }, .env)
    | .recvWait => some ({ s with pc := upd s.pc t .recvWaitFC }, .env)
    | .recvOrphan => some ({ s with pc := upd s.pc t .recvWaitFC }, .env)
    | _ => none
  | .mc t =>
    match s.pc t with
    | .sendChk _ x _ => some ({ s with pc := upd s.pc t (.sendChkMC x) }, .env)
    | .recvChk _ _ => some ({ s with pc := upd s.pc t .recvChkMC }, .env)
    | .sendWoken x => some ({ s with pc := upd s.pc t (.sendWokenMC x) }, .env)
    | .recvWoken sl => some ({ s with pc := upd s.pc t (.recvWokenMC sl) }, .env)
    | _ => none
  | .step t P =>
    match s.pc t with
    | .idle => none
    | .sendWait _ => none
    | .recvWait => none
    | .recvOrphan => none
    | .sendChk _ _ true => none   -- scope cancelled on entry: the delivery (`mc`) comes first
    | .recvChk _ true => none
    | .sendChk h x false =>
      match sendCore s h x P with
      | (s1, .done) =>
        some ({ s1 with pc := upd s1.pc t .idle, accepted := s1.accepted ++ [x] }, .ret)
      | (s1, .wouldBlock) =>
        some ({ s1 with waitingSenders := s1.waitingSenders ++ [(t, x, false)],
                        pc := upd s1.pc t (.sendWait x), loc := upd s1.loc x (.queued t) }, .susp)
      | (s1, .closed) => some (reject s1 t x, .closed)
      | (s1, .broken) => some (reject s1 t x, .broken)
    | .sendChkMC x => some (reject s t x, .cancelled)
    | .sendWaitFC x => some (sendCancelled s t x, .cancelled)
    | .sendWokenMC x => some (sendCancelled s t x, .cancelled)
    | .sendWoken x =>
      if queuedS t s.waitingSenders = true then
        some (reject { s with waitingSenders := rmSender t s.waitingSenders } t x, .broken)
      else
        some ({ s with pc := upd s.pc t .idle, accepted := s.accepted ++ [x] }, .ret)
    | .recvChk h false =>
      match recvCore s h with
      | (s1, .item y) => some ({ s1 with pc := upd s1.pc t .idle }, .item y)
      | (s1, .wouldBlock) =>
        some ({ s1 with waitingReceivers := s1.waitingReceivers ++ [t],
                        pc := upd s1.pc t .recvWait }, .susp)
      | (s1, .closed) => some ({ s1 with pc := upd s1.pc t .idle }, .closed)
      | (s1, .eos) => some ({ s1 with pc := upd s1.pc t .idle }, .eos)
    | .recvChkMC => some ({ s with pc := upd s.pc t .idle }, .cancelled)
    | .recvWaitFC =>
      some ({ s with waitingReceivers := rmRecv t s.waitingReceivers, pc := upd s.pc t .idle },
            .cancelled)
    | .recvWoken (some x) =>
      some ({ s with waitingReceivers := rmRecv t s.waitingReceivers, pc := upd s.pc t .idle,
                     delivered := s.delivered ++ [x], loc := upd s.loc x .delivered }, .item x)
    | .recvWoken none =>
      some ({ s with waitingReceivers := rmRecv t s.waitingReceivers, pc := upd s.pc t .idle }, .eos)
    | .recvWokenMC (some x) =>
      some ({ s with waitingReceivers := rmRecv t s.waitingReceivers, pc := upd s.pc t .idle,
                     lost := s.lost ++ [x], loc := upd s.loc x .lost }, .cancelled)
    | .recvWokenMC none =>
      some ({ s with waitingReceivers := rmRecv t s.waitingReceivers, pc := upd s.pc t .idle },
            .cancelled)

abbrev Reach (s : State) : Prop :=
  Reachable (fun s0 => ∃ m, s0 = init m) step s

end AnyioModel.Stream.Memory
