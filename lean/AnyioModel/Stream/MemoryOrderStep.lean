/-
Every step of the memory-stream model is a composition of the ghost micro-transitions of
`MemoryOrder` (`Trans`), hence `OrdInv` holds in every reachable state.
-/
import AnyioModel.Stream.MemoryOrder

namespace AnyioModel.Stream.Memory

/-- what `send_nowait`'s body does to the ghost fields: the item enters (buffer or slot), or
nothing changes -/
theorem sendCore_gh (s : State) (h x : Nat) (P : List Nat) :
    ((sendCore s h x P).2 = .done → ∃ l : Loc, l.entered = true ∧
      (sendCore s h x P).1.gh = ⟨upd s.loc x l, s.offered, s.entered ++ [x]⟩) ∧
    ((sendCore s h x P).2 ≠ .done → (sendCore s h x P).1.loc = s.loc ∧
      (sendCore s h x P).1.offered = s.offered ∧ (sendCore s h x P).1.entered = s.entered) := by
  rcases sendCore_cases s h x P with ⟨hc, he⟩ | ⟨hc, ho, he⟩ | ⟨hc, ho, d, u, rest, hw, hd, hu, huP, he⟩ |
    ⟨hc, ho, hd, hf, he⟩ | ⟨hc, ho, hd, hf, he⟩
  all_goals rw [he]
  · exact ⟨by simp, fun _ => ⟨rfl, rfl, rfl⟩⟩
  · exact ⟨by simp, fun _ => ⟨rfl, rfl, rfl⟩⟩
  · exact ⟨fun _ => ⟨.slot u, rfl, rfl⟩, by simp⟩
  · exact ⟨fun _ => ⟨.buffered, rfl, rfl⟩, by simp⟩
  · exact ⟨by simp, fun _ => ⟨rfl, rfl, rfl⟩⟩

theorem trans_recvCore {s : State} (hg : InvG s) (h : Nat) : Trans s.gh (recvCore s h).1.gh := by
  rcases recvCore_cases s h with ⟨hc, he⟩ | ⟨hc, hws, hb, ho, he⟩ | ⟨hc, hws, hb, ho, he⟩ |
    ⟨hc, hws, y, ys, hb, he⟩ | ⟨hc, u, x, b, rest, y, ys, hws, hb, he⟩
  all_goals rw [he]
  · exact Trans.refl _
  · exact Trans.refl _
  · exact Trans.refl _
  · exact .quiet (Quiet.setLoc s.gh y .delivered (fun _ => rfl) (by simp))
  · have hp : Pend s.gh u x := Or.inr (hg.queued_a u x b (by simp [hws]))
    exact .comp (.enter u x (Enter.setLoc s.gh s.loc u x .buffered hp rfl (fun _ _ => rfl)))
      (.quiet (Quiet.setLoc ⟨upd s.loc x .buffered, s.offered, s.entered ++ [x]⟩ y .delivered
        (fun _ => rfl) (by simp)))

/-- an idle task has no item in flight -/
theorem no_pend_of_idle {s : State} (hq : InvQ s) (hg : InvG s) {t : Nat} (hp : s.pc t = .idle) :
    ∀ y, ¬ Pend s.gh t y := by
  rintro y (h | h)
  · rcases hg.chk_c y t h with ⟨h', pre, e⟩ | e <;> rw [hp] at e <;> cases e
  · obtain ⟨b, hm⟩ := hg.queued_b y t h
    have := hq.ws_pc t y b hm
    rw [hp] at this
    simp at this

/-- the item of a blocked send that is still queued at wake-up has not entered -/
theorem queued_loc {s : State} (hq : InvQ s) (hg : InvG s) {t x : Nat}
    (hp : s.pc t = .sendWaitFC x ∨ s.pc t = .sendWoken x ∨ s.pc t = .sendWokenMC x)
    (hqd : queuedS t s.waitingSenders = true) : s.loc x = .queued t := by
  obtain ⟨y, b, hm⟩ := queuedS_iff.mp hqd
  have hy : y = x := by have := hq.ws_pc t y b hm; grind
  subst hy
  exact hg.queued_a t y b hm

theorem trans_sendCancelled {s : State} (hq : InvQ s) (hg : InvG s) {t x : Nat}
    (hp : s.pc t = .sendWaitFC x ∨ s.pc t = .sendWoken x ∨ s.pc t = .sendWokenMC x) :
    Trans s.gh (sendCancelled s t x).gh := by
  unfold sendCancelled
  split
  · rename_i hqd
    have hl := queued_loc hq hg hp hqd
    exact .quiet (Quiet.setLoc s.gh x .rejected (by simp [State.gh, hl]) (by simp))
  · exact Trans.refl _

theorem trans_step {s s' : State} {e : Ev} {o : Out} (hq : InvQ s) (hg : InvG s)
    (hs : step s e = some (s', o)) : Trans s.gh s'.gh := by
  cases e with
  | send t h x pre =>
    simp only [step] at hs; split at hs; · contradiction
    rename_i hg0; simp only [not_or, Decidable.not_not] at hg0
    have hno : ∀ u, (u, x) ∉ s.offered := fun u hm => hg0.2.2 (isOffered_iff.mpr ⟨u, hm⟩)
    have hfresh : s.loc x = .fresh := (hg.fresh_iff x).mpr hno
    cases hs
    exact .offer t x (Offer.setLoc s.gh t x (.chk t) hfresh hno (no_pend_of_idle hq hg hg0.1)
      (by simp))
  | receive t h pre =>
    simp only [step] at hs; split at hs; · contradiction
    cases hs; exact Trans.refl _
  | sendNowait t h x P =>
    simp only [step] at hs; split at hs; · contradiction
    rename_i hg0; simp only [not_or, Decidable.not_not] at hg0
    have hno : ∀ u, (u, x) ∉ s.offered := fun u hm => hg0.2.2 (isOffered_iff.mpr ⟨u, hm⟩)
    have hfresh : s.loc x = .fresh := (hg.fresh_iff x).mpr hno
    have hnp := no_pend_of_idle hq hg hg0.1
    obtain ⟨b1, b2⟩ := sendCore_gh { s with offered := s.offered ++ [(t, x)] } h x P
    generalize sendCore _ h x P = r at hs b1 b2
    obtain ⟨s1, res⟩ := r
    simp only at b1 b2
    cases res <;> simp only at hs <;> cases hs
    · obtain ⟨l, hl, hgh⟩ := b1 rfl
      refine .comp (.offer t x (Offer.setLoc s.gh t x (.chk t) hfresh hno hnp (by simp))) ?_
      show Trans _ s1.gh
      rw [hgh]
      exact .enter t x (Enter.setLoc ⟨upd s.loc x (.chk t), s.offered ++ [(t, x)], s.entered⟩
        s.loc t x l (Or.inl (by simp)) hl (fun y hy => by simp [hy]))
    all_goals
      obtain ⟨c1, c2, c3⟩ := b2 (by simp)
      show Trans _ ⟨upd s1.loc x .rejected, s1.offered, s1.entered⟩
      rw [c1, c2, c3]
      exact .offer t x (Offer.setLoc s.gh t x .rejected hfresh hno hnp (by simp))
  | receiveNowait t h =>
    simp only [step] at hs; split at hs; · contradiction
    have := trans_recvCore hg h
    generalize recvCore s h = r at hs this
    obtain ⟨s1, res⟩ := r
    cases res <;> simp only at hs <;> cases hs <;> exact this
  | closeS t h =>
    simp only [step] at hs
    split at hs <;> (try split at hs) <;> (try split at hs) <;> simp at hs <;>
      (rw [← hs.1]; exact Trans.refl _)
  | closeR t h =>
    simp only [step] at hs
    split at hs <;> (try split at hs) <;> (try split at hs) <;> simp at hs <;>
      (rw [← hs.1]; exact Trans.refl _)
  | cloneS t h =>
    simp only [step] at hs
    split at hs <;> (try split at hs) <;> simp at hs <;> (rw [← hs.1]; exact Trans.refl _)
  | cloneR t h =>
    simp only [step] at hs
    split at hs <;> (try split at hs) <;> simp at hs <;> (rw [← hs.1]; exact Trans.refl _)
  | fc t =>
    simp only [step] at hs
    split at hs <;> simp at hs <;> (rw [← hs.1]; exact Trans.refl _)
  | mc t =>
    simp only [step] at hs
    split at hs <;> simp at hs <;> (rw [← hs.1]; exact Trans.refl _)
  | step t P =>
    simp only [step] at hs
    split at hs <;> try contradiction
    · -- sendChk h x false
      rename_i h x hpc
      have hloc : s.loc x = .chk t := hg.chk_a t h x false hpc
      have hp : Pend s.gh t x := Or.inl hloc
      obtain ⟨b1, b2⟩ := sendCore_gh s h x P
      generalize sendCore s h x P = r at hs b1 b2
      obtain ⟨s1, res⟩ := r
      simp only at b1 b2
      cases res <;> simp only at hs <;> cases hs
      · obtain ⟨l, hl, hgh⟩ := b1 rfl
        show Trans _ s1.gh
        rw [hgh]
        exact .enter t x (Enter.setLoc s.gh s.loc t x l hp hl (fun _ _ => rfl))
      · obtain ⟨c1, c2, c3⟩ := b2 (by simp)
        show Trans _ ⟨upd s1.loc x (.queued t), s1.offered, s1.entered⟩
        rw [c1, c2, c3]
        exact .quiet (Quiet.setLoc s.gh x (.queued t) (by simp [State.gh, hloc])
          (by intro t' ht'; simp at ht'; subst ht'; exact hp))
      all_goals
        obtain ⟨c1, c2, c3⟩ := b2 (by simp)
        show Trans _ ⟨upd s1.loc x .rejected, s1.offered, s1.entered⟩
        rw [c1, c2, c3]
        exact .quiet (Quiet.setLoc s.gh x .rejected (by simp [State.gh, hloc]) (by simp))
    · -- sendChkMC
      rename_i x hpc
      have hloc : s.loc x = .chk t := hg.chk_b t x hpc
      cases hs
      exact .quiet (Quiet.setLoc s.gh x .rejected (by simp [State.gh, hloc]) (by simp))
    · rename_i x hpc
      cases hs; exact trans_sendCancelled hq hg (by simp [hpc])
    · rename_i x hpc
      cases hs; exact trans_sendCancelled hq hg (by simp [hpc])
    · -- sendWoken
      rename_i x hpc
      split at hs
      · rename_i hqd
        have hl := queued_loc hq hg (t := t) (x := x) (by simp [hpc]) hqd
        cases hs
        exact .quiet (Quiet.setLoc s.gh x .rejected (by simp [State.gh, hl]) (by simp))
      · cases hs; exact Trans.refl _
    · -- recvChk h false
      rename_i h hpc
      have := trans_recvCore hg h
      generalize recvCore s h = r at hs this
      obtain ⟨s1, res⟩ := r
      cases res <;> simp only at hs <;> cases hs <;> exact this
    · cases hs; exact Trans.refl _
    · cases hs; exact Trans.refl _
    · -- recvWoken (some x)
      rename_i x hpc
      cases hs
      exact .quiet (Quiet.setLoc s.gh x .delivered (fun _ => rfl) (by simp))
    · cases hs; exact Trans.refl _
    · -- recvWokenMC (some x)
      rename_i x hpc
      cases hs
      exact .quiet (Quiet.setLoc s.gh x .lost (fun _ => rfl) (by simp))
    · cases hs; exact Trans.refl _

theorem ordInv_init (m : Option Nat) : OrdInv (init m).gh := by
  constructor <;> simp [init, State.gh, Pend, byTask, offersOf]

theorem ordInv_reach {s : State} (h : Reach s) : OrdInv s.gh := by
  have : (InvQ s ∧ InvG s) ∧ OrdInv s.gh := by
    refine Reachable.invariant (fun s => (InvQ s ∧ InvG s) ∧ OrdInv s.gh) ?_ ?_ s h
    · rintro s ⟨m, rfl⟩; exact ⟨⟨invQ_init m, invG_init m⟩, ordInv_init m⟩
    · intro s e s' o hi hs
      exact ⟨⟨invQ_step hi.1.1 hs, invG_step hi.1.1 hi.1.2 hs⟩,
        hi.2.trans (trans_step hi.1.1 hi.1.2 hs)⟩
  exact this.2

end AnyioModel.Stream.Memory
