/-
Invariants of the BufferedByteReceiveStream model: what one wrapped `receive` does, the
accounting relation `Moves` (bytes only move source → buffer → caller, in order), and the
specifications of the three receive operations, for every state, fuel and argument.
-/
import AnyioModel.Stream.FindProofs

namespace AnyioModel.Stream.Buffered

/-- every chunk the wrapped stream will deliver is non-empty (a well-behaved byte source) -/
def NonemptyChunks (s : State) : Prop := ∀ c ∈ s.chunks, c ≠ []

/-- accounting: between `s` and `s'` the bytes `out` left the stream; the wrapped stream was
consumed from the front only (`p` is what was pulled out of it), and what was pulled went behind
the old buffer contents -/
structure Moves (s s' : State) (out : List Byte) : Prop where
  src : ∃ p, s.rest = p ++ s'.rest ∧ out ++ s'.buf = s.buf ++ p
  closed : s'.closed = s.closed
  kind : s'.kind = s.kind

theorem Moves.refl (s : State) : Moves s s [] := ⟨⟨[], by simp⟩, rfl, rfl⟩

theorem Moves.pending {s s' : State} {out : List Byte} (h : Moves s s' out) :
    out ++ s'.pending = s.pending := by
  obtain ⟨p, h1, h2⟩ := h.src
  simp only [State.pending]
  rw [← List.append_assoc, h2, h1, List.append_assoc]

/-! ### one wrapped receive -/

/-- the byte-stream branch of `srcRecv`, with the clamped environment choice abstracted -/
theorem srcRecv_cases {s s' : State} {max : Nat} {c : List Byte} (h : srcRecv s max = .ok (c, s')) :
    s.closed = false ∧ ∃ c0 cs, s.chunks = c0 :: cs ∧
      ((c = c0 ∧ s' = { s with chunks := cs } ∧ s.kind = .obj) ∨
       (∃ m, 1 ≤ m ∧ (1 ≤ max → m ≤ max) ∧ s.kind = .byte ∧
          ((c0.length ≤ m ∧ c = c0 ∧ s' = { s with chunks := cs, env := s.env.tail }) ∨
           (m < c0.length ∧ c = c0.take m ∧
              s' = { s with chunks := c0.drop m :: cs, env := s.env.tail })))) := by
  unfold srcRecv at h
  split at h
  · cases h
  · rename_i hc
    refine ⟨by simpa using hc, ?_⟩
    split at h
    · cases h
    · rename_i c0 cs hch
      refine ⟨c0, cs, hch, ?_⟩
      split at h
      · rename_i hk
        cases h
        exact .inl ⟨rfl, rfl, hk⟩
      · rename_i hk
        dsimp only at h
        refine .inr ⟨Nat.max 1 (Nat.min (s.env.headD max) max), Nat.le_max_left _ _,
          fun h1 => Nat.max_le.2 ⟨h1, Nat.min_le_right _ _⟩, hk, ?_⟩
        split at h
        · rename_i hlen
          cases h
          exact .inl ⟨hlen, rfl, rfl⟩
        · rename_i hlen
          cases h
          exact .inr ⟨by omega, rfl, rfl⟩

theorem srcRecv_ok {s s' : State} {max : Nat} {c : List Byte} (h : srcRecv s max = .ok (c, s')) :
    s.rest = c ++ s'.rest ∧ s'.buf = s.buf ∧ s'.closed = s.closed ∧ s'.kind = s.kind ∧
    s.closed = false ∧ fuel s' < fuel s := by
  obtain ⟨hcl, c0, cs, hch, hcase⟩ := srcRecv_cases h
  have hfuel : fuel s = (c0.length + cs.flatten.length) + (cs.length + 1) + 1 := by
    simp [fuel, State.rest, hch]
  rcases hcase with ⟨rfl, rfl, -⟩ | ⟨m, hm1, -, -, ⟨hlen, rfl, rfl⟩ | ⟨hlen, rfl, rfl⟩⟩
  · refine ⟨by simp [State.rest, hch], rfl, rfl, rfl, hcl, ?_⟩
    simp only [hfuel]; simp [fuel, State.rest]; omega
  · refine ⟨by simp [State.rest, hch], rfl, rfl, rfl, hcl, ?_⟩
    simp only [hfuel]; simp [fuel, State.rest]; omega
  · refine ⟨?_, rfl, rfl, rfl, hcl, ?_⟩
    · simp only [State.rest, hch, List.flatten_cons]
      rw [← List.append_assoc, List.take_append_drop]
    · simp only [fuel, State.rest, hch, List.flatten_cons, List.length_append, List.length_cons,
        List.length_drop]
      omega

theorem srcRecv_nonempty {s s' : State} {max : Nat} {c : List Byte}
    (h : srcRecv s max = .ok (c, s')) (hn : NonemptyChunks s) :
    c ≠ [] ∧ NonemptyChunks s' ∧ (s.kind = .byte → 1 ≤ max → c.length ≤ max) := by
  obtain ⟨-, c0, cs, hch, hcase⟩ := srcRecv_cases h
  have hc0 : c0 ≠ [] := hn c0 (by simp [hch])
  have hl0 : 0 < c0.length := List.length_pos_iff.2 hc0
  have hcs : ∀ c ∈ cs, c ≠ [] := fun c hc => hn c (by simp [hch, hc])
  rcases hcase with ⟨rfl, rfl, hk⟩ | ⟨m, hm1, hmax, -, ⟨hlen, rfl, rfl⟩ | ⟨hlen, rfl, rfl⟩⟩
  · exact ⟨hc0, hcs, fun hb => by simp [hk] at hb⟩
  · exact ⟨hc0, hcs, fun _ h1 => by have := hmax h1; omega⟩
  · refine ⟨?_, ?_, fun _ h1 => ?_⟩
    · intro h0
      have := congrArg List.length h0
      rw [List.length_take, List.length_nil] at this
      omega
    · intro c hc
      simp only [List.mem_cons] at hc
      rcases hc with rfl | hc
      · intro h0
        have := congrArg List.length h0
        rw [List.length_drop, List.length_nil] at this
        omega
      · exact hcs c hc
    · have := hmax h1
      simp
      omega

theorem srcRecv_error {s : State} {max : Nat} {e : Err} (h : srcRecv s max = .error e) :
    (e = .closed ∧ s.closed = true) ∨ (e = .eos ∧ s.chunks = [] ∧ s.closed = false) := by
  unfold srcRecv at h
  split at h
  · rename_i hc
    cases h
    exact .inl ⟨rfl, hc⟩
  · rename_i hc
    split at h
    · cases h
      exact .inr ⟨rfl, by assumption, by simpa using hc⟩
    · split at h
      · cases h
      · dsimp only at h
        split at h <;> cases h

/-- pulling a chunk into the buffer and then moving on is still `Moves` -/
theorem Moves.after_pull {s s1 s' : State} {max : Nat} {c out : List Byte}
    (h : srcRecv s max = .ok (c, s1)) (hm : Moves { s1 with buf := s1.buf ++ c } s' out) :
    Moves s s' out := by
  obtain ⟨h1, h2, h3, h4, -, -⟩ := srcRecv_ok h
  obtain ⟨p, hp1, hp2⟩ := hm.src
  refine ⟨⟨c ++ p, ?_, ?_⟩, by rw [hm.closed, h3], by rw [hm.kind, h4]⟩
  · simp only [State.rest] at *
    rw [h1, hp1, List.append_assoc]
  · simp only at hp2
    rw [hp2, h2, List.append_assoc]

/-! ### receive -/

theorem receive_spec {s s' : State} {n : Nat} {r : Res} (h : receive s n = (r, s')) :
    Moves s s' (handed (.receive n) r) ∧
    (n < 1 → r = .error .value) ∧
    (∀ e, r = .error e → s' = s ∧
      (e = .value ∧ n < 1 ∨ e = .closed ∧ s.closed = true ∨ e = .eos ∧ s.pending = [])) ∧
    (∀ bs, r = .ok bs → 1 ≤ n ∧ s.closed = false) ∧
    (∀ bs, r = .ok bs → NonemptyChunks s → 1 ≤ bs.length ∧ bs.length ≤ n) ∧
    (NonemptyChunks s → NonemptyChunks s') := by
  unfold receive at h
  split at h
  · rename_i hn
    cases h
    exact ⟨Moves.refl s, fun _ => rfl, fun e he => (by cases he; exact ⟨rfl, .inl ⟨rfl, hn⟩⟩),
      fun bs hbs => (by cases hbs), fun bs hbs => (by cases hbs), id⟩
  · rename_i hn
    split at h
    · rename_i hc
      cases h
      exact ⟨Moves.refl s, fun h1 => absurd h1 hn,
        fun e he => (by cases he; exact ⟨rfl, .inr (.inl ⟨rfl, hc⟩)⟩),
        fun bs hbs => (by cases hbs), fun bs hbs => (by cases hbs), id⟩
    · rename_i hc
      have hc' : s.closed = false := by simpa using hc
      split at h
      · rename_i hb
        cases h
        refine ⟨⟨⟨[], by simp [State.rest], by simp [handed]⟩, rfl, rfl⟩, fun h1 => absurd h1 hn,
          fun e he => (by cases he), fun bs _ => ⟨by omega, hc'⟩, ?_, id⟩
        intro bs hbs _
        cases hbs
        have : 0 < s.buf.length := List.length_pos_iff.2 hb
        simp
        omega
      · rename_i hb
        have hb' : s.buf = [] := by simpa using hb
        split at h
        · rename_i hk
          split at h
          · rename_i c s1 hr
            cases h
            obtain ⟨h1, h2, h3, h4, -, -⟩ := srcRecv_ok hr
            refine ⟨⟨⟨c, h1, by simp [handed, h2, hb']⟩, h3, h4⟩, fun h1 => absurd h1 hn,
              fun e he => (by cases he), fun bs _ => ⟨by omega, hc'⟩, ?_,
              fun hne => (srcRecv_nonempty hr hne).2.1⟩
            intro bs hbs hne
            cases hbs
            obtain ⟨g1, -, g3⟩ := srcRecv_nonempty hr hne
            exact ⟨List.length_pos_iff.2 g1, g3 hk (by omega)⟩
          · rename_i e hr
            cases h
            refine ⟨Moves.refl s, fun h1 => absurd h1 hn, ?_, fun bs hbs => (by cases hbs),
              fun bs hbs => (by cases hbs), id⟩
            intro e' he'
            cases he'
            refine ⟨rfl, ?_⟩
            rcases srcRecv_error hr with ⟨rfl, hh⟩ | ⟨rfl, hh, -⟩
            · exact .inr (.inl ⟨rfl, hh⟩)
            · exact .inr (.inr ⟨rfl, by simp [State.pending, State.rest, hb', hh]⟩)
        · rename_i hk
          split at h
          · rename_i c s1 hr
            obtain ⟨h1, h2, h3, h4, -, -⟩ := srcRecv_ok hr
            split at h
            · rename_i hlen
              cases h
              refine ⟨⟨⟨c, h1, by simp [handed, h2, hb']⟩, h3, h4⟩, fun h1 => absurd h1 hn,
                fun e he => (by cases he), fun bs _ => ⟨by omega, hc'⟩, ?_,
                fun hne => (srcRecv_nonempty hr hne).2.1⟩
              intro bs hbs _
              cases hbs
              simp
              omega
            · rename_i hlen
              cases h
              refine ⟨⟨⟨c, h1, by simp [handed, h2, hb']⟩, h3, h4⟩, fun h1 => absurd h1 hn,
                fun e he => (by cases he), fun bs _ => ⟨by omega, hc'⟩, ?_,
                fun hne => (srcRecv_nonempty hr hne).2.1⟩
              intro bs hbs hne
              cases hbs
              exact ⟨List.length_pos_iff.2 (srcRecv_nonempty hr hne).1, by omega⟩
          · rename_i e hr
            cases h
            refine ⟨Moves.refl s, fun h1 => absurd h1 hn, ?_, fun bs hbs => (by cases hbs),
              fun bs hbs => (by cases hbs), id⟩
            intro e' he'
            cases he'
            refine ⟨rfl, ?_⟩
            rcases srcRecv_error hr with ⟨rfl, hh⟩ | ⟨rfl, hh, -⟩
            · exact .inr (.inl ⟨rfl, hh⟩)
            · exact .inr (.inr ⟨rfl, by simp [State.pending, State.rest, hb', hh]⟩)

end AnyioModel.Stream.Buffered
