/-
Model of `anyio.streams.tls.TLSStream` (src/anyio/streams/tls.py): the pump loop
`_call_sslobject_method` between an SSL object with two memory BIOs and a transport stream,
for ONE endpoint, against an ABSTRACT record engine (OpenSSL is not modelled; the engine is
an assumption, sampled on the real thing by harness/c17.py).

Abstract wire format (a list of numbers):
  `0`                      close_notify alert
  `1, tag`                 handshake flight `tag` (1 = client hello, 2 = server flight,
                           3 = client finished)
  `k+2, b_0 .. b_k`        application-data record with k+1 >= 1 payload bytes
The engine (`Engine`) owns the incoming BIO (`inBio`, ciphertext received and not yet
consumed; `inEof` after `write_eof()`), the outgoing BIO (`outBio`), the rest of a decrypted
record that a short `read(n)` did not take (`plain`), and the close_notify flags.
`read(n)` consumes one complete record from the incoming BIO (WantRead if none is complete, an
unexpected-EOF error if the BIO is at EOF), `write` cuts the plaintext into records of
environment-chosen sizes, `unwrap` sends close_notify and waits for the peer's, `do_handshake`
is a three-flight exchange.

The endpoint LTS cuts the pump loop at `await transport_stream.receive()` (the only place it
can block: `transport_stream.send` is taken to complete at once).  Events:
* `call c`      a task calls do_handshake / receive(n) / unwrap: the loop runs until the SSL call
                succeeds or fails, or until it blocks in the transport read (`blocked c`);
* `write item sizes`  `send(item)`; may run while another task is blocked in a read;
* `peerFlush bytes`   environment: the transport has `bytes` more in flight towards us;
* `deliver k`   environment: the blocked transport read returns the next max(1,k) bytes in
                flight (any fragmentation / coalescing), the loop continues;
* `endTransport`      environment: nothing more will be put in flight (peer closed / link cut
                after what is in flight);  `cut`: the bytes in flight are lost too;
* `eofDeliver`  the blocked transport read raises EndOfStream (nothing in flight, ended).
-/
import AnyioModel.Util.LTS

namespace AnyioModel.Stream.Tls

abbrev Bytes := List Nat

inductive Rec where
  | data (p : Bytes)
  | closeNotify
  | hs (tag : Nat)
  deriving DecidableEq, Repr

def encode : Rec → List Nat
  | .closeNotify => [0]
  | .hs t => [1, t]
  | .data p => (p.length + 1) :: p

def encodeAll : List Rec → List Nat
  | [] => []
  | r :: rs => encode r ++ encodeAll rs

/-- the first complete record of a byte string, and the rest -/
def parseOne : List Nat → Option (Rec × List Nat)
  | [] => none
  | 0 :: r => some (.closeNotify, r)
  | 1 :: [] => none
  | 1 :: t :: r => some (.hs t, r)
  | (k + 2) :: r => if k + 1 ≤ r.length then some (.data (r.take (k + 1)), r.drop (k + 1)) else none

/-- cut a plaintext into record payloads of environment-chosen sizes (each at least 1 byte; what
is left when the script ends goes into one record) -/
def cutRecords : (fuel : Nat) → Bytes → List Nat → List Bytes
  | 0, _, _ => []
  | _ + 1, [], _ => []
  | _ + 1, b, [] => [b]
  | fuel + 1, b, k :: ks => b.take (k + 1) :: cutRecords fuel (b.drop (k + 1)) ks

inductive Phase where
  | cStart | cWaitServer | sWaitHello | sWaitFinished | established
  deriving DecidableEq, Repr

structure Engine where
  phase   : Phase
  inBio   : List Nat
  inEof   : Bool
  outBio  : List Nat
  plain   : Bytes
  gotCN   : Bool
  sentCN  : Bool

inductive SslRes where
  | ok (d : Bytes)
  | wantRead
  | eofError      -- SSLEOFError / UNEXPECTED_EOF_WHILE_READING
  | protoError    -- any other SSLError
  deriving DecidableEq, Repr

/-- nothing complete in the incoming BIO -/
def starve (e : Engine) : Engine × SslRes :=
  (e, if e.inEof then .eofError else .wantRead)

def Engine.read (e : Engine) (n : Nat) : Engine × SslRes :=
  if e.plain ≠ [] then ({ e with plain := e.plain.drop n }, .ok (e.plain.take n))
  else if e.gotCN then (e, .ok [])
  else match parseOne e.inBio with
    | some (.data p, rest) => ({ e with inBio := rest, plain := p.drop n }, .ok (p.take n))
    | some (.closeNotify, rest) => ({ e with inBio := rest, gotCN := true }, .ok [])
    | some (.hs _, _) => (e, .protoError)
    | none => starve e

def Engine.write (e : Engine) (item : Bytes) (sizes : List Nat) : Engine :=
  { e with outBio := e.outBio ++ encodeAll ((cutRecords item.length item sizes).map .data) }

def Engine.unwrap (e : Engine) : Engine × SslRes :=
  let e1 := if e.sentCN then e else { e with outBio := e.outBio ++ encode .closeNotify, sentCN := true }
  if e1.gotCN then (e1, .ok [])
  else match parseOne e1.inBio with
    | some (.closeNotify, rest) => ({ e1 with inBio := rest, gotCN := true }, .ok [])
    | some (_, _) => (e1, .protoError)
    | none => starve e1

def Engine.handshake : (fuel : Nat) → Engine → Engine × SslRes
  | 0, e => starve e
  | fuel + 1, e =>
    match e.phase with
    | .established => (e, .ok [])
    | .cStart =>
      Engine.handshake fuel { e with outBio := e.outBio ++ encode (.hs 1), phase := .cWaitServer }
    | .cWaitServer =>
      match parseOne e.inBio with
      | some (.hs 2, rest) =>
        ({ e with inBio := rest, outBio := e.outBio ++ encode (.hs 3), phase := .established }, .ok [])
      | some (_, _) => (e, .protoError)
      | none => starve e
    | .sWaitHello =>
      match parseOne e.inBio with
      | some (.hs 1, rest) =>
        Engine.handshake fuel
          { e with inBio := rest, outBio := e.outBio ++ encode (.hs 2), phase := .sWaitFinished }
      | some (_, _) => (e, .protoError)
      | none => starve e
    | .sWaitFinished =>
      match parseOne e.inBio with
      | some (.hs 3, rest) => ({ e with inBio := rest, phase := .established }, .ok [])
      | some (_, _) => (e, .protoError)
      | none => starve e

inductive Call where
  | handshake
  | read (n : Nat)
  | unwrap
  deriving DecidableEq, Repr

inductive Pc where
  | idle
  | blocked (c : Call)   -- inside `await transport_stream.receive()` of the pump loop for `c`
  deriving DecidableEq, Repr

inductive Out where
  | susp
  | ret
  | retData (d : Bytes)
  | eos             -- EndOfStream
  | broken          -- BrokenResourceError
  | sslError        -- other ssl.SSLError, re-raised
  | valueError
  | env
  deriving DecidableEq, Repr

inductive Ev where
  | call (c : Call)
  | write (item : Bytes) (sizes : List Nat)
  | peerFlush (bytes : List Nat)
  | deliver (k : Nat)
  | endTransport
  | cut
  | eofDeliver
  deriving DecidableEq, Repr

structure State where
  sc        : Bool        -- standard_compatible
  e         : Engine
  bioEof    : Bool        -- both BIOs were write_eof()ed by an error path
  incoming  : List Nat    -- in flight towards us
  inEnded   : Bool
  wireOut   : List Nat    -- everything handed to transport_stream.send, in order
  pc        : Pc
  -- ghosts
  arrived   : List Nat    -- every byte written into the incoming BIO
  delivered : Bytes       -- every byte returned by receive()
  sentPlain : Bytes       -- every byte accepted by send()
  readsWithPending : Nat  -- transport reads started while the outgoing BIO was not empty

def init (sc server : Bool) : State :=
  { sc, e := { phase := if server then .sWaitHello else .cStart, inBio := [], inEof := false,
               outBio := [], plain := [], gotCN := false, sentCN := false },
    bioEof := false, incoming := [], inEnded := false, wireOut := [], pc := .idle,
    arrived := [], delivered := [], sentPlain := [], readsWithPending := 0 }

def runOp (e : Engine) : Call → Engine × SslRes
  | .handshake => Engine.handshake 3 e
  | .read n => Engine.read e n
  | .unwrap => Engine.unwrap e

/-- `if self._write_bio.pending: await self.transport_stream.send(self._write_bio.read())` -/
def flush (s : State) : State :=
  { s with wireOut := s.wireOut ++ s.e.outBio, e := { s.e with outBio := [] } }

/-- one round of the pump loop: call the SSL method, then act on the result -/
def pump (s : State) (c : Call) : State × Out :=
  let r := runOp s.e c
  let s1 := { s with e := r.1 }
  match r.2 with
  | .ok d =>
    let s2 := flush s1
    match c with
    | .read _ =>
      if d = [] then ({ s2 with pc := .idle }, .eos)
      else ({ s2 with pc := .idle, delivered := s2.delivered ++ d }, .retData d)
    | _ => ({ s2 with pc := .idle }, .ret)
  | .wantRead =>
    -- "Flush any pending writes first", then block in transport_stream.receive()
    let s2 := flush s1
    ({ s2 with pc := .blocked c,
               readsWithPending := s2.readsWithPending + (if s2.e.outBio = [] then 0 else 1) }, .susp)
  | .eofError =>
    ({ s1 with pc := .idle, bioEof := true, e := { s1.e with inEof := true } },
      if s.sc then .broken else .eos)
  | .protoError =>
    ({ s1 with pc := .idle, bioEof := true, e := { s1.e with inEof := true } }, .sslError)

def step (s : State) : Ev → Option (State × Out)
  | .call c =>
    -- receive / unwrap exist only on a wrapped stream, i.e. after do_handshake succeeded
    if s.pc ≠ .idle then none
    else match c with
      | .handshake => some (pump s c)
      | .read 0 => if s.e.phase = .established then some (s, .valueError) else none
      | _ => if s.e.phase = .established then some (pump s c) else none
  | .write item sizes =>
    if s.e.phase = .established ∧ s.e.sentCN = false ∧ s.bioEof = false then
      some (flush { s with e := s.e.write item sizes, sentPlain := s.sentPlain ++ item }, .ret)
    else none
  | .peerFlush bytes =>
    if s.inEnded then none else some ({ s with incoming := s.incoming ++ bytes }, .env)
  | .deliver k =>
    match s.pc with
    | .idle => none
    | .blocked c =>
      if s.incoming = [] then none
      else
        let frag := s.incoming.take (k + 1)
        some (pump { s with incoming := s.incoming.drop (k + 1), arrived := s.arrived ++ frag,
                            e := { s.e with inBio := s.e.inBio ++ frag } } c)
  | .endTransport => if s.inEnded then none else some ({ s with inEnded := true }, .env)
  | .cut => if s.inEnded then none else some ({ s with inEnded := true, incoming := [] }, .env)
  | .eofDeliver =>
    match s.pc with
    | .idle => none
    | .blocked c =>
      if s.incoming = [] ∧ s.inEnded = true then
        some (pump { s with e := { s.e with inEof := true } } c)
      else none

abbrev Reach (s : State) : Prop :=
  Reachable (fun s0 => ∃ sc server, s0 = init sc server) step s

end AnyioModel.Stream.Tls
