/-
Structural invariant of the memory-stream model (no ghost state): handle counters, queue /
program-counter consistency, the buffer bound and the closing invariants.
-/
import AnyioModel.Stream.MemoryLemmas

namespace AnyioModel.Stream.Memory

structure InvQ (s : State) : Prop where
  closedS_out : ∀ h, s.nS ≤ h → s.closedS h = false
  closedR_out : ∀ h, s.nR ≤ h → s.closedR h = false
  openSend_eq : s.openSend = openCount s.closedS s.nS
  openRecv_eq : s.openRecv = openCount s.closedR s.nR
  wr_pc : ∀ t, t ∈ s.waitingReceivers → s.pc t = .recvWait ∨ s.pc t = .recvWaitFC
  recvWait_wr : ∀ t, s.pc t = .recvWait → t ∈ s.waitingReceivers
  wr_nodup : s.waitingReceivers.Nodup
  ws_pc : ∀ t x b, (t, x, b) ∈ s.waitingSenders →
    (b = false ∧ (s.pc t = .sendWait x ∨ s.pc t = .sendWaitFC x)) ∨
    (b = true ∧ (s.pc t = .sendWoken x ∨ s.pc t = .sendWokenMC x ∨ s.pc t = .sendWaitFC x))
  sendWait_ws : ∀ t x, s.pc t = .sendWait x → (t, x, false) ∈ s.waitingSenders
  ws_nodup : (s.waitingSenders.map (·.1)).Nodup
  ws_set : ∀ t x, (t, x, true) ∈ s.waitingSenders → s.openRecv = 0
  ws_unset : ∀ t x, (t, x, false) ∈ s.waitingSenders → s.openRecv ≠ 0
  buf_wr : s.buffer ≠ [] → s.waitingReceivers = []
  ws_full : s.waitingSenders ≠ [] → fits s.maxSize s.buffer.length = false
  bound : ∀ m, s.maxSize = some m → s.buffer.length ≤ m
  ws_wr : s.waitingSenders ≠ [] → s.waitingReceivers = []
  closedS_wr : s.openSend = 0 → s.waitingReceivers = []
  eos_state : ∀ t, (s.pc t = .recvWoken none ∨ s.pc t = .recvWokenMC none) →
    s.openSend = 0 ∧ s.buffer = [] ∧ s.waitingSenders = []
  chk_handle : ∀ t h x pre, s.pc t = .sendChk h x pre → h < s.nS

theorem invQ_init (m : Option Nat) : InvQ (init m) := by
  constructor <;> simp [init, openCount]

theorem wakeRecv_eq (p : Pc) : wakeRecv p = if p = .recvWait then .recvWoken none else p := by
  cases p <;> simp [wakeRecv]

theorem wakeSender_cases (p : Pc) :
    (∃ x, p = .sendWait x ∧ wakeSender p = .sendWoken x) ∨
    ((∀ x, p ≠ .sendWait x) ∧ wakeSender p = p) := by
  cases p <;> simp [wakeSender]

theorem invQ_step_env {s s' : State} {o : Out} {t : Nat} (hi : InvQ s)
    (hs : step s (.fc t) = some (s', o) ∨ step s (.mc t) = some (s', o)) : InvQ s' := by
  obtain ⟨h1, h2, h3, h4, h5, h6, h7, h8, h9, h10, h11, h12, h13, h14, h15, h16, h17, h18, h19⟩ := hi
  rcases hs with hs | hs
  · simp only [step] at hs
    split at hs
    all_goals first
      | contradiction
      | (cases hs; constructor <;> grind)
  · simp only [step] at hs
    split at hs
    all_goals first
      | contradiction
      | (cases hs; constructor <;> grind)


/-- program counters the invariant says nothing about -/
def neutral : Pc → Bool
  | .idle | .sendChk _ _ _ | .sendChkMC _ | .recvChk _ _ | .recvChkMC | .recvOrphan => true
  | _ => false

theorem neutral_ne {p : Pc} (h : neutral p = true) :
    p ≠ .recvWait ∧ p ≠ .recvWaitFC ∧ (∀ x, p ≠ .sendWait x) ∧ (∀ x, p ≠ .sendWaitFC x) ∧
    (∀ x, p ≠ .sendWoken x) ∧ (∀ x, p ≠ .sendWokenMC x) ∧ (∀ sl, p ≠ .recvWoken sl) ∧
    (∀ sl, p ≠ .recvWokenMC sl) := by
  cases p <;> simp [neutral] at h ⊢

/-- the invariant only reads the non-ghost fields -/
theorem InvQ.congr {s s' : State} (hi : InvQ s)
    (e1 : s'.maxSize = s.maxSize) (e2 : s'.buffer = s.buffer) (e3 : s'.openSend = s.openSend)
    (e4 : s'.openRecv = s.openRecv) (e5 : s'.waitingReceivers = s.waitingReceivers)
    (e6 : s'.waitingSenders = s.waitingSenders) (e7 : s'.nS = s.nS) (e8 : s'.nR = s.nR)
    (e9 : s'.closedS = s.closedS) (e10 : s'.closedR = s.closedR) (e11 : s'.pc = s.pc) :
    InvQ s' := by
  obtain ⟨h1, h2, h3, h4, h5, h6, h7, h8, h9, h10, h11, h12, h13, h14, h15, h16, h17, h18, h19⟩ := hi
  constructor <;> simp only [e1, e2, e3, e4, e5, e6, e7, e8, e9, e10, e11] <;> assumption

theorem InvQ.setNeutral {s : State} (hi : InvQ s) (t : Nat) (p : Pc)
    (h0 : neutral (s.pc t) = true) (hp : neutral p = true)
    (hp2 : ∀ h x pre, p = .sendChk h x pre → h < s.nS) :
    InvQ { s with pc := upd s.pc t p } := by
  obtain ⟨h1, h2, h3, h4, h5, h6, h7, h8, h9, h10, h11, h12, h13, h14, h15, h16, h17, h18, h19⟩ := hi
  have a := neutral_ne h0
  have b := neutral_ne hp
  constructor <;> grind

@[grind =] theorem fits_some (m n : Nat) : fits (some m) n = decide (n < m) := rfl
@[grind =] theorem fits_none (n : Nat) : fits none n = true := rfl

theorem orphanize_apply (d : List Nat) (pc : Nat → Pc) (v : Nat) :
    orphanize d pc v = if v ∈ d ∧ pc v = .recvWait then .recvOrphan else pc v := rfl

/-- `send_nowait`'s body keeps the invariant, whatever the caller's own program counter is -/
theorem invQ_sendCore {s : State} (hi : InvQ s) {h x : Nat} (P : List Nat) (hh : h < s.nS) :
    InvQ (sendCore s h x P).1 := by
  have hopen : s.closedS h = false → s.openSend ≠ 0 := by
    intro hc; have := openCount_pos hh hc; rw [← hi.openSend_eq] at this; omega
  obtain ⟨h1, h2, h3, h4, h5, h6, h7, h8, h9, h10, h11, h12, h13, h14, h15, h16, h17, h18, h19⟩ := hi
  rcases sendCore_cases s h x P with ⟨hc, he⟩ | ⟨hc, ho, he⟩ | ⟨hc, ho, d, u, rest, hw, hd, hu, huP, he⟩ |
    ⟨hc, ho, hd, hf, he⟩ | ⟨hc, ho, hd, hf, he⟩
  · rw [he]; exact ⟨h1, h2, h3, h4, h5, h6, h7, h8, h9, h10, h11, h12, h13, h14, h15, h16, h17, h18, h19⟩
  · rw [he]; exact ⟨h1, h2, h3, h4, h5, h6, h7, h8, h9, h10, h11, h12, h13, h14, h15, h16, h17, h18, h19⟩
  · rw [he]
    have hop := hopen hc
    have hnd := h7
    rw [hw] at hnd
    have hnd2 := List.nodup_append.mp hnd
    have hnd3 := List.nodup_cons.mp hnd2.2.1
    have hdis : ∀ a, a ∈ d → a ∉ rest ∧ a ≠ u := by
      intro a ha
      exact ⟨fun hr => hnd2.2.2 a ha a (by simp [hr]) rfl, fun e => hnd2.2.2 a ha u (by simp) e⟩
    have hsub : ∀ a, a ∈ s.waitingReceivers ↔ a ∈ d ∨ a = u ∨ a ∈ rest := by
      intro a; rw [hw]; simp
    clear hnd hnd2
    have hbuf : s.buffer = [] := by
      cases hb : s.buffer with
      | nil => rfl
      | cons y ys => have := h13 (by simp [hb]); simp [hw] at this
    have hws : s.waitingSenders = [] := by
      cases hb : s.waitingSenders with
      | nil => rfl
      | cons y ys => have := h16 (by simp [hb]); simp [hw] at this
    constructor <;> simp only [upd_apply, orphanize_apply] <;> grind
  · rw [he]
    have hop := hopen hc
    constructor <;> simp only [upd_apply, orphanize_apply] <;> grind
  · rw [he]
    constructor <;> simp only [upd_apply, orphanize_apply] <;> grind


/-- `receive_nowait`'s body keeps the invariant -/
theorem invQ_recvCore {s : State} (hi : InvQ s) (h : Nat) : InvQ (recvCore s h).1 := by
  obtain ⟨h1, h2, h3, h4, h5, h6, h7, h8, h9, h10, h11, h12, h13, h14, h15, h16, h17, h18, h19⟩ := hi
  rcases recvCore_cases s h with ⟨hc, he⟩ | ⟨hc, hws, hb, ho, he⟩ | ⟨hc, hws, hb, ho, he⟩ |
    ⟨hc, hws, y, ys, hb, he⟩ | ⟨hc, u, x, b, rest, y, ys, hws, hb, he⟩
  · rw [he]; exact ⟨h1, h2, h3, h4, h5, h6, h7, h8, h9, h10, h11, h12, h13, h14, h15, h16, h17, h18, h19⟩
  · rw [he]; exact ⟨h1, h2, h3, h4, h5, h6, h7, h8, h9, h10, h11, h12, h13, h14, h15, h16, h17, h18, h19⟩
  · rw [he]; exact ⟨h1, h2, h3, h4, h5, h6, h7, h8, h9, h10, h11, h12, h13, h14, h15, h16, h17, h18, h19⟩
  · rw [he]
    have hwr : s.waitingReceivers = [] := h13 (by simp [hb])
    have hlen : ys.length + 1 = s.buffer.length := by simp [hb]
    constructor <;> grind
  · rw [he]
    have hlen : ys.length = s.buffer.length := by
      have := congrArg List.length hb; simp at this; omega
    have hwr : s.waitingReceivers = [] := h16 (by simp [hws])
    have hnd := h10
    rw [hws] at hnd
    simp only [List.map_cons, List.nodup_cons, List.mem_map, not_exists, not_and] at hnd
    have hur : ∀ x' b', (u, x', b') ∉ rest := fun x' b' hm => hnd.1 (u, x', b') hm rfl
    have hsub : ∀ w, w ∈ s.waitingSenders ↔ w = (u, x, b) ∨ w ∈ rest := by
      intro w; rw [hws]; simp
    have hnd2 : (rest.map (·.1)).Nodup := hnd.2
    have hfull : fits s.maxSize s.buffer.length = false := h14 (by simp [hws])
    have hhead := h8 u x b (by simp [hws])
    have hset := h11 u x
    have hunset := h12 u x
    have hno : s.openSend ≠ 0 ∨ (∀ t, s.pc t ≠ .recvWoken none ∧ s.pc t ≠ .recvWokenMC none) := by
      by_cases h0 : s.openSend = 0
      · right; intro t
        constructor
        · intro hp; have := (h18 t (Or.inl hp)).2.2; simp [hws] at this
        · intro hp; have := (h18 t (Or.inr hp)).2.2; simp [hws] at this
      · left; exact h0
    have hbuf0 : ys = [] ↔ s.buffer = [] := by
      constructor
      · intro h; subst h; cases hb' : s.buffer with
        | nil => rfl
        | cons a as => simp [hb'] at hlen
      · intro h; rw [h] at hlen; exact List.eq_nil_of_length_eq_zero hlen
    rcases wakeSender_cases (s.pc u) with ⟨x0, hp0, hw0⟩ | ⟨hp0, hw0⟩
    · rw [hw0]
      clear hnd hb
      constructor <;> simp only [upd_apply] <;> grind
    · rw [hw0]
      clear hnd hb
      constructor <;> simp only [upd_apply] <;> grind

end AnyioModel.Stream.Memory
