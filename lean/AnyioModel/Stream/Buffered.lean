/-
Executable pure model of `anyio.streams.buffered.BufferedByteReceiveStream`
(/repo/src/anyio/streams/buffered.py:30-154).

The wrapper runs in one task; every `await` inside an operation is a call of the wrapped
stream's `receive`, which is the only place the environment acts.  An operation is therefore a
pure function of the wrapper state *and of the wrapped stream's behaviour*, which is part of the
state:

* `chunks`  what the wrapped stream will still deliver (its remaining data, in arrival units),
            end of stream after the last one;
* `kind`    `.obj`: an `ObjectReceiveStream[bytes]`, `receive()` returns the next chunk whole;
            `.byte`: a `ByteReceiveStream` honouring `max_bytes`: `receive(m)` returns the first
            `max 1 (min k m)` bytes of the next chunk, where `k` is an **environment choice**
            popped from `env` (no restriction once `env` is used up) - so the theorems quantify
            over every way a byte stream may return fewer bytes than asked for;
* `closed`  `aclose()` was called (wrapper's `_closed`; the wrapped stream is closed too and then
            raises `ClosedResourceError`).

Loops (`receive_exactly`, `receive_until`) recurse on a fuel which `fuel s` always makes large
enough (`BufferedProofs`: the result is never `Err.diverge`); a fuel keeps the definitions
structurally recursive so that the non-vacuity examples evaluate in the kernel.
-/
namespace AnyioModel.Stream.Buffered

abbrev Byte := UInt8

inductive Kind where
  | byte | obj
  deriving DecidableEq, Repr

inductive Err where
  | value        -- ValueError (receive: max_bytes < 1)
  | closed       -- ClosedResourceError
  | eos          -- EndOfStream
  | incomplete   -- IncompleteRead
  | notFound     -- DelimiterNotFound
  | diverge      -- model artefact: fuel exhausted (proved unreachable)
  deriving DecidableEq, Repr

structure State where
  buf : List Byte
  chunks : List (List Byte)
  env : List Nat
  kind : Kind
  closed : Bool
  deriving DecidableEq, Repr

def init (kind : Kind) (chunks : List (List Byte)) (env : List Nat) : State :=
  { buf := [], chunks := chunks, env := env, kind := kind, closed := false }

/-- default `max_bytes` of `ByteReceiveStream.receive` -/
def defaultMax : Nat := 65536

/-- bytes the wrapped stream has not delivered yet -/
def State.rest (s : State) : List Byte := s.chunks.flatten

/-- everything not yet handed out: buffer, then the undelivered rest -/
def State.pending (s : State) : List Byte := s.buf ++ s.rest

abbrev Res := Except Err (List Byte)

instance : DecidableEq Res := fun a b =>
  match a, b with
  | .ok x, .ok y =>
    if h : x = y then isTrue (by rw [h]) else isFalse (by intro h'; cases h'; exact h rfl)
  | .error x, .error y =>
    if h : x = y then isTrue (by rw [h]) else isFalse (by intro h'; cases h'; exact h rfl)
  | .ok _, .error _ => isFalse (by intro h; cases h)
  | .error _, .ok _ => isFalse (by intro h; cases h)

/-- one `await self.receive_stream.receive(max)` -/
def srcRecv (s : State) (max : Nat) : Except Err (List Byte × State) :=
  if s.closed then .error .closed
  else match s.chunks with
    | [] => .error .eos
    | c :: cs =>
      match s.kind with
      | .obj => .ok (c, { s with chunks := cs })
      | .byte =>
        let k := s.env.headD max
        let m := Nat.max 1 (Nat.min k max)
        if c.length ≤ m then .ok (c, { s with chunks := cs, env := s.env.tail })
        else .ok (c.take m, { s with chunks := c.drop m :: cs, env := s.env.tail })

/-- `feed_data` (buffered.py:54-65) -/
def feed (s : State) (bs : List Byte) : State := { s with buf := s.buf ++ bs }

/-- `aclose` (buffered.py:41-43) -/
def close (s : State) : State := { s with closed := true }

/-- `receive(max_bytes)` (buffered.py:67-89) -/
def receive (s : State) (n : Nat) : Res × State :=
  if n < 1 then (.error .value, s)
  else if s.closed then (.error .closed, s)
  else if s.buf ≠ [] then (.ok (s.buf.take n), { s with buf := s.buf.drop n })
  else match s.kind with
    | .byte =>
      match srcRecv s n with
      | .ok (c, s') => (.ok c, s')
      | .error e => (.error e, s)
    | .obj =>
      match srcRecv s defaultMax with
      | .ok (c, s') =>
        if c.length > n then (.ok (c.take n), { s' with buf := s'.buf ++ c.drop n })
        else (.ok c, s')
      | .error e => (.error e, s)

/-- the `while True` of `receive_exactly` (buffered.py:101-116) -/
def exactlyLoop : Nat → State → Nat → Res × State
  | 0, s, _ => (.error .diverge, s)
  | f + 1, s, n =>
    if n ≤ s.buf.length then (.ok (s.buf.take n), { s with buf := s.buf.drop n })
    else match srcRecv s (n - s.buf.length) with
      | .error .eos => (.error .incomplete, s)
      | .error e => (.error e, s)
      | .ok (c, s') => exactlyLoop f { s' with buf := s'.buf ++ c } n

/-- first index `i` with `d` a prefix of `l.drop i` (`bytes.find(d)`) -/
def find0 (d : List Byte) : List Byte → Option Nat
  | [] => if d.isPrefixOf [] then some 0 else none
  | x :: xs => if d.isPrefixOf (x :: xs) then some 0 else (find0 d xs).map (· + 1)

/-- `bytearray.find(d, off)`: first occurrence starting at an index `≥ off` -/
def find (d l : List Byte) (off : Nat) : Option Nat :=
  if off ≤ l.length then (find0 d (l.drop off)).map (· + off) else none

/-- the `while True` of `receive_until` (buffered.py:134-154); `off` is the local `offset` -/
def untilLoop : Nat → State → List Byte → Nat → Nat → Res × State
  | 0, s, _, _, _ => (.error .diverge, s)
  | f + 1, s, d, m, off =>
    match find d s.buf off with
    | some i => (.ok (s.buf.take i), { s with buf := s.buf.drop (i + d.length) })
    | none =>
      if s.buf.length ≥ m then (.error .notFound, s)
      else match srcRecv s defaultMax with
        | .error .eos => (.error .incomplete, s)
        | .error e => (.error e, s)
        | .ok (c, s') =>
          untilLoop f { s' with buf := s'.buf ++ c } d m (s.buf.length + 1 - d.length)

/-- enough iterations for any loop: every wrapped `receive` removes a byte or a chunk -/
def fuel (s : State) : Nat := s.rest.length + s.chunks.length + 1

def receiveExactly (s : State) (n : Nat) : Res × State := exactlyLoop (fuel s) s n

def receiveUntil (s : State) (d : List Byte) (m : Nat) : Res × State :=
  untilLoop (fuel s) s d m 0

/-! ### call sequences -/

inductive Call where
  | receive (n : Nat)
  | exactly (n : Nat)
  | until (d : List Byte) (m : Nat)
  | feed (bs : List Byte)
  | close
  deriving DecidableEq, Repr

def call (s : State) : Call → Res × State
  | .receive n => receive s n
  | .exactly n => receiveExactly s n
  | .until d m => receiveUntil s d m
  | .feed bs => (.ok [], feed s bs)
  | .close => (.ok [], close s)

/-- bytes that leave the stream through a call: what it returns, plus the delimiter a
successful `receive_until` consumes -/
def handed : Call → Res → List Byte
  | .receive _, .ok bs => bs
  | .exactly _, .ok bs => bs
  | .until d _, .ok bs => bs ++ d
  | _, _ => []

def fedBy : Call → List Byte
  | .feed bs => bs
  | _ => []

/-- results of a call sequence and the final state -/
def run : State → List Call → List Res × State
  | s, [] => ([], s)
  | s, c :: cs =>
    let (r, s') := call s c
    let (rs, s'') := run s' cs
    (r :: rs, s'')

end AnyioModel.Stream.Buffered
