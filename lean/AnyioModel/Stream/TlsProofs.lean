/-
Invariant of the TLS endpoint LTS (`AnyioModel.Stream.Tls`) and its preservation.
-/
import AnyioModel.Stream.TlsEngine

namespace AnyioModel.Stream.Tls

/-- receiver side: the bytes written into the incoming BIO so far are the encoding of the
records consumed so far followed by what is still in the BIO; the application data of the
consumed records is exactly what was returned by receive() plus the buffered rest of the last
record; once close_notify was seen it is the last record consumed -/
def Parsed (arrived : List Nat) (delivered : Bytes) (inBio : List Nat) (plain : Bytes)
    (gotCN : Bool) : Prop :=
  ∃ recs, arrived = encodeAll recs ++ inBio ∧ (∀ x ∈ recs, ValidRec x) ∧
    delivered ++ plain = dataOf recs ∧ (gotCN = true → ∃ pre, recs = pre ++ [.closeNotify])

/-- sender side: everything handed to the transport plus what is pending in the outgoing BIO is
the encoding of valid records whose application data is exactly what send() accepted -/
def Sent (w : List Nat) (sentPlain : Bytes) : Prop :=
  ∃ recs, w = encodeAll recs ∧ (∀ x ∈ recs, ValidRec x) ∧ dataOf recs = sentPlain

/-- the part of the invariant that does not speak about the blocked call -/
structure Core (s : State) : Prop where
  parsed : Parsed s.arrived s.delivered s.e.inBio s.e.plain s.e.gotCN
  sent : Sent (s.wireOut ++ s.e.outBio) s.sentPlain
  flushed : s.bioEof = false → s.e.outBio = []
  noPending : s.readsWithPending = 0
  eofBio : s.bioEof = true → s.e.inEof = true
  cnPhase : s.e.gotCN = true → s.e.phase = .established

structure Inv (s : State) : Prop where
  parsed : Parsed s.arrived s.delivered s.e.inBio s.e.plain s.e.gotCN
  sent : Sent (s.wireOut ++ s.e.outBio) s.sentPlain
  flushed : s.bioEof = false → s.e.outBio = []
  noPending : s.readsWithPending = 0
  blockedOk : ∀ c, s.pc = .blocked c → s.e.inEof = false ∧ Starving s.e c ∧
    (c ≠ .handshake → s.e.phase = .established) ∧ (∀ n, c = .read n → 1 ≤ n)
  eofBio : s.bioEof = true → s.e.inEof = true
  cnPhase : s.e.gotCN = true → s.e.phase = .established

theorem Inv.core {s : State} (h : Inv s) : Core s :=
  ⟨h.parsed, h.sent, h.flushed, h.noPending, h.eofBio, h.cnPhase⟩

theorem inv_init (sc server : Bool) : Inv (init sc server) := by
  refine ⟨⟨[], by simp [init, encodeAll], by simp, by simp [init, dataOf], by simp [init]⟩,
    ⟨[], by simp [init, encodeAll], by simp, by simp [init, dataOf]⟩, by simp [init], by simp [init],
    by simp [init], by simp [init], by simp [init]⟩

/-- what a call appends to the outgoing BIO: valid records without application data -/
theorem handshake_out : ∀ (fuel : Nat) (e : Engine), ∃ o,
    (Engine.handshake fuel e).1.outBio = e.outBio ++ encodeAll o ∧ (∀ x ∈ o, ValidRec x) ∧
      dataOf o = [] := by
  intro fuel
  induction fuel with
  | zero => intro e; exact ⟨[], by simp [Engine.handshake, starve, encodeAll], by simp, by simp [dataOf]⟩
  | succ fuel ih =>
    intro e
    have none : ∃ o, e.outBio = e.outBio ++ encodeAll o ∧ (∀ x ∈ o, ValidRec x) ∧ dataOf o = [] :=
      ⟨[], by simp [encodeAll], by simp, by simp [dataOf]⟩
    rw [Engine.handshake]
    split
    · exact none
    · obtain ⟨o, h1, h2, h3⟩ := ih { e with outBio := e.outBio ++ encode (.hs 1), phase := .cWaitServer }
      refine ⟨.hs 1 :: o, by simp [h1, encodeAll], ?_, by simp [dataOf, h3]⟩
      intro x hx; simp only [List.mem_cons] at hx; rcases hx with rfl | hx
      · simp [ValidRec]
      · exact h2 x hx
    · split
      · exact ⟨[.hs 3], by simp [encodeAll], by simp [ValidRec], by simp [dataOf]⟩
      · exact none
      · simpa [starve] using none
    · split
      · rename_i rest _
        obtain ⟨o, h1, h2, h3⟩ :=
          ih { e with inBio := rest, outBio := e.outBio ++ encode (.hs 2), phase := .sWaitFinished }
        refine ⟨.hs 2 :: o, by simp [h1, encodeAll], ?_, by simp [dataOf, h3]⟩
        intro x hx; simp only [List.mem_cons] at hx; rcases hx with rfl | hx
        · simp [ValidRec]
        · exact h2 x hx
      · exact none
      · simpa [starve] using none
    · split
      · exact ⟨[], by simp [encodeAll], by simp, by simp [dataOf]⟩
      · exact none
      · simpa [starve] using none

theorem runOp_out (e : Engine) (c : Call) : ∃ o,
    (runOp e c).1.outBio = e.outBio ++ encodeAll o ∧ (∀ x ∈ o, ValidRec x) ∧ dataOf o = [] := by
  have none : ∃ o, e.outBio = e.outBio ++ encodeAll o ∧ (∀ x ∈ o, ValidRec x) ∧ dataOf o = [] :=
    ⟨[], by simp [encodeAll], by simp, by simp [dataOf]⟩
  cases c with
  | handshake => exact handshake_out 3 e
  | read n =>
    simp only [runOp, Engine.read]
    split
    · exact none
    · split
      · exact none
      · split <;> first | exact none | (simpa [starve] using none)
  | unwrap =>
    simp only [runOp, Engine.unwrap]
    generalize he1 : (if e.sentCN = true then e
        else { e with outBio := e.outBio ++ encode .closeNotify, sentCN := true }) = e1
    have h1 : ∃ o, e1.outBio = e.outBio ++ encodeAll o ∧ (∀ x ∈ o, ValidRec x) ∧ dataOf o = [] := by
      subst he1; split
      · exact none
      · exact ⟨[.closeNotify], by simp [encodeAll], by simp [ValidRec], by simp [dataOf]⟩
    split
    · exact h1
    · split <;> first | exact h1 | (simpa [starve] using h1)

theorem of_some_eq {α β : Type} {x : α × β} {a : α} {b : β} (h : some x = some (a, b)) :
    a = x.1 := by
  cases h; rfl

theorem parsed_step {arrived : List Nat} {delivered : Bytes} {e e' : Engine} {c : Call} {r : SslRes}
    (hp : Parsed arrived delivered e.inBio e.plain e.gotCN) (R : OpRel e c e' r)
    (hcn : e.gotCN = true → e.phase = .established) :
    Parsed arrived (delivered ++ got c r) e'.inBio e'.plain e'.gotCN := by
  obtain ⟨recs, h1, h2, h3, h4⟩ := hp
  obtain ⟨recs2, g1, g2, g3, g4, g5⟩ := R.consumed
  refine ⟨recs ++ recs2, by simp [encodeAll_append, h1, g1], ?_, ?_, ?_⟩
  · intro x hx; simp only [List.mem_append] at hx; rcases hx with hx | hx
    · exact h2 x hx
    · exact g2 x hx
  · rw [dataOf_append, ← h3, List.append_assoc, List.append_assoc, g3]
  · intro hg'
    cases hg : e.gotCN with
    | true =>
      obtain ⟨pre, hpre⟩ := h4 hg
      have := g4 hg (hcn hg)
      exact ⟨pre, by simp [this, hpre]⟩
    | false =>
      have := g5 hg' hg
      exact ⟨recs, by simp [this]⟩

theorem sent_step {w : List Nat} {sp : Bytes} {o : List Rec} (h : Sent w sp)
    (hv : ∀ x ∈ o, ValidRec x) (hd : dataOf o = sp') : Sent (w ++ encodeAll o) (sp ++ sp') := by
  obtain ⟨recs, h1, h2, h3⟩ := h
  refine ⟨recs ++ o, by simp [encodeAll_append, h1], ?_, by simp [dataOf_append, h3, hd]⟩
  intro x hx; simp only [List.mem_append] at hx; rcases hx with hx | hx
  · exact h2 x hx
  · exact hv x hx

/-- one round of the pump loop preserves the invariant -/
theorem pump_inv {s : State} {c : Call} (hi : Core s)
    (hc1 : c ≠ .handshake → s.e.phase = .established) (hc2 : ∀ n, c = .read n → 1 ≤ n) :
    Inv (pump s c).1 := by
  have R := runOp_rel s.e c
  obtain ⟨o, ho1, ho2, ho3⟩ := runOp_out s.e c
  have hP := parsed_step hi.parsed R hi.cnPhase
  have hS : Sent (s.wireOut ++ (runOp s.e c).1.outBio) s.sentPlain := by
    have := sent_step hi.sent ho2 ho3
    simpa [ho1, List.append_assoc] using this
  have hcn : (runOp s.e c).1.gotCN = true → (runOp s.e c).1.phase = .established := by
    intro hg
    cases hg0 : s.e.gotCN with
    | true => exact R.phase (hi.cnPhase hg0)
    | false =>
      by_cases hc : c = .handshake
      · have := R.hs_gotCN hc; rw [this] at hg; simp [hg0] at hg
      · rw [R.phase_hs hc]; exact hc1 hc
  simp only [pump]
  split
  · -- the SSL call succeeded
    rename_i d hr
    have hgot : got c (runOp s.e c).2 = match c with | .read _ => d | _ => [] := by
      rw [hr]; cases c <;> rfl
    split
    · rename_i n
      split
      · rename_i hd
        subst hd
        refine ⟨by simpa [flush, hgot] using hP, by simpa [flush] using hS, by simp [flush],
          by simpa [flush] using hi.noPending, by simp [flush], ?_, by simpa [flush] using hcn⟩
        simp only [flush]; intro hb; rw [R.inEof]; exact hi.eofBio hb
      · refine ⟨by simpa [flush, hgot] using hP, by simpa [flush] using hS, by simp [flush],
          by simpa [flush] using hi.noPending, by simp [flush], ?_, by simpa [flush] using hcn⟩
        simp only [flush]; intro hb; rw [R.inEof]; exact hi.eofBio hb
    · rename_i hnr
      have hg0 : got c (runOp s.e c).2 = [] := by
        rw [hr]; cases c with
        | read n => exact absurd rfl (hnr n)
        | handshake => rfl
        | unwrap => rfl
      refine ⟨by simpa [flush, hg0] using hP, by simpa [flush] using hS, by simp [flush],
        by simpa [flush] using hi.noPending, by simp [flush], ?_, by simpa [flush] using hcn⟩
      simp only [flush]; intro hb; rw [R.inEof]; exact hi.eofBio hb
  · -- WantRead: flush, then block in the transport read
    rename_i hr
    have hg0 : got c (runOp s.e c).2 = [] := by rw [hr]; cases c <;> rfl
    obtain ⟨hin, hst⟩ := R.wantRead hr
    refine ⟨by simpa [flush, hg0] using hP, by simpa [flush] using hS, by simp [flush],
      by simpa [flush] using hi.noPending, ?_, ?_, by simpa [flush] using hcn⟩
    · intro c' hc'
      simp only [flush, Pc.blocked.injEq] at hc'
      subst hc'
      refine ⟨by simp [flush, R.inEof, hin], ?_, ?_, hc2⟩
      · cases c <;> simpa [flush, Starving] using hst
      · intro hc; simp only [flush]; rw [R.phase_hs hc]; exact hc1 hc
    · simp only [flush]; intro hb
      have := hi.eofBio hb
      rw [hin] at this; contradiction
  · -- unexpected EOF
    rename_i hr
    have hg0 : got c (runOp s.e c).2 = [] := by rw [hr]; cases c <;> rfl
    refine ⟨by simpa [hg0] using hP, by simpa using hS, by simp, by simpa using hi.noPending,
      by simp, by simp, by simpa using hcn⟩
  · -- other SSL error
    rename_i hr
    have hg0 : got c (runOp s.e c).2 = [] := by rw [hr]; cases c <;> rfl
    refine ⟨by simpa [hg0] using hP, by simpa using hS, by simp, by simpa using hi.noPending,
      by simp, by simp, by simpa using hcn⟩

theorem inv_step {s s' : State} {ev : Ev} {o : Out} (hi : Inv s) (hs : step s ev = some (s', o)) :
    Inv s' := by
  cases ev with
  | call c =>
    simp only [step] at hs
    split at hs
    · contradiction
    · rename_i hidle
      split at hs
      · rw [of_some_eq hs]; exact pump_inv hi.core (by simp) (by simp)
      · split at hs
        · cases hs; exact hi
        · contradiction
      · rename_i hnh hn0
        split at hs
        · rename_i hest
          rw [of_some_eq hs]
          refine pump_inv hi.core (fun _ => hest) ?_
          intro n hn; subst hn
          cases n with
          | zero => exact absurd rfl hn0
          | succ k => omega
        · contradiction
  | write item sizes =>
    simp only [step] at hs
    split at hs
    · rename_i hw
      cases hs
      obtain ⟨hph, hsc, hb⟩ := hw
      have hout := hi.flushed hb
      have hcut := cutRecords_spec item.length item sizes (Nat.le_refl _)
      refine ⟨by simpa [flush, Engine.write] using hi.parsed, ?_, by simp [flush],
        by simpa [flush] using hi.noPending, ?_, by simpa [flush, Engine.write] using hi.eofBio,
        by simpa [flush, Engine.write] using hi.cnPhase⟩
      · have := sent_step (sp' := item) hi.sent (valid_map_data _ hcut.2)
          (by rw [dataOf_map_data, hcut.1])
        simpa [flush, Engine.write, List.append_assoc] using this
      · intro c hc
        have := hi.blockedOk c (by simpa [flush] using hc)
        obtain ⟨a, b, c1, d⟩ := this
        refine ⟨by simpa [flush, Engine.write] using a, ?_, by simpa [flush, Engine.write] using c1, d⟩
        cases c <;> simpa [flush, Engine.write, Starving] using b
    · contradiction
  | peerFlush bytes =>
    simp only [step] at hs
    split at hs
    · contradiction
    · cases hs; exact ⟨hi.parsed, hi.sent, hi.flushed, hi.noPending, hi.blockedOk, hi.eofBio, hi.cnPhase⟩
  | deliver k =>
    simp only [step] at hs
    split at hs
    · contradiction
    · rename_i c hpc
      split at hs
      · contradiction
      · rw [of_some_eq hs]
        obtain ⟨a, b, c1, d⟩ := hi.blockedOk c hpc
        refine pump_inv ?_ (by simpa using c1) d
        refine ⟨?_, by simpa using hi.sent, by simpa using hi.flushed, by simpa using hi.noPending,
          by simpa using hi.eofBio, by simpa using hi.cnPhase⟩
        obtain ⟨recs, h1, h2, h3, h4⟩ := hi.parsed
        exact ⟨recs, by simp [h1], h2, by simpa using h3, by simpa using h4⟩
  | endTransport =>
    simp only [step] at hs
    split at hs
    · contradiction
    · cases hs; exact ⟨hi.parsed, hi.sent, hi.flushed, hi.noPending, hi.blockedOk, hi.eofBio, hi.cnPhase⟩
  | cut =>
    simp only [step] at hs
    split at hs
    · contradiction
    · cases hs; exact ⟨hi.parsed, hi.sent, hi.flushed, hi.noPending, hi.blockedOk, hi.eofBio, hi.cnPhase⟩
  | eofDeliver =>
    simp only [step] at hs
    split at hs
    · contradiction
    · rename_i c hpc
      split at hs
      · rw [of_some_eq hs]
        obtain ⟨a, b, c1, d⟩ := hi.blockedOk c hpc
        refine pump_inv ?_ (by simpa using c1) d
        exact ⟨by simpa using hi.parsed, by simpa using hi.sent, by simpa using hi.flushed,
          by simpa using hi.noPending, by simp, by simpa using hi.cnPhase⟩
      · contradiction

end AnyioModel.Stream.Tls
