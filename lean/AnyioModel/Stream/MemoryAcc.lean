/-
Accepted and interrupted sends: once a send call has returned normally (or was interrupted by
a cancellation after its item had left the sender), its item is inside the stream or beyond:
buffer, a receiver's slot, delivered -- or lost (which needs a native cancellation, see
`ReachScope`).  It is never rejected, never back in a sender's hands.
-/
import AnyioModel.Stream.MemoryLocStep

namespace AnyioModel.Stream.Memory

/-- the item has entered the stream -/
def Loc.entered : Loc → Bool
  | .buffered | .slot _ | .delivered | .lost => true
  | _ => false

structure InvA (s : State) : Prop where
  acc : ∀ x, x ∈ s.accepted → (s.loc x).entered = true
  intr : ∀ x, x ∈ s.interrupted → (s.loc x).entered = true
  woken : ∀ t x, (s.pc t = .sendWoken x ∨ s.pc t = .sendWokenMC x ∨ s.pc t = .sendWaitFC x) →
    (∃ b, (t, x, b) ∈ s.waitingSenders) ∨ (s.loc x).entered = true

theorem invA_init (m : Option Nat) : InvA (init m) := by
  constructor <;> simp [init]

@[simp] theorem entered_buffered : Loc.entered .buffered = true := rfl
@[simp] theorem entered_slot (u : Nat) : Loc.entered (.slot u) = true := rfl
@[simp] theorem entered_delivered : Loc.entered .delivered = true := rfl
@[simp] theorem entered_lost : Loc.entered .lost = true := rfl
@[simp] theorem entered_rejected : Loc.entered .rejected = false := rfl
@[simp] theorem entered_chk (t : Nat) : Loc.entered (.chk t) = false := rfl
@[simp] theorem entered_queued (t : Nat) : Loc.entered (.queued t) = false := rfl
@[simp] theorem entered_fresh : Loc.entered .fresh = false := rfl

set_option hygiene false in
local macro "afin" : tactic =>
  `(tactic| (constructor <;>
      (simp only [upd_apply, orphanize_apply, reject, List.mem_append, List.mem_singleton]; grind)))

theorem invA_sendCore {s : State} (ha : InvA s) (h x : Nat) (P : List Nat) :
    InvA (sendCore s h x P).1 ∧
    ((sendCore s h x P).2 = .done → ((sendCore s h x P).1.loc x).entered = true) ∧
    ((sendCore s h x P).2 ≠ .done → (sendCore s h x P).1.loc = s.loc) ∧
    (sendCore s h x P).1.waitingSenders = s.waitingSenders ∧
    (sendCore s h x P).1.accepted = s.accepted ∧ (sendCore s h x P).1.interrupted = s.interrupted ∧
    (∀ v, (sendCore s h x P).1.pc v = s.pc v ∨
      ((sendCore s h x P).1.pc v = .recvOrphan ∨ ∃ sl, (sendCore s h x P).1.pc v = .recvWoken sl)) := by
  obtain ⟨a1, a2, a3⟩ := ha
  have e1 := entered_buffered
  have e2 := entered_slot
  rcases sendCore_cases s h x P with ⟨hc, he⟩ | ⟨hc, ho, he⟩ | ⟨hc, ho, d, u, rest, hw, hd, hu, huP, he⟩ |
    ⟨hc, ho, hd, hf, he⟩ | ⟨hc, ho, hd, hf, he⟩
  all_goals rw [he]
  · exact ⟨⟨a1, a2, a3⟩, by simp, by simp, rfl, rfl, rfl, fun v => Or.inl rfl⟩
  · exact ⟨⟨a1, a2, a3⟩, by simp, by simp, rfl, rfl, rfl, fun v => Or.inl rfl⟩
  · refine ⟨?_, by simp, by simp, rfl, rfl, rfl, fun v => ?_⟩
    · afin
    · simp only [upd_apply, orphanize_apply]; grind
  · refine ⟨?_, by simp, by simp, rfl, rfl, rfl, fun v => ?_⟩
    · afin
    · simp only [orphanize_apply]; grind
  · refine ⟨?_, by simp, by simp, rfl, rfl, rfl, fun v => ?_⟩
    · afin
    · simp only [orphanize_apply]; grind

theorem invA_recvCore {s : State} (hq : InvQ s) (ha : InvA s) (h : Nat) :
    InvA (recvCore s h).1 := by
  obtain ⟨a1, a2, a3⟩ := ha
  have e1 := entered_buffered
  have e3 := entered_delivered
  rcases recvCore_cases s h with ⟨hc, he⟩ | ⟨hc, hws, hb, ho, he⟩ | ⟨hc, hws, hb, ho, he⟩ |
    ⟨hc, hws, y, ys, hb, he⟩ | ⟨hc, u, x, b, rest, y, ys, hws, hb, he⟩
  all_goals rw [he]
  · exact ⟨a1, a2, a3⟩
  · exact ⟨a1, a2, a3⟩
  · exact ⟨a1, a2, a3⟩
  · afin
  · have hsub : ∀ w, w ∈ s.waitingSenders ↔ w = (u, x, b) ∨ w ∈ rest := by
      intro w; rw [hws]; simp
    have hhead := hq.ws_pc u x b (by simp [hws])
    have hwk := wakeSender_cases (s.pc u)
    clear hb
    afin


theorem InvA.congr {s s' : State} (ha : InvA s) (e1 : s'.pc = s.pc) (e2 : s'.loc = s.loc)
    (e3 : s'.waitingSenders = s.waitingSenders) (e4 : s'.accepted = s.accepted)
    (e5 : s'.interrupted = s.interrupted) : InvA s' := by
  obtain ⟨a1, a2, a3⟩ := ha
  constructor <;> simp only [e1, e2, e3, e4, e5] <;> assumption

/-- program counter changes that do not create a woken / cancelled sender -/
theorem InvA.mapPc {s : State} (ha : InvA s) (pc' : Nat → Pc)
    (h : ∀ v, pc' v = s.pc v ∨
      ((∀ x, pc' v ≠ .sendWoken x) ∧ (∀ x, pc' v ≠ .sendWokenMC x) ∧ (∀ x, pc' v ≠ .sendWaitFC x))) :
    InvA { s with pc := pc' } := by
  obtain ⟨a1, a2, a3⟩ := ha
  constructor <;> grind

theorem invA_step {s s' : State} {e : Ev} {o : Out} (hq : InvQ s) (hg : InvG s) (ha : InvA s)
    (hs : step s e = some (s', o)) : InvA s' := by
  have e1 := entered_buffered
  have e2 := entered_slot
  have e3 := entered_delivered
  have e4 := entered_lost
  have e5 := entered_rejected
  have e6 := entered_chk
  have e7 := entered_queued
  have e8 := entered_fresh
  cases e with
  | send t h x pre =>
    simp only [step] at hs; split at hs; · contradiction
    rename_i hg0; simp only [not_or, Decidable.not_not] at hg0
    have hfresh : s.loc x = .fresh := (hg.fresh_iff x).mpr (by
      intro u hm; exact hg0.2.2 (isOffered_iff.mpr ⟨u, hm⟩))
    obtain ⟨a1, a2, a3⟩ := ha
    cases hs; afin
  | receive t h pre =>
    simp only [step] at hs; split at hs; · contradiction
    cases hs
    exact ha.mapPc _ (fun v => by simp only [upd_apply]; grind)
  | sendNowait t h x P =>
    simp only [step] at hs; split at hs; · contradiction
    rename_i hg0; simp only [not_or, Decidable.not_not] at hg0
    have hfresh : s.loc x = .fresh := (hg.fresh_iff x).mpr (by
      intro u hm; exact hg0.2.2 (isOffered_iff.mpr ⟨u, hm⟩))
    have ha0 : InvA { s with offered := s.offered ++ [(t, x)] } := ha.congr rfl rfl rfl rfl rfl
    obtain ⟨b1, b2, b3, b4, b5, b6, b7⟩ := invA_sendCore ha0 h x P
    generalize sendCore _ h x P = r at hs b1 b2 b3 b4 b5 b6 b7
    obtain ⟨s1, res⟩ := r
    obtain ⟨a1, a2, a3⟩ := b1
    simp only at b2 b3 b4 b5 b6 b7
    cases res <;> simp only at hs <;> cases hs
    · have := b2 rfl; afin
    · have := b3 (by simp); have hpc := b7 t; afin
    · have := b3 (by simp); have hpc := b7 t; afin
    · have := b3 (by simp); have hpc := b7 t; afin
  | receiveNowait t h =>
    simp only [step] at hs; split at hs; · contradiction
    have := invA_recvCore hq ha h
    generalize recvCore s h = r at hs this
    obtain ⟨s1, res⟩ := r
    cases res <;> simp only at hs <;> cases hs <;> exact this
  | closeS t h =>
    simp only [step] at hs
    split at hs <;> (try split at hs) <;> (try split at hs) <;> simp at hs <;>
      (rw [← hs.1]; exact (ha.mapPc _ (fun v => by simp only [wakeRecv_eq]; grind)).congr
        rfl rfl rfl rfl rfl)
  | closeR t h =>
    simp only [step] at hs
    split at hs; · contradiction
    split at hs
    · cases hs; exact ha
    · split at hs
      · cases hs
        obtain ⟨a1, a2, a3⟩ := ha
        have hmap : ∀ u x b, (u, x, b) ∈ s.waitingSenders.map (fun w => (w.1, w.2.1, true)) ↔
            b = true ∧ ∃ b', (u, x, b') ∈ s.waitingSenders := by
          intro u x b
          simp only [List.mem_map, Prod.mk.injEq, Prod.exists]
          constructor
          · rintro ⟨a, y, b', hm, rfl, rfl, rfl⟩; exact ⟨rfl, b', hm⟩
          · rintro ⟨rfl, b', hm⟩; exact ⟨u, x, b', hm, rfl, rfl, rfl⟩
        have hqd : ∀ v, queuedS v s.waitingSenders = true ↔ ∃ x b, (v, x, b) ∈ s.waitingSenders :=
          fun v => queuedS_iff
        have hwk := wakeSender_cases
        have hsw := hq.sendWait_ws
        constructor
        · exact a1
        · exact a2
        · intro t' x' hp
          simp only at hp
          by_cases hv : queuedS t' s.waitingSenders = true
          · simp only [hv, if_true] at hp
            rcases hwk (s.pc t') with ⟨x0, hp0, hw0⟩ | ⟨hp0, hw0⟩
            · rw [hw0] at hp
              have : x0 = x' := by grind
              subst this
              left; exact ⟨true, (hmap t' x0 true).mpr ⟨rfl, false, hsw t' x0 hp0⟩⟩
            · rw [hw0] at hp
              rcases a3 t' x' hp with ⟨b, hm⟩ | he
              · left; exact ⟨true, (hmap t' x' true).mpr ⟨rfl, b, hm⟩⟩
              · right; exact he
          · simp only [hv] at hp
            rcases a3 t' x' (by simpa using hp) with ⟨b, hm⟩ | he
            · left; exact ⟨true, (hmap t' x' true).mpr ⟨rfl, b, hm⟩⟩
            · right; exact he
      · cases hs; exact ha.congr rfl rfl rfl rfl rfl
  | cloneS t h =>
    simp only [step] at hs
    split at hs <;> (try split at hs) <;> simp at hs <;>
      (rw [← hs.1]; exact ha.congr rfl rfl rfl rfl rfl)
  | cloneR t h =>
    simp only [step] at hs
    split at hs <;> (try split at hs) <;> simp at hs <;>
      (rw [← hs.1]; exact ha.congr rfl rfl rfl rfl rfl)
  | fc t =>
    obtain ⟨a1, a2, a3⟩ := ha
    have hsw := hq.sendWait_ws
    simp only [step] at hs
    split at hs <;> simp at hs <;> (rw [← hs.1]; afin)
  | mc t =>
    obtain ⟨a1, a2, a3⟩ := ha
    simp only [step] at hs
    split at hs <;> simp at hs <;> (rw [← hs.1]; afin)
  | step t P =>
    simp only [step] at hs
    split at hs <;> try contradiction
    · rename_i h x hpc
      have hloc : s.loc x = .chk t := hg.chk_a t h x false hpc
      obtain ⟨b1, b2, b3, b4, b5, b6, b7⟩ := invA_sendCore ha h x P
      generalize sendCore s h x P = r at hs b1 b2 b3 b4 b5 b6 b7
      obtain ⟨s1, res⟩ := r
      obtain ⟨a1, a2, a3⟩ := b1
      simp only at b2 b3 b4 b5 b6 b7
      cases res <;> simp only at hs <;> cases hs
      · have := b2 rfl; have hpc' := b7 t; afin
      · have := b3 (by simp); have hpc' := b7 t; afin
      · have := b3 (by simp); have hpc' := b7 t; afin
      · have := b3 (by simp); have hpc' := b7 t; afin
    · rename_i x hpc
      have hloc : s.loc x = .chk t := hg.chk_b t x hpc
      obtain ⟨a1, a2, a3⟩ := ha
      cases hs; afin
    · rename_i x hpc
      cases hs
      obtain ⟨a1, a2, a3⟩ := ha
      have hqa := hg.queued_a
      have hmr : ∀ w, w ∈ rmSender t s.waitingSenders ↔ w ∈ s.waitingSenders ∧ w.1 ≠ t :=
        fun w => mem_rmSender
      have hws := hq.ws_pc
      have hqd := @queuedS_iff t s.waitingSenders
      have hqf := @queuedS_false_iff t s.waitingSenders
      unfold sendCancelled
      split
      · afin
      · rename_i hnq
        have hnq' : queuedS t s.waitingSenders = false := by simpa using hnq
        have := hqf.mp hnq'
        afin
    · rename_i x hpc
      cases hs
      obtain ⟨a1, a2, a3⟩ := ha
      have hqa := hg.queued_a
      have hmr : ∀ w, w ∈ rmSender t s.waitingSenders ↔ w ∈ s.waitingSenders ∧ w.1 ≠ t :=
        fun w => mem_rmSender
      have hws := hq.ws_pc
      have hqd := @queuedS_iff t s.waitingSenders
      have hqf := @queuedS_false_iff t s.waitingSenders
      unfold sendCancelled
      split
      · afin
      · rename_i hnq
        have hnq' : queuedS t s.waitingSenders = false := by simpa using hnq
        have := hqf.mp hnq'
        afin
    · rename_i x hpc
      obtain ⟨a1, a2, a3⟩ := ha
      have hqa := hg.queued_a
      have hmr : ∀ w, w ∈ rmSender t s.waitingSenders ↔ w ∈ s.waitingSenders ∧ w.1 ≠ t :=
        fun w => mem_rmSender
      have hws := hq.ws_pc
      have hqd := @queuedS_iff t s.waitingSenders
      have hqf := @queuedS_false_iff t s.waitingSenders
      split at hs
      · cases hs; afin
      · rename_i hnq
        have hnq' : queuedS t s.waitingSenders = false := by simpa using hnq
        have := hqf.mp hnq'
        cases hs; afin
    · rename_i h hpc
      have hi1 := invA_recvCore hq ha h
      have hpc1 := recvCore_pc_of_neutral hq (t := t) (by simp [hpc, neutral]) h
      generalize recvCore s h = r at hs hi1 hpc1
      obtain ⟨s1, res⟩ := r
      cases res <;> simp only at hs <;> cases hs <;>
        exact (hi1.mapPc _ (fun v => by simp only [upd_apply]; grind)).congr rfl rfl rfl rfl rfl
    · cases hs; exact ha.mapPc _ (fun v => by simp only [upd_apply]; grind)
    · cases hs; exact (ha.mapPc _ (fun v => by simp only [upd_apply]; grind)).congr rfl rfl rfl rfl rfl
    · rename_i x hpc
      obtain ⟨a1, a2, a3⟩ := ha
      cases hs; afin
    · cases hs; exact (ha.mapPc _ (fun v => by simp only [upd_apply]; grind)).congr rfl rfl rfl rfl rfl
    · rename_i x hpc
      obtain ⟨a1, a2, a3⟩ := ha
      cases hs; afin
    · cases hs; exact (ha.mapPc _ (fun v => by simp only [upd_apply]; grind)).congr rfl rfl rfl rfl rfl

theorem invA_reach {s : State} (h : Reach s) : InvA s := by
  have : (InvQ s ∧ InvG s) ∧ InvA s := by
    refine Reachable.invariant (fun s => (InvQ s ∧ InvG s) ∧ InvA s) ?_ ?_ s h
    · rintro s ⟨m, rfl⟩; exact ⟨⟨invQ_init m, invG_init m⟩, invA_init m⟩
    · intro s e s' o hi hs
      exact ⟨⟨invQ_step hi.1.1 hs, invG_step hi.1.1 hi.1.2 hs⟩, invA_step hi.1.1 hi.1.2 hi.2 hs⟩
  exact this.2

end AnyioModel.Stream.Memory
