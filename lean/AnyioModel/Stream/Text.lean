/-
Model of `anyio.streams.text.TextReceiveStream` / `TextSendStream`
(/repo/src/anyio/streams/text.py:33-109) over abstract incremental codecs.

* A `Decoder` is `codecs.IncrementalDecoder` seen as a state machine: a state and a per-byte
  step which may emit characters or fail (`none` = `UnicodeDecodeError`); `decode` - the
  method `IncrementalDecoder.decode(chunk)` - is the fold of `step` over the chunk.  That
  CPython's decoders behave like such a fold (`d.decode(a); d.decode(b)` ≙ `d.decode(a+b)`) is
  sampled by the harness, not proved.
* An `Encoder` is `codecs.IncrementalEncoder`: `encode st item` returns the new state and the
  bytes (stateful because BOM-writing codecs emit the mark on the first call only).
* `receive` is text.py:60-65: pull chunks from the transport until the decoder emits something.
-/
namespace AnyioModel.Stream.Text

abbrev Byte := UInt8

inductive Err where
  | eos       -- EndOfStream from the transport
  | decode    -- UnicodeDecodeError
  | encode    -- UnicodeEncodeError
  deriving DecidableEq, Repr

structure Decoder (σ χ : Type) where
  init : σ
  step : σ → Byte → Option (σ × List χ)

/-- `IncrementalDecoder.decode(bs)` from state `st`: fold of `step` -/
def Decoder.decode {σ χ : Type} (D : Decoder σ χ) : σ → List Byte → Option (σ × List χ)
  | st, [] => some (st, [])
  | st, b :: bs =>
    match D.step st b with
    | none => none
    | some (st1, o1) =>
      match D.decode st1 bs with
      | none => none
      | some (st2, o2) => some (st2, o1 ++ o2)

structure Encoder (τ χ : Type) where
  init : τ
  encode : τ → List χ → Option (τ × List Byte)

/-- receive side: decoder state and what the transport will still deliver -/
structure RState (σ : Type) where
  dec : σ
  chunks : List (List Byte)

/-- `TextReceiveStream.receive` (text.py:60-65) -/
def receive {σ χ : Type} (D : Decoder σ χ) : σ → List (List Byte) →
    Except Err (List χ) × RState σ
  | st, [] => (.error .eos, ⟨st, []⟩)
  | st, c :: cs =>
    match D.decode st c with
    | none => (.error .decode, ⟨st, cs⟩)
    | some (st', out) =>
      if out ≠ [] then (.ok out, ⟨st', cs⟩) else receive D st' cs

/-- call `receive` until it raises; the strings returned and how it ended.  Every successful
`receive` consumes at least one chunk, so `chunks.length + 1` calls always reach the end. -/
def receiveAllAux {σ χ : Type} (D : Decoder σ χ) : Nat → σ → List (List Byte) →
    List (List χ) × Err
  | 0, _, _ => ([], .eos)
  | f + 1, st, cs =>
    match receive D st cs with
    | (.error e, _) => ([], e)
    | (.ok out, s') =>
      let (outs, e) := receiveAllAux D f s'.dec s'.chunks
      (out :: outs, e)

def receiveAll {σ χ : Type} (D : Decoder σ χ) (chunks : List (List Byte)) :
    List (List χ) × Err :=
  receiveAllAux D (chunks.length + 1) D.init chunks

/-- `TextSendStream.send` for each item in turn (text.py:99-102): the chunks put on the
transport; stops at the first `UnicodeEncodeError`, which sends nothing. -/
def sendAll {τ χ : Type} (E : Encoder τ χ) : τ → List (List χ) → List (List Byte) × Option Err
  | _, [] => ([], none)
  | st, item :: items =>
    match E.encode st item with
    | none => ([], some .encode)
    | some (st', bs) =>
      let (wire, e) := sendAll E st' items
      (bs :: wire, e)

end AnyioModel.Stream.Text
