/-
Conservation invariant of the memory-stream model: the ghost map `loc` (one location per
item id) agrees with where the item really is, so every offered item is in exactly one place.
-/
import AnyioModel.Stream.MemoryInvStep

namespace AnyioModel.Stream.Memory

structure InvG (s : State) : Prop where
  fresh_iff : ∀ x, s.loc x = .fresh ↔ ∀ u, (u, x) ∉ s.offered
  chk_a : ∀ t h x pre, s.pc t = .sendChk h x pre → s.loc x = .chk t
  chk_b : ∀ t x, s.pc t = .sendChkMC x → s.loc x = .chk t
  chk_c : ∀ x t, s.loc x = .chk t → (∃ h pre, s.pc t = .sendChk h x pre) ∨ s.pc t = .sendChkMC x
  queued_a : ∀ t x b, (t, x, b) ∈ s.waitingSenders → s.loc x = .queued t
  queued_b : ∀ x t, s.loc x = .queued t → ∃ b, (t, x, b) ∈ s.waitingSenders
  buffered_iff : ∀ x, s.loc x = .buffered ↔ x ∈ s.buffer
  buffer_nodup : s.buffer.Nodup
  slot_a : ∀ t x, s.pc t = .recvWoken (some x) → s.loc x = .slot t
  slot_b : ∀ t x, s.pc t = .recvWokenMC (some x) → s.loc x = .slot t
  slot_c : ∀ x t, s.loc x = .slot t → s.pc t = .recvWoken (some x) ∨ s.pc t = .recvWokenMC (some x)
  delivered_iff : ∀ x, s.loc x = .delivered ↔ x ∈ s.delivered
  delivered_nodup : s.delivered.Nodup
  rejected_iff : ∀ x, s.loc x = .rejected ↔ x ∈ s.rejected
  rejected_nodup : s.rejected.Nodup
  lost_iff : ∀ x, s.loc x = .lost ↔ x ∈ s.lost
  lost_nodup : s.lost.Nodup

theorem invG_init (m : Option Nat) : InvG (init m) := by
  constructor <;> simp [init]

theorem isOffered_append (s : State) (t x y : Nat) :
    isOffered { s with offered := s.offered ++ [(t, x)] } y = (isOffered s y || decide (x = y)) := by
  simp [isOffered]

theorem nodup_snoc {l : List Nat} {x : Nat} (h : l.Nodup) (hx : x ∉ l) : (l ++ [x]).Nodup := by
  refine List.nodup_append.mpr ⟨h, by simp, ?_⟩
  intro a ha b hb
  simp only [List.mem_singleton] at hb
  subst hb
  rintro rfl
  exact hx ha

theorem invG_step_env {s s' : State} {o : Out} {t : Nat} (hg : InvG s)
    (hs : step s (.fc t) = some (s', o) ∨ step s (.mc t) = some (s', o)) : InvG s' := by
  obtain ⟨g1, g2, g3, g4, g5, g6, g7, g8, g9, g10, g11, g12, g13, g14, g15, g16, g17⟩ := hg
  rcases hs with hs | hs
  · simp only [step] at hs
    split at hs
    all_goals first
      | contradiction
      | (cases hs; constructor <;> first | assumption | grind)
  · simp only [step] at hs
    split at hs
    all_goals first
      | contradiction
      | (cases hs; constructor <;> first | assumption | grind)


set_option hygiene false in
local macro "gfin" : tactic =>
  `(tactic| (constructor <;> first
      | assumption
      | (apply nodup_snoc <;> grind)
      | (simp only [upd_apply, orphanize_apply, reject]; grind)))

theorem invG_step_sendNowait {s s' : State} {o : Out} {t h x : Nat} {P : List Nat}
    (hq : InvQ s) (hg : InvG s) (hs : step s (.sendNowait t h x P) = some (s', o)) : InvG s' := by
  obtain ⟨g1, g2, g3, g4, g5, g6, g7, g8, g9, g10, g11, g12, g13, g14, g15, g16, g17⟩ := hg
  simp only [step] at hs
  split at hs; · contradiction
  rename_i hg0
  simp only [not_or, Decidable.not_not] at hg0
  obtain ⟨hpc, hh, hoff⟩ := hg0
  have hfresh : s.loc x = .fresh := (g1 x).mpr (by
    intro u hm; exact hoff (isOffered_iff.mpr ⟨u, hm⟩))
  have hwr := hq.wr_pc
  rcases sendCore_cases { s with offered := s.offered ++ [(t, x)] } h x P with
    ⟨hc, he⟩ | ⟨hc, ho, he⟩ | ⟨hc, ho, d, u, rest, hw, hd, hu, huP, he⟩ |
    ⟨hc, ho, hd, hf, he⟩ | ⟨hc, ho, hd, hf, he⟩
  · rw [he] at hs; simp only at hs; cases hs; gfin
  · rw [he] at hs; simp only at hs; cases hs; gfin
  · rw [he] at hs; simp only at hs; cases hs
    have hu2 := hwr u (by simp only at hw; simp [hw])
    gfin
  · rw [he] at hs; simp only at hs; cases hs; gfin
  · rw [he] at hs; simp only at hs; cases hs; gfin


/-- program counters that hold no item in the sense of `InvG` -/
def gneutral : Pc → Bool
  | .sendChk _ _ _ | .sendChkMC _ | .recvWoken (some _) | .recvWokenMC (some _) => false
  | _ => true

theorem gneutral_ne {p : Pc} (h : gneutral p = true) :
    (∀ h x pre, p ≠ .sendChk h x pre) ∧ (∀ x, p ≠ .sendChkMC x) ∧
    (∀ x, p ≠ .recvWoken (some x)) ∧ (∀ x, p ≠ .recvWokenMC (some x)) := by
  cases p <;> simp [gneutral] at h ⊢
  all_goals (rename_i sl; cases sl <;> simp [gneutral] at h ⊢)

theorem InvG.congr {s s' : State} (hg : InvG s)
    (e1 : s'.pc = s.pc) (e2 : s'.loc = s.loc) (e3 : s'.offered = s.offered)
    (e4 : s'.waitingSenders = s.waitingSenders) (e5 : s'.buffer = s.buffer)
    (e6 : s'.delivered = s.delivered) (e7 : s'.rejected = s.rejected) (e8 : s'.lost = s.lost) :
    InvG s' := by
  obtain ⟨g1, g2, g3, g4, g5, g6, g7, g8, g9, g10, g11, g12, g13, g14, g15, g16, g17⟩ := hg
  constructor <;> simp only [e1, e2, e3, e4, e5, e6, e7, e8] <;> assumption

theorem InvG.setPc {s : State} (hg : InvG s) (t : Nat) (p : Pc)
    (h0 : gneutral (s.pc t) = true) (hp : gneutral p = true) :
    InvG { s with pc := upd s.pc t p } := by
  obtain ⟨g1, g2, g3, g4, g5, g6, g7, g8, g9, g10, g11, g12, g13, g14, g15, g16, g17⟩ := hg
  have a := gneutral_ne h0
  have b := gneutral_ne hp
  constructor <;> first | assumption | (simp only [upd_apply]; grind)

theorem invG_recvCore {s : State} (hq : InvQ s) (hg : InvG s) (h : Nat) :
    InvG (recvCore s h).1 := by
  obtain ⟨g1, g2, g3, g4, g5, g6, g7, g8, g9, g10, g11, g12, g13, g14, g15, g16, g17⟩ := hg
  rcases recvCore_cases s h with ⟨hc, he⟩ | ⟨hc, hws, hb, ho, he⟩ | ⟨hc, hws, hb, ho, he⟩ |
    ⟨hc, hws, y, ys, hb, he⟩ | ⟨hc, u, x, b, rest, y, ys, hws, hb, he⟩
  · rw [he]; exact ⟨g1, g2, g3, g4, g5, g6, g7, g8, g9, g10, g11, g12, g13, g14, g15, g16, g17⟩
  · rw [he]; exact ⟨g1, g2, g3, g4, g5, g6, g7, g8, g9, g10, g11, g12, g13, g14, g15, g16, g17⟩
  · rw [he]; exact ⟨g1, g2, g3, g4, g5, g6, g7, g8, g9, g10, g11, g12, g13, g14, g15, g16, g17⟩
  · rw [he]
    have hnd := g8
    rw [hb] at hnd
    have hnd2 := List.nodup_cons.mp hnd
    have hmem : ∀ z, z ∈ s.buffer ↔ z = y ∨ z ∈ ys := by intro z; rw [hb]; simp
    clear hnd hb
    gfin
  · rw [he]
    have hxq : s.loc x = .queued u := g5 u x b (by simp [hws])
    have hxb : x ∉ s.buffer := by intro hm; have := (g7 x).mpr hm; rw [hxq] at this; cases this
    have hnd : (s.buffer ++ [x]).Nodup := nodup_snoc g8 hxb
    rw [hb] at hnd
    have hnd2 := List.nodup_cons.mp hnd
    have hmem : ∀ z, (z ∈ s.buffer ∨ z = x) ↔ (z = y ∨ z ∈ ys) := by
      intro z
      have := congrArg (fun l => z ∈ l) hb
      simpa using this
    have hndw := hq.ws_nodup
    rw [hws] at hndw
    simp only [List.map_cons, List.nodup_cons, List.mem_map, not_exists, not_and] at hndw
    have hur : ∀ x' b', (u, x', b') ∉ rest := fun x' b' hm => hndw.1 (u, x', b') hm rfl
    have hsub : ∀ w, w ∈ s.waitingSenders ↔ w = (u, x, b) ∨ w ∈ rest := by
      intro w; rw [hws]; simp
    have hhead := hq.ws_pc u x b (by simp [hws])
    have hwk : wakeSender (s.pc u) = .sendWoken x ∨ wakeSender (s.pc u) = s.pc u := by
      rcases wakeSender_cases (s.pc u) with ⟨x0, hp0, hw0⟩ | ⟨hp0, hw0⟩
      · left; rw [hw0]; rw [hp0] at hhead; grind
      · right; exact hw0
    clear hnd hb hndw
    gfin

end AnyioModel.Stream.Memory
