/-
Invariant of the `StreamProtocol` + `SocketStream` model and the lemmas about the UNIX
raw-socket loops.  The property theorems are in `AnyioModel.Props.C18`.
-/
import AnyioModel.Stream.Socket

namespace AnyioModel.Stream.Socket

/-! ### small helpers -/

theorem isRecvPc_iff {p : Pc} :
    isRecvPc p = true ↔ (p = .recvWait ∨ p = .recvWoken ∨ p = .recvChk) := by
  cases p <;> simp [isRecvPc]

theorem isSendPc_iff {p : Pc} :
    isSendPc p = true ↔ (p = .sendChk ∨ p = .sendWait ∨ p = .sendWoken) := by
  cases p <;> simp [isSendPc]

/-! ### the invariant -/

structure Inv (s : State) : Prop where
  /-- I1: a set read event with an empty queue means EOF or connection lost -/
  ev_queue : s.readEvent = true → s.queue = [] → (s.eof = true ∨ s.lost = true)
  /-- I2 -/
  closing_src : s.closing = true → (s.closed = true ∨ s.lost = true)
  closed_closing : s.closed = true → s.closing = true
  /-- I3 -/
  woken_ev : ∀ t, s.pc t = .recvWoken → s.readEvent = true
  /-- I4 -/
  chk_ev : ∀ t, s.pc t = .recvChk → (s.readEvent = true ∨ s.closing = true ∨ s.eof = true)
  /-- I5 -/
  chunks_ne : ∀ c ∈ s.queue, c ≠ []
  /-- I6: the guards are held exactly by the task inside the operation -/
  rowner_iff : ∀ t, s.rowner = some t ↔
    (s.pc t = .recvWait ∨ s.pc t = .recvWoken ∨ s.pc t = .recvChk)
  sowner_iff : ∀ t, s.sowner = some t ↔
    (s.pc t = .sendChk ∨ s.pc t = .sendWait ∨ s.pc t = .sendWoken)
  /-- I7: nothing lost, duplicated or reordered between `data_received` and `receive` -/
  pref : s.arrived = s.delivered ++ s.queue.flatten
  /-- I8 -/
  arg_pos : ∀ t, (s.pc t = .recvWait ∨ s.pc t = .recvWoken ∨ s.pc t = .recvChk) → 1 ≤ s.arg t
  /-- I9: a blocked, not cancelled sender is blocked on a closed gate -/
  send_wait : ∀ t, s.pc t = .sendWait → s.canc t = false → s.writeOpen = false
  /-- I10 -/
  queue_ev : s.queue ≠ [] → s.readEvent = true
  /-- I11: a blocked, not cancelled receiver has nothing to be woken for (`closing` may have
  become true through another task's `aclose`; the receiver then stays blocked until
  `connection_lost`, as in the real code) -/
  recv_wait : ∀ t, s.pc t = .recvWait → s.canc t = false →
    s.readEvent = false ∧ s.eof = false ∧ s.lost = false ∧ s.reading = true
  /-- I12: the transport reads only while a `receive` is in (or being woken from) its wait -/
  reading_src : s.reading = true → ∃ t, s.pc t = .recvWait ∨ s.pc t = .recvWoken
  /-- I13 -/
  canc_busy : ∀ t, s.canc t = true → s.pc t ≠ .idle
  /-- I14 -/
  lost_closing : s.lost = true → s.closing = true ∧ s.writeOpen = true
  exc_lost : s.exc = true → s.lost = true

theorem inv_init : Inv init := by
  constructor <;> simp [init]

/-! ### UNIX loops -/

/-- concatenation of the chunks the kernel script still holds -/
def flattenChunks : List (Option Bytes) → Bytes
  | [] => []
  | none :: sc => flattenChunks sc
  | some c :: sc => c ++ flattenChunks sc

theorem unixSendLoop_all (fuel : Nat) (view : Bytes) (script : List Nat) (acc : Bytes)
    (h : script.length + 1 ≤ fuel) : (unixSendLoop fuel view script acc).1 = acc ++ view := by
  induction fuel generalizing view script acc with
  | zero => omega
  | succ fuel ih =>
    cases view with
    | nil => simp [unixSendLoop]
    | cons b view =>
      cases script with
      | nil => simp [unixSendLoop]
      | cons k script =>
        cases k with
        | zero =>
          simp only [unixSendLoop]
          exact ih _ _ _ (by simp at h ⊢; omega)
        | succ k =>
          simp only [unixSendLoop]
          rw [ih _ _ _ (by simp at h ⊢; omega)]
          simp [List.append_assoc, List.take_append_drop]

theorem unixRecvOne_data {fuel n : Nat} {p : Bytes} {sc : List (Option Bytes)} {d p' sc'}
    (hn : 1 ≤ n) (h : unixRecvOne fuel n p sc = (.data d, p', sc')) :
    1 ≤ d.length ∧ d.length ≤ n ∧ p ++ flattenChunks sc = d ++ p' ++ flattenChunks sc' := by
  induction fuel generalizing p sc with
  | zero => simp [unixRecvOne] at h
  | succ fuel ih =>
    simp only [unixRecvOne] at h
    split at h
    · rename_i hp
      simp only [Prod.mk.injEq, RecvOut.data.injEq] at h
      obtain ⟨rfl, rfl, rfl⟩ := h
      have : 1 ≤ p.length := by cases p <;> simp_all
      refine ⟨?_, ?_, ?_⟩
      · simp; omega
      · simp; omega
      · simp
    · rename_i hp
      simp only [ne_eq, Decidable.not_not] at hp
      subst hp
      split at h
      · simp at h
      · have := ih h
        simpa [flattenChunks] using this
      · rename_i c sc1
        split at h
        · simp at h
        · rename_i hc
          simp only [Prod.mk.injEq, RecvOut.data.injEq] at h
          obtain ⟨rfl, rfl, rfl⟩ := h
          have : 1 ≤ c.length := by cases c <;> simp_all
          refine ⟨?_, ?_, ?_⟩
          · simp; omega
          · simp; omega
          · simp [flattenChunks]

/-- `receive` raises EndOfStream only with nothing pending, and drops nothing on the way -/
theorem unixRecvOne_eos {fuel n : Nat} {p : Bytes} {sc : List (Option Bytes)} {p' sc'}
    (hf : sc.length + 1 ≤ fuel) (h : unixRecvOne fuel n p sc = (.eos, p', sc')) :
    p = [] ∧ p' = [] ∧ flattenChunks sc = flattenChunks sc' := by
  induction fuel generalizing p sc with
  | zero => omega
  | succ fuel ih =>
    simp only [unixRecvOne] at h
    split at h
    · simp at h
    · rename_i hp
      simp only [ne_eq, Decidable.not_not] at hp
      subst hp
      split at h
      · simp only [Prod.mk.injEq, true_and] at h
        obtain ⟨rfl, rfl⟩ := h
        simp
      · have := ih (by simp at hf ⊢; omega) h
        simpa [flattenChunks] using this
      · rename_i c sc1
        split at h
        · rename_i hc
          simp only [Prod.mk.injEq, true_and] at h
          obtain ⟨rfl, rfl⟩ := h
          simp [flattenChunks, hc]
        · simp at h

theorem unixRecv_length (ns : List Nat) (p : Bytes) (sc : List (Option Bytes)) :
    (unixRecv ns p sc).length = ns.length := by
  induction ns generalizing p sc with
  | nil => simp [unixRecv]
  | cons n ns ih =>
    simp only [unixRecv]
    split <;> simp [ih]

end AnyioModel.Stream.Socket
