/-
The structural invariant `InvQ` is preserved by every step of the memory-stream model.
-/
import AnyioModel.Stream.MemoryInv

namespace AnyioModel.Stream.Memory

theorem sendCore_pc_of_neutral {s : State} (hi : InvQ s) {t : Nat} (hn : neutral (s.pc t) = true)
    (h x : Nat) (P : List Nat) : (sendCore s h x P).1.pc t = s.pc t := by
  have a := neutral_ne hn
  have hwr := hi.wr_pc t
  rcases sendCore_cases s h x P with ⟨hc, he⟩ | ⟨hc, ho, he⟩ | ⟨hc, ho, d, u, rest, hw, hd, hu, huP, he⟩ |
    ⟨hc, ho, hd, hf, he⟩ | ⟨hc, ho, hd, hf, he⟩
  · rw [he]
  · rw [he]
  · rw [he]
    have hu2 := hi.wr_pc u (by simp [hw])
    simp only [upd_apply, orphanize_apply]
    grind
  · rw [he]; simp only [orphanize_apply]; grind
  · rw [he]; simp only [orphanize_apply]; grind

theorem recvCore_pc_of_neutral {s : State} (hi : InvQ s) {t : Nat} (hn : neutral (s.pc t) = true)
    (h : Nat) : (recvCore s h).1.pc t = s.pc t := by
  have a := neutral_ne hn
  rcases recvCore_cases s h with ⟨hc, he⟩ | ⟨hc, hws, hb, ho, he⟩ | ⟨hc, hws, hb, ho, he⟩ |
    ⟨hc, hws, y, ys, hb, he⟩ | ⟨hc, u, x, b, rest, y, ys, hws, hb, he⟩
  · rw [he]
  · rw [he]
  · rw [he]
  · rw [he]
  · rw [he]
    have := hi.ws_pc u x b (by simp [hws])
    simp only [upd_apply]
    grind

theorem invQ_finish_recv {s : State} (hi : InvQ s) (t : Nat)
    (hp : s.pc t = .recvWaitFC ∨ ∃ sl, s.pc t = .recvWoken sl ∨ s.pc t = .recvWokenMC sl) :
    InvQ { s with waitingReceivers := rmRecv t s.waitingReceivers, pc := upd s.pc t .idle } := by
  obtain ⟨h1, h2, h3, h4, h5, h6, h7, h8, h9, h10, h11, h12, h13, h14, h15, h16, h17, h18, h19⟩ := hi
  have hnd : (rmRecv t s.waitingReceivers).Nodup := List.Nodup.sublist List.filter_sublist h7
  have hm : ∀ u, u ∈ rmRecv t s.waitingReceivers ↔ u ∈ s.waitingReceivers ∧ u ≠ t :=
    fun u => mem_rmRecv
  have hnil : s.waitingReceivers = [] → rmRecv t s.waitingReceivers = [] := by
    intro h; simp [h, rmRecv]
  constructor <;> simp only [upd_apply] <;> grind

theorem invQ_finish_send {s : State} (hi : InvQ s) (t x : Nat)
    (hp : s.pc t = .sendWaitFC x ∨ s.pc t = .sendWoken x ∨ s.pc t = .sendWokenMC x) :
    InvQ { s with waitingSenders := rmSender t s.waitingSenders, pc := upd s.pc t .idle } := by
  obtain ⟨h1, h2, h3, h4, h5, h6, h7, h8, h9, h10, h11, h12, h13, h14, h15, h16, h17, h18, h19⟩ := hi
  have hnd : ((rmSender t s.waitingSenders).map (·.1)).Nodup :=
    List.Nodup.sublist (List.Sublist.map _ List.filter_sublist) h10
  have hm : ∀ w, w ∈ rmSender t s.waitingSenders ↔ w ∈ s.waitingSenders ∧ w.1 ≠ t :=
    fun w => mem_rmSender
  have hnil : rmSender t s.waitingSenders ≠ [] → s.waitingSenders ≠ [] := by
    intro h h0; simp [h0, rmSender] at h
  constructor <;> simp only [upd_apply] <;> grind

theorem rmSender_of_not_queued {t : Nat} {ws : List (Nat × Nat × Bool)}
    (h : queuedS t ws = false) : rmSender t ws = ws := by
  rw [queuedS_false_iff] at h
  simp only [rmSender, List.filter_eq_self, decide_eq_true_eq]
  rintro ⟨a, x, b⟩ hm rfl
  exact h x b hm

theorem invQ_sendCancelled {s : State} (hi : InvQ s) (t x : Nat)
    (hp : s.pc t = .sendWaitFC x ∨ s.pc t = .sendWoken x ∨ s.pc t = .sendWokenMC x) :
    InvQ (sendCancelled s t x) := by
  have := invQ_finish_send hi t x hp
  unfold sendCancelled
  split
  · exact this.congr rfl rfl rfl rfl rfl rfl rfl rfl rfl rfl rfl
  · rename_i hq
    have hq' : queuedS t s.waitingSenders = false := by simpa using hq
    rw [rmSender_of_not_queued hq'] at this
    exact this.congr rfl rfl rfl rfl rfl rfl rfl rfl rfl rfl rfl

theorem invQ_step_send {s s' : State} {o : Out} {t h x : Nat} {pre : Bool} (hi : InvQ s)
    (hs : step s (.send t h x pre) = some (s', o)) : InvQ s' := by
  simp only [step] at hs
  split at hs; · contradiction
  rename_i hg
  simp only [not_or, Decidable.not_not] at hg
  cases hs
  exact (hi.setNeutral t (.sendChk h x pre) (by simp [hg.1, neutral]) (by simp [neutral]) (by simp; omega)).congr
    rfl rfl rfl rfl rfl rfl rfl rfl rfl rfl rfl

theorem invQ_step_receive {s s' : State} {o : Out} {t h : Nat} {pre : Bool} (hi : InvQ s)
    (hs : step s (.receive t h pre) = some (s', o)) : InvQ s' := by
  simp only [step] at hs
  split at hs; · contradiction
  rename_i hg
  simp only [not_or, Decidable.not_not] at hg
  cases hs
  exact hi.setNeutral t (.recvChk h pre) (by simp [hg.1, neutral]) (by simp [neutral]) (by simp)

theorem invQ_step_sendNowait {s s' : State} {o : Out} {t h x : Nat} {P : List Nat} (hi : InvQ s)
    (hs : step s (.sendNowait t h x P) = some (s', o)) : InvQ s' := by
  simp only [step] at hs
  split at hs; · contradiction
  rename_i hg
  simp only [not_or, Decidable.not_not] at hg
  have hi0 : InvQ { s with offered := s.offered ++ [(t, x)] } :=
    hi.congr rfl rfl rfl rfl rfl rfl rfl rfl rfl rfl rfl
  have hi1 := invQ_sendCore hi0 (h := h) (x := x) P hg.2.1
  have hpc := sendCore_pc_of_neutral hi0 (t := t) (by simp [hg.1, neutral]) h x P
  have hn : neutral ((sendCore { s with offered := s.offered ++ [(t, x)] } h x P).1.pc t) = true := by
    rw [hpc]; simp [hg.1, neutral]
  generalize sendCore { s with offered := s.offered ++ [(t, x)] } h x P = r at hs hi1 hn
  obtain ⟨s1, res⟩ := r
  cases res <;> simp only at hs <;> cases hs
  · exact hi1.congr rfl rfl rfl rfl rfl rfl rfl rfl rfl rfl rfl
  all_goals
    exact (hi1.setNeutral t .idle hn (by simp [neutral]) (by simp)).congr rfl rfl rfl rfl rfl rfl rfl rfl rfl rfl rfl

theorem invQ_step_receiveNowait {s s' : State} {o : Out} {t h : Nat} (hi : InvQ s)
    (hs : step s (.receiveNowait t h) = some (s', o)) : InvQ s' := by
  simp only [step] at hs
  split at hs; · contradiction
  have hi1 := invQ_recvCore hi h
  generalize recvCore s h = r at hs hi1
  obtain ⟨s1, res⟩ := r
  cases res <;> simp only at hs <;> cases hs <;> exact hi1


theorem invQ_step_clone {s s' : State} {o : Out} {t h : Nat} (hi : InvQ s)
    (hs : step s (.cloneS t h) = some (s', o) ∨ step s (.cloneR t h) = some (s', o)) : InvQ s' := by
  obtain ⟨h1, h2, h3, h4, h5, h6, h7, h8, h9, h10, h11, h12, h13, h14, h15, h16, h17, h18, h19⟩ := hi
  rcases hs with hs | hs
  · simp only [step] at hs
    split at hs; · contradiction
    split at hs
    · cases hs; exact ⟨h1, h2, h3, h4, h5, h6, h7, h8, h9, h10, h11, h12, h13, h14, h15, h16, h17, h18, h19⟩
    · cases hs
      have hc := h1 s.nS (Nat.le_refl _)
      rename_i hg hcl
      simp only [not_or, Decidable.not_not] at hg
      have hpos := openCount_pos hg.2 (by simpa using hcl)
      have hcnt : openCount s.closedS (s.nS + 1) = openCount s.closedS s.nS + 1 := by
        simp [openCount, hc]
      constructor <;> grind
  · simp only [step] at hs
    split at hs; · contradiction
    split at hs
    · cases hs; exact ⟨h1, h2, h3, h4, h5, h6, h7, h8, h9, h10, h11, h12, h13, h14, h15, h16, h17, h18, h19⟩
    · cases hs
      have hc := h2 s.nR (Nat.le_refl _)
      rename_i hg hcl
      simp only [not_or, Decidable.not_not] at hg
      have hpos := openCount_pos hg.2 (by simpa using hcl)
      have hcnt : openCount s.closedR (s.nR + 1) = openCount s.closedR s.nR + 1 := by
        simp [openCount, hc]
      constructor <;> grind

theorem invQ_step_closeS {s s' : State} {o : Out} {t h : Nat} (hi : InvQ s)
    (hs : step s (.closeS t h) = some (s', o)) : InvQ s' := by
  obtain ⟨h1, h2, h3, h4, h5, h6, h7, h8, h9, h10, h11, h12, h13, h14, h15, h16, h17, h18, h19⟩ := hi
  simp only [step] at hs
  split at hs; · contradiction
  rename_i hg
  simp only [not_or, Decidable.not_not] at hg
  split at hs
  · cases hs; exact ⟨h1, h2, h3, h4, h5, h6, h7, h8, h9, h10, h11, h12, h13, h14, h15, h16, h17, h18, h19⟩
  · rename_i hc
    have hc' : s.closedS h = false := by simpa using hc
    have hcnt := openCount_close hg.2 hc'
    have hout : ∀ k, s.nS ≤ k → upd s.closedS h true k = false := by
      intro k hk; rw [upd_other _ _ _ _ (by omega)]; exact h1 k hk
    have hbw : s.waitingReceivers ≠ [] → s.buffer = [] ∧ s.waitingSenders = [] := by
      intro hne
      exact ⟨Classical.byContradiction fun hb => hne (h13 hb),
             Classical.byContradiction fun hb => hne (h16 hb)⟩
    split at hs
    · cases hs
      constructor <;> simp only [wakeRecv_eq] <;> grind
    · cases hs
      constructor <;> grind

theorem invQ_step_closeR {s s' : State} {o : Out} {t h : Nat} (hi : InvQ s)
    (hs : step s (.closeR t h) = some (s', o)) : InvQ s' := by
  obtain ⟨h1, h2, h3, h4, h5, h6, h7, h8, h9, h10, h11, h12, h13, h14, h15, h16, h17, h18, h19⟩ := hi
  simp only [step] at hs
  split at hs; · contradiction
  rename_i hg
  simp only [not_or, Decidable.not_not] at hg
  split at hs
  · cases hs; exact ⟨h1, h2, h3, h4, h5, h6, h7, h8, h9, h10, h11, h12, h13, h14, h15, h16, h17, h18, h19⟩
  · rename_i hc
    have hc' : s.closedR h = false := by simpa using hc
    have hcnt := openCount_close hg.2 hc'
    have hout : ∀ k, s.nR ≤ k → upd s.closedR h true k = false := by
      intro k hk; rw [upd_other _ _ _ _ (by omega)]; exact h2 k hk
    split at hs
    · cases hs
      have hmap : ∀ u x b, (u, x, b) ∈ s.waitingSenders.map (fun w => (w.1, w.2.1, true)) ↔
          b = true ∧ ∃ b', (u, x, b') ∈ s.waitingSenders := by
        intro u x b
        simp only [List.mem_map, Prod.mk.injEq, Prod.exists]
        constructor
        · rintro ⟨a, y, b', hm, rfl, rfl, rfl⟩; exact ⟨rfl, b', hm⟩
        · rintro ⟨rfl, b', hm⟩; exact ⟨u, x, b', hm, rfl, rfl, rfl⟩
      have hfst : (s.waitingSenders.map (fun w => (w.1, w.2.1, true))).map (·.1) =
          s.waitingSenders.map (·.1) := by
        simp [List.map_map, Function.comp_def]
      have hq : ∀ v, queuedS v s.waitingSenders = true ↔ ∃ x b, (v, x, b) ∈ s.waitingSenders :=
        fun v => queuedS_iff
      have hnil : s.waitingSenders.map (fun w => (w.1, w.2.1, true)) ≠ [] → s.waitingSenders ≠ [] := by
        intro h h0; simp [h0] at h
      have hwk : ∀ p : Pc, (∃ x, p = .sendWait x ∧ wakeSender p = .sendWoken x) ∨
          ((∀ x, p ≠ .sendWait x) ∧ wakeSender p = p) := wakeSender_cases
      constructor
      all_goals simp only [hfst]
      all_goals first
        | assumption
        | grind
    · cases hs
      constructor <;> grind


theorem sendCore_wouldBlock {s : State} {h x : Nat} {P : List Nat}
    (hr : (sendCore s h x P).2 = .wouldBlock) :
    (sendCore s h x P).1.waitingReceivers = [] ∧
    fits (sendCore s h x P).1.maxSize (sendCore s h x P).1.buffer.length = false ∧
    (sendCore s h x P).1.openRecv ≠ 0 ∧
    (sendCore s h x P).1.waitingSenders = s.waitingSenders := by
  rcases sendCore_cases s h x P with ⟨hc, he⟩ | ⟨hc, ho, he⟩ | ⟨hc, ho, d, u, rest, hw, hd, hu, huP, he⟩ |
    ⟨hc, ho, hd, hf, he⟩ | ⟨hc, ho, hd, hf, he⟩
  all_goals rw [he] at hr ⊢
  all_goals first
    | (simp at hr; done)
    | exact ⟨rfl, hf, ho, rfl⟩

theorem recvCore_wouldBlock {s : State} {h : Nat} (hr : (recvCore s h).2 = .wouldBlock) :
    (recvCore s h).1 = s ∧ s.waitingSenders = [] ∧ s.buffer = [] ∧ s.openSend ≠ 0 := by
  rcases recvCore_cases s h with ⟨hc, he⟩ | ⟨hc, hws, hb, ho, he⟩ | ⟨hc, hws, hb, ho, he⟩ |
    ⟨hc, hws, y, ys, hb, he⟩ | ⟨hc, u, x, b, rest, y, ys, hws, hb, he⟩
  all_goals rw [he] at hr ⊢
  all_goals first
    | (simp at hr; done)
    | exact ⟨rfl, hws, hb, ho⟩

theorem invQ_enqueue_sender {s : State} (hi : InvQ s) (t x : Nat) (hn : neutral (s.pc t) = true)
    (hwr : s.waitingReceivers = []) (hf : fits s.maxSize s.buffer.length = false)
    (ho : s.openRecv ≠ 0) (hos : s.openSend ≠ 0) :
    InvQ { s with waitingSenders := s.waitingSenders ++ [(t, x, false)],
                  pc := upd s.pc t (.sendWait x) } := by
  obtain ⟨h1, h2, h3, h4, h5, h6, h7, h8, h9, h10, h11, h12, h13, h14, h15, h16, h17, h18, h19⟩ := hi
  have a := neutral_ne hn
  have hnot : ∀ y b, (t, y, b) ∉ s.waitingSenders := by
    intro y b hm; have := h8 t y b hm; grind
  have hnd : ((s.waitingSenders ++ [(t, x, false)]).map (·.1)).Nodup := by
    simp only [List.map_append, List.map_cons, List.map_nil]
    refine List.nodup_append.mpr ⟨h10, by simp, ?_⟩
    intro a ha b hb
    simp only [List.mem_singleton] at hb
    subst hb
    rintro rfl
    obtain ⟨⟨a', y, b'⟩, hm, rfl⟩ := List.mem_map.mp ha
    exact hnot y b' hm
  have hm : ∀ w, w ∈ s.waitingSenders ++ [(t, x, false)] ↔ w ∈ s.waitingSenders ∨ w = (t, x, false) := by
    intro w; simp
  constructor
  all_goals first
    | exact hnd
    | (simp only [upd_apply]; grind)

theorem invQ_enqueue_receiver {s : State} (hi : InvQ s) (t : Nat) (hn : neutral (s.pc t) = true)
    (hws : s.waitingSenders = []) (hb : s.buffer = []) (ho : s.openSend ≠ 0) :
    InvQ { s with waitingReceivers := s.waitingReceivers ++ [t], pc := upd s.pc t .recvWait } := by
  obtain ⟨h1, h2, h3, h4, h5, h6, h7, h8, h9, h10, h11, h12, h13, h14, h15, h16, h17, h18, h19⟩ := hi
  have a := neutral_ne hn
  have hnot : t ∉ s.waitingReceivers := by
    intro hm; have := h5 t hm; grind
  have hnd : (s.waitingReceivers ++ [t]).Nodup := by
    refine List.nodup_append.mpr ⟨h7, by simp, ?_⟩
    intro a ha b hb
    simp only [List.mem_singleton] at hb
    subst hb
    rintro rfl
    exact hnot ha
  have hm : ∀ w, w ∈ s.waitingReceivers ++ [t] ↔ w ∈ s.waitingReceivers ∨ w = t := by
    intro w; simp
  constructor
  all_goals first
    | exact hnd
    | (simp only [upd_apply]; grind)


theorem sendCore_closedS_of_not_closed {s : State} {h x : Nat} {P : List Nat}
    (hr : (sendCore s h x P).2 ≠ .closed) : s.closedS h = false := by
  rcases sendCore_cases s h x P with ⟨hc, he⟩ | ⟨hc, _⟩ | ⟨hc, _⟩ | ⟨hc, _⟩ | ⟨hc, _⟩
  · rw [he] at hr; simp at hr
  all_goals exact hc

theorem sendCore_frame {s : State} {h x : Nat} {P : List Nat} :
    (sendCore s h x P).1.nS = s.nS ∧ (sendCore s h x P).1.closedS = s.closedS ∧
    (sendCore s h x P).1.openSend = s.openSend := by
  rcases sendCore_cases s h x P with ⟨hc, he⟩ | ⟨hc, ho, he⟩ | ⟨hc, ho, d, u, rest, hw, hd, hu, huP, he⟩ |
    ⟨hc, ho, hd, hf, he⟩ | ⟨hc, ho, hd, hf, he⟩
  all_goals rw [he]; exact ⟨rfl, rfl, rfl⟩

theorem invQ_step_step {s s' : State} {o : Out} {t : Nat} {P : List Nat} (hi : InvQ s)
    (hs : step s (.step t P) = some (s', o)) : InvQ s' := by
  simp only [step] at hs
  split at hs <;> try contradiction
  · -- sendChk h x false
    rename_i h x hpc
    have hn0 : neutral (s.pc t) = true := by simp [hpc, neutral]
    have hh : h < s.nS := hi.chk_handle t h x false hpc
    have hi1 := invQ_sendCore hi (h := h) (x := x) P hh
    have hpc1 := sendCore_pc_of_neutral hi hn0 h x P
    have hwb := @sendCore_wouldBlock s h x P
    have hcl := @sendCore_closedS_of_not_closed s h x P
    have hfr := @sendCore_frame s h x P
    have hn : neutral ((sendCore s h x P).1.pc t) = true := by rw [hpc1]; exact hn0
    generalize sendCore s h x P = r at hs hi1 hn hwb hcl hfr
    obtain ⟨s1, res⟩ := r
    cases res <;> simp only at hs <;> cases hs
    · exact (hi1.setNeutral t .idle hn (by simp [neutral]) (by simp)).congr
        rfl rfl rfl rfl rfl rfl rfl rfl rfl rfl rfl
    · obtain ⟨w1, w2, w3, w4⟩ := hwb rfl
      have hc : s.closedS h = false := hcl (by simp)
      have hos : s1.openSend ≠ 0 := by
        have := openCount_pos hh hc
        rw [← hi.openSend_eq] at this
        simp only at hfr
        omega
      exact (invQ_enqueue_sender hi1 t x hn w1 w2 w3 hos).congr rfl rfl rfl rfl rfl rfl rfl rfl rfl rfl rfl
    · exact (hi1.setNeutral t .idle hn (by simp [neutral]) (by simp)).congr
        rfl rfl rfl rfl rfl rfl rfl rfl rfl rfl rfl
    · exact (hi1.setNeutral t .idle hn (by simp [neutral]) (by simp)).congr
        rfl rfl rfl rfl rfl rfl rfl rfl rfl rfl rfl
  · -- sendChkMC
    rename_i x hpc
    cases hs
    exact (hi.setNeutral t .idle (by simp [hpc, neutral]) (by simp [neutral]) (by simp)).congr
      rfl rfl rfl rfl rfl rfl rfl rfl rfl rfl rfl
  · rename_i x hpc
    cases hs; exact invQ_sendCancelled hi t x (by simp [hpc])
  · rename_i x hpc
    cases hs; exact invQ_sendCancelled hi t x (by simp [hpc])
  · -- sendWoken
    rename_i x hpc
    have := invQ_finish_send hi t x (by simp [hpc])
    split at hs
    · cases hs; exact this.congr rfl rfl rfl rfl rfl rfl rfl rfl rfl rfl rfl
    · rename_i hq
      have hq' : queuedS t s.waitingSenders = false := by simpa using hq
      rw [rmSender_of_not_queued hq'] at this
      cases hs; exact this.congr rfl rfl rfl rfl rfl rfl rfl rfl rfl rfl rfl
  · -- recvChk h false
    rename_i h hpc
    have hn0 : neutral (s.pc t) = true := by simp [hpc, neutral]
    have hi1 := invQ_recvCore hi h
    have hpc1 := recvCore_pc_of_neutral hi hn0 h
    have hwb := @recvCore_wouldBlock s h
    have hn : neutral ((recvCore s h).1.pc t) = true := by rw [hpc1]; exact hn0
    generalize recvCore s h = r at hs hi1 hn hwb
    obtain ⟨s1, res⟩ := r
    cases res <;> simp only at hs <;> cases hs
    · exact hi1.setNeutral t .idle hn (by simp [neutral]) (by simp)
    · obtain ⟨w1, w2, w3, w4⟩ := hwb rfl
      simp only at w1
      subst w1
      exact invQ_enqueue_receiver hi1 t hn w2 w3 w4
    · exact hi1.setNeutral t .idle hn (by simp [neutral]) (by simp)
    · exact hi1.setNeutral t .idle hn (by simp [neutral]) (by simp)
  · rename_i hpc
    cases hs
    exact hi.setNeutral t .idle (by simp [hpc, neutral]) (by simp [neutral]) (by simp)
  · rename_i hpc
    cases hs; exact invQ_finish_recv hi t (by simp [hpc])
  · rename_i x hpc
    cases hs
    exact (invQ_finish_recv hi t (Or.inr ⟨some x, Or.inl hpc⟩)).congr rfl rfl rfl rfl rfl rfl rfl rfl rfl rfl rfl
  · rename_i hpc
    cases hs; exact invQ_finish_recv hi t (Or.inr ⟨none, Or.inl hpc⟩)
  · rename_i x hpc
    cases hs
    exact (invQ_finish_recv hi t (Or.inr ⟨some x, Or.inr hpc⟩)).congr rfl rfl rfl rfl rfl rfl rfl rfl rfl rfl rfl
  · rename_i hpc
    cases hs; exact invQ_finish_recv hi t (Or.inr ⟨none, Or.inr hpc⟩)

/-- every step preserves the structural invariant -/
theorem invQ_step {s s' : State} {e : Ev} {o : Out} (hi : InvQ s)
    (hs : step s e = some (s', o)) : InvQ s' := by
  cases e with
  | send t h x pre => exact invQ_step_send hi hs
  | sendNowait t h x P => exact invQ_step_sendNowait hi hs
  | receive t h pre => exact invQ_step_receive hi hs
  | receiveNowait t h => exact invQ_step_receiveNowait hi hs
  | closeS t h => exact invQ_step_closeS hi hs
  | closeR t h => exact invQ_step_closeR hi hs
  | cloneS t h => exact invQ_step_clone hi (Or.inl hs)
  | cloneR t h => exact invQ_step_clone hi (Or.inr hs)
  | step t P => exact invQ_step_step hi hs
  | fc t => exact invQ_step_env hi (Or.inl hs)
  | mc t => exact invQ_step_env hi (Or.inr hs)

theorem invQ_reach {s : State} (h : Reach s) : InvQ s := by
  refine Reachable.invariant InvQ ?_ ?_ s h
  · rintro s ⟨m, rfl⟩; exact invQ_init m
  · intro s e s' o hi hs; exact invQ_step hi hs

end AnyioModel.Stream.Memory
