/-
Facts about the abstract record format of `AnyioModel.Stream.Tls` (pure functions): parsing is
sound and inverts encoding, record streams parse uniquely (prefix-freeness), cutting a plaintext
into records loses nothing.
-/
import AnyioModel.Stream.Tls

namespace AnyioModel.Stream.Tls

def ValidRec : Rec → Prop
  | .data p => p ≠ []
  | _ => True

/-- concatenated application data of a record list -/
def dataOf : List Rec → Bytes
  | [] => []
  | .data p :: rs => p ++ dataOf rs
  | .closeNotify :: rs => dataOf rs
  | .hs _ :: rs => dataOf rs

theorem encode_ne_nil (r : Rec) : encode r ≠ [] := by
  cases r <;> simp [encode]

theorem encodeAll_append (a b : List Rec) : encodeAll (a ++ b) = encodeAll a ++ encodeAll b := by
  induction a with
  | nil => simp [encodeAll]
  | cons r rs ih => simp [encodeAll, ih]

theorem dataOf_append (a b : List Rec) : dataOf (a ++ b) = dataOf a ++ dataOf b := by
  induction a with
  | nil => simp [dataOf]
  | cons r rs ih => cases r <;> simp [dataOf, ih]

/-- what `parseOne` returns is a valid record whose encoding is the front of the input -/
theorem parse_sound {b : List Nat} {r : Rec} {rest : List Nat}
    (h : parseOne b = some (r, rest)) : b = encode r ++ rest ∧ ValidRec r := by
  match b, h with
  | 0 :: r0, h =>
    simp only [parseOne, Option.some.injEq, Prod.mk.injEq] at h
    obtain ⟨rfl, rfl⟩ := h
    simp [encode, ValidRec]
  | 1 :: t :: r0, h =>
    simp only [parseOne, Option.some.injEq, Prod.mk.injEq] at h
    obtain ⟨rfl, rfl⟩ := h
    simp [encode, ValidRec]
  | (k + 2) :: r0, h =>
    simp only [parseOne] at h
    split at h
    · rename_i hk
      simp only [Option.some.injEq, Prod.mk.injEq] at h
      obtain ⟨rfl, rfl⟩ := h
      refine ⟨?_, ?_⟩
      · have hmin : min (k + 1) r0.length = k + 1 := by omega
        simp only [encode, List.length_take, List.cons_append, List.take_append_drop, hmin]
      · simp only [ValidRec]
        intro h0
        have h0' : (List.take (k + 1) r0).length = 0 := by rw [h0]; rfl
        rw [List.length_take] at h0'
        omega
    · contradiction

/-- a valid record in front of anything is parsed back -/
theorem parse_encode {r : Rec} (hv : ValidRec r) (x : List Nat) :
    parseOne (encode r ++ x) = some (r, x) := by
  cases r with
  | closeNotify => simp [encode, parseOne]
  | hs t => simp [encode, parseOne]
  | data p =>
    cases p with
    | nil => simp [ValidRec] at hv
    | cons a p' =>
      simp only [encode, List.length_cons, List.cons_append]
      simp only [parseOne]
      have h1 : p'.length + 1 ≤ (a :: (p' ++ x)).length := by simp
      simp only [h1, if_true]
      have h2 : List.take (p'.length + 1) (a :: (p' ++ x)) = a :: p' := by
        simp [List.take_succ_cons]
      have h3 : List.drop (p'.length + 1) (a :: (p' ++ x)) = x := by
        simp [List.drop_succ_cons]
      rw [h2, h3]

/-- record streams parse uniquely: if one valid record stream is a prefix (as bytes) of another,
it is a prefix as a list of records, and what is left over is the encoding of the rest -/
theorem encodeAll_unique : ∀ (recs S : List Rec) (z : List Nat),
    (∀ r ∈ recs, ValidRec r) → (∀ r ∈ S, ValidRec r) → encodeAll recs ++ z = encodeAll S →
    ∃ S', S = recs ++ S' ∧ z = encodeAll S' := by
  intro recs
  induction recs with
  | nil => intro S z _ _ h; exact ⟨S, by simp, by simpa [encodeAll] using h⟩
  | cons r rs ih =>
    intro S z hv hS h
    cases S with
    | nil =>
      simp only [encodeAll, List.append_assoc] at h
      have := encode_ne_nil r
      cases hr : encode r with
      | nil => exact absurd hr this
      | cons a as => rw [hr] at h; simp at h
    | cons r' S'' =>
      simp only [encodeAll, List.append_assoc] at h
      have p1 := parse_encode (hv r (by simp)) (encodeAll rs ++ z)
      have p2 := parse_encode (hS r' (by simp)) (encodeAll S'')
      rw [h, p2] at p1
      simp only [Option.some.injEq, Prod.mk.injEq] at p1
      obtain ⟨rfl, htail⟩ := p1
      obtain ⟨S', hS', hz⟩ := ih S'' z (fun x hx => hv x (by simp [hx]))
        (fun x hx => hS x (by simp [hx])) htail.symm
      exact ⟨S', by simp [hS'], hz⟩

/-- cutting a plaintext into records: the pieces are non-empty and concatenate to the plaintext,
whatever sizes the environment picks -/
theorem cutRecords_spec : ∀ (fuel : Nat) (b : Bytes) (sizes : List Nat), b.length ≤ fuel →
    (cutRecords fuel b sizes).flatten = b ∧ ∀ p ∈ cutRecords fuel b sizes, p ≠ [] := by
  intro fuel
  induction fuel with
  | zero =>
    intro b sizes h
    have : b = [] := List.eq_nil_of_length_eq_zero (by omega)
    subst this
    simp [cutRecords]
  | succ fuel ih =>
    intro b sizes h
    cases b with
    | nil => simp [cutRecords]
    | cons a b' =>
      cases sizes with
      | nil => simp [cutRecords]
      | cons k ks =>
        simp only [cutRecords]
        have hlen : (List.drop (k + 1) (a :: b')).length ≤ fuel := by
          simp at h ⊢; omega
        obtain ⟨h1, h2⟩ := ih (List.drop (k + 1) (a :: b')) ks hlen
        refine ⟨?_, ?_⟩
        · simp only [List.flatten_cons, h1, List.take_append_drop]
        · intro p hp
          simp only [List.mem_cons] at hp
          rcases hp with rfl | hp
          · simp
          · exact h2 p hp

theorem dataOf_map_data (ps : List Bytes) : dataOf (ps.map .data) = ps.flatten := by
  induction ps with
  | nil => simp [dataOf]
  | cons p ps ih => simp [dataOf, ih]

theorem valid_map_data (ps : List Bytes) (h : ∀ p ∈ ps, p ≠ []) :
    ∀ r ∈ ps.map Rec.data, ValidRec r := by
  intro r hr
  simp only [List.mem_map] at hr
  obtain ⟨p, hp, rfl⟩ := hr
  exact h p hp

end AnyioModel.Stream.Tls
