/-
Invariant of the `_RawSocketMixin` model for the CURRENT code (`fixed = true`), for both loop
kinds, and its preservation by every step.
-/
import AnyioModel.Stream.RawSock

namespace AnyioModel.Stream.RawSock

/-- per direction; `closing` is the stream's `_closing` flag -/
structure SideInv (closing : Bool) (x : Side) : Prop where
  /-- a task suspended in `await f` has a pending future whose callbacks are not scheduled -/
  wait_fut : x.pc = .waiting → x.fut = .pending ∧ x.cb = false
  /-- a pending future is always awaited by the task of its direction -/
  fut_wait : x.fut = .pending → x.pc = .waiting
  /-- a scheduled done callback belongs to a woken task with a done future -/
  cb_pc : x.cb = true → x.pc = .woken ∧ (x.fut = .resolved ∨ x.fut = .cancelled)
  /-- `_receive_future` / `_send_future` is set exactly from the creation of the future until its
  done callback ran, and it is the newest future -/
  field_eq : x.field = if x.pc = .waiting ∨ x.cb = true then some x.gen else none
  /-- the loop watches the socket exactly while the field is set and the stream is not closing -/
  reg_eq : x.reg = if closing = true then none else x.field
  /-- nobody is suspended on a closing stream -/
  closing_nowait : closing = true → x.pc ≠ .waiting

structure Inv (s : State) : Prop where
  bad : s.badRemove = 0
  late : s.lateRemove = 0
  closed_eq : s.closed = s.closing
  fd : s.fdOpen = !s.closed
  rd : SideInv s.closing s.rd
  wr : SideInv s.closing s.wr

theorem Inv.side {s : State} (h : Inv s) (d : Dir) : SideInv s.closing (s.side d) := by
  cases d
  · exact h.rd
  · exact h.wr

theorem fst_of_some_eq {α β : Type} {p : α × β} {a : α} {b : β} (h : some p = some (a, b)) :
    a = p.1 := by
  cases h; rfl

@[simp] theorem removeReg_closing (s : State) (d : Dir) : (removeReg s d).closing = s.closing := by
  cases d <;> rfl

@[simp] theorem closeSock_closing (c : Cfg) (s : State) : (closeSock c s).closing = s.closing := rfl

/-- `aclose()` always leaves `_closing` set (both code versions) -/
theorem doAclose_closing (c : Cfg) (s : State) : (doAclose c s).closing = true := by
  unfold doAclose
  split
  · assumption
  · simp only [apply_ite State.closing, closeSock_closing, removeReg_closing, ite_self]

theorem inv_init : Inv init := by
  refine ⟨rfl, rfl, rfl, rfl, ?_, ?_⟩ <;> constructor <;> simp [init]

/-- `attempt` on a direction whose task is about to make the socket call -/
theorem inv_attempt {s : State} (hi : Inv s) (d : Dir) (block : Bool)
    (hpc : (s.side d).pc ≠ .waiting) (hcb : (s.side d).cb = false) : Inv (attempt s d block).1 := by
  obtain ⟨hb, hl, hce, hfd, hr, hw⟩ := hi
  obtain ⟨r1, r2, r3, r4, r5, r6⟩ := hr
  obtain ⟨w1, w2, w3, w4, w5, w6⟩ := hw
  cases d <;> simp only [State.side] at hpc hcb <;> cases hfo : s.fdOpen <;> cases block <;>
    simp only [attempt, State.side, State.setSide, hfo, if_true, if_false, Bool.false_eq_true] <;>
    (refine ⟨?_, ?_, ?_, ?_, ⟨?_, ?_, ?_, ?_, ?_, ?_⟩, ⟨?_, ?_, ?_, ?_, ?_, ?_⟩⟩ <;> simp_all)

theorem inv_step {dc : Bool} {s s' : State} {e : Ev} {o : Out} (hi : Inv s)
    (hs : step ⟨true, dc⟩ s e = some (s', o)) : Inv s' := by
  cases e with
  | call d block =>
    simp only [step] at hs
    split at hs
    · rename_i hpc
      rw [fst_of_some_eq hs]
      have := (hi.side d).cb_pc
      exact inv_attempt hi d block (by simp [hpc]) (by
        cases hcb : (s.side d).cb with
        | false => rfl
        | true => have := (this hcb).1; simp [hpc] at this)
    · rename_i o' hpc
      rw [fst_of_some_eq hs]
      have := (hi.side d).cb_pc
      exact inv_attempt hi d block (by simp [hpc]) (by
        cases hcb : (s.side d).cb with
        | false => rfl
        | true => have := (this hcb).1; simp [hpc] at this)
    · contradiction
  | resume d block =>
    simp only [step] at hs
    split at hs
    · rename_i hpc
      split at hs
      · cases hs
        obtain ⟨hb, hl, hce, hfd, hr, hw⟩ := hi
        obtain ⟨r1, r2, r3, r4, r5, r6⟩ := hr
        obtain ⟨w1, w2, w3, w4, w5, w6⟩ := hw
        cases d <;> simp only [State.side] at hpc <;> simp only [State.side, State.setSide] <;>
          (refine ⟨?_, ?_, ?_, ?_, ⟨?_, ?_, ?_, ?_, ?_, ?_⟩, ⟨?_, ?_, ?_, ?_, ?_, ?_⟩⟩ <;> simp_all)
      · rw [fst_of_some_eq hs]
        exact inv_attempt hi d block (by simp [hpc.1]) hpc.2
    · contradiction
  | fire d =>
    simp only [step] at hs
    split at hs
    · rename_i hpre
      cases hs
      obtain ⟨hb, hl, hce, hfd, hr, hw⟩ := hi
      obtain ⟨r1, r2, r3, r4, r5, r6⟩ := hr
      obtain ⟨w1, w2, w3, w4, w5, w6⟩ := hw
      cases d <;> simp only [State.side] at hpre <;>
        simp only [State.side, State.setSide, settle, hpre.2.2, if_true] <;>
        (refine ⟨?_, ?_, ?_, ?_, ⟨?_, ?_, ?_, ?_, ?_, ?_⟩, ⟨?_, ?_, ?_, ?_, ?_, ?_⟩⟩ <;> simp_all)
    · contradiction
  | cancel d =>
    simp only [step] at hs
    split at hs
    · rename_i hpre
      cases hs
      obtain ⟨hb, hl, hce, hfd, hr, hw⟩ := hi
      obtain ⟨r1, r2, r3, r4, r5, r6⟩ := hr
      obtain ⟨w1, w2, w3, w4, w5, w6⟩ := hw
      cases d <;> simp only [State.side] at hpre <;>
        simp only [State.side, State.setSide, settle, hpre.2, if_true] <;>
        (refine ⟨?_, ?_, ?_, ?_, ⟨?_, ?_, ?_, ?_, ?_, ?_⟩, ⟨?_, ?_, ?_, ?_, ?_, ?_⟩⟩ <;> simp_all)
    · contradiction
  | runCallback d =>
    simp only [step] at hs
    split at hs
    · rename_i hcb
      cases hs
      obtain ⟨hb, hl, hce, hfd, hr, hw⟩ := hi
      obtain ⟨r1, r2, r3, r4, r5, r6⟩ := hr
      obtain ⟨w1, w2, w3, w4, w5, w6⟩ := hw
      cases hcl : s.closing <;> cases d <;> simp only [State.side] at hcb <;>
        simp only [State.side, State.setSide, removeReg, hcl, Bool.and_true, Bool.and_false,
          Bool.false_eq_true, if_false, if_true] <;>
        (refine ⟨?_, ?_, ?_, ?_, ⟨?_, ?_, ?_, ?_, ?_, ?_⟩, ⟨?_, ?_, ?_, ?_, ?_, ?_⟩⟩ <;> simp_all)
    · contradiction
  | aclose =>
    simp only [step] at hs
    cases hs
    unfold doAclose
    split
    · exact hi
    · rename_i hcl
      obtain ⟨hb, hl, hce, hfd, hr, hw⟩ := hi
      obtain ⟨r1, r2, r3, r4, r5, r6⟩ := hr
      obtain ⟨w1, w2, w3, w4, w5, w6⟩ := hw
      have hcl' : s.closing = false := by simpa using hcl
      have hcd : s.closed = false := by rw [hce, hcl']
      have hfo : s.fdOpen = true := by rw [hfd, hcd]; rfl
      simp only [hfo, if_true]
      refine ⟨?_, ?_, ?_, ?_, ⟨?_, ?_, ?_, ?_, ?_, ?_⟩, ⟨?_, ?_, ?_, ?_, ?_, ?_⟩⟩ <;>
        simp only [closeSock, removeReg, wakeIfField, settle, State.side, State.setSide, Dir.other] <;>
        grind

end AnyioModel.Stream.RawSock
