/-
What one call of the abstract SSL object does to the engine (`runOp`): which records it
consumes from the incoming BIO, what it returns, when it starves.
-/
import AnyioModel.Stream.TlsCodec

namespace AnyioModel.Stream.Tls

/-- the plaintext a call hands to its caller -/
def got : Call → SslRes → Bytes
  | .read _, .ok d => d
  | _, _ => []

/-- the engine is waiting for more ciphertext on behalf of call `c` -/
def Starving (e : Engine) : Call → Prop
  | .read _ => e.plain = [] ∧ e.gotCN = false ∧ parseOne e.inBio = none
  | .unwrap => e.sentCN = true ∧ e.gotCN = false ∧ parseOne e.inBio = none
  | .handshake =>
    (e.phase = .cWaitServer ∨ e.phase = .sWaitHello ∨ e.phase = .sWaitFinished) ∧
      parseOne e.inBio = none

structure OpRel (e : Engine) (c : Call) (e' : Engine) (r : SslRes) : Prop where
  /-- the call consumed whole valid records from the front of the incoming BIO, and their
  application data went to the caller or into the plaintext buffer -/
  consumed : ∃ recs, e.inBio = encodeAll recs ++ e'.inBio ∧ (∀ x ∈ recs, ValidRec x) ∧
    e.plain ++ dataOf recs = got c r ++ e'.plain ∧
    (e.gotCN = true → e.phase = .established → recs = []) ∧
    (e'.gotCN = true → e.gotCN = false → recs = [.closeNotify])
  inEof : e'.inEof = e.inEof
  wantRead : r = .wantRead → e.inEof = false ∧ Starving e' c
  eofError : r = .eofError → e.inEof = true
  gotCN_mono : e.gotCN = true → e'.gotCN = true
  hs_gotCN : c = .handshake → e'.gotCN = e.gotCN
  phase : e.phase = .established → e'.phase = .established
  phase_hs : c ≠ .handshake → e'.phase = e.phase

theorem read_rel (e : Engine) (n : Nat) : OpRel e (.read n) (e.read n).1 (e.read n).2 := by
  unfold Engine.read
  split
  · -- buffered plaintext first
    exact ⟨⟨[], by simp [encodeAll], by simp, by simp [dataOf, got], by simp, by simp_all⟩, rfl,
      by simp, by simp, by simp, by simp, by simp, by simp⟩
  · rename_i hp
    have hp : e.plain = [] := by simpa using hp
    split
    · exact ⟨⟨[], by simp [encodeAll], by simp, by simp [dataOf, got, hp], by simp, by simp_all⟩, rfl,
        by simp, by simp, by simp, by simp, by simp, by simp⟩
    · rename_i hg
      have hg : e.gotCN = false := by simpa using hg
      split
      · rename_i p rest hparse
        obtain ⟨hb, hv⟩ := parse_sound hparse
        exact ⟨⟨[.data p], by simp [encodeAll, hb], by simpa using hv,
          by simp [dataOf, got, hp], by simp [hg], by simp [hg]⟩, rfl, by simp, by simp,
          by simp [hg], by simp [hg], by simp, by simp⟩
      · rename_i rest hparse
        obtain ⟨hb, hv⟩ := parse_sound hparse
        exact ⟨⟨[.closeNotify], by simp [encodeAll, hb], by simp [ValidRec],
          by simp [dataOf, got, hp], by simp [hg], by simp⟩, rfl, by simp, by simp,
          by simp, by simp, by simp, by simp⟩
      · exact ⟨⟨[], by simp [encodeAll], by simp, by simp [dataOf, got], by simp, by simp_all⟩, rfl,
          by simp, by simp, by simp, by simp, by simp, by simp⟩
      · rename_i hparse
        refine ⟨⟨[], by simp [encodeAll, starve], by simp,
          by cases hin : e.inEof <;> simp [dataOf, got, starve, hin], by simp,
          by simp_all [starve]⟩, by simp [starve], ?_, ?_, by simp [starve], by simp [starve],
          by simp [starve], by simp [starve]⟩
        · simp only [starve]
          intro h
          split at h <;> simp_all [Starving]
        · simp only [starve]
          intro h
          split at h <;> simp_all

theorem unwrap_rel (e : Engine) : OpRel e .unwrap e.unwrap.1 e.unwrap.2 := by
  unfold Engine.unwrap
  simp only
  generalize he1 : (if e.sentCN = true then e
      else { e with outBio := e.outBio ++ encode .closeNotify, sentCN := true }) = e1
  have h1 : e1.inBio = e.inBio ∧ e1.plain = e.plain ∧ e1.gotCN = e.gotCN ∧ e1.inEof = e.inEof ∧
      e1.phase = e.phase ∧ e1.sentCN = true := by
    subst he1; split <;> simp_all
  obtain ⟨hi, hpl, hg, hf, hph, hs⟩ := h1
  split
  · exact ⟨⟨[], by simp [encodeAll, hi], by simp, by simp [dataOf, got, hpl], by simp, by simp_all⟩,
      hf, by simp, by simp, by simp_all, by simp, by simp [hph], by simp [hph]⟩
  · rename_i hng
    have hng : e1.gotCN = false := by simpa using hng
    split
    · rename_i rest hparse
      obtain ⟨hb, hv⟩ := parse_sound hparse
      exact ⟨⟨[.closeNotify], by simp [encodeAll, ← hi, hb], by simp [ValidRec],
        by simp [dataOf, got, hpl], by simp_all, by simp⟩, by simp [hf], by simp, by simp,
        by simp, by simp, by simp [hph], by simp [hph]⟩
    · exact ⟨⟨[], by simp [encodeAll, hi], by simp, by simp [dataOf, got, hpl], by simp, by simp_all⟩,
        hf, by simp, by simp, by simp_all, by simp, by simp [hph], by simp [hph]⟩
    · rename_i hparse
      refine ⟨⟨[], by simp [encodeAll, starve, hi], by simp, by simp [dataOf, got, starve, hpl],
        by simp, by simp_all [starve]⟩, by simp [starve, hf], ?_, ?_, by simp_all [starve],
        by simp [starve], by simp [starve, hph], by simp [starve, hph]⟩
      · simp only [starve]
        intro h
        split at h <;> simp_all [Starving]
      · simp only [starve]
        intro h
        split at h <;> simp_all


/-- building block for the handshake cases: records `recs` (no application data) were consumed -/
theorem mk_hs (e e' : Engine) (r : SslRes) (recs : List Rec)
    (h1 : e.inBio = encodeAll recs ++ e'.inBio) (hv : ∀ x ∈ recs, ValidRec x)
    (hd : dataOf recs = []) (hpl : e'.plain = e.plain) (hin : e'.inEof = e.inEof)
    (hg : e'.gotCN = e.gotCN) (hne : e.phase = .established → recs = [] ∧ e'.phase = .established)
    (hw : r = .wantRead → e.inEof = false ∧ Starving e' .handshake)
    (he : r = .eofError → e.inEof = true) : OpRel e .handshake e' r :=
  ⟨⟨recs, h1, hv, by simp [hd, got, hpl], fun _ hp => (hne hp).1, by intro a b; simp_all⟩, hin, hw, he,
    by intro a; simp_all, fun _ => hg, fun hp => (hne hp).2, by simp⟩

theorem starve_hs (e : Engine)
    (hph : e.phase = .cWaitServer ∨ e.phase = .sWaitHello ∨ e.phase = .sWaitFinished)
    (hparse : parseOne e.inBio = none) : OpRel e .handshake (starve e).1 (starve e).2 := by
  have hne : e.phase ≠ .established := by rcases hph with h | h | h <;> simp [h]
  refine mk_hs e _ _ [] (by simp [encodeAll, starve]) (by simp) (by simp [dataOf]) (by simp [starve])
    (by simp [starve]) (by simp [starve]) (fun h => absurd h hne) ?_ ?_
  · simp only [starve]; intro h; split at h <;> simp_all [Starving]
  · simp only [starve]; intro h; split at h <;> simp_all

theorem proto_hs (e : Engine) (hne : e.phase ≠ .established) :
    OpRel e .handshake e .protoError :=
  mk_hs e e _ [] (by simp [encodeAll]) (by simp) (by simp [dataOf]) rfl rfl rfl
    (fun h => absurd h hne) (by simp) (by simp)

theorem rel_cWait (fuel : Nat) (e : Engine) (h : e.phase = .cWaitServer) :
    OpRel e .handshake (Engine.handshake (fuel + 1) e).1 (Engine.handshake (fuel + 1) e).2 := by
  have hne : e.phase ≠ .established := by simp [h]
  rw [Engine.handshake]
  simp only [h]
  split
  · rename_i rest hparse
    obtain ⟨hb, _⟩ := parse_sound hparse
    exact mk_hs e _ _ [.hs 2] (by simp [encodeAll, hb]) (by simp [ValidRec]) (by simp [dataOf]) rfl rfl
      rfl (fun h => absurd h hne) (by simp) (by simp)
  · exact proto_hs e hne
  · rename_i hparse
    exact starve_hs e (Or.inl h) hparse

theorem rel_sFin (fuel : Nat) (e : Engine) (h : e.phase = .sWaitFinished) :
    OpRel e .handshake (Engine.handshake (fuel + 1) e).1 (Engine.handshake (fuel + 1) e).2 := by
  have hne : e.phase ≠ .established := by simp [h]
  rw [Engine.handshake]
  simp only [h]
  split
  · rename_i rest hparse
    obtain ⟨hb, _⟩ := parse_sound hparse
    exact mk_hs e _ _ [.hs 3] (by simp [encodeAll, hb]) (by simp [ValidRec]) (by simp [dataOf]) rfl rfl
      rfl (fun h => absurd h hne) (by simp) (by simp)
  · exact proto_hs e hne
  · rename_i hparse
    exact starve_hs e (Or.inr (Or.inr h)) hparse

theorem handshake_plain : ∀ (fuel : Nat) (e : Engine), (Engine.handshake fuel e).1.plain = e.plain := by
  intro fuel
  induction fuel with
  | zero => intro e; simp [Engine.handshake, starve]
  | succ fuel ih =>
    intro e
    rw [Engine.handshake]
    split
    · rfl
    · rw [ih]
    · split <;> simp [starve]
    · split
      · rw [ih]
      · rfl
      · simp [starve]
    · split <;> simp [starve]

/-- a handshake step that first consumed the records `pre` (no application data) and changed
only BIOs and phase -/
theorem OpRel.after_hs {e e2 e' : Engine} {r : SslRes} {pre : List Rec}
    (h : OpRel e2 .handshake e' r) (hpp : e'.plain = e2.plain)
    (hb : e.inBio = encodeAll pre ++ e2.inBio)
    (hv : ∀ x ∈ pre, ValidRec x) (hd : dataOf pre = [])
    (hpl : e2.plain = e.plain) (hin : e2.inEof = e.inEof) (hg : e2.gotCN = e.gotCN)
    (hne : e.phase ≠ .established) : OpRel e .handshake e' r := by
  obtain ⟨recs, h1, h2, h3, _, _⟩ := h.consumed
  have hgg := h.hs_gotCN rfl
  have hd2 : dataOf recs = [] := by
    have : e2.plain ++ dataOf recs = e2.plain ++ [] := by simpa [got, hpp] using h3
    exact List.append_cancel_left this
  refine mk_hs e e' r (pre ++ recs) (by simp [encodeAll_append, hb, h1]) ?_ ?_ ?_ ?_ ?_
    (fun hp => absurd hp hne) ?_ ?_
  · intro x hx; simp only [List.mem_append] at hx; rcases hx with hx | hx
    · exact hv x hx
    · exact h2 x hx
  · simp [dataOf_append, hd, hd2]
  · rw [hpp, hpl]
  · rw [h.inEof, hin]
  · rw [hgg, hg]
  · intro hr; have := h.wantRead hr; rw [hin] at this; exact this
  · intro hr; have := h.eofError hr; rw [hin] at this; exact this

theorem handshake_rel (e : Engine) :
    OpRel e .handshake (Engine.handshake 3 e).1 (Engine.handshake 3 e).2 := by
  rw [Engine.handshake]
  split
  · rename_i hph
    exact mk_hs e e _ [] (by simp [encodeAll]) (by simp) (by simp [dataOf]) rfl rfl rfl
      (fun _ => ⟨rfl, hph⟩) (by simp) (by simp)
  · rename_i hph
    have hne : e.phase ≠ .established := by simp [hph]
    exact (rel_cWait 1 _ rfl).after_hs (pre := []) (handshake_plain _ _) (by simp [encodeAll])
      (by simp) (by simp [dataOf]) rfl rfl rfl hne
  · rename_i hph
    have := rel_cWait 2 e hph
    rw [Engine.handshake] at this
    simpa [hph] using this
  · rename_i hph
    have hne : e.phase ≠ .established := by simp [hph]
    split
    · rename_i rest hparse
      obtain ⟨hb, _⟩ := parse_sound hparse
      exact (rel_sFin 1 _ rfl).after_hs (pre := [.hs 1]) (handshake_plain _ _)
        (by simp [encodeAll, hb]) (by simp [ValidRec]) (by simp [dataOf]) rfl rfl rfl hne
    · exact proto_hs e hne
    · rename_i hparse
      exact starve_hs e (Or.inr (Or.inl hph)) hparse
  · rename_i hph
    have := rel_sFin 2 e hph
    rw [Engine.handshake] at this
    simpa [hph] using this

theorem runOp_rel (e : Engine) (c : Call) : OpRel e c (runOp e c).1 (runOp e c).2 := by
  cases c with
  | handshake => exact handshake_rel e
  | read n => exact read_rel e n
  | unwrap => exact unwrap_rel e

end AnyioModel.Stream.Tls
