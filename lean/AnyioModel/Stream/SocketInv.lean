/-
Preservation of the invariant `Inv` of the `StreamProtocol` + `SocketStream` model by every
event (`inv_step`).
-/
import AnyioModel.Stream.SocketProofs

namespace AnyioModel.Stream.Socket

set_option hygiene false in
/-- one event kind: split `step`, discharge every field of the invariant -/
local macro "inv_auto" : tactic => `(tactic|
  (obtain ⟨h1, h2, h2', h3, h4, h5, h6, h6', h7, h8, h9, h10, h11, h12, h13, h14, h14'⟩ := id hi
   simp only [step] at hs
   repeat' split at hs
   all_goals first
    | contradiction
    | (cases hs; assumption)
    | (cases hs; constructor <;> simp [upd_apply, setReadEvent, openGate] <;> grind)))

theorem inv_receive {s s' : State} {t n : Nat} {o : Out} (hi : Inv s)
    (hs : step s (.receive t n) = some (s', o)) : Inv s' := by inv_auto

theorem inv_send {s s' : State} {t : Nat} {it : Bytes} {o : Out} (hi : Inv s)
    (hs : step s (.send t it) = some (s', o)) : Inv s' := by inv_auto

theorem inv_sendEof {s s' : State} {t : Nat} {o : Out} (hi : Inv s)
    (hs : step s (.sendEof t) = some (s', o)) : Inv s' := by inv_auto

theorem inv_aclose {s s' : State} {t : Nat} {o : Out} (hi : Inv s)
    (hs : step s (.aclose t) = some (s', o)) : Inv s' := by inv_auto

theorem inv_fc {s s' : State} {t : Nat} {o : Out} (hi : Inv s)
    (hs : step s (.fc t) = some (s', o)) : Inv s' := by inv_auto

theorem inv_dataReceived {s s' : State} {c : Bytes} {o : Out} (hi : Inv s)
    (hs : step s (.dataReceived c) = some (s', o)) : Inv s' := by inv_auto

theorem inv_eofReceived {s s' : State} {o : Out} (hi : Inv s)
    (hs : step s .eofReceived = some (s', o)) : Inv s' := by inv_auto

theorem inv_connectionLost {s s' : State} {b : Bool} {o : Out} (hi : Inv s)
    (hs : step s (.connectionLost b) = some (s', o)) : Inv s' := by inv_auto

theorem inv_pauseWriting {s s' : State} {o : Out} (hi : Inv s)
    (hs : step s .pauseWriting = some (s', o)) : Inv s' := by inv_auto

theorem inv_resumeWriting {s s' : State} {o : Out} (hi : Inv s)
    (hs : step s .resumeWriting = some (s', o)) : Inv s' := by inv_auto

/-- the tail of `receive`, run by the (not cancelled) task inside the receive guard; `r` is the
transport's reading flag after the `finally: pause_reading()` (woken) or unchanged (checkpoint
branch) -/
theorem inv_recvFinish {s : State} {t : Nat} {r : Bool} (hi : Inv s) (hc : s.canc t = false)
    (hpc : (s.pc t = .recvWoken ∧ r = false) ∨ (s.pc t = .recvChk ∧ r = s.reading)) :
    Inv (recvFinish { s with reading := r } t).1 := by
  obtain ⟨h1, h2, h2', h3, h4, h5, h6, h6', h7, h8, h9, h10, h11, h12, h13, h14, h14'⟩ := id hi
  unfold recvFinish
  split
  · rename_i hq
    simp only at hq
    constructor <;> simp [upd_apply] <;> grind
  · rename_i c rest hq
    simp only at hq
    have hcne : c ≠ [] := h5 c (by simp [hq])
    have hrest : ∀ c' ∈ rest, c' ≠ [] := fun c' hc' => h5 c' (by simp [hq, hc'])
    have hre : s.readEvent = true := h10 (by simp [hq])
    have h7' : s.arrived = s.delivered ++ (c ++ rest.flatten) := by simpa [hq] using h7
    by_cases hlen : c.length > s.arg t
    · have hdrop : c.drop (s.arg t) ≠ [] := by simp; omega
      simp only [hlen, if_true]
      constructor
      case pref =>
        simp only [h7', List.flatten_cons, List.append_assoc]
        rw [← List.append_assoc (c.take _), List.take_append_drop]
      case chunks_ne => simp; exact ⟨by omega, hrest⟩
      all_goals (simp [upd_apply] <;> grind)
    · simp only [hlen, if_false]
      constructor
      case pref => simp [h7']
      case chunks_ne => simpa using hrest
      all_goals (simp [upd_apply] <;> grind)

/-! `send` after its checkpoint, run by the (not cancelled) task inside the send guard -/

theorem inv_setWritten {s : State} (w : Bytes) (hi : Inv s) : Inv { s with written := w } := by
  obtain ⟨h1, h2, h2', h3, h4, h5, h6, h6', h7, h8, h9, h10, h11, h12, h13, h14, h14'⟩ := hi
  exact ⟨h1, h2, h2', h3, h4, h5, h6, h6', h7, h8, h9, h10, h11, h12, h13, h14, h14'⟩

theorem inv_sendExit {s : State} {t : Nat} (hi : Inv s) (hc : s.canc t = false)
    (hpc : s.pc t = .sendChk ∨ s.pc t = .sendWait ∨ s.pc t = .sendWoken) :
    Inv { s with sowner := none, pc := upd s.pc t .idle } := by
  obtain ⟨h1, h2, h2', h3, h4, h5, h6, h6', h7, h8, h9, h10, h11, h12, h13, h14, h14'⟩ := id hi
  constructor <;> simp only [upd_apply] <;> grind

theorem inv_sendBlock {s : State} {t : Nat} (hi : Inv s) (hc : s.canc t = false)
    (hpc : s.pc t = .sendChk) (hw : s.writeOpen = false) :
    Inv { s with pc := upd s.pc t .sendWait } := by
  obtain ⟨h1, h2, h2', h3, h4, h5, h6, h6', h7, h8, h9, h10, h11, h12, h13, h14, h14'⟩ := id hi
  constructor <;> simp only [upd_apply] <;> grind

theorem inv_sendWrite {s : State} {t : Nat} (hi : Inv s) (hc : s.canc t = false)
    (hpc : s.pc t = .sendChk) : Inv (sendWrite s t).1 := by
  have hx := inv_sendExit hi hc (Or.inl hpc)
  by_cases hl : s.lost = true
  · by_cases hw : s.writeOpen = true
    · simp only [sendWrite, if_pos hl, if_pos hw]
      repeat' split
      all_goals exact hx
    · have hw' : s.writeOpen = false := by simpa using hw
      simp only [sendWrite, if_pos hl, if_neg hw]
      repeat' split
      all_goals first | exact hx | exact inv_sendBlock hi hc hpc hw'
  · by_cases hw : s.writeOpen = true
    · simp only [sendWrite, if_neg hl, if_pos hw]
      repeat' split
      all_goals first
        | exact hx
        | exact inv_sendExit (s := { s with written := s.written ++ s.item t })
            (inv_setWritten _ hi) hc (Or.inl hpc)
    · have hw' : s.writeOpen = false := by simpa using hw
      simp only [sendWrite, if_neg hl, if_neg hw]
      repeat' split
      all_goals first
        | exact hx
        | exact inv_sendBlock (s := { s with written := s.written ++ s.item t })
            (inv_setWritten _ hi) hc hpc hw'

theorem inv_taskStep {s s' : State} {t : Nat} {o : Out} (hi : Inv s)
    (hs : step s (.step t) = some (s', o)) : Inv s' := by
  obtain ⟨h1, h2, h2', h3, h4, h5, h6, h6', h7, h8, h9, h10, h11, h12, h13, h14, h14'⟩ := id hi
  simp only [step] at hs
  split at hs
  · split at hs
    all_goals first
      | contradiction
      | (cases hs; constructor <;> simp [upd_apply] <;> grind)
  · rename_i hc
    simp only [Bool.not_eq_true] at hc
    split at hs
    · contradiction
    · contradiction
    · contradiction
    · rename_i hpc
      have h' := congrArg Prod.fst (Option.some.inj hs)
      simp only at h'; subst h'
      exact inv_recvFinish hi hc (Or.inl ⟨hpc, rfl⟩)
    · rename_i hpc
      have h' := congrArg Prod.fst (Option.some.inj hs)
      simp only at h'; subst h'
      exact inv_recvFinish (r := s.reading) hi hc (Or.inr ⟨hpc, rfl⟩)
    · rename_i hpc
      have h' := congrArg Prod.fst (Option.some.inj hs)
      simp only at h'; subst h'
      exact inv_sendWrite hi hc hpc
    · cases hs; constructor <;> simp [upd_apply] <;> grind
    · cases hs; constructor <;> simp [upd_apply] <;> grind

theorem inv_step {s s' : State} {e : Ev} {o : Out} (hi : Inv s)
    (hs : step s e = some (s', o)) : Inv s' := by
  cases e with
  | receive t n => exact inv_receive hi hs
  | send t it => exact inv_send hi hs
  | sendEof t => exact inv_sendEof hi hs
  | aclose t => exact inv_aclose hi hs
  | step t => exact inv_taskStep hi hs
  | fc t => exact inv_fc hi hs
  | dataReceived c => exact inv_dataReceived hi hs
  | eofReceived => exact inv_eofReceived hi hs
  | connectionLost b => exact inv_connectionLost hi hs
  | pauseWriting => exact inv_pauseWriting hi hs
  | resumeWriting => exact inv_resumeWriting hi hs

end AnyioModel.Stream.Socket
